#!/bin/bash
# merge a property branch built in a sub-worktree: resolve the two generated files mechanically
set -e
cd "$(dirname "$0")/.."
b="$1"
git merge --no-ff --no-commit "$b" || true
# generated files: root import list and manifest
(cd lean && ls GinjaxVerif/Properties/*.lean | sed 's#/#.#g; s#\.lean$##; s#^#import #' | sort > GinjaxVerif.lean)
python3 tools/gen_manifest.py
git add lean/GinjaxVerif.lean MANIFEST.json
for f in $(git diff --name-only --diff-filter=U | grep "^evidence/" || true); do git checkout --ours "$f"; git add "$f"; done
if git diff --name-only --diff-filter=U | grep -q .; then
  echo "UNRESOLVED:"; git diff --name-only --diff-filter=U; exit 1
fi
for f in $(git diff --name-only --diff-filter=U | grep "^evidence/"); do git checkout --ours "$f"; git add "$f"; done
git commit -q -m "Merge branch $b"
git log --oneline | head -1
