#!/bin/bash
# tools/run_all.sh <tier> [ids...] : build, then run the given (default: all claimed) checks sequentially, print a summary
cd "$(dirname "$0")/.."
tier="${1:-quick}"; shift
ids="$@"
if [ -z "$ids" ]; then ids=$(python3 -c "import json; print(' '.join(c['property_id'] for c in json.load(open('MANIFEST.json'))['checks']))"); fi
(cd lean && lake build GinjaxVerif gvdriver 2>&1 | tail -1)
for p in $ids; do
  s=$(date +%s)
  out=$(./check $p --tier $tier 2>/dev/null | grep -E "VIOLATION|KNOWN-FINDING" | head -3)
  rc=${PIPESTATUS[0]}
  e=$(( $(date +%s) - s ))
  echo "$p tier=$tier seed=${VERIF_SEED:-0} wall=${e}s ${out:-clean}"
done
