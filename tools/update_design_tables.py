#!/usr/bin/env python3
"""Refresh the generated tables inside DESIGN.md (between the GENERATED markers)."""
import os, re, subprocess
here = os.path.dirname(os.path.dirname(os.path.abspath(__file__)))
tables = subprocess.run(["python3", os.path.join(here, "tools", "gen_tables.py")], capture_output=True, text=True).stdout
p = os.path.join(here, "DESIGN.md")
s = open(p).read()
block = "<!-- GENERATED-TABLES-BEGIN -->\n" + tables + "\n<!-- GENERATED-TABLES-END -->"
if "GENERATED-TABLES-PLACEHOLDER" in s:
    s = s.replace("GENERATED-TABLES-PLACEHOLDER", block)
else:
    s = re.sub(r"<!-- GENERATED-TABLES-BEGIN -->.*?<!-- GENERATED-TABLES-END -->", lambda m: block, s, flags=re.S)
open(p, "w").write(s)
print("tables refreshed")
