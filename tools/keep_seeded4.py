#!/usr/bin/env python3
"""fourth-round seeded changes: stored as seeded/<PROP>-s<i>"""
import json, os, shutil, sys, subprocess
src, prop = sys.argv[1], sys.argv[2]
results = sys.argv[3:]
head = subprocess.run(["git", "-C", "/repo", "rev-parse", "--short", "HEAD"], capture_output=True, text=True).stdout.strip()
for i, m in enumerate(sorted(d for d in os.listdir(src) if d.startswith("m") and os.path.isdir(os.path.join(src, d)))):
    dst = f"/verif/seeded/{prop}-s{m[1:]}"
    os.makedirs(dst, exist_ok=True)
    for f in ("patch.diff", "demo.py", "meta.json"):
        shutil.copy(os.path.join(src, m, f), os.path.join(dst, f))
    meta = json.load(open(os.path.join(dst, "meta.json")))
    meta["breaks_property"] = prop
    meta["round"] = 4
    meta["confirmed"] = {"repo_head": head,
        "how": "tools/try_seeded4.sh: scratch worktree of /repo at HEAD; demo.py exits 0 on the clean tree; patch applied; demo.py exits 1; whole test suite (pytest -n 4) passes with the patch; then `GINJAX_SRC=<worktree>/src ./check %s --tier quick`; worktree removed" % prop,
        "check_result": results[i] if i < len(results) else ""}
    json.dump(meta, open(os.path.join(dst, "meta.json"), "w"), indent=1)
    print("kept", dst)
