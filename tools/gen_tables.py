#!/usr/bin/env python3
"""Print markdown tables for DESIGN.md: per-property obligations and seeded changes."""
import glob, json, os
here = os.path.dirname(os.path.dirname(os.path.abspath(__file__)))
print("### Proof obligations per property (from lean/obligations/*.json)\n")
print("| Id | # theorems audited | Lean modules | theorems |")
print("|---|---|---|---|")
for f in sorted(glob.glob(os.path.join(here, "lean/obligations/C*.json"))):
    pid = os.path.basename(f)[:-5]
    o = json.load(open(f))
    names = [t.split(".")[-1] for t in o["theorems"]]
    print(f"| {pid} | {len(names)} | {', '.join(m.replace('GinjaxVerif.', '') for m in o['modules'])} | {', '.join('`'+n+'`' for n in names)} |")
print("\n### Seeded changes (seeded/<id>/) and which check catches them\n")
print("| Seeded change | what it needs to manifest | result |")
print("|---|---|---|")
for d in sorted(glob.glob(os.path.join(here, "seeded/*/meta.json"))):
    m = json.load(open(d))
    name = os.path.basename(os.path.dirname(d))
    need = str(m.get("what_it_needs_to_manifest", "")).replace("\n", " ").replace("|", "/")[:220]
    res = m.get("confirmed", {}).get("check_result", "").replace("|", "/")
    print(f"| {name}: {str(m.get('title',''))[:90]} | {need} | {res} |")
