#!/usr/bin/env python3
"""Record the content hashes of every property's anchor files (properties.jsonl: anchors.files) for the
source tree the checks were last validated on.  harness/run.py compares them with the tree it is run
against: when an anchor file differs, the check makes a second pass with a different random stream
(deeper differential run on changed code; never an alarm by itself)."""
import hashlib, json, os, sys
here = os.path.dirname(os.path.dirname(os.path.abspath(__file__)))
root = sys.argv[1] if len(sys.argv) > 1 else "/repo"
out = {}
for l in open(os.path.join(here, "properties.jsonl")):
    p = json.loads(l)
    out[p["id"]] = {f: hashlib.sha256(open(os.path.join(root, f), "rb").read()).hexdigest() for f in p["anchors"]["files"]}
json.dump(out, open(os.path.join(here, "harness", "anchors.json"), "w"), indent=1)
print("recorded anchors of", len(out), "properties from", root)
