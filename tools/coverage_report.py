#!/usr/bin/env python3
"""tools/coverage_report.py [files...]: union of scratch/coverage/*.json (written by checks run with
VERIF_COVERAGE=1) against the executable lines of the implementation; lists, per function, the
lines no check executed.  Diagnostic for generator quality (which modelled code the correspondence
inputs never reach); it is not part of any verdict."""
import ast, glob, json, os, sys

SRC = os.environ.get("GINJAX_SRC", "/repo/src")
VERIF = os.path.dirname(os.path.dirname(os.path.abspath(__file__)))
SKIP_FUNCS = ("plot", "__str__", "__repr__", "__hash__")


def exec_lines(path):
    code = compile(open(path).read(), path, "exec")
    out = set()
    stack = [code]
    while stack:
        c = stack.pop()
        for _, _, ln in c.co_lines():
            if ln:
                out.add(ln)
        for k in c.co_consts:
            if hasattr(k, "co_lines"):
                stack.append(k)
    return out


def func_spans(path):
    tree = ast.parse(open(path).read())
    spans = []

    def walk(node, prefix):
        for ch in ast.iter_child_nodes(node):
            if isinstance(ch, (ast.FunctionDef, ast.AsyncFunctionDef, ast.ClassDef)):
                name = prefix + ch.name
                if not isinstance(ch, ast.ClassDef):
                    body0 = ch.body[0]
                    doc_end = body0.end_lineno if (isinstance(body0, ast.Expr) and isinstance(getattr(body0, "value", None), ast.Constant) and isinstance(body0.value.value, str)) else ch.lineno
                    spans.append((ch.lineno, ch.end_lineno, name, doc_end))
                walk(ch, name + ".")
    walk(tree, "")
    return spans


def main():
    hits = {}
    per_check = {}
    for f in sorted(glob.glob(os.path.join(VERIF, "scratch", "coverage", "*.json"))):
        d = json.load(open(f))
        tag = os.path.basename(f)[:-5]
        for fn, lns in d.items():
            hits.setdefault(fn, set()).update(lns)
            per_check.setdefault(fn, {})[tag] = len(lns)
    files = sys.argv[1:] or sorted(
        os.path.relpath(p, SRC) for p in glob.glob(os.path.join(SRC, "ginjax", "**", "*.py"), recursive=True))
    summary = {}
    for fn in files:
        path = os.path.join(SRC, fn)
        ex = exec_lines(path)
        h = hits.get(fn, set())
        spans = func_spans(path)
        tot = hit = 0
        rows = []
        for (a, b, name, doc_end) in spans:
            # innermost ownership: lines of nested defs are reported with the nested def
            inner = [(x, y) for (x, y, n2, _) in spans if a < x and y <= b]
            own = {l for l in ex if a < l <= b and l > doc_end and not any(x <= l <= y for x, y in inner)}
            if not own:
                continue
            miss = sorted(own - h)
            if any(name.split(".")[-1].startswith(s) for s in SKIP_FUNCS):
                continue
            tot += len(own); hit += len(own) - len(miss)
            if miss:
                rows.append((name, len(miss), len(own), miss))
        summary[fn] = (hit, tot)
        print(f"== {fn}: {hit}/{tot} executable function-body lines reached")
        for name, m, t, miss in rows:
            print(f"   {name}: {m}/{t} not reached: {miss if len(miss) <= 30 else str(miss[:30]) + '...'}")
    json.dump({k: {"reached": v[0], "total": v[1]} for k, v in summary.items()},
              open(os.path.join(VERIF, "scratch", "coverage_summary.json"), "w"), indent=1)


if __name__ == "__main__":
    main()
