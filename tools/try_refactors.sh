#!/bin/bash
# tools/try_refactors.sh <refactors-dir> : behaviour-preserving rewrites must NOT raise an alarm.
# For each r<i>/patch.diff: apply to a scratch worktree of /repo, run the related quick checks.
cd "$(dirname "$0")/.."
dir="$1"
declare -A rel
rel[r1]="C02 C01 C03 C14 C10"
rel[r2]="C04 C01 C11 C06"
rel[r3]="C05 C04 C08 C14 C11"
rel[r4]="C12 C13 C10"
rel[r5]="C13 C20 C14 C16"
rel[r6]="C05 C02 C01"
rel[r7]="C03"
rel[r8]="C11 C06 C08 C09 C14"
rel[r9]="C18 C19"
rel[r10]="C17 C16"
rel[r11]="C15"
rel[r12]="C20 C10 C09 C07"
(cd lean && lake build GinjaxVerif gvdriver 2>&1 | tail -1)
wt=/tmp/repo-refac
for r in r1 r2 r3 r4 r5 r6 r7 r8 r9 r10 r11 r12; do
  [ -f "$dir/$r/patch.diff" ] || continue
  git -C /repo worktree remove --force $wt >/dev/null 2>&1
  git -C /repo worktree add --detach $wt >/dev/null 2>&1 || exit 2
  if ! git -C $wt apply "$dir/$r/patch.diff" 2>/dev/null; then echo "$r: PATCH DOES NOT APPLY"; continue; fi
  for p in ${rel[$r]}; do
    [ -f harness/props/$(echo $p | tr A-Z a-z).py ] || continue
    out=$(GINJAX_SRC=$wt/src ./check $p --tier quick 2>/dev/null | grep -E "VIOLATION" | head -2)
    echo "$r $p: ${out:-silent (ok)}"
  done
done
git -C /repo worktree remove --force $wt >/dev/null 2>&1
