#!/bin/bash
# tools/run_seeds.sh <tier> <seed...> : all claimed checks for several seeds (flakiness / false-alarm hunt on the clean tree)
cd "$(dirname "$0")/.."
tier="$1"; shift
for s in "$@"; do
  VERIF_SEED=$s tools/run_all.sh $tier
done
