#!/usr/bin/env python3
"""Regenerate MANIFEST.json from harness/registry.py and properties.jsonl."""
import json, os, sys
here = os.path.dirname(os.path.dirname(os.path.abspath(__file__)))
sys.path.insert(0, os.path.join(here, "harness"))
import registry

props = [json.loads(l) for l in open(os.path.join(here, "properties.jsonl"))]
checks, na = [], []
for p in props:
    pid = p["id"]
    if pid in registry.CLAIMED:
        r = registry.CLAIMED[pid]
        checks.append({
            "property_id": pid,
            "quick_cmd": f"./check {pid} --tier quick",
            "thorough_cmd": f"./check {pid} --tier thorough",
            "evidence_file": f"evidence/{pid}.json",
            "replay_cmd_template": f"./check {pid} --replay {{path}}",
            "engine": "lean4-model+correspondence",
            "level_claimed": {"category": "proof", "text": r["text"], "design_ref": r["design_ref"]},
            "level_note": r["note"],
            "technique": r["technique"],
        })
    else:
        na.append({"property_id": pid, "reason": getattr(registry, "NOT_APPLICABLE", {}).get(pid, registry.PLANNED_REASON)})
m = {
    "version": 1,
    "setup_cmd": "cd lean && lake build GinjaxVerif gvdriver",
    "hooks": {
        "guard": "GINJAX_VERIF",
        "enable": "none needed: every observation point is a public function or method; no source hook is installed",
        "baseline_off_cmd": "cd /repo && /venv/bin/python -m pytest -ra -q -p no:cacheprovider --timeout=900 --continue-on-collection-errors",
        "source_commits": [],
        "add_only": True,
    },
    "engines": [{
        "name": "lean4-model+correspondence",
        "path": "lean/ (model, theorems, driver) + harness/ (correspondence, oracle)",
        "serves_properties": [c["property_id"] for c in checks],
        "kind_free_text": "machine-checked proofs in Lean 4 about a hand-written executable model; the model is compiled into a line-protocol driver and diffed against the real implementation on generated inputs on every run",
    }],
    "checks": checks,
    "not_applicable": na,
    "notes": "fix: commits in /repo and recorded findings are listed in known_findings.txt; see DESIGN.md",
}
json.dump(m, open(os.path.join(here, "MANIFEST.json"), "w"), indent=1)
print(f"{len(checks)} claimed, {len(na)} not claimed")
