#!/usr/bin/env python3
"""Regenerate MANIFEST.json from harness/registry.py and properties.jsonl."""
import json, os, sys
here = os.path.dirname(os.path.dirname(os.path.abspath(__file__)))
sys.path.insert(0, os.path.join(here, "harness"))
import glob
COMMON_NOTE = (
    "Trusted: Lean 4 kernel with axioms propext/Classical.choice/Quot.sound only (audited per theorem "
    "on every run, no sorry/native_decide/own axioms); the hand-written Lean model is tied to /repo by "
    "the correspondence run of this check (model driver vs real ginjax imported from /repo/src on the "
    "same generated inputs); numpy/jax primitives are modelled, not verified. "
)
PLANNED_REASON = (
    "check not built yet in this round (design in DESIGN.md section 5); no claim is made until its Lean "
    "model, theorems and correspondence run exist"
)
CLAIMED = {}
for f in sorted(glob.glob(os.path.join(here, "harness", "registry", "C*.json"))):
    CLAIMED[os.path.basename(f)[:-5]] = json.load(open(f))
NOT_APPLICABLE = {}
naf = os.path.join(here, "harness", "registry", "not_applicable.json")
if os.path.exists(naf):
    NOT_APPLICABLE = json.load(open(naf))

props = [json.loads(l) for l in open(os.path.join(here, "properties.jsonl"))]
checks, na = [], []
for p in props:
    pid = p["id"]
    if pid in CLAIMED:
        r = CLAIMED[pid]
        checks.append({
            "property_id": pid,
            "quick_cmd": f"./check {pid} --tier quick",
            "thorough_cmd": f"./check {pid} --tier thorough",
            "evidence_file": f"evidence/{pid}.json",
            "replay_cmd_template": f"./check {pid} --replay {{path}}",
            "engine": "lean4-model+correspondence",
            "level_claimed": {"category": "proof", "text": r["text"], "design_ref": r["design_ref"]},
            "level_note": COMMON_NOTE + r["note"],
            "technique": r["technique"],
        })
    else:
        na.append({"property_id": pid, "reason": NOT_APPLICABLE.get(pid, PLANNED_REASON)})
m = {
    "version": 1,
    "setup_cmd": "cd lean && lake build GinjaxVerif gvdriver",
    "hooks": {
        "guard": "GINJAX_VERIF",
        "enable": "none needed: every observation point is a public function or method; no source hook is installed",
        "baseline_off_cmd": "cd /repo && /venv/bin/python -m pytest -ra -q -p no:cacheprovider --timeout=900 --continue-on-collection-errors",
        "source_commits": [],
        "add_only": True,
    },
    "engines": [{
        "name": "lean4-model+correspondence",
        "path": "lean/ (model, theorems, driver) + harness/ (correspondence, oracle)",
        "serves_properties": [c["property_id"] for c in checks],
        "kind_free_text": "machine-checked proofs in Lean 4 about a hand-written executable model; the model is compiled into a line-protocol driver and diffed against the real implementation on generated inputs on every run",
    }],
    "checks": checks,
    "not_applicable": na,
    "notes": "fix: commits in /repo and recorded findings are listed in known_findings.txt; see DESIGN.md",
}
json.dump(m, open(os.path.join(here, "MANIFEST.json"), "w"), indent=1)
print(f"{len(checks)} claimed, {len(na)} not claimed")
