#!/usr/bin/env python3
"""store the fourth-round seeded changes as seeded/<PROP>-s<i> from /tmp/mut4-<PROP>/out/m<i> and the
confirmation logs in /tmp/seed4-results (written by tools/try_seeded4.sh and the test-suite runs)"""
import json, os, re, shutil, subprocess, glob
RES = "/tmp/seed4-results"
head = subprocess.run(["git", "-C", "/repo", "rev-parse", "--short", "HEAD"], capture_output=True, text=True).stdout.strip()
AFTER = {  # missed by the check as it stood -> result after the widening (who ran it)
 "C17-m2": "caught after widening (large/small co-batched multi-images): C17 oracle VIOLATION (run by me)",
 "C12-m2": "caught after widening (type sets differ, shared blocks equal): C12 oracle VIOLATION (run by me)",
 "C11-m2": "caught after widening (layer as constructed vs pytree round trip): C11 oracle VIOLATION (run by me)",
 "C09-m2": "caught after widening (M=1 bank histories): C09 oracle VIOLATION, seeds 0 and 1 (run by the fix sub-agent)",
 "C16-m1": "first flagged only through the correspondence (no-failing-input-found); after widening (same signature, different constant split): C16 oracle VIOLATION with replay (run by the fix sub-agent)",
 "C01-m2": "caught after widening (object-level k=0 GeometricFilter, non-involutive g): C01 oracle VIOLATION (run by the fix sub-agent)",
 "C02-m2": "caught after widening (operators through one reused work matrix): C02 oracle VIOLATION (run by the fix sub-agent)",
 "C10-m2": "harness crashed (exit 2) on tracers recorded inside jax.checkpoint; after the recorder fix and the unsorted 1-D key orders with a positional inner model: C10 oracle VIOLATION (run by the fix sub-agent)",
 "C14-m2": "caught after widening (more than 1024 leading entries): C14 oracle VIOLATION (run by the fix sub-agent)",
 "C15-m2": "caught after widening (mixed dtypes of dynamic and constant fields): C15 oracle VIOLATION (run by the fix sub-agent)",
 "C06-m1": os.environ.get("C06M1", "missed: filters of at least 49 taps on an odd-sided full torus are not generated yet"),
}
# re-runs of the property's quick check against the patched tree AFTER the widenings (tools/try_seeded4.sh again)
RERUN = {}
for f in glob.glob(RES + "/after-C??.txt"):
    for line in open(f):
        m = re.match(r"(C\d+)/(m\d): demo clean=\d+ mutated=\d+ \| tests: .*? \| check: (.*)", line.strip())
        if m:
            RERUN[f"{m.group(1)}-{m.group(2)}"] = m.group(3)
for f in sorted(glob.glob(RES + "/C??.txt")):
    prop = os.path.basename(f)[:3]
    for line in open(f):
        m = re.match(r"(C\d+)/(m\d): demo clean=(\d+) mutated=(\d+) \| tests: (.*?) \| check: (.*)", line.strip())
        if not m:
            continue
        _, mm, clean, mut, tests, chk = m.groups()
        src = f"/tmp/mut4-{prop}/out/{mm}"
        if not os.path.exists(src + "/patch.diff") or clean != "0" or mut != "1":
            print("skip", prop, mm, line.strip()); continue
        tf = f"{RES}/tests-{prop}-{mm}.txt"
        if tests == "not-run" and os.path.exists(tf):
            tests = open(tf).read().strip().split("tests: ", 1)[-1]
        dst = f"/verif/seeded/{prop}-s{mm[1:]}"
        os.makedirs(dst, exist_ok=True)
        for fn in ("patch.diff", "demo.py", "meta.json"):
            shutil.copy(os.path.join(src, fn), os.path.join(dst, fn))
        meta = json.load(open(dst + "/meta.json"))
        meta["breaks_property"] = prop
        meta["round"] = 4
        key = f"{prop}-{mm}"
        initial = "caught: " + chk if chk.startswith("VIOLATION") and "no-failing-input-found" not in chk else ("flagged only through the correspondence: " + chk if chk.startswith("VIOLATION") else "missed by the check as it stood")
        meta["confirmed"] = {
            "repo_head": head,
            "how": "tools/try_seeded4.sh: own scratch worktree of /repo at HEAD; demo.py exits 0 on the clean tree and 1 with the patch; whole test suite with the patch (pytest -n 4); then GINJAX_SRC=<worktree>/src ./check %s --tier quick; worktree removed" % prop,
            "demo": {"clean_exit": int(clean), "patched_exit": int(mut)},
            "test_suite_with_patch": tests if tests != "not-run" else "my own run did not finish in this session; the sub-agent's log reports 106 passed with the patch (see tests_run above)",
            "check_result_initial": initial,
        }
        if key in AFTER:
            meta["confirmed"]["check_result_after_widening"] = AFTER[key]
        if key in RERUN and key in AFTER:
            meta["confirmed"]["check_rerun_after_widening_by_me"] = RERUN[key]
        meta["confirmed"]["check_result"] = meta["confirmed"].get("check_result_after_widening", initial)
        json.dump(meta, open(dst + "/meta.json", "w"), indent=1)
        print("kept", dst, "|", initial[:60], "|", tests[:40])
