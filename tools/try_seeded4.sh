#!/bin/bash
# tools/try_seeded4.sh <dir-with-m*> <PROP> [tier] [runtests]
# confirm fourth-round seeded changes in an own scratch worktree of /repo (never /repo itself):
#   demo.py exits 0 on the clean tree, 1 with the patch; the repository's test suite still passes with the patch
#   (pytest -n 4, whole suite, when runtests=1); then the property's check is run against the patched tree.
set -u
dir="$1"; prop="$2"; tier="${3:-quick}"; runtests="${4:-1}"
wt=/tmp/repo-seed4-$prop
git -C /repo worktree remove --force $wt >/dev/null 2>&1
git -C /repo worktree add --detach $wt >/dev/null 2>&1 || exit 2
export JAX_PLATFORMS=cpu WANDB_MODE=disabled PYTHONDONTWRITEBYTECODE=1
for m in "$dir"/m*; do
  [ -f "$m/patch.diff" ] || continue
  name=$(basename "$m")
  GINJAX_SRC=$wt/src PYTHONPATH=$wt/src timeout 900 /venv/bin/python "$m/demo.py" >/dev/null 2>&1; clean=$?
  if ! git -C $wt apply --check "$m/patch.diff" 2>/dev/null; then echo "$prop/$name: PATCH DOES NOT APPLY to current HEAD"; continue; fi
  git -C $wt apply "$m/patch.diff"
  GINJAX_SRC=$wt/src PYTHONPATH=$wt/src timeout 900 /venv/bin/python "$m/demo.py" >/dev/null 2>&1; mutated=$?
  tests="not-run"
  if [ "$runtests" = "1" ]; then
    tests=$(cd $wt && PYTHONPATH=$wt/src timeout 3000 /venv/bin/python -m pytest tests -q -p no:cacheprovider -n 4 --timeout=900 2>&1 | tail -1)
  fi
  out=$(cd /verif && GINJAX_SRC=$wt/src ./check $prop --tier $tier 2>/dev/null | grep VIOLATION | head -1)
  git -C $wt checkout -q -- .
  echo "$prop/$name: demo clean=$clean mutated=$mutated | tests: $tests | check: ${out:-no violation}"
done
git -C /repo worktree remove --force $wt >/dev/null 2>&1
