#!/bin/bash
# tools/try_seeded.sh <seeded-dir> <PROP> [tier]  : confirm a seeded change and run our check against it
# uses a scratch worktree of /repo (never /repo itself), removed by the caller when done
set -u
dir="$1"; prop="$2"; tier="${3:-quick}"
wt=/tmp/repo-seed
git -C /repo worktree remove --force $wt >/dev/null 2>&1
git -C /repo worktree add --detach $wt >/dev/null 2>&1 || exit 2
export JAX_PLATFORMS=cpu WANDB_MODE=disabled
for m in "$dir"/m*; do
  [ -f "$m/patch.diff" ] || continue
  name=$(basename "$m")
  GINJAX_SRC=$wt/src PYTHONPATH=$wt/src timeout 900 /venv/bin/python "$m/demo.py" >/dev/null 2>&1; clean=$?
  if ! git -C $wt apply --check "$m/patch.diff" 2>/dev/null; then echo "$prop/$name: PATCH DOES NOT APPLY to current HEAD"; continue; fi
  git -C $wt apply "$m/patch.diff"
  GINJAX_SRC=$wt/src PYTHONPATH=$wt/src timeout 900 /venv/bin/python "$m/demo.py" >/dev/null 2>&1; mutated=$?
  out=$(cd /verif && GINJAX_SRC=$wt/src ./check $prop --tier $tier 2>/dev/null | grep VIOLATION | head -1); rc=$?
  git -C $wt checkout -q -- . 
  echo "$prop/$name: demo clean=$clean mutated=$mutated | check: ${out:-no violation}"
done
git -C /repo worktree remove --force $wt >/dev/null 2>&1
