#!/bin/bash
# tools/run_all_par.sh <tier> <jobs> [ids...] : build once, then run the given (default: all claimed) checks <jobs> at a time
# (the Lean build is done up front, so the per-check `lake build` is a no-op and concurrent runs do not collide)
cd "$(dirname "$0")/.."
tier="${1:-quick}"; jobs="${2:-5}"; shift; shift
ids="$@"
if [ -z "$ids" ]; then ids=$(python3 -c "import json; print(' '.join(c['property_id'] for c in json.load(open('MANIFEST.json'))['checks']))"); fi
(cd lean && lake build GinjaxVerif gvdriver 2>&1 | tail -1)
one() {
  p=$1; tier=$2
  s=$(date +%s)
  out=$(./check $p --tier $tier 2>/dev/null | grep -E "VIOLATION|KNOWN-FINDING" | head -3); 
  e=$(( $(date +%s) - s ))
  echo "$p tier=$tier seed=${VERIF_SEED:-0} wall=${e}s ${out:-clean}"
}
export -f one
echo $ids | tr ' ' '\n' | xargs -P $jobs -I{} bash -c "one {} $tier"
