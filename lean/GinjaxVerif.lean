import GinjaxVerif.Properties.C01
import GinjaxVerif.Properties.C02
import GinjaxVerif.Properties.C03
import GinjaxVerif.Properties.C04
import GinjaxVerif.Properties.C15
import GinjaxVerif.Properties.C16
import GinjaxVerif.Properties.C17
import GinjaxVerif.Properties.C19
