import GinjaxVerif.Properties.C10
import GinjaxVerif.Properties.C19
