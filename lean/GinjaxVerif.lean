import GinjaxVerif.Properties.C12
import GinjaxVerif.Properties.C18
import GinjaxVerif.Properties.C19
