import GinjaxVerif.Properties.C19
