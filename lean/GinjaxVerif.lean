import GinjaxVerif.Properties.C19
import GinjaxVerif.Properties.C20
