import GinjaxVerif.Properties.C02
import GinjaxVerif.Properties.C19
