import GinjaxVerif.Properties.C02
import GinjaxVerif.Properties.C05
import GinjaxVerif.Properties.C16
import GinjaxVerif.Properties.C19
