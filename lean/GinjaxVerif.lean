import GinjaxVerif.Properties.C19
import GinjaxVerif.Properties.C15
import GinjaxVerif.Properties.C17
