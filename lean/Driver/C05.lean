import Driver.Util
import Driver.Img
import GinjaxVerif.Model.Action
import GinjaxVerif.Model.C05
import GinjaxVerif.Model.C05Contr
import GinjaxVerif.Model.C05Extras
open Lean Driver GinjaxVerif GinjaxVerif.C05

/-! Driver ops for C05: evaluate an expression tree over integer leaf images with the Lean model
(`tyOf`, `eval`), report the declared type and the values.  `norm` nodes are evaluated with
`sqrtF := id`, i.e. they report the *squared* norm (exact). -/
namespace Driver.C05

partial def parseExpr (j : Json) : R (Expr Int) := do
  let op ← strF j "op"
  match op with
  | "leaf" => pure (.leaf (← natF j "i"))
  | "add" => pure (.add (← field j "a" >>= parseExpr) (← field j "b" >>= parseExpr))
  | "sub" => pure (.sub (← field j "a" >>= parseExpr) (← field j "b" >>= parseExpr))
  | "smul" => pure (.smul (← intF j "c") (← field j "a" >>= parseExpr))
  | "mul" => pure (.mul (← field j "a" >>= parseExpr) (← field j "b" >>= parseExpr))
  | "transpose" => pure (.transpose (← listF asNat j "perm") (← field j "a" >>= parseExpr))
  | "contract" => pure (.contract (← natF j "i") (← natF j "j") (← field j "a" >>= parseExpr))
  | "multicontract" =>
    let ps ← listF (asList asNat) j "pairs"
    if ps.any (·.length ≠ 2) then throw "pairs must have two entries"
    pure (.multicontract (ps.map (fun p => (p.getD 0 0, p.getD 1 0))) (← field j "a" >>= parseExpr))
  | "levi_civita" => pure (.leviCivita (← listF asNat j "idxs") (← field j "a" >>= parseExpr))
  | "normsq" => pure (.norm (← field j "a" >>= parseExpr))
  | "conv" => pure (.conv (← field j "a" >>= parseExpr) (← natF j "f"))
  | _ => throw s!"unknown node {op}"

def maxLeaf : Expr Int → Nat
  | .leaf i => i
  | .add a b | .sub a b | .mul a b => max (maxLeaf a) (maxLeaf b)
  | .smul _ a | .transpose _ a | .contract _ _ a | .multicontract _ a | .leviCivita _ a
  | .norm a => maxLeaf a
  | .conv a f => max (maxLeaf a) f

def inBoxB {d : Nat} (dims : Fin d → Nat) (y : Fin d → Int) : Bool :=
  (List.finRange d).all (fun i => decide (0 ≤ y i) && decide (y i < (dims i : Int)))

/-- array-backed copy, identical to `A` outside the box / on index lists of the wrong length -/
def tabSafe {d : Nat} (A : Img Int d) : Img Int d :=
  let T := tabulate A
  { dims := A.dims, k := A.k
    val := fun y n => if n.length == A.k && inBoxB A.dims y then T.val y n else A.val y n }

def parseLeaf (d : Nat) (j : Json) : R (GImg Int d) := do
  let img ← field j "image" >>= parseImg d
  let p ← natF j "parity"
  let tor ← listF asBool j "torus"
  if tor.length ≠ d then throw "torus must have length d"
  pure (GImg.mk' img p (listToFn d false tor))

def tyJson {d : Nat} (t : Ty d) : List (String × Json) :=
  [("k", jNat t.k), ("parity", jNat t.p), ("dims", jList jNat (fnToList t.dims)),
   ("torus", jList jBool (fnToList t.torus))]

def toFinList (d : Nat) (n : List Nat) : List (Fin d) :=
  n.filterMap (fun a => if h : a < d then some (⟨a, h⟩ : Fin d) else none)

def gimgJson {d : Nat} (G : GImg Int d) : Json :=
  Json.mkObj (tyJson G.ty ++ [("image", imgToJson G.img)])

/-- a bare tensor `{"shape": [d]*k, "data": [...]}` (the `fill` argument; `k = len(fill.shape)`) -/
def parseTensor (d : Nat) (j : Json) : R (Nat × (List (Fin d) → Int)) := do
  let shape ← listF asNat j "shape"
  let data ← listF asInt j "data"
  if shape.any (· ≠ d) then throw "tensor axes must have extent d"
  if data.length ≠ shape.foldl (· * ·) 1 then throw "data length does not match shape"
  let arr := data.toArray
  pure (shape.length, fun n => arr.getD (ravelIdx shape (n.map (·.val))) 0)

def handle (op : String) (j : Json) : R Json := do
  match op with
  | "c05.eval" | "c05.ty" =>
    let d ← natF j "d"
    let leaves ← listF (parseLeaf d) j "leaves"
    let e ← field j "expr" >>= parseExpr
    if maxLeaf e ≥ leaves.length then throw "leaf index out of range"
    let dflt : GImg Int d := ⟨⟨fun _ => 0, 0, fun _ _ => 0⟩, 0, fun _ => false⟩
    let env : Nat → GImg Int d := fun i => leaves.getD i dflt
    match tyOf (fun i => (env i).ty) e with
    | none => throw "ill-typed"
    | some t =>
      if op == "c05.ty" then pure (Json.mkObj (tyJson t))
      else
        let G := eval tabSafe (fun x => x) convI env e
        -- the bookkeeping carried by `eval` must agree with the static checker
        if G.p ≠ t.p ∨ G.img.k ≠ t.k ∨ fnToList G.img.dims ≠ fnToList t.dims
            ∨ fnToList G.torus ≠ fnToList t.torus then
          throw "internal: eval bookkeeping differs from tyOf"
        pure (Json.mkObj (tyJson t ++ [("image", imgToJson G.img)]))
  | "c05.lc" =>
    let d ← natF j "d"
    let tens := List.replicate d d
    let vals := (boxIdx tens).map (fun n =>
      leviCivitaSym d (n.filterMap (fun a => if h : a < d then some (⟨a, h⟩ : Fin d) else none)))
    pure (Json.mkObj [("shape", jList jNat tens), ("data", jList jInt vals)])
  | "c05.parity" =>
    let pi ← listF asNat j "pi"
    pure (jInt (permParity pi))
  | "c05.block_swap" =>
    pure (jList jNat (blockSwap (← natF j "ka") (← natF j "kb")))
  | "c05.contraction_indices" =>
    -- `get_contraction_indices(initial_k, final_k, swappable_idxs)`; the three asserts reject
    let ik ← intF j "initial_k"
    let fk ← intF j "final_k"
    let sw ← listF (asList asNat) j "swappable"
    if sw.any (·.length ≠ 2) then throw "swappable pairs must have two entries"
    if (ik + fk) % 2 ≠ 0 then throw "assert (initial_k + final_k) % 2 == 0"
    if ik < fk then throw "assert initial_k >= final_k"
    if fk < 0 then throw "assert final_k >= 0"
    match contractionIndices ik.toNat fk.toNat (sw.map (fun p => (p.getD 0 0, p.getD 1 0))) with
    | none => throw "rejected by the model"
    | some res => pure (jList (jList (fun p => jList jNat [p.1, p.2])) res)
  | "c05.kronecker_symbol" =>
    -- `KroneckerDeltaSymbol.get(D, k)`
    let d ← natF j "d"
    let k ← natF j "k"
    if !kroneckerOk d k then throw "assert D > 1 / assert k > 1"
    let tens := List.replicate k d
    let vals := (boxIdx tens).map (fun n => kroneckerSym d k (toFinList d n))
    pure (Json.mkObj [("shape", jList jNat tens), ("data", jList jInt vals)])
  | "c05.kronecker_delta" =>
    -- `get_kronecker_delta_image(N, D, k)`
    let d ← natF j "d"
    let k ← natF j "k"
    let N ← natF j "N"
    if !kroneckerOk d k then throw "assert D > 1 / assert k > 1"
    pure (gimgJson (kroneckerDeltaG (R := Int) (d := d) N k))
  | "c05.fill" =>
    -- `GeometricImage.fill(N: tuple, parity, D, fill, is_torus: tuple)`
    let d ← natF j "d"
    let dims ← listF asNat j "dims"
    if dims.length ≠ d then throw "assert len(spatial_dims) == D"
    let tor ← listF asBool j "torus"
    if tor.length ≠ d then throw "torus must have length d"
    let (k, c) ← field j "fill" >>= parseTensor d
    pure (gimgJson (GImg.fill (listToFn d 0 dims) k c (← natF j "parity") (listToFn d false tor)))
  | "c05.zeros" =>
    let d ← natF j "d"
    let dims ← listF asNat j "dims"
    if dims.length ≠ d then throw "assert len(spatial_dims) == D"
    let tor ← listF asBool j "torus"
    if tor.length ≠ d then throw "torus must have length d"
    pure (gimgJson (GImg.zeros (R := Int) (listToFn d 0 dims) (← natF j "k") (← natF j "parity")
      (listToFn d false tor)))
  | "c05.activation" =>
    let d ← natF j "d"
    let G ← field j "leaf" >>= parseLeaf d
    let name ← strF j "fn"
    match namedFn name with
    | none => throw s!"unknown function {name}"
    | some f =>
      match G.activation f with
      | none => throw "assert self.k == 0"
      | some H => pure (gimgJson H)
  | "c05.img_eq" =>
    let d ← natF j "d"
    let A ← field j "a" >>= parseLeaf d
    let B ← field j "b" >>= parseLeaf d
    pure (jBool (GImg.eqB A B))
  | "c05.tensor_name" =>
    pure (jStr (tensorName (← natF j "k") (← natF j "parity")))
  | _ => throw s!"unknown op {op}"

end Driver.C05
