import Driver.Util
import GinjaxVerif.Model.C16
open Lean Driver GinjaxVerif.C16

/-!
Driver ops for C16.  Wire format: a key is `[k, parity]`; a multi image is a list (insertion
order, keys distinct) of `[key, [frame, …]]`; a frame is the row-major list of its integer entries.

The model function `f` of a rollout is taken from a parametric family the Python side implements
as well (all arithmetic on integers mod `P`): output type `ko`, channel `ch`, is
`(bias + scoef·s + Σ w · adapt(x[src][idx])) mod P` where `adapt` repeats (`k_src ≤ k_out`) or sums
(`k_src > k_out`) the trailing tensor components; the next state is
`(a·s + b + Σ w · sum(x[src][idx])) mod P`; `src` is a key, or with `bypos` a position in the
input's key order; with `rot` the output dict is built rotated by `s mod #outs`.
-/
namespace Driver.C16

abbrev Key := Nat × Nat
abbrev Frame := List Int

def asKey (j : Json) : R Key := do
  match j with
  | .arr #[a, b] => pure (← asNat a, ← asNat b)
  | _ => throw s!"bad key {j.compress}"

def asFrame (j : Json) : R Frame := asList asInt j

def asMI (j : Json) : R (MI Key Frame) := do
  let items ← asList (fun it => do
    match it with
    | .arr #[k, fr] => pure (← asKey k, ← asList asFrame fr)
    | _ => throw "bad multi image item") j
  -- a Python dict cannot hold a key twice
  if (items.map Prod.fst).eraseDups.length ≠ items.length then throw "duplicate key in multi image"
  pure items

def asConsts (j : Json) : R (List (Key × Nat)) :=
  asList (fun it => do
    match it with
    | .arr #[k, n] => pure (← asKey k, ← asNat n)   -- negative size: the code's assert fails
    | _ => throw "bad constants item") j

def jKey (k : Key) : Json := Json.arr #[jNat k.1, jNat k.2]
def jFrame (f : Frame) : Json := jList jInt f
def jMI (x : MI Key Frame) : Json := jList (fun kb => Json.arr #[jKey kb.1, jList jFrame kb.2]) x

/-! ### the parametric model family -/

structure Term where
  srcKey : Option Key
  srcPos : Option Nat
  idx : Nat
  w : Int

structure Chan where
  bias : Int
  scoef : Int
  terms : List Term

structure Out where
  key : Key
  size : Nat
  chans : List Chan

structure Fam where
  P : Int
  D : Nat
  rot : Bool
  outs : List Out
  sa : Int
  sb : Int
  sterms : List Term

def asTerm (j : Json) : R Term := do
  let idx ← natF j "idx"
  let w ← intF j "w"
  let src ← field j "src"
  match src with
  | .arr _ => pure { srcKey := some (← asKey src), srcPos := none, idx, w }
  | _ => pure { srcKey := none, srcPos := some (← asNat src), idx, w }

def asFam (j : Json) : R Fam := do
  let P ← intF j "P"
  if P ≤ 0 then throw "bad modulus"
  let D ← natF j "D"
  let rot ← boolF j "rot"
  let outs ← listF (fun o => do
    let key ← field o "key" >>= asKey
    let size ← natF o "size"
    let chans ← listF (fun c => do
      pure { bias := ← intF c "bias", scoef := ← intF c "scoef", terms := ← listF asTerm c "terms" : Chan })
      o "channels"
    pure { key, size, chans : Out }) j "outs"
  let st ← field j "state"
  pure { P, D, rot, outs, sa := ← intF st "a", sb := ← intF st "b", sterms := ← listF asTerm st "terms" }

/-- the frame a term refers to, with the tensor order of its type; `none` when absent -/
def termFrame (x : MI Key Frame) (t : Term) : Option (Nat × Frame) :=
  let kb : Option (Key × List Frame) :=
    match t.srcKey, t.srcPos with
    | some k, _ => (x.lookup k).map (k, ·)
    | none, some p => x[p]?
    | none, none => none
  kb.bind fun kb => (kb.2[t.idx]?).map (kb.1.1, ·)

def groupSums (g : Nat) (f : Frame) : Frame :=
  if g = 0 then [] else
  (List.range (f.length / g)).map fun i => ((f.drop (i * g)).take g).foldl (· + ·) 0

/-- bring a frame of tensor order `ks` to order `kt` (trailing components repeated or summed) -/
def adapt (D ks kt : Nat) (f : Frame) : Frame :=
  if ks ≤ kt then f.flatMap (fun v => List.replicate (D ^ (kt - ks)) v)
  else groupSums (D ^ (ks - kt)) f

def addFrames (a b : Frame) : Frame := List.zipWith (· + ·) a b

/-- one member of the family, as a total function; ill-formed references make the whole call fail
(`none`), which the op reports as a harness error, not as a rejection -/
def famApply (m : Fam) (x : MI Key Frame) (s : Int) : Option (MI Key Frame × Int) := do
  let outs ← m.outs.mapM fun o => do
    let chans ← o.chans.mapM fun c => do
      let base : Frame := List.replicate o.size (c.bias + c.scoef * s)
      let tot ← c.terms.foldlM (fun acc t => do
        let (ks, fr) ← termFrame x t
        let a := adapt m.D ks o.key.1 fr
        if a.length ≠ o.size then none else
        pure (addFrames acc (a.map (t.w * ·)))) base
      pure (tot.map (· % m.P))
    pure (o.key, chans)
  let ssum ← m.sterms.foldlM (fun acc t => do
    let (_, fr) ← termFrame x t
    pure (acc + t.w * fr.foldl (· + ·) 0)) (m.sa * s + m.sb)
  let r := if m.rot ∧ outs.length > 0 then (s % (outs.length : Int)).toNat else 0
  pure (outs.drop r ++ outs.take r, ssum % m.P)

/-- total version handed to the Lean model; a failed family evaluation is recorded in the state -/
def famTotal (m : Fam) (x : MI Key Frame) (s : Option Int) : MI Key Frame × Option Int :=
  match s with
  | none => ([], none)
  | some s =>
    match famApply m x s with
    | none => ([], none)
    | some (p, s') => (p, some s')

/-- does the family evaluate along the model's own trajectory (until it finishes or rejects)? -/
def famCheck (m : Fam) (past : Nat) (consts : List (Key × Nat)) : Nat → MI Key Frame → Int → Bool
  | 0, _, _ => true
  | n + 1, x, s =>
    match famApply m x s with
    | none => false
    | some (p, s') =>
      match autoregressiveStep past consts x p with
      | none => true
      | some x' => famCheck m past consts n x' s'

def handle (op : String) (j : Json) : R Json := do
  match op with
  | "c16.step" | "c16.step_spec" =>
    let past ← natF j "past"
    let consts ← field j "consts" >>= asConsts
    let input ← field j "input" >>= asMI
    let output ← field j "output" >>= asMI
    if op == "c16.step" then
      let future ← natF j "future"
      match autoregressiveStep past consts input output future with
      | none => throw "rejected"
      | some y => pure (jMI y)
    else
      pure (jMI (specStep past consts input output))
  | "c16.map" | "c16.map_spec" =>
    let past ← natF j "past"
    let consts ← field j "consts" >>= asConsts
    let x ← field j "x" >>= asMI
    let s ← intF j "s"
    let n ← natF j "n"
    let fam ← field j "model" >>= asFam
    let f := famTotal fam
    -- the inputs of the explicit iteration (diagnostics, and the check that the family evaluated)
    let its := (List.range (n + 1)).map fun t => iterate f past consts x (some s) t
    if op == "c16.map" then
      if !famCheck fam past consts n x s then throw "harness: model family ill-formed"
      match autoregressiveMap f past consts x (some s) n with
      | none => throw "rejected"
      | some (_, none) => throw "harness: model family ill-formed"
      | some (out, some s') => pure (Json.mkObj [("out", jMI out), ("state", jInt s')])
    else
      match (its.getLast?).bind (·.2) with
      | none => throw "harness: model family ill-formed"
      | some s' =>
        pure (Json.mkObj [
          ("out", jMI (specRollout (predAt f past consts x (some s)) n)),
          ("state", jInt s'),
          ("inputs", jList (fun xs => jMI xs.1) its)])
  | _ => throw s!"unknown op {op}"

end Driver.C16
