import Driver.Util
import GinjaxVerif.Model.C03
open Lean Driver GinjaxVerif.C03

namespace Driver.C03

def asMat (j : Json) : R Mat := asList (asList asInt) j

def jMat (m : Mat) : Json := jList (jList jInt) m

def parseOps (d : Nat) (j : Json) : R (List (SPerm d)) := do
  let ms ← listF asMat j "ops"
  ms.mapM fun m =>
    match SPerm.ofMat? d m with
    | some g => pure g
    | none => throw "bad-op"

/-- a flat row-major integer vector as a function on the index type -/
def ofFlat {d M k : Nat} (data : Array Int) : FIdx d M k → Int :=
  let idx := allIdx d M k
  fun j => match idx.findIdx? (fun i => FIdx.eqb i j) with
    | some n => data.getD n 0
    | none => 0

def handle (op : String) (j : Json) : R Json := do
  match op with
  | "c03.family" =>
    let d ← natF j "d"
    let M ← natF j "M"
    let k ← natF j "k"
    let p ← natF j "p"
    let ops ← parseOps d j
    let raw := uniqueInvariantFilters ops M k p
    pure (Json.mkObj [
      ("family", jList (jList jInt) (raw.map primitive)),
      ("raw", jList (jList jInt) raw),
      ("order", jNat ops.length),
      ("character_sum", jInt (characterSum ops M k p))])
  | "c03.charsum" =>
    let d ← natF j "d"
    let M ← natF j "M"
    let k ← natF j "k"
    let p ← natF j "p"
    let ops ← parseOps d j
    pure (Json.mkObj [
      ("order", jNat ops.length),
      ("character_sum", jInt (characterSum ops M k p)),
      ("fixed", jList (fun g => jNat (fixedPixels g M)) ops),
      ("trace", jList (fun g => jInt g.trace) ops),
      ("det", jList (fun g => jInt g.det) ops)])
  | "c03.act" =>
    let d ← natF j "d"
    let M ← natF j "M"
    let k ← natF j "k"
    let p ← natF j "p"
    let m ← field j "g" >>= asMat
    let g ← match SPerm.ofMat? d m with
      | some g => pure g
      | none => throw "bad-op"
    let data ← listF asInt j "data"
    let idx := allIdx d M k
    if data.length ≠ idx.length then throw "bad-shape"
    let A : FIdx d M k → Int := ofFlat data.toArray
    let mono := idx.map fun i => act g p A i
    let dl := detLaplace d m
    let lit := idx.map fun i => actLit g.entry dl p A i
    let litJ := if lit.all Option.isSome then jList (fun o => jInt (o.getD 0)) lit else Json.null
    pure (Json.mkObj [
      ("mono", jList jInt mono), ("lit", litJ),
      ("det", jInt g.det), ("det_laplace", jInt dl), ("trace", jInt g.trace),
      ("perm", jList (fun a => jNat (g.perm a).val) (List.finRange d)),
      ("sgn", jList (fun a => jInt (g.sgn a)) (List.finRange d)),
      ("roundtrip", jBool (g.toMat == m))])
  | "c03.bank" =>
    let d ← natF j "d"
    let ops ← parseOps d j
    let Ms ← listF asNat j "Ms"
    let ks ← listF asNat j "ks"
    let ps ← listF asNat j "ps"
    match assembleBank ops Ms ks ps with
    | none => throw "no-filters-or-shape-mismatch"
    | some l => pure (jList (fun e => Json.arr #[jNat e.1.1, jNat e.1.2, jNat e.2.1, jNat e.2.2]) l)
  | "c03.ops" =>
    let d ← natF j "d"
    let which ← strF j "which"
    match which with
    | "all" => pure (jList jMat (allOperators d))
    | "c2" => pure (jList jMat (c2Group d))
    | _ => throw "bad-which"
  | _ => throw s!"unknown op {op}"

end Driver.C03
