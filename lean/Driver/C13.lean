import Driver.Util
import GinjaxVerif.Model.C13
import GinjaxVerif.Model.C13Save
open Lean Driver GinjaxVerif.ND GinjaxVerif.C13

/-!
Driver ops `c13.*`: the re-layouts of `MultiImage` on integer blocks.
Wire format: array = `{"shape":[..],"data":[..]}`; multi image =
`{"D":d,"is_torus":[..],"data":[{"k":k,"p":p,"block":array},..]}` (list order = dict order);
geometric image = `{"D":d,"is_torus":[..],"parity":p,"data":array}`; signature / layout =
`[[k,p,n],..]`.
-/
namespace Driver.C13

def asNDArr (j : Json) : R (NDArr Int) := do
  let shape ← listF asNat j "shape"
  let data ← listF asInt j "data"
  if data.length != shape.prod then throw "array: data length does not match shape"
  pure ⟨shape, data.toArray⟩

def jNDArr (a : NDArr Int) : Json :=
  Json.mkObj [("shape", jList jNat a.shape), ("data", Json.arr (a.data.map jInt))]

def asMI (j : Json) : R (MI Int) := do
  let d ← natF j "D"
  let t ← listF asBool j "is_torus"
  let blocks ← listF (fun e => do
    let k ← natF e "k"
    let p ← natF e "p"
    let b ← field e "block" >>= asNDArr
    pure ((k, p), b)) j "data"
  pure ⟨d, t, blocks⟩

def jMI (m : MI Int) : Json :=
  Json.mkObj [("D", jNat m.D), ("is_torus", jList jBool m.isTorus),
    ("data", jList (fun e => Json.mkObj [("k", jNat e.1.1), ("p", jNat e.1.2), ("block", jNDArr e.2)])
      m.data)]

def asGImg (j : Json) : R (GImg Int) := do
  let d ← natF j "D"
  let t ← listF asBool j "is_torus"
  let p ← natF j "parity"
  let a ← field j "data" >>= asNDArr
  pure ⟨a, p, d, t⟩

def jGImg (g : GImg Int) : Json :=
  Json.mkObj [("D", jNat g.D), ("is_torus", jList jBool g.isTorus), ("parity", jNat g.parity),
    ("data", jNDArr g.data)]

def asSig (j : Json) : R (List (Key × Nat)) :=
  asList (fun e => do
    match ← asList asNat e with
    | [k, p, n] => pure ((k, p), n)
    | _ => throw "signature entry must be [k,p,n]") j

def jSig (s : List (Key × Nat)) : Json :=
  jList (fun e => jList jNat [e.1.1, e.1.2, e.2]) s

def guard (ok : Bool) (what : String) : R Unit :=
  if ok then pure () else throw s!"rejected: {what}"

/-! ### save / load (`Model/C13Save.lean`)
pytree = `{"tag":s,"children":[..]}` | `{"leaf":L}`; leaf `L` = `{"kind":"arr","cls":"jax"|"np",
"dtype":name,"shape":[..],"data":[ints: values, or IEEE bit patterns for float dtypes]}` |
`{"kind":"bool","v":b}` | `{"kind":"int","v":n}` | `{"kind":"float","bits":n}` (float64 bits) |
`{"kind":"static","id":s}`; record = `{"dtype":name,"shape":[..],"data":[..]}`. -/
namespace Save
open GinjaxVerif.C13Save

def dtypeNames : List (String × DType) :=
  [("bool", .bool), ("int8", .int8), ("int16", .int16), ("int32", .int32), ("int64", .int64),
   ("uint8", .uint8), ("uint16", .uint16), ("uint32", .uint32), ("uint64", .uint64),
   ("float16", .float16), ("float32", .float32), ("float64", .float64), ("object", .object)]

def asDType (s : String) : R DType :=
  match dtypeNames.lookup s with
  | some d => pure d
  | none => throw s!"unmodelled: dtype {s}"

def dtypeName (d : DType) : String :=
  match dtypeNames.find? (fun e => e.2 == d) with
  | some e => e.1
  | none => "?"

def asLeaf (j : Json) : R Leaf := do
  match ← strF j "kind" with
  | "arr" =>
    let cls ← strF j "cls"
    let k ← (match cls with
      | "jax" => pure ArrKind.jax
      | "np" => pure ArrKind.np
      | _ => throw s!"bad array class {cls}" : R ArrKind)
    let dt ← strF j "dtype" >>= asDType
    let shape ← listF asNat j "shape"
    let data ← listF asInt j "data"
    if data.length != shape.prod then throw "bad input: data length does not match shape"
    pure (.arr k dt shape data)
  | "bool" => do pure (.pyBool (← boolF j "v"))
  | "int" => do pure (.pyInt (← intF j "v"))
  | "float" => do pure (.pyFloat (← natF j "bits"))
  | "static" => do pure (.static (← strF j "id"))
  | k => throw s!"bad leaf kind {k}"

partial def asPT (j : Json) : R PT := do
  match optField j "leaf" with
  | some l => do pure (.leaf (← asLeaf l))
  | none =>
    let tag ← strF j "tag"
    let ch ← listF asPT j "children"
    pure (.node tag ch)

def asChunk (j : Json) : R Chunk := do
  let dt ← strF j "dtype" >>= asDType
  let shape ← listF asNat j "shape"
  let data ← listF asInt j "data"
  if data.length != shape.prod then throw "bad input: data length does not match shape"
  pure ⟨dt, shape, data⟩

def jLeaf : Leaf → Json
  | .arr k dt sh d => Json.mkObj [("kind", "arr"), ("cls", match k with | .jax => "jax" | .np => "np"),
      ("dtype", dtypeName dt), ("shape", jList jNat sh), ("data", jList jInt d)]
  | .pyBool b => Json.mkObj [("kind", "bool"), ("v", jBool b)]
  | .pyInt n => Json.mkObj [("kind", "int"), ("v", jInt n)]
  | .pyFloat b => Json.mkObj [("kind", "float"), ("bits", jNat b)]
  | .static s => Json.mkObj [("kind", "static"), ("id", jStr s)]

partial def jPT : PT → Json
  | .leaf a => Json.mkObj [("leaf", jLeaf a)]
  | .node tag ch => Json.mkObj [("tag", jStr tag), ("children", Json.arr (ch.map jPT).toArray)]

def jChunk (c : Chunk) : Json :=
  Json.mkObj [("dtype", dtypeName c.dtype), ("shape", jList jNat c.shape), ("data", jList jInt c.data)]

end Save

def handle (op : String) (j : Json) : R Json := do
  match op with
  | "c13.to_vector" =>
    let m ← field j "mi" >>= asMI
    pure (jNDArr m.toVector)
  | "c13.from_vector" =>
    let m ← field j "mi" >>= asMI
    let v ← field j "vector" >>= asNDArr
    guard (MI.fromVectorOk v m) "from_vector"
    pure (jMI (MI.fromVector v m))
  | "c13.to_scalar" =>
    let m ← field j "mi" >>= asMI
    guard m.toScalarOk "to_scalar_multi_image"
    pure (jMI m.toScalar)
  | "c13.from_scalar" =>
    let m ← field j "mi" >>= asMI
    let layout ← field j "layout" >>= asSig
    guard (m.fromScalarOk layout) "from_scalar_multi_image"
    pure (jMI (m.fromScalar layout))
  | "c13.concat" =>
    let m ← field j "mi" >>= asMI
    let o ← field j "other" >>= asMI
    let axis ← natF j "axis"
    guard (m.concatOk o axis) "concat"
    pure (jMI (m.concat o axis))
  | "c13.concat_inverse" =>
    let m ← field j "mi" >>= asMI
    let sig ← field j "sig" >>= asSig
    let axis ← natF j "axis"
    guard (m.concatInverseOk sig axis) "concat_inverse"
    let r := m.concatInverse sig axis
    pure (Json.mkObj [("a", jMI r.1), ("b", jMI r.2)])
  | "c13.expand" =>
    let m ← field j "mi" >>= asMI
    let axis ← natF j "axis"
    let size ← natF j "size"
    guard (m.expandOk axis size) "expand"
    pure (jMI (m.expand axis size))
  | "c13.combine_axes" =>
    let m ← field j "mi" >>= asMI
    let axes ← listF asNat j "axes"
    guard (m.combineAxesOk axes) "combine_axes"
    pure (jMI (m.combineAxes axes))
  | "c13.merge_axes" =>
    let m ← field j "mi" >>= asMI
    let axes ← listF asNat j "axes"
    guard (m.mergeAxesOk axes) "merge_axes"
    pure (jMI (m.mergeAxes axes))
  | "c13.reshape_pmap" =>
    let m ← field j "mi" >>= asMI
    let n ← natF j "ndev"
    let axis ← natF j "axis"
    guard (m.reshapePmapOk n axis) "reshape_pmap"
    pure (jMI (m.reshapePmap n axis))
  | "c13.to_images" =>
    let m ← field j "mi" >>= asMI
    pure (jList jGImg m.toImages)
  | "c13.from_images" =>
    let imgs ← listF asGImg j "images"
    let n ← natF j "n_lead"
    let axis ← natF j "axis"
    guard (MI.fromImagesOk imgs n axis) "from_images"
    pure (jMI (MI.fromImages imgs n axis))
  | "c13.copy" =>
    let m ← field j "mi" >>= asMI
    pure (jMI m.copy)
  | "c13.tree_roundtrip" =>
    let m ← field j "mi" >>= asMI
    pure (jMI m.treeRoundtrip)
  | "c13.gimg_tree_roundtrip" =>
    let g ← field j "image" >>= asGImg
    pure (jGImg g.treeRoundtrip)
  | "c13.signature" =>
    let m ← field j "mi" >>= asMI
    pure (Json.mkObj [("signature", jSig m.signature), ("n_leading", jNat m.nLeading),
      ("spatial", jList jNat m.spatialDims)])
  | "c13.save" =>
    let m ← field j "model" >>= Save.asPT
    pure (Json.mkObj [("chunks", jList Save.jChunk (GinjaxVerif.C13Save.serialise m)),
      ("leaves", jList Save.jLeaf (GinjaxVerif.C13Save.leaves m))])
  | "c13.load" =>
    let cs ← listF Save.asChunk j "chunks"
    let t ← field j "template" >>= Save.asPT
    let r ← GinjaxVerif.C13Save.deserialise cs t
    pure (Save.jPT r)
  | "c13.save_load" =>
    let m ← field j "model" >>= Save.asPT
    let t ← field j "template" >>= Save.asPT
    let r ← GinjaxVerif.C13Save.saveLoad m t
    pure (Json.mkObj [("result", Save.jPT r),
      ("chunks", jList Save.jChunk (GinjaxVerif.C13Save.serialise m))])
  | _ => throw s!"unknown op {op}"

end Driver.C13
