import Driver.Util
import GinjaxVerif.Model.C13
open Lean Driver GinjaxVerif.ND GinjaxVerif.C13

/-!
Driver ops `c13.*`: the re-layouts of `MultiImage` on integer blocks.
Wire format: array = `{"shape":[..],"data":[..]}`; multi image =
`{"D":d,"is_torus":[..],"data":[{"k":k,"p":p,"block":array},..]}` (list order = dict order);
geometric image = `{"D":d,"is_torus":[..],"parity":p,"data":array}`; signature / layout =
`[[k,p,n],..]`.
-/
namespace Driver.C13

def asNDArr (j : Json) : R (NDArr Int) := do
  let shape ← listF asNat j "shape"
  let data ← listF asInt j "data"
  if data.length != shape.prod then throw "array: data length does not match shape"
  pure ⟨shape, data.toArray⟩

def jNDArr (a : NDArr Int) : Json :=
  Json.mkObj [("shape", jList jNat a.shape), ("data", Json.arr (a.data.map jInt))]

def asMI (j : Json) : R (MI Int) := do
  let d ← natF j "D"
  let t ← listF asBool j "is_torus"
  let blocks ← listF (fun e => do
    let k ← natF e "k"
    let p ← natF e "p"
    let b ← field e "block" >>= asNDArr
    pure ((k, p), b)) j "data"
  pure ⟨d, t, blocks⟩

def jMI (m : MI Int) : Json :=
  Json.mkObj [("D", jNat m.D), ("is_torus", jList jBool m.isTorus),
    ("data", jList (fun e => Json.mkObj [("k", jNat e.1.1), ("p", jNat e.1.2), ("block", jNDArr e.2)])
      m.data)]

def asGImg (j : Json) : R (GImg Int) := do
  let d ← natF j "D"
  let t ← listF asBool j "is_torus"
  let p ← natF j "parity"
  let a ← field j "data" >>= asNDArr
  pure ⟨a, p, d, t⟩

def jGImg (g : GImg Int) : Json :=
  Json.mkObj [("D", jNat g.D), ("is_torus", jList jBool g.isTorus), ("parity", jNat g.parity),
    ("data", jNDArr g.data)]

def asSig (j : Json) : R (List (Key × Nat)) :=
  asList (fun e => do
    match ← asList asNat e with
    | [k, p, n] => pure ((k, p), n)
    | _ => throw "signature entry must be [k,p,n]") j

def jSig (s : List (Key × Nat)) : Json :=
  jList (fun e => jList jNat [e.1.1, e.1.2, e.2]) s

def guard (ok : Bool) (what : String) : R Unit :=
  if ok then pure () else throw s!"rejected: {what}"

def handle (op : String) (j : Json) : R Json := do
  match op with
  | "c13.to_vector" =>
    let m ← field j "mi" >>= asMI
    pure (jNDArr m.toVector)
  | "c13.from_vector" =>
    let m ← field j "mi" >>= asMI
    let v ← field j "vector" >>= asNDArr
    guard (MI.fromVectorOk v m) "from_vector"
    pure (jMI (MI.fromVector v m))
  | "c13.to_scalar" =>
    let m ← field j "mi" >>= asMI
    guard m.toScalarOk "to_scalar_multi_image"
    pure (jMI m.toScalar)
  | "c13.from_scalar" =>
    let m ← field j "mi" >>= asMI
    let layout ← field j "layout" >>= asSig
    guard (m.fromScalarOk layout) "from_scalar_multi_image"
    pure (jMI (m.fromScalar layout))
  | "c13.concat" =>
    let m ← field j "mi" >>= asMI
    let o ← field j "other" >>= asMI
    let axis ← natF j "axis"
    guard (m.concatOk o axis) "concat"
    pure (jMI (m.concat o axis))
  | "c13.concat_inverse" =>
    let m ← field j "mi" >>= asMI
    let sig ← field j "sig" >>= asSig
    let axis ← natF j "axis"
    guard (m.concatInverseOk sig axis) "concat_inverse"
    let r := m.concatInverse sig axis
    pure (Json.mkObj [("a", jMI r.1), ("b", jMI r.2)])
  | "c13.expand" =>
    let m ← field j "mi" >>= asMI
    let axis ← natF j "axis"
    let size ← natF j "size"
    guard (m.expandOk axis size) "expand"
    pure (jMI (m.expand axis size))
  | "c13.combine_axes" =>
    let m ← field j "mi" >>= asMI
    let axes ← listF asNat j "axes"
    guard (m.combineAxesOk axes) "combine_axes"
    pure (jMI (m.combineAxes axes))
  | "c13.merge_axes" =>
    let m ← field j "mi" >>= asMI
    let axes ← listF asNat j "axes"
    guard (m.mergeAxesOk axes) "merge_axes"
    pure (jMI (m.mergeAxes axes))
  | "c13.reshape_pmap" =>
    let m ← field j "mi" >>= asMI
    let n ← natF j "ndev"
    let axis ← natF j "axis"
    guard (m.reshapePmapOk n axis) "reshape_pmap"
    pure (jMI (m.reshapePmap n axis))
  | "c13.to_images" =>
    let m ← field j "mi" >>= asMI
    pure (jList jGImg m.toImages)
  | "c13.from_images" =>
    let imgs ← listF asGImg j "images"
    let n ← natF j "n_lead"
    let axis ← natF j "axis"
    guard (MI.fromImagesOk imgs n axis) "from_images"
    pure (jMI (MI.fromImages imgs n axis))
  | "c13.copy" =>
    let m ← field j "mi" >>= asMI
    pure (jMI m.copy)
  | "c13.tree_roundtrip" =>
    let m ← field j "mi" >>= asMI
    pure (jMI m.treeRoundtrip)
  | "c13.gimg_tree_roundtrip" =>
    let g ← field j "image" >>= asGImg
    pure (jGImg g.treeRoundtrip)
  | "c13.signature" =>
    let m ← field j "mi" >>= asMI
    pure (Json.mkObj [("signature", jSig m.signature), ("n_leading", jNat m.nLeading),
      ("spatial", jList jNat m.spatialDims)])
  | _ => throw s!"unknown op {op}"

end Driver.C13
