import Driver.Util
import Driver.Img
import GinjaxVerif.Model.Conv
open Lean Driver GinjaxVerif

namespace Driver.C04

structure BankArr (d : Nat) where
  lead0 : Nat
  lead1 : Nat
  spatial : List Nat
  k : Nat
  bank : Bank Int d

/-- parse `{"shape":[B, C, spatial…, d…], "data":[…]}` -/
def parseBank (d : Nat) (j : Json) : R (BankArr d) := do
  let shape ← listF asNat j "shape"
  let data ← listF asInt j "data"
  if shape.length < d + 2 then throw "bank shape too short"
  let spatial := (shape.drop 2).take d
  let tens := shape.drop (2 + d)
  if tens.any (· ≠ d) then throw "tensor axes must have extent d"
  if data.length ≠ shape.foldl (· * ·) 1 then throw "data length does not match shape"
  let arr := data.toArray
  pure { lead0 := shape.getD 0 0, lead1 := shape.getD 1 0, spatial := spatial, k := tens.length,
         bank := fun b c y n =>
           if (fnToList y).zip spatial |>.all (fun (v, s) => decide (0 ≤ v ∧ v < (s : Int))) then
             arr.getD (ravelIdx shape ([b, c] ++ (fnToList y).map Int.toNat ++ n.map (·.val))) 0
           else 0 }

def bankToJson {d : Nat} (B C : Nat) (dims : List Nat) (k : Nat) (bank : Bank Int d) : Json :=
  let tens := List.replicate k d
  let vals := (List.range B).flatMap (fun b => (List.range C).flatMap (fun c =>
    (boxIdx dims).flatMap (fun y => (boxIdx tens).map (fun n =>
      bank b c (listToFn d 0 (y.map Int.ofNat))
        (n.filterMap (fun a => if h : a < d then some (⟨a, h⟩ : Fin d) else none))))))
  Json.mkObj [("shape", jList jNat ([B, C] ++ dims ++ tens)), ("data", jList jInt vals)]

def parseMode (j : Json) : R PadMode := do
  match j with
  | .null => pure PadMode.none
  | .str "TORUS" => pure PadMode.torus
  | .str "SAME" => pure PadMode.same
  | .str "VALID" => pure PadMode.valid
  | .str s => throw s!"unknown padding mode {s}"
  | .arr _ => do
    let ps ← asList (fun p => do
      let l ← asList asNat p
      match l with
      | [a, b] => pure (a, b)
      | _ => throw "padding pair expected") j
    pure (PadMode.explicit ps)
  | v => do let p ← asNat v; pure (PadMode.int p)

def getCfg (d : Nat) (j : Json) (img flt : BankArr d) : R (ConvCfg d) := do
  let mode ← (match optField j "padding" with | none => pure PadMode.none | some v => parseMode v)
  let torus ← listF asBool j "torus"
  let stride ← listF asNat j "stride"
  let rd ← listF asNat j "rd"
  let ld ← listF asNat j "ld"
  if torus.length ≠ d ∨ stride.length ≠ d ∨ rd.length ≠ d ∨ ld.length ≠ d then throw "per-axis options must have length d"
  if !(d == 2 || d == 3) then throw "D must be 2 or 3"
  if img.lead1 ≠ flt.lead1 then throw "in_channels mismatch"
  match dispatch mode (listToFn d false torus) (listToFn d 0 img.spatial) (listToFn d 0 flt.spatial)
      (listToFn d 1 stride) (listToFn d 1 rd) (listToFn d 1 ld) with
  | none => throw "rejected by the padding dispatch"
  | some ax => pure { ax := ax, inC := img.lead1, outC := flt.lead0, kI := img.k, kF := flt.k }

def handle (op : String) (j : Json) : R Json := do
  match op with
  | "c04.conv" =>
    let d ← natF j "d"
    let img ← field j "image" >>= parseBank d
    let flt ← field j "filter" >>= parseBank d
    let cfg ← getCfg d j img flt
    let which ← strF j "which"
    let dims := fnToList cfg.outDims
    match which with
    | "spec" => pure (bankToJson img.lead0 flt.lead0 dims (cfg.kI + cfg.kF) (convSpec cfg img.bank flt.bank))
    | "impl" => pure (bankToJson img.lead0 flt.lead0 dims (cfg.kI + cfg.kF) (convImpl cfg img.bank flt.bank))
    | "contract_spec" =>
      if cfg.kF < cfg.kI then throw "filter order smaller than image order"
      pure (bankToJson img.lead0 flt.lead0 dims (cfg.kF - cfg.kI) (convContractSpec cfg img.bank flt.bank))
    | "contract_impl" =>
      if cfg.kF < cfg.kI then throw "filter order smaller than image order"
      pure (bankToJson img.lead0 flt.lead0 dims (cfg.kF - cfg.kI) (convContractImpl cfg img.bank flt.bank))
    | _ => throw "which?"
  | "c04.dispatch" =>
    let d ← natF j "d"
    let mode ← (match optField j "padding" with | none => pure PadMode.none | some v => parseMode v)
    let torus ← listF asBool j "torus"
    let N ← listF asNat j "N"
    let M ← listF asNat j "M"
    let stride ← listF asNat j "stride"
    let rd ← listF asNat j "rd"
    let ld ← listF asNat j "ld"
    match dispatch mode (listToFn d false torus) (listToFn d 0 N) (listToFn d 0 M)
        (listToFn d 1 stride) (listToFn d 1 rd) (listToFn d 1 ld) with
    | none => throw "rejected by the padding dispatch"
    | some ax => pure (jList (fun (o : AxisOpt) => Json.mkObj [("w", jNat o.w), ("lo", jNat o.lo), ("hi", jNat o.hi), ("out", jNat o.outLen)]) (fnToList ax))
  | "c04.xla" =>
    -- lhs {"shape":[B, spatial…, C]}, rhs {"shape":[spatial…, I, O]}, explicit per-axis options
    let d ← natF j "d"
    let G ← natF j "G"
    let lshape ← (field j "lhs" >>= fun l => listF asNat l "shape")
    let ldata ← (field j "lhs" >>= fun l => listF asInt l "data")
    let rshape ← (field j "rhs" >>= fun l => listF asNat l "shape")
    let rdata ← (field j "rhs" >>= fun l => listF asInt l "data")
    let lo ← listF asNat j "lo"
    let hi ← listF asNat j "hi"
    let stride ← listF asNat j "stride"
    let rd ← listF asNat j "rd"
    let ld ← listF asNat j "ld"
    let B := lshape.getD 0 0
    let N := (lshape.drop 1).take d
    let C := lshape.getD (d + 1) 0
    let M := rshape.take d
    let I := rshape.getD d 0
    let O := rshape.getD (d + 1) 0
    if C ≠ G * I ∨ G = 0 ∨ O % G ≠ 0 then throw "channel counts inconsistent with feature_group_count"
    let la := ldata.toArray
    let ra := rdata.toArray
    let ax : Fin d → AxisOpt := fun j =>
      { N := N.getD j.val 0, M := M.getD j.val 0, w := 0, lo := lo.getD j.val 0, hi := hi.getD j.val 0,
        stride := stride.getD j.val 1, rd := rd.getD j.val 1, ld := ld.getD j.val 1 }
    let lhs : Nat → Pix d → Nat → Int := fun b y c =>
      la.getD (ravelIdx lshape ([b] ++ (fnToList y).map Int.toNat ++ [c])) 0
    let rhs : Pix d → Nat → Nat → Int := fun a i o =>
      ra.getD (ravelIdx rshape ((fnToList a).map Int.toNat ++ [i, o])) 0
    let out := xlaConv ax I O G lhs rhs
    let dims := fnToList (fun j => (ax j).outLen)
    let vals := (List.range B).flatMap (fun b => (boxIdx dims).flatMap (fun y => (List.range O).map (fun o =>
      out b (listToFn d 0 (y.map Int.ofNat)) o)))
    pure (Json.mkObj [("shape", jList jNat ([B] ++ dims ++ [O])), ("data", jList jInt vals)])
  | _ => throw s!"unknown op {op}"

end Driver.C04
