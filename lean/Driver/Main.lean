import Driver.Util
import Driver.C19
open Lean Driver

/-- dispatch on the prefix of `op` (`c19.run` → `Driver.C19.handle`) -/
def dispatch (op : String) (j : Json) : R Json :=
  match (op.splitOn ".").head! with
  | "c19" => Driver.C19.handle op j
  | "ping" => pure (Json.str "pong")
  | _ => throw s!"unknown op {op}"

def answer (line : String) : Json :=
  match Json.parse line with
  | .error e => Json.mkObj [("error", Json.str s!"parse: {e}")]
  | .ok j =>
    match strF j "op" with
    | .error e => Json.mkObj [("error", Json.str e)]
    | .ok op =>
      match dispatch op j with
      | .ok r => Json.mkObj [("ok", r)]
      | .error e => Json.mkObj [("error", Json.str e)]

partial def loop (h : IO.FS.Stream) (out : IO.FS.Stream) : IO Unit := do
  let line ← h.getLine
  if line.isEmpty then return ()
  if line.trimAscii.isEmpty then
    loop h out
  else
    out.putStrLn (answer line).compress
    out.flush
    loop h out

def main : IO Unit := do
  loop (← IO.getStdin) (← IO.getStdout)
