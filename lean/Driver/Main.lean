import Driver.Util
import Driver.C01
import Driver.C02
import Driver.C03
import Driver.C04
import Driver.C05
import Driver.C06
import Driver.C07
import Driver.C08
import Driver.C09
import Driver.C10
import Driver.C11
import Driver.C12
import Driver.C13
import Driver.C14
import Driver.C15
import Driver.C16
import Driver.C17
import Driver.C18
import Driver.C19
import Driver.C20
open Lean Driver

/-- dispatch on the prefix of `op` (`c19.run` → `Driver.C19.handle`) -/
def dispatch (op : String) (j : Json) : R Json :=
  match (op.splitOn ".").head! with
  | "c01" => Driver.C01.handle op j
  | "c02" => Driver.C02.handle op j
  | "c03" => Driver.C03.handle op j
  | "c04" => Driver.C04.handle op j
  | "c05" => Driver.C05.handle op j
  | "c06" => Driver.C06.handle op j
  | "c07" => Driver.C07.handle op j
  | "c08" => Driver.C08.handle op j
  | "c09" => Driver.C09.handle op j
  | "c10" => Driver.C10.handle op j
  | "c11" => Driver.C11.handle op j
  | "c12" => Driver.C12.handle op j
  | "c13" => Driver.C13.handle op j
  | "c14" => Driver.C14.handle op j
  | "c15" => Driver.C15.handle op j
  | "c16" => Driver.C16.handle op j
  | "c17" => Driver.C17.handle op j
  | "c18" => Driver.C18.handle op j
  | "c19" => Driver.C19.handle op j
  | "c20" => Driver.C20.handle op j
  | "ping" => pure (Json.str "pong")
  | _ => throw s!"unknown op {op}"

def answer (line : String) : Json :=
  match Json.parse line with
  | .error e => Json.mkObj [("error", Json.str s!"parse: {e}")]
  | .ok j =>
    match strF j "op" with
    | .error e => Json.mkObj [("error", Json.str e)]
    | .ok op =>
      match dispatch op j with
      | .ok r => Json.mkObj [("ok", r)]
      | .error e => Json.mkObj [("error", Json.str e)]

partial def loop (h : IO.FS.Stream) (out : IO.FS.Stream) : IO Unit := do
  let line ← h.getLine
  if line.isEmpty then return ()
  if line.trimAscii.isEmpty then
    loop h out
  else
    out.putStrLn (answer line).compress
    out.flush
    loop h out

def main : IO Unit := do
  loop (← IO.getStdin) (← IO.getStdout)
