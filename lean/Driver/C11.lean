import Driver.Util
import Driver.Img
import Driver.C04
import Driver.C20
import GinjaxVerif.Model.Layer
open Lean Driver GinjaxVerif GinjaxVerif.C20 GinjaxVerif.Layer

/-!
Driver ops for the convolve-and-contract layer (C11, C06).

`c11.layer`: evaluates the model `layerV` (as the composition `biasLoopV ∘ emitInTargetOrderV ∘
individualConvolveV`, with array-backed copies of the intermediate blocks and of the filter blocks so
that nothing is recomputed per access) and the spec `layerSpec` (`biasSpec` of the tabulated
`convPartSpec`) on integer data.  Values are integers when no mean-scaled bias is involved, rationals
(`mu = 1/|box|`) otherwise.

`c11.init`: the constructor (`initShapes`).
-/
namespace Driver.C11

open Driver.C20 (asTy asSig asBias jTy jSig)

section Generic
variable {R : Type} [Zero R] [Add R] [Mul R] (ofInt : Int → R) (toJ : R → Json)

def inBoxL {d : Nat} (dims : List Nat) (y : Pix d) : Bool :=
  (fnToList y).zip dims |>.all (fun (v, s) => decide (0 ≤ v ∧ v < (s : Int)))

def toIdx {d : Nat} (n : List Nat) : List (Fin d) :=
  n.filterMap (fun a => if h : a < d then some (⟨a, h⟩ : Fin d) else none)

/-- parse `{"shape":[c, spatial…, d…], "data":[…]}`; returns the block, its extents and its order -/
def parseBlock (d : Nat) (j : Json) : Driver.R (Block R d × List Nat × Nat) := do
  let shape ← listF asNat j "shape"
  let data ← listF asInt j "data"
  if shape.length < d + 1 then throw "block shape too short"
  let spatial := (shape.drop 1).take d
  let tens := shape.drop (1 + d)
  if tens.any (· ≠ d) then throw "tensor axes must have extent d"
  if data.length ≠ shape.foldl (· * ·) 1 then throw "data length does not match shape"
  let arr : Array R := (data.map ofInt).toArray
  let blk : Block R d :=
    { chans := shape.getD 0 0
      dims := listToFn d 0 spatial
      val := fun c y n =>
        if inBoxL spatial y then
          arr.getD (ravelIdx shape ([c] ++ (fnToList y).map Int.toNat ++ n.map (·.val))) 0
        else 0 }
  pure (blk, spatial, tens.length)

/-- values of a block of order `k` on its box, row-major `(chans, spatial…, tensor…)` -/
def blockVals {d : Nat} (k : Nat) (b : Block R d) : List R :=
  let dims := fnToList b.dims
  let tens := List.replicate k d
  (List.range b.chans).flatMap (fun c => (boxIdx dims).flatMap (fun y => (boxIdx tens).map (fun n =>
    b.val c (listToFn d 0 (y.map Int.ofNat)) (toIdx n))))

/-- array-backed copy of a block (the same values on its box, zero outside) -/
def tabBlock {d : Nat} (k : Nat) (b : Block R d) : Block R d :=
  let dims := fnToList b.dims
  let shape := [b.chans] ++ dims ++ List.replicate k d
  let arr := (blockVals k b).toArray
  { chans := b.chans, dims := b.dims,
    val := fun c y n =>
      if inBoxL dims y then arr.getD (ravelIdx shape ([c] ++ (fnToList y).map Int.toNat ++ n.map (·.val))) 0
      else 0 }

structure TabFB (R : Type) (d : Nat) where
  s : Ty
  t : Ty
  bank : Bank R d

/-- array-backed copy of one filter block `(out_c, in_c, M…, tensor…)` -/
def tabFB {d : Nat} (s t : Ty) (outC inC : Nat) (M : List Nat) (fb : Bank R d) : TabFB R d :=
  let k := s.1 + t.1
  let tens := List.replicate k d
  let shape := [outC, inC] ++ M ++ tens
  let arr := ((List.range outC).flatMap (fun o => (List.range inC).flatMap (fun c =>
    (boxIdx M).flatMap (fun a => (boxIdx tens).map (fun n =>
      fb o c (listToFn d 0 (a.map Int.ofNat)) (toIdx n)))))).toArray
  { s := s, t := t,
    bank := fun o c a n =>
      if inBoxL M a then arr.getD (ravelIdx shape ([o, c] ++ (fnToList a).map Int.toNat ++ n.map (·.val))) 0
      else 0 }

def blockJson {d : Nat} (t : Ty) (b : Block R d) : Json :=
  Json.mkObj [("key", jTy t),
    ("block", Json.mkObj [("shape", jList jNat ([b.chans] ++ fnToList b.dims ++ List.replicate t.1 d)),
                          ("data", jList toJ (blockVals t.1 b))])]

def evalLayer {d : Nat} (P : Params R d) (x : MImg R d) (M : List Nat) : Json :=
  -- array-backed filter blocks for every (input type, target type) pair
  let tabs : List (TabFB R d) := x.flatMap (fun e => P.target.map (fun t =>
    tabFB e.1 t.1 t.2 e.2.chans M (filterBlock P e.1 t.1)))
  let fb : Ty → Ty → Bank R d := fun s t =>
    match tabs.find? (fun tb => tb.s == s && tb.t == t) with
    | some tb => tb.bank
    | none => filterBlock P s t
  -- the model of the code
  let produced := (individualConvolveV (bankSig P) P.target P.ax fb x).map (fun e => (e.1, tabBlock e.1.1 e.2))
  let emitted := emitInTargetOrderV P.target produced
  let out := biasLoopV (normaliseBias P.mode) P.bias P.mu emitted
  -- the spec
  let specSig := convContractOut (bankSig P) (sigOf x) P.target
  let spec : MImg R d := specSig.map (fun t =>
    let conv := tabBlock t.1.1 { chans := t.2, dims := outDims P, val := convPartSpec P x t.1 }
    (t.1, { chans := t.2, dims := outDims P,
            val := biasSpec P.mode P.bias P.mu (outDims P) t.1 conv.val }))
  Json.mkObj [("model", jList (fun e => blockJson toJ e.1 e.2) out),
              ("spec", jList (fun e => blockJson toJ e.1 e.2) spec),
              ("spec_sig", jSig specSig),
              ("out_dims", jList jNat (fnToList (outDims P)))]

def buildAndEval (d : Nat) (j : Json) (muOf : Nat → R) : Driver.R Json := do
  let target ← field j "target_keys" >>= asSig
  let declared ← field j "input_keys" >>= asSig
  let mode ← field j "use_bias" >>= asBias
  -- input blocks in dict order
  let xs ← listF (fun e => do
    let t ← field e "key" >>= asTy
    let (b, sp, k) ← field e "block" >>= parseBlock (R := R) ofInt d
    if k ≠ t.1 then throw "block order differs from its key"
    pure (t, b, sp)) j "input"
  let N ← match xs with
    | [] => throw "empty input"
    | e :: _ => pure e.2.2
  if xs.any (fun e => e.2.2 ≠ N) then throw "blocks with different extents"
  let x : MImg R d := xs.map (fun e => (e.1, e.2.1))
  if (keysOf (sigOf x)).eraseDups.length != x.length then throw "bad-op: repeated key in the input"
  -- bank in dict order
  let bs ← listF (fun e => do
    let t ← field e "key" >>= asTy
    let (b, sp, k) ← field e "block" >>= parseBlock (R := R) ofInt d
    if k ≠ t.1 then throw "filter order differs from its key"
    pure (t, b, sp)) j "bank"
  let M ← match bs with
    | [] => throw "empty bank"
    | e :: _ => pure e.2.2
  if bs.any (fun e => e.2.2 ≠ M) then throw "filters with different extents"
  let bank : MImg R d := bs.map (fun e => (e.1, e.2.1))
  -- weights[s][t] : (out_c, in_c, n_filters)
  let ws ← listF (fun e => do
    let s ← field e "s" >>= asTy
    let t ← field e "t" >>= asTy
    let w ← field e "w"
    let shape ← listF asNat w "shape"
    let data ← listF asInt w "data"
    if shape.length ≠ 3 ∨ data.length ≠ shape.foldl (· * ·) 1 then throw "bad weight block"
    pure (s, t, shape, (data.map ofInt).toArray)) j "weights"
  let weights : Ty → Ty → Nat → Nat → Nat → R := fun s t o c f =>
    match ws.find? (fun e => e.1 == s && e.2.1 == t) with
    | some e => e.2.2.2.getD (ravelIdx e.2.2.1 [o, c, f]) 0
    | none => 0
  let bl ← listF (fun e => do
    let t ← field e "t" >>= asTy
    let data ← listF asInt e "data"
    pure (t, (data.map ofInt).toArray)) j "bias"
  let bias : Ty → Nat → R := fun t o =>
    match bl.find? (fun e => e.1 == t) with
    | some e => e.2.getD o 0
    | none => 0
  -- per-axis options from the padding dispatch of `convolve_ravel`
  let pmode ← (match optField j "padding" with | none => pure PadMode.none | some v => Driver.C04.parseMode v)
  let torus ← listF asBool j "torus"
  let stride ← listF asNat j "stride"
  let rd ← listF asNat j "rd"
  let ld ← listF asNat j "ld"
  if torus.length ≠ d ∨ stride.length ≠ d ∨ rd.length ≠ d ∨ ld.length ≠ d then throw "per-axis options must have length d"
  if !(d == 2 || d == 3) then throw "D must be 2 or 3"
  match dispatch pmode (listToFn d false torus) (listToFn d 0 N) (listToFn d 0 M)
      (listToFn d 1 stride) (listToFn d 1 rd) (listToFn d 1 ld) with
  | none => throw "rejected by the padding dispatch"
  | some ax =>
    let boxSize := (fnToList (fun j => (ax j).outLen)).foldl (· * ·) 1
    let P : Params R d := { target := target, bank := bank, weights := weights, bias := bias,
                            mode := mode, ax := ax, mu := muOf boxSize }
    if !(accepts P declared x) then throw "rejected: undeclared input key or channel mismatch"
    -- shape conformance of the supplied weights with the constructor: a weight block of the wrong
    -- shape cannot be evaluated (rejected); a weight block that is absent is read as zero and reported
    let bankN := bank.map (fun e => (e.1, e.2.chans))
    let sh := initShapes declared target bankN mode
    let mut conform := true
    for e in x do
      match Layer.lookup sh.weights e.1 with
      | none => throw "rejected: no weights for an input key"
      | some wts =>
        for w in wts do
          match ws.find? (fun u => u.1 == e.1 && u.2.1 == w.1) with
          | none => conform := false
          | some u =>
            if u.2.2.1 ≠ [w.2.1, w.2.2.1, w.2.2.2] then throw "weight shape differs from (out_c,in_c,n_filters)"
    let out := evalLayer toJ P x M
    pure (out.setObjVal! "weights_conform" (jBool conform))

end Generic

def jShapes (sh : Shapes) : Json :=
  Json.mkObj [
    ("weights", jList (fun e => Json.mkObj [("s", jTy e.1),
      ("entries", jList (fun w => Json.mkObj [("t", jTy w.1), ("shape", jList jNat [w.2.1, w.2.2.1, w.2.2.2])]) e.2)])
      sh.weights),
    ("bias", jList (fun e => Json.mkObj [("t", jTy e.1), ("out_c", jNat e.2)]) sh.bias),
    ("missing_filter", jBool sh.missing),
    ("use_bias", match sh.mode with
      | .auto => jStr "auto" | .mean => jStr "mean" | .scalar => jStr "scalar"
      | .true_ => jBool true | .false_ => jBool false)]

def handle (op : String) (j : Json) : Driver.R Json := do
  match op with
  | "c11.layer" =>
    let d ← natF j "d"
    let target ← field j "target_keys" >>= asSig
    let mode ← field j "use_bias" >>= asBias
    let meanBranch := mode == .mean ||
      ((mode == .auto || mode == .true_) && target.any (fun t => t.1 != (0, 0)))
    if !meanBranch then
      -- no mean-scaled branch can be taken: `mu` is irrelevant, integers suffice
      buildAndEval (R := Int) (fun i => i) jInt d j (fun _ => 0)
    else
      -- `jnp.mean` over the spatial axes: mu = 1 / |output box|
      buildAndEval (R := Rat) (fun i => (i : Rat)) jRat d j (fun n => mkRat 1 n)
  | "c11.init" =>
    let declared ← field j "input_keys" >>= asSig
    let target ← field j "target_keys" >>= asSig
    let mode ← field j "use_bias" >>= asBias
    let bankN ← listF (fun e => do
      let t ← field e "key" >>= asTy
      let n ← natF e "n"
      pure (t, n)) j "bank"
    pure (jShapes (initShapes declared target bankN mode))
  | _ => throw s!"unknown op {op}"

end Driver.C11
