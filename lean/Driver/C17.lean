import Driver.Util
import GinjaxVerif.Model.C17
import GinjaxVerif.Model.C17Loss
open Lean Driver GinjaxVerif.C15 GinjaxVerif.C17

/-!
Driver for C17.  Samples are integers (their own identity).  Multi-images are lists of
`[key, block]` pairs in insertion order, keys are strings; `perm` is `null` for `rand_key=None`.
-/
namespace Driver.C17

def asPair {β} (g : Json → R β) (j : Json) : R (String × β) :=
  match j with
  | .arr #[k, v] => do
    let k ← asStr k
    let v ← g v
    pure (k, v)
  | _ => throw s!"not a [key, block] pair: {j.compress}"

def jMI {β} (g : β → Json) (m : MI String β) : Json :=
  jList (fun kb => Json.arr #[jStr kb.1, g kb.2]) m

def asMI (j : Json) : R (MI String (List Int)) := asList (asPair (asList asInt)) j

/-- data set of the loss ops: type `t` of a multi-image holds the sample ids `i + 100 * t` -/
def idMI (L : Nat) (keys : List String) : MI String (List Int) :=
  keys.zipIdx.map (fun kt => (kt.1, (List.range L).map (fun (i : Nat) => Int.ofNat i + 100 * Int.ofNat kt.2)))

/-- the identity model on sample ids: one output type per input type, same keys, same order -/
def idNet (keys : List String) : Net String Int String Int :=
  keys.map (fun k => (k, fun s => (lookup k s).getD (-1)))

/-- per-sample loss read off a table: prediction made from input sample `i` (its first type holds
`i`) against target sample `j` -/
def tableLoss (tab : List (List Rat)) (pred y : MI String Int) : Rat :=
  match pred, y with
  | (_, i) :: _, (_, j) :: _ => ((tab[i.toNat]?).bind (·[j.toNat]?)).getD 0
  | _, _ => 0

structure LossArgs where
  L : Nat
  B : Nat
  nd : Nat
  perm : Option (List Nat)
  xkeys : List String
  ykeys : List String
  tab : List (List Rat)

def lossArgs (j : Json) : R LossArgs := do
  let L ← natF j "L"
  let B ← natF j "B"
  let nd ← natF j "nd"
  let perm ← match optField j "perm" with
    | none => pure none
    | some v => do
      let l ← asList asNat v
      pure (some l)
  let xkeys ← listF asStr j "xkeys"
  let ykeys ← listF asStr j "ykeys"
  let tab ← listF (asList asRat) j "loss"
  if xkeys.isEmpty || ykeys.isEmpty then throw "a multi-image without types" else
  if tab.length ≠ L || tab.any (fun r => r.length != L) then throw "loss table is not L x L" else
  match perm with
  | some π => if π.any (fun v => decide (L ≤ v)) then throw "index out of range in perm" else pure ()
  | none => pure ()
  pure { L, B, nd, perm, xkeys, ykeys, tab }

def handle (op : String) (j : Json) : R Json := do
  match op with
  | "c17.map_loss" =>
    let a ← lossArgs j
    let x := idMI a.L a.xkeys
    let y := idMI a.L a.ykeys
    match mapLossInBatches a.perm a.B a.nd (idNet a.xkeys) (tableLoss a.tab) x y with
    | none => throw "rejected"
    | some v =>
      -- the sample ids the modelled get_batches put into the batches of x (first type), batch order
      let used := match getBatches a.perm a.B a.nd [x, y] with
        | some (xbs :: _) => xbs.flatMap (fun b => match b with
            | (_, blk) :: _ => blk.flatten
            | [] => [])
        | _ => []
      pure (Json.mkObj [("loss", jRat v), ("used", jList jInt used)])
  | "c17.map_plus" =>
    let a ← lossArgs j
    let x := idMI a.L a.xkeys
    let y := idMI a.L a.ykeys
    match mapPlusLossInBatches a.perm a.B a.nd (idNet a.xkeys) (tableLoss a.tab) x y with
    | none => throw "rejected"
    | some (v, out) => pure (Json.mkObj [("loss", jRat v), ("out", jMI (jList jInt) out)])
  | "c17.batches" =>
    let B ← natF j "B"
    let nd ← natF j "nd"
    let perm ← match optField j "perm" with
      | none => pure none
      | some v => do
        let l ← asList asNat v
        pure (some l)
    let mis ← listF asMI j "mis"
    match getBatches perm B nd mis with
    | none => throw "rejected"
    | some out => pure (jList (jList (jMI (jList (jList jInt)))) out)
  | "c17.reshape_pmap" =>
    let nd ← natF j "nd"
    let mi ← field j "mi" >>= asMI
    match reshapePmap nd mi with
    | none => throw "rejected"
    | some out => pure (jMI (jList (jList jInt)) out)
  | "c17.get_subset" =>
    let idxs ← listF asNat j "idxs"
    let mi ← field j "mi" >>= asMI
    match getSubset idxs mi with
    | none => throw "rejected"
    | some out => pure (jMI (jList jInt) out)
  | _ => throw s!"unknown op {op}"

end Driver.C17
