import Driver.Util
import GinjaxVerif.Model.C17
open Lean Driver GinjaxVerif.C15 GinjaxVerif.C17

/-!
Driver for C17.  Samples are integers (their own identity).  Multi-images are lists of
`[key, block]` pairs in insertion order, keys are strings; `perm` is `null` for `rand_key=None`.
-/
namespace Driver.C17

def asPair {β} (g : Json → R β) (j : Json) : R (String × β) :=
  match j with
  | .arr #[k, v] => do
    let k ← asStr k
    let v ← g v
    pure (k, v)
  | _ => throw s!"not a [key, block] pair: {j.compress}"

def jMI {β} (g : β → Json) (m : MI String β) : Json :=
  jList (fun kb => Json.arr #[jStr kb.1, g kb.2]) m

def asMI (j : Json) : R (MI String (List Int)) := asList (asPair (asList asInt)) j

def handle (op : String) (j : Json) : R Json := do
  match op with
  | "c17.batches" =>
    let B ← natF j "B"
    let nd ← natF j "nd"
    let perm ← match optField j "perm" with
      | none => pure none
      | some v => do
        let l ← asList asNat v
        pure (some l)
    let mis ← listF asMI j "mis"
    match getBatches perm B nd mis with
    | none => throw "rejected"
    | some out => pure (jList (jList (jMI (jList (jList jInt)))) out)
  | "c17.reshape_pmap" =>
    let nd ← natF j "nd"
    let mi ← field j "mi" >>= asMI
    match reshapePmap nd mi with
    | none => throw "rejected"
    | some out => pure (jMI (jList (jList jInt)) out)
  | "c17.get_subset" =>
    let idxs ← listF asNat j "idxs"
    let mi ← field j "mi" >>= asMI
    match getSubset idxs mi with
    | none => throw "rejected"
    | some out => pure (jMI (jList jInt) out)
  | _ => throw s!"unknown op {op}"

end Driver.C17
