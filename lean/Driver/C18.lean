import Driver.Util
import Driver.C12
import GinjaxVerif.Model.C12
import GinjaxVerif.Model.C18
open Lean Driver GinjaxVerif.C12 GinjaxVerif.C18

namespace Driver.C18

def operands (j : Json) : R (MI Rat × MI Rat) := do
  let x ← field j "x" >>= (Driver.C12.asOperand · "x")
  let y ← field j "y" >>= (Driver.C12.asOperand · "y")
  pure (x, y)

def reject {α} (what : String) : R α := throw s!"rejected: {what}"

def handle (op : String) (j : Json) : R Json := do
  match op with
  | "c18.smse" =>
    let (x, y) ← operands j
    let red ← strF j "reduce"
    let legacy := ((optField j "legacy").bind (fun v => (asBool v).toOption)).getD false
    let pb := if legacy then smsePerBatchLegacy x y else smsePerBatch x y
    match pb with
    | none => reject "smse_loss: leading axes / missing type"
    | some l =>
      match red with
      | "mean" => pure (Json.mkObj [("shape", jList jNat []), ("data", jList jRat [mean l])])
      | "none" => pure (Json.mkObj [("shape", jList jNat [l.length]), ("data", jList jRat l)])
      | _ => reject s!"smse_loss: reduce={red}"
  | "c18.timestep" =>
    let (x, y) ← operands j
    let steps ← natF j "steps"
    let red ← strF j "reduce"
    let legacy := ((optField j "legacy").bind (fun v => (asBool v).toOption)).getD false
    let mm := if legacy then timestepMatrixLegacy x y steps else timestepMatrix x y steps
    match mm with
    | none => reject "timestep_smse_loss: leading axes / missing type / n_steps does not divide the channels"
    | some m =>
      match red with
      | "mean" => pure (Json.mkObj [("shape", jList jNat [steps]), ("data", jList jRat (meanAxis0 m steps))])
      | "max" =>
        pure (Json.mkObj [("shape", jList jNat [steps]),
                          ("data", jList jRat (m.getD (argmaxFirst (m.map List.sum)) []))])
      | "none" => pure (Json.mkObj [("shape", jList jNat [m.length, steps]), ("data", jList jRat m.flatten)])
      | _ => reject s!"timestep_smse_loss: reduce={red}"
  | "c18.normalized" =>
    let (x, y) ← operands j
    let eps ← field j "eps" >>= asRat
    match normalizedSmse x y eps with
    | none => reject "normalized_smse_loss: missing type"
    | some v => pure (Json.mkObj [("shape", jList jNat []), ("data", jList jRat [v])])
  | "c18.spec" =>
    -- the property's sentence in (batch, channel, pixel, component) coordinates, per batch entry
    let (x, y) ← operands j
    let kind ← strF j "kind"
    let L := getL x
    match kind with
    | "smse" => pure (jList jRat ((List.range L).map (smseSpec x y)))
    | "timestep" =>
      let steps ← natF j "steps"
      pure (jList (jList jRat) ((List.range L).map (fun i => (List.range steps).map (tsSpec x y steps i))))
    | "normalized" =>
      let eps ← field j "eps" >>= asRat
      pure (jList jRat ((List.range L).map (normSpec x y eps)))
    | _ => throw s!"bad kind {kind}"
  | _ => throw s!"unknown op {op}"

end Driver.C18
