import Driver.Util
import Driver.Img
import Driver.C13
import GinjaxVerif.Model.C14
open Lean Driver GinjaxVerif GinjaxVerif.ND GinjaxVerif.C13 GinjaxVerif.C14

/-!
Driver ops `c14.*`: the per-image operations of `MultiImage` and `jax.vmap` on integer arrays.
Wire format as in `Driver/C13.lean` (array `{"shape","data"}`, multi image
`{"D","is_torus","data":[{"k","p","block"}…]}`).  A per-image function is
`{"kind": "tge", "d":…, "M":[[…]], "p":…}` | `{"kind":"pool_sum","d":…,"patch":…}` |
`{"kind":"norm_sq","d":…}` | `{"kind":"marker","mul":…,"add":…}` (identity with a marker:
`v ↦ mul * v + add + (sum of the image)`, a function that mixes everything INSIDE one image).
A component is `{"idx": i}` or `{"slice": [lo, hi]}`.
-/
namespace Driver.C14
open Driver.C13 (asNDArr jNDArr asMI jMI jGImg guard)

/-- a per-image function the driver can evaluate, with its abstract output shape and the
condition under which the library accepts the image -/
structure PerImage where
  f : NDArr Int → NDArr Int
  outShape : List Nat → List Nat
  ok : List Nat → Bool

def markerFn (mul add : Int) (y : NDArr Int) : NDArr Int :=
  let s := y.data.foldl (· + ·) 0
  ⟨y.shape, y.data.map fun v => mul * v + add + s⟩

def parsePerImage (j : Json) : R PerImage := do
  let kind ← strF j "kind"
  match kind with
  | "tge" =>
    let d ← natF j "d"
    let M ← field j "M" >>= parseMat d
    if !isSignedPerm M then throw "not a signed permutation matrix"
    let p ← natF j "p"
    pure ⟨tgeArr d M p, tgeOutShape M,
      fun rest => decide (d ≤ rest.length) && (rest.drop d).all (· == d)⟩
  | "pool_sum" =>
    let d ← natF j "d"
    let patch ← natF j "patch"
    pure ⟨poolArr d patch (1 : Int), poolOutShape d patch, poolOk d patch⟩
  | "norm_sq" =>
    let d ← natF j "d"
    pure ⟨normBlock d sumSq, fun rest => rest.take d,
      fun rest => decide (d ≤ rest.length) && (rest.take d).prod != 0⟩
  | "marker" =>
    let mul ← intF j "mul"
    let add ← intF j "add"
    pure ⟨markerFn mul add, id, fun _ => true⟩
  | _ => throw s!"unknown per-image function {kind}"

def asComp (j : Json) : R Comp := do
  match optField j "idx" with
  | some v => pure (.idx (← asNat v))
  | none =>
    match ← listF asNat j "slice" with
    | [lo, hi] => pure (.slice lo hi)
    | _ => throw "component must be {idx} or {slice:[lo,hi]}"

def ratStat (l : List Rat) : Rat × Rat :=
  let n : Rat := (l.length : Nat)
  let mu := l.foldl (· + ·) 0 / n
  (mu, l.foldl (fun acc v => acc + (v - mu) * (v - mu)) 0 / n)

def jRatArr (a : NDArr Rat) : Json :=
  Json.mkObj [("shape", jList jNat a.shape), ("data", Json.arr (a.data.map jRat))]

def handle (op : String) (j : Json) : R Json := do
  match op with
  | "c14.one" =>
    -- the per-image function on one image
    let x ← field j "x" >>= asNDArr
    let pf ← field j "f" >>= parsePerImage
    guard (pf.ok x.shape) "per-image function"
    pure (jNDArr (pf.f x))
  | "c14.vmap" =>
    let x ← field j "x" >>= asNDArr
    let pf ← field j "f" >>= parsePerImage
    guard (decide (x.shape.length ≥ 1) && pf.ok x.shape.tail) "vmap"
    pure (jNDArr (vmap0 pf.outShape pf.f x))
  | "c14.map_leading" =>
    let x ← field j "x" >>= asNDArr
    let n ← natF j "n_lead"
    let pf ← field j "f" >>= parsePerImage
    let rest := x.shape.drop n
    guard (decide (n ≤ x.shape.length) && pf.ok rest && mapLeadingOk n rest pf.outShape x)
      "map_leading"
    pure (jNDArr (mapLeading n rest pf.outShape pf.f x))
  | "c14.tge" =>
    let m ← field j "mi" >>= asMI
    let d ← natF j "d"
    let M ← field j "M" >>= parseMat d
    if !isSignedPerm M then throw "not a signed permutation matrix"
    guard (miTgeOk M m) "times_group_element"
    pure (jMI (miTge M m))
  | "c14.average_pool" =>
    let m ← field j "mi" >>= asMI
    let patch ← natF j "patch"
    guard (miAveragePoolOk patch m) "average_pool"
    pure (jMI (miAveragePool patch (1 : Int) m))
  | "c14.norm" =>
    let m ← field j "mi" >>= asMI
    guard (miNormOk sumSq m) "norm"
    pure (jMI (miNorm sumSq m))
  | "c14.get_component" =>
    let m ← field j "mi" >>= asMI
    let c ← field j "component" >>= asComp
    let t ← natF j "future_steps"
    guard (getComponentOk m c t) "get_component"
    pure (jMI (getComponent m c t))
  | "c14.batch_get_component" =>
    let m ← field j "mi" >>= asMI
    let c ← field j "component" >>= asComp
    let t ← natF j "future_steps"
    guard (batchGetComponentOk m c t) "batch_get_component"
    pure (jMI (batchGetComponent m c t))
  | "c14.batch_get_component_legacy" =>
    let m ← field j "mi" >>= asMI
    let c ← field j "component" >>= asComp
    let t ← natF j "future_steps"
    guard (batchGetComponentOk { m with data := sortKeys m.data } c t) "batch_get_component"
    pure (jMI (batchGetComponentLegacy m c t))
  | "c14.to_images" =>
    let m ← field j "mi" >>= asMI
    pure (jList jGImg m.toImages)
  | "c14.group_stats" =>
    -- one sample (channels, spatial): centred values and the (biased) variance of the own group
    let x ← field j "x" >>= asNDArr
    let groups ← natF j "groups"
    let c := x.shape.headD 0
    guard (groups != 0 && c % groups == 0 && x.shape.prod != 0) "group_norm"
    let xr : NDArr Rat := NDArr.map (fun (v : Int) => (v : Rat)) x
    let centred := groupNormSample groups ratStat (fun v s => v - s.1) xr
    let var := groupNormSample groups ratStat (fun _ s => s.2) xr
    pure (Json.mkObj [("centred", jRatArr centred), ("var", jRatArr var)])
  | _ => throw s!"unknown op {op}"

end Driver.C14
