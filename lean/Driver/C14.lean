import Driver.Util
open Lean Driver

namespace Driver.C14

def handle (op : String) (_j : Json) : R Json := do
  match op with
  | _ => throw s!"unknown op {op}"

end Driver.C14
