import Driver.Util
import GinjaxVerif.Model.Action
open Lean Driver GinjaxVerif

/-! JSON <-> `Img Int d` conversion shared by the geometric driver modules. -/
namespace Driver

/-- all multi-indices of a box with the given extents, row-major -/
def boxIdx : List Nat → List (List Nat)
  | [] => [[]]
  | n :: rest => (List.range n).flatMap (fun i => (boxIdx rest).map (fun t => i :: t))

def ravelIdx : List Nat → List Nat → Nat
  | [], _ => 0
  | _, [] => 0
  | n :: ns, i :: is => i * ns.foldl (· * ·) 1 + ravelIdx ns is
  -- note: `n` itself is not needed for the offset

def listToFn {α : Type} (d : Nat) (dflt : α) (l : List α) : Fin d → α := fun i => l.getD i.val dflt

def fnToList {α : Type} {d : Nat} (f : Fin d → α) : List α := (List.finRange d).map f

def parseMat (d : Nat) (j : Json) : R (Mat d) := do
  let rows ← asList (asList asInt) j
  if rows.length ≠ d ∨ rows.any (fun r => r.length ≠ d) then throw "matrix is not d x d"
  pure (fun i k => (rows.getD i.val []).getD k.val 0)

/-- parse `{"shape":[spatial..., d, d, ...], "data":[...]}` as an image of dimension `d` -/
def parseImg (d : Nat) (j : Json) : R (Img Int d) := do
  let shape ← listF asNat j "shape"
  let data ← listF asInt j "data"
  if shape.length < d then throw "shape shorter than d"
  let spatial := shape.take d
  let tens := shape.drop d
  if tens.any (· ≠ d) then throw "tensor axes must have extent d"
  if data.length ≠ shape.foldl (· * ·) 1 then throw "data length does not match shape"
  let arr := data.toArray
  pure { dims := listToFn d 0 spatial
         k := tens.length
         val := fun y n =>
           let idx := (fnToList y).map Int.toNat ++ n.map (·.val)
           arr.getD (ravelIdx shape idx) 0 }

/-- tabulate an image on its box and on the index lists of length `k` -/
def imgToJson {d : Nat} (A : Img Int d) : Json :=
  let spatial := fnToList A.dims
  let tens := List.replicate A.k d
  let vals := (boxIdx spatial).flatMap (fun y =>
    (boxIdx tens).map (fun n =>
      A.val (listToFn d 0 (y.map Int.ofNat))
        (n.filterMap (fun a => if h : a < d then some (⟨a, h⟩ : Fin d) else none))))
  Json.mkObj [("shape", jList jNat (spatial ++ tens)), ("data", jList jInt vals)]

/-- materialise an image into an array-backed one (same values on the box) so that composed
operations are not re-evaluated exponentially -/
def tabulate {d : Nat} (A : Img Int d) : Img Int d :=
  let spatial := fnToList A.dims
  let tens := List.replicate A.k d
  let shape := spatial ++ tens
  let arr := ((boxIdx spatial).flatMap (fun y =>
    (boxIdx tens).map (fun n =>
      A.val (listToFn d 0 (y.map Int.ofNat))
        (n.filterMap (fun a => if h : a < d then some (⟨a, h⟩ : Fin d) else none))))).toArray
  { dims := A.dims, k := A.k,
    val := fun y n => arr.getD (ravelIdx shape ((fnToList y).map Int.toNat ++ n.map (·.val))) 0 }

end Driver
