import Driver.Util
import Driver.Img
import GinjaxVerif.Model.Action
open Lean Driver GinjaxVerif

namespace Driver.C02

def handle (op : String) (j : Json) : R Json := do
  let d ← natF j "d"
  let M ← field j "M" >>= parseMat d
  if !isSignedPerm M then throw "not a signed permutation matrix"
  match op with
  | "c02.tge" =>
    let p ← natF j "p"
    let A ← field j "image" >>= parseImg d
    pure (imgToJson (tge M p A))
  | "c02.tge_legacy" =>
    let p ← natF j "p"
    let A ← field j "image" >>= parseImg d
    pure (imgToJson (tgeLegacy M p A))
  | "c02.act_spec" =>
    let p ← natF j "p"
    let A ← field j "image" >>= parseImg d
    pure (imgToJson (actSpec M p A))
  | "c02.meta" =>
    let dims ← listF asNat j "dims"
    let flags ← listF asBool j "flags"
    if dims.length ≠ d ∨ flags.length ≠ d then throw "dims/flags must have length d"
    pure (Json.mkObj [
      ("dims", jList jNat (fnToList (rotDims M (listToFn d 0 dims)))),
      ("flags", jList jBool (fnToList (transport M (listToFn d false flags)))),
      ("det", jInt (det M))])
  | "c02.mul" =>
    let N ← field j "N" >>= parseMat d
    pure (jList (jList jInt) (fnToList (fun i => fnToList (Mat.mul M N i))))
  | _ => throw s!"unknown op {op}"

end Driver.C02
