import Driver.Util
import GinjaxVerif.Model.C07
open Lean Driver GinjaxVerif GinjaxVerif.C20 GinjaxVerif.Layer GinjaxVerif.C07

/-!
Driver ops of C07.

`c07.plan`  build `mkUNet` / `mkResNet` / `mkDilResNet` / `mkConvBlock` for a constructor
            configuration and print the layer plan `trace` of one forward pass on an input of the given
            signature, extents and flags (the plan does not depend on any learnable value: all of
            them are set to 0, the banks are given by their keys).
`c07.eval`  evaluate a small ConvContract / MaxNormPool / `+` / `concat` net exactly over `Rat`.
-/
namespace Driver.C07

def asTy (j : Json) : R Ty := do
  match j with
  | .arr #[k, p] => pure ((← asNat k), (← asNat p))
  | _ => throw s!"not a (k,p) pair: {j.compress}"

def asSig (j : Json) : R Sig := do
  let l ← asList (fun e => do
    match e with
    | .arr #[t, c] => pure ((← asTy t), (← asNat c))
    | _ => throw s!"not a ((k,p),c) entry: {e.compress}") j
  if (keysOf l).eraseDups.length != l.length then throw "bad-op: repeated key in a signature"
  pure l

def asBias (j : Json) : R BiasMode :=
  match j with
  | .bool true => pure .true_
  | .bool false => pure .false_
  | .str "auto" => pure .auto
  | .str "mean" => pure .mean
  | .str "scalar" => pure .scalar
  | _ => throw s!"bad bias setting {j.compress}"

def jTy (t : Ty) : Json := Json.arr #[jNat t.1, jNat t.2]
def jSig (s : Sig) : Json := jList (fun b => Json.arr #[jTy b.1, jNat b.2]) s

def jBias : BiasMode → Json
  | .auto => "auto" | .mean => "mean" | .scalar => "scalar" | .true_ => Json.bool true
  | .false_ => Json.bool false

def jPad : PadMode → Json
  | .torus => "TORUS" | .same => "SAME" | .valid => "VALID"
  | .int p => jNat p
  | .explicit pads => jList (fun p => Json.arr #[jNat p.1, jNat p.2]) pads
  | .none => Json.null

def jFn {d : Nat} {α : Type} (f : α → Json) (v : Fin d → α) : Json :=
  jList f ((List.finRange d).map v)

def jEvent {d : Nat} : Event d → Json
  | .conv i o di dout pad stride ld rd m bias =>
    Json.mkObj [("kind", "conv"), ("in", jSig i), ("out", jSig o), ("dims_in", jFn jNat di),
      ("dims_out", jFn jNat dout), ("padding", jPad pad), ("stride", jNat stride), ("lhs", jNat ld),
      ("rhs", jNat rd), ("M", jNat m), ("bias", jBias bias)]
  | .norm s dm => Json.mkObj [("kind", "norm"), ("sig", jSig s), ("dims", jFn jNat dm)]
  | .vn s dm => Json.mkObj [("kind", "vn"), ("sig", jSig s), ("dims", jFn jNat dm)]
  | .pool p s di dout =>
    Json.mkObj [("kind", "pool"), ("patch", jNat p), ("sig", jSig s), ("dims_in", jFn jNat di),
      ("dims_out", jFn jNat dout)]
  | .add s dm => Json.mkObj [("kind", "add"), ("sig", jSig s), ("dims", jFn jNat dm)]
  | .concat a b o dm =>
    Json.mkObj [("kind", "concat"), ("a", jSig a), ("b", jSig b), ("out", jSig o), ("dims", jFn jNat dm)]

/-- a vector of length `d` from a JSON list -/
def asVec {α : Type} (d : Nat) (f : Json → R α) (dflt : α) (j : Json) : R (Fin d → α) := do
  let l ← asList f j
  if l.length != d then throw s!"bad-op: expected {d} entries, got {l.length}"
  pure (fun i => l.getD i.val dflt)

/-- a bank given by its keys: one zero filter of side `M` per key -/
def bankOfKeys (d M : Nat) (keys : List Ty) : MImg Int d :=
  keys.map (fun t => (t, { chans := 1, dims := fun _ => M, val := fun _ _ _ => 0 }))

def zeroParams : ParamFam Int :=
  { convW := fun _ _ _ _ _ _ => 0, convB := fun _ _ _ => 0, normScale := fun _ _ _ => 0,
    normBias := fun _ _ _ => 0, vnW := fun _ _ _ _ => 0 }

def optNat (j : Json) (k : String) (dflt : Nat) : R Nat :=
  match optField j k with
  | none => pure dflt
  | some v => asNat v

def optBool (j : Json) (k : String) (dflt : Bool) : R Bool :=
  match optField j k with
  | none => pure dflt
  | some v => asBool v

def asNetArgs (d : Nat) (j : Json) : R (NetArgs Int d) := do
  let inSig ← field j "input_keys" >>= asSig
  let outSig ← field j "output_keys" >>= asSig
  let mid ← field j "mid_keys" >>= asSig
  let depth ← natF j "depth"
  let bias ← field j "use_bias" >>= asBias
  let act ← boolF j "activation"
  let gn ← boolF j "use_group_norm"
  let bank ← listF asTy j "bank"
  let m ← optNat j "M" 3
  let up ← match optField j "up_bank" with
    | none => pure []
    | some v => asList asTy v
  let upM ← optNat j "up_M" 2
  pure { inSig := inSig, outSig := outSig, mid := mid, depth := depth, bias := bias, act := act,
         groupNorm := gn, bank := bankOfKeys d m bank, M := m, upBank := bankOfKeys d upM up, upM := upM,
         numDown := (← optNat j "num_downsamples" 0), numConv := (← optNat j "num_conv" 2),
         numBlocks := (← optNat j "num_blocks" 0), preact := (← optBool j "preactivation_order" false),
         epsNorm := 0, epsVN := 0 }

def asPad (d : Nat) (j : Json) : R PadMode :=
  match optField j "padding" with
  | none => pure .none
  | some (.str "TORUS") => pure .torus
  | some (.str "SAME") => pure .same
  | some (.str "VALID") => pure .valid
  | some (.arr a) => do
    let ps ← a.toList.mapM (fun e => match e with
      | .arr #[lo, hi] => do pure ((← asNat lo), (← asNat hi))
      | _ => throw s!"bad padding entry {e.compress}")
    if ps.length != d then throw "bad-op: padding length"
    pure (.explicit ps)
  | some v => do pure (.int (← asNat v))

def asBlockArgs (d : Nat) (j : Json) : R (BlockArgs Int d) := do
  let inK ← field j "input_keys" >>= asSig
  let outK ← field j "output_keys" >>= asSig
  let bias ← field j "use_bias" >>= asBias
  let act ← boolF j "activation"
  let bank ← listF asTy j "bank"
  let m ← optNat j "M" 3
  pure { inKeys := inK, outKeys := outK, bias := bias, act := act, bank := bankOfKeys d m bank, M := m,
         groupNorm := (← optBool j "use_group_norm" false),
         preact := (← optBool j "preactivation_order" false),
         pad := (← asPad d j), rd := (← optNat j "rhs_dilation" 1), ld := (← optNat j "lhs_dilation" 1),
         epsNorm := 0, epsVN := 0 }

def planFor (d : Nat) (cls : String) (cfg x : Json) : R Json := do
  let net : Net Int d ← match cls with
    | "unet" => do pure (mkUNet zeroParams (← asNetArgs d cfg))
    | "resnet" => do pure (mkResNet zeroParams (← asNetArgs d cfg))
    | "dilresnet" => do pure (mkDilResNet zeroParams (← asNetArgs d cfg))
    | "convblock" => do pure (mkConvBlock zeroParams [] (← asBlockArgs d cfg))
    | _ => throw s!"bad-op: unknown class {cls}"
  let sig ← field x "sig" >>= asSig
  let dims ← field x "dims" >>= asVec d asNat 0
  let torus ← field x "torus" >>= asVec d asBool false
  match trace net ⟨sig, dims, torus⟩ with
  | none => throw "rejected"
  | some (evs, s) =>
    pure (Json.mkObj [("events", jList jEvent evs),
      ("out", Json.mkObj [("sig", jSig s.sig), ("dims", jFn jNat s.dims), ("torus", jFn jBool s.torus)])])

def handle (op : String) (j : Json) : R Json := do
  match op with
  | "c07.plan" =>
    let d ← natF j "D"
    let cls ← strF j "class"
    planFor d cls (← field j "cfg") (← field j "x")
  | _ => throw s!"unknown op {op}"

end Driver.C07
