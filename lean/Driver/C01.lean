import Driver.Util
import Driver.Img
import Driver.C04
import GinjaxVerif.Model.Conv
open Lean Driver GinjaxVerif

namespace Driver.C01

/-- values of a bank on its box, row-major (computed once by the caller) -/
def bankArr {d : Nat} (B C : Nat) (dims : List Nat) (k : Nat) (bank : Bank Int d) : Array Int :=
  let tens := List.replicate k d
  ((List.range B).flatMap (fun b => (List.range C).flatMap (fun c =>
    (boxIdx dims).flatMap (fun y => (boxIdx tens).map (fun n =>
      bank b c (listToFn d 0 (y.map Int.ofNat))
        (n.filterMap (fun a => if h : a < d then some (⟨a, h⟩ : Fin d) else none))))))).toArray

structure TabBank (d : Nat) where
  bank : Bank Int d

/-- materialise a bank on its box so that nested evaluation stays cheap; the array is stored in a
structure field so that it is computed once, not on every access -/
def tabBank {d : Nat} (B C : Nat) (dims : List Nat) (k : Nat) (bank : Bank Int d) : TabBank d :=
  let arr := bankArr B C dims k bank
  let shape := [B, C] ++ dims ++ List.replicate k d
  { bank := fun b c y n =>
      if (fnToList y).zip dims |>.all (fun (v, s) => decide (0 ≤ v ∧ v < (s : Int))) then
        arr.getD (ravelIdx shape ([b, c] ++ (fnToList y).map Int.toNat ++ n.map (·.val))) 0
      else 0 }

def tgeBankD {d : Nat} (M : Mat d) (p : Nat) (dims : Fin d → Nat) (k : Nat) (B : Bank Int d) : Bank Int d :=
  fun b ch y t => (tge M p ⟨dims, k, B b ch⟩).val y t

def handle (op : String) (j : Json) : R Json := do
  let d ← natF j "d"
  let M ← field j "M" >>= parseMat d
  if !isSignedPerm M then throw "not a signed permutation matrix"
  let img ← field j "image" >>= Driver.C04.parseBank d
  let flt ← field j "filter" >>= Driver.C04.parseBank d
  let cfg ← Driver.C04.getCfg d j img flt
  let pI ← natF j "p_image"
  let pF ← natF j "p_filter"
  match op with
  | "c01.lhs" =>
    -- convolve(g.A, g.C, g.opts): the model of the transformed call
    let cfg' : ConvCfg d := { cfg with ax := transport M cfg.ax }
    let N := listToFn d 0 img.spatial
    let Mf := listToFn d 0 flt.spatial
    let gi := tabBank img.lead0 img.lead1 (fnToList (rotDims M N)) img.k (tgeBankD M pI N img.k img.bank)
    let gf := tabBank flt.lead0 flt.lead1 (fnToList (rotDims M Mf)) flt.k (tgeBankD M pF Mf flt.k flt.bank)
    pure (Driver.C04.bankToJson img.lead0 flt.lead0 (fnToList cfg'.outDims) (cfg.kI + cfg.kF)
      (convSpec cfg' gi.bank gf.bank))
  | "c01.rhs" =>
    -- g.(convolve(A, C, opts))
    let dims := fnToList cfg.outDims
    let out := tabBank img.lead0 flt.lead0 dims (cfg.kI + cfg.kF) (convSpec cfg img.bank flt.bank)
    pure (Driver.C04.bankToJson img.lead0 flt.lead0 (fnToList (rotDims M cfg.outDims)) (cfg.kI + cfg.kF)
      (tgeBankD M (pI + pF) cfg.outDims (cfg.kI + cfg.kF) out.bank))
  | _ => throw s!"unknown op {op}"

end Driver.C01
