import Driver.Util
import Driver.Img
import GinjaxVerif.Model.C08
import GinjaxVerif.Model.C08Max
open Lean Driver GinjaxVerif

/-!
Driver ops for C08.  Exact ops (`Int` / `Rat`): `c08.avg_pool`, `c08.unpool`, `c08.unpool_conv`,
`c08.max_pool`, `c08.max_pool_raw`, `c08.max_pool_comparator`, `c08.max_pool_scalar`, `c08.norm_sq`, `c08.stats`.  Float ops (the model instantiated
at `R := Float`, doubles transported as their IEEE bit patterns): `c08.group_norm`, `c08.vn`.
Blocks are `{"shape":[C, spatial…, d…], "data":[…]}` (`"bits"` for doubles).
-/
namespace Driver.C08

instance : Zero Float := ⟨0.0⟩
instance : One Float := ⟨1.0⟩
instance : NatCast Float := ⟨Float.ofNat⟩

def toFin (d : Nat) (n : List Nat) : List (Fin d) :=
  n.filterMap (fun a => if h : a < d then some (⟨a, h⟩ : Fin d) else none)

def parseBlk {α : Type} (d : Nat) (dflt : α) (pv : Json → R α) (key : String) (j : Json) :
    R (Blk α d) := do
  let shape ← listF asNat j "shape"
  let data ← listF pv j key
  if shape.length < d + 1 then throw "block shape shorter than 1 + d"
  let spatial := (shape.drop 1).take d
  let tens := shape.drop (d + 1)
  if tens.any (· ≠ d) then throw "tensor axes must have extent d"
  if data.length ≠ shape.foldl (· * ·) 1 then throw "data length does not match shape"
  let arr := data.toArray
  pure { C := shape.headD 0, dims := listToFn d 0 spatial, k := tens.length,
         val := fun c y n =>
           arr.getD (ravelIdx shape (c :: ((fnToList y).map Int.toNat ++ n.map (·.val)))) dflt }

def blkShape {α : Type} {d : Nat} (B : Blk α d) : List Nat :=
  B.C :: (fnToList B.dims ++ List.replicate B.k d)

def blkVals {α : Type} {d : Nat} (B : Blk α d) : List α :=
  (List.range B.C).flatMap (fun c =>
    (boxIdx (fnToList B.dims)).flatMap (fun y =>
      (boxIdx (List.replicate B.k d)).map (fun n =>
        B.val c (listToFn d 0 (y.map Int.ofNat)) (toFin d n))))

def blkJson {α : Type} {d : Nat} (f : α → Json) (key : String) (B : Blk α d) : Json :=
  Json.mkObj [("shape", jList jNat (blkShape B)), (key, jList f (blkVals B))]

/-- array-backed copy (same values on channels `< C`, the box, index lists of length `k`) -/
def tabBlk {α : Type} {d : Nat} (dflt : α) (B : Blk α d) : Blk α d :=
  let shape := blkShape B
  let arr := (blkVals B).toArray
  { B with val := fun c y n =>
      arr.getD (ravelIdx shape (c :: ((fnToList y).map Int.toNat ++ n.map (·.val)))) dflt }

def asBits (j : Json) : R Float := do
  let n ← asNat j
  pure (Float.ofBits n.toUInt64)

def jBits (x : Float) : Json := jNat x.toBits.toNat

def mapBlk {α β : Type} {d : Nat} (f : α → β) (B : Blk α d) : Blk β d :=
  { C := B.C, dims := B.dims, k := B.k, val := fun c y n => f (B.val c y n) }

def checkPatch {α : Type} {d : Nat} (P : Nat) (B : Blk α d) : R Unit := do
  if P = 0 then throw "patch length must be positive"
  if (List.finRange d).any (fun j => B.dims j % P ≠ 0) then
    throw "patch length must divide every spatial extent"

/-! ### symmetric inverse square root (stands for `eigh`): cyclic Jacobi iteration -/

abbrev FM := Array (Array Float)

def fmGet (A : FM) (i j : Nat) : Float := (A.getD i #[]).getD j 0.0

def fmOf (n : Nat) (f : Nat → Nat → Float) : FM :=
  (Array.range n).map (fun i => (Array.range n).map (fun j => f i j))

def fmMul (n : Nat) (A B : FM) : FM :=
  fmOf n (fun i j => (List.range n).foldl (fun acc l => acc + fmGet A i l * fmGet B l j) 0.0)

def fmT (n : Nat) (A : FM) : FM := fmOf n (fun i j => fmGet A j i)

/-- one Jacobi rotation annihilating the entry `(p, q)` -/
def jacobiStep (n p q : Nat) (AV : FM × FM) : FM × FM :=
  let (A, V) := AV
  let apq := fmGet A p q
  if apq.abs < 1e-300 then (A, V)
  else
    let theta := (fmGet A q q - fmGet A p p) / (2.0 * apq)
    let t := (if theta < 0.0 then -1.0 else 1.0) / (theta.abs + Float.sqrt (theta * theta + 1.0))
    let c := 1.0 / Float.sqrt (t * t + 1.0)
    let s := t * c
    let J := fmOf n (fun i j =>
      if i = p ∧ j = p then c else if i = q ∧ j = q then c
      else if i = p ∧ j = q then s else if i = q ∧ j = p then -s
      else if i = j then 1.0 else 0.0)
    (fmMul n (fmT n J) (fmMul n A J), fmMul n V J)

/-- `U diag(f λ) Uᵀ` of a symmetric matrix -/
def symFun (n : Nat) (f : Float → Float) (A : FM) : FM :=
  let pairs := (List.range n).flatMap (fun p => ((List.range n).filter (· > p)).map (fun q => (p, q)))
  let (D, V) := (List.range 30).foldl
    (fun AV _ => pairs.foldl (fun AV pq => jacobiStep n pq.1 pq.2 AV) AV) (A, fmOf n (fun i j => if i = j then 1.0 else 0.0))
  fmOf n (fun i j => (List.range n).foldl (fun acc l => acc + fmGet V i l * f (fmGet D l l) * fmGet V j l) 0.0)

def invSqrtSym {d : Nat} (Cv : RMat Float d) : RMat Float d :=
  let A := fmOf d (fun i j => if h : i < d ∧ j < d then Cv ⟨i, h.1⟩ ⟨j, h.2⟩ else 0.0)
  let W := symFun d (fun l => 1.0 / Float.sqrt l) A
  fun i j => fmGet W i.val j.val

def activation (name : String) : R (Float → Float) :=
  match name with
  | "relu" => pure (fun x => if x < 0.0 then 0.0 else x)
  | "tanh" => pure Float.tanh
  | "leaky_relu" => pure (fun x => if x < 0.0 then 0.01 * x else x)
  | "identity" => pure id
  | "square" => pure (fun x => x * x)
  | _ => throw s!"unknown activation {name}"

def vecF (l : List Float) : Nat → Float := fun c => l.getD c 0.0

/-! ### ops -/

def handle (op : String) (j : Json) : R Json := do
  let d ← natF j "d"
  match op with
  | "c08.avg_pool" =>
    let P ← natF j "P"
    let B ← field j "block" >>= parseBlk d (0 : Int) asInt "data"
    checkPatch P B
    let Bq : Blk Rat d := mapBlk (fun (v : Int) => (v : Rat)) B
    pure (blkJson jRat "data" (averagePool P Bq))
  | "c08.patch_mean" =>
    let P ← natF j "P"
    let B ← field j "block" >>= parseBlk d (0 : Int) asInt "data"
    checkPatch P B
    let Bq : Blk Rat d := mapBlk (fun (v : Int) => (v : Rat)) B
    pure (blkJson jRat "data" (patchMean P Bq))
  | "c08.unpool" =>
    let P ← natF j "P"
    let B ← field j "block" >>= parseBlk d (0 : Int) asInt "data"
    if P = 0 then throw "patch length must be positive"
    pure (blkJson jInt "data" (unpool P B))
  | "c08.unpool_conv" =>
    let P ← natF j "P"
    let B ← field j "block" >>= parseBlk d (0 : Int) asInt "data"
    if P = 0 then throw "patch length must be positive"
    pure (blkJson jInt "data" (unpoolConv P B))
  | "c08.max_pool" =>
    let P ← natF j "P"
    let B ← field j "block" >>= parseBlk d (0 : Int) asInt "data"
    checkPatch P B
    pure (blkJson jInt "data" (maxPool P B))
  | "c08.max_pool_raw" =>
    let P ← natF j "P"
    let B ← field j "block" >>= parseBlk d (0 : Int) asInt "data"
    checkPatch P B
    if B.k ≠ 0 then throw "use_norm=False needs a scalar image"
    pure (blkJson jInt "data" (maxPoolRaw P B))
  | "c08.max_pool_scalar" =>
    -- `max_pool(..., use_norm=False)`: asserts `len(patches) == 1`, i.e. `D^k = 1` (`k = 0` for `D ≥ 2`)
    let P ← natF j "P"
    let B ← field j "block" >>= parseBlk d (0 : Int) asInt "data"
    checkPatch P B
    if B.k ≠ 0 then throw "use_norm=False needs a scalar image"
    pure (blkJson jInt "data" (maxPoolScalar P B))
  | "c08.max_pool_comparator" =>
    -- `max_pool(..., comparator_image=K)`: asserts `comparator_image.shape == spatial_dims`
    let P ← natF j "P"
    let B ← field j "block" >>= parseBlk d (0 : Int) asInt "data"
    let K ← field j "comparator" >>= parseBlk d (0 : Int) asInt "data"
    checkPatch P B
    if K.k ≠ 0 then throw "the comparator must be a scalar image"
    if K.C ≠ B.C then throw "one comparator image per channel is needed"
    if fnToList K.dims ≠ fnToList B.dims then throw "comparator_image.shape must equal spatial_dims"
    pure (blkJson jInt "data" (maxPoolCmp P K B))
  | "c08.norm_sq" =>
    let B ← field j "block" >>= parseBlk d (0 : Int) asInt "data"
    let N : Blk Int d := { C := B.C, dims := B.dims, k := 0, val := fun c y _ => normSq (B.img c) y }
    pure (blkJson jInt "data" N)
  | "c08.stats" =>
    let G ← natF j "G"
    let B ← field j "block" >>= parseBlk d (0 : Int) asInt "data"
    if G = 0 ∨ B.C % G ≠ 0 then throw "groups must evenly divide channels"
    let Bq : Blk Rat d := mapBlk (fun (v : Int) => (v : Rat)) B
    let cpg := B.C / G
    let comps : List (List (Fin d)) :=
      if B.k = 0 then [[]] else if B.k = 1 then (List.finRange d).map (fun i => [i])
      else []
    if comps.isEmpty then throw "statistics are defined for k <= 1"
    let means := (List.range G).map (fun grp => comps.map (fun n => grpMean Bq cpg grp n))
    let second :=
      if B.k = 0 then (List.range G).map (fun grp => [grpVar Bq cpg grp])
      else (List.range G).map (fun grp =>
        (List.finRange d).flatMap (fun a => (List.finRange d).map (fun b => grpCov Bq cpg grp a b)))
    let cmeans := (List.range B.C).map (fun c => comps.map (fun n => chanMean Bq c n))
    pure (Json.mkObj [("mean", jList (jList jRat) means), ("second", jList (jList jRat) second),
      ("chan_mean", jList (jList jRat) cmeans)])
  | "c08.group_norm" =>
    let G ← natF j "G"
    let kind ← strF j "kind"
    let eps ← field j "eps" >>= asBits
    let B ← field j "block" >>= parseBlk d (0.0 : Float) asBits "bits"
    if G = 0 ∨ B.C % G ≠ 0 then throw "groups must evenly divide channels"
    let cpg := B.C / G
    let rsqrt : Float → Float := fun v => 1.0 / Float.sqrt v
    let max0 : Float → Float := fun v => if v < 0.0 then 0.0 else v
    match kind with
    | "scalar" | "pseudo" | "pseudo_legacy" =>
      if B.k ≠ 0 then throw "scalar branch needs k = 0"
      let means := ((List.range G).map (fun grp => grpMean B cpg grp [])).toArray
      let vars := ((List.range G).map (fun grp => grpVar B cpg grp)).toArray
      let core := normCoreWith rsqrt max0 eps cpg (fun grp => means.getD grp 0.0)
        (fun grp => vars.getD grp 0.0) B
      if kind = "pseudo" then
        let scale ← listF asBits j "scale"
        pure (blkJson jBits "bits" (scaleCh (vecF scale) core))
      else
        let weight ← listF asBits j "weight"
        let bias ← listF asBits j "bias"
        pure (blkJson jBits "bits" (affine (vecF weight) (vecF bias) core))
    | "vector" | "vector_nowhiten" =>
      if B.k ≠ 1 then throw "vector branch needs k = 1"
      let scale ← listF asBits j "scale"
      let bias ← listF asBits j "bias"
      let means := ((List.range G).map (fun grp =>
        ((List.finRange d).map (fun i => grpMean B cpg grp [i])).toArray)).toArray
      let Ws := ((List.range G).map (fun grp =>
        let W : RMat Float d :=
          if kind = "vector" then invSqrtSym (addEps eps (grpCov B cpg grp))
          else (fun i l => if i = l then 1.0 else 0.0)
        ((List.finRange d).map (fun i => ((List.finRange d).map (fun l => W i l)).toArray)).toArray)).toArray
      let wh := tabBlk 0.0 (whitenWith cpg (fun grp i => (means.getD grp #[]).getD i.val 0.0)
        (fun grp i l => ((Ws.getD grp #[]).getD i.val #[]).getD l.val 0.0) B)
      pure (blkJson jBits "bits" (vecAffine (vecF scale) (vecF bias) B wh))
    | _ => throw s!"unknown kind {kind}"
  | "c08.vn" =>
    let eps ← field j "eps" >>= asBits
    let actName ← strF j "act"
    let act ← activation actName
    let B ← field j "block" >>= parseBlk d (0.0 : Float) asBits "bits"
    let Wl ← listF (asList asBits) j "W"
    if Wl.length ≠ B.C ∨ Wl.any (fun r => r.length ≠ B.C) then throw "W must be C x C"
    let Wa := (Wl.map (·.toArray)).toArray
    let W : Nat → Nat → Float := fun i l => (Wa.getD i #[]).getD l 0.0
    let scalarBranch := ((optField j "scalar").bind (fun v => (asBool v).toOption)).getD false
    if scalarBranch then
      pure (blkJson jBits "bits" (vnScalar act B))
    else
      pure (blkJson jBits "bits" (vnNonlinear Float.sqrt Float.abs act eps W B))
  | _ => throw s!"unknown op {op}"

end Driver.C08
