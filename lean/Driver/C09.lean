import Driver.Util
import GinjaxVerif.Model.C09
open Lean Driver GinjaxVerif.C09

namespace Driver.C09

/-- parameters are an opaque token for the driver (a list of rationals) -/
abbrev Params := List Rat

def asLeaf (j : Json) : R (Leaf Rat) := do
  let l ← asList asRat j
  pure ⟨l⟩

def asUpdate (j : Json) : R (Update Params Rat) := do
  let p ← listF asRat j "params"
  let c ← field j "c" >>= asRat
  -- the model's updates have a non-zero bank factor; c = 0 is outside its domain
  if c = 0 then throw "bank factor c = 0" else pure ⟨p, c⟩

def jLeaf (l : Leaf Rat) : Json := jList jRat l.data

def jModel (m : Model String Params (Leaf Rat)) : Json :=
  Json.mkObj [("plan", jStr m.plan), ("params", jList jRat m.params), ("bank", jList jLeaf m.bank)]

def getModel (j : Json) : R (Model String Params (Leaf Rat)) := do
  let plan ← strF j "plan"
  let params ← listF asRat j "params"
  let bank ← listF asLeaf j "bank"
  pure { plan := plan, params := params, bank := bank }

def handle (op : String) (j : Json) : R Json := do
  match op with
  | "c09.train" =>
    -- the model after the whole history, the common factor, and the model `train` returns when
    -- the stopping condition keeps the model of index `choose` (0 = initial; absent = last)
    let m ← getModel j
    let us ← listF asUpdate j "updates"
    let out := train m us
    let choose := match optField j "choose" with
      | some v => (asNat v).toOption
      | none => none
    let ret := match choose with
      | some i => trainReturn (fun _ => i) m us
      | none => out
    pure (Json.mkObj [("final", jModel out), ("factor", jRat (totalFactor us)),
                      ("returned", jModel ret), ("history_len", jNat (history m us).length)])
  | "c09.bank" =>
    -- only the bank: initial leaves and the per-step factors
    let bank ← listF asLeaf j "bank"
    let cs ← listF asRat j "factors"
    if cs.any (fun c => c == 0) then throw "bank factor c = 0"
    let m : Model Unit Unit (Leaf Rat) := { plan := (), params := (), bank := bank }
    let us : List (Update Unit Rat) := cs.map (fun c => ⟨(), c⟩)
    pure (Json.mkObj [("bank", jList jLeaf (train m us).bank), ("factor", jRat (totalFactor us))])
  | "c09.common_factor" =>
    let b0 ← listF asLeaf j "bank0"
    let b1 ← listF asLeaf j "bank1"
    match commonFactor b0 b1 with
    | some c => pure (Json.mkObj [("common", jBool true), ("factor", jRat c)])
    | none => pure (Json.mkObj [("common", jBool false), ("factor", Json.null)])
  | _ => throw s!"unknown op {op}"

end Driver.C09
