import Driver.Util
import GinjaxVerif.Model.C10
open Lean Driver GinjaxVerif.C10

/-!
Driver ops of C10.  Blocks travel as `{"key":[k,p], "shape":[…], "data":[…]}` (row-major);
2-D blocks have shape `(ch, nx, ny)` (`k = 0`) or `(ch, nx, ny, 2)` (`k = 1`), 1-D blocks
`(rows, nx)`, ModelWrapper blocks `(ch, S, D^k)` with flat spatial and tensor axes.
-/
namespace Driver.C10

structure RawBlk (α : Type) where
  key : Key
  shape : List Nat
  data : Array α

def parseKey (j : Json) : R Key := do
  match ← asList asNat j with
  | [k, p] => pure (k, p)
  | _ => throw "bad key"

def parseBlk {α} (val : Json → R α) (j : Json) : R (RawBlk α) := do
  let key ← field j "key" >>= parseKey
  let shape ← listF asNat j "shape"
  let data ← listF val j "data"
  if data.length ≠ shape.foldl (· * ·) 1 then throw "bad block: data length"
  pure ⟨key, shape, data.toArray⟩

def parseSig (j : Json) : R (List (Key × Nat)) :=
  asList (fun e => do
    match ← asList asNat e with
    | [k, p, n] => pure ((k, p), n)
    | _ => throw "bad signature entry") j

def jSig (s : List (Key × Nat)) : Json :=
  jList (fun e => jList jNat [e.1.1, e.1.2, e.2]) s

def parseCfg (j : Json) : R ClimCfg := do
  pure { nx := ← natF j "nx", ny := ← natF j "ny", past := ← natF j "past",
         future := ← natF j "future",
         constFields := ← field j "const" >>= parseSig,
         outputKeys := ← field j "out_keys" >>= parseSig }

/-- a 2-D block as an index function; the extents must be those of the configuration -/
def toBlk2 {α} [Inhabited α] (nx ny : Nat) (b : RawBlk α) : R (Key × Blk2 α) := do
  match b.key.1, b.shape with
  | 0, [ch, sx, sy] =>
    if sx ≠ nx || sy ≠ ny then throw "bad block: spatial extents"
    pure (b.key, ⟨ch, fun c x y _ => b.data[(c * nx + x) * ny + y]!⟩)
  | 1, [ch, sx, sy, 2] =>
    if sx ≠ nx || sy ≠ ny then throw "bad block: spatial extents"
    pure (b.key, ⟨ch, fun c x y comp => b.data[((c * nx + x) * ny + y) * 2 + comp]!⟩)
  | _, _ => throw "bad block: order/shape not supported by Climate1D"

def toBlk1 {α} [Inhabited α] (nx : Nat) (b : RawBlk α) : R (Key × Blk1 α) := do
  match b.shape with
  | [rows, sx] =>
    if sx ≠ nx then throw "bad block: lon extent"
    pure (b.key, ⟨rows, fun r x => b.data[r * nx + x]!⟩)
  | _ => throw "bad 1-D block shape"

def jBlkOf {α} (val : α → Json) (key : Key) (shape : List Nat) (data : List α) : Json :=
  Json.mkObj [("key", jList jNat [key.1, key.2]), ("shape", jList jNat shape),
              ("data", jList val data)]

def outBlk2 {α} (val : α → Json) (nx ny : Nat) (kb : Key × Blk2 α) : Json :=
  let nc := if kb.1.1 = 0 then 1 else 2
  let data := (List.range kb.2.ch).flatMap fun c => (List.range nx).flatMap fun x =>
    (List.range ny).flatMap fun y => (List.range nc).map fun comp => kb.2.val c x y comp
  jBlkOf val kb.1 ([kb.2.ch, nx, ny] ++ (if kb.1.1 = 0 then [] else [2])) data

def outBlk1 {α} (val : α → Json) (nx : Nat) (kb : Key × Blk1 α) : Json :=
  let data := (List.range kb.2.rows).flatMap fun r => (List.range nx).map fun x => kb.2.val r x
  jBlkOf val kb.1 [kb.2.rows, nx] data

def distinctKeys {B} (d : List (Key × B)) : Bool := (keysOf d).eraseDups.length == d.length

def parseMI2 {α} [Inhabited α] (val : Json → R α) (nx ny : Nat) (j : Json) : R (MI2 α) := do
  let raw ← asList (parseBlk val) j
  let x ← raw.mapM (toBlk2 nx ny)
  if !distinctKeys x then throw "duplicate key in a dict"
  pure x

def parseMI1 {α} [Inhabited α] (val : Json → R α) (nx : Nat) (j : Json) : R (MI1 α) := do
  let raw ← asList (parseBlk val) j
  let z ← raw.mapM (toBlk1 nx)
  if !distinctKeys z then throw "duplicate key in a dict"
  pure z

/-- ModelWrapper blocks `(ch, S, D^k)` -/
def toBlkT {α} [Inhabited α] (D : Nat) (b : RawBlk α) : R (Key × BlkT α × Nat) := do
  match b.shape with
  | [ch, S, nt] =>
    if nt ≠ D ^ b.key.1 then throw "bad block: tensor extent"
    pure (b.key, ⟨ch, fun c p t => b.data[(c * S + p) * nt + t]!⟩, S)
  | _ => throw "bad block shape"

def outBlkT {α} (val : α → Json) (D S : Nat) (kb : Key × BlkT α) : Json :=
  let nt := D ^ kb.1.1
  let data := (List.range kb.2.ch).flatMap fun c => (List.range S).flatMap fun p =>
    (List.range nt).map fun t => kb.2.val c p t
  jBlkOf val kb.1 [kb.2.ch, S, nt] data

instance : Add (List Rat) := ⟨fun a b => List.zipWith (· + ·) a b⟩

def handle (op : String) (j : Json) : R Json := do
  match op with
  | "c10.to1d" =>
    let cfg ← field j "cfg" >>= parseCfg
    let legacy ← boolF j "legacy"
    let x ← field j "x" >>= parseMI2 asInt cfg.nx cfg.ny
    if !to1dValid cfg x then throw "to1d: rejected"
    let z := if legacy then climateTo1dLegacy cfg x else climateTo1d cfg x
    pure (jList (outBlk1 jInt cfg.nx) z)
  | "c10.from1d" =>
    let cfg ← field j "cfg" >>= parseCfg
    let z ← field j "z" >>= parseMI1 asInt cfg.nx
    if !from1dValid cfg z then throw "from1d: rejected"
    pure (jList (outBlk2 jInt cfg.nx cfg.ny) (climateFrom1d cfg z))
  | "c10.sig1d" =>
    let sig ← field j "sig" >>= parseSig
    let ny ← natF j "ny"
    if !(sig.all fun e => allowedKey e.1) then throw "sig1d: rejected"
    pure (jSig (get1dSignature sig ny))
  | "c10.flip" =>
    let which ← strF j "which"
    let nx ← natF j "nx"
    let ny ← natF j "ny"
    match which with
    | "lon2" =>
      let x ← field j "x" >>= parseMI2 asInt nx ny
      pure (jList (outBlk2 jInt nx ny) (flipLon2 nx x))
    | "eq2" =>
      let x ← field j "x" >>= parseMI2 asInt nx ny
      pure (jList (outBlk2 jInt nx ny) (flipEq2 ny x))
    | "lon1" =>
      let z ← field j "x" >>= parseMI1 asInt nx
      pure (jList (outBlk1 jInt nx) (flip1 nx z))
    | _ => throw "bad flip"
  | "c10.climate_combine" =>
    let cfg ← field j "cfg" >>= parseCfg
    let a ← field j "a" >>= parseMI1 asRat cfg.nx
    let b ← field j "b" >>= parseMI1 asRat cfg.nx
    if !from1dValid cfg a || !from1dValid cfg b then throw "from1d: rejected"
    pure (jList (outBlk2 jRat cfg.nx cfg.ny) (climateCombine (fun v : Rat => v / 2) cfg a b))
  | "c10.average" =>
    -- `groupAverageCode` with the group action supplied by the caller: operator `i` is the
    -- number `i`, `inner[i] = f(g_i · x)` and `back[i] = g_iᵀ · inner[i]` are tables
    let aa ← boolF j "always_average"
    let inf ← boolF j "inference"
    let plain ← listF asRat j "plain"
    let inner ← listF (asList asRat) j "inner"
    let back ← listF (asList asRat) j "back"
    if inner.length ≠ back.length then throw "bad tables"
    let n := inner.length
    -- X = Option Nat (none = x, some i = g_i · x); Y = tagged vectors
    let f : Option Nat → (Option Nat × List Rat) := fun
      | none => (none, plain)
      | some i => (some i, inner.getD i [])
    let actY : Nat → (Option Nat × List Rat) → (Option Nat × List Rat) := fun _ y =>
      match y.1 with
      | some i => (none, back.getD i [])
      | none => y
    let _ : Add (Option Nat × List Rat) := ⟨fun a b => (none, a.2 + b.2)⟩
    let out := groupAverageCode (G := Nat) (X := Option Nat) id (fun g _ => some g) actY
      (fun m y => (none, y.2.map fun v => v / (m : Rat))) aa inf (List.range n) f none
    pure (jList jRat out.2)
  | "c10.to_scalar" =>
    let D ← natF j "D"
    let raw ← field j "x" >>= asList (parseBlk asInt)
    let xs ← raw.mapM (toBlkT D)
    let S := (xs.head?.map (·.2.2)).getD 0
    if !(xs.all fun e => e.2.2 == S) then throw "bad blocks: spatial extents differ"
    let x := xs.map fun e => (e.1, e.2.1)
    if !distinctKeys x then throw "duplicate key in a dict"
    match dLookup (toScalar D x) (0, 0) with
    | none => throw "to_scalar: rejected (empty)"
    | some arr => pure (outBlkT jInt D S ((0, 0), arr))
  | "c10.from_scalar" =>
    let D ← natF j "D"
    let layout ← field j "layout" >>= parseSig
    let raw ← field j "arr" >>= parseBlk asInt
    let (_, arr, S) ← toBlkT D ⟨(0, 0), raw.shape, raw.data⟩
    if layoutSize D layout > arr.ch then throw "from_scalar: rejected (too few channels)"
    pure (jList (outBlkT jInt D S) (fromScalar D layout arr))
  | _ => throw s!"unknown op {op}"

end Driver.C10
