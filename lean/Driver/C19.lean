import Driver.Util
import GinjaxVerif.Model.C19
open Lean Driver GinjaxVerif.C19

namespace Driver.C19

def optRat (j : Json) : R (Option Rat) :=
  match j with
  | .null => pure none
  | v => do let q ← asRat v; pure (some q)

def jOptNat : Option Nat → Json
  | none => Json.null
  | some n => jNat n

/-- run a call history against the patience state machine, reporting verdict and best model
after every call -/
def runCalls (patience : Nat) (delta : Rat) (mon : Monitor) (m0 : Option Nat) (start : Nat)
    (calls : List (Option Rat × Option Rat)) : List (Bool × Option Nat) :=
  let rec go (s : PState Rat) (m : Nat) : List (Option Rat × Option Rat) → List (Bool × Option Nat)
    | [] => []
    | (t, v) :: rest =>
      let (s', b) := pStep patience delta s m (select mon t v)
      (b, s'.bestModel) :: go s' (m + 1) rest
  go (PState.init m0) start calls

def jOptRat : Option Rat → Json
  | none => Json.null
  | some q => jRat q

/-- the epoch loop of `train` over exactly the given monitored losses (at most `losses.length`
epochs), from condition state `s0`: (stopped?, epoch reached, state of the object afterwards).
The stop epoch comes from `pLoop`, the state from `pRun` on the calls made up to that epoch. -/
def loopOn (patience : Nat) (delta : Rat) (s0 : PState Rat) (losses : List Rat) :
    Bool × Nat × PState Rat :=
  let last := losses.getLastD 0
  match pLoop patience delta (fun n => losses.getD n last) (losses.length + 1) s0 0 with
  | some (e, _) => (true, e, (pRun patience delta s0 0 (none :: (losses.take e).map some)).1)
  | none => (false, losses.length, (pRun patience delta s0 0 (none :: losses.map some)).1)

/-- a loss as the float-shaped machine sees it: a rational, or the strings "nan" / "inf" / "-inf" -/
def asFV (j : Json) : R (FV Rat) :=
  match j with
  | .str "nan" => pure .nan
  | .str "inf" => pure .pinf
  | .str "-inf" => pure .ninf
  | .str s => throw s!"bad loss {s}"
  | v => do let q ← asRat v; pure (.fin q)

def optFV (j : Json) : R (Option (FV Rat)) :=
  match j with
  | .null => pure none
  | v => do let x ← asFV v; pure (some x)

def jFV : FV Rat → Json
  | .nan => Json.str "nan"
  | .pinf => Json.str "inf"
  | .ninf => Json.str "-inf"
  | .fin q => jRat q

/-- `runCalls` for the float-shaped machine (`best` initialised to `inf`) -/
def runCallsF (patience : Nat) (delta : FV Rat) (mon : Monitor) (m0 : Option Nat) (start : Nat)
    (calls : List (Option (FV Rat) × Option (FV Rat))) : List (Bool × Option Nat × FV Rat) :=
  let rec go (s : FState Rat) (m : Nat) :
      List (Option (FV Rat) × Option (FV Rat)) → List (Bool × Option Nat × FV Rat)
    | [] => []
    | (t, v) :: rest =>
      let (s', b) := pStepF patience delta s m (select mon t v)
      (b, s'.bestModel, s'.best) :: go s' (m + 1) rest
  go (FState.init m0) start calls

def jLoopRes : Option (Nat × Option Nat) → Json
  | none => Json.mkObj [("stopped", jBool false)]
  | some (e, bm) => Json.mkObj [("stopped", jBool true), ("epoch", jNat e), ("best", jOptNat bm)]

def jLoop (stopped : Bool) (e : Nat) (bm : Option Nat) : Json :=
  Json.mkObj [("stopped", jBool stopped), ("epoch", jNat e), ("best", jOptNat bm)]

def handle (op : String) (j : Json) : R Json := do
  match op with
  | "c19.run" =>
    let patience ← natF j "patience"
    let delta ← field j "delta" >>= asRat
    let mon ← strF j "monitor"
    let mon ← match mon with
      | "train" => pure Monitor.train
      | "val" => pure Monitor.val
      | _ => throw "bad monitor"
    let m0 := (optField j "m0").bind (fun v => (asNat v).toOption)
    let start ← natF j "start"
    let calls ← listF (fun c => do
      let t ← field c "train" >>= optRat
      let v ← field c "val" >>= optRat
      pure (t, v)) j "calls"
    let out := runCalls patience delta mon m0 start calls
    pure (Json.mkObj [("verdicts", jList (fun p => jBool p.1) out),
                      ("best_models", jList (fun p => jOptNat p.2) out)])
  | "c19.spec" =>
    let patience ← natF j "patience"
    let delta ← field j "delta" >>= asRat
    let losses ← listF asRat j "losses"
    -- for every non-empty prefix (chronological): trailing, argBest, verdict
    let pref := (List.range losses.length).map (fun i => (losses.take (i + 1)).reverse)
    pure (Json.mkObj [
      ("trailing", jList (fun h => jNat (trailing delta h)) pref),
      ("argbest", jList (fun h => jNat (argBest delta h)) pref),
      ("verdicts", jList (fun h => jBool (decide (trailing delta h > patience))) pref)])
  | "c19.loop" =>
    let patience ← natF j "patience"
    let delta ← field j "delta" >>= asRat
    let losses ← listF asRat j "losses"
    let fuel ← natF j "fuel"
    let last := losses.getLastD 0
    match trainLoopP patience delta (fun n => losses.getD n last) fuel with
    | none => pure (Json.mkObj [("stopped", jBool false)])
    | some (e, bm) => pure (Json.mkObj [("stopped", jBool true), ("epoch", jNat e), ("best", jOptNat bm)])
  | "c19.run_f" =>
    -- the float-shaped machine (`pStepF` over `FV Rat`): losses may be "nan" / "inf" / "-inf"
    let patience ← natF j "patience"
    let delta ← field j "delta" >>= asFV
    let mon ← strF j "monitor"
    let mon ← match mon with
      | "train" => pure Monitor.train
      | "val" => pure Monitor.val
      | _ => throw "bad monitor"
    let m0 := (optField j "m0").bind (fun v => (asNat v).toOption)
    let start ← natF j "start"
    let calls ← listF (fun c => do
      let t ← field c "train" >>= optFV
      let v ← field c "val" >>= optFV
      pure (t, v)) j "calls"
    let out := runCallsF patience delta mon m0 start calls
    pure (Json.mkObj [("verdicts", jList (fun p => jBool p.1) out),
                      ("best_models", jList (fun p => jOptNat p.2.1) out),
                      ("best_losses", jList (fun p => jFV p.2.2) out)])
  | "c19.spec_f" =>
    -- the spec over the full alphabet: NaN / +inf never improve, the first -inf is the final best
    let patience ← natF j "patience"
    let delta ← field j "delta" >>= asRat
    let losses ← listF asFV j "losses"
    let pref := (List.range losses.length).map (fun i => (losses.take (i + 1)).reverse)
    pure (Json.mkObj [
      ("trailing", jList (fun h => jNat (trailingF delta h)) pref),
      ("argbest", jList (fun h => jNat (argBestF delta h)) pref),
      ("best", jList (fun h => jFV (bestFV delta h)) pref),
      ("verdicts", jList (fun h => jBool (decide (trailingF delta h > patience))) pref)])
  | "c19.loop_f" =>
    -- the epoch loop of `train` on the float-shaped machine; the last loss repeats for ever
    let patience ← natF j "patience"
    let delta ← field j "delta" >>= asFV
    let losses ← listF asFV j "losses"
    let fuel ← natF j "fuel"
    let last := losses.getLastD (.fin 0)
    let lossfn := fun n => losses.getD n last
    pure ((jLoopRes (trainLoopF patience delta lossfn fuel)).setObjVal! "ge_variant"
      (jLoopRes (trainLoopGe patience delta lossfn fuel)))
  | "c19.reused" =>
    -- ONE condition object through two consecutive `train` loops
    let patience ← natF j "patience"
    let delta ← field j "delta" >>= asRat
    let first ← listF asRat j "first"
    let second ← listF asRat j "second"
    -- first call: fresh object, `best_model = model`
    let (st1, e1, stale) := loopOn patience delta (PState.init (some 0)) first
    -- second call on the same object: `trainLoopReused` from the stale state
    let last := second.getLastD 0
    let lossfn := fun n => second.getD n last
    let (st2, e2, s2) := loopOn patience delta { stale with bestModel := some 0 } second
    let direct := trainLoopReused patience delta lossfn (second.length + 1) stale
    let keep := pLoopKeep patience delta lossfn (second.length + 1)
      { stale with bestModel := stale.bestModel.map (· + 100) }
    -- declarative spec: first epoch n ≥ 1 with staleSince > patience, model staleModel
    let hs := (List.range second.length).map (fun i => (second.take (i + 1)).reverse)
    let spec := match hs.find? (fun h => decide (staleSince delta stale.best stale.since h > patience)) with
      | some h => jLoop true h.length (some (staleModel delta stale.best h))
      | none => jLoop false second.length (some (staleModel delta stale.best second.reverse))
    pure (Json.mkObj [
      ("first", jLoop st1 e1 stale.bestModel),
      ("stale", Json.mkObj [("best", jOptRat stale.best), ("since", jNat stale.since)]),
      ("second", jLoop st2 e2 s2.bestModel),
      ("direct", match direct with
        | some (e, bm) => jLoop true e bm
        | none => Json.mkObj [("stopped", jBool false)]),
      ("keep", match keep with
        | some (e, bm) => jLoop true e bm
        | none => Json.mkObj [("stopped", jBool false)]),
      ("spec", spec)])
  | "c19.epoch" =>
    let epochs ← natF j "epochs"
    let calls ← listF asNat j "calls"
    let out := calls.map (fun e => eStep epochs e e)
    pure (Json.mkObj [("verdicts", jList (fun p => jBool p.2) out),
                      ("best_models", jList (fun p => jOptNat p.1) out)])
  | "c19.eloop" =>
    let epochs ← natF j "epochs"
    let fuel ← natF j "fuel"
    match eLoop epochs fuel 0 with
    | none => pure (Json.mkObj [("stopped", jBool false)])
    | some (e, bm) => pure (Json.mkObj [("stopped", jBool true), ("epoch", jNat e), ("best", jOptNat bm)])
  | _ => throw s!"unknown op {op}"

end Driver.C19
