import Lean.Data.Json
/-!
JSON helpers shared by the per-property driver modules.  The wire format is one JSON object per
line in, one JSON value per line out.  Integers are JSON numbers, rationals are `[num, den]`
pairs, arrays are `{"shape":[..], "data":[..]}` with row-major data.
-/
open Lean

namespace Driver

abbrev R := Except String

def field (j : Json) (k : String) : R Json :=
  match j.getObjVal? k with
  | .ok v => .ok v
  | .error _ => .error s!"missing field {k}"

def asInt (j : Json) : R Int :=
  match j.getInt? with
  | .ok v => .ok v
  | .error _ => .error s!"not an int: {j.compress}"

def asNat (j : Json) : R Nat := do
  let i ← asInt j
  if i < 0 then .error s!"negative where nat expected: {i}" else pure i.toNat

def asBool (j : Json) : R Bool :=
  match j.getBool? with
  | .ok v => .ok v
  | .error _ => .error s!"not a bool: {j.compress}"

def asStr (j : Json) : R String :=
  match j.getStr? with
  | .ok v => .ok v
  | .error _ => .error s!"not a string: {j.compress}"

def asArr (j : Json) : R (Array Json) :=
  match j.getArr? with
  | .ok v => .ok v
  | .error _ => .error s!"not an array: {j.compress}"

def asList {α} (f : Json → R α) (j : Json) : R (List α) := do
  let a ← asArr j
  a.toList.mapM f

def asRat (j : Json) : R Rat := do
  match j with
  | .arr #[n, d] =>
    let n ← asInt n
    let d ← asNat d
    if d = 0 then .error "zero denominator" else pure (mkRat n d)
  | _ => do
    let n ← asInt j
    pure (n : Rat)

def intF (j : Json) (k : String) : R Int := field j k >>= asInt
def natF (j : Json) (k : String) : R Nat := field j k >>= asNat
def boolF (j : Json) (k : String) : R Bool := field j k >>= asBool
def strF (j : Json) (k : String) : R String := field j k >>= asStr
def listF {α} (f : Json → R α) (j : Json) (k : String) : R (List α) := field j k >>= asList f

def optField (j : Json) (k : String) : Option Json :=
  match j.getObjVal? k with
  | .ok .null => none
  | .ok v => some v
  | .error _ => none

def jInt (i : Int) : Json := Json.num (JsonNumber.fromInt i)
def jNat (n : Nat) : Json := Json.num (JsonNumber.fromNat n)
def jRat (q : Rat) : Json := Json.arr #[jInt q.num, jNat q.den]
def jList {α} (f : α → Json) (l : List α) : Json := Json.arr (l.map f).toArray
def jBool (b : Bool) : Json := Json.bool b
def jStr (s : String) : Json := Json.str s

end Driver
