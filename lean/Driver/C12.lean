import Driver.Util
import GinjaxVerif.Model.C12
open Lean Driver GinjaxVerif.C12

namespace Driver.C12

/-- `{"shape":[..],"data":[..]}` with exact rational data; malformed arrays are refused -/
def asBlock (j : Json) : R (Block Rat) := do
  let shape ← listF asNat j "shape"
  let data ← listF asRat j "data"
  if data.length != Block.prod shape then throw "bad block: data length differs from the shape's product"
  pure ⟨shape, data⟩

def asKey (j : Json) : R Key := do
  let l ← asList asNat j
  match l with
  | [k, p] => pure (k, p)
  | _ => throw "bad key"

/-- `[k, parity, block]` -/
def asItem (j : Json) : R (Key × Block Rat) := do
  let a ← asArr j
  match a.toList with
  | [k, p, b] => do pure ((← asNat k, ← asNat p), ← asBlock b)
  | _ => throw "bad item"

def asStep (j : Json) : R (Step Rat) := do
  let s ← strF j "s"
  match s with
  | "setitem" => do pure (.setitem (← natF j "k", ← natF j "p") (← field j "b" >>= asBlock))
  | "append" => do pure (.append (← natF j "k") (← natF j "p") (← field j "b" >>= asBlock) (← natF j "axis"))
  | "concat" => do pure (.concat (← listF asItem j "items") (← natF j "axis"))
  | "copy" => pure .copy
  | "tree" => pure .tree
  | "from_vector" => pure .fromVector
  | _ => throw s!"bad step {s}"

/-- an operand = constructor arguments + history -/
def asOperand (j : Json) (who : String) : R (MI Rat) := do
  let D ← natF j "D"
  let torus ← listF asBool j "torus"
  let items ← listF asItem j "items"
  let steps ← listF asStep j "steps"
  match build D torus items steps with
  | some a => pure a
  | none => throw s!"rejected: history of {who}"

def jBlock (b : Block Rat) : Json :=
  Json.mkObj [("shape", jList jNat b.shape), ("data", jList jRat b.data)]

def jKey (t : Key) : Json := Json.arr #[jNat t.1, jNat t.2]

def jMI (a : MI Rat) : Json :=
  Json.mkObj [("D", jNat a.D), ("torus", jList jBool a.torus),
              ("keys", jList jKey (MI.keys a)),
              ("blocks", jList (fun kv => jBlock kv.2) a.data)]

def tiny : Rat := mkRat 1 100000

/-- `jnp.allclose` element test with `rtol = atol = TINY` -/
def close (x y : Rat) : Bool :=
  let d := if x - y < 0 then y - x else x - y
  let ay := if y < 0 then -y else y
  decide (d ≤ tiny + tiny * ay)

def binop (name : String) (a b : MI Rat) : R (Option (MI Rat)) :=
  match name with
  | "add" => pure (MI.add a b)
  | "sub" => pure (MI.sub a b)
  | "add_legacy" => pure (MI.addLegacy a b)
  | "sub_legacy" => pure (MI.subLegacy a b)
  | _ => throw s!"bad binop {name}"

def handle (op : String) (j : Json) : R Json := do
  match op with
  | "c12.build" =>
    let a ← field j "a" >>= (asOperand · "a")
    pure (jMI a)
  | "c12.binop" =>
    let a ← field j "a" >>= (asOperand · "a")
    let b ← field j "b" >>= (asOperand · "b")
    let f ← strF j "f"
    match ← binop f a b with
    | some c => pure (jMI c)
    | none => throw "rejected: operands are not compatible (D, is_torus or key set differ)"
  | "c12.spec" =>
    -- blockwise specification, listed for the keys of `a`
    let a ← field j "a" >>= (asOperand · "a")
    let b ← field j "b" >>= (asOperand · "b")
    let f ← strF j "f"
    let g : Rat → Rat → Rat ← match f with
      | "add" => pure (· + ·)
      | "sub" => pure (· - ·)
      | _ => throw s!"bad binop {f}"
    let out ← (MI.keys a).mapM (fun t =>
      match MI.specGet g a b t with
      | some blk => pure (Json.arr #[jKey t, jBlock blk])
      | none => throw "spec undefined: key missing in b")
    pure (Json.arr out.toArray)
  | "c12.smul" =>
    let a ← field j "a" >>= (asOperand · "a")
    let s ← field j "s" >>= asRat
    pure (jMI (MI.smul a s))
  | "c12.div" =>
    let a ← field j "a" >>= (asOperand · "a")
    let s ← field j "s" >>= asRat
    if s == 0 then throw "division by zero is outside the model (inf/nan)"
    pure (jMI (MI.div a s))
  | "c12.eq" =>
    let a ← field j "a" >>= (asOperand · "a")
    let b ← field j "b" >>= (asOperand · "b")
    pure (jBool (MI.eq close a b))
  | "c12.keyseq" =>
    let a ← field j "a" >>= (asOperand · "a")
    let b ← field j "b" >>= (asOperand · "b")
    pure (Json.mkObj [("as_sets", jBool (Dict.keysEq a.data b.data)),
                      ("as_lists", jBool (Dict.keysEqAsLists a.data b.data))])
  | "c12.to_vector" =>
    let a ← field j "a" >>= (asOperand · "a")
    pure (jList jRat (MI.toVector a))
  | "c12.from_vector" =>
    let a ← field j "a" >>= (asOperand · "a")
    let v ← listF asRat j "vec"
    if v.length != (MI.toVector a).length then throw "rejected: vector length differs from the template size"
    pure (jMI (MI.fromVector v a))
  | _ => throw s!"unknown op {op}"

end Driver.C12
