import Driver.Util
import GinjaxVerif.Model.C15
open Lean Driver GinjaxVerif.C15

/-!
Driver for C15.  Frames are `(code, level)`: an integer identity and the number of times the
frame has been average-pooled (`pool` is opaque in the model; here it counts).  Multi-images are
lists of `[key, block]` pairs in insertion order, keys are strings.
-/
namespace Driver.C15

abbrev Frame := Int × Nat

def poolF (x : Frame) : Frame := (x.1, x.2 + 1)

def jFrame (x : Frame) : Json := Json.arr #[jInt x.1, jNat x.2]

def asPair {β} (g : Json → R β) (j : Json) : R (String × β) :=
  match j with
  | .arr #[k, v] => do
    let k ← asStr k
    let v ← g v
    pure (k, v)
  | _ => throw s!"not a [key, block] pair: {j.compress}"

def asFrame (j : Json) : R Frame := do
  let c ← asInt j
  pure (c, 0)

def jMI {β} (g : β → Json) (m : MI String β) : Json :=
  jList (fun kb => Json.arr #[jStr kb.1, g kb.2]) m

def jIdx (l : List (List Nat)) : Json := jList (jList jNat) l

def handle (op : String) (j : Json) : R Json := do
  match op with
  | "c15.idxs" =>
    let p ← natF j "p"
    let f ← natF j "f"
    let dt ← natF j "dt"
    let T ← intF j "T"
    match timeSeriesIdxs p f dt T with
    | none => throw "rejected"
    | some (a, b) => pure (Json.mkObj [("in", jIdx a), ("out", jIdx b)])
  | "c15.windows" =>
    let T ← natF j "T"
    let p ← natF j "p"
    let f ← natF j "f"
    let dt ← natF j "dt"
    let s ← natF j "s"
    let ds ← natF j "ds"
    let dyn ← listF (asPair (asList asFrame)) j "dyn"
    let const ← listF (asPair (asList asFrame)) j "const"
    match toWindows poolF T p f dt s ds dyn const with
    | none => throw "rejected"
    | some (x, y) =>
      pure (Json.mkObj [("x", jMI (jList (jList jFrame)) x), ("y", jMI (jList (jList jFrame)) y)])
  | "c15.batch" =>
    let T ← natF j "T"
    let p ← natF j "p"
    let f ← natF j "f"
    let dt ← natF j "dt"
    let s ← natF j "s"
    let ds ← natF j "ds"
    let dyn ← listF (asPair (asList (asList asFrame))) j "dyn"
    let const ← listF (asPair (asList (asList asFrame))) j "const"
    match batchTimeSeries poolF T p f dt s ds dyn const with
    | none => throw "rejected"
    | some (x, y) =>
      pure (Json.mkObj [("x", jMI (jList (jList jFrame)) x), ("y", jMI (jList (jList jFrame)) y)])
  | "c15.spec" =>
    -- the sentence of the property for one type with `c` channels; frame (ch, t) ↦ ch*1000 + t
    let T ← natF j "T"
    let p ← natF j "p"
    let f ← natF j "f"
    let dt ← natF j "dt"
    let s ← natF j "s"
    let c ← natF j "c"
    let fr : Nat → Nat → Nat := fun ch t => ch * 1000 + t
    let n := nWindows T p f dt s
    pure (Json.mkObj [("n", jNat n),
      ("input", jList (jList jNat) (specBlock n c p 0 dt s fr)),
      ("target", jList (jList jNat) (specBlock n c f p dt s fr))])
  | _ => throw s!"unknown op {op}"

end Driver.C15
