import Driver.Util
import GinjaxVerif.Model.C20
import GinjaxVerif.Model.C20Banks
open Lean Driver GinjaxVerif.C20

namespace Driver.C20

def asTy (j : Json) : R Ty := do
  match j with
  | .arr #[k, p] => pure ((← asNat k), (← asNat p))
  | _ => throw s!"not a (k,p) pair: {j.compress}"

def asSig (j : Json) : R Sig := do
  let l ← asList (fun e => do
    match e with
    | .arr #[t, c] => pure ((← asTy t), (← asNat c))
    | _ => throw s!"not a ((k,p),c) entry: {e.compress}") j
  -- the model's standing assumption: keys pairwise distinct
  if (keysOf l).eraseDups.length != l.length then throw "bad-op: repeated key in a signature"
  pure l

def asBank (j : Json) : R Bank := do
  let ks ← listF asTy j "keys"
  let m ← natF j "M"
  pure ⟨ks, m⟩

def asBias (j : Json) : R BiasMode :=
  match j with
  | .bool true => pure .true_
  | .bool false => pure .false_
  | .str "auto" => pure .auto
  | .str "mean" => pure .mean
  | .str "scalar" => pure .scalar
  | _ => throw s!"bad bias setting {j.compress}"

def asMI (j : Json) : R MI := do
  let sig ← field j "sig" >>= asSig
  let dims ← listF asNat j "dims"
  let d ← natF j "D"
  let torus ← listF asBool j "torus"
  pure ⟨sig, dims, d, torus⟩

def asOpts (j : Json) : R ConvOpts := do
  let stride := ((optField j "stride").bind (fun v => (asNat v).toOption)).getD 1
  let lhs := ((optField j "lhs_dilation").bind (fun v => (asNat v).toOption)).getD 1
  let rhs := ((optField j "rhs_dilation").bind (fun v => (asNat v).toOption)).getD 1
  let padding ← match optField j "padding" with
    | none => pure none
    | some (.arr #[lo, hi]) => do pure (some ((← asNat lo), (← asNat hi)))
    | some v => throw s!"bad padding {v.compress}"
  pure { stride := stride, padding := padding, lhsDil := lhs, rhsDil := rhs }

def jTy (t : Ty) : Json := Json.arr #[jNat t.1, jNat t.2]
def jSig (s : Sig) : Json := jList (fun b => Json.arr #[jTy b.1, jNat b.2]) s

def jObs (x : MI) : Json :=
  Json.mkObj [("sig", jSig x.sig), ("dims", jList jNat x.spatialDims), ("D", jNat x.D),
              ("torus", jList jBool x.torus)]

def asKernel (d : Nat) (j : Json) (k : String) : R (Option (List Nat)) :=
  match optField j k with
  | none => pure none
  | some (.arr a) => do pure (some (← a.toList.mapM asNat))
  | some v => do pure (some (List.replicate d (← asNat v)))

def asCfg (j : Json) : R NetCfg := do
  let d ← natF j "D"
  let inSig ← field j "input_keys" >>= asSig
  let outSig ← field j "output_keys" >>= asSig
  let depth ← natF j "depth"
  let eq ← boolF j "equivariant"
  let mid ← match optField j "mid_keys" with
    | none => pure (defaultMid d inSig outSig depth eq)
    | some v => asSig v
  let bias ← field j "use_bias" >>= asBias
  let act ← boolF j "activation"
  let gn ← boolF j "use_group_norm"
  let bank ← match optField j "bank" with
    | none => if eq then throw "raises: equivariant model without conv_filters" else pure ⟨[], 1⟩
    | some v => asBank v
  let upBank ← match optField j "up_bank" with
    | none => pure ⟨[], 2⟩
    | some v => asBank v
  let kernel ← asKernel d j "kernel_size"
  let numDown := ((optField j "num_downsamples").bind (fun v => (asNat v).toOption)).getD 0
  let numConv := ((optField j "num_conv").bind (fun v => (asNat v).toOption)).getD 2
  let numBlocks := ((optField j "num_blocks").bind (fun v => (asNat v).toOption)).getD 0
  let preact := ((optField j "preactivation_order").bind (fun v => (asBool v).toOption)).getD false
  pure { D := d, inSig := inSig, outSig := outSig, mid := mid, depth := depth, equivariant := eq,
         bias := bias, act := act, groupNorm := gn, bank := bank, kernel := kernel,
         numDown := numDown, numConv := numConv, upBank := upBank, numBlocks := numBlocks,
         preact := preact }

def handle (op : String) (j : Json) : R Json := do
  match op with
  | "c20.model" =>
    let cls ← strF j "class"
    let cfg ← field j "cfg" >>= asCfg
    let x ← field j "x" >>= asMI
    let out ← match cls with
      | "unet" => pure (mkUNet cfg x)
      | "resnet" => pure (mkResNet cfg x)
      | "dilresnet" => pure (mkDilResNet cfg x)
      | _ => throw s!"unknown class {cls}"
    match out with
    | none => throw "raises"
    | some y => pure (Json.mkObj [("out", jObs y), ("mid", jSig cfg.mid)])
  | "c20.conv" =>
    let bank ← field j "bank" >>= asBank
    let declared ← field j "input_keys" >>= asSig
    let target ← field j "target_keys" >>= asSig
    let bias ← field j "use_bias" >>= asBias
    let opts ← match optField j "opts" with
      | none => pure {}
      | some v => asOpts v
    let x ← field j "x" >>= asMI
    let legacy := legacyConvContractSig bank target bias (keysOf x.sig)
    let spec := convContractOut bank x.sig target
    match convContract bank declared target bias opts x with
    | none => throw "raises"
    | some y => pure (Json.mkObj [("out", jObs y), ("legacy_sig", jSig legacy), ("spec_sig", jSig spec)])
  | "c20.reach" =>
    -- closed forms of Model/C20Banks.lean for an arbitrary bank: the layerwise signature chain
    let cls ← strF j "class"
    let cfg ← field j "cfg" >>= asCfg
    if !cfg.equivariant then throw "bad-op: c20.reach is about equivariant models"
    let closed ← match cls with
      | "unet" => pure (unetSig cfg)
      | "resnet" => pure (resnetSig cfg)
      | "dilresnet" => pure (dilresnetSig cfg)
      | _ => throw s!"unknown class {cls}"
    let jOptSig : Option Sig → Json := fun o => match o with | none => Json.null | some s => jSig s
    let enc := if cls == "unet" then levelSig cfg cfg.mid cfg.inSig else encoderSig cfg
    let absent := match closed with
      | none => []
      | some s => absentTypes cfg.outSig s
    pure (Json.mkObj [("closed", jOptSig closed), ("first_mid", jSig enc),
      ("absent", jList jTy absent), ("mid", jSig cfg.mid)])
  | "c20.union" =>
    let a ← field j "a" >>= asSig
    let b ← field j "b" >>= asSig
    let c ← natF j "c"
    pure (jSig (sigUnion a b c))
  | "c20.scalar" =>
    -- layout of to_scalar_multi_image / from_scalar_multi_image for a signature
    let d ← natF j "D"
    let sig ← field j "sig" >>= asSig
    let size := scalarSize d sig
    let fwd := sig.flatMap (fun b =>
      (List.range b.2).flatMap (fun ch =>
        (List.range (d ^ b.1.1)).map (fun comp => (b.1, ch, comp, toScalarPos d sig b.1 ch comp))))
    let jOptNat : Option Nat → Json := fun o => match o with | none => Json.null | some n => jNat n
    let bwd := (List.range size).map (fun pos => fromScalarPos d sig pos)
    pure (Json.mkObj [
      ("size", jNat size),
      ("to_scalar", jList (fun (t, ch, comp, p) => Json.arr #[jTy t, jNat ch, jNat comp, jOptNat p]) fwd),
      ("from_scalar", jList (fun o => match o with
          | none => Json.null
          | some (t, ch, comp) => Json.arr #[jTy t, jNat ch, jNat comp]) bwd),
      ("to_scalar_sig", jSig (toScalar ⟨sig, [], d, []⟩).sig)])
  | _ => throw s!"unknown op {op}"

end Driver.C20
