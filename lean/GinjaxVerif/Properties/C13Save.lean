import Mathlib.Data.List.Forall2
import GinjaxVerif.Model.C13Save

/-!
# C13 — `ml.load ∘ ml.save` theorems (model: `Model/C13Save.lean`)

Every statement is for ALL pytrees (any depth, any number and kinds of leaves, any shapes and
values) and all files.
-/
namespace GinjaxVerif.C13Save
open List

/-! ## flatten / fill -/

mutual
theorem fill_leaves_aux : ∀ (m t : PT) (r : List Leaf), struct m = struct t →
    fill t (leaves m ++ r) = (m, r)
  | .leaf a, .leaf b, r, _ => by simp [leaves, fill]
  | .leaf a, .node tag ch, r, h => by simp [struct] at h
  | .node tag ch, .leaf b, r, h => by simp [struct] at h
  | .node tag ch, .node tag' ch', r, h => by
    simp only [struct, Structure.node.injEq] at h
    simp only [leaves, fill]
    rw [fillL_leaves_aux ch ch' r h.2, h.1]
theorem fillL_leaves_aux : ∀ (ms ts : List PT) (r : List Leaf), structL ms = structL ts →
    fillL ts (leavesL ms ++ r) = (ms, r)
  | [], [], r, _ => by simp [leavesL, fillL]
  | [], q :: qs, r, h => by simp [structL] at h
  | p :: ps, [], r, h => by simp [structL] at h
  | p :: ps, q :: qs, r, h => by
    simp only [structL, List.cons.injEq] at h
    simp only [leavesL, fillL, List.append_assoc]
    rw [fill_leaves_aux p q _ h.1]
    simp only
    rw [fillL_leaves_aux ps qs r h.2]
end

/-- unflattening the flattened tree with a tree definition equal to its own gives it back -/
theorem fill_leaves (m t : PT) (h : struct m = struct t) : (fill t (leaves m)).1 = m := by
  have := fill_leaves_aux m t [] h
  simp only [List.append_nil] at this
  rw [this]

mutual
theorem fill_spec_aux : ∀ (t : PT) (ls : List Leaf), (leaves t).length ≤ ls.length →
    struct (fill t ls).1 = struct t ∧ leaves (fill t ls).1 = ls.take (leaves t).length ∧
      (fill t ls).2 = ls.drop (leaves t).length
  | .leaf a, [], h => by simp [leaves] at h
  | .leaf a, l :: ls, _ => by simp [leaves, fill, struct]
  | .node tag ch, ls, h => by
    have := fillL_spec_aux ch ls (by simpa [leaves] using h)
    simp only [fill, struct, leaves]
    exact ⟨by rw [this.1], this.2.1, this.2.2⟩
theorem fillL_spec_aux : ∀ (ts : List PT) (ls : List Leaf), (leavesL ts).length ≤ ls.length →
    structL (fillL ts ls).1 = structL ts ∧ leavesL (fillL ts ls).1 = ls.take (leavesL ts).length ∧
      (fillL ts ls).2 = ls.drop (leavesL ts).length
  | [], ls, _ => by simp [leavesL, fillL, structL]
  | q :: qs, ls, h => by
    simp only [leavesL, List.length_append] at h
    have h1 := fill_spec_aux q ls (by omega)
    have h2 := fillL_spec_aux qs (fill q ls).2 (by rw [h1.2.2]; simp; omega)
    simp only [fillL, structL, leavesL, List.length_append]
    refine ⟨by rw [h1.1, h2.1], ?_, ?_⟩
    · rw [h1.2.1, h2.2.1, h1.2.2, List.take_add]
    · rw [h2.2.2, h1.2.2, List.drop_drop]
end

/-- `fill` returns a tree with the template's tree definition and exactly the given leaves -/
theorem fill_spec (t : PT) (ls : List Leaf) (h : ls.length = (leaves t).length) :
    struct (fill t ls).1 = struct t ∧ leaves (fill t ls).1 = ls := by
  have := fill_spec_aux t ls (by omega)
  refine ⟨this.1, ?_⟩
  rw [this.2.1, ← h, List.take_length]


/-! ## one leaf -/

theorem jnpLoad_of_not64 (c : Chunk) (h1 : c.dtype ≠ .int64) (h2 : c.dtype ≠ .uint64)
    (h3 : c.dtype ≠ .float64) : jnpLoad c = c := by
  unfold jnpLoad
  split <;> simp_all

/-- phase 1 on one template leaf of the same Python type as the saved leaf: the saved leaf comes
back if it is serialised, the template's is kept otherwise; exactly the saved leaf's record is
consumed.  (No dtype / shape comparison happens here.) -/
theorem readLeaf_sameKind (a b : Leaf) (hwf : a.wf = true) (hk : a.sameKind b = true)
    (cs : List Chunk) :
    readLeaf b (a.chunk?.toList ++ cs) = .ok (a.pick b, cs) := by
  cases a with
  | arr k dt sh d =>
    cases b with
    | arr k' dt' sh' d' =>
      cases k <;> cases k' <;> simp [Leaf.sameKind] at hk
      · have hj : jnpLoad ⟨dt, sh, d⟩ = ⟨dt, sh, d⟩ := by
          apply jnpLoad_of_not64 <;> (simp [Leaf.wf] at hwf; simp [hwf])
        have ho : dt ≠ .object := by simp [Leaf.wf] at hwf; simp [hwf]
        simp [Leaf.chunk?, readLeaf, ho, hj, Leaf.pick, pure, Except.pure]
      · have ho : dt ≠ .object := by simpa [Leaf.wf] using hwf
        simp [Leaf.chunk?, readLeaf, ho, Leaf.pick, pure, Except.pure]
    | _ => simp [Leaf.sameKind] at hk
  | pyBool v =>
    cases b <;> simp [Leaf.sameKind] at hk
    cases v <;> simp [Leaf.chunk?, readLeaf, Chunk.item, Item.toBool, Leaf.pick, bind, Except.bind, pure, Except.pure]
  | pyInt n =>
    cases b <;> simp [Leaf.sameKind] at hk
    have ho : intDtype n ≠ .object := by simpa [Leaf.wf] using hwf
    have hd : intDtype n = .int64 ∨ intDtype n = .uint64 := by
      unfold intDtype at ho ⊢
      split
      · exact Or.inl rfl
      · rename_i h1
        split
        · exact Or.inr rfl
        · rename_i h2
          rw [if_neg h1, if_neg h2] at ho
          exact absurd rfl ho
    have hi : (⟨intDtype n, [], [n]⟩ : Chunk).item = .ok (.i n) := by
      rcases hd with hd | hd <;> simp [Chunk.item, hd, pure, Except.pure]
    simp [Leaf.chunk?, readLeaf, ho, hi, Item.toInt, Leaf.pick, bind, Except.bind, pure, Except.pure]
  | pyFloat bits =>
    cases b <;> simp [Leaf.sameKind] at hk
    simp [Leaf.chunk?, readLeaf, Chunk.item, Item.toFloat, Leaf.pick, bind, Except.bind, pure, Except.pure]
  | static s =>
    cases b <;> simp [Leaf.sameKind] at hk
    simp [Leaf.chunk?, readLeaf, Leaf.pick, pure, Except.pure]

/-- phase 2 on one pair: accepted iff dtype and shape agree -/
theorem assertLeaf_pick (a b : Leaf) (hk : a.sameKind b = true) :
    assertLeaf (a.pick b) b = .ok () ↔ a.compat b = true := by
  cases a <;> cases b <;> simp [Leaf.sameKind] at hk <;>
    simp [Leaf.pick, assertLeaf, Leaf.compat, Leaf.sameKind, pure, Except.pure]
  rename_i k dt sh d k' dt' sh' d'
  subst hk
  by_cases h1 : sh = sh' <;> by_cases h2 : dt = dt' <;> simp [h1, h2, throw, throwThe, MonadExceptOf.throw]


/-! ## the flattened tree -/

theorem filterMap_chunk_cons (a : Leaf) (ms : List Leaf) :
    (a :: ms).filterMap Leaf.chunk? = a.chunk?.toList ++ ms.filterMap Leaf.chunk? := by
  cases h : a.chunk? <;> simp [h]

/-- phase 1 on a template whose leaves are, position by position, of the Python type of the saved
leaves: every serialised leaf of the saved model arrives at the same flatten position, every other
leaf is the template's, and exactly the saved model's records are consumed -/
theorem readLeaves_sameKind (ms ts : List Leaf) (extra : List Chunk)
    (hwf : ∀ a ∈ ms, a.wf = true) (hk : Forall₂ (fun a b => a.sameKind b = true) ms ts) :
    readLeaves ts (ms.filterMap Leaf.chunk? ++ extra) = .ok (zipWith Leaf.pick ms ts, extra) := by
  induction hk with
  | nil => simp [readLeaves, pure, Except.pure]
  | @cons a b ms ts hab _ ih =>
    have h1 := readLeaf_sameKind a b (hwf a (by simp)) hab (ms.filterMap Leaf.chunk? ++ extra)
    have h2 := ih (fun x hx => hwf x (by simp [hx]))
    rw [filterMap_chunk_cons, List.append_assoc]
    simp [readLeaves, h1, h2, bind, Except.bind, pure, Except.pure]

theorem assertSame_pick (ms ts : List Leaf) (hk : Forall₂ (fun a b => a.sameKind b = true) ms ts) :
    assertSame (zipWith Leaf.pick ms ts) ts = .ok () ↔
      Forall₂ (fun a b => a.compat b = true) ms ts := by
  induction hk with
  | nil => simp [assertSame, pure, Except.pure]
  | @cons a b ms ts hab _ ih =>
    have h1 := assertLeaf_pick a b hab
    simp only [List.zipWith_cons_cons, assertSame, List.forall₂_cons]
    cases h : assertLeaf (a.pick b) b with
    | error e =>
      have : ¬ a.compat b = true := fun hc => by simp [h1.2 hc] at h
      simp [bind, Except.bind, this]
    | ok u =>
      have : a.compat b = true := h1.1 (by rw [h])
      simp [bind, Except.bind, this, ih]

theorem compat_sameKind (a b : Leaf) (h : a.compat b = true) : a.sameKind b = true := by
  cases a <;> cases b <;> simp_all [Leaf.compat, Leaf.sameKind]

theorem forall₂_compat_sameKind {ms ts : List Leaf}
    (h : Forall₂ (fun a b => a.compat b = true) ms ts) :
    Forall₂ (fun a b => a.sameKind b = true) ms ts := by
  induction h with
  | nil => exact .nil
  | cons hab _ ih => exact .cons (compat_sameKind _ _ hab) ih

/-- both phases: with leaves of matching Python types, `load` accepts iff every array leaf of the
template has the dtype and shape of the saved one, and then returns the picked leaves -/
theorem loadLeaves_sameKind (ms ts : List Leaf) (extra : List Chunk)
    (hwf : ∀ a ∈ ms, a.wf = true) (hk : Forall₂ (fun a b => a.sameKind b = true) ms ts) :
    (Forall₂ (fun a b => a.compat b = true) ms ts →
      loadLeaves ts (ms.filterMap Leaf.chunk? ++ extra) = .ok (zipWith Leaf.pick ms ts)) ∧
    (¬ Forall₂ (fun a b => a.compat b = true) ms ts →
      ∃ e, loadLeaves ts (ms.filterMap Leaf.chunk? ++ extra) = .error e) := by
  have hr := readLeaves_sameKind ms ts extra hwf hk
  have ha := assertSame_pick ms ts hk
  constructor
  · intro hc
    simp [loadLeaves, hr, ha.2 hc, bind, Except.bind, pure, Except.pure]
  · intro hc
    cases h : assertSame (zipWith Leaf.pick ms ts) ts with
    | ok u => exact absurd (ha.1 (by rw [h])) hc
    | error e => exact ⟨e, by simp [loadLeaves, hr, h, bind, Except.bind]⟩

theorem zipWith_pick_of_staticEq {ms ts : List Leaf}
    (h : Forall₂ (fun a b => a.staticEq b = true) ms ts) : zipWith Leaf.pick ms ts = ms := by
  induction h with
  | nil => rfl
  | @cons a b ms ts hab _ ih =>
    simp only [List.zipWith_cons_cons, ih, List.cons.injEq, and_true]
    cases a <;> simp_all [Leaf.pick, Leaf.staticEq]

/-! ## headline theorems -/

/-- The saved model is well formed: see `Leaf.wf`. -/
def PT.WF (m : PT) : Prop := ∀ a ∈ leaves m, a.wf = true

/-- the template's leaves have, in flatten order, the Python types / dtypes / shapes of the saved
model's leaves (this is all `load` can see of the template) -/
def LeavesCompat (m t : PT) : Prop := Forall₂ (fun a b => a.compat b = true) (leaves m) (leaves t)

def LeavesSameKind (m t : PT) : Prop :=
  Forall₂ (fun a b => a.sameKind b = true) (leaves m) (leaves t)

/-- the non-serialised leaves (activation functions, strings, …) of the template are the saved
model's -/
def StaticsAgree (m t : PT) : Prop :=
  Forall₂ (fun a b => a.staticEq b = true) (leaves m) (leaves t)

/-- **General form of the round trip.**  For every well-formed model `m`, every template `t` whose
leaves are compatible with `m`'s in flatten order (NO hypothesis on the tree structure: the file
does not contain it) and any trailing garbage in the file, `load` succeeds and returns `merged m t`:
the template's tree definition (`struct`), and in flatten order the saved model's serialised leaves
and the template's non-serialised leaves. -/
theorem load_save_merged (m t : PT) (extra : List Chunk) (hwf : m.WF) (hc : LeavesCompat m t) :
    deserialise (serialise m ++ extra) t = .ok (merged m t) ∧
      struct (merged m t) = struct t ∧
      leaves (merged m t) = zipWith Leaf.pick (leaves m) (leaves t) := by
  have h := (loadLeaves_sameKind (leaves m) (leaves t) extra hwf (forall₂_compat_sameKind hc)).1 hc
  refine ⟨by simp [deserialise, serialise, h, merged, bind, Except.bind, pure, Except.pure], ?_⟩
  apply fill_spec
  rw [List.length_zipWith, hc.length_eq, Nat.min_self]

/-- **`load (save m) = m`.**  For every well-formed model `m` and every template `t` with the same
tree definition, compatible leaves and the same non-serialised leaves, loading the saved file into
`t` returns exactly `m` (every leaf bit for bit, every static part). -/
theorem load_save_eq (m t : PT) (hwf : m.WF) (hs : struct m = struct t) (hc : LeavesCompat m t)
    (hst : StaticsAgree m t) : saveLoad m t = .ok m := by
  have h := (load_save_merged m t [] hwf hc).1
  rw [List.append_nil] at h
  rw [saveLoad, h, merged, zipWith_pick_of_staticEq hst, fill_leaves m t hs]

/-- non-vacuity of `load_save_eq`, with every kind of leaf, `None`, nesting and a template that
differs in every serialised value -/
example :
    let f32 := fun d => Leaf.arr .jax .float32 [2] d
    let m := PT.node "M" [.leaf (f32 [1065353216, 0]), .node "None" [], .leaf (.static "relu"),
      .node "Inner" [.leaf (.pyFloat 4611686018427387904), .leaf (.pyInt (-7)), .leaf (.pyBool true),
        .leaf (.arr .np .int64 [1, 1] [2 ^ 40])]]
    let t := PT.node "M" [.leaf (f32 [0, 7]), .node "None" [], .leaf (.static "relu"),
      .node "Inner" [.leaf (.pyFloat 0), .leaf (.pyInt 3), .leaf (.pyBool false),
        .leaf (.arr .np .int64 [1, 1] [5])]]
    (m.WF ∧ struct m = struct t ∧ LeavesCompat m t ∧ StaticsAgree m t) ∧ saveLoad m t = .ok m := by
  intro f32 m t
  have h : m.WF ∧ struct m = struct t ∧ LeavesCompat m t ∧ StaticsAgree m t := by
    refine ⟨by simp [PT.WF, m, f32, leaves, leavesL, Leaf.wf, intDtype], rfl, ?_, ?_⟩ <;>
      simp [LeavesCompat, StaticsAgree, m, t, f32, leaves, leavesL, Leaf.compat, Leaf.sameKind,
        Leaf.staticEq]
  exact ⟨h, load_save_eq m t h.1 h.2.1 h.2.2.1 h.2.2.2⟩

/-- **Bit-for-bit reproduction of every function of the model** (its forward pass on any input,
its parameter count, …): a corollary of `load_save_eq`, for every `f`. -/
theorem load_save_output_eq {β : Type} (f : PT → β) (m t : PT) (hwf : m.WF)
    (hs : struct m = struct t) (hc : LeavesCompat m t) (hst : StaticsAgree m t) :
    (saveLoad m t).map f = .ok (f m) := by
  rw [load_save_eq m t hwf hs hc hst]; rfl

/-- when only the serialised leaves are known to be compatible, every function that reads the
model through its tree definition and leaves gives on the loaded model what it gives on
`merged m t` — in particular a forward pass uses the TEMPLATE's activation functions -/
theorem load_save_output_merged {β : Type} (f : PT → β) (m t : PT) (hwf : m.WF)
    (hc : LeavesCompat m t) : (saveLoad m t).map f = .ok (f (merged m t)) := by
  have h := (load_save_merged m t [] hwf hc).1
  rw [List.append_nil] at h
  rw [saveLoad, h]; rfl

/-- **Rejection of a dtype / shape mismatch.**  If the template has leaves of the right Python
types but some array leaf with another dtype or shape than the saved one, `load` raises (whatever
follows in the file). -/
theorem load_rejects_shape_mismatch (m t : PT) (extra : List Chunk) (hwf : m.WF)
    (hk : LeavesSameKind m t) (hn : ¬ LeavesCompat m t) :
    ∃ e, deserialise (serialise m ++ extra) t = .error e := by
  obtain ⟨e, he⟩ := (loadLeaves_sameKind (leaves m) (leaves t) extra hwf hk).2 hn
  exact ⟨e, by simp [deserialise, serialise, he, bind, Except.bind]⟩

/-- acceptance is exactly compatibility -/
theorem load_ok_iff_compat (m t : PT) (hwf : m.WF) (hk : LeavesSameKind m t) :
    (∃ p, saveLoad m t = .ok p) ↔ LeavesCompat m t := by
  constructor
  · intro ⟨p, hp⟩
    by_cases hc : LeavesCompat m t
    · exact hc
    · obtain ⟨e, he⟩ := load_rejects_shape_mismatch m t [] hwf hk hc
      rw [List.append_nil] at he
      rw [saveLoad, he] at hp
      cases hp
  · intro hc
    have h := (load_save_merged m t [] hwf hc).1
    rw [List.append_nil] at h
    exact ⟨_, h⟩

/-- non-vacuity of `load_rejects_shape_mismatch`: template of shape (3,) for a saved (2,) -/
example :
    let m := PT.node "M" [.leaf (.arr .jax .float32 [2] [1, 2])]
    let t := PT.node "M" [.leaf (.arr .jax .float32 [3] [0, 0, 0])]
    m.WF ∧ LeavesSameKind m t ∧ ¬ LeavesCompat m t := by
  intro m t
  refine ⟨by simp [PT.WF, m, leaves, leavesL, Leaf.wf], ?_, ?_⟩ <;>
    simp [LeavesSameKind, LeavesCompat, m, t, leaves, leavesL, Leaf.compat, Leaf.sameKind]


/-! ## short files, long files -/

theorem bind_ok {α β : Type} {x : Except String α} {f : α → Except String β} {b : β}
    (h : x >>= f = .ok b) : ∃ a, x = .ok a ∧ f a = .ok b := by
  cases x with
  | error e => simp [bind, Except.bind] at h
  | ok a => exact ⟨a, rfl, h⟩

/-- a template leaf of a serialised kind consumes exactly one record, any other leaf none -/
theorem readLeaf_consumes (t : Leaf) (cs : List Chunk) (a : Leaf) (r : List Chunk)
    (h : readLeaf t cs = .ok (a, r)) :
    cs.length = (if t.serialised then 1 else 0) + r.length := by
  cases cs with
  | nil =>
    cases t <;> simp [readLeaf, throw, throwThe, MonadExceptOf.throw, pure, Except.pure] at h
    simp [Leaf.serialised, Leaf.chunk?, h.2]
  | cons c rest =>
    by_cases ho : c.dtype = .object
    · cases t <;> simp [readLeaf, ho, throw, throwThe, MonadExceptOf.throw, pure, Except.pure] at h
      simp [Leaf.serialised, Leaf.chunk?, ← h.2]
    · cases t with
      | arr k dt sh d =>
        cases k <;> simp [readLeaf, ho, pure, Except.pure] at h <;>
          simp [Leaf.serialised, Leaf.chunk?, ← h.2] <;> omega
      | static s =>
        simp [readLeaf, pure, Except.pure] at h
        simp [Leaf.serialised, Leaf.chunk?, ← h.2]
      | pyBool v =>
        simp only [readLeaf, ho, if_false] at h
        obtain ⟨it, _, h2⟩ := bind_ok h
        simp [pure, Except.pure] at h2
        simp [Leaf.serialised, Leaf.chunk?, ← h2.2]; omega
      | pyInt v =>
        simp only [readLeaf, ho, if_false] at h
        obtain ⟨it, _, h2⟩ := bind_ok h
        obtain ⟨n, _, h3⟩ := bind_ok h2
        simp [pure, Except.pure] at h3
        simp [Leaf.serialised, Leaf.chunk?, ← h3.2]; omega
      | pyFloat v =>
        simp only [readLeaf, ho, if_false] at h
        obtain ⟨it, _, h2⟩ := bind_ok h
        simp [pure, Except.pure] at h2
        simp [Leaf.serialised, Leaf.chunk?, ← h2.2]; omega

theorem readLeaves_consumes (ts : List Leaf) (cs : List Chunk) (new : List Leaf) (r : List Chunk)
    (h : readLeaves ts cs = .ok (new, r)) :
    cs.length = ts.countP Leaf.serialised + r.length ∧ new.length = ts.length := by
  induction ts generalizing cs new r with
  | nil =>
    simp [readLeaves, pure, Except.pure] at h
    obtain ⟨h1, h2⟩ := h
    subst h1 h2
    simp
  | cons t ts ih =>
    simp only [readLeaves] at h
    obtain ⟨⟨a, r1⟩, h1, h2⟩ := bind_ok h
    obtain ⟨⟨as, r2⟩, h3, h4⟩ := bind_ok h2
    simp [pure, Except.pure] at h4
    have c1 := readLeaf_consumes t cs a r1 h1
    have c2 := ih r1 as r2 h3
    rw [List.countP_cons, ← h4.2, ← h4.1]
    simp only [List.length_cons]
    omega

/-- **Rejection of a short file / too few leaves.**  A file with fewer records than the template
has serialised leaves is rejected (`EOFError`), whatever the records are. -/
theorem load_rejects_short_file (cs : List Chunk) (t : PT)
    (h : cs.length < (leaves t).countP Leaf.serialised) : ∃ e, deserialise cs t = .error e := by
  cases hr : readLeaves (leaves t) cs with
  | error e => exact ⟨e, by simp [deserialise, loadLeaves, hr, bind, Except.bind]⟩
  | ok p =>
    have := (readLeaves_consumes (leaves t) cs p.1 p.2 hr).1
    omega

/-- the number of records `save` writes -/
theorem serialise_length (m : PT) : (serialise m).length = (leaves m).countP Leaf.serialised := by
  simp only [serialise]
  induction leaves m with
  | nil => rfl
  | cons a l ih =>
    cases h : a.chunk? <;> simp [Leaf.serialised, h, ih]

/-- leaf-count mismatch, one direction: a saved model with fewer serialised leaves than the
template is rejected -/
theorem load_rejects_fewer_leaves (m t : PT)
    (h : (leaves m).countP Leaf.serialised < (leaves t).countP Leaf.serialised) :
    ∃ e, saveLoad m t = .error e :=
  load_rejects_short_file _ _ (by rw [serialise_length]; exact h)

/-- leaf-count mismatch, the other direction is NOT detected: records left over in the file are
ignored (here a model with a second array is loaded into a template that has only the first). -/
theorem load_accepts_long_file :
    let w := Leaf.arr .jax .float32 [1] [5]
    let m := PT.node "M" [.leaf w, .leaf (.arr .jax .float32 [2] [6, 7])]
    let t := PT.node "M'" [.leaf (.arr .jax .float32 [1] [0])]
    saveLoad m t = .ok (PT.node "M'" [.leaf w]) := by
  intro w m t; rfl


/-! ## flatten order -/

theorem serialise_leaf (a : Leaf) : serialise (.leaf a) = a.chunk?.toList := by
  cases h : a.chunk? <;> simp [serialise, leaves, h]

theorem serialiseL_eq (ch : List PT) :
    (leavesL ch).filterMap Leaf.chunk? = ch.flatMap serialise := by
  induction ch with
  | nil => rfl
  | cons p ps ih => simp [leavesL, List.filterMap_append, ih, serialise]

/-- **The file is in flatten order**: the records of a node are the records of its children, one
child after the other, left to right (depth first); a leaf contributes its own record, or nothing
if it is not of a serialised kind.  Nothing else is written: neither tags, field names nor keys. -/
theorem save_flatten_order (tag : String) (ch : List PT) :
    serialise (.node tag ch) = ch.flatMap serialise := by
  simp [serialise, leaves, serialiseL_eq]

/-- the file does not depend on the tree definition: two models with the same leaves in flatten
order write the same file -/
theorem save_only_leaves (m m' : PT) (h : leaves m = leaves m') : serialise m = serialise m' := by
  simp [serialise, h]

/-- **Why `struct m = struct t` is needed in `load_save_eq`.**  A template of the same class whose
two same-shaped fields are declared in the other order (`LeavesCompat` holds, `struct m = struct t`
does not) is accepted silently, and the weights are swapped: the loaded model's `w2` holds the
saved `w1`. -/
theorem load_permuted_template_swaps :
    let a := Leaf.arr .jax .float32 [2] [1, 2]
    let b := Leaf.arr .jax .float32 [2] [3, 4]
    let z := Leaf.arr .jax .float32 [2] [0, 0]
    let m := PT.node "M" [.node "w1" [.leaf a], .node "w2" [.leaf b]]
    let t := PT.node "M" [.node "w2" [.leaf z], .node "w1" [.leaf z]]
    let m' := PT.node "M" [.node "w2" [.leaf a], .node "w1" [.leaf b]]
    m.WF ∧ LeavesCompat m t ∧ StaticsAgree m t ∧ struct m ≠ struct t ∧
      saveLoad m t = .ok m' ∧ m' ≠ m ∧ leaves m' = leaves m := by
  intro a b z m t m'
  refine ⟨by simp [PT.WF, m, a, b, leaves, leavesL, Leaf.wf], ?_, ?_, ?_, rfl, ?_, rfl⟩
  · simp [LeavesCompat, m, t, a, b, z, leaves, leavesL, Leaf.compat]
  · simp [StaticsAgree, m, t, a, b, z, leaves, leavesL, Leaf.staticEq]
  · simp [m, t, struct, structL]
  · simp [m, m']

/-- **Why `StaticsAgree` is needed**: a non-serialised leaf (here the activation function) is
the TEMPLATE's after loading, so the loaded model is not the saved one. -/
theorem load_keeps_template_static :
    let w := Leaf.arr .jax .float32 [1] [9]
    let m := PT.node "Layer" [.leaf w, .leaf (.static "relu")]
    let t := PT.node "Layer" [.leaf (.arr .jax .float32 [1] [0]), .leaf (.static "tanh")]
    struct m = struct t ∧ LeavesCompat m t ∧
      saveLoad m t = .ok (PT.node "Layer" [.leaf w, .leaf (.static "tanh")]) := by
  intro w m t
  refine ⟨rfl, ?_, rfl⟩
  simp [LeavesCompat, m, t, w, leaves, leavesL, Leaf.compat, Leaf.sameKind]

/-- Python scalar leaves are NOT compared with the template (`_assert_same` only looks at arrays):
an `int` template leaf silently truncates a saved `float` 2.5 to 2, a `bool` template leaf turns a
saved 7 into `True`. -/
theorem load_scalar_converted_unchecked :
    saveLoad (.node "M" [.leaf (.pyFloat 0x4004000000000000), .leaf (.pyInt 7)])
        (.node "M" [.leaf (.pyInt 0), .leaf (.pyBool false)]) =
      .ok (.node "M" [.leaf (.pyInt 2), .leaf (.pyBool true)]) := by
  rfl

end GinjaxVerif.C13Save
