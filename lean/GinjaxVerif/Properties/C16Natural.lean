import GinjaxVerif.Lemmas.C16Natural

/-!
# C16 — the autoregressive data path is natural in the frames; rollouts of equivariant models are
equivariant

`autoregressive_step` and `autoregressive_map` only re-arrange frames along the channel axis; they
never look inside a frame.  Hence they commute with every *framewise map*
`mapMI φ`, `φ : κ → α → β` (every frame of tensor type `k` goes through `φ k`).

**Reading.**  The action of a group element `g` of ginjax on a multi image (`times_group_element`)
transforms every channel of a block by the same spatial/tensor transformation, which depends only
on the tensor type `(k, parity)` of the block, i.e. on the key: it is `mapMI (act g)` with
`act g k : α → α` the action on one frame of type `k`.  The hypothesis on the model in
`autoregressiveMap_natural` / `rollout_equivariant`,
`f (mapMI φ x) s = (mapMI φ (f x s).1, (f x s).2)`, says that the one-step model commutes with the
action and that its auxiliary state (batch statistics) is invariant; this is what C07's
`net_equivariant` provides for the networks.  The conclusion is that the whole `n`-step rollout
commutes with the action, for every `n`, every `past_steps`, every constant-field layout — and
that it is rejected (Python raises) on the transformed input exactly when it is rejected on the
original one.

No well-typedness hypothesis is needed: all theorems hold for **all** inputs, the rejected ones
included, since every rejection of the code depends on keys and lengths only.
-/
namespace GinjaxVerif.C16

set_option linter.unusedSectionVars false
set_option linter.unusedVariables false

variable {κ : Type} [DecidableEq κ] {α β σ : Type}

/-- **`autoregressive_step` is natural in the frames**: transforming the frames of the input and of
the prediction by `φ` and then shifting the windows is the same as shifting the windows and then
transforming; in particular the step raises on the transformed data iff it raises on the
original. -/
theorem autoregressiveStep_natural (φ : κ → α → β) (past : Nat) (consts : List (κ × Nat))
    (x y : MI κ α) (future : Nat) :
    autoregressiveStep past consts (mapMI φ x) (mapMI φ y) future
      = (autoregressiveStep past consts x y future).map (mapMI φ) :=
  autoregressiveStep_mapMI φ past consts x y future

/-- **`autoregressive_map` is natural in the frames**: if the one-step models `f` (on `α`-frames)
and `f'` (on `β`-frames) are intertwined by the framewise map `φ` (with the same auxiliary state),
then so are their `n`-step rollouts, for every `n`. -/
theorem autoregressiveMap_natural (φ : κ → α → β) (f : MI κ α → σ → MI κ α × σ)
    (f' : MI κ β → σ → MI κ β × σ)
    (hf : ∀ x s, f' (mapMI φ x) s = (mapMI φ (f x s).1, (f x s).2))
    (past : Nat) (consts : List (κ × Nat)) (x : MI κ α) (s : σ) (n : Nat) :
    autoregressiveMap f' past consts (mapMI φ x) s n
      = (autoregressiveMap f past consts x s n).map fun r => (mapMI φ r.1, r.2) := by
  unfold autoregressiveMap
  have h := mapLoop_mapMI φ f f' hf past consts n x s []
  rw [mapMI2_nil] at h
  rw [h]
  cases mapLoop f past consts n x s [] with
  | none => rfl
  | some r =>
    obtain ⟨out, s'⟩ := r
    simp only [Option.map_some]
    rw [combineAxes01_mapMI2]
    cases combineAxes01 out with
    | none => rfl
    | some r => rfl

/-- **The rollout of an equivariant model is equivariant.**  `φ k` is the action of one group
element on a frame of tensor type `k`; if the model `f` commutes with it (and its auxiliary state
does not change), then rolling out from the transformed input gives the transformed rollout, with
the same final state. -/
theorem rollout_equivariant (φ : κ → α → α) (f : MI κ α → σ → MI κ α × σ)
    (hf : ∀ x s, f (mapMI φ x) s = (mapMI φ (f x s).1, (f x s).2))
    (past : Nat) (consts : List (κ × Nat)) (x : MI κ α) (s : σ) (n : Nat) :
    autoregressiveMap f past consts (mapMI φ x) s n
      = (autoregressiveMap f past consts x s n).map fun r => (mapMI φ r.1, r.2) :=
  autoregressiveMap_natural φ f f hf past consts x s n

/-- The same for a family of framewise actions indexed by the elements `g` of a group (or of any
index type): a model equivariant under every `act g` has a rollout equivariant under every
`act g`. -/
theorem rollout_equivariant_family {G : Type} (act : G → κ → α → α)
    (f : MI κ α → σ → MI κ α × σ)
    (hf : ∀ g x s, f (mapMI (act g) x) s = (mapMI (act g) (f x s).1, (f x s).2))
    (past : Nat) (consts : List (κ × Nat)) (g : G) (x : MI κ α) (s : σ) (n : Nat) :
    autoregressiveMap f past consts (mapMI (act g) x) s n
      = (autoregressiveMap f past consts x s n).map fun r => (mapMI (act g) r.1, r.2) :=
  rollout_equivariant (act g) f (hf g) past consts x s n

/-- One step with an equivariant model: the next input of the transformed input is the transformed
next input. -/
theorem step_equivariant (φ : κ → α → α) (f : MI κ α → σ → MI κ α × σ)
    (hf : ∀ x s, f (mapMI φ x) s = (mapMI φ (f x s).1, (f x s).2))
    (past : Nat) (consts : List (κ × Nat)) (x : MI κ α) (s : σ) :
    autoregressiveStep past consts (mapMI φ x) (f (mapMI φ x) s).1
      = (autoregressiveStep past consts x (f x s).1).map (mapMI φ) := by
  rw [hf]
  exact autoregressiveStep_natural φ past consts x (f x s).1 1

/-! ## Non-vacuity

Key 0: two dynamic channels × 2 past steps + 1 constant frame; key 2: one channel × 2 steps.  The
model is "persistence" (predict the newest frame of every window; the state counts the calls); the
framewise map adds `100·(k+1)` to every frame of type `k` (not the identity, key dependent). -/

section Examples

/-- the newest frame of every window of two (a trailing constant is dropped) -/
def exNewest : List Nat → List Nat
  | _ :: b :: r => b :: exNewest r
  | _ => []

theorem exNewest_map (g : Nat → Nat) : ∀ l, exNewest (l.map g) = (exNewest l).map g
  | [] => rfl
  | [_] => rfl
  | _ :: b :: r => by simp [exNewest, exNewest_map g r]

def exPersist (x : MI Nat Nat) (s : Nat) : MI Nat Nat × Nat :=
  (x.map fun kb => (kb.1, exNewest kb.2), s + 1)

def exPhi (k a : Nat) : Nat := a + 100 * (k + 1)

def exNatConsts : List (Nat × Nat) := [(0, 1)]
def exNatX : MI Nat Nat := [(0, [10, 11, 20, 21, 99]), (2, [30, 31])]

theorem exPersist_commutes (x : MI Nat Nat) (s : Nat) :
    exPersist (mapMI exPhi x) s = (mapMI exPhi (exPersist x s).1, (exPersist x s).2) := by
  simp [exPersist, mapMI, List.map_map, Function.comp_def, exNewest_map]

-- the rollout succeeds on the original and on the transformed input …
example : autoregressiveMap exPersist 2 exNatConsts exNatX 0 3
    = some ([(0, [11, 11, 11, 21, 21, 21]), (2, [31, 31, 31])], 3) := by decide

example : mapMI exPhi exNatX = [(0, [110, 111, 120, 121, 199]), (2, [330, 331])] := by decide

example : autoregressiveMap exPersist 2 exNatConsts (mapMI exPhi exNatX) 0 3
    = some ([(0, [111, 111, 111, 121, 121, 121]), (2, [331, 331, 331])], 3) := by decide

-- … and the theorem relates the two
example : autoregressiveMap exPersist 2 exNatConsts (mapMI exPhi exNatX) 0 3
    = some (mapMI exPhi [(0, [11, 11, 11, 21, 21, 21]), (2, [31, 31, 31])], 3) := by
  rw [rollout_equivariant exPhi exPersist exPersist_commutes]
  decide

example : autoregressiveStep 2 exNatConsts (mapMI exPhi exNatX) (mapMI exPhi [(2, [32]), (0, [12, 22])])
    = some (mapMI exPhi [(0, [11, 12, 21, 22, 99]), (2, [31, 32])]) := by
  rw [autoregressiveStep_natural]
  decide

-- a rejected input stays rejected after the transformation (missing dynamic type 2)
example : autoregressiveStep 2 exNatConsts (mapMI exPhi exNatX) (mapMI exPhi [(0, [12, 22])]) = none := by
  rw [autoregressiveStep_natural]
  decide

end Examples

end GinjaxVerif.C16
