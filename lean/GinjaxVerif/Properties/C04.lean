import GinjaxVerif.Lemmas.Conv
import GinjaxVerif.Lemmas.Box
import GinjaxVerif.Lemmas.ConvEquiv

/-!
# C04 — convolution computes its mathematical definition in every mode

`convImpl` / `convContractImpl` model the code (`convolve`, `convolve_contract`: tensor expansion by
ones, N…C / …IO re-layout, `lax.conv_general_dilated` with `feature_group_count = D^(k+k')`);
`convSpec` is the property's direct sum over the padded signal (`padVal`: periodic wrap on
toroidal axes, zero interleaving for image dilation, zero padding).  All statements hold for every
dimension, batch size, channel count, extent vector, tensor order pair and option set.
-/
namespace GinjaxVerif.C04

open GinjaxVerif

variable {R : Type} {d : Nat}

/-- **The pipeline of `convolve` computes the direct sum.** -/
theorem convImpl_eq_convSpec [Zero R] [Add R] [Mul R] (cfg : ConvCfg d) (img flt : Bank R d)
    (b o : Nat) (x : Pix d) (T : List (Fin d)) (hT : T.length = cfg.kI + cfg.kF)
    (ho : o < cfg.outC) :
    convImpl cfg img flt b o x T = convSpec cfg img flt b o x T :=
  GinjaxVerif.convImpl_eq_convSpec cfg img flt b o x T hT ho

/-- **The fused convolve-and-contract equals convolution followed by Kronecker contraction** of
every image index with the corresponding leading filter index. -/
theorem convContractImpl_eq_contract_convSpec [CommRing R] (cfg : ConvCfg d) (img flt : Bank R d)
    (b o : Nat) (x : Pix d) (t' : List (Fin d)) (hk : cfg.kI ≤ cfg.kF)
    (ht' : t'.length = cfg.kF - cfg.kI) (ho : o < cfg.outC) :
    convContractImpl cfg img flt b o x t' = convContractSpec cfg img flt b o x t' :=
  GinjaxVerif.convContractImpl_eq_spec cfg img flt b o x t' hk ht' ho

/-- standard size formula, and every window position lies inside the padded signal -/
theorem outShape_eq (o : AxisOpt) :
    o.outLen = (if o.padLen < o.filtLen then 0 else (o.padLen - o.filtLen) / o.stride + 1) ∧
    ∀ i a : Nat, i < o.outLen → a < o.M → 0 < o.stride → i * o.stride + a * o.rd < o.padLen := by
  refine ⟨rfl, ?_⟩
  intro i a hi ha hst
  unfold AxisOpt.outLen at hi
  split at hi
  · omega
  · rename_i hge
    have h1 : i ≤ (o.padLen - o.filtLen) / o.stride := by omega
    have h2 : i * o.stride ≤ o.padLen - o.filtLen :=
      le_trans (Nat.mul_le_mul_right _ h1) (Nat.div_mul_le_self _ _)
    have h3 : a * o.rd ≤ (o.M - 1) * o.rd := Nat.mul_le_mul_right _ (by omega)
    unfold AxisOpt.filtLen at *
    omega

section Bilinear
variable [CommRing R]

/-- bilinearity of the convolution in the image … -/
theorem convSpec_add_left (cfg : ConvCfg d) (img img' flt : Bank R d) (b o : Nat) (x : Pix d)
    (n : List (Fin d)) :
    convSpec cfg (fun b c y t => img b c y t + img' b c y t) flt b o x n
      = convSpec cfg img flt b o x n + convSpec cfg img' flt b o x n := by
  simp only [convSpec, padVal_add, add_mul, sumBox_add, sumFin_add]

theorem convSpec_smul_left (cfg : ConvCfg d) (r : R) (img flt : Bank R d) (b o : Nat) (x : Pix d)
    (n : List (Fin d)) :
    convSpec cfg (fun b c y t => r * img b c y t) flt b o x n = r * convSpec cfg img flt b o x n := by
  simp only [convSpec, padVal_smul, mul_assoc, sumBox_mul_left, sumFin_mul_left]

/-- … and in the filter -/
theorem convSpec_add_right (cfg : ConvCfg d) (img flt flt' : Bank R d) (b o : Nat) (x : Pix d)
    (n : List (Fin d)) :
    convSpec cfg img (fun o c a t => flt o c a t + flt' o c a t) b o x n
      = convSpec cfg img flt b o x n + convSpec cfg img flt' b o x n := by
  simp only [convSpec, mul_add, sumBox_add, sumFin_add]

theorem convSpec_smul_right (cfg : ConvCfg d) (r : R) (img flt : Bank R d) (b o : Nat) (x : Pix d)
    (n : List (Fin d)) :
    convSpec cfg img (fun o c a t => r * flt o c a t) b o x n = r * convSpec cfg img flt b o x n := by
  have : ∀ (p q : R), p * (r * q) = r * (p * q) := fun p q => by ring
  simp only [convSpec, this, sumBox_mul_left, sumFin_mul_left]

end Bilinear

/-! ### non-vacuity -/

example : (unravelT 3 2 (ravelT [(2 : Fin 3), 1])) = [2, 1] := by decide
example : ({ N := 5, M := 3, lo := 1, hi := 1, stride := 2, rd := 2, ld := 1 } : AxisOpt).outLen = 2 := by decide
example : ({ N := 3, M := 3, w := 1, ld := 1 } : AxisOpt).srcIdx 0 = some 2 := by decide
example : ({ N := 3, M := 2, lo := 1, hi := 1, ld := 2 } : AxisOpt).srcIdx 2 = none := by decide

end GinjaxVerif.C04
