import GinjaxVerif.Generated.StopConditions

/-!
# C19 — the hand-written machine IS the translation of the current source

`GinjaxVerif/Generated/StopConditions.lean` is regenerated on every run of the C19 check from
`src/ginjax/ml/stopping_conditions.py` (translator `harness/translate_stop.py`: symbolic execution of
`__init__` / `stop` of each class, slicing away logging).  The theorems below say that the generated
definitions, seen through the generated abstraction `abs` (fields recognised by how the constructor
initialises them), are exactly `pStepF` / `eStep` / `FState.init` of `Model/C19.lean`, about which
every other C19 theorem speaks.  A change of the Python that changes the translation makes these
proofs fail; the check then searches for a loss history on which generated and hand-written
machine differ and replays it on the real classes.
-/

namespace GinjaxVerif.C19Gen
open GinjaxVerif.C19 GinjaxVerif.Gen

variable {Q : Type} [LT Q] [DecidableLT Q] [Sub Q]

/-- `TrainLoss.stop` monitors the training loss and is one step of the float-shaped machine;
patience and min_delta are not touched. -/
theorem trainLoss_stop_eq (s : TrainLoss Q) (model epoch : Nat) (tl vl : Option (FV Q)) :
    let r := TrainLoss.stop s model epoch tl vl
    (r.1.abs, r.2) = pStepF s.patienceOf s.deltaOf s.abs model tl
      ∧ r.1.patienceOf = s.patienceOf ∧ r.1.deltaOf = s.deltaOf := by
  cases tl <;> cases vl <;>
    simp only [TrainLoss.stop, pStepF, TrainLoss.abs, TrainLoss.patienceOf, TrainLoss.deltaOf] <;>
    (repeat' split) <;> simp_all

/-- `ValLoss.stop` is the same machine on the validation loss. -/
theorem valLoss_stop_eq (s : ValLoss Q) (model epoch : Nat) (tl vl : Option (FV Q)) :
    let r := ValLoss.stop s model epoch tl vl
    (r.1.abs, r.2) = pStepF s.patienceOf s.deltaOf s.abs model vl
      ∧ r.1.patienceOf = s.patienceOf ∧ r.1.deltaOf = s.deltaOf := by
  cases tl <;> cases vl <;>
    simp only [ValLoss.stop, pStepF, ValLoss.abs, ValLoss.patienceOf, ValLoss.deltaOf] <;>
    (repeat' split) <;> simp_all

/-- The constructors start the machine in `FState.init none` (best loss `+inf`, counter 0, no model). -/
theorem trainLoss_init_eq (verbose patience : Nat) (delta : FV Q) :
    (TrainLoss.init verbose patience delta).abs = FState.init none
      ∧ (TrainLoss.init verbose patience delta).patienceOf = patience
      ∧ (TrainLoss.init verbose patience delta).deltaOf = delta := by
  simp [TrainLoss.init, TrainLoss.abs, TrainLoss.patienceOf, TrainLoss.deltaOf, FState.init]

theorem valLoss_init_eq (verbose patience : Nat) (delta : FV Q) :
    (ValLoss.init verbose patience delta).abs = FState.init none
      ∧ (ValLoss.init verbose patience delta).patienceOf = patience
      ∧ (ValLoss.init verbose patience delta).deltaOf = delta := by
  simp [ValLoss.init, ValLoss.abs, ValLoss.patienceOf, ValLoss.deltaOf, FState.init]

/-- `EpochStop.stop` records the model it is handed and answers `current_epoch >= epochs`: `eStep`. -/
theorem epochStop_stop_eq (s : EpochStop) (model epoch : Nat) (tl vl : Option Unit) :
    let r := EpochStop.stop s model epoch tl vl
    (r.1.abs, r.2) = eStep s.epochsOf model epoch ∧ r.1.epochsOf = s.epochsOf := by
  simp [EpochStop.stop, eStep, EpochStop.abs, EpochStop.epochsOf]

theorem epochStop_init_eq (verbose epochs : Nat) :
    (EpochStop.init verbose epochs).abs = none ∧ (EpochStop.init verbose epochs).epochsOf = epochs := by
  simp [EpochStop.init, EpochStop.abs, EpochStop.epochsOf]

/-- Whole histories: running the generated `TrainLoss.stop` over a list of calls, observed through
`abs`, is `pRunF` — so `pRunF_spec_nan`, `stopF_true_iff`, … are statements about the translated code. -/
def runGen (s : TrainLoss Q) : Nat → List (Option (FV Q)) → TrainLoss Q × List Bool
  | _, [] => (s, [])
  | m, l :: ls =>
    let r := TrainLoss.stop s m m l none
    let (s'', bs) := runGen r.1 (m + 1) ls
    (s'', r.2 :: bs)

theorem runGen_eq_pRunF (s : TrainLoss Q) (m : Nat) (ls : List (Option (FV Q))) :
    ((runGen s m ls).1.abs, (runGen s m ls).2) = pRunF s.patienceOf s.deltaOf s.abs m ls := by
  induction ls generalizing s m with
  | nil => simp [runGen, pRunF]
  | cons l ls ih =>
    have h := trainLoss_stop_eq s m m l none
    simp only at h
    obtain ⟨h1, h2, h3⟩ := h
    have ih' := ih (TrainLoss.stop s m m l none).1 (m + 1)
    rw [h2, h3] at ih'
    simp only [runGen, pRunF]
    rw [← h1]
    simp only
    rw [← ih']

/-- Non-vacuity: the generated machine really runs — patience 1, min_delta 0, losses 2, 3, 3: stops at
the third call and hands back the model of the first. -/
example :
    let s0 : TrainLoss Int := TrainLoss.init 0 1 (.fin 0)
    let r := runGen s0 1 [some (.fin 2), some (.fin 3), some (.fin 3)]
    (r.2, r.1.abs.bestModel) = ([false, false, true], some 1) := by decide

end GinjaxVerif.C19Gen
