import GinjaxVerif.Model.C12
import GinjaxVerif.Lemmas.C12
import Mathlib.Algebra.Field.Basic
import Mathlib.Algebra.Field.Rat

/-!
# C12 — multi-image arithmetic pairs blocks by type, whatever the storage history

All theorems are for an arbitrary value type `R`, arbitrary block shapes and sizes, arbitrary
key orders of either operand (the only hypothesis on a dict is the invariant `MI.WF`: keys
unique, parities 0/1, which `build_wf` proves for every construction history).
-/
namespace GinjaxVerif.C12

open Dict

namespace MI
variable {R : Type}

/-! ### helper lemmas on the loops of the code -/

theorem appendD_fresh {d : Dict (Block R)} {t : Key} (h : t ∉ Dict.keys d) (b : Block R) :
    appendD d t b = d ++ [(t, b)] := by
  have : Dict.get? d t = none := Dict.get?_eq_none.mpr h
  simp [appendD, this, Dict.set_of_not_mem h]

/-- value stored by the loop of the repaired `__add__` for one item of `self` -/
def zipVal (f : R → R → R) (other : Dict (Block R)) (kv : Key × Block R) : Key × Block R :=
  (kv.1, match Dict.get? other kv.1 with
         | some y => Block.zip f kv.2 y
         | none => kv.2)

theorem norm_key {t : Key} (h : t.2 < 2) : (t.1, t.2 % 2) = t := by
  obtain ⟨k, p⟩ := t
  simp only [Prod.mk.injEq, true_and]
  exact Nat.mod_eq_of_lt h

theorem zipLoop_eq (f : R → R → R) (other : Dict (Block R)) (rest : List (Key × Block R)) :
    ∀ out : Dict (Block R),
      (∀ t ∈ Dict.keys rest, t ∈ Dict.keys other) → (∀ t ∈ Dict.keys rest, t.2 < 2) →
      (Dict.keys (out ++ rest)).Nodup →
      zipLoop f other rest out = some (out ++ rest.map (zipVal f other)) := by
  induction rest with
  | nil => intro out _ _ _; simp [zipLoop]
  | cons x xs ih =>
    intro out hk hp hn
    obtain ⟨t, b⟩ := x
    have ht : t ∈ Dict.keys other := hk t (by simp)
    obtain ⟨y, hy⟩ := Dict.exists_get?_of_mem ht
    have htp : (t.1, t.2 % 2) = t := norm_key (hp t (by simp))
    have hfresh : t ∉ Dict.keys out := by
      intro hm
      rw [Dict.keys_append, Dict.keys_cons] at hn
      exact (List.nodup_append.mp hn).2.2 _ hm t (List.mem_cons_self ..) rfl
    simp only [zipLoop, hy, htp]
    rw [appendD_fresh hfresh]
    have hn' : (Dict.keys ((out ++ [(t, Block.zip f b y)]) ++ xs)).Nodup := by simpa using hn
    rw [ih _ (fun t' h' => hk t' (by simp [h'])) (fun t' h' => hp t' (by simp [h'])) hn']
    simp [zipVal, hy]

theorem get?_map_zipVal (f : R → R → R) (other d : Dict (Block R)) (t : Key) :
    Dict.get? (d.map (zipVal f other)) t =
      match Dict.get? d t, Dict.get? other t with
      | some x, some y => some (Block.zip f x y)
      | some x, none => some x
      | none, _ => none := by
  induction d with
  | nil => simp [Dict.get?_nil]
  | cons x xs ih =>
    simp only [List.map_cons, Dict.get?_cons, zipVal]
    by_cases h : t = x.1
    · subst h
      simp only [if_true]
      cases Dict.get? other x.1 <;> rfl
    · simp only [h, if_false]
      exact ih

theorem keys_map_zipVal (f : R → R → R) (other d : Dict (Block R)) :
    Dict.keys (d.map (zipVal f other)) = Dict.keys d := by
  simp [Dict.keys, zipVal, Function.comp_def]

theorem toVector_eq (a : MI R) : toVector a = (a.data.map (·.2.data)).flatten := by
  have : ∀ (l : List (Key × Block R)) (acc : List R),
      l.foldl (fun acc kv => acc ++ kv.2.data) acc = acc ++ (l.map (·.2.data)).flatten := by
    intro l
    induction l with
    | nil => intro acc; simp
    | cons x xs ih => intro acc; simp [ih]
  simp [toVector, this]

/-- `from_vector` applied to an elementwise image of the flattened template rebuilds the template
block by block -/
theorem fromVectorAux_map (h : R → R) (rest : List (Key × Block R)) :
    ∀ out : Dict (Block R),
      (∀ t ∈ Dict.keys rest, t.2 < 2) → (Dict.keys (out ++ rest)).Nodup →
      fromVectorAux (((rest.map (·.2.data)).flatten).map h) rest out
        = out ++ rest.map (fun kv => (kv.1, Block.map h kv.2)) := by
  induction rest with
  | nil => intro out _ _; simp [fromVectorAux]
  | cons x xs ih =>
    intro out hp hn
    obtain ⟨t, b⟩ := x
    have htp : (t.1, t.2 % 2) = t := norm_key (hp t (by simp))
    have hfresh : t ∉ Dict.keys out := by
      intro hm
      rw [Dict.keys_append, Dict.keys_cons] at hn
      exact (List.nodup_append.mp hn).2.2 _ hm t (List.mem_cons_self ..) rfl
    simp only [List.map_cons, List.flatten_cons, List.map_append, fromVectorAux, htp, Block.size]
    have e1 : (List.map h b.data ++ List.map h (xs.map (·.2.data)).flatten).take b.data.length
        = List.map h b.data := by
      rw [List.take_append_of_le_length (by simp)]
      simp
    have e2 : (List.map h b.data ++ List.map h (xs.map (·.2.data)).flatten).drop b.data.length
        = List.map h (xs.map (·.2.data)).flatten := by
      rw [List.drop_append_of_le_length (by simp)]
      simp
    rw [e1, e2, appendD_fresh hfresh]
    have hn' : (Dict.keys ((out ++ [(t, (⟨b.shape, List.map h b.data⟩ : Block R))]) ++ xs)).Nodup := by
      simpa using hn
    rw [ih _ (fun t' h' => hp t' (by simp [h'])) hn']
    simp [Block.map]

theorem get?_map_val (g : Block R → Block R) (d : Dict (Block R)) (t : Key) :
    Dict.get? (d.map (fun kv => (kv.1, g kv.2))) t = (Dict.get? d t).map g := by
  induction d with
  | nil => simp [Dict.get?_nil]
  | cons x xs ih =>
    simp only [List.map_cons, Dict.get?_cons]
    by_cases h : t = x.1
    · simp [h]
    · simp only [h, if_false]; exact ih

theorem fromVector_map (h : R → R) (a : MI R) (ha : a.WF) :
    fromVector ((toVector a).map h) a = { a with data := a.data.map (fun kv => (kv.1, Block.map h kv.2)) } := by
  have := fromVectorAux_map h a.data [] ha.2 (by rw [List.nil_append]; exact ha.1)
  simp only [fromVector, toVector_eq, this, List.nil_append]

/-! ### the property -/

/-- **C12, addition/subtraction.** Whenever the operands hold the same *set* of types (and agree
on `D`, `is_torus`), the repaired `a ∘ b` is accepted, keeps `a`'s key order, and its block of
every type `t` is `a[t] ∘ b[t]` — whatever the order of either operand. -/
theorem zipWithKey_get (f : R → R → R) (a b : MI R) (ha : a.WF) (hD : a.D = b.D)
    (hT : a.torus = b.torus) (hk : ∀ t, t ∈ keys a ↔ t ∈ keys b) :
    ∃ c, zipWithKey f a b = some c ∧ c.D = a.D ∧ c.torus = a.torus ∧ keys c = keys a ∧
      ∀ t, get? c t = specGet f a b t := by
  have hc : compatible a b = true := by
    simp only [compatible, Bool.and_eq_true, beq_iff_eq]
    exact ⟨⟨hD, hT⟩, (Dict.keysEq_iff _ _).mpr hk⟩
  have hl := zipLoop_eq f b.data a.data [] (fun t h => (hk t).mp h) ha.2 (by rw [List.nil_append]; exact ha.1)
  refine ⟨{ a with data := a.data.map (zipVal f b.data) }, ?_, rfl, rfl, ?_, ?_⟩
  · simp [zipWithKey, hc, hl]
  · exact keys_map_zipVal f b.data a.data
  · intro t
    simp only [get?, specGet]
    rw [get?_map_zipVal]
    cases hx : Dict.get? a.data t with
    | none => rfl
    | some x =>
      have : t ∈ keys b := (hk t).mp (Dict.get?_isSome.mp (by rw [hx]; rfl))
      obtain ⟨y, hy⟩ := Dict.exists_get?_of_mem this
      simp [hy]

theorem add_get [Add R] (a b : MI R) (ha : a.WF) (hD : a.D = b.D) (hT : a.torus = b.torus)
    (hk : ∀ t, t ∈ keys a ↔ t ∈ keys b) :
    ∃ c, add a b = some c ∧ c.D = a.D ∧ c.torus = a.torus ∧ keys c = keys a ∧
      ∀ t, get? c t = specGet (· + ·) a b t :=
  zipWithKey_get _ a b ha hD hT hk

theorem sub_get [Sub R] (a b : MI R) (ha : a.WF) (hD : a.D = b.D) (hT : a.torus = b.torus)
    (hk : ∀ t, t ∈ keys a ↔ t ∈ keys b) :
    ∃ c, sub a b = some c ∧ c.D = a.D ∧ c.torus = a.torus ∧ keys c = keys a ∧
      ∀ t, get? c t = specGet (· - ·) a b t :=
  zipWithKey_get _ a b ha hD hT hk

/-- the blockwise specification itself does not see the storage order of either operand -/
theorem specGet_perm (f : R → R → R) {a a' b b' : MI R} (ha : a.WF) (hb : b.WF)
    (pa : a.data.Perm a'.data) (pb : b.data.Perm b'.data) (t : Key) :
    specGet f a' b' t = specGet f a b t := by
  simp only [specGet, get?]
  rw [Dict.get?_perm ha.1 pa t, Dict.get?_perm hb.1 pb t]

/-- **Order independence.** Re-ordering the blocks of either operand in any way (another
insertion order, a jit/vmap/pytree round trip, …) changes no block of the sum/difference. -/
theorem zipWithKey_order_independent (f : R → R → R) {a a' b b' : MI R} (ha : a.WF) (hb : b.WF)
    (pa : a.data.Perm a'.data) (pb : b.data.Perm b'.data)
    (hDa : a'.D = a.D) (hTa : a'.torus = a.torus) (hDb : b'.D = b.D) (hTb : b'.torus = b.torus)
    (hD : a.D = b.D) (hT : a.torus = b.torus) (hk : ∀ t, t ∈ keys a ↔ t ∈ keys b) :
    ∃ c c', zipWithKey f a b = some c ∧ zipWithKey f a' b' = some c' ∧ ∀ t, get? c' t = get? c t := by
  have hpa : ∀ t, t ∈ keys a' ↔ t ∈ keys a := fun t => ((pa.map _).mem_iff).symm
  have hpb : ∀ t, t ∈ keys b' ↔ t ∈ keys b := fun t => ((pb.map _).mem_iff).symm
  obtain ⟨c, hc, -, -, -, hg⟩ := zipWithKey_get f a b ha hD hT hk
  obtain ⟨c', hc', -, -, -, hg'⟩ := zipWithKey_get f a' b' (wf_perm ha pa)
    (by rw [hDa, hDb, hD]) (by rw [hTa, hTb, hT])
    (fun t => by rw [hpa, hpb]; exact hk t)
  exact ⟨c, c', hc, hc', fun t => by rw [hg, hg', specGet_perm f ha hb pa pb]⟩

theorem add_order_independent [Add R] {a a' b b' : MI R} (ha : a.WF) (hb : b.WF)
    (pa : a.data.Perm a'.data) (pb : b.data.Perm b'.data)
    (hDa : a'.D = a.D) (hTa : a'.torus = a.torus) (hDb : b'.D = b.D) (hTb : b'.torus = b.torus)
    (hD : a.D = b.D) (hT : a.torus = b.torus) (hk : ∀ t, t ∈ keys a ↔ t ∈ keys b) :
    ∃ c c', add a b = some c ∧ add a' b' = some c' ∧ ∀ t, get? c' t = get? c t :=
  zipWithKey_order_independent _ ha hb pa pb hDa hTa hDb hTb hD hT hk

/-- **Rejection.** Operands with different key sets (or `D`, or `is_torus`) are not combined. -/
theorem zipWithKey_rejects (f : R → R → R) (a b : MI R)
    (h : ¬ (a.D = b.D ∧ a.torus = b.torus ∧ ∀ t, t ∈ keys a ↔ t ∈ keys b)) :
    zipWithKey f a b = none := by
  have : compatible a b = false := by
    rw [Bool.eq_false_iff]
    intro hc
    simp only [compatible, Bool.and_eq_true, beq_iff_eq] at hc
    exact h ⟨hc.1.1, hc.1.2, (Dict.keysEq_iff _ _).mp hc.2⟩
  simp [zipWithKey, this]

theorem add_rejects_keyset_mismatch [Add R] (a b : MI R)
    (h : ¬ ∀ t, t ∈ keys a ↔ t ∈ keys b) : add a b = none :=
  zipWithKey_rejects _ a b (fun hh => h hh.2.2)

theorem sub_rejects_keyset_mismatch [Sub R] (a b : MI R)
    (h : ¬ ∀ t, t ∈ keys a ↔ t ∈ keys b) : sub a b = none :=
  zipWithKey_rejects _ a b (fun hh => h hh.2.2)

/-- **Scalar multiple** (the code's `to_vector → * → from_vector(template = self)` path): every
block is scaled in place; key order, shapes, `D`, `is_torus` are kept. -/
theorem smul_get [Mul R] (a : MI R) (ha : a.WF) (s : R) :
    (smul a s).D = a.D ∧ (smul a s).torus = a.torus ∧ keys (smul a s) = keys a ∧
      ∀ t, get? (smul a s) t = (get? a t).map (Block.map (· * s)) := by
  rw [smul, fromVector_map _ a ha]
  refine ⟨rfl, rfl, ?_, fun t => get?_map_val _ _ t⟩
  simp [keys, Dict.keys, Function.comp_def]

/-- **Division** `a / s = a * (1/s)`: over a division ring every element is divided by `s`. -/
theorem div_get [DivisionRing R] (a : MI R) (ha : a.WF) (s : R) :
    keys (div a s) = keys a ∧ ∀ t, get? (div a s) t = (get? a t).map (Block.map (· / s)) := by
  obtain ⟨-, -, hk, hg⟩ := smul_get a ha (1 / s)
  refine ⟨hk, fun t => ?_⟩
  rw [div, hg]
  congr 2
  funext x
  exact mul_one_div x s

/-- `from_vector(a.to_vector(), a)` is `a` -/
theorem fromVector_toVector (a : MI R) (ha : a.WF) : fromVector (toVector a) a = a := by
  have := fromVector_map id a ha
  simp only [List.map_id] at this
  rw [this]
  have : a.data.map (fun kv => (kv.1, Block.map id kv.2)) = a.data := by
    conv_rhs => rw [← List.map_id a.data]
    apply List.map_congr_left
    intro kv _
    simp [Block.map]
  rw [this]

/-- **Equality test** = same `D`, flags, key *set*, and every block of `a` close to the block of
the same type of `b`. -/
theorem eq_iff_blockwise (close : R → R → Bool) (a b : MI R) :
    eq close a b = true ↔
      a.D = b.D ∧ a.torus = b.torus ∧ (∀ t, t ∈ keys a ↔ t ∈ keys b) ∧
        ∀ t ∈ keys a, ∃ x y, get? a t = some x ∧ get? b t = some y ∧ Block.allClose close x y = true := by
  simp only [eq, Bool.and_eq_true, beq_iff_eq, List.all_eq_true, Dict.keysEq_iff]
  constructor
  · rintro ⟨⟨⟨hD, hT⟩, hk⟩, hall⟩
    refine ⟨hD, hT, hk, fun t ht => ?_⟩
    have := hall t ht
    cases hx : get? a t <;> cases hy : get? b t <;> simp [hx, hy] at this
    exact ⟨_, _, rfl, rfl, this⟩
  · rintro ⟨hD, hT, hk, hall⟩
    refine ⟨⟨⟨hD, hT⟩, hk⟩, fun t ht => ?_⟩
    obtain ⟨x, y, hx, hy, hc⟩ := hall t ht
    simp [hx, hy, hc]

/-- the equality test does not see the storage order of either operand -/
theorem eq_order_independent (close : R → R → Bool) {a a' b b' : MI R} (ha : a.WF) (hb : b.WF)
    (pa : a.data.Perm a'.data) (pb : b.data.Perm b'.data)
    (hDa : a'.D = a.D) (hTa : a'.torus = a.torus) (hDb : b'.D = b.D) (hTb : b'.torus = b.torus) :
    eq close a' b' = eq close a b := by
  have hpa : ∀ t, t ∈ keys a' ↔ t ∈ keys a := fun t => ((pa.map _).mem_iff).symm
  have hpb : ∀ t, t ∈ keys b' ↔ t ∈ keys b := fun t => ((pb.map _).mem_iff).symm
  have hga : ∀ t, get? a' t = get? a t := fun t => (Dict.get?_perm ha.1 pa t).symm
  have hgb : ∀ t, get? b' t = get? b t := fun t => (Dict.get?_perm hb.1 pb t).symm
  rw [Bool.eq_iff_iff, eq_iff_blockwise, eq_iff_blockwise, hDa, hDb, hTa, hTb]
  simp only [hpa, hpb, hga, hgb]

/-- **Pytree round trip** (`jit`, `vmap`, `tree_map`, `tree_flatten`/`unflatten`): `D`, flags and
every block are preserved; the keys come back sorted. -/
theorem treeRoundtrip_get (a : MI R) (ha : a.WF) :
    (treeRoundtrip a).D = a.D ∧ (treeRoundtrip a).torus = a.torus ∧
      (∀ t, get? (treeRoundtrip a) t = get? a t) ∧ Dict.Sorted (treeRoundtrip a).data ∧
      (treeRoundtrip a).data.Perm a.data := by
  have hs := Dict.sortKeys_sorted a.data ha.1
  have he : Dict.ofItems (Dict.sortKeys a.data) = Dict.sortKeys a.data :=
    Dict.ofItems_of_nodup (Dict.sorted_nodup hs)
  refine ⟨rfl, rfl, fun t => ?_, ?_, ?_⟩
  · simp only [treeRoundtrip, new, get?, he]
    exact Dict.get?_perm (Dict.sorted_nodup hs) (Dict.sortKeys_perm a.data) t
  · simpa [treeRoundtrip, new, he] using hs
  · simpa [treeRoundtrip, new, he] using Dict.sortKeys_perm a.data

theorem treeRoundtrip_wf (a : MI R) (ha : a.WF) : (treeRoundtrip a).WF :=
  wf_perm ha (treeRoundtrip_get a ha).2.2.2.2.symm

end MI

/-! ### every construction history yields a well-formed dict -/

namespace MI
variable {R : Type}

theorem new_wf (D : Nat) (torus : List Bool) (items : List (Key × Block R))
    (h : ∀ kv ∈ items, kv.1.2 < 2) : (new D torus items).WF := by
  refine ⟨Dict.nodup_ofItems items, fun t ht => ?_⟩
  have := Dict.mem_keys_ofItems.mp ht
  simp only [List.mem_map] at this
  obtain ⟨kv, hkv, rfl⟩ := this
  exact h kv hkv

theorem setitem_wf (a : MI R) (ha : a.WF) (t : Key) (ht : t.2 < 2) (b : Block R) : (setitem a t b).WF := by
  refine ⟨Dict.nodup_set ha.1 t b, fun t' ht' => ?_⟩
  rcases Dict.mem_keys_set.mp ht' with rfl | h
  · exact ht
  · exact ha.2 t' h

theorem append_wf (a : MI R) (ha : a.WF) (k p : Nat) (b : Block R) (axis : Nat) (c : MI R)
    (h : append a k p b axis = some c) : c.WF := by
  have hlt : ((k, p % 2) : Key).2 < 2 := Nat.mod_lt _ (by decide)
  unfold append at h
  simp only at h
  split at h
  · simp at h
  · split at h
    · split at h
      · simp only [Option.some.injEq] at h; subst h; exact setitem_wf a ha _ hlt _
      · simp at h
    · simp only [Option.some.injEq] at h; subst h; exact setitem_wf a ha _ hlt _

theorem copy_eq (a : MI R) (ha : a.WF) : copy a = a := by
  simp [copy, new, Dict.ofItems_of_nodup ha.1]

theorem concat_wf (a other : MI R) (ha : a.WF) (axis : Nat) (c : MI R)
    (h : concat a other axis = some c) : c.WF := by
  unfold concat at h
  split at h
  · simp at h
  · have key : ∀ (l : List (Key × Block R)) (acc : Option (MI R)),
        (∀ m, acc = some m → m.WF) →
        ∀ c, l.foldl (fun acc kv => acc.bind (fun m => append m kv.1.1 kv.1.2 kv.2 axis)) acc = some c → c.WF := by
      intro l
      induction l with
      | nil => intro acc hacc c hc; exact hacc c hc
      | cons x xs ih =>
        intro acc hacc c hc
        refine ih _ ?_ c hc
        intro m hm
        cases acc with
        | none => simp at hm
        | some m0 => exact append_wf m0 (hacc m0 rfl) _ _ _ _ m hm
    exact key other.data (some (copy a)) (fun m hm => by
      simp only [Option.some.injEq] at hm; subst hm; rw [copy_eq a ha]; exact ha) c h

end MI

/-- a step whose explicit keys carry a parity in {0,1} (what the library's own code produces) -/
def Step.Normal {R : Type} : Step R → Prop
  | .setitem t _ => t.2 < 2
  | _ => True

theorem Step.run_wf {R : Type} (a : MI R) (ha : a.WF) (s : Step R) (hs : s.Normal) (c : MI R)
    (h : s.run a = some c) : c.WF := by
  cases s with
  | setitem t b => simp only [Step.run, Option.some.injEq] at h; subst h; exact MI.setitem_wf a ha t hs b
  | append k p b axis => exact MI.append_wf a ha k p b axis c h
  | concat items axis => exact MI.concat_wf a _ ha axis c h
  | copy => simp only [Step.run, Option.some.injEq] at h; subst h; rw [MI.copy_eq a ha]; exact ha
  | tree => simp only [Step.run, Option.some.injEq] at h; subst h; exact MI.treeRoundtrip_wf a ha
  | fromVector =>
    simp only [Step.run, Option.some.injEq] at h; subst h; rw [MI.fromVector_toVector a ha]; exact ha

/-- **Every history** (constructor, then any sequence of `__setitem__`, `append`, `concat`, `copy`,
pytree round trips, `from_vector`) that the code accepts ends in a well-formed dict, so
`add_get`, `sub_get`, `smul_get`, `div_get`, `treeRoundtrip_get` apply to every operand the
library can build. -/
theorem build_wf {R : Type} (D : Nat) (torus : List Bool) (items : List (Key × Block R))
    (steps : List (Step R)) (hi : ∀ kv ∈ items, kv.1.2 < 2) (hs : ∀ s ∈ steps, s.Normal)
    (c : MI R) (h : build D torus items steps = some c) : c.WF := by
  have key : ∀ (l : List (Step R)) (acc : Option (MI R)), (∀ s ∈ l, s.Normal) →
      (∀ m, acc = some m → m.WF) →
      ∀ c, l.foldl (fun acc s => acc.bind (fun a => s.run a)) acc = some c → c.WF := by
    intro l
    induction l with
    | nil => intro acc _ hacc c hc; exact hacc c hc
    | cons x xs ih =>
      intro acc hl hacc c hc
      refine ih _ (fun s hs' => hl s (List.mem_cons_of_mem _ hs')) ?_ c hc
      intro m hm
      cases acc with
      | none => simp at hm
      | some m0 => exact Step.run_wf m0 (hacc m0 rfl) x (hl x (List.mem_cons_self ..)) m hm
  exact key steps _ hs (fun m hm => by
    simp only [Option.some.injEq] at hm; subst hm; exact MI.new_wf D torus items hi) c h

/-! ### the defect of the unrepaired tree (D7) and non-vacuity -/

section Examples

def exA : MI Int := MI.new 2 [true, true] [((0, 0), ⟨[1], [1]⟩), ((0, 1), ⟨[1], [10]⟩)]
def exB : MI Int := MI.new 2 [true, true] [((0, 1), ⟨[1], [200]⟩), ((0, 0), ⟨[1], [3]⟩)]

/-- D7: same key set, different insertion order: the positional formula returns
`(a+b)[(0,0)] = 201` instead of `4`, while the repaired one is blockwise. -/
theorem add_legacy_counterexample :
    (MI.addLegacy exA exB).bind (fun c => MI.get? c (0, 0)) = some ⟨[1], [201]⟩ ∧
    MI.specGet (· + ·) exA exB (0, 0) = some ⟨[1], [4]⟩ ∧
    (MI.add exA exB).bind (fun c => MI.get? c (0, 0)) = some ⟨[1], [4]⟩ := by
  decide

theorem sub_legacy_counterexample :
    (MI.subLegacy exA exB).bind (fun c => MI.get? c (0, 0)) = some ⟨[1], [-199]⟩ ∧
    MI.specGet (· - ·) exA exB (0, 0) = some ⟨[1], [-2]⟩ := by
  decide

/-- a multi-image **without leading axes** holding two types -/
def exZ : MI Int :=
  MI.new 2 [true, true] [((0, 0), ⟨[2, 2], [1, 2, 3, 4]⟩), ((1, 0), ⟨[2, 2, 2], [1, 2, 3, 4, 5, 6, 7, 8]⟩)]

/-- D11 (repaired upstream in ce476a6, found independently here): before that commit `from_vector` (hence `a*s`, `a/s`, `a+b`, `a-b`) refuses every
multi-image with no leading axis and more than one type, because `append` asserts
`axis < n_leading` even when it only stores a new type; the repaired `append` stores it. -/
theorem smul_legacy_counterexample_no_leading_axes :
    MI.smulLegacy exZ 2 = none ∧
    MI.get? (MI.smul exZ 2) (0, 0) = some ⟨[2, 2], [2, 4, 6, 8]⟩ ∧
    (MI.add exZ exZ).bind (fun c => MI.get? c (0, 0)) = some ⟨[2, 2], [2, 4, 6, 8]⟩ := by
  decide

theorem exA_wf : exA.WF := MI.new_wf _ _ _ (by decide)
theorem exB_wf : exB.WF := MI.new_wf _ _ _ (by decide)

/-- non-vacuity of `add_get` / `sub_get`: hypotheses hold for operands in *different* orders -/
example : ∃ c, MI.add exA exB = some c ∧ MI.keys c = MI.keys exA ∧
    ∀ t, MI.get? c t = MI.specGet (· + ·) exA exB t := by
  obtain ⟨c, h1, -, -, h2, h3⟩ := MI.add_get exA exB exA_wf rfl rfl ((Dict.keysEq_iff _ _).mp (by decide))
  exact ⟨c, h1, h2, h3⟩
example : MI.keys exA ≠ MI.keys exB := by decide
example : ∃ c, MI.sub exA exB = some c ∧ ∀ t, MI.get? c t = MI.specGet (· - ·) exA exB t := by
  obtain ⟨c, h1, -, -, -, h3⟩ := MI.sub_get exA exB exA_wf rfl rfl ((Dict.keysEq_iff _ _).mp (by decide))
  exact ⟨c, h1, h3⟩
/-- non-vacuity of order independence: `exB` re-ordered is a permutation, not the same list -/
example : exB.data.Perm (MI.treeRoundtrip exB).data ∧ exB.data ≠ (MI.treeRoundtrip exB).data :=
  ⟨(MI.treeRoundtrip_get exB exB_wf).2.2.2.2.symm, by decide⟩
/-- non-vacuity of the rejection theorem -/
example : MI.add exA (MI.new 2 [true, true] [((0, 0), ⟨[1], [3]⟩)]) = none :=
  MI.add_rejects_keyset_mismatch _ _ (fun h => absurd ((Dict.keysEq_iff _ _).mpr h) (by decide))
/-- non-vacuity of `smul_get` / `div_get` -/
example : MI.get? (MI.smul exA 3) (0, 1) = some ⟨[1], [30]⟩ := by decide
example : MI.get? (MI.div (MI.new 2 [true, true] [((0, 0), (⟨[2], [1, 3]⟩ : Block Rat))]) 2) (0, 0)
    = some ⟨[2], [1 / 2, 3 / 2]⟩ := by
  have hw : (MI.new 2 [true, true] [((0, 0), (⟨[2], [1, 3]⟩ : Block Rat))]).WF := MI.new_wf _ _ _ (by decide)
  rw [(MI.div_get (MI.new 2 [true, true] [((0, 0), (⟨[2], [1, 3]⟩ : Block Rat))]) hw 2).2]
  simp [MI.get?, MI.new, Dict.ofItems, Dict.set, Dict.get?, Block.map]
/-- non-vacuity of `fromVector_toVector` on an operand whose order is not the sorted one -/
example : MI.fromVector (MI.toVector exB) exB = exB := MI.fromVector_toVector exB exB_wf
/-- non-vacuity of `eq_iff_blockwise`: true across orders, false on a changed block -/
example : MI.eq (fun x y : Int => x == y) exB (MI.treeRoundtrip exB) = true := by decide
example : MI.eq (fun x y : Int => x == y) exA exB = false := by decide
/-- non-vacuity of `treeRoundtrip_get`: the order really changes -/
example : MI.keys (MI.treeRoundtrip exB) = [(0, 0), (0, 1)] ∧ MI.keys exB = [(0, 1), (0, 0)] := by decide
/-- non-vacuity of `build_wf`: a history mixing all step kinds is accepted -/
example : (build 2 [true, true] [((0, 1), (⟨[1, 2, 2], [1, 2, 3, 4]⟩ : Block Int))]
    [.append 0 0 ⟨[1, 2, 2], [5, 6, 7, 8]⟩ 0, .append 0 3 ⟨[1, 2, 2], [9, 9, 9, 9]⟩ 0, .tree, .copy,
     .fromVector, .concat [((0, 0), ⟨[1, 2, 2], [0, 0, 0, 1]⟩)] 0, .setitem (1, 0) ⟨[1, 2, 2, 2], [1, 2, 3, 4, 5, 6, 7, 8]⟩]).isSome
    = true := by decide

end Examples

end GinjaxVerif.C12
