import GinjaxVerif.Lemmas.C16Rollout

/-!
# C16 — property theorems: the autoregressive rollout feeds each prediction back correctly

Everything is stated for an arbitrary key type `κ` (the `(k, parity)` pairs), an arbitrary frame
type `α` (whatever sits behind the channel axis), an arbitrary auxiliary-state type `σ`, **every**
model `f : MI κ α → σ → MI κ α × σ`, every number of steps `n`, every `past_steps ≥ 1`, every
number and insertion order of tensor types, every channel and constant-field count.

Hypotheses (`InputOK`, `PredFits` / `PredOK`, `SigFits`) are the shape conditions under which the
Python does not raise: distinct keys, non-empty blocks, `past_steps ≥ 1` divides the dynamic part,
the prediction is a dict of non-empty blocks with one frame per dynamic channel.  (That inputs
violating them are rejected by code and model alike is exercised by the malformed stream of the
correspondence run, and by the `= none` examples at the end.)
-/
namespace GinjaxVerif.C16

set_option linter.unusedSectionVars false
set_option linter.unusedSimpArgs false
set_option linter.unusedVariables false

variable {κ : Type} [DecidableEq κ] {α σ : Type}

/-! ## one step -/

/-- The code's `autoregressive_step` computes the specification's sliding-window update. -/
theorem step_eq_spec {past : Nat} {consts : List (κ × Nat)} {x pred : MI κ α}
    (hx : InputOK past consts x) (hp : PredFits past consts x pred) :
    autoregressiveStep past consts x pred = some (specStep past consts x pred) :=
  step_eq_spec' hx hp

/-- Key order, block lengths and well-formedness are preserved, so the step can be iterated. -/
theorem step_keys {past : Nat} {consts : List (κ × Nat)} {x pred : MI κ α}
    (hx : InputOK past consts x) (hp : PredFits past consts x pred) :
    ∃ y, autoregressiveStep past consts x pred = some y ∧ keys y = keys x ∧ sig y = sig x ∧
      InputOK past consts y := by
  have hs := sig_specStep hx hp
  exact ⟨_, step_eq_spec hx hp, keys_eq_of_sig hs, hs, inputOK_of_sig hs hx⟩

/-- **The sliding window, entry by entry.**  For every type `k` of the input with block `old`
laid out as `c` windows of `past` frames followed by `m` constants
(`c * past + m = old.length`), the new block has the same length, sits at the same position of
the dict, and
* window `i`, position `j < past - 1` holds the old position `j + 1` (oldest dropped),
* window `i`, position `past - 1` holds the prediction for channel `i` (newest appended),
* every constant is where it was. -/
theorem step_window {past : Nat} {consts : List (κ × Nat)} {x pred : MI κ α}
    (hx : InputOK past consts x) (hp : PredFits past consts x pred) :
    ∃ y, autoregressiveStep past consts x pred = some y ∧ keys y = keys x ∧
      ∀ k old, (k, old) ∈ x →
        nChan past consts (k, old) * past + constSize consts k = old.length ∧
        ∃ new, y.lookup k = some new ∧ new.length = old.length ∧
          (∀ i < nChan past consts (k, old), ∀ j < past,
            new[i * past + j]? =
              if j + 1 < past then old[i * past + j + 1]? else (pred.lookup k).bind (·[i]?)) ∧
          (∀ j < constSize consts k,
            new[nChan past consts (k, old) * past + j]?
              = old[nChan past consts (k, old) * past + j]?) := by
  refine ⟨_, step_eq_spec hx hp, keys_eq_of_sig (sig_specStep hx hp), ?_⟩
  intro k old hmem
  obtain ⟨h0, hle, hdiv⟩ := hx.2.2 (k, old) hmem
  simp only at h0 hle hdiv
  have hc : (old.length - constSize consts k) / past * past = old.length - constSize consts k :=
    Nat.div_mul_cancel (Nat.dvd_of_mod_eq_zero hdiv)
  refine ⟨by simp only [nChan]; omega, ?_⟩
  refine ⟨specBlock past (constSize consts k) old ((pred.lookup k).getD []), ?_, ?_⟩
  · simp only [specStep]
    rw [lookup_map_snd (fun k b => specBlock past (constSize consts k) b ((pred.lookup k).getD [])),
      lookup_of_mem hx.2.1 hmem]
    rfl
  · by_cases hd : HasDyn consts (k, old)
    · obtain ⟨p, hpk, hpl⟩ := hp.2.2 (k, old) hmem hd
      simp only at hpk
      have := specBlock_spec (p := p) hx.1 hle hdiv (by rw [hpl]; simp only [nChan]; omega)
      simp only [hpk, Option.getD_some, Option.bind_some, nChan]
      exact this
    · have hm : constSize consts k = old.length := by unfold HasDyn at hd; simp only at hd; omega
      have hn : nChan past consts (k, old) = 0 := by
        simp only [nChan, hm, Nat.sub_self, Nat.zero_div]
      rw [specBlock_constOnly _ _ _ _ hm, hn]
      refine ⟨rfl, fun i hi => absurd hi (by omega), fun j _ => rfl⟩

/-! ## the rollout -/

/-- along the explicit iteration the layout of the input never changes -/
theorem iterate_sig (f : MI κ α → σ → MI κ α × σ) {past : Nat} {consts : List (κ × Nat)}
    {x : MI κ α} (s : σ) {osig : κ → Option Nat} (hx : InputOK past consts x)
    (hpos : ∀ k c, osig k = some c → 0 < c) (hfit : SigFits past consts (sig x) osig) :
    ∀ t, (∀ u < t, PredOK osig (predAt f past consts x s u)) →
      sig (iterate f past consts x s t).1 = sig x := by
  intro t
  induction t with
  | zero => intro _; rfl
  | succ t ih =>
    intro hp
    have ih' := ih (fun u hu => hp u (by omega))
    have h1 : InputOK past consts (iterate f past consts x s t).1 := inputOK_of_sig ih' hx
    have h2 : PredFits past consts (iterate f past consts x s t).1 (predAt f past consts x s t) :=
      predFits_of (hp t (by omega)) hpos (by rw [ih']; exact hfit)
    have := sig_specStep h1 h2
    rw [← ih', ← this]
    rfl

/-- loop invariant of `autoregressive_map`: started in the state of the explicit iteration after
`t` steps, `n` more turns of the loop arrive in its state after `t + n` steps -/
theorem mapLoop_eq (f : MI κ α → σ → MI κ α × σ) {past : Nat} {consts : List (κ × Nat)}
    {x : MI κ α} (s : σ) {osig : κ → Option Nat} (hx : InputOK past consts x)
    (hpos : ∀ k c, osig k = some c → 0 < c) (hfit : SigFits past consts (sig x) osig) :
    ∀ n t, (∀ u < t + n, PredOK osig (predAt f past consts x s u)) →
      mapLoop f past consts n (iterate f past consts x s t).1 (iterate f past consts x s t).2
          (rowsAt (predAt f past consts x s) t)
        = some (rowsAt (predAt f past consts x s) (t + n), (iterate f past consts x s (t + n)).2) := by
  intro n
  induction n with
  | zero => intro t _; rfl
  | succ n ih =>
    intro t hp
    have hs := iterate_sig f s hx hpos hfit t (fun u hu => hp u (by omega))
    have h1 : InputOK past consts (iterate f past consts x s t).1 := inputOK_of_sig hs hx
    have hpt : PredOK osig (predAt f past consts x s t) := hp t (by omega)
    have h2 : PredFits past consts (iterate f past consts x s t).1 (predAt f past consts x s t) :=
      predFits_of hpt hpos (by rw [hs]; exact hfit)
    have hstep := step_eq_spec h1 h2
    have hexp := expandMI_one h2.1 h2.2.1
    have hcat := concat_rowsAt (predAt f past consts x s) t (hp 0 (by omega)) hpt
    have hnext := ih (t + 1) (fun u hu => hp u (by omega))
    have e : t + (n + 1) = t + 1 + n := by omega
    rw [e, ← hnext]
    simp only [predAt] at hstep hexp hcat
    rw [mapLoop]
    simp only [hstep, hexp, hcat]
    rfl

/-- **The rollout equals `n` explicit applications of the model with the sliding-window update**,
for every model `f`, every `n`, and returns the auxiliary state of the last application.  The
result holds, for every type, the `n` predictions in time order per channel (`specRollout`,
spelled out by `rollout_entries`). -/
theorem rollout_eq_iterate (f : MI κ α → σ → MI κ α × σ) {past : Nat} {consts : List (κ × Nat)}
    {x : MI κ α} (s : σ) (n : Nat) {osig : κ → Option Nat} (hx : InputOK past consts x)
    (hpos : ∀ k c, osig k = some c → 0 < c) (hfit : SigFits past consts (sig x) osig)
    (hp : ∀ t < n, PredOK osig (predAt f past consts x s t)) :
    autoregressiveMap f past consts x s n
      = some (specRollout (predAt f past consts x s) n, (iterate f past consts x s n).2) := by
  have h := mapLoop_eq f s hx hpos hfit n 0 (by simpa using hp)
  rw [Nat.zero_add] at h
  change mapLoop f past consts n x s [] = _ at h
  unfold autoregressiveMap
  rw [h]
  simp only
  rw [combine_rowsAt _ n (fun hn => (hp 0 hn).1)]

/-- The same for every model that is *well typed*: it maps every input with the layout of `x` to a
prediction with the output signature `osig` (whatever the values, whatever the key order). -/
theorem rollout_eq_iterate_of_wellTyped (f : MI κ α → σ → MI κ α × σ) {past : Nat}
    {consts : List (κ × Nat)} {x : MI κ α} (s : σ) (n : Nat) {osig : κ → Option Nat}
    (hx : InputOK past consts x) (hpos : ∀ k c, osig k = some c → 0 < c)
    (hfit : SigFits past consts (sig x) osig)
    (hf : ∀ (y : MI κ α) (s' : σ), sig y = sig x → PredOK osig (f y s').1) :
    autoregressiveMap f past consts x s n
      = some (specRollout (predAt f past consts x s) n, (iterate f past consts x s n).2) := by
  have hall : ∀ t, PredOK osig (predAt f past consts x s t) := by
    intro t
    induction t using Nat.strongRecOn with
    | _ t ih => exact hf _ _ (iterate_sig f s hx hpos hfit t ih)
  exact rollout_eq_iterate f s n hx hpos hfit (fun t _ => hall t)

theorem filterMap_range_all_some (φ : Nat → Option α) :
    ∀ N, (∀ t < N, ∃ a, φ t = some a) →
      ((List.range N).filterMap φ).length = N ∧
      ∀ t < N, ((List.range N).filterMap φ)[t]? = φ t := by
  intro N
  induction N with
  | zero => intro _; simp
  | succ N ih =>
    intro h
    obtain ⟨ihl, ihg⟩ := ih (fun t ht => h t (by omega))
    obtain ⟨a, ha⟩ := h N (by omega)
    rw [List.range_succ, List.filterMap_append, filterMap_singleton, ha]
    refine ⟨by simp [ihl], ?_⟩
    intro t ht
    by_cases htN : t < N
    · rw [List.getElem?_append_left (by omega)]; exact ihg t htN
    · have : t = N := by omega
      subst this
      rw [List.getElem?_append_right (by omega), ihl, ha]
      simp

/-- **What the rollout contains, entry by entry**: the types of the prediction (in the order of
the first prediction), and for a type with `c` channels a block of `c * n` frames in which entry
`i * n + t` is channel `i` of the prediction of step `t` (channel-major, time-minor). -/
theorem rollout_entries (preds : Nat → MI κ α) (n : Nat) {osig : κ → Option Nat}
    (hp : ∀ t < n, PredOK osig (preds t)) (hn : 0 < n) :
    keys (specRollout preds n) = keys (preds 0) ∧
    ∀ k c, osig k = some c →
      ∃ blk, (specRollout preds n).lookup k = some blk ∧ blk.length = c * n ∧
        ∀ i < c, ∀ t < n, ∃ a, blk[i * n + t]? = some a ∧ ((preds t).lookup k).bind (·[i]?) = some a := by
  obtain ⟨m, rfl⟩ : ∃ m, n = m + 1 := ⟨n - 1, by omega⟩
  refine ⟨?_, ?_⟩
  · simp only [specRollout]
    exact keys_map_snd (fun (kb : κ × List α) => (specRows preds (m + 1) kb.1 kb.2.length).flatten) _
  · intro k c hk
    have h0 := (hp 0 (by omega)).2 k
    rw [hk] at h0
    cases hl0 : List.lookup k (preds 0) with
    | none => rw [hl0] at h0; cases h0
    | some b0 =>
      rw [hl0] at h0
      simp only [Option.map_some, Option.some.injEq] at h0
      -- every prediction has a block of `c` frames for `k`
      have hall : ∀ i < c, ∀ t < m + 1, ∃ a, ((preds t).lookup k).bind (·[i]?) = some a := by
        intro i hi t ht
        have h1 := (hp t ht).2 k
        rw [hk] at h1
        cases hlt : List.lookup k (preds t) with
        | none => rw [hlt] at h1; cases h1
        | some bt =>
          rw [hlt] at h1
          simp only [Option.map_some, Option.some.injEq] at h1
          exact ⟨bt[i], by simp only [Option.bind_some]; exact List.getElem?_eq_getElem (by omega)⟩
      let g : Nat → List α := fun i =>
        (List.range (m + 1)).filterMap fun t => ((preds t).lookup k).bind (·[i]?)
      have hrow : ∀ i < c, (g i).length = m + 1 := fun i hi =>
        (filterMap_range_all_some _ (m + 1) (hall i hi)).1
      obtain ⟨hlen, hget⟩ := flatMap_range_const g (m + 1) c hrow
      refine ⟨(List.range c).flatMap g, ?_, hlen, ?_⟩
      · simp only [specRollout]
        rw [lookup_map_snd (fun (k : κ) (b : List α) => (specRows preds (m + 1) k b.length).flatten),
          hl0]
        simp only [Option.map_some, specRows, h0, g, List.flatMap_def]
      · intro i hi t ht
        obtain ⟨a, ha⟩ := hall i hi t ht
        refine ⟨a, ?_, ha⟩
        rw [hget i hi t ht, ← ha]
        exact (filterMap_range_all_some _ (m + 1) (hall i hi)).2 t ht

/-- every type of the rollout has `channels * n` frames -/
theorem rollout_length (f : MI κ α → σ → MI κ α × σ) {past : Nat} {consts : List (κ × Nat)}
    {x : MI κ α} (s : σ) (n : Nat) {osig : κ → Option Nat} (hx : InputOK past consts x)
    (hpos : ∀ k c, osig k = some c → 0 < c) (hfit : SigFits past consts (sig x) osig)
    (hp : ∀ t < n, PredOK osig (predAt f past consts x s t)) :
    ∃ out s', autoregressiveMap f past consts x s n = some (out, s') ∧
      (n = 0 → out = []) ∧
      (0 < n → ∀ k c, osig k = some c → ∃ blk, out.lookup k = some blk ∧ blk.length = c * n) := by
  refine ⟨_, _, rollout_eq_iterate f s n hx hpos hfit hp, ?_, ?_⟩
  · intro h0; subst h0; rfl
  · intro hn k c hk
    obtain ⟨blk, h1, h2, _⟩ := (rollout_entries _ n hp hn).2 k c hk
    exact ⟨blk, h1, h2⟩

/-! ## Non-vacuity: concrete inputs that meet the hypotheses

Two types: key 0 with 2 dynamic channels × 2 past steps + 1 constant, key 1 constant-only (2
frames), key 2 without constants (1 channel × 2 steps); frames are numbers. -/

section Examples

def exConsts : List (Nat × Nat) := [(0, 1), (1, 2)]
def exX : MI Nat Nat := [(1, [70, 71]), (0, [10, 11, 20, 21, 99]), (2, [30, 31])]
def exPred : MI Nat Nat := [(2, [32]), (0, [12, 22])]

/-- history-sensitive model: weights 1, 10 on the window positions, 1000 on the constant, state
counts the calls; prediction keys in an order different from the input's -/
def exF (x : MI Nat Nat) (s : Nat) : MI Nat Nat × Nat :=
  let a := (x.lookup 0).getD []
  let b := (x.lookup 2).getD []
  ([(2, [b.getD 0 0 + 10 * b.getD 1 0 + s]),
    (0, [a.getD 0 0 + 10 * a.getD 1 0 + 1000 * a.getD 4 0, a.getD 2 0 + 10 * a.getD 3 0 + s])],
   s + 1)

def exOsig (k : Nat) : Option Nat := if k = 0 then some 2 else if k = 2 then some 1 else none

example : InputOK 2 exConsts exX := by
  refine ⟨by decide, by decide, ?_⟩
  intro kb h
  simp only [exX, List.mem_cons, List.not_mem_nil, or_false] at h
  rcases h with rfl | rfl | rfl <;> decide

example : PredFits 2 exConsts exX exPred := by
  refine ⟨by decide, ?_, ?_⟩
  · intro kb h
    simp only [exPred, List.mem_cons, List.not_mem_nil, or_false] at h
    rcases h with rfl | rfl <;> decide
  · intro kb h hd
    simp only [exX, List.mem_cons, List.not_mem_nil, or_false] at h
    rcases h with rfl | rfl | rfl
    · exact absurd hd (by unfold HasDyn; decide)
    · exact ⟨[12, 22], by decide, by decide⟩
    · exact ⟨[32], by decide, by decide⟩

example : autoregressiveStep 2 exConsts exX exPred
    = some [(1, [70, 71]), (0, [11, 12, 21, 22, 99]), (2, [31, 32])] := by decide

example : specStep 2 exConsts exX exPred
    = [(1, [70, 71]), (0, [11, 12, 21, 22, 99]), (2, [31, 32])] := by decide

example : SigFits 2 exConsts (sig exX) exOsig := by
  intro kl h hd
  simp only [sig, exX, List.map_cons, List.map_nil, List.mem_cons, List.not_mem_nil, or_false] at h
  rcases h with rfl | rfl | rfl
  · exact absurd hd (by decide)
  · decide
  · decide

example : ∀ t < 3, PredOK exOsig (predAt exF 2 exConsts exX 0 t) := by
  intro t ht
  have : t = 0 ∨ t = 1 ∨ t = 2 := by omega
  rcases this with rfl | rfl | rfl <;>
  · refine ⟨by decide, ?_⟩
    intro k
    by_cases h0 : k = 0
    · subst h0; decide
    · by_cases h2 : k = 2
      · subst h2; decide
      · have e : exOsig k = none := by simp [exOsig, h0, h2]
        rw [e]
        simp only [predAt, exF, lookup_cons_ite, if_neg (Ne.symm h0), if_neg (Ne.symm h2)]
        rfl

example : autoregressiveMap exF 2 exConsts exX 0 3
    = some ([(2, [340, 3432, 34662]), (0, [99120, 1090211, 11100230, 230, 2322, 23452])], 3) := by decide

example : specRollout (predAt exF 2 exConsts exX 0) 3
    = [(2, [340, 3432, 34662]), (0, [99120, 1090211, 11100230, 230, 2322, 23452])] := by decide

-- the code rejects: a prediction without the dynamic type 2, a wrong channel count, a
-- non-dividing past_steps, too many constants, future_steps ≠ 1
example : autoregressiveStep 2 exConsts exX [(0, [12, 22])] = none := by decide
example : autoregressiveStep 2 exConsts exX [(2, [32]), (0, [12, 22, 5])] = none := by decide
example : autoregressiveStep 3 exConsts exX exPred = none := by decide
example : autoregressiveStep 2 [(0, 6)] exX exPred = none := by decide
example : autoregressiveStep 2 exConsts exX exPred 2 = none := by decide

end Examples

end GinjaxVerif.C16
