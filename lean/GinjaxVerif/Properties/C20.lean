import GinjaxVerif.Lemmas.C20UNet
/-!
# C20 — every model maps its input signature to exactly its requested output signature

Property theorems about the signature calculus of `Model/C20.lean` (helper lemmas in
`Lemmas/C20Layer.lean`, `C20Layout.lean`, `C20Net.lean`, `C20UNet.lean`).  Everything is unbounded:
∀ signatures, banks, depth, block counts, `num_conv`, number of levels, `d ∈ {2,3}`, flags, extents,
bias settings, activation on/off, group norm on/off, kernel sizes.  Core Lean only.

* layer: `layer_returns_spec`, `convContractOut_order`, `convContractOut_mem`, `layer_no_drop`,
  `convContractOut_full_bank`, and the legacy counterexamples `layer_legacy_drops_scalar_mode`,
  `layer_legacy_empty_true_mode`, `layer_legacy_order_counterexample` (defects D6, D10);
* models: `model_outSig_{unet,resnet,dilresnet}_{equivariant,conventional}`, `model_outSig_order`,
  `model_outSig_full_bank`, `defaultMid_keys`;
* extents and re-layouts: `unet_extent_roundtrip`, `unet_extent_roundtrip_conventional`,
  `convExtent_same`, `concatSig_midAt` (skip doubling), `toScalar_sig`, `fromScalar_layout`,
  `fromScalar_toScalar_positions`, `toScalarPos_lt` (in the Lemmas files, same namespace).
-/
namespace GinjaxVerif.C20

/-! ## The layer -/

/-- **The repaired layer returns the spec** for every bias setting, bank, declared/actual input and
target list with distinct keys: requested targets reachable through the bank, requested order,
requested channel counts. -/
theorem layer_returns_spec (bank : Bank) (target : Sig) (hn : KeysNodup target) (bias : BiasMode)
    (x : Sig) : convContractSig bank target bias (keysOf x) = convContractOut bank x target :=
  convContractSig_eq_out bank target hn bias x

/-- the output is a subsequence of the requested list: requested order, requested channel counts -/
theorem convContractOut_order (bank : Bank) (x target : Sig) :
    (convContractOut bank x target).Sublist target := by
  unfold convContractOut; exact List.filter_sublist

/-- exactly the requested blocks whose type is reachable -/
theorem convContractOut_mem (bank : Bank) (x target : Sig) (b : Ty × Nat) :
    b ∈ convContractOut bank x target ↔
      b ∈ target ∧ ∃ s ∈ keysOf x, filterKey s b.1 ∈ bank.keys := by
  rw [mem_convContractOut, reachable_iff]

/-- **no reachable requested block is dropped, for all five bias settings** (after D6, D10) -/
theorem layer_no_drop (bank : Bank) (target : Sig) (hn : KeysNodup target) (x : Sig) (b : Ty × Nat)
    (hb : b ∈ target) (hr : reachable bank (keysOf x) b.1 = true) :
    b ∈ convContractSig bank target .auto (keysOf x) ∧ b ∈ convContractSig bank target .mean (keysOf x) ∧
    b ∈ convContractSig bank target .scalar (keysOf x) ∧ b ∈ convContractSig bank target .true_ (keysOf x) ∧
    b ∈ convContractSig bank target .false_ (keysOf x) := by
  simp only [convContractSig_eq_out bank target hn]
  have := (mem_convContractOut bank x target b).2 ⟨hb, hr⟩
  exact ⟨this, this, this, this, this⟩

/-- the bias loop of the repaired code keeps every block, whatever the setting -/
theorem bias_keeps_every_block (m : BiasMode) (sig : Sig) : biasOut biasBranch m sig = sig :=
  biasOut_repaired m sig

/-- a bank is *full* for tensor orders up to `K` when it has a filter of every type `(k,p)` with
`k ≤ 2K` -/
def FullBank (bank : Bank) (K : Nat) : Prop := ∀ k p, k ≤ 2 * K → p < 2 → (k, p) ∈ bank.keys

/-- a well-formed type of order at most `K` -/
def TyOk (K : Nat) (t : Ty) : Prop := t.1 ≤ K ∧ t.2 < 2

theorem reachable_full_bank (bank : Bank) (K : Nat) (hb : FullBank bank K) (ins : List Ty)
    (hne : ins ≠ []) (hin : ∀ s ∈ ins, TyOk K s) (t : Ty) (ht : TyOk K t) :
    reachable bank ins t = true := by
  cases ins with
  | nil => exact absurd rfl hne
  | cons s rest =>
    rw [reachable_iff]
    refine ⟨s, by simp, ?_⟩
    have hs := hin s (by simp)
    unfold filterKey
    exact hb _ _ (by have := hs.1; have := ht.1; omega) (Nat.mod_lt _ (by omega))

/-- with a full bank the layer returns exactly the requested signature -/
theorem convContractOut_full_bank (bank : Bank) (K : Nat) (hb : FullBank bank K) (x target : Sig)
    (hne : x ≠ []) (hx : ∀ s ∈ keysOf x, TyOk K s) (ht : ∀ t ∈ keysOf target, TyOk K t) :
    convContractOut bank x target = target := by
  apply convContractOut_eq_self
  intro b hb'
  exact reachable_full_bank bank K hb _ (by simpa [keysOf] using hne) hx _ (ht _ (List.mem_map_of_mem hb'))

/-! ### the unrepaired layer (defects D6 and D10), on the confirmed witnesses -/

/-- the M = 3, d = 2 bank of the tests: no `(0,1)` filter -/
def bankD2M3 : Bank := ⟨[(0, 0), (1, 0), (1, 1), (2, 0), (2, 1)], 3⟩

/-- D6: `use_bias="scalar"` returned only the `(0,0)` block -/
theorem layer_legacy_drops_scalar_mode :
    legacyConvContractSig bankD2M3 [((1, 0), 3), ((0, 0), 1)] .scalar [(0, 0), (1, 0)] = [((0, 0), 1)] ∧
    convContractSig bankD2M3 [((1, 0), 3), ((0, 0), 1)] .scalar [(0, 0), (1, 0)] =
      [((1, 0), 3), ((0, 0), 1)] := by decide

/-- D6: `use_bias=True` returned an empty MultiImage (`True` was stored, never equal to "auto") -/
theorem layer_legacy_empty_true_mode :
    legacyConvContractSig bankD2M3 [((1, 0), 3), ((0, 0), 1)] .true_ [(0, 0), (1, 0)] = [] ∧
    convContractSig bankD2M3 [((1, 0), 3), ((0, 0), 1)] .true_ [(0, 0), (1, 0)] =
      [((1, 0), 3), ((0, 0), 1)] := by decide

/-- D10: blocks came out in order of first contribution, not in the requested order -/
theorem layer_legacy_order_counterexample :
    legacyConvContractSig bankD2M3 [((0, 1), 1), ((0, 0), 2)] .auto [(0, 0), (1, 0)] =
      [((0, 0), 2), ((0, 1), 1)] ∧
    convContractSig bankD2M3 [((0, 1), 1), ((0, 0), 2)] .auto [(0, 0), (1, 0)] =
      [((0, 1), 1), ((0, 0), 2)] := by decide

/-! ## `signature_union` / default `mid_keys` -/

theorem dedupKeys_spec (l acc : List Ty) (ha : acc.Nodup) :
    (dedupKeys acc l).Nodup ∧ ∀ t, t ∈ dedupKeys acc l ↔ t ∈ acc ∨ t ∈ l := by
  induction l generalizing acc with
  | nil => simp [dedupKeys, ha]
  | cons a l ih =>
    unfold dedupKeys
    by_cases h : acc.contains a = true
    · simp only [h, if_true]
      refine ⟨(ih acc ha).1, fun t => ?_⟩
      rw [(ih acc ha).2]
      have : a ∈ acc := by simpa using h
      constructor
      · rintro (h | h) <;> simp [h]
      · rintro (h | h)
        · exact Or.inl h
        · rcases List.mem_cons.1 h with rfl | h
          · exact Or.inl this
          · exact Or.inr h
    · have hf : acc.contains a = false := by simpa using h
      simp only [hf, Bool.false_eq_true, if_false]
      have hna : a ∉ acc := by simpa using h
      have ha' : (acc ++ [a]).Nodup := by
        rw [List.nodup_append]
        refine ⟨ha, by simp, ?_⟩
        intro x hx y hy; simp at hy; subst hy; intro hxy; subst hxy; exact hna hx
      refine ⟨(ih _ ha').1, fun t => ?_⟩
      rw [(ih _ ha').2]
      simp [or_assoc]

/-- the default `mid_keys` of the equivariant models: distinct keys, exactly the types of the
input and output signatures, `depth` channels each (whatever order the Python set yields) -/
theorem defaultMid_keys (D : Nat) (a b : Sig) (depth : Nat) :
    KeysNodup (defaultMid D a b depth true) ∧
    (∀ t, t ∈ keysOf (defaultMid D a b depth true) ↔ t ∈ keysOf a ∨ t ∈ keysOf b) ∧
    (∀ e ∈ defaultMid D a b depth true, e.2 = depth) := by
  have h := dedupKeys_spec (keysOf a ++ keysOf b) [] (by simp)
  have hk : keysOf (defaultMid D a b depth true) = dedupKeys [] (keysOf a ++ keysOf b) := by
    simp [defaultMid, sigUnion, keysOf, List.map_map, Function.comp_def]
  refine ⟨?_, ?_, ?_⟩
  · unfold KeysNodup; rw [hk]; exact h.1
  · intro t; rw [hk, h.2]; simp
  · intro e he
    simp only [defaultMid, sigUnion, if_true, List.mem_map] at he
    obtain ⟨t, _, rfl⟩ := he; rfl

/-! ## The models -/

/-- the predicted signature is an in-order part of the requested one (requested channel counts);
in conventional mode it is the requested signature itself -/
theorem model_outSig_order (c : NetCfg) : (expectedSig c).Sublist c.outSig := by
  unfold expectedSig
  split
  · exact convContractOut_order _ _ _
  · exact List.Sublist.refl _

/-- …and it consists of exactly the requested blocks whose type is reachable from a mid type
through the bank (the final layer; `NetGood` says every mid type is produced) -/
theorem model_outSig_mem (c : NetCfg) (he : c.equivariant = true) (b : Ty × Nat) :
    b ∈ expectedSig c ↔ b ∈ c.outSig ∧ ∃ s ∈ keysOf c.mid, filterKey s b.1 ∈ c.bank.keys := by
  simp only [expectedSig, he, if_true]; exact convContractOut_mem _ _ _ _

section
variable (c : NetCfg) (x : MI)

/-- the call is made on an input with the declared signature, the model's `D`, and extents / flags
of length `D` -/
def Declared (c : NetCfg) (x : MI) : Prop :=
  x.sig = c.inSig ∧ x.D = c.D ∧ x.dims.length = c.D ∧ x.torus.length = c.D

theorem model_outSig_resnet_equivariant (hg : NetGood c) (he : c.equivariant = true) (hx : Declared c x) :
    mkResNet c x = some ⟨convContractOut c.bank c.mid c.outSig, x.dims, x.D, x.torus⟩ := by
  obtain ⟨s, d, D, T⟩ := x; obtain ⟨rfl, rfl, hd, ht⟩ := hx
  simpa [expectedSig, he] using resnet_outSig c hg d T hd ht

theorem model_outSig_resnet_conventional (hg : NetGood c) (he : c.equivariant = false) (hx : Declared c x) :
    mkResNet c x = some ⟨c.outSig, x.dims, x.D, x.torus⟩ := by
  obtain ⟨s, d, D, T⟩ := x; obtain ⟨rfl, rfl, hd, ht⟩ := hx
  simpa [expectedSig, he] using resnet_outSig c hg d T hd ht

theorem model_outSig_dilresnet_equivariant (hg : NetGood c) (he : c.equivariant = true)
    (hx : Declared c x) :
    mkDilResNet c x = some ⟨convContractOut c.bank c.mid c.outSig, x.dims, x.D, x.torus⟩ := by
  obtain ⟨s, d, D, T⟩ := x; obtain ⟨rfl, rfl, hd, ht⟩ := hx
  simpa [expectedSig, he] using dilresnet_outSig c hg d T hd ht

theorem model_outSig_dilresnet_conventional (hg : NetGood c) (he : c.equivariant = false)
    (hx : Declared c x) : mkDilResNet c x = some ⟨c.outSig, x.dims, x.D, x.torus⟩ := by
  obtain ⟨s, d, D, T⟩ := x; obtain ⟨rfl, rfl, hd, ht⟩ := hx
  simpa [expectedSig, he] using dilresnet_outSig c hg d T hd ht

theorem model_outSig_unet_equivariant (hg : UNetGood c x.dims) (he : c.equivariant = true)
    (hx : Declared c x) :
    mkUNet c x = some ⟨convContractOut c.bank c.mid c.outSig, x.dims, x.D, x.torus⟩ := by
  obtain ⟨s, d, D, T⟩ := x; obtain ⟨rfl, rfl, hd, ht⟩ := hx
  simpa [expectedSig, he] using unet_outSig c d hg T hd ht

theorem model_outSig_unet_conventional (hg : UNetGood c x.dims) (he : c.equivariant = false)
    (hx : Declared c x) : mkUNet c x = some ⟨c.outSig, x.dims, x.D, x.torus⟩ := by
  obtain ⟨s, d, D, T⟩ := x; obtain ⟨rfl, rfl, hd, ht⟩ := hx
  simpa [expectedSig, he] using unet_outSig c d hg T hd ht

end

/-- **Full bank**: when the bank has every filter type of order `≤ 2K` and all input / mid / output
types have order `≤ K` (parities 0/1), the reachability hypotheses of `NetGood` hold and the
predicted output signature is *exactly* the requested one. -/
theorem model_outSig_full_bank (c : NetCfg) (K : Nat) (hb : FullBank c.bank K) (he : c.equivariant = true)
    (hin : c.inSig ≠ []) (hmid : c.mid ≠ [])
    (hi : ∀ s ∈ keysOf c.inSig, TyOk K s) (hm : ∀ s ∈ keysOf c.mid, TyOk K s)
    (ho : ∀ s ∈ keysOf c.outSig, TyOk K s) :
    (∀ b ∈ c.mid, reachable c.bank (keysOf c.inSig) b.1 = true) ∧
    (∀ b ∈ c.mid, reachable c.bank (keysOf c.mid) b.1 = true) ∧
    expectedSig c = c.outSig := by
  refine ⟨fun b hb' => ?_, fun b hb' => ?_, ?_⟩
  · exact reachable_full_bank _ K hb _ (by simpa [keysOf] using hin) hi _ (hm _ (List.mem_map_of_mem hb'))
  · exact reachable_full_bank _ K hb _ (by simpa [keysOf] using hmid) hm _ (hm _ (List.mem_map_of_mem hb'))
  · simp only [expectedSig, he, if_true]
    exact convContractOut_full_bank _ K hb _ _ hmid hm ho

/-- what `get_spatial_dims()` reports on the predicted output: the input's extents (an empty
output reports `()`) -/
theorem observe_predicted (s : Sig) (dims : List Nat) (D : Nat) (T : List Bool) (h : s ≠ []) :
    observe ⟨s, dims, D, T⟩ = (s, dims, D, T) := by
  cases s with
  | nil => exact absurd rfl h
  | cons b l => rfl


/-! ## Non-vacuity: the hypotheses are satisfiable and the models compute -/

instance (s : Sig) : Decidable (KeysNodup s) := by unfold KeysNodup; infer_instance

/-- the M = 2, d = 2 up-sampling bank of the scripts -/
def bankD2M2 : Bank := ⟨[(0, 0), (1, 0), (1, 1), (2, 0), (2, 1)], 2⟩

/-- an equivariant UNet with a pseudo-scalar output, unequal channels, two levels, group norm -/
def exUNet : NetCfg :=
  { D := 2, inSig := [((0, 0), 2), ((1, 0), 1)], outSig := [((1, 0), 3), ((0, 1), 1), ((0, 0), 1)],
    mid := defaultMid 2 [((0, 0), 2), ((1, 0), 1)] [((1, 0), 3), ((0, 1), 1), ((0, 0), 1)] 4 true,
    depth := 4, equivariant := true, bias := .scalar, act := true, groupNorm := true,
    bank := bankD2M3, kernel := none, numDown := 2, numConv := 2, upBank := bankD2M2 }

example : UNetGood exUNet [8, 12] :=
  { dim := by decide, midNodup := by decide, outNodup := by decide,
    eqv := by decide, cnv := fun h => absurd h (by decide), conv := by decide, chan := by decide,
    midNe := by decide,
    up := by decide, ext := by decide }

example : mkUNet exUNet ⟨exUNet.inSig, [8, 12], 2, [true, false]⟩ =
    some ⟨[((1, 0), 3), ((0, 1), 1), ((0, 0), 1)], [8, 12], 2, [true, false]⟩ := by decide

/-- extents not compatible with pooling are rejected (the code raises in `concat`) -/
example : mkUNet exUNet ⟨exUNet.inSig, [8, 10], 2, [true, false]⟩ = none := by decide

/-- an equivariant ResNet whose bank cannot produce one of the requested types: `(2,0)` would need a
`(3,1)` filter; the other two come out, in requested order -/
def exResNet : NetCfg :=
  { D := 2, inSig := [((1, 1), 1)], outSig := [((1, 0), 1), ((0, 1), 1), ((2, 0), 3)],
    mid := [((1, 1), 2)], depth := 2, equivariant := true, bias := .true_, act := true,
    groupNorm := true, bank := bankD2M3, kernel := none, numBlocks := 2, numConv := 2, preact := true }

example : NetGood exResNet :=
  { dim := by decide, midNodup := by decide, outNodup := by decide, eqv := by decide,
    cnv := fun h => absurd h (by decide) }

example : mkResNet exResNet ⟨exResNet.inSig, [3, 5], 2, [false, true]⟩ =
    some ⟨[((1, 0), 1), ((0, 1), 1)], [3, 5], 2, [false, true]⟩ := by decide

/-- a conventional DilResNet at d = 3 -/
def exDil : NetCfg :=
  { D := 3, inSig := [((1, 0), 1), ((0, 0), 2)], outSig := [((2, 1), 1), ((0, 0), 1), ((1, 0), 2)],
    mid := defaultMid 3 [] [] 5 false, depth := 5, equivariant := false, bias := .auto, act := false,
    groupNorm := true, bank := ⟨[], 1⟩, kernel := some [3, 3, 3], numBlocks := 1 }

example : NetGood exDil :=
  { dim := by decide, midNodup := by decide, outNodup := by decide, eqv := by decide,
    cnv := fun _ => ⟨by decide, ⟨5, rfl⟩, by decide, ⟨[3, 3, 3], rfl, rfl, by decide⟩⟩ }

example : mkDilResNet exDil ⟨exDil.inSig, [2, 3, 4], 3, [true, false, true]⟩ =
    some ⟨exDil.outSig, [2, 3, 4], 3, [true, false, true]⟩ := by decide

/-- conventional mode rejects the bias settings "mean" / "scalar" (make_conv asserts a bool) -/
example : mkDilResNet { exDil with bias := .mean } ⟨exDil.inSig, [2, 3, 4], 3, [true, false, true]⟩ = none := by
  decide

/-- equivariant group norm rejects mid types of order 2 -/
example : mkResNet { exResNet with mid := [((2, 0), 2)] } ⟨exResNet.inSig, [3, 5], 2, [false, true]⟩ = none := by
  decide

/-- positions: the scalar channel 4 of the flattened `(((1,0),2),((0,0),1))` image is the scalar -/
example : toScalarPos 2 [((1, 0), 2), ((0, 0), 1)] (0, 0) 0 0 = some 4 ∧
    fromScalarPos 2 [((1, 0), 2), ((0, 0), 1)] 3 = some ((1, 0), 1, 1) := by decide

/-- pool 12 → 6, up-convolve 6 → 12 -/
example : convExtent (12 / 2) 2 1 1 1 2 1 = 12 := by decide

end GinjaxVerif.C20
