import GinjaxVerif.Lemmas.C10Average
import GinjaxVerif.Lemmas.C10RoundTrip
import GinjaxVerif.Lemmas.C10Signature
import GinjaxVerif.Lemmas.C10Flip
import GinjaxVerif.Lemmas.C10Equator
import GinjaxVerif.Lemmas.C10Wrapper
import GinjaxVerif.Lemmas.C10Concrete
import Mathlib.Algebra.Group.Action.Basic
import Mathlib.Algebra.Module.Basic

/-!
# C10 — symmetrisation wrappers: property theorems

* `avg_equivariant_of_laws` / `groupAverage_equivariant` / `groupAverageCode_equivariant`:
  averaging an ARBITRARY function over an operator list closed under right multiplication by `h`
  commutes with `h` (hypothesis form: exactly the action laws proved by C02; structure form:
  Mathlib `MulAction` / `DistribMulAction`); `groupAverage_off`.
* `climate_roundtrip`, `climate1dSignature_eq`, `climate_lonflip`, `climate_equator_equivariant`,
  `modelWrapper_roundtrip` on the executable model of `Climate1D` / `ModelWrapper`, for all
  extents, step counts, channel counts, constant-field layouts and every insertion order.
* `climate_roundtrip_legacy_counterexample` (defect D5), `climate1dSignature_order_counterexample`.
-/
namespace GinjaxVerif.C10

/-! ## GroupAverage -/

section Structures
variable {G X Y : Type} (K : Type) [Group G] [MulAction G X] [AddCommGroup Y] [DistribMulAction G Y]
  [DivisionRing K] [Module K Y] [SMulCommClass G K Y]

/-- `(1/|ops|) • Σ_{g ∈ ops} g⁻¹ • f (g • x)`, the sum taken in list order -/
def groupAverage (ops : List G) (f : X → Y) (x : X) : Y :=
  (1 / (ops.length : K)) • (ops.map fun g => g⁻¹ • f (g • x)).sum

/-- **groupAverage_equivariant.**  For EVERY function `f : X → Y` between a `G`-set and a linear
`G`-representation, and every finite operator list closed under right multiplication by `h`,
the group average commutes with `h`. -/
theorem groupAverage_equivariant (ops : List G) (f : X → Y) (h : G)
    (hclosed : (ops.map (· * h)).Perm ops) (x : X) :
    groupAverage K ops f (h • x) = h • groupAverage K ops f x := by
  have := avg_equivariant_of_laws (M := G) (X := X) (Y := Y) (fun _ => True) (·⁻¹)
    (fun g x => g • x) (fun g y => g • y) (fun y => (1 / (ops.length : K)) • y)
    (fun _ _ => trivial)
    (fun g h x _ _ => mul_smul g h x)
    (fun g h y _ _ => mul_smul g h y)
    (fun g h _ _ => mul_inv_rev g h)
    (fun g y _ => smul_inv_smul g y)
    (fun g a b _ => smul_add g a b)
    (fun g y _ => smul_comm g _ y)
    ops (fun _ _ => trivial) h trivial hclosed f x
  simpa [groupAverage, avgSum] using this

omit [SMulCommClass G K Y] in
/-- the model of `GroupAverage.__call__`, instantiated with a Mathlib action, computes the group
average when averaging is active … -/
theorem groupAverageCode_eq_groupAverage (aa inf : Bool) (ops : List G) (f : X → Y) (x : X)
    (hflag : (aa || inf) = true) (hne : ops ≠ []) :
    groupAverageCode (·⁻¹) (fun g x => g • x) (fun (g : G) (y : Y) => g • y)
        (fun n y => (1 / (n : K)) • y) aa inf ops f x = groupAverage K ops f x := by
  rw [groupAverageCode_on _ _ _ _ aa inf ops f x hflag hne]
  rfl

/-- … and is therefore equivariant, whatever the inner model. -/
theorem groupAverageCode_equivariant (aa inf : Bool) (ops : List G) (f : X → Y) (h : G)
    (hflag : (aa || inf) = true) (hne : ops ≠ []) (hclosed : (ops.map (· * h)).Perm ops) (x : X) :
    groupAverageCode (·⁻¹) (fun g x => g • x) (fun (g : G) (y : Y) => g • y)
        (fun n y => (1 / (n : K)) • y) aa inf ops f (h • x)
      = h • groupAverageCode (·⁻¹) (fun g x => g • x) (fun (g : G) (y : Y) => g • y)
        (fun n y => (1 / (n : K)) • y) aa inf ops f x := by
  rw [groupAverageCode_eq_groupAverage K aa inf ops f _ hflag hne,
    groupAverageCode_eq_groupAverage K aa inf ops f _ hflag hne]
  exact groupAverage_equivariant K ops f h hclosed x

end Structures

/-- the code form under the bare action laws (what C02 discharges) -/
theorem groupAverageCode_equivariant_of_laws {M X Y : Type} [Mul M] [AddCommGroup Y]
    (P : M → Prop) (tr : M → M) (aX : M → X → X) (aY : M → Y → Y) (scale : Nat → Y → Y)
    (hP_tr : ∀ g, P g → P (tr g))
    (act_mul_X : ∀ g h x, P g → P h → aX (g * h) x = aX g (aX h x))
    (act_mul_Y : ∀ g h y, P g → P h → aY (g * h) y = aY g (aY h y))
    (tr_mul : ∀ g h, P g → P h → tr (g * h) = tr h * tr g)
    (act_transpose_cancel : ∀ g y, P g → aY g (aY (tr g) y) = y)
    (act_add : ∀ g a b, P g → aY g (a + b) = aY g a + aY g b)
    (act_smul : ∀ n g y, P g → aY g (scale n y) = scale n (aY g y))
    (aa inf : Bool) (ops : List M) (hops : ∀ g ∈ ops, P g) (h : M) (hh : P h)
    (hflag : (aa || inf) = true) (hne : ops ≠ [])
    (hclosed : (ops.map (· * h)).Perm ops) (f : X → Y) (x : X) :
    groupAverageCode tr aX aY scale aa inf ops f (aX h x)
      = aY h (groupAverageCode tr aX aY scale aa inf ops f x) := by
  rw [groupAverageCode_on _ _ _ _ aa inf ops f _ hflag hne,
    groupAverageCode_on _ _ _ _ aa inf ops f _ hflag hne]
  exact avg_equivariant_of_laws P tr aX aY (scale ops.length) hP_tr act_mul_X act_mul_Y tr_mul
    act_transpose_cancel act_add (act_smul ops.length) ops hops h hh hclosed f x

/-! ## Climate1D -/

variable {R : Type}

/-- **climate_roundtrip.**  `from1d ∘ to1d = id` (repaired `to1d`), block by block, for every
insertion order of the input types. -/
theorem climate_roundtrip [Inhabited R] (cfg : ClimCfg) (x : MI2 R)
    (hconst : cfg.constFields = []) (hT : 0 < cfg.past) (hny : 0 < cfg.ny)
    (hnd : (keysOf x).Nodup) (hal : Allowed x)
    (hdT : ∀ kb ∈ x, cfg.past ∣ kb.2.ch) (hdF : ∀ kb ∈ x, cfg.future ∣ kb.2.ch)
    (hout : cfg.outputKeys = sig2 x) (key : Key) :
    OptEquiv key (dLookup (climateFrom1d cfg (climateTo1d cfg x)) key) (dLookup x key) := by
  have hkd : dictOf cfg.outputKeys = sig2 x := by
    rw [hout]; exact dictOf_of_nodup _ (by rw [keysOf_sig2]; exact hnd)
  have hz := dLookup_to1d_noconst cfg x hconst hnd hal
  have hdivT : ∀ k b, dLookup x k = some b → cfg.past ∣ b.ch :=
    fun k b h => hdT (k, b) (dLookup_mem x k b h)
  have hdivF : ∀ k b, dLookup x k = some b → cfg.future ∣ b.ch :=
    fun k b h => hdF (k, b) (dLookup_mem x k b h)
  unfold climateFrom1d
  simp only [hkd]
  rw [dLookup_three]
  simp only [chanCount_sig2, dLookup_sig2]
  by_cases h0 : key = (0, 0)
  · -- true scalars
    subst h0
    simp only [if_true]
    cases hS : dLookup x (0, 0) with
    | none => simp [OptEquiv]
    | some s =>
      have hz0 := hz (0, 0)
      simp only [hS, if_true, Option.toList_some, List.map_cons, List.map_nil] at hz0
      obtain ⟨E, hE⟩ := catAll_none_cons_exists catE (expandComp cfg.past s 0)
        (List.map (fun b => expandComp cfg.past b 1) (dLookup x (1, 0)).toList)
      have hz0' : dLookup (climateTo1d cfg x) (0, 0) = some (bandE cfg.past cfg.ny E) := by
        rw [hz0]; simp only [List.singleton_append]; rw [hE]; rfl
      rw [from1dImg_of_some _ _ _ _ _ hz0']
      simp only [Option.map_some, Option.isSome_some, if_true, OptEquiv, ncomp]
      exact scalar_back cfg.past cfg.future cfg.ny hT hny s (dLookup x (1, 0)) 1 _
        (by simp only [List.singleton_append]; rw [hE]; rfl)
        (hdivT _ _ hS) (hdivF _ _ hS) (fun v hv => hdivT _ _ hv) (fun v hv => hdivF _ _ hv)
  · rw [if_neg h0]
    by_cases h1 : key = (0, 1)
    · -- pseudo-scalars
      subst h1
      simp only [if_true]
      cases hP : dLookup x (0, 1) with
      | none => simp [OptEquiv]
      | some p =>
        have hz1 := hz (0, 1)
        simp only [hP, if_true, Option.toList_some, List.map_cons, List.map_nil, k01_ne_k00, if_false] at hz1
        obtain ⟨E, hE⟩ := catAll_none_cons_exists catE (expandComp cfg.past p 0)
          (List.map (fun b => expandComp cfg.past b 0) (dLookup x (1, 0)).toList)
        have hz1' : dLookup (climateTo1d cfg x) (0, 1) = some (bandE cfg.past cfg.ny E) := by
          rw [hz1]; simp only [List.singleton_append]; rw [hE]; rfl
        rw [from1dImg_of_some _ _ _ _ _ hz1']
        simp only [Option.map_some, Option.isSome_some, if_true, OptEquiv, ncomp]
        exact scalar_back cfg.past cfg.future cfg.ny hT hny p (dLookup x (1, 0)) 0 _
          (by simp only [List.singleton_append]; rw [hE]; rfl)
          (hdivT _ _ hP) (hdivF _ _ hP) (fun v hv => hdivT _ _ hv) (fun v hv => hdivF _ _ hv)
    · rw [if_neg h1]
      by_cases h2 : key = (1, 0)
      · -- vectors: x component from the pseudo-scalar band, y component from the scalar band
        subst h2
        simp only [if_true]
        cases hV : dLookup x (1, 0) with
        | none => simp [OptEquiv]
        | some v =>
          have hvT := hdivT _ _ hV
          have hvF := hdivF _ _ hV
          have hz0 := hz (0, 0)
          have hz1 := hz (0, 1)
          simp only [hV, if_true, Option.toList_some, List.map_cons, List.map_nil, k01_ne_k00, if_false] at hz0 hz1
          obtain ⟨E0, hE0⟩ : ∃ E, catAll catE none
              ((List.map (fun b => expandComp cfg.past b 0) (dLookup x (0, 0)).toList) ++
                [expandComp cfg.past v 1]) = some E := by
            cases dLookup x (0, 0) with
            | none => exact ⟨_, rfl⟩
            | some s => exact ⟨_, rfl⟩
          obtain ⟨E1, hE1⟩ : ∃ E, catAll catE none
              ((List.map (fun b => expandComp cfg.past b 0) (dLookup x (0, 1)).toList) ++
                [expandComp cfg.past v 0]) = some E := by
            cases dLookup x (0, 1) with
            | none => exact ⟨_, rfl⟩
            | some s => exact ⟨_, rfl⟩
          have hz0' : dLookup (climateTo1d cfg x) (0, 0) = some (bandE cfg.past cfg.ny E0) := by
            rw [hz0, hE0]; rfl
          have hz1' : dLookup (climateTo1d cfg x) (0, 1) = some (bandE cfg.past cfg.ny E1) := by
            rw [hz1, hE1]; rfl
          rw [from1dImg_of_some _ _ _ _ _ hz0', from1dImg_of_some _ _ _ _ _ hz1']
          simp only [Option.map_some, Option.isSome_some, if_true, OptEquiv, ncomp]
          refine ⟨Nat.div_mul_cancel hvF, ?_⟩
          intro c i j comp hc hcomp
          have hc' : c < v.ch := by
            have e : v.ch / cfg.future * cfg.future = v.ch := Nat.div_mul_cancel hvF
            change c < offCount cfg.future (some v) * cfg.future at hc
            simpa [offCount, e] using hc
          simp only [from1dVector]
          by_cases hcomp0 : comp = 0
          · subst hcomp0
            simp only [if_true]
            have := vector_back cfg.past cfg.future cfg.ny hT hny (dLookup x (0, 1)) v 0 _
              (by rw [hE1]; rfl) hvT hvF (fun s hs => hdivT _ _ hs) (fun s hs => hdivF _ _ hs) c i j hc'
            exact this
          · have hcomp1 : comp = 1 := by
              simp only [show (1, 0).1 = 0 ↔ False from by decide, if_false] at hcomp
              omega
            subst hcomp1
            simp only [if_neg hcomp0]
            have := vector_back cfg.past cfg.future cfg.ny hT hny (dLookup x (0, 0)) v 1 _
              (by rw [hE0]; rfl) hvT hvF (fun s hs => hdivT _ _ hs) (fun s hs => hdivF _ _ hs) c i j hc'
            exact this
      · -- no other type is present
        rw [if_neg h2]
        have : key ∉ keysOf x := by
          intro hm
          rcases (allowedKey_iff key).mp (hal key hm) with h | h | h
          · exact h0 h
          · exact h1 h
          · exact h2 h
        rw [dLookup_eq_none_of_not_mem x key this]
        simp [OptEquiv]

/-- defect D5: the witness (vector type stored before the scalar type), 1 × 1 pixels -/
def d5Witness : MI2 Int :=
  [((1, 0), ⟨1, fun _ _ _ comp => if comp = 0 then 1 else 2⟩), ((0, 0), ⟨1, fun _ _ _ _ => 3⟩)]

def d5Cfg : ClimCfg :=
  { nx := 1, ny := 1, past := 1, future := 1, constFields := [], outputKeys := [((1, 0), 1), ((0, 0), 1)] }

/-- **Defect D5.**  With the legacy order of `to1d` the scalar that comes back is the vector's
y component (2), not the scalar that went in (3); the repaired order returns 3. -/
theorem climate_roundtrip_legacy_counterexample :
    (dLookup (climateFrom1d d5Cfg (climateTo1dLegacy d5Cfg d5Witness)) (0, 0)).map (·.val 0 0 0 0) = some 2
    ∧ (dLookup d5Witness (0, 0)).map (·.val 0 0 0 0) = some 3
    ∧ (dLookup (climateFrom1d d5Cfg (climateTo1d d5Cfg d5Witness)) (0, 0)).map (·.val 0 0 0 0) = some 3 := by
  decide

/-! ### signature -/

/-- what `to1d` needs of a block: the constant part fits, the dynamic channel count is a multiple
of `past_steps`, only order-0 types have constant fields -/
def BlockOk (cfg : ClimCfg) (kb : Key × Blk2 R) : Prop :=
  constSize cfg.constFields kb.1 ≤ kb.2.ch ∧
  cfg.past ∣ (kb.2.ch - constSize cfg.constFields kb.1) ∧
  (kb.1.1 ≠ 0 → constSize cfg.constFields kb.1 = 0)

theorem own_lists (T ny s comp : Nat) (b : Blk2 R) (hs : s ≤ b.ch) (hT : T ∣ b.ch - s) :
    (((dynPart s b).toList.map fun b => ny * ((expandComp T b comp).c * T)) ++
        ((constPart s b).toList.map fun b => ny * b.ch)) ≠ [] ∧
    (((dynPart s b).toList.map fun b => ny * ((expandComp T b comp).c * T)) ++
        ((constPart s b).toList.map fun b => ny * b.ch)).sum = b.ch * ny := by
  unfold dynPart constPart
  by_cases h0 : s = 0
  · subst h0
    simp only [if_true, Option.toList_some, Option.toList_none, List.map_cons, List.map_nil,
      List.append_nil, ne_eq, List.cons_ne_self, not_false_eq_true, List.sum_cons, List.sum_nil,
      Nat.add_zero, true_and, expandComp]
    rw [Nat.div_mul_cancel (by simpa using hT), Nat.mul_comm]
  · by_cases h1 : s = b.ch
    · subst h1
      simp [h0, Nat.mul_comm]
    · simp only [h0, h1, if_false, Option.toList_some, List.map_cons, List.map_nil, expandComp,
        List.cons_append, List.nil_append, ne_eq, reduceCtorEq, not_false_eq_true, List.sum_cons,
        List.sum_nil, Nat.add_zero, true_and]
      rw [Nat.div_mul_cancel hT, ← Nat.mul_add, Nat.sub_add_cancel hs, Nat.mul_comm]


theorem climate1dSignature_eq (cfg : ClimCfg) (x : MI2 R) (hnd : (keysOf x).Nodup) (hal : Allowed x)
    (hok : ∀ kb ∈ x, BlockOk cfg kb) (key : Key) :
    dLookup (get1dSignature (sig2 x) cfg.ny) key
      = (dLookup (climateTo1d cfg x) key).map (·.rows) := by
  have hok' : ∀ k b, dLookup x k = some b → BlockOk cfg (k, b) :=
    fun k b h => hok (k, b) (dLookup_mem x k b h)
  rw [dLookup_get1dSignature x hnd, gather_sigOwn x hnd, gather_sigVec x hnd hal,
    rows_climateTo1d cfg x hnd,
    gather_callsRepaired _ _ ((splitDyn_keys_sublist _ x).nodup hnd)
      (Allowed.of_sublist (splitDyn_keys_sublist _ x) hal),
    dLookup_splitDyn _ x hnd, dLookup_splitDyn _ x hnd, dLookup_splitConst _ x hnd]
  -- the vector block has no constant part
  have hVdyn : (dLookup x (1, 0)).bind (dynPart (constSize cfg.constFields (1, 0))) = dLookup x (1, 0) := by
    cases hV : dLookup x (1, 0) with
    | none => rfl
    | some v =>
      have := (hok' _ _ hV).2.2 (by simp)
      simp [this, dynPart]
  have hVlist : ∀ comp, List.map (fun e : BlkE R => cfg.ny * (e.c * cfg.past))
        (List.map (fun b => expandComp cfg.past b comp) (dLookup x (1, 0)).toList)
      = List.map (fun b => b.ch * cfg.ny) (dLookup x (1, 0)).toList := by
    intro comp
    cases hV : dLookup x (1, 0) with
    | none => rfl
    | some v =>
      have h3 := (hok' _ _ hV).2.2 (by simp)
      have h2 := (hok' _ _ hV).2.1
      rw [h3] at h2
      simp only [Option.toList_some, List.map_cons, List.map_nil, expandComp]
      rw [Nat.div_mul_cancel (by simpa using h2), Nat.mul_comm]
  rw [hVdyn]
  by_cases hk0 : key.1 = 0
  · simp only [hk0, if_true, List.map_append]
    -- the band part contributed by the vector block, the same on both sides
    have hvec : List.map (fun e : BlkE R => cfg.ny * (e.c * cfg.past))
        (if key = (0, 0) then List.map (fun b => expandComp cfg.past b 1) (dLookup x (1, 0)).toList
          else if key = (0, 1) then List.map (fun b => expandComp cfg.past b 0) (dLookup x (1, 0)).toList
          else [])
        = if key = (0, 0) ∨ key = (0, 1) then List.map (fun b => b.ch * cfg.ny) (dLookup x (1, 0)).toList
          else [] := by
      by_cases h0 : key = (0, 0)
      · simp [h0, hVlist]
      · by_cases h1 : key = (0, 1)
        · simp [h1, hVlist]
        · simp [h0, h1]
    rw [hvec, List.map_map]
    cases hS : dLookup x key with
    | none => simp
    | some b =>
      obtain ⟨hne, hsum⟩ := own_lists cfg.past cfg.ny (constSize cfg.constFields key) 0 b
        (hok' _ _ hS).1 (hok' _ _ hS).2.1
      simp only [Option.bind_some, Option.toList_some, List.map_cons, List.map_nil]
      apply tot_eq_of
      · constructor
        · intro h; simp at h
        · intro h
          exfalso
          apply hne
          simp only [List.append_eq_nil_iff] at h ⊢
          exact ⟨h.1.1, h.2⟩
      · simp only [List.sum_append, List.sum_cons, List.sum_nil, Function.comp_def] at hsum ⊢
        omega
  · have h0 : ¬ key = (0, 0) := fun e => hk0 (by rw [e])
    have h1 : ¬ key = (0, 1) := fun e => hk0 (by rw [e])
    have hC : (dLookup x key).bind (constPart (constSize cfg.constFields key)) = none := by
      cases hS : dLookup x key with
      | none => rfl
      | some b =>
        have := (hok' _ _ hS).2.2 hk0
        simp [this, constPart]
    simp [hk0, h0, h1, hC]


/-- the ORDER of the two signatures can differ (`to1d` appends the x component, i.e. the
pseudo-scalar band, first; `get_1d_signature` lists the scalar band first): equality is by key. -/
theorem climate1dSignature_order_counterexample :
    keysOf (climateTo1d { d5Cfg with outputKeys := [] } ([((1, 0), ⟨1, fun _ _ _ _ => 0⟩)] : MI2 Int))
      = [(0, 1), (0, 0)]
    ∧ keysOf (get1dSignature [((1, 0), 1)] 1) = [(0, 0), (0, 1)] := by
  decide

/-! ### reflections -/

section
variable [Neg R]

omit [Neg R] in
theorem mem_splitConst (cf : List (Key × Nat)) (x : MI2 R) (kb : Key × Blk2 R)
    (h : kb ∈ splitConst cf x) : kb.1 ∈ keysOf x ∧ constSize cf kb.1 ≠ 0 := by
  unfold splitConst at h
  obtain ⟨a, ha, hb⟩ := List.mem_filterMap.mp h
  cases hc : constPart (constSize cf a.1) a.2 with
  | none => rw [hc] at hb; cases hb
  | some b =>
    rw [hc] at hb
    simp only [Option.map_some, Option.some.injEq] at hb
    subst hb
    refine ⟨List.mem_map.mpr ⟨a, ha, rfl⟩, ?_⟩
    intro h0
    simp [constPart, h0] at hc

theorem signLon_k0 (key : Key) (h : key.1 = 0) : signLon key 0 = sign1 key := by
  simp [signLon, sign1, h]

theorem climate_lonflip (cfg : ClimCfg) (nx : Nat) (x : MI2 R) (hal : Allowed x)
    (hconst0 : ∀ key ∈ keysOf x, key.1 ≠ 0 → constSize cfg.constFields key = 0) :
    climateTo1d cfg (flipLon2 nx x) = flip1 nx (climateTo1d cfg x) := by
  rw [flipLon2_eq, flip1_eq]
  unfold climateTo1d to1dWith
  simp only
  rw [splitDyn_lon, splitConst_lon,
    callsRepaired_lon _ _ _ (Allowed.of_sublist (splitDyn_keys_sublist _ x) hal)]
  have h1 := appendAll_mapVals catE (fun key => mapE (sgn (sign1 key)) (rev nx))
    (fun key a b => mapE_catE _ _ a b) []
    (callsRepaired cfg.past (splitDyn cfg.constFields x))
  rw [show mapVals (fun key => mapE (sgn (sign1 key)) (rev nx)) ([] : List (Key × BlkE R)) = [] from rfl] at h1
  rw [h1]
  have h2 : ∀ (out : List (Key × BlkE R)),
      (mapVals (fun key => mapE (sgn (sign1 key)) (rev nx)) out).map
        (fun ke => (ke.1, bandE cfg.past cfg.ny ke.2))
      = mapVals (fun key => map1 (sgn (sign1 key)) (rev nx))
          (out.map fun ke => (ke.1, bandE cfg.past cfg.ny ke.2)) := by
    intro out
    simp [mapVals, List.map_map, Function.comp_def, bandE_mapE]
  rw [h2]
  have h3 : (mapVals (lonBlk (rev nx)) (splitConst cfg.constFields x)).map
        (fun kb => (kb.1, bandC cfg.ny kb.2))
      = mapVals (fun key => map1 (sgn (sign1 key)) (rev nx))
          ((splitConst cfg.constFields x).map fun kb => (kb.1, bandC cfg.ny kb.2)) := by
    simp only [mapVals, List.map_map]
    apply List.map_congr_left
    intro kb hkb
    obtain ⟨hk, hs⟩ := mem_splitConst _ _ _ hkb
    have hk0 : kb.1.1 = 0 := by
      by_contra hne
      exact hs (hconst0 kb.1 hk hne)
    simp only [Function.comp, bandC, lonBlk, map1, signLon_k0 kb.1 hk0]
  rw [h3]
  exact appendAll_mapVals cat1 _ (fun key a b => map1_cat1 _ _ a b) _ _


end

theorem climate_equator_equivariant [AddCommGroup R] [Inhabited R] (half : R → R)
    (hhalf : ∀ v, half (-v) = -half v) (cfg : ClimCfg) (inner : MI1 R → MI1 R) (x : MI2 R) :
    climateCall half cfg inner (flipEq2 cfg.ny x)
      = flipEq2 cfg.ny (climateCall half cfg inner x) := by
  unfold climateCall climateCombine
  rw [flipEq2_flipEq2, flipEq2_map2 _ _ hhalf,
    flipEq2_add2 _ _ _ (by rw [shape2_flipEq2]; exact shape2_climateFrom1d cfg _ _),
    flipEq2_flipEq2]
  congr 1
  exact add2_comm _ _ (by rw [shape2_flipEq2]; exact shape2_climateFrom1d cfg _ _)

/-! ## ModelWrapper -/

/-- **modelWrapper_roundtrip.**  `ModelWrapper` around the identity with
`output_keys = signature(x)` returns `x`: same keys in the same order, every block restored. -/
theorem modelWrapper_roundtrip (D : Nat) (hD : 0 < D) (x : List (Key × BlkT R)) (hne : x ≠ [])
    (hnd : (keysOf x).Nodup) (hpar : ∀ kb ∈ x, kb.1.2 < 2) :
    ∃ out, modelWrapperCall D (sigT x) id x = some out ∧
      List.Forall₂ (fun o i => o.1 = i.1 ∧ BlkT.Equiv (D ^ i.1.1) o.2 i.2) out x := by
  obtain ⟨arr, harr⟩ : ∃ arr, catAll catT none (flats D x) = some arr := by
    cases x with
    | nil => exact absurd rfl hne
    | cons kb rest => exact catAll_none_cons_exists catT _ _
  have hF := fromScalarCalls_forall₂ D hD arr [] x hpar (by simpa using harr)
  have hkeys : keysOf (fromScalarCalls D arr 0 (sigT x)) = keysOf x := by
    have : ∀ (o : List (Key × BlkT R)) (i : List (Key × BlkT R)),
        List.Forall₂ (fun o i => o.1 = i.1 ∧ BlkT.Equiv (D ^ i.1.1) o.2 i.2) o i → keysOf o = keysOf i := by
      intro o i h
      induction h with
      | nil => rfl
      | cons hd _ ih => simp [keysOf_cons, hd.1, ih]
    exact this _ _ (by simpa [flats] using hF)
  refine ⟨fromScalarCalls D arr 0 (sigT x), ?_, by simpa [flats] using hF⟩
  unfold modelWrapperCall
  rw [toScalar_lookup, harr]
  simp only [Option.map_some, id, fromScalar]
  rw [appendAll_eq_append_of_nodup _ _ _ (by simpa [hkeys] using hnd)]
  rfl


/-! ## Non-vacuity -/

/-- the hypotheses of the averaging theorem are satisfiable with an inner function that is NOT
equivariant: `G = {1, -1}` acting on `ℤ` by multiplication, `f x = x² + x`. -/
example :
    let P : Int → Prop := fun g => g = 1 ∨ g = -1
    let f : Int → Int := fun x => x * x + x
    (∀ g, P g → P (id g)) ∧ (∀ g h, P g → P h → id (g * h) = id h * id g) ∧
    (∀ g y, P g → g * (id g * y) = y) ∧ (∀ g ∈ [1, -1], P g) ∧
    (([1, -1] : List Int).map (· * (-1))).Perm [1, -1] ∧
    f ((-1) * 2) ≠ (-1) * f 2 ∧
    avgSum id (fun g x => g * x) (fun g y => g * y) [1, -1] f ((-1) * 2)
      = (-1) * avgSum id (fun g x => g * x) (fun g y => g * y) [1, -1] f 2 := by
  refine ⟨fun g h => h, fun g h _ _ => mul_comm g h, ?_, by simp, by decide, by decide, by decide⟩
  rintro g y (rfl | rfl) <;> simp

/-- `groupAverage_equivariant` is applicable: `ℚˣ` acting on `ℚ`, operator list `[1, -1]` -/
example (f : ℚ → ℚ) (x : ℚ) :
    groupAverage ℚ [(1 : ℚˣ), -1] f ((-1 : ℚˣ) • x) = (-1 : ℚˣ) • groupAverage ℚ [(1 : ℚˣ), -1] f x :=
  groupAverage_equivariant ℚ _ f (-1) (by simpa using List.Perm.swap _ _ _) x

def exCfg : ClimCfg :=
  { nx := 2, ny := 3, past := 2, future := 1, constFields := [],
    outputKeys := [((1, 0), 2), ((0, 1), 4), ((0, 0), 2)] }

/-- an input with the vector type first, values all distinct -/
def exX : MI2 Int :=
  [((1, 0), ⟨2, fun c x y comp => 1000 + 100 * c + 10 * x + 2 * y + comp⟩),
   ((0, 1), ⟨4, fun c x y _ => 2000 + 100 * c + 10 * x + y⟩),
   ((0, 0), ⟨2, fun c x y _ => 3000 + 100 * c + 10 * x + y⟩)]

/-- the hypotheses of `climate_roundtrip` hold on `exX`, and both `to1d` and `from1d` accept
(so the round trip is about values the code really produces) -/
example :
    exCfg.constFields = [] ∧ 0 < exCfg.past ∧ 0 < exCfg.ny ∧ (keysOf exX).Nodup ∧
    (∀ key ∈ keysOf exX, allowedKey key = true) ∧
    (∀ kb ∈ exX, exCfg.past ∣ kb.2.ch) ∧ (∀ kb ∈ exX, exCfg.future ∣ kb.2.ch) ∧
    exCfg.outputKeys = sig2 exX ∧
    to1dValid exCfg exX = true ∧ from1dValid exCfg (climateTo1d exCfg exX) = true ∧
    sig1 (climateTo1d exCfg exX) = [((0, 1), 18), ((0, 0), 12)] := by
  decide

/-- with constant fields: `BlockOk` holds and `to1d` accepts -/
example :
    let cfg : ClimCfg := { exCfg with constFields := [((0, 1), 2), ((0, 0), 2)] }
    (∀ kb ∈ exX, constSize cfg.constFields kb.1 ≤ kb.2.ch ∧
        cfg.past ∣ (kb.2.ch - constSize cfg.constFields kb.1) ∧
        (kb.1.1 ≠ 0 → constSize cfg.constFields kb.1 = 0)) ∧
    to1dValid cfg exX = true ∧
    (∀ key ∈ [((0, 0) : Key), (0, 1), (1, 0)],
      dLookup (sig1 (climateTo1d cfg exX)) key = dLookup (get1dSignature (sig2 exX) 3) key) := by
  decide

/-- `modelWrapper_roundtrip` is about a call that succeeds, with several types -/
example :
    let x : List (Key × BlkT Int) :=
      [((1, 1), ⟨2, fun c p t => 100 * c + 10 * p + t⟩), ((0, 0), ⟨1, fun c p _ => 7 + c + p⟩),
       ((2, 0), ⟨1, fun _ p t => 50 + 10 * p + t⟩)]
    (keysOf x).Nodup ∧ (∀ kb ∈ x, kb.1.2 < 2) ∧
    ((modelWrapperCall 2 (sigT x) id x).map fun out => sigT out) = some (sigT x) := by
  decide

/-! ## GroupAverage with the concrete image action of C02

`Lemmas/C10Concrete.lean` discharges every hypothesis of `avg_equivariant_of_laws` with the action
laws of the model `tge` of `times_group_element` (`actV_eq_tge`, `actV_eq_tge'`: on the box the
action used there IS `tge`).  `groupAverage_equivariant_images` is the instance for operators
preserving the extents (all of `B_d` on square / cubic images, `C2^d` on any extents);
`groupAverage_equivariant_any_extents` is the general case, in which the operators permute the
extents (non-square images): the extents are threaded through the action, the inner model may look
at them and is assumed to return images of the extents it was given. -/

theorem groupAverage_equivariant_images {R : Type} [CommRing R] {d : Nat} {ι κ : Type}
    (N : Fin d → Nat) (parX : ι → Nat) (parY : κ → Nat) (ops : List (SP d))
    (hops : ∀ g ∈ ops, Preserves N g) (h : SP d) (hh : Preserves N h)
    (hclosed : (ops.map (· * h)).Perm ops) (f : (ι → V R d) → (κ → V R d)) (r : R)
    (x : ι → V R d) :
    (fun i y n => r * avgSum SP.inv (actMI N parX) (actMI N parY) ops f (actMI N parX h x) i y n)
      = actMI N parY h (fun i y n => r * avgSum SP.inv (actMI N parX) (actMI N parY) ops f x i y n) :=
  groupAverage_equivariant_concrete N parX parY ops hops h hh hclosed f r x

/-- **general extents**: for every operator list closed under right multiplication by `h`, every
model `f` (which may depend on the extents), every extents `N`:
`avg(N ∘ σ_h, h·x) = h · avg(N, x)`; multiplying both sides by the code's `1/len(operators)` is
`actV_smul`. -/
theorem groupAverage_equivariant_any_extents {R : Type} [CommRing R] {d : Nat} {ι κ : Type}
    (parX : ι → Nat) (parY : κ → Nat) (ops : List (SP d)) (h : SP d)
    (hclosed : (ops.map (· * h)).Perm ops)
    (f : (Fin d → Nat) → (ι → V R d) → (κ → V R d)) (N : Fin d → Nat) (x : ι → V R d) :
    avgSumN parX parY ops f (fun i => N (h.σ i)) (actMI (fun i => N (h.σ i)) parX h x)
      = actMI (fun i => N (h.σ i)) parY h (avgSumN parX parY ops f N x) :=
  groupAverage_equivariant_nonsquare parX parY ops h hclosed f N x

/-- square images: every signed permutation preserves the extents -/
theorem preserves_of_square {d : Nat} (n : Nat) (g : SP d) : Preserves (fun _ => n) g := fun _ => rfl

end GinjaxVerif.C10
