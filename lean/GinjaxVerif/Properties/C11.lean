import GinjaxVerif.Lemmas.Layer
import GinjaxVerif.Lemmas.LayerInit
import GinjaxVerif.Properties.C04
import GinjaxVerif.Properties.C20

/-!
# C11 — the linear layer computes its defining sum and returns the requested types

`layerV` (`Model/Layer.lean`) follows the code of the repaired `ml.ConvContract` (`individual_convolve`
with its accumulate-or-append dictionary, re-emission in `target_keys` order, bias loop);
`layerSpec` is the sentence of the property.  Everything is unbounded: every dimension, extent
vector, input MultiImage (any dict order, any subset of types), target signature with distinct keys
in any order, bank (any dict order, any missing filter types), weight / bias value, the five bias
settings, every per-axis option vector.

* `layer_eq_spec`   value by value, the output block of type `t` is `layerSpec … t`; it exists iff
                    `t` is reachable through the bank; requested channel count; extents `outLen`
* `layer_keys`      output signature = `C20.convContractOut` (requested reachable targets, requested
                    order, requested channel counts) = the signature model `C20.convContractSig`
* `layer_no_drop`   for all five bias settings
* `layer_bias_form` which bias each block gets (`bias_cases`: exactly one of the three cases applies)
* `layer_outDims`   the extents of every output block are the size formula of the dispatched options
* constructor (`Lemmas/LayerInit.lean`): `initShapes_mode`, `initShapes_weights`, `initShapes_missing`,
  `initShapes_bias_keys`
The legacy behaviour (D6, D10) is documented by `C20.layer_legacy_drops_scalar_mode`,
`C20.layer_legacy_empty_true_mode`, `C20.layer_legacy_order_counterexample`.
-/
namespace GinjaxVerif.C11

open GinjaxVerif GinjaxVerif.C20 GinjaxVerif.Layer

variable {R : Type} [CommRing R] {d : Nat}

theorem sum_map_eq_foldr {α : Type} (l : List α) (f : α → R) :
    (l.map f).sum = l.foldr (fun e r => f e + r) 0 := by
  induction l with
  | nil => rfl
  | cons a l ih => simp [ih]

omit [CommRing R] in
/-- the `if filter present` of the spec is the `match` of `filterBlock` -/
theorem hasFilter_iff_lookup (P : Params R d) (s t : Ty) :
    hasFilter (bankSig P) s t = (lookup P.bank (filterKey s t)).isSome := by
  rw [Bool.eq_iff_iff, lookup_isSome_iff]
  simp [hasFilter, bankSig]

/-- one contribution of `individual_convolve` is the contraction of the direct-sum convolution -/
theorem contribution_eq_spec (P : Params R d) (s : Ty) (xs : Block R d) (t : Ty) (n o : Nat)
    (ho : o < n) (i : Pix d) (T : List (Fin d)) (hT : T.length = t.1) :
    (contribution P.ax (filterBlock P) s xs t n).val o i T =
      convContractSpec (layerCfg P.ax s t xs.chans 0) (fun _ c y T => xs.val c y T)
        (filterBlock P s t) 0 o i T := by
  unfold contribution
  simp only
  rw [convContractImpl_eq_spec (layerCfg P.ax s t xs.chans n) _ _ 0 o i T
    (by simp [layerCfg]) (by simp [layerCfg, hT]) (by simpa [layerCfg] using ho)]
  rfl

/-- **the convolution stage**: the block of a requested type `t` exists iff `t` is reachable, has the
requested channel count, the extents of the size formula, and the values of the defining sum -/
theorem convStage_lookup (P : Params R d) (x : MImg R d) (hn : KeysNodup P.target) (t : Ty) (n : Nat)
    (ht : (t, n) ∈ P.target) :
    (lookup (convStageV P (filterBlock P) x) t).isSome = reachable (bankSig P) (keysOf (sigOf x)) t ∧
    ∀ b, lookup (convStageV P (filterBlock P) x) t = some b →
      b.chans = n ∧ b.dims = outDims P ∧
      ∀ o, o < n → ∀ (i : Pix d) (T : List (Fin d)), T.length = t.1 →
        b.val o i T = convPartSpec P x t o i T := by
  have hk : t ∈ keysOf P.target := List.mem_map.2 ⟨(t, n), ht, rfl⟩
  have hl : lookup (convStageV P (filterBlock P) x) t =
      lookup (individualConvolveV (bankSig P) P.target P.ax (filterBlock P) x) t := by
    unfold convStageV; rw [lookup_emit, if_pos hk]
  rw [hl]
  refine ⟨individualConvolveV_isSome (bankSig P) P.target P.ax (filterBlock P) x (t, n) ht, ?_⟩
  intro b hb
  have hmem := lookup_mem _ _ _ hb
  obtain ⟨hch, hd⟩ := individualConvolveV_inv (bankSig P) P.target P.ax (filterBlock P) x _ hmem
  have hcn : b.chans = n := by
    have := eq_of_key_eq hn hch ht rfl
    exact congrArg Prod.snd this
  refine ⟨hcn, hd, ?_⟩
  intro o ho i T hT
  have hv : b.val o i T =
      getVal (individualConvolveV (bankSig P) P.target P.ax (filterBlock P) x) t o i T := by
    unfold getVal; rw [hb]
  rw [hv, getVal_individualConvolveV (bankSig P) hn P.ax (filterBlock P) x ht, sum_map_eq_foldr]
  unfold convPartSpec
  congr 1
  funext e r
  congr 1
  split
  · exact contribution_eq_spec P e.1 e.2 t n o ho i T hT
  · rfl

/-- the stored (normalised) setting drives the code; the spec is stated on the documented setting -/
theorem biasBlock_eq_biasSpec (mode : BiasMode) (bias : Ty → Nat → R) (mu : R) (dims : Fin d → Nat)
    (t : Ty) (b : Block R d) (c : Nat → Pix d → List (Fin d) → R) (n : Nat) (hd : b.dims = dims)
    (hv : ∀ o, o < n → ∀ (i : Pix d) (T : List (Fin d)), T.length = t.1 → b.val o i T = c o i T)
    (o : Nat) (ho : o < n) (i : Pix d) (T : List (Fin d)) (hT : T.length = t.1) :
    (if normaliseBias mode = .false_ then b
      else biasBlock (normaliseBias mode) bias mu t b).val o i T
      = biasSpec mode bias mu dims t c o i T := by
  have hsum : sumBox b.dims (fun y => b.val o y T) = sumBox dims (fun y => c o y T) := by
    rw [hd]; exact sumBox_congr' _ _ _ (fun y => hv o ho y T hT)
  have hval := hv o ho i T hT
  by_cases h0 : t = (0, 0)
  · cases mode <;> simp [normaliseBias, biasBlock, biasSpec, h0, hval, hsum]
    all_goals ring
  · cases mode <;> simp [normaliseBias, biasBlock, biasSpec, h0, hval, hsum]
    all_goals ring

/-- **C11, values.**  For every requested type `t` (with requested channel count `n`): the layer's
output contains a block of type `t` iff `t` is reachable from a type of the input through a filter
type of the bank, and then that block has `n` channels, the extents of the size formula, and at every
channel `o < n`, every pixel and every tensor multi-index of length `k_t` the value
`Σ_{(s,x_s) ∈ x, filter (k_s+k_t,(p_s+p_t)%2) present} contract(conv(x_s, Σ_f W_{s→t}[·,·,f] F[f])) +
bias_t` of the spec. -/
theorem layer_eq_spec (P : Params R d) (x : MImg R d) (hn : KeysNodup P.target) (t : Ty) (n : Nat)
    (ht : (t, n) ∈ P.target) :
    (lookup (layerV P x) t).isSome = reachable (bankSig P) (keysOf (sigOf x)) t ∧
    ∀ b, lookup (layerV P x) t = some b →
      b.chans = n ∧ b.dims = outDims P ∧
      ∀ o, o < n → ∀ (i : Pix d) (T : List (Fin d)), T.length = t.1 →
        b.val o i T = layerSpec P x t o i T := by
  obtain ⟨hsome, hblk⟩ := convStage_lookup P x hn t n ht
  have hl : lookup (layerV P x) t = (lookup (convStageV P (filterBlock P) x) t).map
      (fun b => if normaliseBias P.mode = .false_ then b
        else biasBlock (normaliseBias P.mode) P.bias P.mu t b) := by
    unfold layerV; rw [lookup_biasLoopV]
  refine ⟨by rw [hl, Option.isSome_map, hsome], ?_⟩
  intro b hb
  rw [hl] at hb
  cases hc : lookup (convStageV P (filterBlock P) x) t with
  | none => rw [hc] at hb; cases hb
  | some b0 =>
    rw [hc, Option.map_some, Option.some.injEq] at hb
    obtain ⟨h1, h2, h3⟩ := hblk b0 hc
    have hch : b.chans = b0.chans ∧ b.dims = b0.dims := by
      rw [← hb]; unfold biasBlock
      split
      · exact ⟨rfl, rfl⟩
      · split
        · exact ⟨rfl, rfl⟩
        · split <;> exact ⟨rfl, rfl⟩
    refine ⟨hch.1.trans h1, hch.2.trans h2, ?_⟩
    intro o ho i T hT
    rw [← hb]
    exact biasBlock_eq_biasSpec P.mode P.bias P.mu (outDims P) t b0 (convPartSpec P x t) n h2 h3 o ho i T hT

/-- a type that was not requested is never produced -/
theorem layer_not_requested (P : Params R d) (x : MImg R d) (t : Ty) (ht : t ∉ keysOf P.target) :
    lookup (layerV P x) t = none := by
  unfold layerV convStageV
  rw [lookup_biasLoopV, lookup_emit, if_neg ht]; rfl

/-- **C11, signature.**  The output signature (keys in order with channel counts) is the spec of
C20: the requested targets reachable through the bank, in requested order, with the requested
channel counts — which is also what the signature model `C20.convContractSig` of the same code
returns. -/
theorem layer_keys (P : Params R d) (x : MImg R d) (hn : KeysNodup P.target) :
    sigOf (layerV P x) = convContractOut (bankSig P) (sigOf x) P.target ∧
    sigOf (layerV P x) = convContractSig (bankSig P) P.target P.mode (keysOf (sigOf x)) := by
  have h : sigOf (layerV P x) = convContractOut (bankSig P) (sigOf x) P.target := by
    unfold layerV convStageV
    rw [sigOf_biasLoopV, sigOf_emit]
    · unfold convContractOut
      apply List.filter_congr
      intro w hw
      exact individualConvolveV_isSome (bankSig P) P.target P.ax (filterBlock P) x w hw
    · intro w hw b hb
      have hmem := lookup_mem _ _ _ hb
      obtain ⟨hch, _⟩ := individualConvolveV_inv (bankSig P) P.target P.ax (filterBlock P) x _ hmem
      exact congrArg Prod.snd (eq_of_key_eq hn hch hw rfl)
  exact ⟨h, by rw [h, convContractSig_eq_out (bankSig P) P.target hn P.mode (sigOf x)]⟩

/-- **no reachable requested block is dropped, for all five bias settings** -/
theorem layer_no_drop (P : Params R d) (x : MImg R d) (hn : KeysNodup P.target) (t : Ty) (n : Nat)
    (ht : (t, n) ∈ P.target) (hr : reachable (bankSig P) (keysOf (sigOf x)) t = true)
    (m : BiasMode) : (t, n) ∈ sigOf (layerV { P with mode := m } x) := by
  rw [(layer_keys { P with mode := m } x hn).1]
  exact (mem_convContractOut _ _ _ _).2 ⟨ht, hr⟩

/-- the three bias cases are mutually exclusive and exhaustive -/
theorem bias_cases (mode : BiasMode) (t : Ty) :
    let A := t = (0, 0) ∧ (mode = .auto ∨ mode = .scalar ∨ mode = .true_)
    let M := mode = .mean ∨ ((mode = .auto ∨ mode = .true_) ∧ t ≠ (0, 0))
    let N := mode = .false_ ∨ (mode = .scalar ∧ t ≠ (0, 0))
    (A ∨ M ∨ N) ∧ ¬ (A ∧ M) ∧ ¬ (A ∧ N) ∧ ¬ (M ∧ N) := by
  by_cases h : t = (0, 0) <;> cases mode <;> simp [h]

/-- **C11, bias form.**  With `c` the block of type `t` after the convolution stage: the layer adds
a per-channel constant exactly in case A (`t = (0,0)` and mode ∈ {auto, scalar, True}); a
per-channel multiple of the spatial mean of `c` exactly in case M (mode = mean, or mode ∈ {auto,
True} and `t ≠ (0,0)`); and returns `c` unchanged in case N (mode = False, or mode = scalar and
`t ≠ (0,0)`).  By `bias_cases` exactly one case applies. -/
theorem layer_bias_form (P : Params R d) (x : MImg R d) (t : Ty) (c : Block R d)
    (hc : lookup (convStageV P (filterBlock P) x) t = some c) :
    ∃ b, lookup (layerV P x) t = some b ∧
      ((t = (0, 0) ∧ (P.mode = .auto ∨ P.mode = .scalar ∨ P.mode = .true_)) →
        ∀ o i T, b.val o i T = c.val o i T + P.bias t o) ∧
      ((P.mode = .mean ∨ ((P.mode = .auto ∨ P.mode = .true_) ∧ t ≠ (0, 0))) →
        ∀ o i T, b.val o i T =
          c.val o i T + (P.mu * sumBox c.dims (fun y => c.val o y T)) * P.bias t o) ∧
      ((P.mode = .false_ ∨ (P.mode = .scalar ∧ t ≠ (0, 0))) → b = c) := by
  have hl : lookup (layerV P x) t = some
      (if normaliseBias P.mode = .false_ then c
        else biasBlock (normaliseBias P.mode) P.bias P.mu t c) := by
    unfold layerV; rw [lookup_biasLoopV, hc]; rfl
  refine ⟨_, hl, ?_, ?_, ?_⟩
  · rintro ⟨h0, hm⟩ o i T
    rcases hm with hm | hm | hm <;> simp [hm, h0, normaliseBias, biasBlock]
  · rintro hm o i T
    rcases hm with hm | ⟨hm | hm, h0⟩ <;> simp [hm, normaliseBias, biasBlock]
    all_goals simp [h0]
  · rintro hm
    rcases hm with hm | ⟨hm, h0⟩ <;> simp [hm, normaliseBias, biasBlock]
    all_goals simp [h0]

/-- **C11, spatial shape.**  Every output block has, on every axis, the extent `outLen` of the
dispatched options: the standard size formula
`(padLen − filtLen) / stride + 1` with `padLen = (N + 2w − 1)·ld + 1 + lo + hi`,
`filtLen = (M − 1)·rd + 1`. -/
theorem layer_outDims (P : Params R d) (x : MImg R d) (e : Ty × Block R d) (he : e ∈ layerV P x)
    (j : Fin d) :
    e.2.dims j =
      (if (P.ax j).padLen < (P.ax j).filtLen then 0
        else ((P.ax j).padLen - (P.ax j).filtLen) / (P.ax j).stride + 1) := by
  have key : ∀ e ∈ convStageV P (filterBlock P) x, e.2.dims = fun j => (P.ax j).outLen := by
    intro e he
    unfold convStageV emitInTargetOrderV at he
    rcases List.mem_filterMap.1 he with ⟨w, _, hw⟩
    cases hl : lookup (individualConvolveV (bankSig P) P.target P.ax (filterBlock P) x) w.1 with
    | none => rw [hl] at hw; cases hw
    | some b =>
      rw [hl, Option.map_some, Option.some.injEq] at hw
      rw [← hw]
      exact (individualConvolveV_inv (bankSig P) P.target P.ax (filterBlock P) x _ (lookup_mem _ _ _ hl)).2
  have hb : ∀ m (t : Ty) (b : Block R d), (biasBlock m P.bias P.mu t b).dims = b.dims := by
    intro m t b; unfold biasBlock; split
    · rfl
    · split <;> rfl
  have hdims : e.2.dims = fun j => (P.ax j).outLen := by
    unfold layerV biasLoopV at he
    split at he
    · exact key e he
    · rcases List.mem_map.1 he with ⟨e0, he0, rfl⟩
      rw [hb]; exact key e0 he0
  rw [hdims]; rfl

/-! ### non-vacuity: a concrete 2-type layer, all five bias settings, a missing filter type -/

section Example

/-- d = 2, a 2×2 scalar block with 1 channel and a 2×2 vector block with 2 channels -/
def exX : MImg Int 2 :=
  [((1, 0), ⟨2, fun _ => 2, fun c y T => (c : Int) + y 0 + 2 * y 1 + (T.headD 0).val⟩),
   ((0, 0), ⟨1, fun _ => 2, fun _ y _ => 1 + y 0 - y 1⟩)]

/-- 1×1 filters: one scalar filter (the Kronecker delta in space), two vector filters; no `(2,0)`
filter and no pseudo filters -/
def exBank : MImg Int 2 :=
  [((0, 0), ⟨1, fun _ => 1, fun _ _ _ => 1⟩),
   ((1, 0), ⟨2, fun _ => 1, fun f _ T => if (T.headD 0).val = f then 1 else 0⟩)]

def exP (m : BiasMode) : Params Int 2 :=
  { target := [((1, 0), 1), ((0, 1), 2), ((0, 0), 3)]
    bank := exBank
    weights := fun s t o c f => (s.1 : Int) + 2 * t.1 + o - c + f + 1
    bias := fun t o => (t.1 : Int) + o + 1
    mode := m
    ax := fun _ => { N := 2, M := 1 }
    mu := 1 }

/-- requested order kept, the unreachable pseudoscalar target absent, channel counts as requested -/
example : ∀ m ∈ [BiasMode.auto, .mean, .scalar, .true_, .false_],
    sigOf (layerV (exP m) exX) = [((1, 0), 1), ((0, 0), 3)] := by decide

/-- model = spec on the sample, mode `auto`: additive bias on the scalars, mean-scaled on the vectors -/
example : (getVal (layerV (exP .auto) exX) (0, 0) 2 (fun _ => 1) [],
           layerSpec (exP .auto) exX (0, 0) 2 (fun _ => 1) []) = (70, 70) := by decide

example : (getVal (layerV (exP .auto) exX) (1, 0) 0 (fun _ => 0) [1],
           layerSpec (exP .auto) exX (1, 0) 0 (fun _ => 0) [1]) = (36, 36) := by decide

/-- the bias really depends on the setting -/
example : getVal (layerV (exP .false_) exX) (0, 0) 2 (fun _ => 1) [] = 67 ∧
    getVal (layerV (exP .scalar) exX) (1, 0) 0 (fun _ => 0) [1] = 4 ∧
    getVal (layerV (exP .mean) exX) (0, 0) 2 (fun _ => 1) [] = 583 := by decide

/-- the constructor on the same configuration: weight shapes, bias shapes, `missing_filter` -/
example : initShapes [((1, 0), 2), ((0, 0), 1)] [((1, 0), 1), ((0, 1), 2), ((0, 0), 3)]
      [((0, 0), 1), ((1, 0), 2)] .true_ =
    { weights := [((1, 0), [((0, 0), (3, 2, 2))]), ((0, 0), [((1, 0), (1, 1, 2)), ((0, 0), (3, 1, 1))])]
      bias := [((0, 0), 3), ((1, 0), 1)], missing := true, mode := .auto } := by decide

end Example

end GinjaxVerif.C11
