import GinjaxVerif.Lemmas.ConvShift
import GinjaxVerif.Lemmas.SignedPerm

/-!
# C01 — convolution commutes with the symmetry group (rotations, reflections, shifts)

Stated on the direct-sum convolution `convSpec` (which the code's pipeline computes, C04) with the
model `tge` of the code's group action (C02), for **every** dimension, extent vector (square or
not), image and filter tensor orders and parities, channel counts, filter side (odd or even),
filter dilation, image dilation, wrap width and symmetric zero padding, and every matrix accepted
by `isSignedPerm` (all of `B_d`).  The per-axis options travel with the axes by the same rule the
code uses for metadata (`transport`).
-/
namespace GinjaxVerif.C01

open GinjaxVerif

variable {R : Type} [CommRing R] {d : Nat}

/-- **(g·A) * (g·C) = g·(A * C)**, the result transforming with tensor order `k + k'` and parity
`p + p'`; unit stride and the same zero padding on both sides of every axis. -/
theorem conv_act (M : Mat d) (hM : isSignedPerm M = true) (cfg : ConvCfg d)
    (hs : ∀ j, (cfg.ax j).Sym) (hf : ∀ j, (cfg.ax j).Fits) (pI pF : Nat) (img flt : Bank R d)
    (b o : Nat) (i' : Pix d) (hi' : InBox (rotDims M cfg.outDims) i') (n : List (Fin d)) :
    convSpec (cfg.transport M)
        (tgeBank M pI (fun j => (cfg.ax j).N) cfg.kI img)
        (tgeBank M pF (fun j => (cfg.ax j).M) cfg.kF flt) b o i' n
      = (tge M (pI + pF) ⟨cfg.outDims, cfg.kI + cfg.kF, convSpec cfg img flt b o⟩).val i' n := by
  obtain ⟨g, rfl⟩ := exists_SP_of_isSignedPerm M hM
  exact conv_tge g cfg hs hf pI pF img flt b o i' hi' n

/-- the transformed call has the transformed output extents: the output box of the left-hand side
is the box of `g·(A*C)` -/
theorem conv_act_dims (M : Mat d) (hM : isSignedPerm M = true) (cfg : ConvCfg d) :
    (cfg.transport M).outDims = rotDims M cfg.outDims := by
  obtain ⟨g, rfl⟩ := exists_SP_of_isSignedPerm M hM
  funext i
  simp only [ConvCfg.outDims, ConvCfg.transport, transport_mat, rotDims_mat]

/-- **Every symmetric padding specification of the code's dispatch is symmetric per axis** — TORUS
wrap, SAME, VALID, integer padding, explicit equal pairs (even filter sides included), default. -/
theorem paddingLiteral_symmetric (mode : PadMode) (hm : mode.Symmetric) (torus : Fin d → Bool)
    (N Mf stride rd ld : Fin d → Nat) (ax : Fin d → AxisOpt)
    (h : dispatch mode torus N Mf stride rd ld = some ax)
    (hst : ∀ j, stride j = 1) (hN : ∀ j, 0 < N j) (hld : ∀ j, 0 < ld j) (j : Fin d) :
    (ax j).Sym := by
  obtain ⟨h1, h2, _, h4, _, h6⟩ := dispatch_symmetric mode hm torus N Mf stride rd ld ax h j
  exact ⟨h1, by rw [h4, hst], by rw [h2]; exact hN j, by rw [h6]; exact hld j⟩

/-- **Convolution with a `g`-invariant filter is `g`-equivariant.** -/
theorem conv_invariant_filter (M : Mat d) (hM : isSignedPerm M = true) (cfg : ConvCfg d)
    (hs : ∀ j, (cfg.ax j).Sym) (hf : ∀ j, (cfg.ax j).Fits) (hcfg : cfg.transport M = cfg)
    (pI pF : Nat) (img flt : Bank R d)
    (hinv : ∀ o c a t, InBox (fun j => (cfg.ax j).M) a →
      tgeBank M pF (fun j => (cfg.ax j).M) cfg.kF flt o c a t = flt o c a t)
    (b o : Nat) (i' : Pix d) (hi' : InBox (rotDims M cfg.outDims) i') (n : List (Fin d)) :
    convSpec cfg (tgeBank M pI (fun j => (cfg.ax j).N) cfg.kI img) flt b o i' n
      = (tge M (pI + pF) ⟨cfg.outDims, cfg.kI + cfg.kF, convSpec cfg img flt b o⟩).val i' n := by
  obtain ⟨g, rfl⟩ := exists_SP_of_isSignedPerm M hM
  exact GinjaxVerif.conv_invariant_filter g cfg hs hf hcfg pI pF img flt hinv b o i' hi' n

/-- **On toroidally wrapped axes (no image dilation) the convolution commutes with every cyclic
translation**; the other axes may carry any option. -/
theorem conv_shift (cfg : ConvCfg d) (tor : Fin d → Bool)
    (htor : ∀ j, tor j = true → (cfg.ax j).TorusAxis) (t : Pix d) (img flt : Bank R d)
    (b o : Nat) (i : Pix d) (hi : InBox cfg.outDims i) (n : List (Fin d)) :
    convSpec cfg (fun b c y m => img b c (shiftPix (fun j => (cfg.ax j).N) tor t y) m) flt b o i n
      = convSpec cfg img flt b o (shiftPix (fun j => (cfg.ax j).N) tor t i) n :=
  GinjaxVerif.conv_shift cfg tor htor t img flt b o i hi n

/-- the TORUS dispatch on a toroidal axis produces exactly the options `conv_shift` needs -/
theorem torus_dispatch_is_torusAxis (M rd N : Nat) (hodd : M % 2 = 1) (hN : 0 < N) :
    ({ N := N, M := M, w := ((M - 1) / 2) * rd, lo := 0, hi := 0, stride := 1, rd := rd, ld := 1 } : AxisOpt).TorusAxis :=
  ⟨rfl, rfl, rfl, rfl, hN, hodd, rfl⟩

/-! ### non-vacuity: a 2×3 image, a 3×2-dilated non-square setting, rot90 -/

def exAx : Fin 2 → AxisOpt := fun j =>
  if j.val = 0 then { N := 2, M := 3, lo := 1, hi := 1, rd := 1, ld := 2 }
  else { N := 3, M := 2, lo := 2, hi := 2, rd := 2, ld := 1 }

example : ∀ j, (exAx j).Sym ∧ (exAx j).Fits := by
  intro j; fin_cases j <;> (constructor <;> simp [exAx, AxisOpt.Sym, AxisOpt.Fits, AxisOpt.filtLen, AxisOpt.padLen, AxisOpt.dilLen])

end GinjaxVerif.C01
