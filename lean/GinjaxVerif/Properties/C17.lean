import GinjaxVerif.Model.C17
import GinjaxVerif.Lemmas.C15

/-!
# C17 — mini-batching is an aligned partition of the data set

Theorems about the model `getBatches` / `getSubset` / `reshapePmap` of `Model/C17.lean`, for every
data-set size `L`, batch size `0 < B` (divisible or not), every list `π` that is a permutation of
`range L` (the model of `random.permutation`; `range L` itself without a key), every device count
`nd` dividing `B`, any number of co-batched multi-images, each with any number of types.  A
multi-image whose blocks have `L` samples is described by `mkMI L sig`,
`sig : List (key × (sample index → sample))`.
-/
namespace GinjaxVerif.C17
open GinjaxVerif.C15 (allSome gather MI lookup getL mapVals allSome_map_congr gather_map_range
  lookup_map_of_mem)

variable {α κ : Type}

/-! ## rows: the pure reshape -/

theorem rows_length (a b : Nat) (l : List α) : (rows a b l).length = a := by simp [rows]

theorem rows_succ (a b : Nat) (l : List α) :
    rows (a + 1) b l = l.take b :: rows a b (l.drop b) := by
  unfold rows
  rw [List.range_succ_eq_map, List.map_cons, List.map_map]
  congr 1
  · simp
  · apply List.map_congr_left
    intro d _
    simp only [Function.comp, List.drop_drop]
    congr 2
    rw [Nat.succ_mul, Nat.add_comm]

theorem rows_flatten (a b : Nat) (l : List α) (h : l.length = a * b) : (rows a b l).flatten = l := by
  induction a generalizing l with
  | zero =>
    have : l = [] := List.eq_nil_of_length_eq_zero (by simpa using h)
    simp [rows, this]
  | succ a ih =>
    rw [rows_succ, List.flatten_cons, ih (l.drop b), List.take_append_drop]
    rw [List.length_drop, h, Nat.succ_mul, Nat.add_sub_cancel]

theorem rows_getElem? (a b : Nat) (l : List α) (d r : Nat) (hd : d < a) (hr : r < b) :
    ((rows a b l)[d]?).bind (·[r]?) = l[d * b + r]? := by
  unfold rows
  rw [List.getElem?_map, List.getElem?_range hd]
  simp [hr]

/-! ## index slices -/

theorem batchIdxs_getElem? (π : List Nat) (B i q : Nat) (hq : q < B) :
    (batchIdxs π B i)[q]? = π[i * B + q]? := by
  simp [batchIdxs, hq]

theorem length_batchIdxs (π : List Nat) (B i : Nat) (h : (i + 1) * B ≤ π.length) :
    (batchIdxs π B i).length = B := by
  have : (i + 1) * B = i * B + B := Nat.succ_mul i B
  simp only [batchIdxs, List.length_take, List.length_drop]
  omega

theorem mem_batchIdxs (π : List Nat) (B i x : Nat) (h : x ∈ batchIdxs π B i) : x ∈ π :=
  List.mem_of_mem_drop (List.mem_of_mem_take h)

/-- the slices of one epoch, concatenated, are a prefix of the permutation -/
theorem flatMap_batchIdxs (π : List Nat) (B n : Nat) :
    (List.range n).flatMap (batchIdxs π B) = π.take (n * B) := by
  induction n with
  | zero => simp
  | succ n ih =>
    rw [List.range_succ, List.flatMap_append, ih, Nat.succ_mul, List.take_add]
    simp [batchIdxs]

theorem succ_mul_le_of_lt_div {i L B : Nat} (hB : 0 < B) (hi : i < L / B) : (i + 1) * B ≤ L :=
  (Nat.le_div_iff_mul_le hB).mp hi

/-! ## refinement -/

theorem getSubset_mkMI (L : Nat) (sig : List (κ × (Nat → α))) (idxs : List Nat)
    (h : ∀ i ∈ idxs, i < L) :
    getSubset idxs (mkMI L sig) = some (sig.map (fun e => (e.1, idxs.map e.2))) := by
  unfold getSubset mkMI
  rw [List.map_map]
  apply allSome_map_congr
  intro e _
  simp only [Function.comp]
  rw [gather_map_range L e.2 idxs h]
  rfl

theorem reshapePmap_uniform {nd : Nat} (hnd : 0 < nd) (m : MI κ (List α)) (L' : Nat)
    (hall : ∀ kb ∈ m, kb.2.length = L') (hdiv : nd ∣ L') :
    reshapePmap nd m = some (mapVals (rows nd (L' / nd)) m) := by
  unfold reshapePmap
  have hnd' : ¬ nd = 0 := by omega
  cases m with
  | nil => simp [getL, allSome, mapVals, hnd']
  | cons kb0 r =>
    have hL : getL (kb0 :: r) = L' := by
      obtain ⟨k0, b0⟩ := kb0
      exact hall (k0, b0) (by simp)
    have hmod : ¬ L' % nd ≠ 0 := by
      obtain ⟨q, rfl⟩ := hdiv
      simp
    simp only [hL, hnd', hmod, if_false]
    unfold mapVals
    apply allSome_map_congr
    intro kb hkb
    have : kb.2.length = nd * (L' / nd) := by
      rw [hall kb hkb, Nat.mul_div_cancel' hdiv]
    simp [reshape2, this]

theorem getL_mkMI (L : Nat) (sig : List (κ × (Nat → α))) (hne : sig ≠ []) : getL (mkMI L sig) = L := by
  cases sig with
  | nil => exact absurd rfl hne
  | cons e r => simp [mkMI, getL]

/-- what the statement says the batches are: batch `i` of every multi-image and every type is the
samples `π[i·B .. (i+1)·B)` in that order, cut into `nd` device rows -/
def specBatches (π : List Nat) (B nd L : Nat) (sigs : List (List (κ × (Nat → α)))) :
    List (List (MI κ (List (List α)))) :=
  sigs.map (fun sig => (List.range (L / B)).map (fun i =>
    sig.map (fun e => (e.1, rows nd (B / nd) ((batchIdxs π B i).map e.2)))))

theorem getBatches_cons (perm : Option (List Nat)) (B nd : Nat) (m0 : MI κ (List α))
    (r : List (MI κ (List α))) (hB : ¬ B = 0) :
    getBatches perm B nd (m0 :: r) = allSome ((m0 :: r).map (fun mi =>
      allSome ((List.range (getL m0 / B)).map (fun i =>
        match getSubset (((batchIndices perm (getL m0)).drop (i * B)).take B) mi with
        | none => none
        | some sub => reshapePmap nd sub)))) := by
  simp only [getBatches, hB, if_false]
  rfl

/-- **refinement**: the code's loop computes exactly the batches of the statement -/
theorem getBatches_eq_spec (perm : Option (List Nat)) {L B nd : Nat} (hB : 0 < B) (hnd : 0 < nd)
    (hdiv : nd ∣ B) (hπ : (batchIndices perm L).Perm (List.range L))
    (sig0 : List (κ × (Nat → α))) (hne : sig0 ≠ []) (rest : List (List (κ × (Nat → α)))) :
    getBatches perm B nd ((sig0 :: rest).map (mkMI L))
      = some (specBatches (batchIndices perm L) B nd L (sig0 :: rest)) := by
  have hlen : (batchIndices perm L).length = L := by simpa using hπ.length_eq
  have hB' : ¬ B = 0 := by omega
  rw [List.map_cons, getBatches_cons perm B nd _ _ hB', getL_mkMI L sig0 hne,
    ← List.map_cons (f := mkMI L), List.map_map]
  unfold specBatches
  apply allSome_map_congr
  intro sig _
  simp only [Function.comp]
  apply allSome_map_congr
  intro i hi
  have hi' : i < L / B := List.mem_range.mp hi
  have hle := succ_mul_le_of_lt_div hB hi'
  have hlt : ∀ x ∈ (List.drop (i * B) (batchIndices perm L)).take B, x < L := by
    intro x hx
    have : x ∈ List.range L := (hπ.mem_iff).mp (mem_batchIdxs _ B i x hx)
    exact List.mem_range.mp this
  have hl : ((List.drop (i * B) (batchIndices perm L)).take B).length = B :=
    length_batchIdxs _ B i (by rw [hlen]; exact hle)
  rw [getSubset_mkMI L sig _ hlt]
  simp only
  rw [reshapePmap_uniform hnd _ B _ hdiv]
  · simp [mapVals, batchIdxs]
  · intro kb hkb
    simp only [List.mem_map] at hkb
    obtain ⟨e, _, rfl⟩ := hkb
    show (List.map e.2 _).length = B
    rw [List.length_map]
    exact hl

/-! ## the property -/

section Property
variable (perm : Option (List Nat)) {L B nd : Nat} (hB : 0 < B) (hnd : 0 < nd) (hdiv : nd ∣ B)
  (hπ : (batchIndices perm L).Perm (List.range L))
  (sig0 : List (κ × (Nat → α))) (hne : sig0 ≠ []) (rest : List (List (κ × (Nat → α))))
include hB hnd hdiv hπ hne

/-- **count**: one list of batches per co-batched multi-image, each of `⌊L / B⌋` batches -/
theorem batches_length :
    ∃ out, getBatches perm B nd ((sig0 :: rest).map (mkMI L)) = some out ∧
      out.length = (sig0 :: rest).length ∧ ∀ row ∈ out, row.length = L / B := by
  refine ⟨_, getBatches_eq_spec perm hB hnd hdiv hπ sig0 hne rest, by simp [specBatches], ?_⟩
  intro row hrow
  simp only [specBatches, List.mem_map] at hrow
  obtain ⟨sig, _, rfl⟩ := hrow
  simp

/-- **alignment**: batch `i` of multi-image `j`, type `k`: its `nd` device rows, read in order,
are the samples with indices `π[i·B], …, π[(i+1)·B − 1]`; device row `d`, position `r` holds
sample `π[i·B + d·(B/nd) + r]`.  The index depends on neither `j` nor `k`: all co-batched
multi-images and all their types are sliced with the same indices in the same order, so input
sample `i` stays paired with target sample `i`. -/
theorem batches_aligned [DecidableEq κ] (j : Nat) (sig : List (κ × (Nat → α)))
    (hj : (sig0 :: rest)[j]? = some sig) (hk : (sig.map Prod.fst).Nodup)
    (k : κ) (smp : Nat → α) (he : (k, smp) ∈ sig) (i : Nat) (hi : i < L / B) :
    ∃ out row mi blk, getBatches perm B nd ((sig0 :: rest).map (mkMI L)) = some out ∧
      out[j]? = some row ∧ row[i]? = some mi ∧ lookup k mi = some blk ∧
      blk.length = nd ∧
      blk.flatten = (batchIdxs (batchIndices perm L) B i).map smp ∧
      ∀ d r, d < nd → r < B / nd →
        (blk[d]?).bind (·[r]?) = ((batchIndices perm L)[i * B + (d * (B / nd) + r)]?).map smp := by
  have hlen : (batchIndices perm L).length = L := by simpa using hπ.length_eq
  have hl : (batchIdxs (batchIndices perm L) B i).length = B :=
    length_batchIdxs _ B i (by rw [hlen]; exact succ_mul_le_of_lt_div hB hi)
  refine ⟨_,
    (List.range (L / B)).map (fun i => sig.map (fun e =>
      (e.1, rows nd (B / nd) ((batchIdxs (batchIndices perm L) B i).map e.2)))),
    sig.map (fun e => (e.1, rows nd (B / nd) ((batchIdxs (batchIndices perm L) B i).map e.2))),
    rows nd (B / nd) ((batchIdxs (batchIndices perm L) B i).map smp),
    getBatches_eq_spec perm hB hnd hdiv hπ sig0 hne rest, ?_, ?_, ?_, rows_length _ _ _, ?_, ?_⟩
  · simp only [specBatches, List.getElem?_map, hj, Option.map_some]
  · simp only [List.getElem?_map, List.getElem?_range hi, Option.map_some]
  · exact lookup_map_of_mem sig Prod.fst
      (fun e => rows nd (B / nd) ((batchIdxs (batchIndices perm L) B i).map e.2)) hk (k, smp) he
  · apply rows_flatten
    rw [List.length_map, hl, Nat.mul_div_cancel' hdiv]
  · intro d r hd hr
    rw [rows_getElem? nd (B / nd) _ d r hd hr, List.getElem?_map, batchIdxs_getElem?]
    calc d * (B / nd) + r < d * (B / nd) + B / nd := by omega
      _ = (d + 1) * (B / nd) := by rw [Nat.succ_mul]
      _ ≤ nd * (B / nd) := Nat.mul_le_mul_right _ hd
      _ = B := Nat.mul_div_cancel' hdiv

omit hnd hdiv hne hB in
/-- **partition**: the index slices of one epoch, concatenated, are the first `⌊L/B⌋·B` entries
of the permutation: every sample index occurs at most once per epoch, and every index is a valid
sample. -/
theorem batches_nodup :
    (List.range (L / B)).flatMap (batchIdxs (batchIndices perm L) B)
        = (batchIndices perm L).take (L / B * B) ∧
      ((List.range (L / B)).flatMap (batchIdxs (batchIndices perm L) B)).Nodup ∧
      ∀ x ∈ (List.range (L / B)).flatMap (batchIdxs (batchIndices perm L) B), x < L := by
  have hnd : (batchIndices perm L).Nodup := (hπ.nodup_iff).mpr List.nodup_range
  rw [flatMap_batchIdxs]
  refine ⟨rfl, (List.take_sublist _ _).nodup hnd, ?_⟩
  intro x hx
  exact List.mem_range.mp ((hπ.mem_iff).mp (List.mem_of_mem_take hx))

end Property

/-- without a key the batch indices are `0, 1, …, L−1`, and batch `i` is the samples
`i·B, …, i·B + B − 1` in order -/
theorem batchIdxs_range (L B i : Nat) (hB : 0 < B) (hi : i < L / B) :
    batchIdxs (batchIndices none L) B i = List.range' (i * B) B := by
  have hle := succ_mul_le_of_lt_div hB hi
  have e : (i + 1) * B = i * B + B := Nat.succ_mul i B
  show batchIdxs (List.range L) B i = List.range' (i * B) B
  apply List.ext_getElem
  · rw [length_batchIdxs _ B i (by simpa using hle)]
    simp
  · intro q h1 h2
    have hq : q < B := by simpa using h2
    have := batchIdxs_getElem? (List.range L) B i q hq
    rw [List.getElem?_eq_getElem h1] at this
    have hlt : i * B + q < L := by omega
    simp only [List.getElem?_range hlt, Option.some.injEq] at this
    rw [this]
    simp

/-- **identity without a key**: device row `d`, position `r` of batch `i` of every multi-image and
type is sample `i·B + d·(B/nd) + r`. -/
theorem identity_without_key [DecidableEq κ] {L B nd : Nat} (hB : 0 < B) (hnd : 0 < nd)
    (hdiv : nd ∣ B) (sig0 : List (κ × (Nat → α))) (hne : sig0 ≠ [])
    (rest : List (List (κ × (Nat → α)))) (j : Nat) (sig : List (κ × (Nat → α)))
    (hj : (sig0 :: rest)[j]? = some sig) (hk : (sig.map Prod.fst).Nodup)
    (k : κ) (smp : Nat → α) (he : (k, smp) ∈ sig) (i : Nat) (hi : i < L / B) :
    ∃ out row mi blk, getBatches none B nd ((sig0 :: rest).map (mkMI L)) = some out ∧
      out[j]? = some row ∧ row[i]? = some mi ∧ lookup k mi = some blk ∧
      blk.flatten = (List.range' (i * B) B).map smp ∧
      ∀ d r, d < nd → r < B / nd →
        (blk[d]?).bind (·[r]?) = some (smp (i * B + (d * (B / nd) + r))) := by
  obtain ⟨out, row, mi, blk, h1, h2, h3, h4, _, h6, h7⟩ :=
    batches_aligned none hB hnd hdiv (List.Perm.refl _) sig0 hne rest j sig hj hk k smp he i hi
  refine ⟨out, row, mi, blk, h1, h2, h3, h4, ?_, ?_⟩
  · rw [h6, batchIdxs_range L B i hB hi]
  · intro d r hd hr
    rw [h7 d r hd hr]
    have hle := succ_mul_le_of_lt_div hB hi
    have e : (i + 1) * B = i * B + B := Nat.succ_mul i B
    have hlt : d * (B / nd) + r < B :=
      calc d * (B / nd) + r < d * (B / nd) + B / nd := by omega
        _ = (d + 1) * (B / nd) := by rw [Nat.succ_mul]
        _ ≤ nd * (B / nd) := Nat.mul_le_mul_right _ hd
        _ = B := Nat.mul_div_cancel' hdiv
    have : i * B + (d * (B / nd) + r) < L := by omega
    simp [batchIndices, List.getElem?_range this]

/-- **the device axis only reshapes**: for every multi-image whose blocks have `L'` samples and
every device count dividing `L'`, `reshape_pmap` succeeds, keeps keys and order of types, and
every block becomes `nd` rows whose concatenation is the original block: row `d`, position `r`
is sample `d·(L'/nd) + r`. -/
theorem reshapePmap_get {nd : Nat} (hnd : 0 < nd) (m : MI κ (List α)) (L' : Nat)
    (hall : ∀ kb ∈ m, kb.2.length = L') (hdiv : nd ∣ L') :
    reshapePmap nd m = some (mapVals (rows nd (L' / nd)) m) ∧
      ∀ kb ∈ m, (rows nd (L' / nd) kb.2).length = nd ∧
        (rows nd (L' / nd) kb.2).flatten = kb.2 ∧
        ∀ d r, d < nd → r < L' / nd →
          ((rows nd (L' / nd) kb.2)[d]?).bind (·[r]?) = kb.2[d * (L' / nd) + r]? := by
  refine ⟨reshapePmap_uniform hnd m L' hall hdiv, ?_⟩
  intro kb hkb
  refine ⟨rows_length _ _ _, rows_flatten _ _ _ ?_, fun d r hd hr => rows_getElem? _ _ _ d r hd hr⟩
  rw [hall kb hkb, Nat.mul_div_cancel' hdiv]

/-- a device count that does not divide the batch is rejected (the `assert`) -/
theorem reshapePmap_reject (nd : Nat) (m : MI κ (List α)) (h : getL m % nd ≠ 0) :
    reshapePmap nd m = none := by
  unfold reshapePmap
  by_cases h0 : nd = 0
  · simp [h0]
  · simp [h0, h]

/-! ## non-vacuity -/

/-- inputs (two types) and targets (one type) of a data set of 7 samples -/
def exSigs : List (List (Nat × (Nat → Nat))) :=
  [[(0, fun i => 100 + i), (1, fun i => 200 + i)], [(0, fun i => 900 + i)]]

def exPerm : List Nat := [3, 0, 6, 2, 5, 1, 4]

theorem exPerm_perm : (batchIndices (some exPerm) 7).Perm (List.range 7) := by decide

example : getBatches (some exPerm) 2 2 (exSigs.map (mkMI 7))
    = some [[[(0, [[103], [100]]), (1, [[203], [200]])],
             [(0, [[106], [102]]), (1, [[206], [202]])],
             [(0, [[105], [101]]), (1, [[205], [201]])]],
            [[(0, [[903], [900]])], [(0, [[906], [902]])], [(0, [[905], [901]])]]] := by decide

example : ∃ out, getBatches (some exPerm) 2 2 (exSigs.map (mkMI 7)) = some out ∧
    out.length = 2 ∧ ∀ row ∈ out, row.length = 7 / 2 :=
  batches_length (L := 7) (B := 2) (nd := 2) (some exPerm) (by decide) (by decide) (by decide)
    exPerm_perm [(0, fun i => 100 + i), (1, fun i => 200 + i)] (by decide) [[(0, fun i => 900 + i)]]

example : ∃ out row mi blk, getBatches (some exPerm) 2 2 (exSigs.map (mkMI 7)) = some out ∧
    out[1]? = some row ∧ row[2]? = some mi ∧ lookup 0 mi = some blk ∧ blk.length = 2 ∧
    blk.flatten = [905, 901] ∧ (blk[1]?).bind (·[0]?) = some 901 := by
  obtain ⟨out, row, mi, blk, h1, h2, h3, h4, h5, h6, h7⟩ :=
    batches_aligned (L := 7) (B := 2) (nd := 2) (some exPerm) (by decide) (by decide) (by decide)
      exPerm_perm [(0, fun i => 100 + i), (1, fun i => 200 + i)] (by decide)
      [[(0, fun i => 900 + i)]] 1 [(0, fun i => 900 + i)] rfl (by decide) 0 (fun i => 900 + i)
      List.mem_cons_self 2 (by decide)
  exact ⟨out, row, mi, blk, h1, h2, h3, h4, h5, h6, h7 1 0 (by decide) (by decide)⟩

example : ((List.range (7 / 2)).flatMap (batchIdxs exPerm 2)).Nodup :=
  (batches_nodup (some exPerm) (L := 7) (B := 2) exPerm_perm).2.1

example : ∃ out row mi blk, getBatches none 4 2 (exSigs.map (mkMI 9)) = some out ∧
    out[0]? = some row ∧ row[1]? = some mi ∧ lookup 1 mi = some blk ∧
    blk.flatten = [204, 205, 206, 207] ∧ (blk[1]?).bind (·[1]?) = some 207 := by
  obtain ⟨out, row, mi, blk, h1, h2, h3, h4, h5, h6⟩ :=
    identity_without_key (L := 9) (B := 4) (nd := 2) (by decide) (by decide) (by decide)
      [(0, fun i => 100 + i), (1, fun i => 200 + i)] (by decide)
      [[(0, fun i => 900 + i)]] 0 [(0, fun i => 100 + i), (1, fun i => 200 + i)] rfl (by decide)
      1 (fun i => 200 + i) (List.mem_cons_of_mem _ List.mem_cons_self) 1 (by decide)
  exact ⟨out, row, mi, blk, h1, h2, h3, h4, h5, h6 1 1 (by decide) (by decide)⟩

example : reshapePmap 3 (mkMI 6 [(0, fun i => i), (1, fun i => 10 + i)])
    = some [(0, [[0, 1], [2, 3], [4, 5]]), (1, [[10, 11], [12, 13], [14, 15]])] :=
  (reshapePmap_get (by decide) _ 6 (by decide) (by decide)).1

example : reshapePmap 4 (mkMI 6 [(0, fun i => i)]) = none :=
  reshapePmap_reject _ _ (by decide)

end GinjaxVerif.C17
