import GinjaxVerif.Lemmas.C08Norm
import Mathlib.Tactic.FinCases
import Mathlib.Tactic.Linarith

/-!
# C08 — scope boundary of the whitening theorems: Cholesky whitening is not conjugation-equivariant

`_group_norm_K1(method="cholesky")` (`ml/layers.py`, lines 64-72) whitens with the triangular factor:
`whitened = x L⁻¹` per row vector, i.e. the matrix applied to a vector is `W = L⁻ᵀ`, `L Lᵀ = cov`,
`L` lower triangular with positive diagonal.  The library documents this method as not equivariant.
`groupNorm_vector_equivariant` needs `hS : S (g C gᵀ) = g (S C) gᵀ`; this file shows, on an exact
rational example, that **no** matrix function that returns the Cholesky whitening matrix at the
covariance `[[25,15],[15,25]]` satisfies `hS` for the axis swap: the covariance is invariant under the
swap, but its whitening matrix `L⁻ᵀ = [[1/5, −3/20], [0, 1/4]]` is not.  (`hS_invSqrt` is the
corresponding positive statement for the symmetric inverse square root the default method computes.)
-/
namespace GinjaxVerif.C08

open GinjaxVerif

/-- the swap of the two axes of the plane -/
def swap2 : Mat 2 := fun i j => if i = j then 0 else 1

theorem swap2_signedPerm : isSignedPerm swap2 = true := by decide

/-- the covariance `[[25, 15], [15, 25]]` (symmetric, positive definite, invariant under the swap) -/
def covA : RMat Rat 2 := fun i j => if i = j then 25 else 15

/-- its Cholesky factor `[[5, 0], [3, 4]]` -/
def cholA : RMat Rat 2 := fun i j => if i = 0 then (if j = 0 then 5 else 0) else (if j = 0 then 3 else 4)

/-- `L` is the Cholesky factor of `A`: lower triangular, positive diagonal, `L Lᵀ = A` -/
def IsCholesky {d : Nat} (L A : RMat Rat d) : Prop :=
  (∀ i j, i < j → L i j = 0) ∧ (∀ i, 0 < L i i) ∧ rmul L (fun i j => L j i) = A

theorem cholA_isCholesky : IsCholesky cholA covA := by
  refine ⟨?_, ?_, ?_⟩
  · intro i j hij
    fin_cases i <;> fin_cases j <;> simp_all [cholA]
  · intro i
    fin_cases i <;> simp [cholA]
  · funext i j
    fin_cases i <;> fin_cases j <;> simp [rmul, Fin.sum_univ_two, cholA, covA] <;> norm_num

theorem covA_symm : ∀ i j, covA i j = covA j i := by
  intro i j
  fin_cases i <;> fin_cases j <;> simp [covA]

theorem covA_swap_invariant : conjMat swap2 covA = covA := by
  funext i j
  fin_cases i <;> fin_cases j <;> simp [conjMat, sumFin_eq, Fin.sum_univ_two, swap2, covA]

/-- **Cholesky whitening is not conjugation-equivariant**: every matrix function `S` whose value at
`covA` is the Cholesky whitening matrix (`S covA · Lᵀ = 1` for the Cholesky factor `L` of `covA`,
i.e. `S covA = L⁻ᵀ`, what `triangular_solve(L, x, left_side=False, lower=True)` applies) violates
the hypothesis `hS` of `groupNorm_vector_equivariant` at the symmetric matrix `covA` and the axis
swap, an element of `B_2` -/
theorem whitening_cholesky_not_equivariant (S : RMat Rat 2 → RMat Rat 2)
    (hS : rmul (S covA) (fun i j => cholA j i) = fun i j => if i = j then 1 else 0) :
    ¬ (S (conjMat swap2 covA) = conjMat swap2 (S covA)) := by
  intro h
  rw [covA_swap_invariant] at h
  have h01 := congrFun (congrFun h 0) 1
  have e00 := congrFun (congrFun hS 0) 0
  have e01 := congrFun (congrFun hS 0) 1
  have e10 := congrFun (congrFun hS 1) 0
  simp [conjMat, sumFin_eq, Fin.sum_univ_two, swap2] at h01
  simp [rmul, Fin.sum_univ_two, cholA] at e00 e01 e10
  linarith

/-- non-vacuity: the hypothesis is satisfied by (any function returning) `L⁻ᵀ = [[1/5, −3/20], [0, 1/4]]` -/
example : rmul ((fun _ => fun i j =>
      if i = 0 then (if j = 0 then (1 / 5 : Rat) else -3 / 20) else (if j = 0 then 0 else 1 / 4) :
      RMat Rat 2 → RMat Rat 2) covA)
    (fun i j => cholA j i) = fun i j => if i = j then 1 else 0 := by
  funext i j
  fin_cases i <;> fin_cases j <;> simp [rmul, Fin.sum_univ_two, cholA] <;> norm_num

end GinjaxVerif.C08
