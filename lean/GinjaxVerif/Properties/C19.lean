import GinjaxVerif.Model.C19
import Mathlib.Order.Defs.LinearOrder
import Mathlib.Algebra.Group.Basic
import Mathlib.Algebra.Order.Monoid.Unbundled.Basic
import Mathlib.Algebra.Order.Group.Unbundled.Basic
import Mathlib.Tactic.Linarith

/-!
# C19 — property theorems

Everything is stated for an arbitrary loss type `Q` with a decidable strict order and a
subtraction (so in particular for ℚ and ℝ), every patience, every `min_delta`, every history.
-/
namespace GinjaxVerif.C19

section Machine
variable {Q : Type} [LT Q] [DecidableLT Q] [Sub Q]

/-- The machine state agrees with the declarative spec of a history (newest first). -/
structure Rel (delta : Q) (m0 : Option Nat) (s : PState Q) (past : List Q) : Prop where
  best : s.best = bestOf delta past
  since : s.since = trailing delta past
  model : s.bestModel = if argBest delta past = 0 then m0 else some (argBest delta past)

theorem rel_init (delta : Q) (m0 : Option Nat) : Rel delta m0 (PState.init m0) [] :=
  ⟨rfl, rfl, rfl⟩

/-- One call with a loss keeps the relation, and its verdict is "more than `patience` trailing
non-improvements". -/
theorem pStep_rel (patience : Nat) (delta : Q) (m0 : Option Nat) (s : PState Q) (past : List Q)
    (x : Q) (h : Rel delta m0 s past) :
    Rel delta m0 (pStep patience delta s (past.length + 1) (some x)).1 (x :: past) ∧
      (pStep patience delta s (past.length + 1) (some x)).2
        = decide (trailing delta (x :: past) > patience) := by
  unfold pStep
  by_cases hi : improves delta x s.best = true
  · have hi' : improves delta x (bestOf delta past) = true := by rw [← h.best]; exact hi
    simp only [hi, if_true]
    refine ⟨⟨?_, ?_, ?_⟩, ?_⟩
    · simp [bestOf, hi']
    · simp [trailing, hi']
    · simp [argBest, hi']
    · simp [trailing, hi']
  · have hi' : ¬ improves delta x (bestOf delta past) = true := by rw [← h.best]; exact hi
    simp only [hi]
    refine ⟨⟨?_, ?_, ?_⟩, ?_⟩
    · simp [bestOf, hi', h.best]
    · simp [trailing, hi', h.since]
    · simp [argBest, hi', h.model]
    · simp [trailing, hi', h.since]

/-- A call without a loss (the first call of the training loop) changes nothing and never stops. -/
theorem pStep_none (patience : Nat) (delta : Q) (s : PState Q) (m : Nat) :
    pStep patience delta s m none = (s, false) := rfl

/-- Verdicts of a whole history: the `i`-th call (0-based) answers exactly
`trailing (first i+1 losses) > patience`.  `h` is chronological. -/
theorem pRun_spec (patience : Nat) (delta : Q) (m0 : Option Nat) (h : List Q) :
    ∀ (s : PState Q) (past : List Q), Rel delta m0 s past →
      Rel delta m0 (pRun patience delta s (past.length + 1) (h.map some)).1 (h.reverse ++ past) ∧
      (pRun patience delta s (past.length + 1) (h.map some)).2
        = (List.range h.length).map
            (fun i => decide (trailing delta ((h.take (i + 1)).reverse ++ past) > patience)) := by
  induction h with
  | nil => intro s past hr; exact ⟨by simpa [pRun] using hr, by simp [pRun]⟩
  | cons x xs ih =>
    intro s past hr
    obtain ⟨hr', hv⟩ := pStep_rel patience delta m0 s past x hr
    have := ih (pStep patience delta s (past.length + 1) (some x)).1 (x :: past) hr'
    simp only [List.length_cons] at this
    obtain ⟨h1, h2⟩ := this
    constructor
    · simpa [pRun] using h1
    · simp only [List.map_cons, pRun, List.length_cons, List.range_succ_eq_map, List.map_cons,
        List.map_map]
      rw [h2, hv]
      simp [Function.comp_def]

/-- Characterisation of the counter: at least `k` trailing non-improvements iff the last `k`
losses each failed the improvement test against the best tracked before them. -/
theorem le_trailing_iff (delta : Q) (h : List Q) (k : Nat) :
    k ≤ trailing delta h ↔
      k ≤ h.length ∧ ∀ i, i < k → ∀ x past, h.drop i = x :: past →
        improves delta x (bestOf delta past) = false := by
  induction h generalizing k with
  | nil =>
    simp only [trailing, Nat.le_zero_eq, List.length_nil, List.drop_nil, reduceCtorEq,
      false_imp_iff, implies_true, and_true]
  | cons y ys ih =>
    cases k with
    | zero => simp
    | succ k =>
      by_cases hy : improves delta y (bestOf delta ys) = true
      · simp only [trailing, hy, if_true, Nat.le_zero_eq, Nat.add_one_ne_zero, false_iff,
          List.length_cons, not_and, not_forall]
        intro _
        exact ⟨0, Nat.succ_pos _, y, ys, rfl, by simp [hy]⟩
      · have hy' : improves delta y (bestOf delta ys) = false := by simpa using hy
        simp only [trailing, hy', Bool.false_eq_true, if_false, Nat.add_le_add_iff_right,
          List.length_cons, ih]
        constructor
        · rintro ⟨hl, hall⟩
          refine ⟨hl, ?_⟩
          intro i hi x past hd
          cases i with
          | zero =>
            simp only [List.drop_zero, List.cons.injEq] at hd
            obtain ⟨rfl, rfl⟩ := hd; exact hy'
          | succ i => exact hall i (Nat.lt_of_succ_lt_succ hi) x past (by simpa using hd)
        · rintro ⟨hl, hall⟩
          refine ⟨hl, ?_⟩
          intro i hi x past hd
          exact hall (i + 1) (Nat.succ_lt_succ hi) x past (by simpa using hd)

/-- **stop_true_iff.**  After any history `h` (newest first) the verdict of the last call is
`true` iff the last `patience + 1` losses all failed to improve on the best tracked before them. -/
theorem stop_true_iff (patience : Nat) (delta : Q) (h : List Q) :
    trailing delta h > patience ↔
      patience + 1 ≤ h.length ∧ ∀ i, i < patience + 1 → ∀ x past, h.drop i = x :: past →
        improves delta x (bestOf delta past) = false :=
  le_trailing_iff delta h (patience + 1)

/-- The tracked best is one of the losses of the history, namely the loss of epoch `argBest`. -/
theorem best_is_loss_of_argBest (delta : Q) (h : List Q) :
    (argBest delta h = 0 ∧ bestOf delta h = none) ∨
    (0 < argBest delta h ∧ argBest delta h ≤ h.length ∧
      bestOf delta h = h.reverse[argBest delta h - 1]?) := by
  induction h with
  | nil => left; exact ⟨rfl, rfl⟩
  | cons x xs ih =>
    by_cases hx : improves delta x (bestOf delta xs) = true
    · right
      simp only [argBest, hx, if_true, bestOf, List.length_cons, List.reverse_cons]
      refine ⟨Nat.succ_pos _, Nat.le_refl _, ?_⟩
      rw [Nat.add_sub_cancel, List.getElem?_append_right (by simp), List.length_reverse,
        Nat.sub_self]
      rfl
    · have hx' : improves delta x (bestOf delta xs) = false := by simpa using hx
      simp only [argBest, hx', bestOf, List.length_cons, List.reverse_cons, Bool.false_eq_true,
        if_false]
      rcases ih with ⟨h0, hn⟩ | ⟨hp, hle, hb⟩
      · left; exact ⟨h0, hn⟩
      · right
        refine ⟨hp, Nat.le_succ_of_le hle, ?_⟩
        rw [hb, List.getElem?_append_left (by rw [List.length_reverse]; omega)]

/-- With an empty history nothing is tracked; after at least one loss something is. -/
theorem bestOf_isSome (delta : Q) (x : Q) (past : List Q) : (bestOf delta (x :: past)).isSome := by
  induction past generalizing x with
  | nil => simp [bestOf, improves]
  | cons y ys ih =>
    unfold bestOf
    split
    · rfl
    · exact ih y

end Machine

section Order
variable {Q : Type} [LinearOrder Q] [AddGroup Q]

/-- For `min_delta = 0` the tracked best is a minimum of the history. -/
theorem bestOf_zero_le (h : List Q) (b : Q) (hb : bestOf (0 : Q) h = some b) :
    ∀ x ∈ h, b ≤ x := by
  induction h generalizing b with
  | nil => intro x hx; cases hx
  | cons y ys ih =>
    intro x hx
    unfold bestOf at hb
    by_cases hy : improves (0 : Q) y (bestOf 0 ys) = true
    · rw [if_pos hy] at hb
      cases hb
      rcases List.mem_cons.mp hx with rfl | hx
      · exact le_rfl
      · cases hbo : bestOf (0 : Q) ys with
        | none =>
          cases ys with
          | nil => cases hx
          | cons z zs => have := bestOf_isSome (0 : Q) z zs; rw [hbo] at this; cases this
        | some c =>
          rw [hbo] at hy
          simp only [improves, sub_zero, decide_eq_true_eq] at hy
          exact le_trans (le_of_lt hy) (ih c hbo x hx)
    · rw [if_neg hy] at hb
      rcases List.mem_cons.mp hx with rfl | hx
      · rw [hb] at hy
        simp only [improves, sub_zero, decide_eq_true_eq, not_lt] at hy
        exact hy
      · exact ih b hb x hx

end Order

section Loop
variable {Q : Type} [LT Q] [DecidableLT Q] [Sub Q]

/-- chronological history of the first `n` epochs of a loss stream, newest first -/
def hist (loss : Nat → Q) : Nat → List Q
  | 0 => []
  | n + 1 => loss n :: hist loss n

omit [LT Q] [DecidableLT Q] [Sub Q] in
theorem hist_length (loss : Nat → Q) (n : Nat) : (hist loss n).length = n := by
  induction n with
  | zero => rfl
  | succ n ih => simp [hist, ih]

/-- Loop invariant: from a state related to `hist loss e` at epoch `e+1`… -/
theorem pLoop_spec (patience : Nat) (delta : Q) (loss : Nat → Q) (m0 : Option Nat) (n : Nat)
    (hstop : trailing delta (hist loss n) > patience)
    (hfirst : ∀ m, m < n → ¬ trailing delta (hist loss m) > patience) :
    ∀ (k : Nat) (s : PState Q), k ≤ n → k ≠ 0 → Rel delta m0 s (hist loss (k - 1)) →
      ∀ fuel, n - k < fuel →
      pLoop patience delta loss fuel s k
        = some (n, if argBest delta (hist loss n) = 0 then m0
                   else some (argBest delta (hist loss n))) := by
  intro k
  induction hk : n - k generalizing k with
  | zero =>
    intro s hkn hk0 hr fuel hf
    have hkn' : k = n := by omega
    subst hkn'
    obtain ⟨f, rfl⟩ : ∃ f, fuel = f + 1 := ⟨fuel - 1, by omega⟩
    obtain ⟨k', rfl⟩ : ∃ k', k = k' + 1 := ⟨k - 1, by omega⟩
    simp only [Nat.add_sub_cancel] at hr
    have := pStep_rel patience delta m0 s (hist loss k') (loss k') hr
    rw [hist_length] at this
    obtain ⟨hr', hv⟩ := this
    simp only [pLoop, Nat.add_one_ne_zero, if_false, Nat.add_sub_cancel]
    have hv' : (pStep patience delta s (k' + 1) (some (loss k'))).2 = true := by
      rw [hv]; simpa [hist] using hstop
    rw [hv']
    simp only [if_true]
    rw [hr'.model]; rfl
  | succ d ih =>
    intro s hkn hk0 hr fuel hf
    obtain ⟨f, rfl⟩ : ∃ f, fuel = f + 1 := ⟨fuel - 1, by omega⟩
    obtain ⟨k', rfl⟩ : ∃ k', k = k' + 1 := ⟨k - 1, by omega⟩
    simp only [Nat.add_sub_cancel] at hr
    have := pStep_rel patience delta m0 s (hist loss k') (loss k') hr
    rw [hist_length] at this
    obtain ⟨hr', hv⟩ := this
    simp only [pLoop, Nat.add_one_ne_zero, if_false, Nat.add_sub_cancel]
    have hv' : (pStep patience delta s (k' + 1) (some (loss k'))).2 = false := by
      rw [hv]
      have := hfirst (k' + 1) (by omega)
      simpa [hist] using this
    rw [hv']
    simp only [Bool.false_eq_true, if_false]
    exact ih (k' + 1 + 1) (by omega) _ (by omega) (by omega) (by simpa [hist] using hr') f (by omega)

/-- **trainLoop_terminates.**  If epoch `n ≥ 1` is the first epoch after which more than
`patience` consecutive epochs failed to improve, the training loop (whose first call carries no
loss) stops exactly at epoch `n` and hands back the model of the epoch of the last improvement
(the initial model if there never was one), provided it is given enough fuel. -/
theorem trainLoop_terminates (patience : Nat) (delta : Q) (loss : Nat → Q) (n : Nat)
    (hstop : trailing delta (hist loss n) > patience)
    (hfirst : ∀ m, m < n → ¬ trailing delta (hist loss m) > patience)
    (fuel : Nat) (hf : n + 1 < fuel) :
    trainLoopP patience delta loss fuel
      = some (n, if argBest delta (hist loss n) = 0 then some 0
                 else some (argBest delta (hist loss n))) := by
  have hn : n ≠ 0 := by
    rintro rfl
    simp [hist, trailing] at hstop
  obtain ⟨f, rfl⟩ : ∃ f, fuel = f + 1 := ⟨fuel - 1, by omega⟩
  unfold trainLoopP
  simp only [pLoop, if_true, pStep, Bool.false_eq_true, if_false, Nat.zero_add]
  exact pLoop_spec patience delta loss (some 0) n hstop hfirst 1 _ (by omega) (by omega)
    (by simpa [hist] using rel_init delta (some 0)) f (by omega)

/-- **epochStop_exact.**  The epoch-count condition stops after exactly `epochs` epochs and hands
back the last model. -/
theorem eLoop_spec (epochs : Nat) :
    ∀ (k fuel : Nat), k ≤ epochs → epochs - k < fuel →
      eLoop epochs fuel k = some (epochs, some epochs) := by
  intro k
  induction hk : epochs - k generalizing k with
  | zero =>
    intro fuel hle hf
    obtain ⟨f, rfl⟩ : ∃ f, fuel = f + 1 := ⟨fuel - 1, by omega⟩
    have : k = epochs := by omega
    subst this
    simp [eLoop, eStep]
  | succ d ih =>
    intro fuel hle hf
    obtain ⟨f, rfl⟩ : ∃ f, fuel = f + 1 := ⟨fuel - 1, by omega⟩
    have hlt : ¬ k ≥ epochs := by omega
    simp only [eLoop, eStep, hlt, decide_false, Bool.false_eq_true, if_false]
    exact ih (k + 1) (by omega) f (by omega) (by omega)

theorem epochStop_exact (epochs fuel : Nat) (hf : epochs < fuel) :
    eLoop epochs fuel 0 = some (epochs, some epochs) :=
  eLoop_spec epochs 0 fuel (Nat.zero_le _) (by omega)

/-- The repaired conditions never look at how the loss is represented: the model of `stop`
has no `Rep` argument at all.  The legacy guard did, and with the representation the training
loop supplies it never stopped (defect D9). -/
theorem legacy_guard_never_stops (patience : Nat) (delta : Q) (s : PState Q) (m : Nat) (x : Q) :
    pStepLegacy patience delta s m (some (Rep.jaxScalar, x)) = (s, false) ∧
    pStepLegacy patience delta s m (some (Rep.npFloat32, x)) = (s, false) := ⟨rfl, rfl⟩

theorem legacy_float_passes (patience : Nat) (delta : Q) (s : PState Q) (m : Nat) (x : Q) :
    pStepLegacy patience delta s m (some (Rep.pyFloat, x)) = pStep patience delta s m (some x) ∧
    pStepLegacy patience delta s m (some (Rep.npFloat64, x)) = pStep patience delta s m (some x) :=
  ⟨rfl, rfl⟩

end Loop

/-! ### Non-vacuity: concrete histories that meet the hypotheses. -/

-- patience 1, losses 3,2,2,2 (chronological): stops at epoch 4, best model is that of epoch 2
example : trainLoopP (Q := Int) 1 0 (fun n => [3, 2, 2, 2].getD n 0) 10 = some (4, some 2) := by decide
example : trailing (0 : Int) [2, 2, 2, 3] = 2 ∧ argBest (0 : Int) [2, 2, 2, 3] = 2 := by decide
example : eLoop 3 10 0 = some (3, some 3) := by decide

end GinjaxVerif.C19
