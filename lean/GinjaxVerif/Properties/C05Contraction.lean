import GinjaxVerif.Lemmas.C05Contr

/-!
# C05 — `get_contraction_indices` lists every distinct multicontraction exactly once

`contractionIndices` (`Model/C05Contr.lean`) is the code-shaped model of
`get_contraction_indices(initial_k, final_k, swappable_idxs)`; the harness compares it with the
real function (all `final_k ≤ initial_k ≤ 7`, with and without swappable pairs).  Here, for
`swappable_idxs = ()` and arguments passing the asserts, with `m = (initial_k - final_k)/2`:

* the result is exactly the list of the **normal-form pairings** (`IsNormalPairing`: `m` pairs
  `(x, y)`, `x < y < initial_k`, no index twice, pairs in increasing order), each once, in
  lexicographic order (`mem_contractionIndices_iff`, `_sound`, `_nodup`, `_sorted`);
* every list of `m` pairs over distinct indices, in any order of the pairs and inside the pairs,
  is represented: its normal form is listed, and it is the only listed element with the same set
  of unordered pairs (`_complete`, `_unique`, `_exactly_once`);
* the link to the property "contraction is independent of the order of the pairs and of the order
  inside a pair" (`multicontract_perm`, `mcGo_swapInside`): lists with the same set of unordered
  pairs contract equally (`multicontract_samePairing`), hence every well-formed
  `multicontractI ps A` **is** `multicontractI q A` for exactly one listed `q`
  (`multicontract_enumerated`): the enumeration exhausts all distinct contractions.
-/
namespace GinjaxVerif.C05
open GinjaxVerif

/-- the model rejects exactly what the asserts reject (`final_k ≥ 0` is typing), for every
`swappable`: the `rows = []` branch is never taken -/
theorem contractionIndices_isSome (k f : Nat) (sw : List (Nat × Nat)) :
    (contractionIndices k f sw).isSome = true ↔ (k + f) % 2 = 0 ∧ f ≤ k :=
  contractionIndices_isSome_iff k f sw

section
variable {k f : Nat} {res : List (List (Nat × Nat))}

/-- **characterisation**: the listed elements are exactly the normal-form pairings -/
theorem mem_contractionIndices_iff (h1 : (k + f) % 2 = 0) (h2 : f ≤ k)
    (h : contractionIndices k f [] = some res) (q : List (Nat × Nat)) :
    q ∈ res ↔ IsNormalPairing k ((k - f) / 2) q := by
  rw [contractionIndices_eq h1 h2, Option.some.injEq] at h
  subst h
  simp only [List.mem_map, mem_uniqueRows, mem_normalRows]
  constructor
  · rintro ⟨r, ⟨q', hq', rfl⟩, rfl⟩
    rwa [pairsOfRow_flatPairs]
  · intro hq
    exact ⟨flatPairs q, ⟨q, hq, rfl⟩, pairsOfRow_flatPairs q⟩

/-- **soundness**: every listed element has exactly `m` pairs, each `(x, y)` with
`x < y < initial_k`, all `2m` indices distinct, the pairs in increasing order -/
theorem contractionIndices_sound (h1 : (k + f) % 2 = 0) (h2 : f ≤ k)
    (h : contractionIndices k f [] = some res) :
    ∀ q ∈ res, q.length = (k - f) / 2 ∧ (∀ p ∈ q, p.1 < p.2 ∧ p.2 < k) ∧
      (flatPairs q).Nodup ∧ q.Pairwise pairLt := by
  intro q hq
  have := (mem_contractionIndices_iff h1 h2 h q).mp hq
  exact ⟨this.length, this.lt, this.nodup, this.sorted⟩

/-- **completeness**: for every list `ps` of `m` pairs over distinct indices below `initial_k`
(any order of the pairs, any order inside the pairs) the normal form (sort inside the pairs, sort
the pairs) is listed; it has the same unordered pairs as `ps`. -/
theorem contractionIndices_complete (h1 : (k + f) % 2 = 0) (h2 : f ≤ k)
    (h : contractionIndices k f [] = some res) (ps : List (Nat × Nat))
    (hlen : ps.length = (k - f) / 2) (hk : ∀ x ∈ flatPairs ps, x < k) (hnd : (flatPairs ps).Nodup) :
    normalForm ps ∈ res ∧ SamePairing ps (normalForm ps) :=
  ⟨(mem_contractionIndices_iff h1 h2 h _).mpr (hlen ▸ normalForm_normal hk hnd),
    samePairing_normalForm ps⟩

/-- **no duplicates** in the returned list -/
theorem contractionIndices_nodup (h1 : (k + f) % 2 = 0) (h2 : f ≤ k)
    (h : contractionIndices k f [] = some res) : res.Nodup := by
  rw [contractionIndices_eq h1 h2, Option.some.injEq] at h
  subst h
  refine List.Nodup.map_on ?_ (nodup_uniqueRows _)
  intro x hx y hy hxy
  rw [mem_uniqueRows, mem_normalRows] at hx hy
  obtain ⟨qx, _, rfl⟩ := hx
  obtain ⟨qy, _, rfl⟩ := hy
  rw [pairsOfRow_flatPairs, pairsOfRow_flatPairs] at hxy
  rw [hxy]

/-- the flattened rows come in strictly increasing lexicographic order (`np.unique`) -/
theorem contractionIndices_sorted (h1 : (k + f) % 2 = 0) (h2 : f ≤ k)
    (h : contractionIndices k f [] = some res) : (res.map flatPairs).Pairwise (· < ·) := by
  rw [contractionIndices_eq h1 h2, Option.some.injEq] at h
  subst h
  have : ((uniqueRows (normalRows k ((k - f) / 2))).map pairsOfRow).map flatPairs
      = uniqueRows (normalRows k ((k - f) / 2)) := by
    rw [List.map_map]
    conv_rhs => rw [← List.map_id (uniqueRows _)]
    apply List.map_congr_left
    intro r hr
    rw [mem_uniqueRows, mem_normalRows] at hr
    obtain ⟨q, _, rfl⟩ := hr
    simp
  rw [this]
  exact pairwise_uniqueRows _

/-- no two listed elements have the same set of unordered pairs -/
theorem contractionIndices_unique (h1 : (k + f) % 2 = 0) (h2 : f ≤ k)
    (h : contractionIndices k f [] = some res) {q q' : List (Nat × Nat)} (hq : q ∈ res)
    (hq' : q' ∈ res) (hs : SamePairing q q') : q = q' :=
  ((mem_contractionIndices_iff h1 h2 h q).mp hq).eq_of_samePairing
    ((mem_contractionIndices_iff h1 h2 h q').mp hq') hs

/-- each unordered pairing is listed **exactly once**: among the listed elements, the ones with
the unordered pairs of `ps` are the normal form of `ps`, which occurs once -/
theorem contractionIndices_exactly_once (h1 : (k + f) % 2 = 0) (h2 : f ≤ k)
    (h : contractionIndices k f [] = some res) (ps : List (Nat × Nat))
    (hlen : ps.length = (k - f) / 2) (hk : ∀ x ∈ flatPairs ps, x < k) (hnd : (flatPairs ps).Nodup) :
    (∀ q ∈ res, SamePairing ps q ↔ q = normalForm ps) ∧ res.count (normalForm ps) = 1 := by
  obtain ⟨hmem, hsame⟩ := contractionIndices_complete h1 h2 h ps hlen hk hnd
  refine ⟨fun q hq => ⟨fun hs => ?_, fun e => e ▸ hsame⟩, ?_⟩
  · exact contractionIndices_unique h1 h2 h hq hmem (hs.symm.trans hsame)
  · exact List.count_eq_one_of_mem (contractionIndices_nodup h1 h2 h) hmem

end

/-! ### link to the contraction laws of C05 -/

variable {R : Type} {d : Nat}

/-- `multicontract_perm` and `mcGo_swapInside` together: two well-formed lists of pairs with the
same unordered pairs (any order of the pairs, any order inside) give the same contraction. -/
theorem multicontract_samePairing [AddCommMonoid R] {ps qs : List (Nat × Nat)} (A : Img R d)
    (hwf : wfPairs ps (List.replicate A.k false) = true) (h : SamePairing ps qs) :
    multicontractI ps A = multicontractI qs A := by
  rw [← multicontractI_sortInside ps, ← multicontractI_sortInside qs]
  refine multicontract_perm h A ?_
  exact wfPairs_of_samePairing (SamePairing.of_swapInside (forall₂_sortInside ps)) A.k hwf

/-- **the enumeration exhausts all distinct contractions**: whatever well-formed list of pairs
`ps` a caller contracts `A` on (distinct positions below `A.k`, any order), the function called as
the library calls it (`initial_k = A.k`, `final_k = A.k - 2·|ps|`) accepts, and lists exactly one
`q` with the unordered pairs of `ps`; contracting on that `q` gives the same image. -/
theorem multicontract_enumerated [AddCommMonoid R] (A : Img R d) (ps : List (Nat × Nat))
    (hwf : wfPairs ps (List.replicate A.k false) = true) :
    ∃ res, contractionIndices A.k (A.k - 2 * ps.length) [] = some res ∧
      ∃ q ∈ res, SamePairing ps q ∧ multicontractI ps A = multicontractI q A ∧
        ∀ q' ∈ res, SamePairing ps q' → q' = q := by
  obtain ⟨hnd, hk⟩ := (wfPairs_replicate_iff ps A.k).mp hwf
  have hlen : 2 * ps.length ≤ A.k := by
    have := hnd.length_le_of_subset (l₂ := List.range A.k) (fun x hx => List.mem_range.mpr (hk x hx))
    rwa [flatPairs_length, List.length_range] at this
  have h1 : (A.k + (A.k - 2 * ps.length)) % 2 = 0 := by omega
  have h2 : A.k - 2 * ps.length ≤ A.k := by omega
  have hm : ps.length = (A.k - (A.k - 2 * ps.length)) / 2 := by omega
  have hs := (contractionIndices_isSome A.k (A.k - 2 * ps.length) []).mpr ⟨h1, h2⟩
  obtain ⟨res, hres⟩ := Option.isSome_iff_exists.mp hs
  obtain ⟨hmem, hsame⟩ := contractionIndices_complete h1 h2 hres ps hm hk hnd
  refine ⟨res, hres, normalForm ps, hmem, hsame, multicontract_samePairing A hwf hsame, ?_⟩
  intro q' hq' hs'
  exact ((contractionIndices_exactly_once h1 h2 hres ps hm hk hnd).1 q' hq').mp hs'

/-! ### non-vacuity -/

example : contractionIndices 4 0 [] = some [[(0, 1), (2, 3)], [(0, 2), (1, 3)], [(0, 3), (1, 2)]] := by
  decide
example : contractionIndices 3 1 [] = some [[(0, 1)], [(0, 2)], [(1, 2)]] := by decide
/-- `initial_k = final_k`: one element, the empty tuple (as the Python returns `[()]`) -/
example : contractionIndices 3 3 [] = some [[]] := by decide
example : contractionIndices 0 0 [] = some [[]] := by decide
example : (contractionIndices 5 1 []).map List.length = some 15 := by decide
/-- the asserts -/
example : contractionIndices 3 2 [] = none ∧ contractionIndices 2 4 [] = none := by decide
/-- swappable pairs (outside the theorems above; compared with the code by the harness) -/
example : contractionIndices 4 2 [(0, 1)] = some [[(0, 1)], [(0, 2)], [(0, 3)], [(2, 3)]] := by decide
example : contractionIndices 4 0 [(3, 0)] = some [[(1, 2), (3, 0)], [(1, 3), (2, 0)]] := by decide
/-- the normal form of an arbitrarily ordered list, and its membership -/
example : normalForm [(3, 1), (2, 0)] = [(0, 2), (1, 3)] := by decide
example : SamePairing [(3, 1), (2, 0)] [(0, 2), (1, 3)] := by
  unfold SamePairing; decide
/-- the hypotheses of `multicontract_enumerated` are satisfiable -/
example : wfPairs [(3, 1), (2, 0)] (List.replicate 4 false) = true := by decide

end GinjaxVerif.C05
