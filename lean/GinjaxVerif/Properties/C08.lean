import GinjaxVerif.Lemmas.C08Pool
import GinjaxVerif.Lemmas.C08Norm
import GinjaxVerif.Lemmas.C08VN
import GinjaxVerif.Lemmas.C08Refine
import GinjaxVerif.Lemmas.SignedPerm
import GinjaxVerif.Lemmas.C08InvSqrt

/-!
# C08 — normalisation, nonlinearity and pooling blocks commute with the group action

`tgeBlk M p B` is the model of the code's `times_group_element` on every channel of a block of
parity `p`.  Every theorem is stated for an arbitrary dimension `d`, arbitrary extents (square or
not), arbitrary channel counts, arbitrary tensor order where the block accepts it, both parities,
every value of the learnable parameters and of `eps`, and every matrix accepted by `isSignedPerm`
(= all of `B_d`).  Values live in an arbitrary field (`ℝ` in particular; a linear order is needed
only for max pooling).  `sqrt`, `rsqrt`, `|·|`, `max(0,·)`, the activation and the matrix function
of the whitening are parameters; the only hypotheses are the ones the property itself names:

* `hdiv` — the patch length divides the extents (asserted by the code),
* `UniqueMax` — per patch the maximal norm is attained at a unique pixel (max pooling),
* `hG` — the number of groups divides the number of channels (asserted by the code),
* `hS` — the matrix function standing for `eigh` (`C ↦ U diag(λ^{-1/2}) Uᵀ`) commutes with
  conjugation by signed permutations on symmetric matrices; satisfied by the identity and by every
  polynomial (`conjEquivariant_id`, `conjEquivariant_poly`) and, over `ℝ`, **by the function the
  code computes**, the symmetric inverse square root `invSqrtR` (`hS_invSqrt`; last section:
  `groupNorm_vector_equivariant_invSqrt` has no hypothesis on a matrix function left).

The `_rel` lemmas of `Lemmas/C08*.lean` are the compositional (relational) forms to be used when
whole networks are assembled (C07).
-/
namespace GinjaxVerif.C08

open GinjaxVerif

variable {R : Type} {d : Nat}

/-! ### pooling -/

/-- **average pooling commutes with the group** (any constant filter value, in particular
`1 / P^d`) -/
theorem averagePool_equivariant [Field R] (M : Mat d) (hM : isSignedPerm M = true) (p P : Nat)
    (B : Blk R d) (hdiv : ∀ j, P ∣ B.dims j) :
    (averagePool P (tgeBlk M p B)).Equiv (tgeBlk M p (averagePool P B)) := by
  obtain ⟨g, rfl⟩ := exists_SP_of_isSignedPerm M hM
  exact equivariant_of_rel g p (averagePool P) B
    (fun B' h => poolConst_rel g _ P _ B B' hdiv h)

/-- the strided convolution with the filter `1/P^d` is the patch mean -/
theorem averagePool_eq_patchMean [Field R] (P : Nat) (B : Blk R d) :
    averagePool P B = patchMean P B := by
  unfold averagePool poolConst patchMean
  congr 1
  funext c y n
  rw [sumBox_eq, sumBox_eq, ← Finset.sum_mul, mul_one_div]

/-- **nearest-neighbour unpooling commutes with the group** -/
theorem unpool_equivariant [CommRing R] (M : Mat d) (hM : isSignedPerm M = true) (p P : Nat)
    (hP : 0 < P) (B : Blk R d) :
    (unpool P (tgeBlk M p B)).Equiv (tgeBlk M p (unpool P B)) := by
  obtain ⟨g, rfl⟩ := exists_SP_of_isSignedPerm M hM
  exact equivariant_of_rel g p (unpool P) B (fun B' h => unpool_rel g _ P hP B B' h)

/-- **refinement of the code path of `unpool`**: the transposed convolution with a ones filter of
side `P`, image dilation `P` and zero padding `P − 1` is nearest-neighbour unpooling -/
theorem unpool_code_eq_nearest [CommRing R] (P : Nat) (hP : 0 < P) (B : Blk R d)
    (hN : ∀ j, 0 < B.dims j) : (unpoolConv P B).Equiv (unpool P B) :=
  unpoolConv_equiv_unpool P hP B hN

/-- **refinement of the code path of `average_pool`**: the patch sum of the model is the direct-sum
convolution `convSpec` (one channel, constant scalar filter, stride `P`, VALID) that C04 ties to
`geom.convolve` -/
theorem averagePool_eq_convSpec [Field R] (P : Nat) (B : Blk R d) (hdiv : ∀ j, P ∣ B.dims j)
    (c : Nat) (y : Pix d) (hy : InBox (fun j => B.dims j / P) y) (n : List (Fin d))
    (hn : n.length = B.k) :
    (averagePool P B).val c y n
      = convSpec (poolCfg P B.dims B.k) (fun _ _ => B.val c)
          (fun _ _ _ _ => 1 / ((P ^ d : Nat) : R)) 0 0 y n :=
  poolConst_eq_convSpec P _ B hdiv c y hy n hn

/-- **norm-based max pooling commutes with the group whenever the per-patch maximum norm is
attained at a unique pixel** (then the `argmax` does not depend on the order in which the patch is
scanned: `argmax_unique_perm`) -/
theorem maxPool_equivariant [CommRing R] [LinearOrder R] (M : Mat d) (hM : isSignedPerm M = true)
    (p P : Nat) (B : Blk R d) (hdiv : ∀ j, P ∣ B.dims j) (hu : UniqueMax P B) :
    (maxPool P (tgeBlk M p B)).Equiv (tgeBlk M p (maxPool P B)) := by
  obtain ⟨g, rfl⟩ := exists_SP_of_isSignedPerm M hM
  exact equivariant_of_rel g p (maxPool P) B
    (fun B' h => maxPool_rel g _ (detpow_sq g p) P B B' hdiv hu h)

/-- **pooling and unpooling commute with translations by multiples of the patch length** on
periodic images (`rollBlk t` = `np.roll` by `t` along the spatial axes); for max pooling no
uniqueness is needed, the patches are scanned in the same order -/
theorem pool_shift_multiple [CommRing R] [LinearOrder R] (P : Nat) (hP : 0 < P) (B : Blk R d)
    (hdiv : ∀ j, P ∣ B.dims j) (t : Pix d) (w : R) :
    (poolConst P w (rollBlk (fun j => t j * (P : Int)) B)).Equiv (rollBlk t (poolConst P w B)) ∧
    (maxPool P (rollBlk (fun j => t j * (P : Int)) B)).Equiv (rollBlk t (maxPool P B)) ∧
    (unpool P (rollBlk t B)).Equiv (rollBlk (fun j => t j * (P : Int)) (unpool P B)) :=
  ⟨poolConst_roll P w B hdiv t, maxPool_roll P hP B hdiv t, unpool_roll P hP B t⟩

theorem averagePool_shift_multiple [Field R] (P : Nat) (B : Blk R d) (hdiv : ∀ j, P ∣ B.dims j)
    (t : Pix d) :
    (averagePool P (rollBlk (fun j => t j * (P : Int)) B)).Equiv (rollBlk t (averagePool P B)) :=
  poolConst_roll P _ B hdiv t

/-! ### group / layer normalisation -/

/-- **`GroupNorm` on scalars `(0,0)`** commutes with the group for every weight, bias, `eps`,
`rsqrt`, every group count dividing the channel count -/
theorem groupNorm_scalar_equivariant [Field R] (M : Mat d) (hM : isSignedPerm M = true)
    (rsqrt max0 : R → R) (eps : R) (G : Nat) (weight bias : Nat → R) (B : Blk R d)
    (hk : B.k = 0) (hG : G ∣ B.C) :
    (groupNormScalar rsqrt max0 eps G weight bias (tgeBlk M 0 B)).Equiv
      (tgeBlk M 0 (groupNormScalar rsqrt max0 eps G weight bias B)) := by
  obtain ⟨g, rfl⟩ := exists_SP_of_isSignedPerm M hM
  refine equivariant_of_rel g 0 (groupNormScalar rsqrt max0 eps G weight bias) B ?_
  intro B' h
  rw [pow_zero] at h ⊢
  exact groupNormScalar_rel rsqrt max0 eps G weight bias g B B' hk hG h

/-- **`GroupNorm` on pseudo-scalars `(0,1)`, repaired code**: the sign `det g` cancels in the
variance and factors out of `(x − mean)·rsqrt(var + eps)·scale` -/
theorem groupNorm_pseudoscalar_equivariant [Field R] (M : Mat d) (hM : isSignedPerm M = true)
    (rsqrt max0 : R → R) (eps : R) (G : Nat) (scale : Nat → R) (p : Nat) (B : Blk R d)
    (hk : B.k = 0) (hG : G ∣ B.C) :
    (groupNormPseudo rsqrt max0 eps G scale (tgeBlk M p B)).Equiv
      (tgeBlk M p (groupNormPseudo rsqrt max0 eps G scale B)) := by
  obtain ⟨g, rfl⟩ := exists_SP_of_isSignedPerm M hM
  exact equivariant_of_rel g p (groupNormPseudo rsqrt max0 eps G scale) B
    (fun B' h => groupNormPseudo_rel rsqrt max0 eps G scale g _ (detpow_sq g p) B B' hk hG h)

/-- **`GroupNorm` on vectors and pseudo-vectors `(1,p)`** commutes with the group for every scale,
bias, `eps`, under the hypothesis `hS` on the matrix function that stands for `eigh` -/
theorem groupNorm_vector_equivariant [Field R] (M : Mat d) (hM : isSignedPerm M = true)
    (S : RMat R d → RMat R d)
    (hS : ∀ N : Mat d, isSignedPerm N = true → ∀ Cv : RMat R d, (∀ i j, Cv i j = Cv j i) →
      S (conjMat N Cv) = conjMat N (S Cv))
    (eps : R) (G : Nat) (scale bias : Nat → R) (p : Nat) (B : Blk R d) (hk : B.k = 1)
    (hG : G ∣ B.C) :
    (groupNormVector S eps G scale bias (tgeBlk M p B)).Equiv
      (tgeBlk M p (groupNormVector S eps G scale bias B)) := by
  obtain ⟨g, rfl⟩ := exists_SP_of_isSignedPerm M hM
  have hS' : ConjEquivariant S := by
    intro g' Cv hsym
    have := hS g'.mat (isSignedPerm_mat g') Cv hsym
    rwa [conjMat_mat, conjMat_mat] at this
  exact equivariant_of_rel g p (groupNormVector S eps G scale bias) B
    (fun B' h => groupNormVector_rel S hS' eps G scale bias g _ (detpow_sq g p) B B' hk hG h)

/-- `LayerNorm` is `GroupNorm` with one group (`1 ∣ C` always) -/
theorem layerNorm_equivariant [Field R] (M : Mat d) (hM : isSignedPerm M = true)
    (rsqrt max0 : R → R) (S : RMat R d → RMat R d)
    (hS : ∀ N : Mat d, isSignedPerm N = true → ∀ Cv : RMat R d, (∀ i j, Cv i j = Cv j i) →
      S (conjMat N Cv) = conjMat N (S Cv))
    (eps : R) (weight bias scale : Nat → R) (p : Nat) (B : Blk R d) :
    (B.k = 0 → (groupNormScalar rsqrt max0 eps 1 weight bias (tgeBlk M 0 B)).Equiv
      (tgeBlk M 0 (groupNormScalar rsqrt max0 eps 1 weight bias B))) ∧
    (B.k = 0 → (groupNormPseudo rsqrt max0 eps 1 scale (tgeBlk M p B)).Equiv
      (tgeBlk M p (groupNormPseudo rsqrt max0 eps 1 scale B))) ∧
    (B.k = 1 → (groupNormVector S eps 1 scale bias (tgeBlk M p B)).Equiv
      (tgeBlk M p (groupNormVector S eps 1 scale bias B))) :=
  ⟨fun hk => groupNorm_scalar_equivariant M hM rsqrt max0 eps 1 weight bias B hk (one_dvd _),
   fun hk => groupNorm_pseudoscalar_equivariant M hM rsqrt max0 eps 1 scale p B hk (one_dvd _),
   fun hk => groupNorm_vector_equivariant M hM S hS eps 1 scale bias p B hk (one_dvd _)⟩

/-! ### vector-neuron nonlinearity -/

/-- **`VectorNeuronNonlinear` on a block of any type `(k,p)`** (the code uses this branch for all
`(k,p) ≠ (0,0)`) commutes with the group for every mixing matrix, activation, `sqrt`, `|·|`, `eps` -/
theorem vnNonlinear_equivariant [Field R] (M : Mat d) (hM : isSignedPerm M = true)
    (sqrtF absF act : R → R) (eps : R) (W : Nat → Nat → R) (p : Nat) (B : Blk R d) :
    (vnNonlinear sqrtF absF act eps W (tgeBlk M p B)).Equiv
      (tgeBlk M p (vnNonlinear sqrtF absF act eps W B)) := by
  obtain ⟨g, rfl⟩ := exists_SP_of_isSignedPerm M hM
  exact equivariant_of_rel g p (vnNonlinear sqrtF absF act eps W) B
    (fun B' h => vnNonlinear_rel sqrtF absF act eps W g _ (detpow_sq g p) B B' h)

/-- the `(0,0)` branch: a pointwise activation on true scalars -/
theorem vnScalar_equivariant [Field R] (M : Mat d) (hM : isSignedPerm M = true) (act : R → R)
    (B : Blk R d) (hk : B.k = 0) :
    (vnScalar act (tgeBlk M 0 B)).Equiv (tgeBlk M 0 (vnScalar act B)) := by
  obtain ⟨g, rfl⟩ := exists_SP_of_isSignedPerm M hM
  refine equivariant_of_rel g 0 (vnScalar act) B ?_
  intro B' h
  rw [pow_zero] at h ⊢
  exact vnScalar_rel act g B B' hk h

/-! ### the legacy pseudo-scalar branch (defect D4) is not equivariant -/

/-- the reflection of the line -/
def refl1 : Mat 1 := fun _ _ => -1

/-- one channel, two pixels with values `2, 0`, a pseudo-scalar -/
def psBlk : Blk Int 1 := { C := 1, dims := fun _ => 2, k := 0, val := fun _ y _ => if y 0 = 0 then 2 else 0 }

theorem refl1_signedPerm : isSignedPerm refl1 = true := by decide

/-- With a non-zero additive bias (here `rsqrt ≡ 1`, weight 1, bias 1, one group) the legacy
pseudo-scalar normalisation of the reflected block is not the reflected normalisation: pixel 0
reads `2` on one side and `0` on the other.  The repaired branch is covered by
`groupNorm_pseudoscalar_equivariant`. -/
theorem groupNorm_pseudoscalar_legacy_counterexample :
    ¬ (groupNormPseudoLegacy (fun _ => (1 : Int)) id 0 1 (fun _ => 1) (fun _ => 1)
          (tgeBlk refl1 1 psBlk)).Equiv
        (tgeBlk refl1 1 (groupNormPseudoLegacy (fun _ => (1 : Int)) id 0 1 (fun _ => 1) (fun _ => 1)
          psBlk)) := by
  intro h
  have := h.2.2.2 0 (by decide) (fun _ => 0) (by unfold InBox; decide) [] rfl
  revert this
  decide

/-- the repaired branch on the same input (scale 1) does commute at that pixel -/
example :
    (groupNormPseudo (fun _ => (1 : Int)) id 0 1 (fun _ => 1) (tgeBlk refl1 1 psBlk)).val 0
        (fun _ => 0) []
      = (tgeBlk refl1 1 (groupNormPseudo (fun _ => (1 : Int)) id 0 1 (fun _ => 1) psBlk)).val 0
        (fun _ => 0) [] := by decide

/-- an additive bias on a *vector* block breaks equivariance in the same way (`S = id`) -/
def vecBlk : Blk Int 1 := { C := 1, dims := fun _ => 2, k := 1, val := fun _ y _ => if y 0 = 0 then 2 else 0 }

theorem groupNorm_vector_addBias_counterexample :
    ¬ (groupNormVectorAddBias (fun Cv => Cv) (0 : Int) 1 (fun _ => 1) (fun _ => 1)
          (tgeBlk refl1 0 vecBlk)).Equiv
        (tgeBlk refl1 0 (groupNormVectorAddBias (fun Cv => Cv) (0 : Int) 1 (fun _ => 1) (fun _ => 1)
          vecBlk)) := by
  intro h
  have := h.2.2.2 0 (by decide) (fun _ => 0) (by unfold InBox; decide) [0] rfl
  revert this
  decide

/-! ### non-vacuity: every hypothesis is satisfiable on a concrete block -/

/-- patch length dividing the extents -/
example : ∀ j : Fin 2, 2 ∣ (fun i : Fin 2 => if i.val = 0 then 4 else 6) j := by decide

/-- groups dividing channels -/
example : 2 ∣ (4 : Nat) := by decide

/-- a block whose patches have a unique pixel of maximal norm: one channel on the line of length 2,
value `y` at pixel `y`, patch length 2 -/
def rampBlk : Blk Int 1 := { C := 1, dims := fun _ => 2, k := 0, val := fun _ y _ => y 0 }

theorem rampBlk_uniqueMax : UniqueMax 2 rampBlk := by
  intro c _ y hy
  have hy0 : 0 ≤ y 0 ∧ y 0 < ((2 / 2 : Nat) : Int) := hy 0
  refine ⟨fun _ => 1, ?_, ?_⟩
  · unfold InBox; decide
  · intro b hb hne
    have hb0 : 0 ≤ b 0 ∧ b 0 < ((2 : Nat) : Int) := hb 0
    have hb1 : b 0 = 0 := by
      by_contra h0
      apply hne
      funext i
      have hi : i = 0 := Subsingleton.elim _ _
      subst hi
      omega
    have hyz : y 0 = 0 := by omega
    simp [normSq, sumIdx, rampBlk, Blk.img, patchPix, hb1, hyz]

example : ∀ j : Fin 1, 2 ∣ rampBlk.dims j := by decide

/-- so `maxPool_equivariant` applies to `rampBlk` and the reflection -/
example : (maxPool 2 (tgeBlk refl1 0 rampBlk)).Equiv (tgeBlk refl1 0 (maxPool 2 rampBlk)) :=
  maxPool_equivariant refl1 refl1_signedPerm 0 2 rampBlk (by decide) rampBlk_uniqueMax

/-- the hypothesis on the matrix function is satisfied by the identity and by polynomials (in the
matrix-product form used in `groupNorm_vector_equivariant`) -/
theorem hS_id [Field R] (N : Mat d) (_ : isSignedPerm N = true) (Cv : RMat R d)
    (_ : ∀ i j, Cv i j = Cv j i) : (fun X : RMat R d => X) (conjMat N Cv) = conjMat N ((fun X => X) Cv) :=
  rfl

theorem hS_poly [Field R] (a b e : R) (N : Mat d) (hN : isSignedPerm N = true) (Cv : RMat R d)
    (hsym : ∀ i j, Cv i j = Cv j i) :
    (fun X : RMat R d => fun i j => (if i = j then a else 0) + b * X i j + e * rmul X X i j)
        (conjMat N Cv)
      = conjMat N ((fun X : RMat R d => fun i j =>
          (if i = j then a else 0) + b * X i j + e * rmul X X i j) Cv) := by
  obtain ⟨g, rfl⟩ := exists_SP_of_isSignedPerm N hN
  have := conjEquivariant_poly (R := R) (d := d) a b e g Cv hsym
  simp only [conjMat_mat]
  exact this

/-- hence the vector theorem is not vacuous: with `S = id` it applies to every vector block -/
example (M : Mat 2) (hM : isSignedPerm M = true) (B : Blk Rat 2) (hk : B.k = 1) (hG : 2 ∣ B.C)
    (scale bias : Nat → Rat) :
    (groupNormVector (fun X => X) (1 / 100000) 2 scale bias (tgeBlk M 1 B)).Equiv
      (tgeBlk M 1 (groupNormVector (fun X => X) (1 / 100000) 2 scale bias B)) :=
  groupNorm_vector_equivariant M hM (fun X => X) (fun N hN Cv h => hS_id N hN Cv h) _ 2 scale bias 1 B
    hk hG

/-! ### `hS` discharged for the function the code computes: the symmetric inverse square root

`invSqrtPD A = (CFC.sqrt A)⁻¹` (`Lemmas/C08InvSqrt.lean`) is `A ↦ A^{-1/2}` through Mathlib's
continuous functional calculus; `invSqrtR` is the same function on the model's matrix type.  It is
what `U diag(1/√(λ + eps)) Uᵀ` of `_group_norm_K1` denotes: for `eps > 0` the matrix `cov + eps·I`
is positive definite and `invSqrtR` of it is the *unique* positive (semi)definite `W` with
`W (cov + eps·I) W = 1` (`invSqrt_whitening_spec`). -/

/-- **the symmetric inverse square root commutes with conjugation by every orthogonal matrix**, on
every real matrix (outside the positive semidefinite ones both sides are `0`) -/
theorem invSqrt_conjEquivariant (g A : Matrix (Fin d) (Fin d) ℝ) (hg : g.transpose * g = 1) :
    invSqrtPD (g * A * g.transpose) = g * invSqrtPD A * g.transpose :=
  _root_.GinjaxVerif.invSqrt_conjEquivariant g A hg

/-- the characterisation that makes `invSqrtPD` the function of the code: on a positive definite
`A` it is a positive definite `W` with `W A W = 1`, and the only positive semidefinite one -/
theorem invSqrt_characterisation {A : Matrix (Fin d) (Fin d) ℝ} (hA : A.PosDef) :
    (invSqrtPD A).PosDef ∧ invSqrtPD A * A * invSqrtPD A = 1 ∧
      ∀ W : Matrix (Fin d) (Fin d) ℝ, W.PosSemidef → W * A * W = 1 → W = invSqrtPD A :=
  ⟨(invSqrtPD_spec hA).1, (invSqrtPD_spec hA).2, fun _ h1 h2 => invSqrtPD_unique h1 h2⟩

/-- signed permutation matrices are orthogonal -/
theorem signedPerm_orthogonal (g : SP d) : g.matR.transpose * g.matR = 1 := g.matR_orth

/-- **`hS` holds for the inverse square root**, in the form `groupNorm_vector_equivariant` and
`layerNorm_equivariant` consume -/
theorem hS_invSqrt (N : Mat d) (hN : isSignedPerm N = true) (Cv : RMat ℝ d)
    (_ : ∀ i j, Cv i j = Cv j i) : invSqrtR (conjMat N Cv) = conjMat N (invSqrtR Cv) := by
  obtain ⟨g, rfl⟩ := exists_SP_of_isSignedPerm N hN
  rw [conjMat_mat, conjMat_mat]
  exact invSqrtR_conj g Cv

/-- the same in the form C07 consumes (`ConjEquivariant F.S`) -/
theorem conjEquivariant_invSqrt : ConjEquivariant (invSqrtR (d := d)) :=
  _root_.GinjaxVerif.conjEquivariant_invSqrt

/-- **`GroupNorm` on vectors and pseudo-vectors `(1,p)` with the whitening the code computes**
commutes with the group: no hypothesis on a matrix function is left.  (`eps > 0` is not needed for
the commutation; it is what makes `invSqrtR` the code's `eigh` formula, `invSqrt_whitening_spec`.) -/
theorem groupNorm_vector_equivariant_invSqrt (M : Mat d) (hM : isSignedPerm M = true) (eps : ℝ)
    (G : Nat) (scale bias : Nat → ℝ) (p : Nat) (B : Blk ℝ d) (hk : B.k = 1) (hG : G ∣ B.C) :
    (groupNormVector invSqrtR eps G scale bias (tgeBlk M p B)).Equiv
      (tgeBlk M p (groupNormVector invSqrtR eps G scale bias B)) :=
  groupNorm_vector_equivariant M hM invSqrtR hS_invSqrt eps G scale bias p B hk hG

/-- `LayerNorm` with the whitening the code computes -/
theorem layerNorm_equivariant_invSqrt (M : Mat d) (hM : isSignedPerm M = true)
    (rsqrt max0 : ℝ → ℝ) (eps : ℝ) (weight bias scale : Nat → ℝ) (p : Nat) (B : Blk ℝ d) :
    (B.k = 0 → (groupNormScalar rsqrt max0 eps 1 weight bias (tgeBlk M 0 B)).Equiv
      (tgeBlk M 0 (groupNormScalar rsqrt max0 eps 1 weight bias B))) ∧
    (B.k = 0 → (groupNormPseudo rsqrt max0 eps 1 scale (tgeBlk M p B)).Equiv
      (tgeBlk M p (groupNormPseudo rsqrt max0 eps 1 scale B))) ∧
    (B.k = 1 → (groupNormVector invSqrtR eps 1 scale bias (tgeBlk M p B)).Equiv
      (tgeBlk M p (groupNormVector invSqrtR eps 1 scale bias B))) :=
  layerNorm_equivariant M hM rsqrt max0 invSqrtR hS_invSqrt eps weight bias scale p B

/-- **the model with `S = invSqrtR` whitens as the code does**: for `eps > 0`, every block and
every channel group, the matrix `cov + eps·I` handed to `S` is positive definite, and the
whitening matrix `W = S (cov + eps·I)` used by `groupNormK1 invSqrtR` is positive definite, solves
`W (cov + eps·I) W = 1`, and is the only positive semidefinite solution -/
theorem invSqrt_whitening_spec (B : Blk ℝ d) (cpg grp : Nat) {eps : ℝ} (heps : 0 < eps) :
    let A : Matrix (Fin d) (Fin d) ℝ := Matrix.of (addEps eps (grpCov B cpg grp))
    let W : Matrix (Fin d) (Fin d) ℝ := Matrix.of (invSqrtR (addEps eps (grpCov B cpg grp)))
    A.PosDef ∧ W.PosDef ∧ W * A * W = 1 ∧
      ∀ W' : Matrix (Fin d) (Fin d) ℝ, W'.PosSemidef → W' * A * W' = 1 → W' = W :=
  ⟨addEps_grpCov_posDef B cpg grp heps, whitening_spec B cpg grp heps⟩

/-- the whitening matrix `groupNormK1 invSqrtR` applies to channel `c` is that `W` (by definition) -/
example (eps : ℝ) (G : Nat) (B : Blk ℝ d) :
    groupNormK1 invSqrtR eps G B
      = whitenWith (B.C / G) (fun grp i => grpMean B (B.C / G) grp [i])
          (fun grp => invSqrtR (addEps eps (grpCov B (B.C / G) grp))) B := rfl

/-- non-vacuity: on the identity matrix the inverse square root is the identity -/
example : invSqrtPD (1 : Matrix (Fin 2) (Fin 2) ℝ) = 1 :=
  (invSqrtPD_unique Matrix.PosSemidef.one (by simp)).symm

end GinjaxVerif.C08
