import GinjaxVerif.Lemmas.LayerEquiv
import GinjaxVerif.Properties.C11
import GinjaxVerif.Properties.C01

/-!
# C06 — the equivariant linear layer is equivariant for every parameter value

The layer is `layerV` / `layerSpec` of `Model/Layer.lean` (C11 proves `layerV = layerSpec`).  All
theorems quantify over **every weight value, every bias value and every mean factor `μ`** (they are
fields of `P : Params R d`, `R` any commutative ring), every dimension, extent vector (square or not),
input MultiImage (any types, any dict order), target signature, bias setting, and every bank whose
filters are invariant under the group element at hand.

What "the transformed call" is.  In `layer(g·x)` the layer object is unchanged (same bank, stride,
dilations, padding argument); the extents `N∘σ` and the `is_torus` flags travel with the image.  The
per-axis options of that call are therefore the padding dispatch evaluated on `(N∘σ, is_torus∘σ)`.
`dispatch_transformed_call` proves that this is `pushAx g ax` (`ax` the options of the original call)
whenever the layer's own options do not distinguish the axes `g` exchanges (`M∘σ = M`, `stride∘σ =
stride`, dilations likewise, padding argument axis-independent) — automatic for the scalar options
the models use.  The equivariance theorems are stated for the call with options `pushAx g ax`
(`Params.push`); for square inputs and axis-independent options `pushAx g ax = ax`.

* `layerSpec_equivariant`, `layer_equivariant`    `g : SP d` (permute-and-flip form of the action)
* `layer_equivariant_tge`                         every matrix accepted by `isSignedPerm`, the code's
                                                  action `tge` and transport rule `transport`
* `dispatch_transformed_call`, `layer_options_symmetric`, `layer_equivariant_call` (end to end from
  the layer's own arguments)
* `layer_shift`                                   cyclic translations on toroidal axes
-/
namespace GinjaxVerif.C06

open GinjaxVerif GinjaxVerif.C20 GinjaxVerif.Layer

variable {R : Type} [CommRing R] {d : Nat}

/-- **C06 on the spec.**  For every `g ∈ B_d`, every weight / bias / `μ` value, all signatures and
bias settings, options that are symmetric (`lo = hi`, unit stride) and fit, and a bank whose every
filter is `g`-invariant: on the transformed input, with the transported options, the block of target
type `t` is the transformed block **with the declared type `(k_t, p_t)`**:
`layerSpec (g·x) t = g·_{(k_t,p_t)} (layerSpec x t)`. -/
theorem layerSpec_equivariant (g : SP d) (P : Params R d) (hs : ∀ j, (P.ax j).Sym)
    (hf : ∀ j, (P.ax j).Fits) (hinv : BankInv g (fun j => (P.ax j).M) P.bank) (x : MImg R d)
    (hx : ∀ e ∈ x, e.2.dims = fun j => (P.ax j).N) (t : Ty) (n o : Nat) (i' : Pix d)
    (T : List (Fin d)) (hT : T.length = t.1) :
    layerSpec (P.push g) (actMI g x) t o i' T
      = (actBlock g t ⟨n, outDims P, layerSpec P x t⟩).val o i' T := by
  rw [layerSpec_push g P hs hf hinv x hx t o i' T hT]
  simp only [actBlock, pf]

/-- **C06 on the model of the code.**  The output of the real computation (`layerV`: accumulate-or-
append dictionary, re-emission, bias loop) on `g·x` has a block of type `t` iff the output on `x` has
one, with the same channel count, the transported extents, and the transformed values. -/
theorem layer_equivariant (g : SP d) (P : Params R d) (hn : KeysNodup P.target)
    (hs : ∀ j, (P.ax j).Sym) (hf : ∀ j, (P.ax j).Fits)
    (hinv : BankInv g (fun j => (P.ax j).M) P.bank) (x : MImg R d)
    (hx : ∀ e ∈ x, e.2.dims = fun j => (P.ax j).N) (t : Ty) (n : Nat) (ht : (t, n) ∈ P.target) :
    (lookup (layerV (P.push g) (actMI g x)) t).isSome = (lookup (layerV P x) t).isSome ∧
    ∀ b b', lookup (layerV P x) t = some b → lookup (layerV (P.push g) (actMI g x)) t = some b' →
      b'.chans = (actBlock g t b).chans ∧ b'.dims = (actBlock g t b).dims ∧
      ∀ o, o < n → ∀ (i' : Pix d) (T : List (Fin d)), T.length = t.1 →
        b'.val o i' T = (actBlock g t b).val o i' T := by
  obtain ⟨h1, h2⟩ := C11.layer_eq_spec P x hn t n ht
  obtain ⟨h1', h2'⟩ := C11.layer_eq_spec (P.push g) (actMI g x) hn t n ht
  refine ⟨by rw [h1, h1', sigOf_actMI]; rfl, ?_⟩
  intro b b' hb hb'
  obtain ⟨c1, d1, v1⟩ := h2 b hb
  obtain ⟨c2, d2, v2⟩ := h2' b' hb'
  refine ⟨by rw [c2]; exact c1.symm, by rw [d2]; simp only [actBlock, d1]; rfl, ?_⟩
  intro o ho i' T hT
  rw [v2 o ho i' T hT, layerSpec_push g P hs hf hinv x hx t o i' T hT]
  simp only [actBlock, pf, d1]
  rw [v1 o ho _ (T.map g.σ) (by simpa using hT)]

/-! ### every accepted matrix, the code's own action and transport rule -/

/-- the layer with the options transported by the code's rule `new[i] = old[argmax |g[i]|]` -/
def transportParams (M : Mat d) (P : Params R d) : Params R d :=
  { P with ax := GinjaxVerif.transport M P.ax }

/-- **C06 for every matrix the library accepts** (`isSignedPerm`: all of `B_d`), with the model `tge`
of `times_group_element` as the action on the input blocks, on the filters and on the output block,
and the code's transport rule for the per-axis metadata. -/
theorem layer_equivariant_tge (M : Mat d) (hM : isSignedPerm M = true) (P : Params R d)
    (hs : ∀ j, (P.ax j).Sym) (hf : ∀ j, (P.ax j).Fits)
    (hMf : rotDims M (fun j => (P.ax j).M) = fun j => (P.ax j).M)
    (hinv : ∀ key F, lookup P.bank key = some F → ∀ f,
      (tge M key.2 (⟨fun j => (P.ax j).M, key.1, F.val f⟩ : Img R d)).Equiv
        ⟨fun j => (P.ax j).M, key.1, F.val f⟩)
    (x : MImg R d) (hx : ∀ e ∈ x, e.2.dims = fun j => (P.ax j).N) (t : Ty) (o : Nat) (i' : Pix d)
    (hi' : InBox (rotDims M (outDims P)) i') (T : List (Fin d)) (hT : T.length = t.1) :
    layerSpec (transportParams M P) (tgeMI M x) t o i' T
      = (tge M t.2 ⟨outDims P, t.1, layerSpec P x t o⟩).val i' T := by
  obtain ⟨g, rfl⟩ := exists_SP_of_isSignedPerm M hM
  have hP : transportParams g.mat P = P.push g := by
    simp only [transportParams, Params.push, transport_mat']; rfl
  have hMσ : ∀ i, (P.ax (g.σ i)).M = (P.ax i).M := by
    intro i; have := congrFun hMf i; rwa [rotDims_mat] at this
  have hbank : BankInv g (fun j => (P.ax j).M) P.bank := by
    refine ⟨hMσ, ?_⟩
    intro key F hF f a T ha hT
    have h1 := hinv key F hF f
    have h2 := tge_seq_pf g key.2 (⟨fun j => (P.ax j).M, key.1, F.val f⟩ : Img R d)
    have hd : (tge g.mat key.2 (⟨fun j => (P.ax j).M, key.1, F.val f⟩ : Img R d)).dims
        = fun j => (P.ax j).M := h1.1
    have ha' : InBox (tge g.mat key.2 (⟨fun j => (P.ax j).M, key.1, F.val f⟩ : Img R d)).dims a := by
      rw [hd]; exact ha
    rw [← h2.2.2 a ha' T]
    exact h1.2.2 a ha' T hT
  rw [hP]
  -- the code's action and the permute-and-flip form agree on the box of the transformed input
  have hcongr : layerSpec (P.push g) (tgeMI g.mat x) t = layerSpec (P.push g) (actMI g x) t := by
    unfold layerSpec
    congr 1
    funext o i T
    unfold tgeMI actMI
    apply convPartSpec_congr (P.push g) (fun j => (hs _).2.2.1) x
    · intro e _; rfl
    · intro e he c y T hy
      have hd := hx e he
      have hy' : InBox (tge g.mat e.1.2 (⟨e.2.dims, e.1.1, e.2.val c⟩ : Img R d)).dims y := by
        simp only [tge, rotDims_mat', hd]; exact hy
      exact (tge_seq_pf g e.1.2 (⟨e.2.dims, e.1.1, e.2.val c⟩ : Img R d)).2.2 y hy' T
  rw [hcongr, layerSpec_push g P hs hf hbank x hx t o i' T hT]
  have h := (tge_seq_pf g t.2 (⟨outDims P, t.1, layerSpec P x t o⟩ : Img R d)).2.2 i' hi' T
  rw [h]
  simp only [pf]

/-! ### the options of the transformed call -/

/-- **the transformed call uses the transported options.**  `layer(g·x)` runs the padding dispatch
on the extents `N∘σ` and flags `is_torus∘σ` of `g·x` with the layer's own filter extents, stride,
dilations and padding argument; if these do not distinguish the axes exchanged by `g`, the result is
`pushAx g` of the options of the original call. -/
theorem dispatch_transformed_call (g : SP d) (mode : PadMode) (hm : mode.AxisIndep d)
    (torus : Fin d → Bool) (N M stride rd ld : Fin d → Nat)
    (hM : ∀ i, M (g.σ i) = M i) (hst : ∀ i, stride (g.σ i) = stride i)
    (hrd : ∀ i, rd (g.σ i) = rd i) (hld : ∀ i, ld (g.σ i) = ld i) (ax : Fin d → AxisOpt)
    (h : dispatch mode torus N M stride rd ld = some ax) :
    dispatch mode (fun i => torus (g.σ i)) (fun i => N (g.σ i)) M stride rd ld = some (pushAx g ax) :=
  dispatch_push g mode hm torus N M stride rd ld hM hst hrd hld ax h

/-- every padding kind of the layer that is the same on both sides of every axis (TORUS, SAME, VALID,
integer, explicit equal pairs, the default) gives symmetric options at unit stride — the hypothesis
`hs` of the theorems above — for every filter dilation and image dilation -/
theorem layer_options_symmetric (mode : PadMode) (hm : mode.Symmetric) (torus : Fin d → Bool)
    (N Mf stride rd ld : Fin d → Nat) (ax : Fin d → AxisOpt)
    (h : dispatch mode torus N Mf stride rd ld = some ax)
    (hst : ∀ j, stride j = 1) (hN : ∀ j, 0 < N j) (hld : ∀ j, 0 < ld j) (j : Fin d) :
    (ax j).Sym :=
  C01.paddingLiteral_symmetric mode hm torus N Mf stride rd ld ax h hst hN hld j

/-- **C06 from the layer's own arguments.**  Start from what the code has: the padding argument
(`mode`, the same on both sides of every axis and not distinguishing the axes), the flags and extents
of the input, the filter extents, unit stride, the dilations (none of them distinguishing the axes `g`
exchanges).  If the original call dispatches to `ax` (and the filter fits), then the call on `g·x`
dispatches to some `ax'`, and with those options the block of every target type is the transformed
block with its declared type — for every weight, bias and `μ` value. -/
theorem layer_equivariant_call (g : SP d) (mode : PadMode) (hsym : mode.Symmetric)
    (hind : mode.AxisIndep d) (torus : Fin d → Bool) (N M stride rd ld : Fin d → Nat)
    (hM : ∀ i, M (g.σ i) = M i) (hst : ∀ j, stride j = 1)
    (hrd : ∀ i, rd (g.σ i) = rd i) (hld : ∀ i, ld (g.σ i) = ld i)
    (hN : ∀ j, 0 < N j) (hld0 : ∀ j, 0 < ld j)
    (P : Params R d) (h : dispatch mode torus N M stride rd ld = some P.ax)
    (hf : ∀ j, (P.ax j).Fits) (hinv : BankInv g (fun j => (P.ax j).M) P.bank) (x : MImg R d)
    (hx : ∀ e ∈ x, e.2.dims = fun j => (P.ax j).N) :
    ∃ ax', dispatch mode (fun i => torus (g.σ i)) (fun i => N (g.σ i)) M stride rd ld = some ax' ∧
      ∀ (t : Ty) (n o : Nat) (i' : Pix d) (T : List (Fin d)), T.length = t.1 →
        layerSpec { P with ax := ax' } (actMI g x) t o i' T
          = (actBlock g t ⟨n, outDims P, layerSpec P x t⟩).val o i' T := by
  refine ⟨pushAx g P.ax, dispatch_push g mode hind torus N M stride rd ld hM
    (fun i => by rw [hst, hst]) hrd hld P.ax h, ?_⟩
  intro t n o i' T hT
  have hs : ∀ j, (P.ax j).Sym := fun j =>
    C01.paddingLiteral_symmetric mode hsym torus N M stride rd ld P.ax h hst hN hld0 j
  exact layerSpec_equivariant g P hs hf hinv x hx t n o i' T hT

/-! ### cyclic translations -/

/-- **C06, translations.**  On inputs whose toroidal axes are treated by the TORUS wrap without image
dilation (`TorusAxis`: what the dispatch produces for padding TORUS / default on a toroidal axis),
the layer commutes with every cyclic translation along those axes — for every weight and bias value,
bias setting and signature; no invariance of the bank is needed. -/
theorem layer_shift (P : Params R d) (hn : KeysNodup P.target) (tor : Fin d → Bool)
    (htor : ∀ j, tor j = true → (P.ax j).TorusAxis) (s : Pix d) (x : MImg R d) (t : Ty) (n : Nat)
    (ht : (t, n) ∈ P.target) :
    (lookup (layerV P (shiftMI (fun j => (P.ax j).N) tor s x)) t).isSome = (lookup (layerV P x) t).isSome ∧
    ∀ b b', lookup (layerV P x) t = some b →
      lookup (layerV P (shiftMI (fun j => (P.ax j).N) tor s x)) t = some b' →
      b'.chans = b.chans ∧ b'.dims = b.dims ∧
      ∀ o, o < n → ∀ (i : Pix d), InBox (outDims P) i → ∀ (T : List (Fin d)), T.length = t.1 →
        b'.val o i T = b.val o (shiftPix (fun j => (P.ax j).N) tor s i) T := by
  obtain ⟨h1, h2⟩ := C11.layer_eq_spec P x hn t n ht
  obtain ⟨h1', h2'⟩ := C11.layer_eq_spec P (shiftMI (fun j => (P.ax j).N) tor s x) hn t n ht
  have hsig : sigOf (shiftMI (fun j => (P.ax j).N) tor s x) = sigOf x := by
    simp [sigOf, shiftMI, shiftBlock, List.map_map, Function.comp_def]
  refine ⟨by rw [h1, h1', hsig], ?_⟩
  intro b b' hb hb'
  obtain ⟨c1, d1, v1⟩ := h2 b hb
  obtain ⟨c2, d2, v2⟩ := h2' b' hb'
  refine ⟨c2.trans c1.symm, d2.trans d1.symm, ?_⟩
  intro o ho i hi T hT
  rw [v2 o ho i T hT, v1 o ho _ T hT]
  exact layerSpec_shift P tor htor s x t o i hi T

/-! ### non-vacuity: a concrete 2-type layer with an invariant bank -/

section Example

/-- 3×3 filters: the constant scalar filter, and the Kronecker delta `δ_{uv}` (constant in space) as
the order-2 filter; both are invariant under every element of `B_d` -/
def exBank (d : Nat) : MImg Int d :=
  [((0, 0), ⟨1, fun _ => 3, fun _ _ _ => 1⟩),
   ((2, 0), ⟨1, fun _ => 3, fun _ _ T => match T with
      | [u, v] => if u = v then 1 else 0
      | _ => 0⟩)]

theorem exBank_invariant (g : SP d) : BankInv g (fun _ => 3) (exBank d) := by
  refine ⟨fun _ => rfl, ?_⟩
  intro key F hF f a T _ hT
  unfold exBank at hF
  simp only [lookup] at hF
  split at hF
  · rename_i hk
    cases hF; subst hk
    -- the constant scalar filter: the index list is empty
    have : T = [] := List.eq_nil_of_length_eq_zero hT
    subst this
    simp [pf]
  · split at hF
    · rename_i _ hk
      cases hF; subst hk
      -- the Kronecker delta: `s(u)·s(v)·δ(σu,σv) = δ(u,v)`
      match T, hT with
      | [u, v], _ =>
        simp only [pf, pow_zero, List.map_cons, List.map_nil, SP.sgn_cons, SP.sgn_nil, mul_one,
          EmbeddingLike.apply_eq_iff_eq]
        by_cases huv : u = v
        · subst huv; simp [g.s_mul_self]
        · simp [huv]
    · cases hF

/-- a layer `{(1,0): 2 channels, (0,0): 1 channel} → {(1,0): 1, (0,0): 3}` on 3×3 images, SAME
padding: symmetric options that fit -/
def exP (m : BiasMode) : Params Int 2 :=
  { target := [((1, 0), 1), ((0, 0), 3)]
    bank := exBank 2
    weights := fun s t o c f => (s.1 : Int) + 2 * t.1 + o - c + f + 1
    bias := fun t o => (t.1 : Int) + o + 1
    mode := m
    ax := fun _ => { N := 3, M := 3, lo := 1, hi := 1 }
    mu := 1 }

example (m : BiasMode) : (∀ j, ((exP m).ax j).Sym) ∧ (∀ j, ((exP m).ax j).Fits) := by
  constructor <;> intro j <;> simp [exP, AxisOpt.Sym, AxisOpt.Fits, AxisOpt.filtLen, AxisOpt.padLen, AxisOpt.dilLen]

example : KeysNodup (exP .auto).target := by decide

/-- the hypotheses of `layerSpec_equivariant` are satisfiable for every `g ∈ B_2` and every bias
setting: the theorem applies to this layer -/
example (g : SP 2) (m : BiasMode) (x : MImg Int 2) (hx : ∀ e ∈ x, e.2.dims = fun _ => 3) (t : Ty)
    (n o : Nat) (i' : Pix 2) (T : List (Fin 2)) (hT : T.length = t.1) :
    layerSpec ((exP m).push g) (actMI g x) t o i' T
      = (actBlock g t ⟨n, outDims (exP m), layerSpec (exP m) x t⟩).val o i' T :=
  layerSpec_equivariant g (exP m)
    (fun j => by simp [exP, AxisOpt.Sym])
    (fun j => by simp [exP, AxisOpt.Fits, AxisOpt.filtLen, AxisOpt.padLen, AxisOpt.dilLen])
    (exBank_invariant g) x hx t n o i' T hT

/-- and the statement is not trivially `0 = 0`: the vector block of the output depends on the input -/
def exX : MImg Int 2 :=
  [((1, 0), ⟨2, fun _ => 3, fun c y T => (c : Int) + y 0 + 2 * y 1 + (T.headD 0).val⟩),
   ((0, 0), ⟨1, fun _ => 3, fun _ y _ => 1 + y 0 - y 1⟩)]

example : layerSpec (exP .auto) exX (1, 0) 0 (fun _ => 1) [1] ≠ layerSpec (exP .auto) exX (1, 0) 0 (fun _ => 0) [0] := by
  decide

end Example

end GinjaxVerif.C06
