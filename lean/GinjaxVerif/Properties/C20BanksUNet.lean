import GinjaxVerif.Properties.C20Banks
/-!
# C20 — the UNet built with ARBITRARY banks (`conv_filters` and `upsample_filters`)

`model_outSig_partial_bank_unet`: whenever the closed form `unetSig c` of `Model/C20Banks.lean`
returns a signature (every up-sampled image carries exactly the types of the skip image it is
concatenated with), the forward pass `mkUNet` returns that signature with the input's extents, `D`
and flags.  Nothing is assumed about which filter types the two banks hold.  Core Lean only.
-/
namespace GinjaxVerif.C20

/-- the UNet configurations of the partial-bank theorem: `BankGood`, `num_conv > 0`, mid types with
`depth` channels (true of the default `mid_keys`), an up-sampling bank of side 2 when there is a
level, extents positive and divisible by `2^num_downsamples` -/
structure UNetBankGood (c : NetCfg) (dims : List Nat) : Prop extends BankGood c where
  conv : 0 < c.numConv
  chan : ∀ b ∈ c.mid, b.2 = c.depth
  up : 0 < c.numDown → c.upBank.M = 2
  ext : ∀ N ∈ dims, 0 < N ∧ 2 ^ c.numDown ∣ N

theorem midAt_nodup (c : NetCfg) (hg : BankGood c) (a : Nat) : KeysNodup (midAt c.mid a) :=
  keysNodup_congr (keysOf_midAt _ _) hg.midNodup

theorem midAt_gn (c : NetCfg) (hg : BankGood c) (a : Nat) :
    c.groupNorm = true → groupNormAccepts (midAt c.mid a) = true := by
  intro g
  rw [groupNormAccepts_keys, keysOf_midAt, ← groupNormAccepts_keys]; exact hg.gn g

/-- `num_conv` blocks of one level on a part `s` of the declared input of the first one -/
theorem levelBlocks_sub (c : NetCfg) (hg : BankGood c) (hc : 0 < c.numConv) (inK outK : Sig)
    (hn : KeysNodup outK) (hgn : c.groupNorm = true → groupNormAccepts outK = true)
    (s : Sig) (hs : ∀ x ∈ s, x ∈ inK) (d : List Nat) (D : Nat) (T : List Bool) :
    chainM (c.levelBlocks inK outK) ⟨s, d, D, T⟩ = some ⟨levelSig c outK s, d, D, T⟩ := by
  unfold NetCfg.levelBlocks levelSig
  obtain ⟨n, hn'⟩ : ∃ n, c.numConv = n + 1 := ⟨c.numConv - 1, by omega⟩
  rw [hn', List.range_succ_eq_map, List.map_cons, chainM_cons]
  simp only [if_true]
  have h0 := netBlock_sub c hg inK outK c.kernel c.act c.groupNorm false 1 hn hgn (by simp) s hs d D T
  rw [show ({ rhsDil := 1 } : ConvOpts) = {} from rfl] at h0
  rw [h0, Option.bind_some]
  simp only [midSteps]
  have := chain_midSteps c outK
    (List.map (fun i => convBlockOut (c.block (if i = 0 then inK else outK) outK c.kernel c.act
      c.groupNorm false)) (List.map Nat.succ (List.range n))) d D T (by
      intro f hf s' hs'
      rw [List.map_map] at hf
      obtain ⟨i, _, rfl⟩ := List.mem_map.1 hf
      simp only [Function.comp_apply, Nat.succ_eq_add_one, Nat.add_eq_zero_iff, Nat.succ_ne_self,
        and_false, if_false]
      have h1 := netBlock_sub c hg outK outK c.kernel c.act c.groupNorm false 1 hn hgn (by simp) s' hs' d D T
      rw [show ({ rhsDil := 1 } : ConvOpts) = {} from rfl] at h1
      exact h1) (convContractOut c.bank s outK) (cco_sub _ _ _)
  rw [this]
  simp

/-- the signature stored at (and entering) level `i` of the way down -/
def downSigAt (c : NetCfg) : Nat → Sig
  | 0 => levelSig c c.mid c.inSig
  | l + 1 => levelSig c (midAt c.mid (c.depth * 2 ^ (l + 1))) (downSigAt c l)

theorem downSigs_eq (c : NetCfg) (n i : Nat) (res : List Sig) :
    downSigs c (List.range' (i + 1) n) (downSigAt c i) res =
      (downSigAt c (i + n), res ++ (List.range' i n).map (downSigAt c)) := by
  induction n generalizing i res with
  | zero => simp [downSigs]
  | succ n ih =>
    rw [List.range'_succ, downSigs]
    have : levelSig c (midAt c.mid (c.depth * 2 ^ (i + 1))) (downSigAt c i) = downSigAt c (i + 1) := rfl
    rw [this, ih (i + 1), List.range'_succ (s := i) (n := n), List.map_cons]
    simp [Nat.add_assoc, Nat.add_comm 1 n]

theorem midSteps_sub' (bank : Bank) (mid : Sig) (n : Nat) (hn : 0 < n) (s : Sig) :
    ∀ b ∈ midSteps bank mid n s, b ∈ mid := by
  obtain ⟨m, rfl⟩ : ∃ m, n = m + 1 := ⟨n - 1, by omega⟩
  simp only [midSteps]
  exact midSteps_sub bank mid m _ (cco_sub _ _ _)

theorem downSigAt_sub (c : NetCfg) (hc : 0 < c.numConv) (hchan : ∀ b ∈ c.mid, b.2 = c.depth) (i : Nat) :
    ∀ b ∈ downSigAt c i, b ∈ midAt c.mid (c.depth * 2 ^ i) := by
  cases i with
  | zero =>
    simp only [downSigAt, levelSig, Nat.pow_zero, Nat.mul_one, midAt_depth c hchan]
    exact midSteps_sub' _ _ _ hc _
  | succ l => simp only [downSigAt, levelSig]; exact midSteps_sub' _ _ _ hc _

/-- the multi-image at level `i` of the way down -/
def lvlS (c : NetCfg) (dims : List Nat) (torus : List Bool) (i : Nat) : MI :=
  ⟨downSigAt c i, dims.map (· / 2 ^ i), c.D, torus⟩

theorem downLoop_sub (c : NetCfg) (hg : BankGood c) (hc : 0 < c.numConv)
    (hchan : ∀ b ∈ c.mid, b.2 = c.depth) (dims : List Nat) (torus : List Bool) (n i : Nat) (res : List MI) :
    downLoop c (List.range' (i + 1) n) (lvlS c dims torus i) res =
      some (lvlS c dims torus (i + n), res ++ (List.range' i n).map (lvlS c dims torus)) := by
  induction n generalizing i res with
  | zero => simp [downLoop]
  | succ n ih =>
    rw [List.range'_succ, downLoop]
    have hstep : chainM (c.levelBlocks (midAt c.mid (c.depth * 2 ^ (i + 1 - 1)))
        (midAt c.mid (c.depth * 2 ^ (i + 1)))) (poolOut 2 (lvlS c dims torus i)) =
        some (lvlS c dims torus (i + 1)) := by
      simp only [Nat.add_sub_cancel, poolOut, lvlS]
      rw [levelBlocks_sub c hg hc _ _ (midAt_nodup c hg _) (midAt_gn c hg _) _
        (downSigAt_sub c hc hchan i)]
      have e : (dims.map (· / 2 ^ i)).map (· / 2) = dims.map (· / 2 ^ (i + 1)) := by
        rw [List.map_map]; apply List.map_congr_left; intro N _; exact div_pow_succ N i
      rw [e]; rfl
    rw [hstep, Option.bind_some, ih (i + 1), List.range'_succ (s := i) (n := n), List.map_cons]
    simp [Nat.add_assoc, Nat.add_comm 1 n]

/-- the up-convolution on a part `x` of its declared input restores the extents of level `n` -/
theorem upConv_sub (c : NetCfg) (dims : List Nat) (hg : UNetBankGood c dims) (torus : List Bool)
    (n : Nat) (hn : n < c.numDown) (x : Sig) (hx : ∀ b ∈ x, b ∈ midAt c.mid (c.depth * 2 ^ (n + 1))) :
    makeConvOut (c.upConv n) ⟨x, dims.map (· / 2 ^ (n + 1)), c.D, torus⟩ =
      some ⟨convContractOut c.upBank x (midAt c.mid (c.depth * 2 ^ n)), dims.map (· / 2 ^ n), c.D, torus⟩ := by
  have hlev : ∀ N ∈ dims, 0 < N / 2 ^ n ∧ (N / 2 ^ n) % 2 = 0 := fun N hN =>
    level_even N c.numDown n (hg.ext N hN).2 (hg.ext N hN).1 hn
  have hM := hg.up (by omega)
  have he := hg.eqv
  unfold makeConvOut
  simp only [NetCfg.upConv, he, Bool.true_or, if_true, blockConv]
  unfold convContract
  have h1 : x.all (blockOk c.upBank (midAt c.mid (c.depth * 2 ^ (n + 1))) (midAt c.mid (c.depth * 2 ^ n))) = true := by
    rw [List.all_eq_true]; intro b hb; unfold blockOk; simp [hx b hb]
  simp only [h1, if_true, convDims, hM]
  rw [convContractSig_eq_out _ _ (midAt_nodup c hg.toBankGood _)]
  congr 2
  rw [List.map_map]
  apply List.map_congr_left
  intro N hN
  simp only [Function.comp_apply]
  rw [← div_pow_succ]
  exact unet_extent_roundtrip _ (hlev N hN).1 (hlev N hN).2

theorem midAt_self_of_sub (mid r : Sig) (a : Nat) (h : ∀ b ∈ r, b ∈ midAt mid a) : midAt r a = r := by
  unfold midAt
  conv => rhs; rw [← List.map_id r]
  apply List.map_congr_left
  intro b hb
  obtain ⟨b', _, hb'⟩ := List.mem_map.1 (h b hb)
  rw [← hb']; rfl

theorem keysNodup_of_sub_filter (mid : Sig) (hn : KeysNodup mid) (p : Ty × Nat → Bool) :
    KeysNodup (mid.filter p) := by
  unfold KeysNodup keysOf at *
  exact (List.filter_sublist.map Prod.fst).nodup hn

/-- the skip concatenation when the up-sampled image carries exactly the skip image's types -/
theorem concat_same (c : NetCfg) (hg : BankGood c) (a : Nat) (p : Ty × Nat → Bool) (d : List Nat) (D : Nat)
    (T : List Bool) :
    let r := (midAt c.mid a).filter p
    concat ⟨r, d, D, T⟩ ⟨r, d, D, T⟩ = some ⟨concatSig r r, d, D, T⟩ ∧
      ∀ b ∈ concatSig r r, b ∈ midAt c.mid (a + a) := by
  intro r
  have hsub : ∀ b ∈ r, b ∈ midAt c.mid a := fun b hb => (List.mem_filter.1 hb).1
  have hrn : KeysNodup r := keysNodup_of_sub_filter _ (midAt_nodup c hg a) p
  have hcat : concatSig r r = midAt r (a + a) := by
    have := concatSig_midAt r hrn a a
    rwa [midAt_self_of_sub c.mid r a hsub] at this
  constructor
  · unfold concat
    simp only [and_self, if_true]
    cases hr : r with
    | nil => simp [concatSig]
    | cons b l => simp
  · rw [hcat]
    intro b hb
    obtain ⟨b', hb', rfl⟩ := List.mem_map.1 hb
    obtain ⟨b'', hb'', h⟩ := List.mem_map.1 (hsub b' hb')
    have : b'.1 = b''.1 := by rw [← h]
    rw [this]
    exact List.mem_map.2 ⟨b'', hb'', rfl⟩

theorem upSigs_sub (c : NetCfg) (hc : 0 < c.numConv) (n : Nat) (x s : Sig)
    (hx : ∀ b ∈ x, b ∈ midAt c.mid (c.depth * 2 ^ n))
    (h : upSigs c (List.zip (List.range n).reverse ((List.range n).map (downSigAt c)).reverse) x = some s) :
    ∀ b ∈ s, b ∈ midAt c.mid (c.depth * 2 ^ 0) := by
  induction n generalizing x with
  | zero =>
    simp only [List.range_zero, List.reverse_nil, List.map_nil, List.zip_nil_left, upSigs,
      Option.some.injEq] at h
    subst h; exact hx
  | succ n ih =>
    rw [List.range_succ, List.map_append, List.reverse_append, List.reverse_append] at h
    simp only [List.map_cons, List.map_nil, List.reverse_cons, List.reverse_nil, List.nil_append,
      List.singleton_append, List.zip_cons_cons] at h
    rw [upSigs] at h
    by_cases hm : convContractOut c.upBank x (midAt c.mid (c.depth * 2 ^ n)) = downSigAt c n
    · simp only [hm, if_true] at h
      exact ih _ (by unfold levelSig; exact midSteps_sub' _ _ _ hc _) h
    · simp [hm] at h

theorem upLoop_sub (c : NetCfg) (dims : List Nat) (hg : UNetBankGood c dims) (torus : List Bool)
    (n : Nat) (hn : n ≤ c.numDown) (x s : Sig) (hx : ∀ b ∈ x, b ∈ midAt c.mid (c.depth * 2 ^ n))
    (h : upSigs c (List.zip (List.range n).reverse ((List.range n).map (downSigAt c)).reverse) x = some s) :
    upLoop c (List.zip (List.range n).reverse ((List.range n).map (lvlS c dims torus)).reverse)
      ⟨x, dims.map (· / 2 ^ n), c.D, torus⟩ = some ⟨s, dims.map (· / 2 ^ 0), c.D, torus⟩ := by
  induction n generalizing x with
  | zero =>
    simp only [List.range_zero, List.reverse_nil, List.map_nil, List.zip_nil_left, upSigs,
      Option.some.injEq] at h
    subst h; simp [upLoop]
  | succ n ih =>
    rw [List.range_succ, List.map_append, List.reverse_append, List.reverse_append] at h ⊢
    simp only [List.map_cons, List.map_nil, List.reverse_cons, List.reverse_nil, List.nil_append,
      List.singleton_append, List.zip_cons_cons] at h ⊢
    rw [upSigs] at h
    by_cases hm : convContractOut c.upBank x (midAt c.mid (c.depth * 2 ^ n)) = downSigAt c n
    · simp only [hm, if_true] at h
      rw [upLoop, upConv_sub c dims hg torus n (by omega) x hx, Option.bind_some, hm]
      have hr : downSigAt c n = (midAt c.mid (c.depth * 2 ^ n)).filter
          (fun t => reachable c.upBank (keysOf x) t.1) := by rw [← hm]; rfl
      obtain ⟨hc1, hc2⟩ := concat_same c hg.toBankGood (c.depth * 2 ^ n)
        (fun t => reachable c.upBank (keysOf x) t.1) (dims.map (· / 2 ^ n)) c.D torus
      rw [← hr] at hc1 hc2
      have hdbl : c.depth * 2 ^ n + c.depth * 2 ^ n = c.depth * 2 ^ (n + 1) := by
        rw [Nat.pow_succ, ← Nat.mul_assoc, Nat.mul_two]
      rw [hdbl] at hc2
      simp only [lvlS]
      rw [hc1, Option.bind_some,
        levelBlocks_sub c hg.toBankGood hg.conv _ _ (midAt_nodup c hg.toBankGood _)
          (midAt_gn c hg.toBankGood _) _ hc2, Option.bind_some]
      exact ih (by omega) _ (by unfold levelSig; exact midSteps_sub' _ _ _ hg.conv _) h
    · simp [hm] at h

/-- **UNet, any banks**: whenever the closed form returns a signature (every up-sampled image has
the types of its skip image), the forward pass returns exactly that signature — the requested
output types reachable through embedding → levels down → up-convolutions and skip concatenations →
decode, in requested order with the requested channel counts — and the input's extents, `D`, flags. -/
theorem model_outSig_partial_bank_unet (c : NetCfg) (x : MI) (hg : UNetBankGood c x.dims)
    (hx : Declared c x) (s : Sig) (h : unetSig c = some s) :
    mkUNet c x = some ⟨s, x.dims, x.D, x.torus⟩ := by
  obtain ⟨sx, d, D, T⟩ := x; obtain ⟨rfl, rfl, hd, ht⟩ := hx
  have hb := hg.toBankGood
  unfold unetSig at h
  dsimp only at h
  have hds := downSigs_eq c c.numDown 0 []
  simp only [Nat.zero_add, List.nil_append] at hds
  have h0 : downSigAt c 0 = levelSig c c.mid c.inSig := rfl
  rw [← h0, hds] at h
  simp only [← List.range_eq_range'] at h
  unfold mkUNet
  have hc : decide (c.numConv > 0) = true := by simpa using hg.conv
  simp only [inputOk_bank c hb _ d T hd ht, hc, Bool.and_self, if_true]
  rw [enter_eqv c hb, effIn_eq c hb.eqv,
    levelBlocks_sub c hb hg.conv c.inSig c.mid hb.midNodup hb.gn c.inSig (fun _ h => h),
    Option.bind_some]
  have hl0 : (⟨levelSig c c.mid c.inSig, d, c.D, T⟩ : MI) = lvlS c d T 0 := by
    simp [lvlS, downSigAt]
  rw [hl0, downLoop_sub c hb hg.conv hg.chan d T c.numDown 0 [], Option.bind_some]
  simp only [Nat.zero_add, List.nil_append]
  rw [← List.range_eq_range']
  cases hup : upSigs c (List.zip (List.range c.numDown).reverse
      ((List.range c.numDown).map (downSigAt c)).reverse) (downSigAt c c.numDown) with
  | none => rw [hup] at h; simp at h
  | some s' =>
    rw [hup] at h
    simp only [Option.map_some, Option.some.injEq] at h
    have hfin : ∀ b ∈ s', b ∈ c.mid := by
      have := upSigs_sub c hg.conv c.numDown _ s' (downSigAt_sub c hg.conv hg.chan _) hup
      simpa only [Nat.pow_zero, Nat.mul_one, midAt_depth c hg.chan] using this
    simp only [lvlS]
    rw [upLoop_sub c d hg T c.numDown (Nat.le_refl _) _ s' (downSigAt_sub c hg.conv hg.chan _) hup,
      Option.bind_some]
    have hd0 : d.map (· / 2 ^ 0) = d := by simp
    rw [hd0]
    have heo : c.effOut = c.outSig := by simp [NetCfg.effOut, hb.eqv]
    have hdec : makeConvOut { (c.block c.mid c.effOut c.kernel false false false) with act := false }
        ⟨s', d, c.D, T⟩ = some ⟨convContractOut c.bank s' c.outSig, d, c.D, T⟩ := by
      unfold makeConvOut
      simp only [NetCfg.block, hb.eqv, Bool.true_or, if_true, blockConv, heo]
      exact convContract_sub _ _ _ _ 1 hb.outNodup hb.odd _ hfin _ _ _
    rw [hdec, Option.bind_some, leave_eqv c hb, h]

/-! ## Non-vacuity -/

/-- even-parity filters only (in both banks), scalar + pseudo-scalar input, one level: every
requested type is reachable (`(0,1) → (1,1)` through the `(1,0)` filter, …) -/
def exUNetEven : NetCfg :=
  { D := 2, inSig := [((0, 0), 1), ((0, 1), 1)],
    outSig := [((1, 1), 1), ((1, 0), 2), ((0, 1), 1), ((0, 0), 3)],
    mid := defaultMid 2 [((0, 0), 1), ((0, 1), 1)] [((1, 1), 1), ((1, 0), 2), ((0, 1), 1), ((0, 0), 3)] 2 true,
    depth := 2, equivariant := true, bias := .false_, act := true, groupNorm := false,
    bank := ⟨[(0, 0), (1, 0), (2, 0)], 3⟩, kernel := none, numDown := 1, numConv := 1,
    upBank := ⟨[(0, 0), (1, 0), (2, 0)], 2⟩ }

example : UNetBankGood exUNetEven [4, 6] :=
  { eqv := rfl, dim := Or.inl rfl, midNodup := by decide, outNodup := by decide, odd := by decide,
    gn := fun h => absurd h (by decide), conv := by decide, chan := by decide, up := fun _ => rfl,
    ext := by decide }

example : unetSig exUNetEven = some exUNetEven.outSig := by decide

/-- scalar-only filters: the pseudo-scalar feeds only the pseudo-scalar, no vector type is produced;
the two requested vector types are silently absent -/
example : unetSig { exUNetEven with bank := ⟨[(0, 0)], 3⟩, upBank := ⟨[(0, 0)], 2⟩ } =
    some [((0, 1), 1), ((0, 0), 3)] ∧
    absentTypes exUNetEven.outSig [((0, 1), 1), ((0, 0), 3)] = [(1, 1), (1, 0)] := by decide

/-- an up-sampling bank that loses a type the skip image has: not covered by the closed form; the
forward-pass model says the code raises (channel assertion of the next convolution) -/
example : unetSig { exUNetEven with upBank := ⟨[(2, 1)], 2⟩ } = none ∧
    mkUNet { exUNetEven with upBank := ⟨[(2, 1)], 2⟩ } ⟨exUNetEven.inSig, [4, 6], 2, [true, false]⟩ = none := by
  decide

/-- no mid type reachable: the UNet returns an empty multi-image -/
example : unetSig { exUNetEven with bank := ⟨[(2, 1)], 3⟩ } = some [] ∧
    mkUNet { exUNetEven with bank := ⟨[(2, 1)], 3⟩ } ⟨exUNetEven.inSig, [4, 6], 2, [true, false]⟩ =
      some ⟨[], [4, 6], 2, [true, false]⟩ := by decide

end GinjaxVerif.C20
