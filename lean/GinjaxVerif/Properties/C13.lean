import GinjaxVerif.Lemmas.C13
import GinjaxVerif.Lemmas.C13Scalar
import GinjaxVerif.Lemmas.C13Images
import Mathlib.Tactic.Ring
import Mathlib.Tactic.Linarith

/-!
# C13 — re-layouts are lossless round trips (property theorems)

All theorems are for an arbitrary value type `α`, arbitrary signatures (any list of distinct
`(k, parity)` keys in any order), arbitrary `D`, arbitrary extents and an arbitrary number of
leading axes.  `MI.Valid` collects the invariants of a `MultiImage` (distinct keys, parities
reduced mod 2, well-formed arrays).  Equalities are equalities of the whole container (`D`,
`is_torus`, the dict with its order, every block with its shape and data) unless stated "by key".
-/
namespace GinjaxVerif.C13
open GinjaxVerif.ND GinjaxVerif.ND.NDArr

variable {α : Type} [Inhabited α]

/-! ## generic: the loop `out = empty(); for (k,p), blk in items(): out.append(k, p, f(blk))` -/

theorem keysOf_map_snd {β γ : Type} (d : List (Key × β)) (f : Key × β → γ) :
    keysOf (d.map fun e => (e.1, f e)) = keysOf d := by
  simp [keysOf, List.map_map, Function.comp_def]

/-- a per-block loop over a multi image maps the blocks and keeps keys, order, `D`, flags -/
theorem mapLoop_eq (m : MI α) (hn : (keysOf m.data).Nodup) (hp : ∀ e ∈ m.data, e.1.2 < 2)
    (f : Key × NDArr α → NDArr α) (ax : Nat) :
    appendAll m.empty (m.data.map fun e => (e.1, f e)) ax
      = ⟨m.D, m.isTorus, m.data.map fun e => (e.1, f e)⟩ := by
  apply appendAll_empty
  · intro e he
    obtain ⟨e', he', rfl⟩ := List.mem_map.1 he
    exact hp e' he'
  · rw [keysOf_map_snd]; exact hn

/-- a per-block loop whose body is the identity on every block returns the multi image -/
theorem mapLoop_id (m : MI α) (hn : (keysOf m.data).Nodup) (hp : ∀ e ∈ m.data, e.1.2 < 2)
    (f : Key × NDArr α → NDArr α) (ax : Nat) (hf : ∀ e ∈ m.data, f e = e.2) :
    appendAll m.empty (m.data.map fun e => (e.1, f e)) ax = m := by
  rw [mapLoop_eq m hn hp]
  have : (m.data.map fun e => (e.1, f e)) = m.data := by
    conv_rhs => rw [← List.map_id m.data]
    apply List.map_congr_left
    intro e he
    rw [hf e he]; rfl
  rw [this]

/-- two per-block loops in a row whose bodies cancel on every block return the multi image -/
theorem mapLoop_mapLoop_id (m : MI α) (hn : (keysOf m.data).Nodup) (hp : ∀ e ∈ m.data, e.1.2 < 2)
    (f g : NDArr α → NDArr α) (ax ax' : Nat) (h : ∀ e ∈ m.data, g (f e.2) = e.2) :
    let m' := appendAll m.empty (m.data.map fun e => (e.1, f e.2)) ax
    appendAll m'.empty (m'.data.map fun e => (e.1, g e.2)) ax' = m := by
  intro m'
  have hm' : m' = ⟨m.D, m.isTorus, m.data.map fun e => (e.1, f e.2)⟩ :=
    mapLoop_eq m hn hp (fun e => f e.2) ax
  rw [hm']
  rw [mapLoop_eq _ (by rw [keysOf_map_snd]; exact hn)
    (by intro e he; obtain ⟨e', he', rfl⟩ := List.mem_map.1 he; exact hp e' he')]
  simp only [List.map_map, Function.comp_def]
  have : (m.data.map fun e => (e.1, g (f e.2))) = m.data := by
    conv_rhs => rw [← List.map_id m.data]
    apply List.map_congr_left
    intro e he
    rw [h e he]; rfl
  rw [this]

/-! ## copy -/

omit [Inhabited α] in
/-- `copy()` returns an equal multi image (same `D`, flags, blocks, order) -/
theorem copy_eq (m : MI α) (h : (keysOf m.data).Nodup) : m.copy = m := by
  unfold MI.copy MI.new
  rw [toDict_eq_self h]

/-! ## expand / combine_axes / merge_axes / reshape_pmap -/

/-- a shape is its prefix, the extent at `ax`, and its suffix -/
theorem shape_split (s : List Nat) {ax : Nat} (h : ax < s.length) :
    s = s.take ax ++ s.getD ax 0 :: s.drop (ax + 1) := by
  have hg : s.getD ax 0 = s[ax] := by
    simp [List.getD_eq_getElem?_getD, List.getElem?_eq_getElem h]
  rw [hg]
  simp

theorem take_of_split {pre post : List Nat} {n ax : Nat} (hax : pre.length = ax) :
    (pre ++ n :: post).take ax = pre := by
  subst hax; simp

theorem drop_of_split {pre post : List Nat} {n ax : Nat} (hax : pre.length = ax) :
    (pre ++ n :: post).drop (ax + 1) = post := by
  subst hax; simp

theorem drop_of_split2 {pre post : List Nat} {n n' ax : Nat} (hax : pre.length = ax) :
    (pre ++ n :: n' :: post).drop (ax + 1 + 1) = post := by
  subst hax
  have : pre.length + 1 + 1 = (pre ++ [n, n']).length := by simp
  rw [this, show pre ++ n :: n' :: post = (pre ++ [n, n']) ++ post by simp, List.drop_left]

omit [Inhabited α] in
/-- block level: `reshape(shape[:a] + (-1, size) + shape[a+1:])` followed by
`reshape(shape[:a] + (-1,) + shape[a+2:])` restores the block -/
theorem expand_combine_block (blk : NDArr α) {pre post : List Nat} {n ax size : Nat}
    (hsh : blk.shape = pre ++ n :: post) (hax : pre.length = ax) (hdvd : size ∣ n)
    (hsize : 0 < size) (hpos : 0 < pre.prod * post.prod) :
    let e := blk.reshapeInfer (blk.shape.take ax) (size :: blk.shape.drop (ax + 1))
    e.reshapeInfer (e.shape.take ax) (e.shape.drop (ax + 1 + 1)) = blk := by
  intro e
  obtain ⟨q, rfl⟩ := hdvd
  have hinf : inferDim blk.shape.prod pre (size :: post) = q := by
    rw [hsh]
    simp only [inferDim, List.prod_append, List.prod_cons]
    have : pre.prod * (size * q * post.prod) = q * (pre.prod * (size * post.prod)) := by ring
    rw [this, Nat.mul_div_cancel]
    have : 0 < pre.prod * (size * post.prod) := by
      have : pre.prod * (size * post.prod) = size * (pre.prod * post.prod) := by ring
      rw [this]; exact Nat.mul_pos hsize hpos
    exact this
  have he : e = blk.reshape (pre ++ q :: size :: post) := by
    show blk.reshapeInfer _ _ = _
    unfold reshapeInfer
    rw [hsh, take_of_split hax, drop_of_split hax, ← hsh, hinf]
  have hes : e.shape = pre ++ q :: size :: post := by rw [he]; rfl
  unfold reshapeInfer
  rw [hes, take_of_split hax, drop_of_split2 hax]
  have hinf2 : inferDim (pre ++ q :: size :: post).prod pre post = size * q := by
    have : (pre ++ q :: size :: post).prod = (pre ++ (size * q) :: post).prod := by
      simp only [List.prod_append, List.prod_cons]; ring
    rw [this, inferDim_self _ _ _ hpos]
  rw [hinf2, he, reshape_reshape]
  rw [← hsh, reshape_self]

theorem prod_pos_of_split {pre post : List Nat} {n : Nat} (h : 0 < (pre ++ n :: post).prod) :
    0 < pre.prod * post.prod ∧ 0 < n := by
  simp only [List.prod_append, List.prod_cons] at h
  have h1 : 0 < pre.prod := Nat.pos_of_mul_pos_right h
  have h2 : 0 < n * post.prod := Nat.pos_of_mul_pos_left h
  exact ⟨Nat.mul_pos h1 (Nat.pos_of_mul_pos_left h2), Nat.pos_of_mul_pos_right h2⟩

/-- `expand(axis, size)` followed by `combine_axes((axis, axis+1))` returns the multi image, for
every leading (indeed every) axis, every dividing `size`, every signature and shape -/
theorem combine_expand (m : MI α) (hm : m.Valid) (axis size : Nat) (hsize : 0 < size)
    (h : ∀ e ∈ m.data, axis < e.2.shape.length ∧ size ∣ e.2.shape.getD axis 0 ∧ 0 < e.2.shape.prod) :
    (m.expand axis size).combineAxes [axis, axis + 1] = m := by
  unfold MI.combineAxes MI.expand
  simp only [List.headD_cons, List.getLastD_cons, List.getLastD_nil]
  exact mapLoop_mapLoop_id m hm.nodup hm.parity
    (fun b => b.reshapeInfer (b.shape.take axis) (size :: b.shape.drop (axis + 1)))
    (fun b => b.reshapeInfer (b.shape.take axis) (b.shape.drop (axis + 1 + 1))) 0 0
    (by
      intro e he
      obtain ⟨hax, hdvd, hpos⟩ := h e he
      have hsh := shape_split e.2.shape hax
      rw [hsh] at hpos
      exact expand_combine_block e.2 hsh (by simp; omega) hdvd hsize (prod_pos_of_split hpos).1)

/-- the same with `merge_axes` -/
theorem merge_expand (m : MI α) (hm : m.Valid) (axis size : Nat) (hsize : 0 < size)
    (h : ∀ e ∈ m.data, axis < e.2.shape.length ∧ size ∣ e.2.shape.getD axis 0 ∧ 0 < e.2.shape.prod) :
    (m.expand axis size).mergeAxes [axis, axis + 1] = m :=
  combine_expand m hm axis size hsize h

omit [Inhabited α] in
/-- block level: merging axes `(a, a+1)` and splitting the result again by the old inner extent -/
theorem combine_expand_block (blk : NDArr α) {pre post : List Nat} {n n' ax : Nat}
    (hsh : blk.shape = pre ++ n :: n' :: post) (hax : pre.length = ax)
    (hpos : 0 < blk.shape.prod) :
    let e := blk.reshapeInfer (blk.shape.take ax) (blk.shape.drop (ax + 1 + 1))
    e.reshapeInfer (e.shape.take ax) (n' :: e.shape.drop (ax + 1)) = blk := by
  intro e
  have hp : 0 < pre.prod * post.prod ∧ 0 < n ∧ 0 < n' := by
    rw [hsh] at hpos
    have h1 := prod_pos_of_split hpos
    have h2 : 0 < n' ∧ 0 < post.prod := by
      have := h1.1
      simp only [List.prod_cons] at this
      have h3 : 0 < n' * post.prod := Nat.pos_of_mul_pos_left this
      exact ⟨Nat.pos_of_mul_pos_right h3, Nat.pos_of_mul_pos_left h3⟩
    have h0 : 0 < pre.prod := by
      have := h1.1
      exact Nat.pos_of_mul_pos_right this
    exact ⟨Nat.mul_pos h0 h2.2, h1.2, h2.1⟩
  have hinf : inferDim blk.shape.prod pre post = n * n' := by
    have : blk.shape.prod = (pre ++ (n * n') :: post).prod := by
      rw [hsh]; simp only [List.prod_append, List.prod_cons]; ring
    rw [this, inferDim_self _ _ _ hp.1]
  have he : e = blk.reshape (pre ++ (n * n') :: post) := by
    show blk.reshapeInfer _ _ = _
    unfold reshapeInfer
    rw [hsh, take_of_split hax, drop_of_split2 hax, ← hsh, hinf]
  have hes : e.shape = pre ++ (n * n') :: post := by rw [he]; rfl
  unfold reshapeInfer
  rw [hes, take_of_split hax, drop_of_split hax]
  have hinf2 : inferDim (pre ++ (n * n') :: post).prod pre (n' :: post) = n := by
    simp only [inferDim, List.prod_append, List.prod_cons]
    have : pre.prod * (n * n' * post.prod) = n * (pre.prod * (n' * post.prod)) := by ring
    rw [this, Nat.mul_div_cancel]
    have : pre.prod * (n' * post.prod) = n' * (pre.prod * post.prod) := by ring
    rw [this]; exact Nat.mul_pos hp.2.2 hp.1
  rw [hinf2, he, reshape_reshape, ← hsh, reshape_self]

/-- `combine_axes((a, a+1))` followed by `expand(a, size)` with `size` the old extent of axis
`a+1` returns the multi image -/
theorem expand_combine (m : MI α) (hm : m.Valid) (a size : Nat)
    (h : ∀ e ∈ m.data, a + 1 < e.2.shape.length ∧ e.2.shape.getD (a + 1) 0 = size
      ∧ 0 < e.2.shape.prod) :
    (m.combineAxes [a, a + 1]).expand a size = m := by
  unfold MI.combineAxes MI.expand
  simp only [List.headD_cons, List.getLastD_cons, List.getLastD_nil]
  exact mapLoop_mapLoop_id m hm.nodup hm.parity
    (fun b => b.reshapeInfer (b.shape.take a) (b.shape.drop (a + 1 + 1)))
    (fun b => b.reshapeInfer (b.shape.take a) (size :: b.shape.drop (a + 1))) 0 0
    (by
      intro e he
      obtain ⟨hax, hsz, hpos⟩ := h e he
      have hsh := shape_split e.2.shape (show a < e.2.shape.length by omega)
      have hsh2 := shape_split (e.2.shape.drop (a + 1)) (ax := 0) (by simp; omega)
      have hg : (e.2.shape.drop (a + 1)).getD 0 0 = size := by
        rw [← hsz]; simp [List.getD_eq_getElem?_getD]
      rw [hg, List.take_zero, List.nil_append] at hsh2
      rw [hsh2] at hsh
      have := combine_expand_block e.2 (ax := a) hsh (by simp; omega) hpos
      simpa using this)

omit [Inhabited α] in
/-- block level: `reshape(shape[:a] + (nDev, L // nDev) + shape[a+1:])` followed by
`reshape(shape[:a] + (-1,) + shape[a+2:])` -/
theorem pmap_merge_block (blk : NDArr α) {pre post : List Nat} {ax nDev q : Nat}
    (hsh : blk.shape = pre ++ (nDev * q) :: post) (hax : pre.length = ax)
    (hpos : 0 < pre.prod * post.prod) :
    let e := blk.reshape (blk.shape.take ax ++ [nDev, (nDev * q) / nDev] ++ blk.shape.drop (ax + 1))
    e.reshapeInfer (e.shape.take ax) (e.shape.drop (ax + 1 + 1)) = blk := by
  intro e
  rcases Nat.eq_zero_or_pos nDev with h0 | hpos'
  · subst h0
    have he : e = blk.reshape (pre ++ 0 :: 0 :: post) := by
      show blk.reshape _ = _
      rw [hsh, take_of_split hax, drop_of_split hax]; simp
    have hes : e.shape = pre ++ 0 :: 0 :: post := by rw [he]; rfl
    unfold reshapeInfer
    rw [hes, take_of_split hax, drop_of_split2 hax]
    have : inferDim (pre ++ 0 :: 0 :: post).prod pre post = 0 := by
      simp [inferDim]
    rw [this, he, reshape_reshape]
    have : blk.shape = pre ++ 0 :: post := by rw [hsh]; simp
    rw [← this, reshape_self]
  · have hq : nDev * q / nDev = q := Nat.mul_div_cancel_left q hpos'
    have he : e = blk.reshape (pre ++ nDev :: q :: post) := by
      show blk.reshape _ = _
      rw [hsh, take_of_split hax, drop_of_split hax, hq]; simp
    have hes : e.shape = pre ++ nDev :: q :: post := by rw [he]; rfl
    unfold reshapeInfer
    rw [hes, take_of_split hax, drop_of_split2 hax]
    have hinf2 : inferDim (pre ++ nDev :: q :: post).prod pre post = nDev * q := by
      have : (pre ++ nDev :: q :: post).prod = (pre ++ (nDev * q) :: post).prod := by
        simp only [List.prod_append, List.prod_cons]; ring
      rw [this, inferDim_self _ _ _ hpos]
    rw [hinf2, he, reshape_reshape, ← hsh, reshape_self]

/-- `reshape_pmap(devices, axis)` followed by `merge_axes((axis, axis+1))` returns the multi
image: for every number of devices dividing the batch size `get_L()`, whenever every block has that
extent on `axis` (numpy rejects the reshape otherwise) -/
theorem merge_reshapePmap (m : MI α) (hm : m.Valid) (nDev axis : Nat) (hdvd : nDev ∣ m.getL)
    (h : ∀ e ∈ m.data, axis < e.2.shape.length ∧ e.2.shape.getD axis 0 = m.getL
      ∧ 0 < e.2.shape.prod) :
    (m.reshapePmap nDev axis).mergeAxes [axis, axis + 1] = m := by
  unfold MI.mergeAxes MI.combineAxes MI.reshapePmap
  simp only [List.headD_cons, List.getLastD_cons, List.getLastD_nil]
  obtain ⟨q, hq⟩ := hdvd
  exact mapLoop_mapLoop_id m hm.nodup hm.parity
    (fun b => b.reshape (b.shape.take axis ++ [nDev, m.getL / nDev] ++ b.shape.drop (axis + 1)))
    (fun b => b.reshapeInfer (b.shape.take axis) (b.shape.drop (axis + 1 + 1))) 0 0
    (by
      intro e he
      obtain ⟨hax, hL, hpos⟩ := h e he
      have hsh := shape_split e.2.shape hax
      rw [hL, hq] at hsh
      have hpos2 : 0 < (e.2.shape.take axis ++ (nDev * q) :: e.2.shape.drop (axis + 1)).prod := by
        rw [← hsh]; exact hpos
      have := pmap_merge_block e.2 (ax := axis) hsh (by simp; omega) (prod_pos_of_split hpos2).1
      rw [hq]
      exact this)

/-! ## pytree flatten / unflatten (what `jax.jit(lambda m: m)(m)` does to the container) -/

theorem keyLe_trans (a b c : Key) (h1 : keyLe a b = true) (h2 : keyLe b c = true) :
    keyLe a c = true := by
  unfold keyLe at *
  simp only [Bool.or_eq_true, Bool.and_eq_true, decide_eq_true_eq, beq_iff_eq] at *
  omega

theorem keyLe_total (a b : Key) : (keyLe a b || keyLe b a) = true := by
  unfold keyLe
  simp only [Bool.or_eq_true, Bool.and_eq_true, decide_eq_true_eq, beq_iff_eq]
  omega

omit [Inhabited α] in
theorem zip_keys_leaves (d : List (Key × NDArr α)) : (d.map (·.1)).zip (d.map (·.2)) = d := by
  induction d with
  | nil => rfl
  | cons e d ih => simp [ih]

omit [Inhabited α] in
/-- the container that comes back from a flatten / unflatten round trip is the multi image with
its blocks re-ordered by sorted key -/
theorem treeRoundtrip_data (m : MI α) (hn : (keysOf m.data).Nodup) :
    m.treeRoundtrip = ⟨m.D, m.isTorus, m.data.mergeSort fun a b => keyLe a.1 b.1⟩ := by
  unfold MI.treeRoundtrip MI.treeUnflatten MI.treeFlatten MI.new
  simp only [zip_keys_leaves]
  rw [toDict_eq_self]
  exact ((List.mergeSort_perm m.data _).map _).nodup_iff.2 hn

omit [Inhabited α] in
/-- Passing a multi image through `tree_flatten` / `tree_unflatten` (jit, vmap, any pytree
operation) preserves `D`, the boundary flags and every block by type; the keys come back sorted. -/
theorem treeRoundtrip_eq (m : MI α) (hn : (keysOf m.data).Nodup) :
    m.treeRoundtrip.D = m.D ∧ m.treeRoundtrip.isTorus = m.isTorus
      ∧ (∀ key, dictGet key m.treeRoundtrip.data = dictGet key m.data)
      ∧ (keysOf m.treeRoundtrip.data).Perm (keysOf m.data)
      ∧ (keysOf m.treeRoundtrip.data).Pairwise (fun a b => keyLe a b = true) := by
  rw [treeRoundtrip_data m hn]
  have hperm := List.mergeSort_perm m.data (fun a b => keyLe a.1 b.1)
  refine ⟨rfl, rfl, ?_, hperm.map _, ?_⟩
  · intro key
    exact dictGet_perm hperm ((hperm.map _).nodup_iff.2 hn) key
  · have := List.pairwise_mergeSort (le := fun (a b : Key × NDArr α) => keyLe a.1 b.1)
      (fun a b c => keyLe_trans a.1 b.1 c.1) (fun a b => keyLe_total a.1 b.1) m.data
    simp only [keysOf]
    rw [List.pairwise_map]
    exact this

omit [Inhabited α] in
/-- a second round trip changes nothing any more (the sorted order is canonical) -/
theorem treeRoundtrip_idem (m : MI α) (hn : (keysOf m.data).Nodup) :
    m.treeRoundtrip.treeRoundtrip = m.treeRoundtrip := by
  have hperm := List.mergeSort_perm m.data (fun a b => keyLe a.1 b.1)
  have hn' : (keysOf (m.data.mergeSort fun a b => keyLe a.1 b.1)).Nodup :=
    ((hperm.map _).nodup_iff.2 hn)
  rw [treeRoundtrip_data m hn, treeRoundtrip_data _ hn']
  congr 1
  apply List.mergeSort_of_pairwise
  exact List.pairwise_mergeSort (le := fun (a b : Key × NDArr α) => keyLe a.1 b.1)
    (fun a b c => keyLe_trans a.1 b.1 c.1) (fun a b => keyLe_total a.1 b.1) m.data

omit [Inhabited α] in
/-- a `GeometricImage` built by its constructor is unchanged by flatten / unflatten -/
theorem gimgRoundtrip_eq (data : NDArr α) (parity D : Nat) (t : List Bool) :
    (GImg.new data parity D t).treeRoundtrip = GImg.new data parity D t := by
  simp [GImg.treeRoundtrip, GImg.new]

/-! ## to_vector / from_vector -/

omit [Inhabited α] in
theorem wf_flatten {a : NDArr α} (ha : a.WF) : a.flatten.WF := by
  unfold flatten; exact wf_reshape ha (by simp)

/-- the loop of `from_vector` run on the vector built by the loop of `to_vector` (from any
accumulated prefix `acc` of length `n` on) reproduces the blocks -/
theorem fromVectorBlocks_foldl (rest : List (Key × NDArr α)) (acc : NDArr α) (n : Nat)
    (hacc : acc.shape = [n]) (hwf : ∀ e ∈ rest, e.2.WF) :
    fromVectorBlocks (rest.foldl (fun x e => concat 0 x e.2.flatten) acc) n rest = rest := by
  induction rest generalizing acc n with
  | nil => rfl
  | cons e rest ih =>
    obtain ⟨key, img⟩ := e
    have himg : img.WF := hwf (key, img) List.mem_cons_self
    have hax : 0 < acc.shape.length := by rw [hacc]; simp
    have hn : acc.shape.getD 0 0 = n := by rw [hacc]; rfl
    have hfold : ∀ (a : NDArr α), rest.foldl (fun x e => concat 0 x e.2.flatten) a
        = (rest.map fun e => e.2.flatten).foldl (concat 0) a := by
      intro a; rw [List.foldl_map]
    have hb : img.flatten.shape = acc.shape.set 0 img.shape.prod := by rw [hacc]; rfl
    -- the slice
    have hslice : pySliceAxis 0 (n : Int) ((n + img.shape.prod : Nat) : Int)
        ((((key, img) :: rest)).foldl (fun x e => concat 0 x e.2.flatten) acc) = img.flatten := by
      rw [List.foldl_cons, hfold]
      have hext : n + img.shape.prod ≤
          (((rest.map fun e => e.2.flatten).foldl (concat 0) (concat 0 acc img.flatten)).shape.getD 0 0) := by
        rw [getD_shape_foldl_concat _ (by rw [length_shape_concat]; exact hax),
          getD_shape_concat _ _ hax, hn]
        have : img.flatten.shape.getD 0 0 = img.shape.prod := rfl
        rw [this]; omega
      unfold pySliceAxis
      rw [pySlice_of_le (by omega) hext]
      have := slice_foldl_next (x := img.flatten) (rest.map fun e => e.2.flatten) (acc := acc)
        (ax := 0) (m := img.shape.prod) (wf_flatten himg) hax hb
      rw [hn, List.foldl_cons] at this
      exact this
    unfold fromVectorBlocks
    rw [hslice]
    have hre : img.flatten.reshape img.shape = img := by
      unfold flatten; rw [reshape_reshape, reshape_self]
    rw [hre, List.foldl_cons]
    rw [ih (concat 0 acc img.flatten) (n + img.shape.prod)
      (by rw [shape_concat, hacc]; rfl)
      (fun e he => hwf e (List.mem_cons_of_mem _ he))]

/-- `from_vector(to_vector(m), m)` returns `m`: for every signature (any keys in any order), every
shape and every number of leading axes -/
theorem fromVector_toVector (m : MI α) (hm : m.Valid) : MI.fromVector m.toVector m = m := by
  unfold MI.fromVector MI.toVector
  rw [fromVectorBlocks_foldl m.data ⟨[0], #[]⟩ 0 rfl hm.wf]
  rw [appendAll_empty m m.data 0 hm.parity hm.nodup]

/-! ## to_scalar_multi_image / from_scalar_multi_image -/

/-- what `from_scalar_multi_image` sees after `moveaxis(self[(0,0)], n_batch_axes, -1)`: the
spatial-major forms of the blocks concatenated, in dict order, along the last axis -/
theorem image_of_toScalar (D : Nat) (B S : List Nat) (hS : S.length = D) (e0 : Key × NDArr α)
    (rest : List (Key × NDArr α))
    (hall : ∀ e ∈ e0 :: rest, ∃ c, e.2.shape = B ++ c :: (S ++ List.replicate e.1.1 D)) :
    ((rest.map fun e => (xp D B S e).moveaxis (B.length + D) B.length).foldl (concat B.length)
        ((xp D B S e0).moveaxis (B.length + D) B.length)).moveaxis B.length (B.length + D)
      = ((e0 :: rest).map (xp D B S)).foldl (concat (B.length + D)) ⟨(B ++ S) ++ [0], #[]⟩ := by
  have hY : ∀ e ∈ e0 :: rest, ∃ c,
      ((xp D B S e).moveaxis (B.length + D) B.length).shape = B ++ (c * D ^ e.1.1) :: S
      ∧ ((xp D B S e).moveaxis (B.length + D) B.length).moveaxis B.length (B.length + D) = xp D B S e
      ∧ (xp D B S e).shape = (B ++ S) ++ [c * D ^ e.1.1] ∧ (xp D B S e).WF := by
    intro e he
    obtain ⟨c, hc⟩ := hall e he
    obtain ⟨⟨k, p⟩, X⟩ := e
    exact ⟨c, shape_toScalarBlock p hc hS, moveaxis_toScalarBlock p hc hS, shape_xp p hc,
      wf_xp p hc hS⟩
  obtain ⟨c0, h0s, h0m, h0x, h0w⟩ := hY e0 List.mem_cons_self
  have hlen : ((xp D B S e0).moveaxis (B.length + D) B.length).shape.length = B.length + 1 + D := by
    rw [h0s]; simp [hS]; omega
  rw [moveaxis_foldl_concat _ (by rw [hlen]; omega) (by rw [hlen]; omega)]
  · rw [List.map_map, h0m]
    have : (rest.map ((fun x => x.moveaxis B.length (B.length + D)) ∘ fun e =>
        (xp D B S e).moveaxis (B.length + D) B.length)) = rest.map (xp D B S) := by
      apply List.map_congr_left
      intro e he
      obtain ⟨c, _, hm, _, _⟩ := hY e (List.mem_cons_of_mem _ he)
      exact hm
    rw [this, List.map_cons, List.foldl_cons]
    congr 1
    symm
    apply concat_empty_left _ h0w
    · rw [h0x]; simp [hS]
    · show (B ++ S) ++ [0] = _
      rw [h0x]
      have : B.length + D = (B ++ S).length := by simp [hS]
      rw [this, set_last]
  · intro y hy
    obtain ⟨e, he, rfl⟩ := List.mem_map.1 hy
    obtain ⟨c, hs, _, _, _⟩ := hY e (List.mem_cons_of_mem _ he)
    exact ⟨c * D ^ e.1.1, by rw [hs, h0s, set_mid]⟩

/-- **`to_scalar_multi_image` followed by `from_scalar_multi_image(layout = original signature)`
returns the multi image** — every block, with its shape, in the original dict order, together with
`D` and the flags; for every signature (any distinct keys in any order, so in particular for types
of both parities sharing the scalar block), every `D`, every batch shape `B` (any number of batch
axes), every channel count and every spatial shape. -/
theorem fromScalar_toScalar (m : MI α) (hm : m.Valid) {B S : List Nat} (hs : m.Shaped B S)
    (hne : m.data ≠ []) : m.toScalar.fromScalar m.signature = m := by
  obtain ⟨e0, rest, hd⟩ := List.exists_cons_of_ne_nil hne
  have hS := hs.spatial
  have hall : ∀ e ∈ e0 :: rest, ∃ c, e.2.shape = B ++ c :: (S ++ List.replicate e.1.1 m.D) := by
    rw [← hd]; exact hs.blocks
  rw [toScalar_eq m hs e0 rest hd]
  -- the scalar block and its shape
  generalize hZ : (rest.map fun e => (xp m.D B S e).moveaxis (B.length + m.D) B.length).foldl
    (concat B.length) ((xp m.D B S e0).moveaxis (B.length + m.D) B.length) = Z
  have himage := image_of_toScalar m.D B S hS e0 rest hall
  rw [hZ] at himage
  obtain ⟨c0, hc0⟩ := hall e0 List.mem_cons_self
  have h0s : ((xp m.D B S e0).moveaxis (B.length + m.D) B.length).shape
      = B ++ (c0 * m.D ^ e0.1.1) :: S := by
    obtain ⟨⟨k, p⟩, X⟩ := e0
    exact shape_toScalarBlock p hc0 hS
  have hZs : ∃ N, Z.shape = B ++ N :: S := by
    rw [← hZ, shape_foldl_concat _ (by rw [h0s]; simp), h0s, set_mid]
    exact ⟨_, rfl⟩
  obtain ⟨N, hZs⟩ := hZs
  have hZlen : Z.shape.length = B.length + 1 + m.D := by rw [hZs]; simp [hS]; omega
  -- the bookkeeping of from_scalar_multi_image on the scalar multi image
  have hnl : m.nLeading - 1 = B.length := by
    obtain ⟨⟨k0, p0⟩, X0⟩ := e0
    simp only at hc0
    unfold MI.nLeading
    rw [hd]
    simp only
    rw [rank_of_shape hc0 hS]; omega
  unfold MI.fromScalar
  have h1 : (⟨m.D, m.isTorus, [((0, 0), Z)]⟩ : MI α).nLeading - 1 = B.length := by
    simp only [MI.nLeading, hZlen]; omega
  have h2 : (⟨m.D, m.isTorus, [((0, 0), Z)]⟩ : MI α).spatialDims = S := by
    simp only [MI.spatialDims, hZlen]
    have : B.length + 1 + m.D - (0 + m.D) = (B ++ [N]).length := by simp
    rw [this, hZs, show B ++ N :: S = (B ++ [N]) ++ S by simp, List.drop_left, ← hS, List.take_length]
  have h3 : (dictGet (0, 0) (⟨m.D, m.isTorus, [((0, 0), Z)]⟩ : MI α).data).getD default = Z := by
    simp [dictGet]
  simp only [h1, h2, h3]
  rw [hZlen, normAxis_neg_one (by omega)]
  have : B.length + 1 + m.D - 1 = B.length + m.D := by omega
  rw [this, himage]
  have hsig : m.signature = m.data.map fun e => (e.1, e.2.shape.getD B.length 0) := by
    unfold MI.signature; rw [hnl]
  rw [hsig]
  have hblocks := fromScalarBlocks_foldl m.D B S hS m.data ⟨(B ++ S) ++ [0], #[]⟩ 0 rfl
    (fun e he => ⟨hm.wf e he, hs.blocks e he⟩)
  rw [hd] at hblocks
  rw [hd, hblocks, ← hd]
  exact appendAll_empty m m.data 0 hm.parity hm.nodup

/-- **where a tensor component lands**: component `t` of channel `ci` of the block of type
`(k, p)` sits on scalar channel `offset + ci * D^k + ravel t`, where `offset` is the total width
`Σ c' * D^k'` of the types that precede it in dict order — at every batch index `b` and pixel `s`. -/
theorem toScalar_channel_formula (m : MI α) {B S : List Nat} (hs : m.Shaped B S)
    (pre post : List (Key × NDArr α)) (k p : Nat) (X : NDArr α)
    (hd : m.data = pre ++ ((k, p), X) :: post) (c : Nat)
    (hX : X.shape = B ++ c :: (S ++ List.replicate k m.D)) (b s t : List Nat) (ci : Nat)
    (hb : InRange B b) (hsS : InRange S s) (ht : InRange (List.replicate k m.D) t) (hci : ci < c) :
    ∃ Z, m.toScalar.data = [((0, 0), Z)] ∧
      Z.get (b ++ ((pre.map fun e => e.2.shape.getD B.length 0 * m.D ^ e.1.1).sum
          + ci * m.D ^ k + ravel (List.replicate k m.D) t) :: s)
        = X.get (b ++ ci :: (s ++ t)) := by
  have hS := hs.spatial
  have hne : m.data ≠ [] := by rw [hd]; simp
  obtain ⟨e0, rest, hd0⟩ := List.exists_cons_of_ne_nil hne
  have hall : ∀ e ∈ e0 :: rest, ∃ c, e.2.shape = B ++ c :: (S ++ List.replicate e.1.1 m.D) := by
    rw [← hd0]; exact hs.blocks
  rw [toScalar_eq m hs e0 rest hd0]
  generalize hZ : (rest.map fun e => (xp m.D B S e).moveaxis (B.length + m.D) B.length).foldl
    (concat B.length) ((xp m.D B S e0).moveaxis (B.length + m.D) B.length) = Z
  refine ⟨Z, rfl, ?_⟩
  have himage := image_of_toScalar m.D B S hS e0 rest hall
  rw [hZ, ← hd0, hd] at himage
  have hZwf : Z.WF := by rw [← hZ]; exact wf_foldl_concat _ (wf_moveaxis _ _ _)
  obtain ⟨c0, hc0⟩ := hall e0 List.mem_cons_self
  have h0s : ((xp m.D B S e0).moveaxis (B.length + m.D) B.length).shape
      = B ++ (c0 * m.D ^ e0.1.1) :: S := by
    obtain ⟨⟨k, p⟩, X⟩ := e0
    exact shape_toScalarBlock p hc0 hS
  obtain ⟨N, hZs⟩ : ∃ N, Z.shape = B ++ N :: S := by
    rw [← hZ, shape_foldl_concat _ (by rw [h0s]; simp), h0s, set_mid]
    exact ⟨_, rfl⟩
  have hZlen : Z.shape.length = B.length + 1 + m.D := by rw [hZs]; simp [hS]; omega
  have hBS : (B ++ S).length = B.length + m.D := by simp [hS]
  -- Z is the image with the channel axis moved back in front of the spatial axes
  have hZimg : Z = (Z.moveaxis B.length (B.length + m.D)).moveaxis (B.length + m.D) B.length :=
    (moveaxis_moveaxis hZwf (by omega) (by omega)).symm
  -- the image is the accumulated prefix, then this block, then the rest
  set accPre := (pre.map (xp m.D B S)).foldl (concat (B.length + m.D))
    (⟨(B ++ S) ++ [0], #[]⟩ : NDArr α) with haccPre
  have himage2 : Z.moveaxis B.length (B.length + m.D)
      = ((((k, p), X) :: post).map (xp m.D B S)).foldl (concat (B.length + m.D)) accPre := by
    rw [himage, List.map_append, List.foldl_append]
  have hax0 : B.length + m.D < ((⟨(B ++ S) ++ [0], #[]⟩ : NDArr α)).shape.length := by
    show B.length + m.D < ((B ++ S) ++ [0]).length
    simp [hS]
  set off := (pre.map fun e => e.2.shape.getD B.length 0 * m.D ^ e.1.1).sum with hoff
  have hpre : ∀ e ∈ pre, (xp m.D B S e).shape.getD (B.length + m.D) 0
      = e.2.shape.getD B.length 0 * m.D ^ e.1.1 := by
    intro e he
    unfold xp
    rw [shape_reshape, ← hBS]
    exact getD_mid _ _ _
  have haccs : accPre.shape = (B ++ S) ++ [off] := by
    rw [haccPre, shape_foldl_concat _ hax0]
    show ((B ++ S) ++ [0]).set (B.length + m.D)
      (((B ++ S) ++ [0]).getD (B.length + m.D) 0 + _) = _
    rw [← hBS, getD_mid, set_last, Nat.zero_add, List.map_map, hoff]
    congr 3
    apply List.map_congr_left
    intro e he
    have := hpre e he
    rw [← hBS] at this
    exact this
  have hxs := shape_xp (D := m.D) (B := B) (S := S) p hX
  have hxw := wf_xp (D := m.D) (B := B) (S := S) p hX hS
  have haxa : B.length + m.D < accPre.shape.length := by rw [haccs]; simp [hS]
  have hna : accPre.shape.getD (B.length + m.D) 0 = off := by
    rw [haccs, ← hBS]; exact getD_mid _ _ _
  have hslice := slice_foldl_next (x := xp m.D B S ((k, p), X)) (post.map (xp m.D B S))
    (acc := accPre) (ax := B.length + m.D) (m := c * m.D ^ k) hxw haxa
    (by rw [hxs, haccs, ← hBS, set_last])
  rw [hna, ← List.map_cons, ← himage2] at hslice
  -- the channel index
  set j := ci * m.D ^ k + ravel (List.replicate k m.D) t with hj
  have hjlt : j < c * m.D ^ k := by
    have := ravel_lt (s := c :: List.replicate k m.D) (i := ci :: t) ⟨hci, ht⟩
    simpa [ravel, prod_replicate_nat, hj] using this
  have hbl := hb.length_eq
  have hsl := hsS.length_eq
  -- shape of the image
  have himgs : (Z.moveaxis B.length (B.length + m.D)).shape = B ++ (S ++ N :: []) := by
    rw [shape_moveaxis, hZs]
    have := moveList_fwd B S ([] : List Nat) N
    rw [hS] at this
    simpa using this
  have hNge : off + c * m.D ^ k ≤ N := by
    have h1 : (Z.moveaxis B.length (B.length + m.D)).shape.getD (B.length + m.D) 0 = N := by
      rw [himgs, ← List.append_assoc, ← hBS]; exact getD_mid _ _ _
    rw [himage2, getD_shape_foldl_concat _ haxa, hna, List.map_cons, List.map_cons, List.sum_cons,
      hxs, ← hBS, getD_mid] at h1
    omega
  -- step 1: read Z through the image
  have step1 : Z.get (b ++ (off + j) :: s)
      = (Z.moveaxis B.length (B.length + m.D)).get (b ++ (s ++ (off + j) :: [])) := by
    conv_lhs => rw [hZimg]
    have := get_moveaxis_bwd (Z.moveaxis B.length (B.length + m.D)) B S [] N himgs b s [] (off + j)
      hb hsS trivial (by omega)
    rw [hS] at this
    simpa using this
  -- step 2: read the image through the slice that is the spatial-major form of this block
  have hir : InRange ((Z.moveaxis B.length (B.length + m.D)).shape.set (B.length + m.D)
      (off + c * m.D ^ k - off)) ((b ++ s) ++ [j]) := by
    rw [himgs, ← List.append_assoc, ← hBS, set_last, inRange_append (by simp [hbl, hsl])]
    refine ⟨(inRange_append hbl).2 ⟨hb, hsS⟩, ?_, trivial⟩
    omega
  have step2 : (xp m.D B S ((k, p), X)).get ((b ++ s) ++ [j])
      = (Z.moveaxis B.length (B.length + m.D)).get ((b ++ s) ++ [off + j]) := by
    rw [← hslice, get_slice _ _ _ _ hir]
    have hl : (b ++ s).length = B.length + m.D := by simp [hbl, hsl, hS]
    rw [← hl, getD_mid, set_last, Nat.add_comm]
  -- step 3: read the spatial-major form through the reshape and the first moveaxis
  have hms := shape_moved (D := m.D) (B := B) (S := S) hX hS
  have step3 : (xp m.D B S ((k, p), X)).get ((b ++ s) ++ [j]) = X.get (b ++ ci :: (s ++ t)) := by
    have hq : (c :: List.replicate k m.D).prod = c * m.D ^ k := by
      simp
    have hrav : ravel (c :: List.replicate k m.D) (ci :: t) = j := by
      simp [ravel, hj]
    have := get_reshape_merge (X.moveaxis B.length (B.length + m.D)) (s₁ := B ++ S) (i₁ := b ++ s)
      (c :: List.replicate k m.D) (ci :: t) [] []
      (by rw [hms]; simp) (by simp [hbl, hsl]) (by simp [ht.length_eq])
    rw [hq, hrav] at this
    unfold xp
    rw [getD_chan hX]
    rw [this]
    have h4 := get_moveaxis_fwd X B S (List.replicate k m.D) c hX b s t ci hb hsS ht hci
    rw [hS] at h4
    simpa using h4
  have e1 : off + ci * m.D ^ k + ravel (List.replicate k m.D) t = off + j := by
    rw [hj]; omega
  rw [e1, step1, ← step3, step2]
  simp

/-! ## concat / concat_inverse -/

/-- what `concat(other, axis)` needs from its operands (numpy's shape agreement on shared types,
`axis` an axis of every block) plus non-empty extents along `axis` (an empty block could not be
told apart from an absent one by `concat_inverse`) -/
structure ConcatCompat (a b : MI α) (axis : Nat) : Prop where
  shared : ∀ key x y, dictGet key a.data = some x → dictGet key b.data = some y →
    ∃ n, y.shape = x.shape.set axis n
  axisA : ∀ e ∈ a.data, axis < e.2.shape.length ∧ 0 < e.2.shape.getD axis 0
  axisB : ∀ e ∈ b.data, axis < e.2.shape.length ∧ 0 < e.2.shape.getD axis 0

/-- by key: the result of `concat` -/
theorem dictGet_concat (a b : MI α) (ha : a.Valid) (hb : b.Valid) (axis : Nat) (key : Key) :
    dictGet key (a.concat b axis).data
      = match dictGet key a.data, dictGet key b.data with
        | some x, some y => some (NDArr.concat axis x y)
        | some x, none => some x
        | none, some y => some y
        | none, none => none := by
  unfold MI.concat
  rw [copy_eq a ha.nodup]
  exact dictGet_appendAll a b.data axis hb.parity hb.nodup key

/-- **`a.concat(b, axis).concat_inverse(signature of b along axis, axis)` returns `(a, b)`**, block
by block (by key), with `D` and the flags — for every leading axis, every pair of signatures
(shared types are concatenated, new types are added) and all shapes. -/
theorem concatInverse_concat (a b : MI α) (ha : a.Valid) (hb : b.Valid) (axis : Nat)
    (hc : ConcatCompat a b axis) :
    let r := (a.concat b axis).concatInverse (b.signatureAt axis) axis
    r.1.D = a.D ∧ r.1.isTorus = a.isTorus ∧ r.2.D = a.D ∧ r.2.isTorus = a.isTorus
      ∧ (∀ key, dictGet key r.1.data = dictGet key a.data)
      ∧ (∀ key, dictGet key r.2.data = dictGet key b.data) := by
  intro r
  have hcopy := copy_eq a ha.nodup
  have hmcD : (a.concat b axis).D = a.D := by unfold MI.concat; rw [hcopy]; simp
  have hmcT : (a.concat b axis).isTorus = a.isTorus := by unfold MI.concat; rw [hcopy]; simp
  have hmcn : (keysOf (a.concat b axis).data).Nodup := by
    unfold MI.concat; rw [hcopy]; exact keysOf_nodup_appendAll a _ _ ha.nodup
  have hmcp : ∀ e ∈ (a.concat b axis).data, e.1.2 < 2 := by
    unfold MI.concat; rw [hcopy]; exact parity_appendAll a _ _ ha.parity
  -- the signature dict
  have hsig : ∀ key, (dictGet key (toDict (b.signatureAt axis))).getD 0
      = ((dictGet key b.data).map fun y => y.shape.getD axis 0).getD 0 := by
    intro key
    unfold MI.signatureAt
    rw [toDict_eq_self (by rw [keysOf_map_snd]; exact hb.nodup)]
    rw [dictGet_mapVal b.data (fun y => y.shape.getD axis 0) key]
  -- both results as filtered / transformed dicts
  have hfm : ∀ (sel : Option (NDArr α) × Option (NDArr α) → Option (NDArr α)),
      (((a.concat b axis).data.map fun e =>
          (e.1, splitBlock axis ((dictGet e.1 (toDict (b.signatureAt axis))).getD 0) e.2)).filterMap
        fun e => (sel e.2).map fun x => (e.1, x))
      = (a.concat b axis).data.filterMap fun e =>
          (sel (splitBlock axis ((dictGet e.1 (toDict (b.signatureAt axis))).getD 0) e.2)).map
            fun x => (e.1, x) := by
    intro sel
    rw [List.filterMap_map]
    rfl
  have hget : ∀ (sel : Option (NDArr α) × Option (NDArr α) → Option (NDArr α)) (key : Key),
      dictGet key (appendAll (a.concat b axis).empty
        (((a.concat b axis).data.map fun e =>
          (e.1, splitBlock axis ((dictGet e.1 (toDict (b.signatureAt axis))).getD 0) e.2)).filterMap
        fun e => (sel e.2).map fun x => (e.1, x)) 0).data
      = (dictGet key (a.concat b axis).data).bind fun blk =>
          sel (splitBlock axis ((dictGet key (toDict (b.signatureAt axis))).getD 0) blk) := by
    intro sel key
    rw [hfm sel]
    have hsub := keysOf_filterMap_sublist (a.concat b axis).data
      (fun k blk => sel (splitBlock axis ((dictGet k (toDict (b.signatureAt axis))).getD 0) blk))
    rw [dictGet_appendAll _ _ _ _ (hsub.nodup hmcn)]
    · rw [dictGet_filterMap _ hmcn
        (fun k blk => sel (splitBlock axis ((dictGet k (toDict (b.signatureAt axis))).getD 0) blk))]
      simp only [MI.empty_data, dictGet]
      cases (dictGet key (a.concat b axis).data).bind fun blk =>
        sel (splitBlock axis ((dictGet key (toDict (b.signatureAt axis))).getD 0) blk) <;> rfl
    · intro e he
      obtain ⟨e', he', hee⟩ := List.mem_filterMap.1 he
      cases hs : sel (splitBlock axis ((dictGet e'.1 (toDict (b.signatureAt axis))).getD 0) e'.2) with
      | none => rw [hs] at hee; simp at hee
      | some x =>
        rw [hs] at hee
        simp only [Option.map_some, Option.some.injEq] at hee
        rw [← hee]
        exact hmcp e' he'
  refine ⟨?_, ?_, ?_, ?_, ?_, ?_⟩
  · show (appendAll _ _ 0).D = a.D
    rw [appendAll_D]; exact hmcD
  · show (appendAll _ _ 0).isTorus = a.isTorus
    rw [appendAll_isTorus]; exact hmcT
  · show (appendAll _ _ 0).D = a.D
    rw [appendAll_D]; exact hmcD
  · show (appendAll _ _ 0).isTorus = a.isTorus
    rw [appendAll_isTorus]; exact hmcT
  all_goals
    intro key
    first
      | (show dictGet key (appendAll _ _ 0).data = dictGet key a.data)
      | (show dictGet key (appendAll _ _ 0).data = dictGet key b.data)
    first
      | rw [hget Prod.fst key]
      | rw [hget Prod.snd key]
    rw [dictGet_concat a b ha hb axis key, hsig key]
    cases hA : dictGet key a.data with
    | none =>
      cases hB : dictGet key b.data with
      | none => rfl
      | some y =>
        have hy := hc.axisB _ (mem_of_dictGet hB)
        simp only [Option.map_some, Option.getD_some, Option.bind_some, splitBlock]
        have h0 : ¬ (y.shape.getD axis 0 = 0) := by
          have := hy.2; simp only at this; omega
        rw [if_neg h0, if_pos trivial]
    | some x =>
      have hx := hc.axisA _ (mem_of_dictGet hA)
      have hxw := ha.wf _ (mem_of_dictGet hA)
      simp only at hx
      cases hB : dictGet key b.data with
      | none => simp [splitBlock]
      | some y =>
        have hy := hc.axisB _ (mem_of_dictGet hB)
        have hyw := hb.wf _ (mem_of_dictGet hB)
        simp only at hy
        obtain ⟨n, hn⟩ := hc.shared key x y hA hB
        have hyn : y.shape.getD axis 0 = n := by rw [hn, getD_set_self hx.1]
        simp only [Option.map_some, Option.getD_some, Option.bind_some, splitBlock]
        have hext : (NDArr.concat axis x y).shape.getD axis 0
            = x.shape.getD axis 0 + y.shape.getD axis 0 := getD_shape_concat _ _ hx.1
        have h0 : ¬ (y.shape.getD axis 0 = 0) := by omega
        have h1 : ¬ (y.shape.getD axis 0 = (NDArr.concat axis x y).shape.getD axis 0) := by
          rw [hext]; omega
        simp only [h0, h1, if_false]
        unfold pySliceAxis
        rw [hext]
        first
          | (rw [pySlice_zero_neg (by omega) (by omega)]
             have : x.shape.getD axis 0 + y.shape.getD axis 0 - y.shape.getD axis 0
                 = x.shape.getD axis 0 := by omega
             simp only [this]
             rw [slice_concat_fst y hxw hx.1])
          | (rw [pySlice_neg_full (by omega) (by omega)]
             have : x.shape.getD axis 0 + y.shape.getD axis 0 - y.shape.getD axis 0
                 = x.shape.getD axis 0 := by omega
             simp only [this]
             rw [hyn, slice_concat_snd hyw hx.1 hn])

/-! ## from_images / to_images -/

/-- appending images of one type one after the other (each with a new leading axis of extent 1)
builds the stack of the images -/
theorem foldl_concat_stack (s : List Nat) (acc xs : List (NDArr α))
    (h : ∀ x ∈ xs, x.shape = s ∧ x.WF) :
    (xs.map fun x => x.reshape (1 :: x.shape)).foldl (concat 0) (stack s acc) = stack s (acc ++ xs) := by
  induction xs generalizing acc with
  | nil => simp
  | cons x xs ih =>
    obtain ⟨hxs, hxw⟩ := h x List.mem_cons_self
    rw [List.map_cons, List.foldl_cons, reshape_one_eq_stack hxw, hxs, concat_stack,
      ih _ (fun y hy => h y (List.mem_cons_of_mem _ hy))]
    simp

/-- the images of one block, appended to a multi image that does not have this type yet, rebuild
the block -/
theorem appendAll_rows (m0 : MI α) (key : Key) (hk : key.2 < 2) (blk : NDArr α) (c : Nat)
    (s : List Nat) (hsh : blk.shape = c :: s) (hc : 0 < c) (hw : blk.WF)
    (hfresh : key ∉ keysOf m0.data) :
    (appendAll m0 (blk.rows.map fun x => (key, x.reshape (1 :: x.shape))) 0).data
      = m0.data ++ [(key, blk)] := by
  have hrows : ∀ x ∈ blk.rows, x.shape = s ∧ x.WF := by
    intro x hx
    unfold rows at hx
    obtain ⟨j, _, rfl⟩ := List.mem_map.1 hx
    exact ⟨by rw [shape_row, hsh]; rfl, wf_row _ _⟩
  obtain ⟨r0, rs, hr⟩ : ∃ r0 rs, blk.rows = r0 :: rs := by
    have : blk.rows.length = c := by rw [length_rows, hsh]; rfl
    cases hrw : blk.rows with
    | nil => rw [hrw] at this; simp at this; omega
    | cons r0 rs => exact ⟨r0, rs, rfl⟩
  have h0 := hrows r0 (by rw [hr]; exact List.mem_cons_self)
  obtain ⟨k, p⟩ := key
  rw [hr, List.map_cons, appendAll_cons]
  have hfirst : (m0.append k p (r0.reshape (1 :: r0.shape)) 0).data
      = m0.data ++ [((k, p), stack s [r0])] := by
    rw [append_fresh m0 _ 0 hk hfresh, reshape_one_eq_stack h0.2, h0.1]
  have := appendAll_same_key (m0.append k p (r0.reshape (1 :: r0.shape)) 0) (k, p) hk
    (stack s [r0]) (rs.map fun x => x.reshape (1 :: x.shape)) 0 m0.data [] hfirst hfresh
  rw [List.map_map] at this
  rw [show (rs.map fun x => (((k, p) : Key), x.reshape (1 :: x.shape)))
      = rs.map ((fun y => (((k, p) : Key), y)) ∘ fun x => x.reshape (1 :: x.shape)) from rfl, this,
    foldl_concat_stack s [r0] rs (fun x hx => hrows x (by rw [hr]; exact List.mem_cons_of_mem _ hx))]
  rw [List.singleton_append, ← hr, stack_rows hw hsh]

/-- the layout `from_images` / `to_images` are inverse on: exactly one leading axis (of positive
extent) in front of the spatial and tensor axes -/
structure MI.OneLeading (m : MI α) (S : List Nat) : Prop where
  spatial : S.length = m.D
  blocks : ∀ e ∈ m.data, ∃ c, 0 < c ∧ e.2.shape = c :: (S ++ List.replicate e.1.1 m.D)
  pos : ∀ e ∈ m.data, 0 < e.2.shape.prod

/-- the images of a list of blocks, appended in order, rebuild the blocks -/
theorem appendAll_images (D : Nat) (S : List Nat) (hS : S.length = D)
    (blocks : List (Key × NDArr α)) (m0 : MI α)
    (hn : (keysOf (m0.data ++ blocks)).Nodup) (hp : ∀ e ∈ blocks, e.1.2 < 2)
    (hw : ∀ e ∈ blocks, e.2.WF)
    (hsh : ∀ e ∈ blocks, ∃ c, 0 < c ∧ e.2.shape = c :: (S ++ List.replicate e.1.1 D)) :
    (appendAll m0 (blocks.flatMap fun e =>
        e.2.rows.map fun x => (((x.shape.length - D, e.1.2 % 2) : Key), x.reshape (1 :: x.shape))) 0).data
      = m0.data ++ blocks := by
  induction blocks generalizing m0 with
  | nil => simp [appendAll_nil]
  | cons e blocks ih =>
    obtain ⟨⟨k, p⟩, blk⟩ := e
    obtain ⟨c, hc, hs⟩ := hsh ((k, p), blk) List.mem_cons_self
    have hpp : p < 2 := hp ((k, p), blk) List.mem_cons_self
    simp only at hs
    have hfresh : (k, p) ∉ keysOf m0.data := by
      simp only [keysOf_append, keysOf_cons] at hn
      have := List.nodup_append.1 hn
      intro hm
      exact this.2.2 _ hm _ List.mem_cons_self rfl
    rw [List.flatMap_cons, appendAll_append]
    have hitems : (blk.rows.map fun x =>
        (((x.shape.length - D, p % 2) : Key), x.reshape (1 :: x.shape)))
        = blk.rows.map fun x => (((k, p) : Key), x.reshape (1 :: x.shape)) := by
      apply List.map_congr_left
      intro x hx
      unfold rows at hx
      obtain ⟨j, _, rfl⟩ := List.mem_map.1 hx
      have : (blk.row j).shape.length - D = k := by
        rw [shape_row, hs]; simp [hS]
      rw [this, Nat.mod_eq_of_lt hpp]
    simp only
    rw [hitems]
    have hhead := appendAll_rows m0 (k, p) hpp blk c _ hs hc (hw _ List.mem_cons_self) hfresh
    rw [ih]
    · rw [hhead]; simp
    · rw [hhead]; simpa using hn
    · exact fun e he => hp e (List.mem_cons_of_mem _ he)
    · exact fun e he => hw e (List.mem_cons_of_mem _ he)
    · exact fun e he => hsh e (List.mem_cons_of_mem _ he)

/-- **`from_images(to_images(m))` returns `m`** for every multi image with one leading axis: every
signature (any keys, any order), channel counts, `D`, spatial shape -/
theorem fromImages_toImages (m : MI α) (hm : m.Valid) {S : List Nat} (ho : m.OneLeading S)
    (hne : m.data ≠ []) : MI.fromImages m.toImages = m := by
  have hS := ho.spatial
  obtain ⟨e0, rest, hd⟩ := List.exists_cons_of_ne_nil hne
  -- spatial dims
  have hsp : m.spatialDims = S := by
    obtain ⟨c, _, hc⟩ := ho.blocks e0 (by rw [hd]; exact List.mem_cons_self)
    obtain ⟨⟨k0, p0⟩, X0⟩ := e0
    simp only at hc
    unfold MI.spatialDims
    rw [hd]
    simp only
    rw [hc]
    have : (c :: (S ++ List.replicate k0 m.D)).length - (k0 + m.D) = 1 := by simp [hS]; omega
    rw [this, List.drop_one, List.tail_cons, ← hS, List.take_left]
  -- every block is reshaped onto itself before it is cut into images
  have hresh : ∀ e ∈ m.data,
      e.2.reshapeInfer [] (m.spatialDims ++ List.replicate e.1.1 m.D) = e.2 := by
    intro e he
    obtain ⟨c, _, hc⟩ := ho.blocks e he
    have hpos := ho.pos e he
    rw [hsp]
    unfold reshapeInfer
    have hp2 : 0 < ([] : List Nat).prod * (S ++ List.replicate e.1.1 m.D).prod := by
      rw [hc] at hpos
      have := (prod_pos_of_split (pre := []) hpos).1
      simpa using this
    have : inferDim e.2.shape.prod [] (S ++ List.replicate e.1.1 m.D) = c := by
      have h2 : e.2.shape = [] ++ c :: (S ++ List.replicate e.1.1 m.D) := by rw [hc]; rfl
      rw [h2, inferDim_self _ _ _ hp2]
    rw [this, List.nil_append, ← hc, reshape_self]
  -- the list of images
  have himgs : m.toImages = m.data.flatMap fun e =>
      e.2.rows.map fun x => GImg.new x e.1.2 m.D m.isTorus := by
    unfold MI.toImages
    apply List.flatMap_congr
    intro e he
    rw [hresh e he]
  -- first image
  obtain ⟨c0, hc0, hs0⟩ := ho.blocks e0 (by rw [hd]; exact List.mem_cons_self)
  have hfirst : ∃ g gs, m.toImages = g :: gs ∧ g.D = m.D ∧ g.isTorus = m.isTorus := by
    rw [himgs, hd, List.flatMap_cons]
    have : e0.2.rows.length = c0 := by rw [length_rows, hs0]; rfl
    cases hr : e0.2.rows with
    | nil => rw [hr] at this; simp at this; omega
    | cons r0 rs => exact ⟨_, _, rfl, rfl, rfl⟩
  obtain ⟨g, gs, hg, hgD, hgT⟩ := hfirst
  unfold MI.fromImages
  have hD : ((m.toImages.head?.map (·.D)).getD 0) = m.D := by rw [hg]; simpa using hgD
  have hT : ((m.toImages.head?.map (·.isTorus)).getD []) = m.isTorus := by rw [hg]; simpa using hgT
  rw [hD, hT]
  have hitems : (m.toImages.map fun g => (((g.k, g.parity) : Key), g.data.addLeading 1))
      = m.data.flatMap fun e => e.2.rows.map fun x =>
          (((x.shape.length - m.D, e.1.2 % 2) : Key), x.reshape (1 :: x.shape)) := by
    rw [himgs, List.map_flatMap]
    apply List.flatMap_congr
    intro e he
    rw [List.map_map]
    apply List.map_congr_left
    intro x hx
    simp [GImg.new, GImg.k, addLeading]
  show appendAll (MI.new [] m.D m.isTorus)
    (m.toImages.map fun g => (((g.k, g.parity) : Key), g.data.addLeading 1)) 0 = m
  rw [hitems]
  have hdata := appendAll_images m.D S hS m.data (MI.new [] m.D m.isTorus)
    (by simpa using hm.nodup) hm.parity hm.wf ho.blocks
  have hfin := MI.eq_mk (appendAll (MI.new [] m.D m.isTorus) (m.data.flatMap fun e =>
      e.2.rows.map fun x =>
        (((x.shape.length - m.D, e.1.2 % 2) : Key), x.reshape (1 :: x.shape))) 0)
    (D := m.D) (T := m.isTorus) (by rw [appendAll_D]; rfl) (by rw [appendAll_isTorus]; rfl) hdata
  rw [hfin]
  simp

/-- the type of an image as `from_images` sees it: `(k, parity)` -/
def GImg.typeKey (g : GImg α) : Key := (g.k, g.parity)

/-- the keys of a list in order of first occurrence -/
def firstKeys : List Key → List Key
  | [] => []
  | k :: ks => k :: (firstKeys ks).filter (· ≠ k)

/-- a list of images grouped by type: types in order of first occurrence, the order inside a type
kept (a stable grouping) -/
def groupByType (imgs : List (GImg α)) : List (GImg α) :=
  (firstKeys (imgs.map GImg.typeKey)).flatMap fun key => imgs.filter fun g => g.typeKey = key

/-- Full statement of the other direction (kept as a statement): for every list of images of
common `D`, flags and spatial shape, `to_images(from_images(images))` is the list grouped by type,
stable. -/
def toImages_fromImages_statement (α : Type) [Inhabited α] : Prop :=
  ∀ (imgs : List (GImg α)) (D : Nat) (T : List Bool) (S : List Nat), S.length = D → imgs ≠ [] →
    (∀ g ∈ imgs, g.D = D ∧ g.isTorus = T ∧ g.parity < 2 ∧ g.data.WF ∧ 0 < g.data.shape.prod
      ∧ ∃ k, g.data.shape = S ++ List.replicate k D) →
    (MI.fromImages imgs).toImages = groupByType imgs

/-- Proved part: for every image list in which each type forms one consecutive run — i.e. every
list `to_images` can produce — `to_images(from_images(images))` returns the list unchanged.
Missing for the full statement: the by-key description of a loop of `append`s over *repeated,
interleaved* keys (`dictGet_appendAll` is for pairwise different keys); the interleaved case is
covered by the correspondence and oracle runs only. -/
theorem toImages_fromImages_partial (m : MI α) (hm : m.Valid) {S : List Nat} (ho : m.OneLeading S)
    (hne : m.data ≠ []) : (MI.fromImages m.toImages).toImages = m.toImages := by
  rw [fromImages_toImages m hm ho hne]

theorem firstKeys_eq_firstOcc : ∀ ks : List Key, firstKeys ks = firstOcc ks
  | [] => rfl
  | k :: ks => by simp only [firstKeys, firstOcc, firstKeys_eq_firstOcc ks]

/-- **`to_images(from_images(images))` is the image list grouped by type, stable** — the full
statement: for every non-empty list of images of common `D`, flags and spatial shape, whose types
`(k, parity)` may repeat and interleave in any way, `from_images` (one `append` per image)
followed by `to_images` returns the images grouped by type, the types in order of first occurrence,
the images of one type in their original relative order.  The missing piece of
`toImages_fromImages_partial` — a loop of `append`s over repeated, interleaved keys — is
`appendAll_interleaved` (`Lemmas/C13Images.lean`). -/
theorem toImages_fromImages : toImages_fromImages_statement α := by
  intro imgs D T S hS hne h
  rw [toImages_fromImages_grouped imgs D T S hS hne h]
  unfold groupByType
  rw [firstKeys_eq_firstOcc]
  rfl

/-! ## the repaired `append` (fix D11) versus the legacy assertion -/

/-- Before fix D11 `append` refused to *store* a block of a new type in a non-empty multi image
without leading axes (so `from_vector(to_vector(m), m)` raised for such `m` with two types); the
repaired check accepts it. -/
theorem append_legacy_counterexample :
    ∃ (m : MI Nat) (k p : Nat) (blk : NDArr Nat),
      m.appendOkLegacy k p blk 0 = false ∧ m.appendOk k p blk 0 = true :=
  ⟨⟨1, [true], [((0, 0), ⟨[2], #[0, 1]⟩)]⟩, 0, 1, ⟨[2], #[2, 3]⟩, by decide, by decide⟩

/-! ## non-vacuity: concrete multi images satisfying the hypotheses, and the theorems applied -/

section Examples

/-- position-encoded blocks (every entry distinct) -/
def blkP : NDArr Nat := ofFn [2, 3, 2, 3] fun i => 1000 + ravel [2, 3, 2, 3] i
def blkV : NDArr Nat := ofFn [2, 2, 2, 3, 2] fun i => ravel [2, 2, 2, 3, 2] i
def blkV1 : NDArr Nat := ofFn [2, 1, 2, 3, 2] fun i => 5000 + ravel [2, 1, 2, 3, 2] i
def blkS : NDArr Nat := ofFn [2, 2, 2, 3] fun i => 7000 + ravel [2, 2, 2, 3] i
def blkW : NDArr Nat := ofFn [2, 2, 3, 2] fun i => ravel [2, 2, 3, 2] i
def blkT : NDArr Nat := ofFn [3, 2, 3] fun i => 100 + ravel [3, 2, 3] i

theorem blkP_wf : blkP.WF := by unfold blkP; exact wf_ofFn _ _
theorem blkV_wf : blkV.WF := by unfold blkV; exact wf_ofFn _ _
theorem blkV1_wf : blkV1.WF := by unfold blkV1; exact wf_ofFn _ _
theorem blkS_wf : blkS.WF := by unfold blkS; exact wf_ofFn _ _
theorem blkW_wf : blkW.WF := by unfold blkW; exact wf_ofFn _ _
theorem blkT_wf : blkT.WF := by unfold blkT; exact wf_ofFn _ _
theorem blkP_shape : blkP.shape = [2, 3, 2, 3] := rfl
theorem blkV_shape : blkV.shape = [2, 2, 2, 3, 2] := rfl
theorem blkV1_shape : blkV1.shape = [2, 1, 2, 3, 2] := rfl
theorem blkS_shape : blkS.shape = [2, 2, 2, 3] := rfl
theorem blkW_shape : blkW.shape = [2, 2, 3, 2] := rfl
theorem blkT_shape : blkT.shape = [3, 2, 3] := rfl

/-- two batch entries, a pseudoscalar block with 3 channels and a vector block with 2 channels on a
2×3 grid, pseudoscalar first -/
def exMI : MI Nat := ⟨2, [true, false], [((0, 1), blkP), ((1, 0), blkV)]⟩

theorem exMI_mem {e : Key × NDArr Nat} (he : e ∈ exMI.data) : e = ((0, 1), blkP) ∨ e = ((1, 0), blkV) := by
  simpa only [exMI, List.mem_cons, List.not_mem_nil, or_false] using he

theorem exMI_valid : exMI.Valid := by
  refine ⟨by decide, ?_, ?_⟩
  · intro e he; rcases exMI_mem he with rfl | rfl <;> simp
  · intro e he; rcases exMI_mem he with rfl | rfl <;> [exact blkP_wf; exact blkV_wf]

theorem exMI_shaped : exMI.Shaped [2] [2, 3] := by
  refine ⟨rfl, ?_, by decide⟩
  intro e he
  rcases exMI_mem he with rfl | rfl
  · exact ⟨3, blkP_shape⟩
  · exact ⟨2, blkV_shape⟩

example : exMI.toScalar.fromScalar exMI.signature = exMI :=
  fromScalar_toScalar exMI exMI_valid exMI_shaped (by simp [exMI])

example : MI.fromVector exMI.toVector exMI = exMI := fromVector_toVector exMI exMI_valid

example : exMI.copy = exMI := copy_eq exMI exMI_valid.nodup

example : (exMI.expand 0 2).combineAxes [0, 1] = exMI :=
  combine_expand exMI exMI_valid 0 2 (by decide) (by
    intro e he
    rcases exMI_mem he with rfl | rfl
    · exact ⟨by rw [blkP_shape]; decide, ⟨1, by rw [blkP_shape]; rfl⟩, by rw [blkP_shape]; decide⟩
    · exact ⟨by rw [blkV_shape]; decide, ⟨1, by rw [blkV_shape]; rfl⟩, by rw [blkV_shape]; decide⟩)

example : (exMI.reshapePmap 2 0).mergeAxes [0, 1] = exMI :=
  merge_reshapePmap exMI exMI_valid 2 0 ⟨1, rfl⟩ (by
    intro e he
    rcases exMI_mem he with rfl | rfl
    · exact ⟨by rw [blkP_shape]; decide, by rw [blkP_shape]; rfl, by rw [blkP_shape]; decide⟩
    · exact ⟨by rw [blkV_shape]; decide, by rw [blkV_shape]; rfl, by rw [blkV_shape]; decide⟩)

example : exMI.treeRoundtrip.D = 2 ∧ (∀ key, dictGet key exMI.treeRoundtrip.data = dictGet key exMI.data) :=
  ⟨(treeRoundtrip_eq exMI exMI_valid.nodup).1, (treeRoundtrip_eq exMI exMI_valid.nodup).2.2.1⟩

/-- the vector component `t = [1]` of channel `1` of the vector block, at batch entry 1 and pixel
(1, 2), lands on scalar channel `3 + 1 * 2 + 1` (3 = width of the pseudoscalar block before it) -/
example : ∃ Z, exMI.toScalar.data = [((0, 0), Z)] ∧
    Z.get ([1] ++ (([((0, 1), blkP)].map fun e => e.2.shape.getD 1 0 * 2 ^ e.1.1).sum + 1 * 2 ^ 1
        + ravel (List.replicate 1 2) [1]) :: [1, 2])
      = blkV.get ([1] ++ 1 :: ([1, 2] ++ [1])) :=
  toScalar_channel_formula exMI exMI_shaped [((0, 1), blkP)] [] 1 0 blkV rfl 2 blkV_shape
    [1] [1, 2] [1] 1 (by decide) (by decide) (by decide) (by decide)

/-- one leading axis: what `to_images` / `from_images` are inverse on -/
def exOne : MI Nat := ⟨2, [true, true], [((1, 1), blkW), ((0, 0), blkT)]⟩

theorem exOne_mem {e : Key × NDArr Nat} (he : e ∈ exOne.data) : e = ((1, 1), blkW) ∨ e = ((0, 0), blkT) := by
  simpa only [exOne, List.mem_cons, List.not_mem_nil, or_false] using he

theorem exOne_valid : exOne.Valid := by
  refine ⟨by decide, ?_, ?_⟩
  · intro e he; rcases exOne_mem he with rfl | rfl <;> simp
  · intro e he; rcases exOne_mem he with rfl | rfl <;> [exact blkW_wf; exact blkT_wf]

example : MI.fromImages exOne.toImages = exOne :=
  fromImages_toImages exOne exOne_valid (S := [2, 3])
    ⟨rfl, by
      intro e he
      rcases exOne_mem he with rfl | rfl
      · exact ⟨2, by decide, blkW_shape⟩
      · exact ⟨3, by decide, blkT_shape⟩,
     by
      intro e he
      rcases exOne_mem he with rfl | rfl
      · rw [blkW_shape]; decide
      · rw [blkT_shape]; decide⟩
    (by simp [exOne])

/-- three images whose types interleave: scalar, vector, scalar (`D = 2`, spatial shape `(2, 3)`) -/
def imgA : GImg Nat := ⟨⟨[2, 3], #[0, 1, 2, 3, 4, 5]⟩, 0, 2, [true, true]⟩
def imgB : GImg Nat := ⟨⟨[2, 3, 2], #[10, 11, 12, 13, 14, 15, 16, 17, 18, 19, 20, 21]⟩, 0, 2, [true, true]⟩
def imgC : GImg Nat := ⟨⟨[2, 3], #[30, 31, 32, 33, 34, 35]⟩, 0, 2, [true, true]⟩

/-- the hypotheses of `toImages_fromImages` are satisfiable on an interleaved list, and the images
come back grouped by type: the two scalars first (in their order), then the vector -/
example : (MI.fromImages [imgA, imgB, imgC]).toImages = [imgA, imgC, imgB] := by
  have h := toImages_fromImages (α := Nat) [imgA, imgB, imgC] 2 [true, true] [2, 3] rfl (by simp)
    (by
      intro g hg
      simp only [List.mem_cons, List.not_mem_nil, or_false] at hg
      rcases hg with rfl | rfl | rfl
      · exact ⟨rfl, rfl, by decide, by decide, by decide, 0, rfl⟩
      · exact ⟨rfl, rfl, by decide, by decide, by decide, 1, rfl⟩
      · exact ⟨rfl, rfl, by decide, by decide, by decide, 0, rfl⟩)
  rw [h]
  decide

/-- a second operand for `concat` along the channel axis (axis 1): one shared type, one new type -/
def exB : MI Nat := ⟨2, [true, false], [((1, 0), blkV1), ((0, 0), blkS)]⟩

theorem exB_mem {e : Key × NDArr Nat} (he : e ∈ exB.data) : e = ((1, 0), blkV1) ∨ e = ((0, 0), blkS) := by
  simpa only [exB, List.mem_cons, List.not_mem_nil, or_false] using he

theorem exB_valid : exB.Valid := by
  refine ⟨by decide, ?_, ?_⟩
  · intro e he; rcases exB_mem he with rfl | rfl <;> simp
  · intro e he; rcases exB_mem he with rfl | rfl <;> [exact blkV1_wf; exact blkS_wf]

theorem ex_compat : ConcatCompat exMI exB 1 := by
  refine ⟨?_, ?_, ?_⟩
  · intro key x y hx hy
    rcases exMI_mem (mem_of_dictGet hx) with h | h <;> rcases exB_mem (mem_of_dictGet hy) with h' | h'
    all_goals
      have hk := (Prod.mk.inj h).1
      have hk' := (Prod.mk.inj h').1
      have hxv := (Prod.mk.inj h).2
      have hyv := (Prod.mk.inj h').2
      first
        | exact absurd (hk.symm.trans hk') (by decide)
        | (subst hxv hyv; exact ⟨1, rfl⟩)
  · intro e he
    rcases exMI_mem he with rfl | rfl
    · exact ⟨by rw [blkP_shape]; decide, by rw [blkP_shape]; decide⟩
    · exact ⟨by rw [blkV_shape]; decide, by rw [blkV_shape]; decide⟩
  · intro e he
    rcases exB_mem he with rfl | rfl
    · exact ⟨by rw [blkV1_shape]; decide, by rw [blkV1_shape]; decide⟩
    · exact ⟨by rw [blkS_shape]; decide, by rw [blkS_shape]; decide⟩

example : ∀ key, dictGet key ((exMI.concat exB 1).concatInverse (exB.signatureAt 1) 1).1.data
    = dictGet key exMI.data :=
  (concatInverse_concat exMI exB exMI_valid exB_valid 1 ex_compat).2.2.2.2.1

example : ∀ key, dictGet key ((exMI.concat exB 1).concatInverse (exB.signatureAt 1) 1).2.data
    = dictGet key exB.data :=
  (concatInverse_concat exMI exB exMI_valid exB_valid 1 ex_compat).2.2.2.2.2

-- the model also *computes* these round trips (evaluated when this file is compiled)
#guard exMI.toScalar.fromScalar exMI.signature == exMI
#guard (exMI.toScalar.data.map fun e => e.2.shape) == [[2, 7, 2, 3]]
#guard MI.fromVector exMI.toVector exMI == exMI
#guard ((exMI.concat exB 1).concatInverse (exB.signatureAt 1) 1).1 == exMI
#guard MI.fromImages exOne.toImages == exOne
#guard exOne.toImages.length == 5

end Examples

end GinjaxVerif.C13
