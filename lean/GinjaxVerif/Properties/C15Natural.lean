import GinjaxVerif.Lemmas.C15Natural

/-!
# C15 — the windowing data path is natural in the frames

`times_series_to_multi_images` (`toWindows`) and `batch_time_series` (`batchTimeSeries`) only
select, re-arrange and replicate frames along the leading axes; the only thing they ever do to a
frame is the pooling `pool` (`average_pool(2)`, `ds` times).  Hence they commute with every
*framewise map* `φ : κ → α → β` that commutes with the pooling.

**What was chosen.**  The keys `κ` of the model are the code's `(k, parity)` pairs and carry no
further data, so the most general framewise map the definitions permit is one function per key,
`φ k : α → β`, between two possibly different frame types, with a pooling on each side
(`pool : α → α`, `pool' : β → β`) intertwined by every `φ k`: `φ k (pool a) = pool' (φ k a)`.
With `α = β`, `pool = pool'` and `φ k` = the action of a group element on one frame of tensor type
`k` (which commutes with average pooling for the symmetries of the grid), the theorems read:
*windowing the transformed time series gives the transformed windows* — inputs, constants and
targets alike — and the transformed series is rejected iff the original is.  With `ds = 0` the
hypothesis on the pooling is not used at all (`toWindows_natural_noPool`).

No hypothesis on the inputs: the theorems hold for all inputs, the rejected ones included.
-/
namespace GinjaxVerif.C15

set_option linter.unusedSectionVars false
set_option linter.unusedVariables false

variable {α β κ : Type} [DecidableEq κ]

/-- **`times_series_to_multi_images` is natural in the frames**: windowing the framewise-mapped
dynamic and constant fields gives the framewise-mapped input and target windows. -/
theorem toWindows_natural (φ : κ → α → β) (pool : α → α) (pool' : β → β)
    (hpool : ∀ k a, φ k (pool a) = pool' (φ k a)) (T p f dt s ds : Nat)
    (dyn const : MI κ (List α)) :
    toWindows pool' T p f dt s ds (mapMI φ dyn) (mapMI φ const)
      = (toWindows pool T p f dt s ds dyn const).map fun r => (mapMI2 φ r.1, mapMI2 φ r.2) :=
  toWindows_mapMI φ pool pool' hpool T p f dt s ds dyn const

/-- without downsampling (`ds = 0`) no hypothesis on the pooling is needed -/
theorem toWindows_natural_noPool (φ : κ → α → β) (pool : α → α) (pool' : β → β)
    (T p f dt s : Nat) (dyn const : MI κ (List α)) :
    toWindows pool' T p f dt s 0 (mapMI φ dyn) (mapMI φ const)
      = (toWindows pool T p f dt s 0 dyn const).map fun r => (mapMI2 φ r.1, mapMI2 φ r.2) := by
  have h1 : ∀ (q : β → β) (d c : MI κ (List β)),
      toWindows q T p f dt s 0 d c = toWindows id T p f dt s 0 d c := by
    intro q d c; simp only [toWindows, iter]
  have h2 : ∀ (q : α → α) (d c : MI κ (List α)),
      toWindows q T p f dt s 0 d c = toWindows id T p f dt s 0 d c := by
    intro q d c; simp only [toWindows, iter]
  rw [h1, h2]
  exact toWindows_natural φ id id (fun _ _ => rfl) T p f dt s 0 dyn const

/-- **`batch_time_series` is natural in the frames**: the batched windowing (`vmap` over the
trajectories, then merge of trajectory and window axes) of the framewise-mapped batch is the
framewise-mapped batched windowing. -/
theorem batchTimeSeries_natural (φ : κ → α → β) (pool : α → α) (pool' : β → β)
    (hpool : ∀ k a, φ k (pool a) = pool' (φ k a)) (T p f dt s ds : Nat)
    (dyn const : MI κ (List (List α))) :
    batchTimeSeries pool' T p f dt s ds (mapMI2 φ dyn) (mapMI2 φ const)
      = (batchTimeSeries pool T p f dt s ds dyn const).map
          fun r => (mapMI2 φ r.1, mapMI2 φ r.2) :=
  batchTimeSeries_mapMI2 φ pool pool' hpool T p f dt s ds dyn const

/-- Reading for a symmetry of the grid: `act k` is the action of one group element on a frame of
tensor type `k`, and it commutes with the pooling; then windowing the transformed time series
gives the transformed (input, target) windows. -/
theorem toWindows_equivariant (act : κ → α → α) (pool : α → α)
    (hpool : ∀ k a, act k (pool a) = pool (act k a)) (T p f dt s ds : Nat)
    (dyn const : MI κ (List α)) :
    toWindows pool T p f dt s ds (mapMI act dyn) (mapMI act const)
      = (toWindows pool T p f dt s ds dyn const).map fun r => (mapMI2 act r.1, mapMI2 act r.2) :=
  toWindows_natural act pool pool hpool T p f dt s ds dyn const

theorem batchTimeSeries_equivariant (act : κ → α → α) (pool : α → α)
    (hpool : ∀ k a, act k (pool a) = pool (act k a)) (T p f dt s ds : Nat)
    (dyn const : MI κ (List (List α))) :
    batchTimeSeries pool T p f dt s ds (mapMI2 act dyn) (mapMI2 act const)
      = (batchTimeSeries pool T p f dt s ds dyn const).map
          fun r => (mapMI2 act r.1, mapMI2 act r.2) :=
  batchTimeSeries_natural act pool pool hpool T p f dt s ds dyn const

/-! ## Non-vacuity

`T = 7`, `p = 2`, `f = 1`, `dt = 2`, `s = 1`, one pooling: two windows.  Key 0: two channels and a
constant field; key 1: one channel; key 2: only a constant field.  "Pooling" doubles a frame; the
framewise map multiplies a frame of type `k` by `k + 2` (not the identity, key dependent, commutes
with the pooling). -/

section Examples

def exNatPhi (k a : Nat) : Nat := a * (k + 2)
def exNatPool (a : Nat) : Nat := a * 2

theorem exNatPhi_pool (k a : Nat) : exNatPhi k (exNatPool a) = exNatPool (exNatPhi k a) := by
  simp only [exNatPhi, exNatPool]
  rw [Nat.mul_right_comm]

def exNatDyn : MI Nat (List Nat) :=
  [(0, [0, 1, 2, 3, 4, 5, 6, 10, 11, 12, 13, 14, 15, 16]), (1, [100, 101, 102, 103, 104, 105, 106])]

def exNatConst : MI Nat (List Nat) := [(2, [277, 278]), (0, [77])]

example : toWindows exNatPool 7 2 1 2 1 1 exNatDyn exNatConst
    = some ([(0, [[2, 6, 22, 26, 154], [4, 8, 24, 28, 154]]),
             (1, [[202, 206], [204, 208]]),
             (2, [[554, 556], [554, 556]])],
            [(0, [[10, 30], [12, 32]]), (1, [[210], [212]])]) := by decide

example : toWindows exNatPool 7 2 1 2 1 1 (mapMI exNatPhi exNatDyn) (mapMI exNatPhi exNatConst)
    = some (mapMI2 exNatPhi [(0, [[2, 6, 22, 26, 154], [4, 8, 24, 28, 154]]),
             (1, [[202, 206], [204, 208]]),
             (2, [[554, 556], [554, 556]])],
            mapMI2 exNatPhi [(0, [[10, 30], [12, 32]]), (1, [[210], [212]])]) := by
  rw [toWindows_natural exNatPhi exNatPool exNatPool exNatPhi_pool]
  decide

example : mapMI2 exNatPhi [(0, [[10, 30], [12, 32]]), (1, [[210], [212]])]
    = [(0, [[20, 60], [24, 64]]), (1, [[630], [636]])] := by decide

-- a rejected configuration (no window) stays rejected
example : toWindows exNatPool 4 2 1 2 0 0 (mapMI exNatPhi exNatDyn) (mapMI exNatPhi exNatConst)
    = none := by
  rw [toWindows_natural exNatPhi exNatPool exNatPool exNatPhi_pool]
  decide

/-- two trajectories -/
def exNatDynB : MI Nat (List (List Nat)) :=
  [(0, [[0, 1, 2, 3, 4, 5, 6, 10, 11, 12, 13, 14, 15, 16],
        [5000, 5001, 5002, 5003, 5004, 5005, 5006, 5010, 5011, 5012, 5013, 5014, 5015, 5016]])]

def exNatConstB : MI Nat (List (List Nat)) := [(0, [[77], [5077]])]

example : batchTimeSeries exNatPool 7 2 1 2 1 0 exNatDynB exNatConstB
    = some ([(0, [[1, 3, 11, 13, 77], [2, 4, 12, 14, 77],
                  [5001, 5003, 5011, 5013, 5077], [5002, 5004, 5012, 5014, 5077]])],
            [(0, [[5, 15], [6, 16], [5005, 5015], [5006, 5016]])]) := by decide

example : batchTimeSeries exNatPool 7 2 1 2 1 0 (mapMI2 exNatPhi exNatDynB)
      (mapMI2 exNatPhi exNatConstB)
    = some ([(0, [[2, 6, 22, 26, 154], [4, 8, 24, 28, 154],
                  [10002, 10006, 10022, 10026, 10154], [10004, 10008, 10024, 10028, 10154]])],
            [(0, [[10, 30], [12, 32], [10010, 10030], [10012, 10032]])]) := by
  rw [batchTimeSeries_natural exNatPhi exNatPool exNatPool exNatPhi_pool]
  decide

end Examples

end GinjaxVerif.C15
