import GinjaxVerif.Model.C09
import Mathlib.Algebra.Group.Action.Defs
import Mathlib.Algebra.GroupWithZero.Action.Defs
import Mathlib.Algebra.GroupWithZero.Action.Units
import Mathlib.Algebra.Module.Defs
import Mathlib.Algebra.Module.Prod
import Mathlib.Algebra.Field.Rat
import Mathlib.Tactic.NormNum

/-!
# C09 — training cannot break equivariance: property theorems

All statements are for every model, every history `us` (any length, any parameter values, any
per-step bank factors) and every group `G`.  The only thing used about the group action on bank
leaves is that it commutes with multiplication by scalars (`SMulCommClass G S B`), which holds for
every linear representation; `train_inv_linear` restates the result in exactly that setting.

The forward pass is *not* modelled here: `trained_equivariant` takes the statement of property
C07 ("with an invariant bank the network is equivariant for EVERY parameter value") as the
hypothesis `hC07` and shows that it is inherited by whatever `train` returns.
-/
namespace GinjaxVerif.C09

/-- every bank leaf is fixed by every group element (the filters are `G`-invariant) -/
def BankInvariant {Plan P B : Type} (G : Type) [SMul G B] (m : Model Plan P B) : Prop :=
  ∀ b ∈ m.bank, ∀ g : G, g • b = b

/-- `f` commutes with the action of `G` -/
def Equivariant {X Y : Type} (G : Type) [SMul G X] [SMul G Y] (f : X → Y) : Prop :=
  ∀ (g : G) (x : X), f (g • x) = g • f x

section Invariant
variable {Plan P B S G : Type} [SMul S B] [SMul G B] [SMulCommClass G S B]

/-- One optimiser step keeps the bank invariant and the static structure unchanged, whatever the
new parameter values and whatever the common factor. -/
theorem trainStep_inv (m : Model Plan P B) (u : Update P S) (h : BankInvariant G m) :
    BankInvariant G (trainStep m u) ∧ (trainStep m u).plan = m.plan := by
  refine ⟨?_, rfl⟩
  intro b hb g
  simp only [trainStep, List.mem_map] at hb
  obtain ⟨b0, hb0, rfl⟩ := hb
  rw [smul_comm, h b0 hb0 g]

/-- **Training cannot break the invariance of the bank**: for every history. -/
theorem train_inv (m : Model Plan P B) (us : List (Update P S)) (h : BankInvariant G m) :
    BankInvariant G (train m us) ∧ (train m us).plan = m.plan := by
  induction us generalizing m with
  | nil => exact ⟨h, rfl⟩
  | cons u us ih =>
    have h1 := trainStep_inv (G := G) m u h
    obtain ⟨h2, h3⟩ := ih (trainStep m u) h1.1
    exact ⟨h2, h3.trans h1.2⟩

/-- the parameters after a non-empty history are those of the last update: nothing of the
initial parameter values survives, and nothing needs to -/
theorem train_params_append (m : Model Plan P B) (us : List (Update P S)) (u : Update P S) :
    (train m (us ++ [u])).params = u.params := by
  simp [train, List.foldl_append, trainStep]

/-! ### the model that `train` hands back -/

theorem train_mem_history (m : Model Plan P B) (us : List (Update P S)) :
    train m us ∈ history m us := by
  induction us generalizing m with
  | nil => simp [train, history]
  | cons u us ih => exact List.mem_cons_of_mem _ (ih (trainStep m u))

/-- every model of the history is the result of training on a prefix of the steps -/
theorem mem_history (m m' : Model Plan P B) (us : List (Update P S)) (h : m' ∈ history m us) :
    ∃ i, i ≤ us.length ∧ m' = train m (us.take i) := by
  induction us generalizing m with
  | nil =>
    simp only [history, List.mem_singleton] at h
    exact ⟨0, Nat.le_refl _, by simp [h, train]⟩
  | cons u us ih =>
    simp only [history, List.mem_cons] at h
    rcases h with h | h
    · exact ⟨0, Nat.zero_le _, by simp [h, train]⟩
    · obtain ⟨i, hi, hm⟩ := ih (trainStep m u) h
      exact ⟨i + 1, Nat.succ_le_succ hi, by simpa [train] using hm⟩

/-- The returned model (`stop_condition.best_model`) is one of the models of the history,
whatever the stopping condition chose. -/
theorem returned_is_in_history (choose : List (Model Plan P B) → Nat) (m : Model Plan P B)
    (us : List (Update P S)) : trainReturn choose m us ∈ history m us := by
  unfold trainReturn
  by_cases hlt : choose (history m us) < (history m us).length
  · rw [List.getD_eq_getElem?_getD, List.getElem?_eq_getElem hlt]
    exact List.getElem_mem hlt
  · rw [List.getD_eq_getElem?_getD, List.getElem?_eq_none (Nat.le_of_not_lt hlt)]
    exact train_mem_history m us

/-- hence it has an invariant bank and the initial static structure -/
theorem returned_inv (choose : List (Model Plan P B) → Nat) (m : Model Plan P B)
    (us : List (Update P S)) (h : BankInvariant G m) :
    BankInvariant G (trainReturn choose m us) ∧ (trainReturn choose m us).plan = m.plan := by
  obtain ⟨i, _, hm⟩ := mem_history m _ us (returned_is_in_history choose m us)
  rw [hm]
  exact train_inv m _ h

/-! ### from the bank to the network: C07 as a hypothesis -/

variable {X Y : Type} [SMul G X] [SMul G Y]

/-- **The trained model is equivariant.**  `eval plan params bank` is the forward pass of the
architecture `plan`; `WF` is C07's well-formedness of the architecture (types line up, pooling
divides the extents).  `hC07` is exactly the statement of property C07 (proved separately):
equivariance for EVERY parameter value as soon as the bank is invariant. -/
theorem trained_equivariant (WF : Plan → Prop) (eval : Plan → P → List B → X → Y)
    (hC07 : ∀ plan, WF plan → ∀ (params : P) (bank : List B),
      (∀ b ∈ bank, ∀ g : G, g • b = b) → Equivariant G (eval plan params bank))
    (m : Model Plan P B) (hwf : WF m.plan) (hm : BankInvariant G m) (us : List (Update P S)) :
    Equivariant G (eval (train m us).plan (train m us).params (train m us).bank) := by
  obtain ⟨hb, hp⟩ := train_inv m us hm
  exact hC07 _ (hp ▸ hwf) _ _ hb

/-- the same for the model `train` actually returns (best-model selection) -/
theorem returned_equivariant (WF : Plan → Prop) (eval : Plan → P → List B → X → Y)
    (hC07 : ∀ plan, WF plan → ∀ (params : P) (bank : List B),
      (∀ b ∈ bank, ∀ g : G, g • b = b) → Equivariant G (eval plan params bank))
    (choose : List (Model Plan P B) → Nat)
    (m : Model Plan P B) (hwf : WF m.plan) (hm : BankInvariant G m) (us : List (Update P S)) :
    Equivariant G (eval (trainReturn choose m us).plan (trainReturn choose m us).params
      (trainReturn choose m us).bank) := by
  obtain ⟨hb, hp⟩ := returned_inv choose m us hm
  exact hC07 _ (hp ▸ hwf) _ _ hb

end Invariant

/-! ### the setting named in the design: a linear representation over a field -/

section Linear
variable {Plan P B K G : Type} [Field K] [AddCommGroup B] [Module K B] [Group G]
  [DistribMulAction G B] [SMulCommClass G K B]

theorem train_inv_linear (m : Model Plan P B) (us : List (Update P K)) (h : BankInvariant G m) :
    BankInvariant G (train m us) ∧ (train m us).plan = m.plan :=
  train_inv m us h

end Linear

/-! ### "never changed other than by a common rescaling" -/

section Rescaling
variable {Plan P B S G : Type}

/-- The bank after any history is the initial bank times one scalar, the product of the
per-step factors. -/
theorem train_bank [Monoid S] [MulAction S B] (m : Model Plan P B) (us : List (Update P S)) :
    (train m us).bank = m.bank.map (fun b => totalFactor us • b) := by
  induction us generalizing m with
  | nil => simp [train, totalFactor]
  | cons u us ih =>
    have : train m (u :: us) = train (trainStep m u) us := rfl
    rw [this, ih (trainStep m u)]
    simp [trainStep, totalFactor, mul_smul]

/-- that scalar is not zero when no step's factor is (sgd/adam: 1; adamw: 1 − lr·wd) -/
theorem totalFactor_ne_zero [MonoidWithZero S] [NoZeroDivisors S] [Nontrivial S]
    (us : List (Update P S)) (h : ∀ u ∈ us, u.c ≠ 0) : totalFactor us ≠ 0 := by
  induction us with
  | nil => simp [totalFactor]
  | cons u us ih =>
    simp only [totalFactor]
    exact mul_ne_zero (ih (fun v hv => h v (List.mem_cons_of_mem _ hv))) (h u List.mem_cons_self)

/-- With non-zero factors nothing is lost either: the trained bank is invariant exactly when the
initial one was (training can neither break nor create the symmetry of the filters). -/
theorem train_inv_iff [GroupWithZero S] [MulAction S B] [SMul G B] [SMulCommClass G S B]
    (m : Model Plan P B) (us : List (Update P S)) (h : ∀ u ∈ us, u.c ≠ 0) :
    BankInvariant G (train m us) ↔ BankInvariant G m := by
  constructor
  · intro hinv b hb g
    have hc := totalFactor_ne_zero us h
    have hmem : totalFactor us • b ∈ (train m us).bank := by
      rw [train_bank]; exact List.mem_map_of_mem hb
    have h1 := hinv _ hmem g
    rw [smul_comm] at h1
    have h2 := congrArg (fun x => (totalFactor us)⁻¹ • x) h1
    simpa [inv_smul_smul₀ hc] using h2
  · exact fun hinv => (train_inv m us hinv).1

end Rescaling

/-! ### the executable decision "is a common non-zero rescaling" used by the correspondence -/

section CommonFactor
variable {R : Type} [Field R] [DecidableEq R]

theorem commonFactor_sound (b0 b1 : List (Leaf R)) (c : R) (h : commonFactor b0 b1 = some c) :
    c ≠ 0 ∧ b1 = b0.map (fun l => c • l) := by
  unfold commonFactor at h
  simp only at h
  split at h
  · next hc => cases h; exact hc
  · cases h

theorem firstRatio_scaled (c : R) (x : List R) :
    firstRatio x (x.map (fun a => c * a)) = some c ∨ (∀ a ∈ x, a = 0) := by
  induction x with
  | nil => right; simp
  | cons a as ih =>
    by_cases ha : a = 0
    · rcases ih with ih | ih
      · left; simp [firstRatio, ha, ih]
      · right
        intro b hb
        rcases List.mem_cons.mp hb with rfl | hb
        · exact ha
        · exact ih b hb
    · left
      simp [firstRatio, ha]

omit [DecidableEq R] in
theorem entries_map_smul (c : R) (b : List (Leaf R)) :
    entries (b.map (fun l => c • l)) = (entries b).map (fun a => c * a) := by
  induction b with
  | nil => rfl
  | cons l ls ih =>
    simp only [entries, List.map_cons, List.flatMap_cons, List.map_append] at ih ⊢
    rw [ih]; rfl

/-- completeness: every common non-zero rescaling is recognised (with a factor that reproduces
`b1`; it is `c` itself unless `b0` vanishes identically) -/
theorem commonFactor_complete (b0 : List (Leaf R)) (c : R) (hc : c ≠ 0) :
    ∃ c', commonFactor b0 (b0.map (fun l => c • l)) = some c' ∧
      b0.map (fun l => c • l) = b0.map (fun l => c' • l) := by
  rcases firstRatio_scaled c (entries b0) with h | h
  · refine ⟨c, ?_, rfl⟩
    unfold commonFactor
    simp only [entries_map_smul, h, Option.getD_some]
    simp [hc]
  · -- the whole bank is zero: both sides are the zero bank and the factor reported is 1
    have hz : ∀ (d : R), b0.map (fun l => d • l) = b0 := by
      intro d
      have : ∀ l ∈ b0, d • l = l := by
        intro l hl
        have hl0 : ∀ a ∈ l.data, a = 0 := fun a ha =>
          h a (List.mem_flatMap.mpr ⟨l, hl, ha⟩)
        cases l with
        | mk data =>
          show Leaf.mk (data.map (fun x => d * x)) = Leaf.mk data
          congr 1
          calc data.map (fun x => d * x) = data.map id :=
                List.map_congr_left (fun a ha => by simp [hl0 a ha])
            _ = data := List.map_id _
      calc b0.map (fun l => d • l) = b0.map id := List.map_congr_left this
        _ = b0 := List.map_id _
    refine ⟨(firstRatio (entries b0) (entries (b0.map (fun l => c • l)))).getD 1, ?_, ?_⟩
    · unfold commonFactor
      simp only [hz c]
      have hnone : firstRatio (entries b0) (entries b0) = none := by
        generalize entries b0 = x at h
        induction x with
        | nil => rfl
        | cons a as ih =>
          have ha : a = 0 := h a List.mem_cons_self
          simp only [firstRatio, ha, if_true]
          exact ih (fun b hb => h b (List.mem_cons_of_mem _ hb))
      simp [hnone, hz]
    · rw [hz, hz]

end CommonFactor

/-! ### D4 in miniature (the full layer statement belongs to C08) -/

theorem pseudoScale_equivariant {R : Type} [Ring R] (w x : R) :
    pseudoScale w (-x) = -(pseudoScale w x) := by
  simp [pseudoScale]

/-- the legacy additive bias on a pseudo-scalar does not commute with the sign flip as soon as it
is non-zero — invisible at initialisation (`b = 0`), visible after one optimiser step -/
theorem pseudoAffine_legacy_counterexample :
    ∃ w b x : Int, pseudoAffineLegacy w b (-x) ≠ -(pseudoAffineLegacy w b x) :=
  ⟨1, 1, 0, by decide⟩

theorem pseudoAffine_legacy_ok_at_init {R : Type} [Ring R] (w x : R) :
    pseudoAffineLegacy w 0 (-x) = -(pseudoAffineLegacy w 0 x) := by
  simp [pseudoAffineLegacy]

/-! ### Non-vacuity: a tiny concrete module with a sign-flip action

`B = ℚ × ℚ` = (scalar part, pseudo-scalar part); the two-element group flips the sign of the
second component.  Invariant leaves are those with vanishing pseudo part. -/

inductive Flip where
  | e | r
  deriving DecidableEq

namespace Flip

instance : Mul Flip := ⟨fun a b => match a, b with
  | e, x => x
  | x, e => x
  | r, r => e⟩
instance : One Flip := ⟨e⟩
instance : Inv Flip := ⟨id⟩

instance : Group Flip where
  mul_assoc a b c := by cases a <;> cases b <;> cases c <;> rfl
  one_mul a := by cases a <;> rfl
  mul_one a := by cases a <;> rfl
  inv_mul_cancel a := by cases a <;> rfl

instance : SMul Flip (ℚ × ℚ) := ⟨fun g x => match g with
  | e => x
  | r => (x.1, -x.2)⟩

@[simp] theorem e_smul (x : ℚ × ℚ) : (e • x : ℚ × ℚ) = x := rfl
@[simp] theorem r_smul (x : ℚ × ℚ) : (r • x : ℚ × ℚ) = (x.1, -x.2) := rfl

instance : DistribMulAction Flip (ℚ × ℚ) where
  one_smul _ := rfl
  mul_smul a b x := by cases a <;> cases b <;> simp [HMul.hMul, Mul.mul]
  smul_zero a := by cases a <;> simp
  smul_add a x y := by cases a <;> simp [add_comm]

instance : SMulCommClass Flip ℚ (ℚ × ℚ) where
  smul_comm g c x := by cases g <;> simp [Prod.smul_def]

end Flip

/-- an invariant bank of two leaves -/
def exModel : Model String ℚ (ℚ × ℚ) := { plan := "conv", params := 0, bank := [(2, 0), (-1, 0)] }

/-- a history: adam-like step (c = 1) then two decayed steps (c = 1/2), arbitrary parameters -/
def exHistory : List (Update ℚ ℚ) := [⟨7, 1⟩, ⟨-3, 1 / 2⟩, ⟨5, 1 / 2⟩]

example : BankInvariant Flip exModel := by
  intro b hb g
  simp only [exModel, List.mem_cons, List.mem_nil_iff, or_false] at hb
  rcases hb with rfl | rfl <;> cases g <;> simp

example : (train exModel exHistory).bank = [(1 / 2, 0), (-1 / 4, 0)] := by
  rw [train_bank]
  simp only [exHistory, exModel, totalFactor, List.map_cons, List.map_nil, Prod.smul_mk, smul_eq_mul]
  norm_num

example : (train exModel exHistory).params = 5 ∧ (train exModel exHistory).plan = "conv" :=
  ⟨rfl, rfl⟩

/-- the hypotheses of `train_inv_linear` are satisfiable and its conclusion is used -/
example : BankInvariant Flip (train exModel exHistory) :=
  (train_inv_linear (G := Flip) exModel exHistory (by
    intro b hb g
    simp only [exModel, List.mem_cons, List.mem_nil_iff, or_false] at hb
    rcases hb with rfl | rfl <;> cases g <;> simp)).1

/-- `hC07` is satisfiable by a forward map that really uses parameters and bank:
`eval _ p bank x = p • x + (first bank leaf)` -/
example : ∀ _plan : String, True → ∀ (params : ℚ) (bank : List (ℚ × ℚ)),
    (∀ b ∈ bank, ∀ g : Flip, g • b = b) →
    Equivariant Flip (fun x : ℚ × ℚ => params • x + bank.headD 0) := by
  intro _ _ p bank hb g x
  have h0 : g • bank.headD 0 = bank.headD 0 := by
    cases bank with
    | nil => simp
    | cons b bs => exact hb b List.mem_cons_self g
  rw [smul_add, smul_comm, h0]

/-- the update shape matters: a step that adds a non-invariant direction to a bank leaf (what a
gradient leaking past a missing `stop_gradient` does) is NOT a rescaling and breaks invariance -/
example : ¬ ∀ g : Flip, g • (((2, 0) : ℚ × ℚ) + (0, 1)) = ((2, 0) : ℚ × ℚ) + (0, 1) := by
  intro h
  have := h Flip.r
  simp at this
  norm_num at this

/-- the decision procedure on a concrete bank -/
example : commonFactor [⟨[(0 : ℚ), 2, -4]⟩, ⟨[6]⟩] [⟨[0, 1, -2]⟩, ⟨[3]⟩] = some (1 / 2) := by
  decide +kernel

example : commonFactor [⟨[(0 : ℚ), 2, -4]⟩, ⟨[6]⟩] [⟨[0, 1, -2]⟩, ⟨[4]⟩] = none := by
  decide +kernel

end GinjaxVerif.C09
