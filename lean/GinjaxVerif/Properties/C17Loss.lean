import GinjaxVerif.Lemmas.C17Loss
import Mathlib.Tactic.NormNum

/-!
# C17 — what the evaluation functions do with the batches

Theorems about the model `mapLossInBatches` / `mapPlusLossInBatches` (with `evaluate`, `lossReducer`,
`multiImageReducer`) of `Model/C17Loss.lean`, which batch through the modelled `getBatches`.

Setting, for every theorem: a data set of `L` samples, inputs `mkMI L sigx` and targets
`mkMI L sigy` (any number ≥ 1 of types each; `smpAt sig i` is sample `i`), batch size `0 < B`,
device count `0 < nd` with `nd ∣ B`, the index array `π = batchIndices perm L` any permutation of
`range L` (`range L` itself without a key), a per-sample model `fs` (output keys with the function
of the input sample) and a per-sample loss `ℓ prediction target` with values in any field `R`
(`ℚ` in the examples); `pairLoss fs ℓ sigx sigy i j = ℓ (fs (x i)) (y j)`; `idxAt π i = π[i]`.
`n = L / B` is the number of batches.
-/
namespace GinjaxVerif.C17
open GinjaxVerif.C15 (allSome MI lookup getL stackMerge)

variable {α β κ κ' R : Type}

section Property
variable [Field R] [DecidableEq κ'] (perm : Option (List Nat)) {L B nd : Nat} (hB : 0 < B)
  (hnd : 0 < nd) (hdiv : nd ∣ B) (hπ : (batchIndices perm L).Perm (List.range L))
  (sigx sigy : List (κ × (Nat → α))) (hx : sigx ≠ []) (hy : sigy ≠ [])
  (fs : Net κ α κ' β) (ℓ : MI κ' β → MI κ α → R)
include hB hπ hx

section
include hnd hdiv hy

/-- **the validation loss is the mean over exactly the used samples, input `i` paired with target
`i`**: with at least one batch, `map_loss_in_batches` returns
`(1 / (n·B)) · Σ_{i < n·B} ℓ (f (x (π i))) (y (π i))`. -/
theorem mapLoss_eq_mean_used (hn : 1 ≤ L / B) :
    mapLossInBatches perm B nd fs ℓ (mkMI L sigx) (mkMI L sigy)
      = some ((1 / ((L / B * B : ℕ) : R)) * ∑ i ∈ Finset.range (L / B * B),
          pairLoss fs ℓ sigx sigy (idxAt (batchIndices perm L) i) (idxAt (batchIndices perm L) i)) := by
  have hlen : (batchIndices perm L).length = L := by simpa using hπ.length_eq
  have hle : L / B * B ≤ L := Nat.div_mul_le_self L B
  have htl : ((batchIndices perm L).take (L / B * B)).length = L / B * B := by
    rw [List.length_take, hlen]; omega
  rw [mapLoss_eq_mean_take perm hB hnd hdiv hn hπ sigx sigy hx hy fs ℓ, mean_map_eq_sum, htl]
  congr 2
  apply Finset.sum_congr rfl
  intro i hi
  rw [idxAt_take _ _ _ (Finset.mem_range.mp hi)]

/-- **the shuffling key cannot change the validation loss**: when `B ∣ L` every sample is used
once, and for every permutation `π` the result is `(1 / L) · Σ_{i < L} ℓ (f (x i)) (y i)`. -/
theorem mapLoss_perm_invariant (hBL : B ∣ L) (hL : 0 < L) :
    mapLossInBatches perm B nd fs ℓ (mkMI L sigx) (mkMI L sigy)
      = some ((1 / (L : R)) * ∑ i ∈ Finset.range L, pairLoss fs ℓ sigx sigy i i) := by
  have hlen : (batchIndices perm L).length = L := by simpa using hπ.length_eq
  have hn : 1 ≤ L / B := by
    obtain ⟨q, rfl⟩ := hBL
    rw [Nat.mul_div_cancel_left q hB]
    rcases q with _ | q
    · simp at hL
    · omega
  have hnB : L / B * B = L := Nat.div_mul_cancel hBL
  have htk : (batchIndices perm L).take L = batchIndices perm L :=
    List.take_of_length_le (by omega)
  rw [mapLoss_eq_mean_take perm hB hnd hdiv hn hπ sigx sigy hx hy fs ℓ, hnB, htk]
  unfold mean
  rw [(hπ.map _).sum_eq, List.length_map, hlen, sum_map_range, div_eq_mul_inv, one_div, mul_comm]

end

omit hπ in
/-- fewer samples than one batch (`L < B`): both functions raise (`jnp.stack([])` in
`loss_reducer`), for every key and every device count -/
theorem mapLoss_reject_small (hLB : L < B) :
    mapLossInBatches perm B nd fs ℓ (mkMI L sigx) (mkMI L sigy) = none ∧
      mapPlusLossInBatches perm B nd fs ℓ (mkMI L sigx) (mkMI L sigy) = none := by
  unfold mapLossInBatches mapPlusLossInBatches
  rw [evalBatches_small perm hB hLB sigx sigy hx fs ℓ]
  simp [lossReducer]

omit hnd in
/-- a device count that does not divide the batch size is rejected by both functions -/
theorem mapLoss_reject_devices (hndiv : ¬ nd ∣ B) (hn : 1 ≤ L / B) :
    mapLossInBatches perm B nd fs ℓ (mkMI L sigx) (mkMI L sigy) = none ∧
      mapPlusLossInBatches perm B nd fs ℓ (mkMI L sigx) (mkMI L sigy) = none := by
  unfold mapLossInBatches mapPlusLossInBatches evalBatches
  rw [getBatches_reject_devices perm hB hndiv hn hπ sigx hx]
  exact ⟨rfl, rfl⟩

include hy in
/-- **the device axis does not change the result**: any two device counts dividing `B` give the
same value (or both reject, when `L < B`). -/
theorem mapLoss_device_invariant (nd' : Nat) (hnd : 0 < nd) (hdiv : nd ∣ B) (hnd' : 0 < nd')
    (hdiv' : nd' ∣ B) :
    mapLossInBatches perm B nd fs ℓ (mkMI L sigx) (mkMI L sigy)
      = mapLossInBatches perm B nd' fs ℓ (mkMI L sigx) (mkMI L sigy) := by
  by_cases hn : 1 ≤ L / B
  · rw [mapLoss_eq_mean_take perm hB hnd hdiv hn hπ sigx sigy hx hy fs ℓ,
      mapLoss_eq_mean_take perm hB hnd' hdiv' hn hπ sigx sigy hx hy fs ℓ]
  · have hLB : L < B := by
      have h0 : L / B = 0 := Nat.lt_one_iff.mp (Nat.not_le.mp hn)
      rcases (Nat.div_eq_zero_iff.mp h0) with h | h
      · omega
      · exact h
    rw [(mapLoss_reject_small perm hB sigx sigy hx fs ℓ hLB).1,
      (mapLoss_reject_small (nd := nd') perm hB sigx sigy hx fs ℓ hLB).1]

include hnd hdiv hy in
/-- **the mapped output is the model applied to the used samples in batch order**: with distinct
output keys and at least one batch, `map_plus_loss_in_batches` returns the loss of
`map_loss_in_batches` together with, for every output type `e` of the model, the block
`[e.2 (x (π 0)), …, e.2 (x (π (n·B − 1)))]`. -/
theorem mapPlus_maps_in_order (hk : (fs.map Prod.fst).Nodup) (hn : 1 ≤ L / B) :
    ∃ v, mapLossInBatches perm B nd fs ℓ (mkMI L sigx) (mkMI L sigy) = some v ∧
      mapPlusLossInBatches perm B nd fs ℓ (mkMI L sigx) (mkMI L sigy)
        = some (v, fs.map (fun e => (e.1, (List.range (L / B * B)).map
            (fun i => e.2 (smpAt sigx (idxAt (batchIndices perm L) i)))))) := by
  have hlen : (batchIndices perm L).length = L := by simpa using hπ.length_eq
  have hle : L / B * B ≤ L := Nat.div_mul_le_self L B
  have htl : ((batchIndices perm L).take (L / B * B)).length = L / B * B := by
    rw [List.length_take, hlen]; omega
  have hloss := mapLoss_eq_mean_take perm hB hnd hdiv hn hπ sigx sigy hx hy fs ℓ
  refine ⟨_, hloss, ?_⟩
  have hne : List.range (L / B) ≠ [] := by
    intro h
    have h' := congrArg List.length h
    rw [List.length_range, List.length_nil] at h'
    omega
  have hev := evalBatches_mkMI perm hB hnd hdiv hπ sigx sigy hx hy fs ℓ
  unfold mapLossInBatches at hloss
  rw [hev] at hloss
  simp only at hloss
  unfold mapPlusLossInBatches
  rw [hev]
  simp only
  rw [hloss]
  -- the mapped batches
  have hmaps : ((List.range (L / B)).map (fun i =>
        (mean ((batchIdxs (batchIndices perm L) B i).map (fun i => pairLoss fs ℓ sigx sigy i i)),
         stackMerge ((rows nd (B / nd) (batchIdxs (batchIndices perm L) B i)).map (fun c =>
           fs.map (fun e => (e.1, c.map (fun i => e.2 (smpAt sigx i))))))))).map Prod.snd
      = (List.range (L / B)).map (fun i => fs.map (fun e =>
          (e.1, (batchIdxs (batchIndices perm L) B i).map (fun i => e.2 (smpAt sigx i))))) := by
    rw [List.map_map]
    apply List.map_congr_left
    intro i hi
    have hi' : i < L / B := List.mem_range.mp hi
    have hl : (batchIdxs (batchIndices perm L) B i).length = nd * (B / nd) := by
      rw [Nat.mul_div_cancel' hdiv]
      exact length_batchIdxs _ B i (by rw [hlen]; exact succ_mul_le_of_lt_div hB hi')
    simp only [Function.comp]
    have hrne : rows nd (B / nd) (batchIdxs (batchIndices perm L) B i) ≠ [] := by
      intro h
      have h' := congrArg List.length h
      rw [rows_length, List.length_nil] at h'
      omega
    rw [stackMerge_map fs Prod.fst hk _ hrne (fun c e => c.map (fun i => e.2 (smpAt sigx i)))]
    apply List.map_congr_left
    intro e _
    rw [← List.map_flatten, rows_flatten nd (B / nd) _ hl]
  rw [hmaps, multiImageReducer_map fs Prod.fst hk _ hne
    (fun i e => (batchIdxs (batchIndices perm L) B i).map (fun i => e.2 (smpAt sigx i)))]
  simp only
  congr 2
  apply List.map_congr_left
  intro e _
  rw [flatten_map_batchIdxs, map_eq_map_range_idxAt, htl]
  congr 1
  apply List.map_congr_left
  intro i hi
  rw [idxAt_take _ _ _ (List.mem_range.mp hi)]

end Property

/-- without a key the mapped output is the model applied to samples `0, 1, …, n·B − 1` in order -/
theorem mapPlus_in_order_without_key [Field R] [DecidableEq κ'] {L B nd : Nat} (hB : 0 < B)
    (hnd : 0 < nd) (hdiv : nd ∣ B) (sigx sigy : List (κ × (Nat → α))) (hx : sigx ≠ [])
    (hy : sigy ≠ []) (fs : Net κ α κ' β) (ℓ : MI κ' β → MI κ α → R)
    (hk : (fs.map Prod.fst).Nodup) (hn : 1 ≤ L / B) :
    ∃ v, mapPlusLossInBatches none B nd fs ℓ (mkMI L sigx) (mkMI L sigy)
      = some (v, fs.map (fun e => (e.1, (List.range (L / B * B)).map
          (fun i => e.2 (smpAt sigx i))))) := by
  obtain ⟨v, _, h⟩ := mapPlus_maps_in_order none hB hnd hdiv (List.Perm.refl _) sigx sigy hx hy
    fs ℓ hk hn
  refine ⟨v, ?_⟩
  rw [h]
  congr 2
  apply List.map_congr_left
  intro e _
  congr 1
  apply List.map_congr_left
  intro i hi
  have hle : L / B * B ≤ L := Nat.div_mul_le_self L B
  have : i < L := by have := List.mem_range.mp hi; omega
  simp [idxAt, batchIndices, List.getElem?_range this]

/-- any two keys give the same validation loss when `B ∣ L` -/
theorem mapLoss_key_irrelevant [Field R] [DecidableEq κ'] (perm perm' : Option (List Nat))
    {L B nd : Nat} (hB : 0 < B) (hnd : 0 < nd) (hdiv : nd ∣ B)
    (hπ : (batchIndices perm L).Perm (List.range L))
    (hπ' : (batchIndices perm' L).Perm (List.range L))
    (sigx sigy : List (κ × (Nat → α))) (hx : sigx ≠ []) (hy : sigy ≠ [])
    (fs : Net κ α κ' β) (ℓ : MI κ' β → MI κ α → R) (hBL : B ∣ L) (hL : 0 < L) :
    mapLossInBatches perm B nd fs ℓ (mkMI L sigx) (mkMI L sigy)
      = mapLossInBatches perm' B nd fs ℓ (mkMI L sigx) (mkMI L sigy) := by
  rw [mapLoss_perm_invariant perm hB hnd hdiv hπ sigx sigy hx hy fs ℓ hBL hL,
    mapLoss_perm_invariant perm' hB hnd hdiv hπ' sigx sigy hx hy fs ℓ hBL hL]

/-! ## non-vacuity -/

/-- inputs: two types; targets: one type; 7 (or 9) samples -/
def exX : List (Nat × (Nat → Int)) := [(0, fun i => i), (1, fun i => 100 + i)]
def exY : List (Nat × (Nat → Int)) := [(0, fun i => 2 * i + i % 3)]
/-- doubles type 0, and adds both types -/
def exNet : Net Nat Int Nat Int :=
  [(0, fun s => 2 * (lookup 0 s).getD 0), (5, fun s => (lookup 0 s).getD 0 + (lookup 1 s).getD 0)]
def exLoss (p y : MI Nat Int) : ℚ := (((lookup 0 p).getD 0 - (lookup 0 y).getD 0 : Int) : ℚ) ^ 2

example : mapLossInBatches (some exPerm) 2 2 exNet exLoss (mkMI 7 exX) (mkMI 7 exY) = some (3 / 2) := by
  rw [mapLoss_eq_mean_used (some exPerm) (by decide) (by decide) (by decide) exPerm_perm exX exY
    (by decide) (by decide) exNet exLoss (by decide)]
  norm_num [Finset.sum_range_succ, pairLoss, exLoss, applyNet, exNet, smpAt, exX, exY, idxAt,
    batchIndices, exPerm, lookup]

example : mapLossInBatches (some exPerm) 1 1 exNet exLoss (mkMI 7 exX) (mkMI 7 exY) = some (10 / 7) := by
  rw [mapLoss_perm_invariant (some exPerm) (by decide) (by decide) (by decide) exPerm_perm exX exY
    (by decide) (by decide) exNet exLoss (by decide) (by decide)]
  norm_num [Finset.sum_range_succ, pairLoss, exLoss, applyNet, exNet, smpAt, exX, exY, lookup]

example : mapLossInBatches none 4 2 exNet exLoss (mkMI 9 exX) (mkMI 9 exY)
    = mapLossInBatches none 4 4 exNet exLoss (mkMI 9 exX) (mkMI 9 exY) :=
  mapLoss_device_invariant none (by decide) (List.Perm.refl _) exX exY (by decide) (by decide)
    exNet exLoss 4 (by decide) (by decide) (by decide) (by decide)

example : ∃ v, mapPlusLossInBatches (some exPerm) 2 2 exNet exLoss (mkMI 7 exX) (mkMI 7 exY)
    = some (v, [(0, [6, 0, 12, 4, 10, 2]), (5, [106, 100, 112, 104, 110, 102])]) := by
  obtain ⟨v, _, h⟩ := mapPlus_maps_in_order (L := 7) (B := 2) (nd := 2) (some exPerm) (by decide)
    (by decide) (by decide) exPerm_perm exX exY (by decide) (by decide) exNet exLoss (by decide) (by decide)
  refine ⟨v, ?_⟩
  rw [h, Option.some.injEq, Prod.mk.injEq]
  exact ⟨rfl, by decide⟩

example : mapLossInBatches none 8 2 exNet exLoss (mkMI 7 exX) (mkMI 7 exY) = none :=
  (mapLoss_reject_small none (by decide) exX exY (by decide) exNet exLoss (by decide)).1

example : mapPlusLossInBatches none 3 2 exNet exLoss (mkMI 7 exX) (mkMI 7 exY) = none :=
  (mapLoss_reject_devices none (by decide) (List.Perm.refl _) exX exY (by decide) exNet exLoss
    (by decide) (by decide)).2

example : ∃ v, mapPlusLossInBatches none 3 1 exNet exLoss (mkMI 7 exX) (mkMI 7 exY)
    = some (v, [(0, [0, 2, 4, 6, 8, 10]), (5, [100, 102, 104, 106, 108, 110])]) := by
  obtain ⟨v, h⟩ := mapPlus_in_order_without_key (L := 7) (B := 3) (nd := 1) (by decide)
    (by decide) (by decide) exX exY (by decide) (by decide) exNet exLoss (by decide) (by decide)
  refine ⟨v, ?_⟩
  rw [h, Option.some.injEq, Prod.mk.injEq]
  exact ⟨rfl, by decide⟩

example : mapLossInBatches (some exPerm) 1 1 exNet exLoss (mkMI 7 exX) (mkMI 7 exY)
    = mapLossInBatches none 1 1 exNet exLoss (mkMI 7 exX) (mkMI 7 exY) :=
  mapLoss_key_irrelevant (some exPerm) none (by decide) (by decide) (by decide) exPerm_perm
    (List.Perm.refl _) exX exY (by decide) (by decide) exNet exLoss (by decide) (by decide)

end GinjaxVerif.C17
