import GinjaxVerif.Lemmas.C14
import GinjaxVerif.Lemmas.C14Fold
import GinjaxVerif.Lemmas.C14Methods
import GinjaxVerif.Lemmas.C14Component

/-!
# C14 — no cross-talk between batch entries, channels or tensor types (property theorems)

Every theorem is for an arbitrary value type, an arbitrary number of leading axes with arbitrary
extents, arbitrary `D`, spatial shape and tensor order, and any insertion order of the types.
`subAt li X` is `X[li]`, the image at the leading multi-index `li` of a block.

* `mapLeading_get` (in `Lemmas/C14.lean`): the flatten → `vmap(f)` → restore pattern, ANY `f`.
* `miTge_eq`, `miAveragePool_eq`: `MultiImage.times_group_element` / `average_pool` return, at
  every leading index of every block, the single-image function of the image at that index.
* `miNorm_eq`: channel `ci` of the type at dict position `|pre|` lands on scalar channel
  `offset + ci` and holds the single-image norm of that channel.
* `getComponent_eq`, `getComponent_slice_eq` (component `offset + c·D^k + ravel t`),
  `batchGetComponent_eq` (repaired behaviour, fix D12) with `batchGetComponent_legacy_counterexample`
  (the legacy vmap over the pytree sorts the dict: another field is selected); `toImages_eq`.
* `vmap_model_independent`, `vmap_model_get`, `vmapMI_get`, `vmapMI_independent`: `jax.vmap(model)`
  modelled as `stack ∘ map model ∘ rows`, for EVERY `model`; `layer_per_sample`,
  `layer_independent`: group-norm statistics range over one sample.
No theorem is partial; the hypotheses are the validity of the multi image and the layout the method
documents (`Laid`, `MI.Shaped`, `Timed`), each shown satisfiable in the `Examples` section.
-/
namespace GinjaxVerif.C14
open GinjaxVerif.ND GinjaxVerif.ND.NDArr GinjaxVerif.C13

/-! ## times_group_element -/
section Tge
variable {R : Type} [Inhabited R] [Zero R] [Add R] [Mul R] [IntCast R]

/-- the container `times_group_element` returns: same `D`, same keys in the same order, the
boundary flags transported, every block mapped on its own -/
theorem miTge_container {d : Nat} (M : Mat d) (m : MI R) (hm : m.Valid) :
    miTge M m = ⟨m.D, rotTorus M m.isTorus, m.data.map fun e =>
      (e.1, mapLeading (e.2.shape.length - (m.D + e.1.1))
        (m.spatialDims ++ List.replicate e.1.1 m.D) (tgeOutShape M) (tgeArr d M e.1.2) e.2)⟩ := by
  unfold miTge
  exact perBlock_container m hm m.D (rotTorus M m.isTorus) _ 0

/-- **`MultiImage.times_group_element` has no cross-talk.**  For every type `(k, p)` with block
`X` of shape `lead ++ S ++ (D,)*k`, the result holds under the same key a block of shape
`lead ++ rotated(S) ++ (D,)*k` whose image at every leading multi-index `li` is
`geom.times_group_element(D, X[li], p, gg)` — the action on that image alone.  Keys, their order
and `D` are kept, the flags are transported. -/
theorem miTge_eq {d : Nat} (M : Mat d) (m : MI R) (hm : m.Valid) {nl : Nat} {S : List Nat}
    (hs : Laid m nl S) :
    (miTge M m).D = m.D ∧ (miTge M m).isTorus = rotTorus M m.isTorus ∧
    keysOf (miTge M m).data = keysOf m.data ∧
    ∀ (k p : Nat) (X : NDArr R) (lead : List Nat), ((k, p), X) ∈ m.data →
      X.shape = lead ++ (S ++ List.replicate k m.D) →
      ∃ Y, dictGet (k, p) (miTge M m).data = some Y ∧
        Y.shape = lead ++ tgeOutShape M (S ++ List.replicate k m.D) ∧
        ∀ li, InRange lead li → subAt li Y = tgeArr d M p (subAt li X) := by
  rw [miTge_container M m hm]
  refine ⟨rfl, rfl, keysOf_map_key _ _, ?_⟩
  intro k p X lead he hX
  have hne : m.data ≠ [] := List.ne_nil_of_mem he
  have hsp := spatialDims_of_laid hs hne
  have hpos := hs.rest_pos k
  have hlen : X.shape.length - (m.D + k) = lead.length := by
    rw [hX]; simp [hs.spatial]
  refine ⟨_, perBlock_get m hm _ he, ?_, ?_⟩
  · simp only [hsp, hlen]
    exact shape_mapLeading hX hpos
  · intro li hli
    simp only [hsp, hlen]
    exact mapLeading_get hX hpos
      (fun y hy _ => ⟨by rw [tgeArr_shape, hy], tgeArr_wf _ _ _ _⟩) hli

end Tge

/-! ## average_pool -/
section Pool
variable {R : Type} [Inhabited R] [Zero R] [Add R] [Mul R]

theorem miAveragePool_container (patch : Nat) (scale : R) (m : MI R) (hm : m.Valid) :
    miAveragePool patch scale m = ⟨m.D, m.isTorus, m.data.map fun e =>
      (e.1, mapLeading m.nLeading (e.2.shape.drop m.nLeading) (poolOutShape m.D patch)
        (poolArr m.D patch scale) e.2)⟩ := by
  unfold miAveragePool
  exact perBlock_container m hm m.D m.isTorus _ 0

/-- **`MultiImage.average_pool` has no cross-talk.**  The image at every leading multi-index of
every block of the result is `geom.average_pool(D, X[li], patch_len)`. -/
theorem miAveragePool_eq (patch : Nat) (scale : R) (m : MI R) (hm : m.Valid) {nl : Nat}
    {S : List Nat} (hs : Laid m nl S) :
    (miAveragePool patch scale m).D = m.D ∧ (miAveragePool patch scale m).isTorus = m.isTorus ∧
    keysOf (miAveragePool patch scale m).data = keysOf m.data ∧
    ∀ (k p : Nat) (X : NDArr R) (lead : List Nat), ((k, p), X) ∈ m.data →
      X.shape = lead ++ (S ++ List.replicate k m.D) → lead.length = nl →
      ∃ Y, dictGet (k, p) (miAveragePool patch scale m).data = some Y ∧
        Y.shape = lead ++ poolOutShape m.D patch (S ++ List.replicate k m.D) ∧
        ∀ li, InRange lead li → subAt li Y = poolArr m.D patch scale (subAt li X) := by
  rw [miAveragePool_container patch scale m hm]
  refine ⟨rfl, rfl, keysOf_map_key _ _, ?_⟩
  intro k p X lead he hX hl
  have hne : m.data ≠ [] := List.ne_nil_of_mem he
  have hnl := nLeading_of_laid hs hne
  have hpos := hs.rest_pos k
  have hdrop : X.shape.drop nl = S ++ List.replicate k m.D := by
    rw [hX, ← hl, List.drop_left]
  refine ⟨_, perBlock_get m hm _ he, ?_, ?_⟩
  · simp only [hnl, hdrop]
    rw [← hl]
    exact shape_mapLeading hX hpos
  · intro li hli
    simp only [hnl, hdrop]
    rw [← hl]
    exact mapLeading_get hX hpos
      (fun y hy _ => ⟨by rw [poolArr_shape, hy], poolArr_wf _ _ _ _⟩) hli

end Pool

/-! ## norm -/
section Norm
variable {R : Type} [Inhabited R]

/-- **`MultiImage.norm` has no cross-talk between batch entries, channels and types.**
The result is one scalar block `Z`.  For the type `(k, p)` at dict position `|pre|`, batch index
`b`, channel `ci` and pixel `s`: `Z[b, offset + ci, s]` is the single-image norm
(`geom.norm(D, ·)`) of the image `X[b, ci]` at `s`, where `offset` is the number of channels of
the types that precede `(k, p)` in dict order. -/
theorem miNorm_eq (g : List R → R) (m : MI R) {B S : List Nat} (hs : m.Shaped B S)
    (hc : ∀ e ∈ m.data, 0 < e.2.shape.getD B.length 0)
    (pre post : List (Key × NDArr R)) (k p : Nat) (X : NDArr R)
    (hd : m.data = pre ++ ((k, p), X) :: post) (c : Nat)
    (hX : X.shape = B ++ c :: (S ++ List.replicate k m.D)) {b s : List Nat} {ci : Nat}
    (hb : InRange B b) (hsS : InRange S s) (hci : ci < c) :
    ∃ Z, miNorm g m = ⟨m.D, m.isTorus, [((0, 0), Z)]⟩ ∧
      Z.get (b ++ ((pre.map fun e => e.2.shape.getD B.length 0).sum + ci) :: s)
        = (normBlock m.D g (subAt (b ++ [ci]) X)).get s := by
  have hS := hs.spatial
  have hne : m.data ≠ [] := by rw [hd]; simp
  have hnl := nLeading_of_shaped hs hne
  obtain ⟨e0, rest, hd0⟩ := List.exists_cons_of_ne_nil hne
  -- shape facts of every normed block
  have hBpos : 0 < B.prod := by
    rcases Nat.eq_zero_or_pos B.prod with h | h
    · have := hs.pos; simp [h] at this
    · exact h
  have hSpos : 0 < S.prod := by
    rcases Nat.eq_zero_or_pos S.prod with h | h
    · have := hs.pos; simp [h] at this
    · exact h
  have hN : ∀ e ∈ m.data, ∃ n, 0 < n ∧ e.2.shape = (B ++ n :: S) ++ List.replicate e.1.1 m.D ∧
      (normBlock (m.nLeading + m.D) g e.2).shape = B ++ n :: S := by
    intro e he
    obtain ⟨n, hn⟩ := hs.blocks e he
    have hnpos : 0 < n := by have := hc e he; rwa [hn, getD_mid] at this
    have hsh : e.2.shape = (B ++ n :: S) ++ List.replicate e.1.1 m.D := by rw [hn]; simp
    have hlen : m.nLeading + m.D = (B ++ n :: S).length := by rw [hnl]; simp [hS]; omega
    refine ⟨n, hnpos, hsh, ?_⟩
    rw [hlen]
    apply shape_normBlock g hsh
    simp only [List.prod_append, List.prod_cons]
    exact Nat.mul_pos hBpos (Nat.mul_pos hnpos hSpos)
  -- the container
  have hmap : (m.data.map fun e => (((0, 0) : Key), normBlock (m.nLeading + m.D) g e.2))
      = ((normBlock (m.nLeading + m.D) g e0.2)
          :: rest.map fun e => normBlock (m.nLeading + m.D) g e.2).map
            fun y => (((0, 0) : Key), y) := by
    rw [hd0]; simp [List.map_map, Function.comp_def]
  refine ⟨(rest.map fun e => normBlock (m.nLeading + m.D) g e.2).foldl (concat B.length)
    (normBlock (m.nLeading + m.D) g e0.2), ?_, ?_⟩
  · unfold miNorm
    rw [hmap, hnl, Nat.add_sub_cancel]
    exact appendAll_scalar m B.length _ _
  · -- read the fold at `offset + ci`
    have hsplit : (normBlock (m.nLeading + m.D) g e0.2)
          :: (rest.map fun e => normBlock (m.nLeading + m.D) g e.2)
        = (pre.map fun e => normBlock (m.nLeading + m.D) g e.2)
          ++ normBlock (m.nLeading + m.D) g X
            :: (post.map fun e => normBlock (m.nLeading + m.D) g e.2) := by
      have : (m.data.map fun e => normBlock (m.nLeading + m.D) g e.2)
          = (normBlock (m.nLeading + m.D) g e0.2)
            :: (rest.map fun e => normBlock (m.nLeading + m.D) g e.2) := by rw [hd0]; rfl
      rw [← this, hd]; simp
    have hXmem : ((k, p), X) ∈ m.data := by rw [hd]; simp
    obtain ⟨n, hnpos, hXsh, hNX⟩ := hN _ hXmem
    have hnc : n = c := by
      have h1 : X.shape.getD B.length 0 = n := by rw [hXsh, List.append_assoc]; simp
      have h2 : X.shape.getD B.length 0 = c := by rw [hX, getD_mid]
      omega
    subst hnc
    have hfold := get_foldl_concat (P := B) (Q := S) (normBlock (m.nLeading + m.D) g e0.2)
      (rest.map fun e => normBlock (m.nLeading + m.D) g e.2)
      (by
        intro y hy
        have : y ∈ m.data.map fun e => normBlock (m.nLeading + m.D) g e.2 := by
          rw [hd0]; exact hy
        obtain ⟨e, he, rfl⟩ := List.mem_map.1 this
        obtain ⟨n', _, _, h3⟩ := hN e he
        exact ⟨wf_normBlock _ _ _, n', h3⟩)
      _ _ _ hsplit hNX hb hsS hci
    have hoff : ((pre.map fun e => normBlock (m.nLeading + m.D) g e.2).map
          fun y => y.shape.getD B.length 0).sum
        = (pre.map fun e => e.2.shape.getD B.length 0).sum := by
      rw [List.map_map]
      congr 1
      apply List.map_congr_left
      intro e he
      obtain ⟨n', _, h2, h3⟩ := hN e (by rw [hd]; exact List.mem_append_left _ he)
      simp only [Function.comp]
      rw [h3, h2, getD_mid, List.append_assoc, List.cons_append, getD_mid]
    rw [hoff] at hfold
    rw [hfold]
    -- the normed block at `(b, ci)` is the single-image norm of `X[b, ci]`
    have hXsh2 : X.shape = (B ++ [n]) ++ (S ++ List.replicate k m.D) := by rw [hX]; simp
    have hli : InRange (B ++ [n]) (b ++ [ci]) :=
      (inRange_append hb.length_eq).2 ⟨hb, hci, trivial⟩
    have hlen : m.nLeading + m.D = (B ++ [n]).length + S.length := by rw [hnl]; simp [hS]
    have hsub := normBlock_subAt g hXsh2 (by
      simp only [List.prod_append, List.prod_cons, List.prod_nil, Nat.mul_one]
      exact Nat.mul_pos (Nat.mul_pos hBpos hnpos) hSpos) hli
    rw [← hlen, hS] at hsub
    rw [← hsub, get_subAt _ _ (by
      rw [hNX]
      have : (b ++ [ci]).length = (B ++ [n]).length := by simp [hb.length_eq]
      have e : B ++ n :: S = (B ++ [n]) ++ S := by simp
      rw [e, this, List.drop_left]; exact hsS)]
    simp

end Norm

/-! ## get_component / batch_get_component -/
section Component
variable {R : Type} [Inhabited R]

/-- the layout `get_component` expects: one leading axis holding `channels * future_steps`
(channel-major), common spatial shape `S`, tensor axes of the type -/
structure Timed (m : MI R) (T : Nat) (S : List Nat) : Prop where
  spatial : S.length = m.D
  blocks : ∀ e ∈ m.data, ∃ c, e.2.shape = (c * T) :: (S ++ List.replicate e.1.1 m.D)
  pos : 0 < S.prod
  dpos : 0 < m.D
  tpos : 0 < T

omit [Inhabited R] in
theorem Timed.laid {m : MI R} {T : Nat} {S : List Nat} (h : Timed m T S) : Laid m 1 S :=
  ⟨h.spatial, fun e he => by
    obtain ⟨c, hc⟩ := h.blocks e he
    exact ⟨[c * T], rfl, by simpa using hc⟩, h.pos, h.dpos⟩

/-- the number of components a block contributes: `channels * D^k` -/
def compWidth (D T : Nat) (e : Key × NDArr R) : Nat := e.2.shape.headD 0 / T * D ^ e.1.1

/-- the accumulated block `data` of `get_component` has the `(time, spatial, components)` layout;
the components of the type at dict position `|pre|` start at the total width of the preceding
types, channel-major, tensor components row-major -/
theorem compData_spec (m : MI R) {T : Nat} {S : List Nat} (hs : Timed m T S)
    (pre post : List (Key × NDArr R)) (k p : Nat) (X : NDArr R)
    (hd : m.data = pre ++ ((k, p), X) :: post) (c : Nat)
    (hX : X.shape = (c * T) :: (S ++ List.replicate k m.D)) :
    ∃ data, compData m T = some data ∧
      data.shape = (T :: S) ++ [(m.data.map (compWidth m.D T)).sum] ∧
      ∀ (tt ci : Nat) (s t : List Nat), tt < T → ci < c → InRange S s →
        InRange (List.replicate k m.D) t →
        data.get ((tt :: s) ++ [(pre.map (compWidth m.D T)).sum + ci * m.D ^ k
            + ravel (List.replicate k m.D) t])
          = X.get ((ci * T + tt) :: (s ++ t)) := by
  have hS := hs.spatial
  have hne : m.data ≠ [] := by rw [hd]; simp
  have hsp := spatialDims_of_laid hs.laid hne
  obtain ⟨e0, rest, hd0⟩ := List.exists_cons_of_ne_nil hne
  set E : Key × NDArr R → NDArr R := fun e => expBlock m.D T S e.1.1 e.2 with hE
  -- every expanded block
  have hspec : ∀ e ∈ m.data, (E e).shape = (T :: S) ++ [compWidth m.D T e] ∧ (E e).WF := by
    intro e he
    obtain ⟨c', hc'⟩ := hs.blocks e he
    have := expBlock_spec (R := R) hc' hS hs.tpos hs.pos hs.dpos
    refine ⟨?_, this.2.1⟩
    rw [hE]; simp only
    rw [this.1]
    unfold compWidth
    rw [hc']
    simp [Nat.mul_div_cancel _ hs.tpos]
  have hax : ∀ e ∈ m.data, (E e).shape.getD (T :: S).length 0 = compWidth m.D T e := by
    intro e he; rw [(hspec e he).1]; exact getD_mid _ _ _
  have hdata : compData m T = some ((rest.map E).foldl (concat (T :: S).length) (E e0)) := by
    unfold compData
    rw [hsp, hd0]
    simp only [List.map_cons]
    rw [foldl_concatLast (ax := (T :: S).length) _ _ (by
      have := (hspec e0 (by rw [hd0]; exact List.mem_cons_self)).1
      rw [hE] at this; simp only at this
      rw [this]; simp)]
  refine ⟨_, hdata, ?_, ?_⟩
  · have h0 := (hspec e0 (by rw [hd0]; exact List.mem_cons_self)).1
    have hm : ((rest.map E).map fun x => x.shape.getD (T :: S).length 0)
        = rest.map (compWidth m.D T) := by
      rw [List.map_map]
      apply List.map_congr_left
      intro e he
      exact hax e (by rw [hd0]; exact List.mem_cons_of_mem _ he)
    rw [shape_foldl_concat _ (by rw [h0]; simp), h0, getD_mid, set_last, hm, hd0, List.map_cons,
      List.sum_cons]
  · intro tt ci s t htt hci hsS ht
    have hXmem : ((k, p), X) ∈ m.data := by rw [hd]; simp
    have hXspec := expBlock_spec (R := R) hX hS hs.tpos hs.pos hs.dpos
    have hsplit : E e0 :: rest.map E = pre.map E ++ E ((k, p), X) :: post.map E := by
      have : m.data.map E = E e0 :: rest.map E := by rw [hd0]; rfl
      rw [← this, hd]; simp
    have hjlt : ci * m.D ^ k + ravel (List.replicate k m.D) t < c * m.D ^ k := by
      have := ravel_lt (s := c :: List.replicate k m.D) (i := ci :: t) ⟨hci, ht⟩
      simpa [ravel, prod_replicate_nat] using this
    have hfold := get_foldl_concat (P := T :: S) (Q := []) (E e0) (rest.map E)
      (by
        intro y hy
        have : y ∈ m.data.map E := by rw [hd0]; exact hy
        obtain ⟨e, he, rfl⟩ := List.mem_map.1 this
        exact ⟨(hspec e he).2, _, (hspec e he).1⟩)
      _ _ _ hsplit (n := c * m.D ^ k) (by rw [hE]; exact hXspec.1)
      (p := tt :: s) (q := []) (j := ci * m.D ^ k + ravel (List.replicate k m.D) t)
      ⟨htt, hsS⟩ trivial hjlt
    have hoff : ((pre.map E).map fun y => y.shape.getD (T :: S).length 0).sum
        = (pre.map (compWidth m.D T)).sum := by
      rw [List.map_map]
      congr 1
      apply List.map_congr_left
      intro e he
      exact hax e (by rw [hd]; exact List.mem_append_left _ he)
    rw [hoff, ← Nat.add_assoc] at hfold
    rw [hfold]
    exact hXspec.2.2 tt ci s t htt hci hsS ht

/-- **`get_component(i, future_steps)` picks exactly one channel and tensor component of one
type.**  With `i = offset + ci * D^k + ravel t` (`offset` = total width `Σ c' * D^k'` of the types
that precede `(k, p)` in dict order), the result is one scalar block of shape
`(future_steps,) + spatial` whose entry at time `tt`, pixel `s` is `X[ci * T + tt, s, t]`: channel
`ci`, tensor component `t` of type `(k, p)` at that time step — nothing else. -/
theorem getComponent_eq (m : MI R) {T : Nat} {S : List Nat} (hs : Timed m T S)
    (pre post : List (Key × NDArr R)) (k p : Nat) (X : NDArr R)
    (hd : m.data = pre ++ ((k, p), X) :: post) (c : Nat)
    (hX : X.shape = (c * T) :: (S ++ List.replicate k m.D)) {ci : Nat} {t : List Nat}
    (hci : ci < c) (ht : InRange (List.replicate k m.D) t) :
    ∃ Z, getComponent m
        (.idx ((pre.map (compWidth m.D T)).sum + ci * m.D ^ k + ravel (List.replicate k m.D) t)) T
        = ⟨m.D, m.isTorus, [((0, 0), Z)]⟩ ∧ Z.shape = T :: S ∧
      ∀ (tt : Nat) (s : List Nat), tt < T → InRange S s →
        Z.get (tt :: s) = X.get ((ci * T + tt) :: (s ++ t)) := by
  obtain ⟨data, hdata, hdsh, hget⟩ := compData_spec m hs pre post k p X hd c hX
  have hsp := spatialDims_of_laid hs.laid (by rw [hd]; simp)
  have htail := compTail_idx (D := m.D) data hdsh hs.spatial hs.tpos hs.pos
    ((pre.map (compWidth m.D T)).sum + ci * m.D ^ k + ravel (List.replicate k m.D) t)
  refine ⟨_, ?_, htail.1, ?_⟩
  · unfold getComponent
    rw [hdata, hsp]
    rfl
  · intro tt s htt hsS
    rw [htail.2 tt s htt hsS]
    exact hget tt ci s t htt hci hsS ht

/-- the same for a slice `lo:hi` of components: the selected components come first
(component-major, then time): row `(i − lo) * T + tt` holds component `i` at time `tt` -/
theorem getComponent_slice_eq (m : MI R) {T : Nat} {S : List Nat} (hs : Timed m T S)
    (pre post : List (Key × NDArr R)) (k p : Nat) (X : NDArr R)
    (hd : m.data = pre ++ ((k, p), X) :: post) (c : Nat)
    (hX : X.shape = (c * T) :: (S ++ List.replicate k m.D)) {ci : Nat} {t : List Nat}
    (hci : ci < c) (ht : InRange (List.replicate k m.D) t) {lo hi : Nat}
    (hlo : lo ≤ (pre.map (compWidth m.D T)).sum + ci * m.D ^ k + ravel (List.replicate k m.D) t)
    (hhi : (pre.map (compWidth m.D T)).sum + ci * m.D ^ k + ravel (List.replicate k m.D) t < hi)
    (hW : hi ≤ (m.data.map (compWidth m.D T)).sum) :
    ∃ Z, getComponent m (.slice lo hi) T = ⟨m.D, m.isTorus, [((0, 0), Z)]⟩ ∧
      Z.shape = ((hi - lo) * T) :: S ∧
      ∀ (tt : Nat) (s : List Nat), tt < T → InRange S s →
        Z.get ((((pre.map (compWidth m.D T)).sum + ci * m.D ^ k
            + ravel (List.replicate k m.D) t - lo) * T + tt) :: s)
          = X.get ((ci * T + tt) :: (s ++ t)) := by
  obtain ⟨data, hdata, hdsh, hget⟩ := compData_spec m hs pre post k p X hd c hX
  have hsp := spatialDims_of_laid hs.laid (by rw [hd]; simp)
  have htail := compTail_slice (D := m.D) data hdsh hs.spatial hs.tpos hs.pos
    (lo := lo) (hi := hi) (by omega) hW
  refine ⟨_, ?_, htail.1, ?_⟩
  · unfold getComponent
    rw [hdata, hsp]
    rfl
  · intro tt s htt hsS
    rw [htail.2 _ tt s (by omega) htt hsS]
    have : lo + ((pre.map (compWidth m.D T)).sum + ci * m.D ^ k
        + ravel (List.replicate k m.D) t - lo)
        = (pre.map (compWidth m.D T)).sum + ci * m.D ^ k + ravel (List.replicate k m.D) t := by
      omega
    rw [this]
    exact hget tt ci s t htt hci hsS ht

/-- **`batch_get_component` (= `filter_vmap(get_component)`) has no cross-talk between batch
entries**: the scalar block of the result at batch index `b` is the scalar block of
`get_component` applied to batch entry `b` alone. -/
theorem batchGetComponent_eq (m : MI R) (c : Comp) (T : Nat) {b : Nat} (hb : b < m.getL)
    {s : List Nat}
    (hshape : ∀ b' < m.getL, ∀ Z, dictGet (0, 0) (getComponent (rowAt m b') c T).data = some Z →
      Z.shape = s ∧ Z.WF) :
    ∃ Y, batchGetComponent m c T = ⟨m.D, m.isTorus, [((0, 0), Y)]⟩ ∧
      ∃ Z, dictGet (0, 0) (getComponent (rowAt m b) c T).data = some Z ∧ Y.row b = Z := by
  have hZ : ∀ b', dictGet (0, 0) (getComponent (rowAt m b') c T).data
      = some (compTail T (rowAt m b').spatialDims c ((compData (rowAt m b') T).getD default)) := by
    intro b'
    simp [getComponent, MI.new, toDict, dictSet, dictGet]
  set outs := (List.range m.getL).map fun b' =>
    (dictGet (0, 0) (getComponent (rowAt m b') c T).data).getD default with houts
  have hlen : outs.length = m.getL := by simp [houts]
  have hget : ∀ b' < m.getL, outs.getD b' default
      = compTail T (rowAt m b').spatialDims c ((compData (rowAt m b') T).getD default) := by
    intro b' hb'
    rw [houts, List.getD_eq_getElem?_getD, List.getElem?_map, List.getElem?_range hb']
    simp [hZ b']
  have hhead : (outs.head?.map (·.shape)).getD [] = s := by
    have h0 : 0 < m.getL := by omega
    have : outs.head? = some (outs.getD 0 default) := by
      rw [List.head?_eq_getElem?, List.getD_eq_getElem?_getD,
        List.getElem?_eq_getElem (by rw [hlen]; exact h0)]
      rfl
    rw [this, hget 0 h0]
    simp only [Option.map_some, Option.getD_some]
    exact (hshape 0 h0 _ (hZ 0)).1
  refine ⟨stack s outs, ?_, _, hZ b, ?_⟩
  · unfold batchGetComponent
    simp only [← houts, hhead]
    rfl
  · obtain ⟨hs1, hs2⟩ := hshape b hb _ (hZ b)
    apply ext_get (by rw [shape_row, shape_stack, List.tail_cons, hs1]) (wf_row _ _) hs2
    intro i hi
    have hi2 : InRange s i := by simpa using hi
    rw [get_row _ _ (by simpa using hi2), get_stack _ _ (by rw [hlen]; exact hb) hi2, hget b hb]

/-- the witness of defect D12: pseudo-scalars stored before scalars -/
def d12Witness : MI Int :=
  ⟨1, [true], [((0, 1), ⟨[1, 1, 2], #[100, 101]⟩), ((0, 0), ⟨[1, 1, 2], #[0, 1]⟩)]⟩

/-- **defect D12 (legacy `batch_get_component`).**  With the types stored in an order that is not
the sorted key order, the legacy code (vmap over the MultiImage pytree, which sorts the dict)
returns at batch index 0 something else than `get_component` of batch entry 0: component 0 is the
scalar channel `[0, 1]` instead of the first pseudo-scalar channel `[100, 101]`. -/
theorem batchGetComponent_legacy_counterexample :
    (dictGet (0, 0) (batchGetComponentLegacy d12Witness (.idx 0) 1).data).map (fun Y => (Y.row 0).data)
      ≠ (dictGet (0, 0) (getComponent (rowAt d12Witness 0) (.idx 0) 1).data).map (fun Z => Z.data) := by
  decide

/-- the repaired code agrees on the witness (and on every input: `batchGetComponent_eq`) -/
theorem batchGetComponent_repaired_witness :
    (dictGet (0, 0) (batchGetComponent d12Witness (.idx 0) 1).data).map (fun Y => (Y.row 0).data)
      = (dictGet (0, 0) (getComponent (rowAt d12Witness 0) (.idx 0) 1).data).map (fun Z => Z.data) := by
  decide

end Component

/-! ## to_images -/
section ToImages
variable {R : Type} [Inhabited R]

/-- **`to_images` lists, per type in dict order, one image per leading multi-index, row-major**:
image number `offset + ravel lead li` is the image `X[li]` of the type `(k, p)` (with its parity,
`D` and flags), where `offset` is the number of images of the types that precede `(k, p)`. -/
theorem toImages_eq (m : MI R) {nl : Nat} {S : List Nat} (hs : Laid m nl S)
    (pre post : List (Key × NDArr R)) (k p : Nat) (X : NDArr R)
    (hd : m.data = pre ++ ((k, p), X) :: post) (lead : List Nat)
    (hX : X.shape = lead ++ (S ++ List.replicate k m.D)) {li : List Nat} (hli : InRange lead li) :
    m.toImages[(pre.map fun e => (e.2.shape.take nl).prod).sum + ravel lead li]?
      = some (GImg.new (subAt li X) p m.D m.isTorus) := by
  have hne : m.data ≠ [] := by rw [hd]; simp
  have hsp := spatialDims_of_laid hs hne
  set G : Key × NDArr R → List (GImg R) := fun e =>
    (e.2.reshapeInfer [] (S ++ List.replicate e.1.1 m.D)).rows.map fun x =>
      GImg.new x e.1.2 m.D m.isTorus with hG
  have htoi : m.toImages = pre.flatMap G ++ (G ((k, p), X) ++ post.flatMap G) := by
    unfold MI.toImages
    rw [hsp, hd, List.flatMap_append, List.flatMap_cons]
  -- number of images of a block
  have hcount : ∀ e ∈ m.data, (G e).length = (e.2.shape.take nl).prod := by
    intro e he
    obtain ⟨ld, hl, hsh⟩ := hs.blocks e he
    rw [hG]; simp only
    rw [List.length_map, length_rows, reshapeInfer_lead hsh (hs.rest_pos _), shape_reshape, hsh,
      ← hl, List.take_left]
    rfl
  have hprelen : (pre.flatMap G).length = (pre.map fun e => (e.2.shape.take nl).prod).sum := by
    rw [List.length_flatMap]
    congr 1
    apply List.map_congr_left
    intro e he
    exact hcount e (by rw [hd]; exact List.mem_append_left _ he)
  have hr := ravel_lt hli
  have hGX : (G ((k, p), X)).length = lead.prod := by
    rw [hG]; simp only
    rw [List.length_map, length_rows, reshapeInfer_lead hX (hs.rest_pos _), shape_reshape]
    rfl
  rw [htoi, List.getElem?_append_right (by rw [hprelen]; omega), hprelen, Nat.add_sub_cancel_left,
    List.getElem?_append_left (by rw [hGX]; exact hr)]
  rw [hG]; simp only
  rw [List.getElem?_map, reshapeInfer_lead hX (hs.rest_pos _)]
  have hrow : (X.reshape (lead.prod :: (S ++ List.replicate k m.D))).rows[ravel lead li]?
      = some ((X.reshape (lead.prod :: (S ++ List.replicate k m.D))).row (ravel lead li)) := by
    unfold rows
    rw [List.getElem?_map, shape_reshape, List.headD_cons, List.getElem?_range hr]
    rfl
  rw [hrow, Option.map_some, row_flat hX hli]

end ToImages

/-! ## `jax.vmap(model)`: one batch entry cannot influence another -/
section VmapModel
variable {α : Type} [Inhabited α]

/-- **`jax.vmap(model)(batch)[i]` depends only on `batch[i]`.**  `jax.vmap` is modelled as
`stack ∘ map model ∘ rows`.  If two batches agree at index `i`, the outputs agree at index `i` —
for EVERY function `model` (no hypothesis on it at all), whatever the other entries are. -/
theorem vmap_model_independent (outShape : List Nat → List Nat) (model : NDArr α → NDArr α)
    (x x' : NDArr α) (hsh : x.shape = x'.shape) {i : Nat} (hi : i < x.shape.headD 0)
    (hagree : x.row i = x'.row i) :
    (vmap0 outShape model x).row i = (vmap0 outShape model x').row i := by
  have hs : ((vmap0 outShape model x).row i).shape = ((vmap0 outShape model x').row i).shape := by
    simp [shape_vmap0, hsh]
  apply ext_get hs (wf_row _ _) (wf_row _ _)
  intro j hj
  have hj2 : InRange (outShape x.shape.tail) j := by simpa [shape_vmap0] using hj
  have hj3 : InRange (outShape x'.shape.tail) j := by rw [← hsh]; exact hj2
  rw [get_row _ _ (by simpa [shape_vmap0] using hj2), get_row _ _ (by simpa [shape_vmap0] using hj3),
    get_vmap0 _ _ _ hi hj2, get_vmap0 _ _ _ (by rw [← hsh]; exact hi) hj3, hagree]

/-- and it is what the model returns for that entry alone -/
theorem vmap_model_get (outShape : List Nat → List Nat) (model : NDArr α → NDArr α) (x : NDArr α)
    {i : Nat} (hi : i < x.shape.headD 0)
    (hm : (model (x.row i)).shape = outShape x.shape.tail ∧ (model (x.row i)).WF) :
    (vmap0 outShape model x).row i = model (x.row i) :=
  row_vmap0 outShape model x hi hm

/-- by key: mapping the entries of a dict with a function of key and value -/
theorem dictGet_mapKV {β γ : Type} (d : List (Key × β)) (F : Key → β → γ) (key : Key) :
    dictGet key (d.map fun e => (e.1, F e.1 e.2)) = (dictGet key d).map (F key) := by
  induction d with
  | nil => rfl
  | cons e d ih =>
    obtain ⟨k, v⟩ := e
    by_cases hk : k = key
    · subst hk; simp [dictGet]
    · simp [dictGet, hk, ih]

/-- `jax.vmap(model)` on a batch of multi images: every entry of every output block at batch index
`b` is the corresponding entry of `model` applied to batch entry `b` alone -/
theorem vmapMI_get (model : MI α → MI α) (m : MI α) {b : Nat} (hb : b < m.getL) (key : Key)
    (Y : NDArr α) (hY : dictGet key (vmapMI model m).data = some Y) :
    ∃ Z0, dictGet key (model (rowAt m 0)).data = some Z0 ∧ Y.shape = m.getL :: Z0.shape ∧
      ∀ i, InRange Z0.shape i →
        Y.get (b :: i) = ((dictGet key (model (rowAt m b)).data).getD default).get i := by
  set outs := (List.range m.getL).map fun b' => model (rowAt m b') with houts
  have hlen : outs.length = m.getL := by simp [houts]
  have h0 : 0 < m.getL := by omega
  have hhead : outs.head? = some (model (rowAt m 0)) := by
    rw [List.head?_eq_getElem?, houts, List.getElem?_map, List.getElem?_range h0]
    rfl
  have hdata : (vmapMI model m).data = (model (rowAt m 0)).data.map fun e =>
      (e.1, stack e.2.shape (outs.map fun o => (dictGet e.1 o.data).getD default)) := by
    unfold vmapMI
    simp only [← houts, hhead]
  rw [hdata, dictGet_mapKV (model (rowAt m 0)).data
    (fun k v => stack v.shape (outs.map fun o => (dictGet k o.data).getD default)) key] at hY
  cases hz : dictGet key (model (rowAt m 0)).data with
  | none => rw [hz] at hY; simp at hY
  | some Z0 =>
    rw [hz] at hY
    simp only [Option.map_some, Option.some.injEq] at hY
    subst hY
    refine ⟨Z0, rfl, by simp [hlen], ?_⟩
    intro i hi
    rw [get_stack _ _ (by simp [hlen]; exact hb) hi]
    congr 1
    rw [List.getD_eq_getElem?_getD, List.getElem?_map, houts, List.getElem?_map,
      List.getElem?_range hb]
    rfl

/-- **no cross-talk through `jax.vmap(model)` on multi images.**  If two batches have the same
size and agree at batch index `b`, and the abstract output signature of the model (keys and block
shapes, which jax fixes by tracing) is the same for both, then every output block agrees at batch
index `b` — for every `model`, whatever the other batch entries are. -/
theorem vmapMI_independent (model : MI α → MI α) (m m' : MI α) (hL : m.getL = m'.getL) {b : Nat}
    (hb : b < m.getL) (hagree : rowAt m b = rowAt m' b)
    (hsig : (model (rowAt m 0)).data.map (fun e => (e.1, e.2.shape))
      = (model (rowAt m' 0)).data.map (fun e => (e.1, e.2.shape)))
    (key : Key) (Y Y' : NDArr α) (hY : dictGet key (vmapMI model m).data = some Y)
    (hY' : dictGet key (vmapMI model m').data = some Y') : Y.row b = Y'.row b := by
  obtain ⟨Z0, hz, hs, hg⟩ := vmapMI_get model m hb key Y hY
  obtain ⟨Z0', hz', hs', hg'⟩ := vmapMI_get model m' (by rw [← hL]; exact hb) key Y' hY'
  have hshape : Z0.shape = Z0'.shape := by
    have h1 := dictGet_mapVal (model (rowAt m 0)).data (fun v : NDArr α => v.shape) key
    have h2 := dictGet_mapVal (model (rowAt m' 0)).data (fun v : NDArr α => v.shape) key
    rw [hsig, h2, hz, hz'] at h1
    simpa using h1.symm
  apply ext_get (by rw [shape_row, shape_row, hs, hs', hshape]; rfl) (wf_row _ _) (wf_row _ _)
  intro i hi
  have hi2 : InRange Z0.shape i := by simpa [hs] using hi
  rw [get_row _ _ (by rw [hs]; exact hi2), get_row _ _ (by rw [hs', ← hshape]; exact hi2),
    hg i hi2, hg' i (by rw [← hshape]; exact hi2), hagree]

end VmapModel

/-! ## layers: group norm statistics range over one sample only -/
section Layers
variable {R : Type} [Inhabited R]

/-- **per-sample statistics.**  `jax.vmap(GroupNorm)` on a batch returns at batch index `b` the
group norm of sample `b`, computed from the statistics of sample `b` alone — for arbitrary
statistic and normalisation functions, any number of groups, any sample shape. -/
theorem layer_per_sample {S : Type} (groups : Nat) (stat : List R → S) (norm : R → S → R)
    (x : NDArr R) {b : Nat} (hb : b < x.shape.headD 0) :
    (vmap0 id (groupNormSample groups stat norm) x).row b
      = groupNormSample groups stat norm (x.row b) :=
  vmap_model_get id _ x hb ⟨rfl, wf_ofFn _ _⟩

/-- hence another sample of the batch cannot change it -/
theorem layer_independent {S : Type} (groups : Nat) (stat : List R → S) (norm : R → S → R)
    (x x' : NDArr R) (hsh : x.shape = x'.shape) {b : Nat} (hb : b < x.shape.headD 0)
    (hagree : x.row b = x'.row b) :
    (vmap0 id (groupNormSample groups stat norm) x).row b
      = (vmap0 id (groupNormSample groups stat norm) x').row b :=
  vmap_model_independent id _ x x' hsh hb hagree

end Layers

/-! ## non-vacuity: the hypotheses of every theorem are satisfiable (distinct prime extents) -/
section Examples

/-- a per-image function that is not the identity: transpose a `5 × 7` image -/
def exF (y : NDArr Int) : NDArr Int := ofFn [7, 5] fun i => y.get [i.getD 1 0, i.getD 0 0] + 1

def exBlk : NDArr Int := ofFn [2, 3, 5, 7] fun i => (ravel [2, 3, 5, 7] i : Int)

example : subAt [1, 2] (mapLeading 2 [5, 7] (fun _ => [7, 5]) exF exBlk) = exF (subAt [1, 2] exBlk) :=
  mapLeading_get (lead := [2, 3]) (rest := [5, 7]) rfl (by decide)
    (fun _ _ _ => ⟨rfl, wf_ofFn _ _⟩) (by decide)

def blkV : NDArr Int := ofFn [2, 3, 5, 7, 2] fun i => (ravel [2, 3, 5, 7, 2] i : Int)
def blkS : NDArr Int := ofFn [2, 11, 5, 7] fun i => (1000 + ravel [2, 11, 5, 7] i : Int)

theorem blkV_wf : blkV.WF := by unfold blkV; exact wf_ofFn _ _
theorem blkS_wf : blkS.WF := by unfold blkS; exact wf_ofFn _ _

/-- two types, pseudo-vector first; batch 2, channels 3 resp. 11, spatial 5 × 7 -/
def exMI : MI Int := ⟨2, [true, false], [((1, 1), blkV), ((0, 0), blkS)]⟩

theorem exMI_mem {e : Key × NDArr Int} (he : e ∈ exMI.data) :
    e = ((1, 1), blkV) ∨ e = ((0, 0), blkS) := by
  simpa [exMI] using he

theorem exMI_valid : exMI.Valid := by
  refine ⟨by decide, ?_, ?_⟩
  · intro e he; rcases exMI_mem he with rfl | rfl <;> simp
  · intro e he; rcases exMI_mem he with rfl | rfl <;> [exact blkV_wf; exact blkS_wf]

theorem exMI_laid : Laid exMI 2 [5, 7] := by
  refine ⟨rfl, ?_, by decide, by decide⟩
  intro e he
  rcases exMI_mem he with rfl | rfl
  · exact ⟨[2, 3], rfl, rfl⟩
  · exact ⟨[2, 11], rfl, rfl⟩

theorem exMI_shaped : exMI.Shaped [2] [5, 7] := by
  refine ⟨rfl, ?_, by decide⟩
  intro e he
  rcases exMI_mem he with rfl | rfl
  · exact ⟨3, rfl⟩
  · exact ⟨11, rfl⟩

def exRot : Mat 2 := fun i j =>
  if i.val = 0 ∧ j.val = 1 then -1 else if i.val = 1 ∧ j.val = 0 then 1 else 0

example : ∃ Y, dictGet (1, 1) (miTge exRot exMI).data = some Y ∧
    Y.shape = [2, 3] ++ tgeOutShape exRot ([5, 7] ++ [2]) ∧
    subAt [1, 2] Y = tgeArr 2 exRot 1 (subAt [1, 2] blkV) := by
  obtain ⟨Y, h1, h2, h3⟩ := (miTge_eq exRot exMI exMI_valid exMI_laid).2.2.2 1 1 blkV [2, 3]
    (by simp [exMI]) rfl
  exact ⟨Y, h1, h2, h3 [1, 2] (by decide)⟩

/-- a multi image that can be pooled with patch 2 (extents 6 × 10) -/
def blkP : NDArr Int := ofFn [3, 6, 10, 2] fun i => (ravel [3, 6, 10, 2] i : Int)
theorem blkP_wf : blkP.WF := by unfold blkP; exact wf_ofFn _ _
def exPool : MI Int := ⟨2, [true, true], [((1, 0), blkP)]⟩

example : ∃ Y, dictGet (1, 0) (miAveragePool 2 (1 : Int) exPool).data = some Y ∧
    subAt [2] Y = poolArr 2 2 (1 : Int) (subAt [2] blkP) := by
  have hv : exPool.Valid := ⟨by decide, by intro e he; simp [exPool] at he; subst he; simp,
    by intro e he; simp [exPool] at he; subst he; exact blkP_wf⟩
  have hl : Laid exPool 1 [6, 10] := ⟨rfl, by
    intro e he; simp [exPool] at he; subst he; exact ⟨[3], rfl, rfl⟩, by decide, by decide⟩
  obtain ⟨Y, h1, _, h3⟩ := (miAveragePool_eq 2 (1 : Int) exPool hv hl).2.2.2 1 0 blkP [3]
    (by simp [exPool]) rfl rfl
  exact ⟨Y, h1, h3 [2] (by decide)⟩

/-- the scalar type comes second: its channel 4 lands on scalar channel `3 + 4` -/
example : ∃ Z, miNorm sumSq exMI = ⟨2, [true, false], [((0, 0), Z)]⟩ ∧
    Z.get ([1] ++ (3 + 4) :: [2, 6]) = (normBlock 2 sumSq (subAt ([1] ++ [4]) blkS)).get [2, 6] := by
  have hc : ∀ e ∈ exMI.data, 0 < e.2.shape.getD ([2] : List Nat).length 0 := by
    intro e he; rcases exMI_mem he with rfl | rfl <;> decide
  obtain ⟨Z, h1, h2⟩ := miNorm_eq sumSq exMI exMI_shaped hc [((1, 1), blkV)] [] 0 0 blkS rfl 11 rfl
    (b := [1]) (s := [2, 6]) (ci := 4) (by decide) (by decide) (by decide)
  exact ⟨Z, h1, h2⟩

/-- `(channels * future_steps, spatial, tensor)` with `future_steps = 3`: 2 vector channels and
5 scalar channels -/
def blkTV : NDArr Int := ofFn [2 * 3, 5, 7, 2] fun i => (ravel [6, 5, 7, 2] i : Int)
def blkTS : NDArr Int := ofFn [5 * 3, 5, 7] fun i => (5000 + ravel [15, 5, 7] i : Int)
def exTimed : MI Int := ⟨2, [true, true], [((1, 0), blkTV), ((0, 0), blkTS)]⟩

theorem exTimed_timed : Timed exTimed 3 [5, 7] := by
  refine ⟨rfl, ?_, by decide, by decide, by decide⟩
  intro e he
  have : e = ((1, 0), blkTV) ∨ e = ((0, 0), blkTS) := by simpa [exTimed] using he
  rcases this with rfl | rfl
  · exact ⟨2, rfl⟩
  · exact ⟨5, rfl⟩

/-- component `0 + 1 * 2 + 1 = 3` is vector channel 1, tensor component 1; the scalars start at 4 -/
example : ∃ Z, getComponent exTimed (.idx 3) 3 = ⟨2, [true, true], [((0, 0), Z)]⟩ ∧
    Z.shape = [3, 5, 7] ∧ Z.get [2, 4, 6] = blkTV.get [1 * 3 + 2, 4, 6, 1] := by
  obtain ⟨Z, h1, h2, h3⟩ := getComponent_eq exTimed exTimed_timed [] [((0, 0), blkTS)] 1 0 blkTV rfl
    2 rfl (ci := 1) (t := [1]) (by decide) (by decide)
  exact ⟨Z, h1, h2, h3 2 [4, 6] (by decide) (by decide)⟩

example : ∃ Z, getComponent exTimed (.idx (4 + 2)) 3 = ⟨2, [true, true], [((0, 0), Z)]⟩ ∧
    Z.get [0, 4, 6] = blkTS.get [2 * 3 + 0, 4, 6] := by
  obtain ⟨Z, h1, _, h3⟩ := getComponent_eq exTimed exTimed_timed [((1, 0), blkTV)] [] 0 0 blkTS rfl
    5 rfl (ci := 2) (t := []) (by decide) (by decide)
  exact ⟨Z, h1, h3 0 [4, 6] (by decide) (by decide)⟩

example : ∃ Z, getComponent exTimed (.slice 2 7) 3 = ⟨2, [true, true], [((0, 0), Z)]⟩ ∧
    Z.shape = [(7 - 2) * 3, 5, 7] ∧ Z.get [(4 + 2 - 2) * 3 + 1, 4, 6] = blkTS.get [2 * 3 + 1, 4, 6] := by
  obtain ⟨Z, h1, h2, h3⟩ := getComponent_slice_eq exTimed exTimed_timed [((1, 0), blkTV)] [] 0 0
    blkTS rfl 5 rfl (ci := 2) (t := []) (by decide) (by decide) (lo := 2) (hi := 7) (by decide)
    (by decide) (by decide)
  exact ⟨Z, h1, h2, h3 1 [4, 6] (by decide) (by decide)⟩

/-- image number `6 + ravel [2, 11] [1, 4]` of `to_images` is the scalar image at `[1, 4]` -/
example : exMI.toImages[(2 * 3) + ravel [2, 11] [1, 4]]?
    = some (GImg.new (subAt [1, 4] blkS) 0 2 [true, false]) := by
  have := toImages_eq exMI exMI_laid [((1, 1), blkV)] [] 0 0 blkS rfl [2, 11] rfl
    (li := [1, 4]) (by decide)
  exact this

/-- a "model" that mixes everything inside one sample still cannot see another sample -/
def exModel (y : NDArr Int) : NDArr Int :=
  ofFn y.shape fun i => y.get i - y.data.foldl (· + ·) 0

example (x x' : NDArr Int) (hsh : x.shape = x'.shape) (hi : 1 < x.shape.headD 0)
    (h : x.row 1 = x'.row 1) : (vmap0 id exModel x).row 1 = (vmap0 id exModel x').row 1 :=
  vmap_model_independent id exModel x x' hsh hi h

example : (vmap0 id exModel exBlk).row 1 = exModel (exBlk.row 1) :=
  vmap_model_get id exModel exBlk (by decide) ⟨rfl, wf_ofFn _ _⟩

end Examples

end GinjaxVerif.C14
