import GinjaxVerif.Model.C08Max
import GinjaxVerif.Lemmas.C08Pool
import GinjaxVerif.Lemmas.SignedPerm

/-!
# C08 — `max_pool` with a comparator image, and the plain maximum of scalars (`use_norm=False`)

* `maxPoolComparator_equivariant` — for every `g ∈ B_d`, every tensor type `(k,p)` of the pooled
  image, every `d`, every patch length dividing the extents: if within every patch the comparator
  (a true scalar image, transformed with parity 0) has a unique maximiser, then
  `max_pool(g·A, comparator = g·K) = g·max_pool(A, comparator = K)`.
* `maxPool_eq_comparator_norm` — the norm path (`use_norm=True`, `maxPool`) *is* the comparator
  path with the comparator `‖A‖²` (and, for every `sqrtF` strictly increasing on the non-negatives,
  with the comparator `sqrtF ‖A‖²` the code computes: `maxPool_eq_comparator_sqrtNorm`);
  `maxPool_equivariant_via_comparator` re-derives `maxPool_equivariant` from the comparator theorem.
* `maxPoolScalar_equivariant` — the plain maximum of a *true* scalar block `(0,0)` with unique
  per-patch maxima commutes with the group.
* `maxPoolScalar_pseudoscalar_counterexample` — the plain maximum of a *pseudo*-scalar `(0,1)` block
  does **not** commute with a reflection, although every patch has a unique maximum
  (`max(−x) = −min(x) ≠ −max(x)`): scope boundary of the clause (the property is about norm-based
  pooling; `GeometricImage.max_pool(P, use_norm=False)` accepts a pseudo-scalar image).
* `maxPoolComparator_shift_multiple` — both commute with translations by multiples of the patch
  length (no uniqueness needed).
-/
namespace GinjaxVerif

variable {R : Type} {d : Nat}

/-! ### the hypothesis -/

/-- **hypothesis of the comparator clause**: in every patch of every channel the comparator value
is maximal at exactly one pixel -/
def UniqueMaxCmp [LT R] (P : Nat) (K : Blk R d) : Prop :=
  ∀ c, c < K.C → ∀ y, InBox (fun j => K.dims j / P) y →
    ∃ a, InBox (fun _ => P) a ∧ ∀ b, InBox (fun _ => P) b → b ≠ a →
      K.val c (patchPix P y b) [] < K.val c (patchPix P y a) []

theorem cmpPos_eq [LinearOrder R] (P : Nat) (K : Img R d) (y a : Pix d)
    (ha : InBox (fun _ => P) a)
    (hmax : ∀ b, InBox (fun _ => P) b → b ≠ a →
      K.val (patchPix P y b) [] < K.val (patchPix P y a) []) : cmpPos P K y = a := by
  unfold cmpPos
  apply argmaxList_unique
  · exact (mem_boxList d P a).mpr ha
  · intro b hb hne
    exact hmax b ((mem_boxList d P b).mp hb) hne

/-- the comparator seen through the permute-and-flip action with scalar `1` on a `k = 0` block:
no sign, only the pixel permutation -/
theorem cmp_rel [CommRing R] (g : SP d) (K K' : Blk R d) (hk : K.k = 0)
    (h : K'.Equiv (pfBlk g 1 K)) (ch : Nat) (hch : ch < K.C) (y : Pix d)
    (hy : InBox (fun i => K.dims (g.σ i)) y) :
    K'.val ch y [] = K.val ch (g.srcPix (fun i => K.dims (g.σ i)) y) [] := by
  obtain ⟨hC, hd, hk', hv⟩ := h
  have hC' : K'.C = K.C := hC
  have hd' : K'.dims = fun i => K.dims (g.σ i) := hd
  have hk'' : K'.k = K.k := hk'
  rw [hv ch (by omega) y (by rw [hd']; exact hy) [] (by rw [hk'', hk]; rfl), pfBlk_val]
  simp

/-! ### relational equivariance -/

/-- **relational form**: the comparator block transforms as a true scalar (`c = 1`), the pooled
block with any scalar `c` (`c = det g ^ p`) and any tensor order -/
theorem maxPoolCmp_rel [CommRing R] [LinearOrder R] (g : SP d) (c : Int) (P : Nat)
    (B B' K K' : Blk R d) (hdiv : ∀ j, P ∣ B.dims j) (hKC : K.C = B.C) (hKd : K.dims = B.dims)
    (hKk : K.k = 0) (hu : UniqueMaxCmp P K) (hK : K'.Equiv (pfBlk g 1 K))
    (h : B'.Equiv (pfBlk g c B)) :
    (maxPoolCmp P K' B').Equiv (pfBlk g c (maxPoolCmp P K B)) := by
  obtain ⟨hC, hd, hk, hv⟩ := h
  have hd' : B'.dims = fun i => B.dims (g.σ i) := hd
  have hC' : B'.C = B.C := hC
  refine ⟨hC, ?_, hk, ?_⟩
  · funext j
    simp only [maxPoolCmp, pfBlk, hd']
  · intro ch hch y hy n hn
    simp only [maxPoolCmp] at hch hy hn
    have hy' : InBox (fun i => B.dims (g.σ i) / P) y := by rw [hd'] at hy; exact hy
    have hchB : ch < B.C := by omega
    have hchK : ch < K.C := by omega
    have hY : InBox (fun j => B.dims j / P) (g.srcPix (fun i => B.dims (g.σ i) / P) y) :=
      srcPix_inBox g (fun j => B.dims j / P) y hy'
    obtain ⟨a, ha, hmax⟩ := hu ch hchK _ (by rw [hKd]; exact hY)
    have hposK : cmpPos P (K.img ch) (g.srcPix (fun i => B.dims (g.σ i) / P) y) = a :=
      cmpPos_eq P _ _ a ha hmax
    have ha' : InBox (fun _ => P) (g.inv.srcPix (fun _ => P) a) :=
      inv_srcPix_inBox g (fun _ => P) a ha
    have hcmp : ∀ b, InBox (fun _ => P) b →
        K'.val ch (patchPix P y b) [] = K.val ch
          (patchPix P (g.srcPix (fun i => B.dims (g.σ i) / P) y) (g.srcPix (fun _ => P) b)) [] := by
      intro b hb
      rw [cmp_rel g K K' hKk hK ch hchK _
        (by rw [hKd]; exact patchPix_inBox P _ (fun j => hdiv _) y b hy' hb), hKd,
        srcPix_patchPix g P B.dims hdiv]
    have hright : g.srcPix (fun _ => P) (g.inv.srcPix (fun _ => P) a) = a :=
      srcPix_right_inv g (fun _ => P) a
    have hposK' : cmpPos P (K'.img ch) y = g.inv.srcPix (fun _ => P) a := by
      apply cmpPos_eq P _ _ _ ha'
      intro b hb hne
      show K'.val ch (patchPix P y b) [] < K'.val ch (patchPix P y _) []
      rw [hcmp b hb, hcmp _ ha', hright]
      apply hmax _ (srcPix_inBox g (fun _ => P) b hb)
      intro hba
      apply hne
      have := congrArg (g.inv.srcPix (fun _ => P)) hba
      rw [← this]
      exact (srcPix_left_inv g (fun _ => P) b).symm
    rw [pfBlk_val]
    simp only [maxPoolCmp]
    rw [hposK', hposK]
    have hin : InBox B'.dims (patchPix P y (g.inv.srcPix (fun _ => P) a)) := by
      rw [hd']; exact patchPix_inBox P _ (fun j => hdiv _) y _ hy' ha'
    rw [hv ch hch _ hin n hn, pfBlk_val, srcPix_patchPix g P B.dims hdiv, hright]

/-! ### the norm path is the comparator path with the pixel norm as comparator -/

/-- **`max_pool(A, use_norm=True)` = `max_pool(A, comparator = ‖A‖²)`**, definitionally -/
theorem maxPool_eq_comparator_norm [Zero R] [Add R] [Mul R] [LT R] [DecidableLT R] (P : Nat)
    (B : Blk R d) : maxPool P B = maxPoolCmp P (normSqBlk B) B := rfl

/-- `use_norm=False` of the new model is `maxPoolRaw` of `Model/C08.lean` -/
theorem maxPoolScalar_eq_raw [LT R] [DecidableLT R] (P : Nat) (B : Blk R d) :
    maxPoolScalar P B = maxPoolRaw P B := rfl

theorem argmaxFirst_comp {α : Type} [LinearOrder R] (f : α → R) (s : R → R) :
    ∀ (l : List α) (best : α), (∀ u v, u ∈ best :: l → v ∈ best :: l → (s (f u) < s (f v) ↔ f u < f v)) →
      argmaxFirst (fun a => s (f a)) best l = argmaxFirst f best l
  | [], _, _ => rfl
  | x :: xs, best, h => by
    simp only [argmaxFirst]
    have hbx := h best x (by simp) (by simp)
    by_cases hlt : f best < f x
    · rw [if_pos hlt, if_pos (hbx.mpr hlt)]
      exact argmaxFirst_comp f s xs x (fun u v hu hv =>
        h u v (List.mem_cons_of_mem _ hu) (List.mem_cons_of_mem _ hv))
    · rw [if_neg hlt, if_neg (fun hc => hlt (hbx.mp hc))]
      apply argmaxFirst_comp f s xs best
      intro u v hu hv
      apply h
      · rcases List.mem_cons.mp hu with h' | h'
        · rw [h']; simp
        · exact List.mem_cons_of_mem _ (List.mem_cons_of_mem _ h')
      · rcases List.mem_cons.mp hv with h' | h'
        · rw [h']; simp
        · exact List.mem_cons_of_mem _ (List.mem_cons_of_mem _ h')

/-- an `argmax` with first-index tie breaking is unchanged by a map that preserves and reflects `<`
on the values that occur (ties stay ties, so even the tie breaking is the same) -/
theorem argmaxList_comp {α : Type} [LinearOrder R] (f : α → R) (s : R → R) (dflt : α) (l : List α)
    (h : ∀ u v, u ∈ l → v ∈ l → (s (f u) < s (f v) ↔ f u < f v)) :
    argmaxList (fun a => s (f a)) dflt l = argmaxList f dflt l := by
  cases l with
  | nil => rfl
  | cons x xs => exact argmaxFirst_comp f s xs x h

/-- **the norm path with the norm the code computes**: for every `sqrtF` that is strictly
increasing on the non-negative values (as `√` is), `max_pool(A, comparator = sqrtF ‖A‖²)` is the
model `maxPool` that compares squared norms — with the same tie breaking -/
theorem maxPool_eq_comparator_sqrtNorm [CommRing R] [LinearOrder R] [IsStrictOrderedRing R]
    (sqrtF : R → R) (hs : ∀ u v : R, 0 ≤ u → 0 ≤ v → (sqrtF u < sqrtF v ↔ u < v)) (P : Nat)
    (B : Blk R d) : maxPoolCmp P (normBlk sqrtF B) B = maxPool P B := by
  unfold maxPoolCmp maxPool
  congr 1
  funext c y n
  congr 2
  unfold cmpPos maxPos
  have hnn : ∀ (A : Img R d) (z : Pix d), 0 ≤ normSq A z := by
    intro A z
    unfold normSq
    generalize A.k = k
    generalize A.val z = f
    induction k generalizing f with
    | zero => exact mul_self_nonneg _
    | succ k ih =>
      simp only [sumIdx, sumFin_eq]
      exact Finset.sum_nonneg (fun a _ => ih _)
  exact argmaxList_comp (fun a => normSq (B.img c) (patchPix P y a)) sqrtF _ _
    (fun u v _ _ => hs _ _ (hnn _ _) (hnn _ _))

namespace C08

open GinjaxVerif

/-! ### headline theorems -/

/-- **max pooling with a comparator image commutes with the group whenever the comparator has a
unique maximiser in every patch**: `K` is one scalar image per channel of `B` with the extents of
`B`; it is transformed as a true scalar (parity 0), `B` with its own type `(k, p)` -/
theorem maxPoolComparator_equivariant [CommRing R] [LinearOrder R] (M : Mat d)
    (hM : isSignedPerm M = true) (p P : Nat) (B K : Blk R d) (hdiv : ∀ j, P ∣ B.dims j)
    (hKC : K.C = B.C) (hKd : K.dims = B.dims) (hKk : K.k = 0) (hu : UniqueMaxCmp P K) :
    (maxPoolCmp P (tgeBlk M 0 K) (tgeBlk M p B)).Equiv (tgeBlk M p (maxPoolCmp P K B)) := by
  obtain ⟨g, rfl⟩ := exists_SP_of_isSignedPerm M hM
  have hK := tgeBlk_equiv_pfBlk g 0 K
  rw [pow_zero] at hK
  exact (maxPoolCmp_rel g _ P B _ K _ hdiv hKC hKd hKk hu hK (tgeBlk_equiv_pfBlk g p B)).trans
    (tgeBlk_equiv_pfBlk g p (maxPoolCmp P K B)).symm

/-- `UniqueMax` (norm path) is `UniqueMaxCmp` of the squared-norm comparator -/
theorem uniqueMax_iff_cmp [Zero R] [Add R] [Mul R] [LT R] (P : Nat) (B : Blk R d) :
    UniqueMax P B ↔ UniqueMaxCmp P (normSqBlk B) := Iff.rfl

/-- **the norm path as the special case comparator = pixel norm**: `maxPool_equivariant` follows
from `maxPoolComparator_equivariant` (relational form: `maxPool_rel` from `maxPoolCmp_rel` and
`normSq_rel`) -/
theorem maxPool_equivariant_via_comparator [CommRing R] [LinearOrder R] (M : Mat d)
    (hM : isSignedPerm M = true) (p P : Nat) (B : Blk R d) (hdiv : ∀ j, P ∣ B.dims j)
    (hu : UniqueMax P B) : (maxPool P (tgeBlk M p B)).Equiv (tgeBlk M p (maxPool P B)) := by
  obtain ⟨g, rfl⟩ := exists_SP_of_isSignedPerm M hM
  have hB := tgeBlk_equiv_pfBlk g p B
  -- the squared norm of the transformed block is the transformed squared norm (a true scalar)
  have hK : (normSqBlk (tgeBlk g.mat p B)).Equiv (pfBlk g 1 (normSqBlk B)) := by
    refine ⟨rfl, hB.2.1, rfl, ?_⟩
    intro ch hch y hy n hn
    have hn0 : n = [] := List.eq_nil_of_length_eq_zero hn
    subst hn0
    rw [pfBlk_val]
    have hy' : InBox (fun i => B.dims (g.σ i)) y := by
      have : (tgeBlk g.mat p B).dims = fun i => B.dims (g.σ i) := hB.2.1
      rw [← this]; exact hy
    show normSq ((tgeBlk g.mat p B).img ch) y = _
    rw [normSq_rel g _ (detpow_sq g p) B _ hB ch hch y hy']
    simp [normSqBlk]
  rw [maxPool_eq_comparator_norm, maxPool_eq_comparator_norm]
  exact (maxPoolCmp_rel g _ P B _ (normSqBlk B) _ hdiv rfl rfl rfl hu hK hB).trans
    (tgeBlk_equiv_pfBlk g p (maxPoolCmp P (normSqBlk B) B)).symm

/-- **the plain maximum (`use_norm=False`) of a true scalar block `(0,0)` commutes with the group
whenever every patch has a unique maximum** -/
theorem maxPoolScalar_equivariant [CommRing R] [LinearOrder R] (M : Mat d)
    (hM : isSignedPerm M = true) (P : Nat) (B : Blk R d) (hk : B.k = 0)
    (hdiv : ∀ j, P ∣ B.dims j) (hu : UniqueMaxCmp P B) :
    (maxPoolScalar P (tgeBlk M 0 B)).Equiv (tgeBlk M 0 (maxPoolScalar P B)) :=
  maxPoolComparator_equivariant M hM 0 P B B hdiv rfl rfl hk hu

/-! ### the plain maximum of a pseudo-scalar is not equivariant -/

/-- the reflection of the first axis of the plane -/
def reflX : Mat 2 := fun i j => if i = j then (if i.val = 0 then -1 else 1) else 0

theorem reflX_signedPerm : isSignedPerm reflX = true := by decide

/-- one channel, the 2×2 image `[[1, 2], [3, 4]]` (one patch of length 2) -/
def sq4 : Blk Int 2 :=
  { C := 1, dims := fun _ => 2, k := 0, val := fun _ y _ => 2 * y 0 + y 1 + 1 }

theorem sq4_uniqueMaxCmp : UniqueMaxCmp 2 sq4 := by
  intro c _ y hy
  have hy0 : 0 ≤ y 0 ∧ y 0 < ((2 / 2 : Nat) : Int) := hy 0
  have hy1 : 0 ≤ y 1 ∧ y 1 < ((2 / 2 : Nat) : Int) := hy 1
  refine ⟨fun _ => 1, ?_, ?_⟩
  · unfold InBox; decide
  · intro b hb hne
    have hb0 : 0 ≤ b 0 ∧ b 0 < ((2 : Nat) : Int) := hb 0
    have hb1 : 0 ≤ b 1 ∧ b 1 < ((2 : Nat) : Int) := hb 1
    have hlt : b 0 = 0 ∨ b 1 = 0 := by
      by_contra hcon
      apply hne
      funext i
      have hi : i = 0 ∨ i = 1 := by omega
      rcases hi with rfl | rfl <;> omega
    simp only [sq4, patchPix]
    omega

/-- **the plain maximum of a pseudo-scalar block `(0,1)` does not commute with a reflection**, even
with a unique maximum in every patch (`sq4_uniqueMaxCmp`): for `[[1,2],[3,4]]` as a pseudo-scalar
and the reflection of the first axis, `max_pool(g·A, use_norm=False) = −1` but
`g·max_pool(A, use_norm=False) = −4` -/
theorem maxPoolScalar_pseudoscalar_counterexample :
    ¬ (maxPoolScalar 2 (tgeBlk reflX 1 sq4)).Equiv (tgeBlk reflX 1 (maxPoolScalar 2 sq4)) := by
  intro h
  have := h.2.2.2 0 (by decide) (fun _ => 0) (by unfold InBox; decide) [] rfl
  revert this
  decide

/-- the same block as a true scalar `(0,0)` is covered by `maxPoolScalar_equivariant`
(non-vacuity of its hypotheses, and of those of `maxPoolComparator_equivariant`) -/
example : (maxPoolScalar 2 (tgeBlk reflX 0 sq4)).Equiv (tgeBlk reflX 0 (maxPoolScalar 2 sq4)) :=
  maxPoolScalar_equivariant reflX reflX_signedPerm 2 sq4 rfl (by decide) sq4_uniqueMaxCmp

/-- and the norm-based pooling of the pseudo-scalar block is equivariant at that pixel -/
example : (maxPool 2 (tgeBlk reflX 1 sq4)).val 0 (fun _ => 0) []
    = (tgeBlk reflX 1 (maxPool 2 sq4)).val 0 (fun _ => 0) [] := by decide

/-- a vector block pooled by the scalar comparator `sq4`: the comparator theorem applies for every
tensor type -/
example (B : Blk Int 2) (p : Nat) (hC : B.C = 1) (hd : B.dims = fun _ => 2) :
    (maxPoolCmp 2 (tgeBlk reflX 0 sq4) (tgeBlk reflX p B)).Equiv
      (tgeBlk reflX p (maxPoolCmp 2 sq4 B)) :=
  maxPoolComparator_equivariant reflX reflX_signedPerm p 2 B sq4 (by rw [hd]; decide) hC.symm
    hd.symm rfl sq4_uniqueMaxCmp

/-! ### translations by multiples of the patch length -/

/-- **comparator pooling commutes with translations by multiples of the patch length** (image and
comparator rolled together; no uniqueness needed, the patches are scanned in the same order);
second component: the plain maximum of scalars -/
theorem maxPoolComparator_shift_multiple [LinearOrder R] (P : Nat) (hP : 0 < P) (B K : Blk R d)
    (hdiv : ∀ j, P ∣ B.dims j) (hKd : K.dims = B.dims) (t : Pix d) :
    (maxPoolCmp P (rollBlk (fun j => t j * (P : Int)) K) (rollBlk (fun j => t j * (P : Int)) B)).Equiv
        (rollBlk t (maxPoolCmp P K B)) ∧
    (maxPoolScalar P (rollBlk (fun j => t j * (P : Int)) B)).Equiv (rollBlk t (maxPoolScalar P B)) := by
  have key : ∀ K : Blk R d, K.dims = B.dims →
      (maxPoolCmp P (rollBlk (fun j => t j * (P : Int)) K) (rollBlk (fun j => t j * (P : Int)) B)).Equiv
        (rollBlk t (maxPoolCmp P K B)) := by
    intro K hKd
    refine ⟨rfl, rfl, rfl, ?_⟩
    intro ch _ y _ n _
    have hpos : cmpPos P ((rollBlk (fun j => t j * (P : Int)) K).img ch) y
        = cmpPos P (K.img ch) (fun j => (y j - t j) % ((B.dims j / P : Nat) : Int)) := by
      unfold cmpPos
      apply argmaxList_congr
      intro a ha
      show K.val ch (fun j => (patchPix P y a j - t j * (P : Int)) % (K.dims j : Int)) [] = _
      rw [hKd, roll_patchPix P B.dims hdiv t y a ((mem_boxList d P a).mp ha)]
      rfl
    have hmem : InBox (fun _ => P)
        (cmpPos P (K.img ch) (fun j => (y j - t j) % ((B.dims j / P : Nat) : Int))) := by
      rw [← mem_boxList]
      exact argmaxList_mem _ _ _ (boxList_ne_nil d P hP)
    show B.val ch (fun j => (patchPix P y
          (cmpPos P ((rollBlk (fun j => t j * (P : Int)) K).img ch) y) j
        - t j * (P : Int)) % (B.dims j : Int)) n
      = B.val ch (patchPix P (fun j => (y j - t j) % ((B.dims j / P : Nat) : Int))
          (cmpPos P (K.img ch) (fun j => (y j - t j) % ((B.dims j / P : Nat) : Int)))) n
    rw [hpos, roll_patchPix P B.dims hdiv t y _ hmem]
  exact ⟨key K hKd, key B rfl⟩

end C08

end GinjaxVerif
