import GinjaxVerif.Properties.C20
import GinjaxVerif.Model.C20Banks
/-!
# C20 — models built with an ARBITRARY filter bank (any set of filter types)

`Properties/C20.lean` proves `model_outSig_*` under `NetGood` (every mid type is produced at every
layer).  Here that hypothesis is dropped: for every bank the forward-pass models `mkResNet`,
`mkDilResNet`, `mkUNet` are proved equal to the layerwise closed forms of `Model/C20Banks.lean`:
the output signature is exactly the requested output types reachable through the chain of layers,
in requested order, with the requested channel counts — or the call raises (residual addition of
different key sets), exactly when the closed form says so.  Core Lean only.

* one layer: `reachable_mono`, `convContractOut_mono`, `convContractOut_empty_input`,
  `reachable_requires_filter`;
* chains: `midSteps_mem_iff_chain` (a type is present after `n` layers iff there is a path of `n`
  filter types from an input type), `midSteps_mono`;
* models: `model_outSig_partial_bank_resnet`, `model_outSig_partial_bank_dilresnet`,
  (`model_outSig_partial_bank_unet` is in `Properties/C20BanksUNet.lean`), `model_partial_bank_order`, `model_absent_iff_unreachable`,
  `resnet_present_iff_path`, `model_empty_mid_returns_empty`, `model_outSig_full_bank_corollary`.
-/
namespace GinjaxVerif.C20

/-! ## One layer -/

/-- **a larger bank (and more input types) never loses a type** -/
theorem reachable_mono (bank bank' : Bank) (ins ins' : List Ty) (t : Ty)
    (hb : ∀ f ∈ bank.keys, f ∈ bank'.keys) (hi : ∀ s ∈ ins, s ∈ ins')
    (h : reachable bank ins t = true) : reachable bank' ins' t = true := by
  rw [reachable_iff] at h ⊢
  obtain ⟨s, hs, hf⟩ := h
  exact ⟨s, hi s hs, hb _ hf⟩

/-- a type is produced by a layer only through a filter type that is present: `t` is reachable iff
some input type `s` has its connecting filter `(k_s+k_t, (p_s+p_t) % 2)` in the bank -/
theorem reachable_requires_filter (bank : Bank) (ins : List Ty) (t : Ty) :
    reachable bank ins t = false ↔ ∀ s ∈ ins, filterKey s t ∉ bank.keys := by
  rw [← Bool.not_eq_true, reachable_iff]
  constructor
  · intro h s hs hf; exact h ⟨s, hs, hf⟩
  · rintro h ⟨s, hs, hf⟩; exact h s hs hf

theorem convContractOut_mono (bank bank' : Bank) (x x' target : Sig)
    (hb : ∀ f ∈ bank.keys, f ∈ bank'.keys) (hx : ∀ s ∈ keysOf x, s ∈ keysOf x') :
    (convContractOut bank x target).Sublist (convContractOut bank' x' target) := by
  unfold convContractOut
  induction target with
  | nil => simp
  | cons b l ih =>
    rw [List.filter_cons, List.filter_cons]
    by_cases h : reachable bank (keysOf x) b.1 = true
    · simp only [h, reachable_mono bank bank' _ _ _ hb hx h, if_true]
      exact ih.cons_cons b
    · have h' : reachable bank (keysOf x) b.1 = false := by simpa using h
      by_cases h2 : reachable bank' (keysOf x') b.1 = true
      · simp only [h', h2, if_true]
        exact ih.cons b
      · have h2' : reachable bank' (keysOf x') b.1 = false := by simpa using h2
        simp only [h', h2']
        exact ih

/-- a layer fed an empty multi-image returns an empty multi-image -/
theorem convContractOut_empty_input (bank : Bank) (target : Sig) : convContractOut bank [] target = [] := by
  simp [convContractOut, keysOf, reachable]

theorem keysOf_sublist {a b : Sig} (h : a.Sublist b) : ∀ t ∈ keysOf a, t ∈ keysOf b :=
  fun _ ht => (h.map Prod.fst).subset ht

/-! ## Chains of layers -/

/-- a chain of `n` hops `s → … → t` through types of `mid`, each hop using a filter type of the bank -/
inductive Chain (bank : Bank) (mid : List Ty) : Nat → Ty → Ty → Prop
  | zero (t : Ty) : Chain bank mid 0 t t
  | succ {n : Nat} {s u t : Ty} : filterKey s u ∈ bank.keys → u ∈ mid → Chain bank mid n u t →
      Chain bank mid (n + 1) s t

theorem mem_keys_cco (bank : Bank) (x target : Sig) (t : Ty) :
    t ∈ keysOf (convContractOut bank x target) ↔
      t ∈ keysOf target ∧ ∃ s ∈ keysOf x, filterKey s t ∈ bank.keys := by
  constructor
  · intro h
    obtain ⟨b, hb, rfl⟩ := List.mem_map.1 h
    rw [convContractOut_mem] at hb
    exact ⟨List.mem_map_of_mem hb.1, hb.2⟩
  · rintro ⟨h, hr⟩
    obtain ⟨b, hb, rfl⟩ := List.mem_map.1 h
    exact List.mem_map_of_mem ((convContractOut_mem bank x target b).2 ⟨hb, hr⟩)

/-- **path characterisation**: after `n` layers onto `mid`, a type is present iff a path of `n`
filter types leads to it from a type of the signature the chain started from -/
theorem midSteps_mem_iff_chain (bank : Bank) (mid : Sig) (n : Nat) (s0 : Sig) (t : Ty) :
    t ∈ keysOf (midSteps bank mid n s0) ↔ ∃ s ∈ keysOf s0, Chain bank (keysOf mid) n s t := by
  induction n generalizing s0 with
  | zero =>
    simp only [midSteps]
    constructor
    · intro h; exact ⟨t, h, Chain.zero t⟩
    · rintro ⟨s, hs, hc⟩; cases hc; exact hs
  | succ n ih =>
    simp only [midSteps]
    rw [ih]
    constructor
    · rintro ⟨u, hu, hc⟩
      obtain ⟨hum, s, hs, hf⟩ := (mem_keys_cco _ _ _ _).1 hu
      exact ⟨s, hs, Chain.succ hf hum hc⟩
    · rintro ⟨s, hs, hc⟩
      cases hc with
      | succ hf hum hc' => exact ⟨_, (mem_keys_cco _ _ _ _).2 ⟨hum, s, hs, hf⟩, hc'⟩

theorem midSteps_mono (bank bank' : Bank) (mid : Sig) (hb : ∀ f ∈ bank.keys, f ∈ bank'.keys) (n : Nat)
    (s s' : Sig) (hs : ∀ t ∈ keysOf s, t ∈ keysOf s') :
    ∀ t ∈ keysOf (midSteps bank mid n s), t ∈ keysOf (midSteps bank' mid n s') := by
  induction n generalizing s s' with
  | zero => exact hs
  | succ n ih =>
    simp only [midSteps]
    exact ih _ _ (keysOf_sublist (convContractOut_mono bank bank' s s' mid hb hs))

theorem midSteps_sub (bank : Bank) (mid : Sig) (n : Nat) (s : Sig) (hs : ∀ b ∈ s, b ∈ mid) :
    ∀ b ∈ midSteps bank mid n s, b ∈ mid := by
  induction n generalizing s with
  | zero => exact hs
  | succ n ih => simp only [midSteps]; exact ih _ (cco_sub _ _ _)

theorem midSteps_empty (bank : Bank) (mid : Sig) (n : Nat) : midSteps bank mid n [] = [] := by
  induction n with
  | zero => rfl
  | succ n ih => simp only [midSteps, convContractOut_empty_input, ih]

/-! ## Blocks fed a *part* of their declared input -/

/-- the configurations the partial-bank theorems are about: equivariant mode, `d ∈ {2,3}`, pairwise
distinct keys in `mid_keys` and `output_keys`, odd filter side, group norm only with mid types of
order `≤ 1` (constructor checks).  **Nothing is assumed about which filter types the bank holds.** -/
structure BankGood (c : NetCfg) : Prop where
  eqv : c.equivariant = true
  dim : c.D = 2 ∨ c.D = 3
  midNodup : KeysNodup c.mid
  outNodup : KeysNodup c.outSig
  odd : c.bank.M % 2 = 1
  gn : c.groupNorm = true → groupNormAccepts c.mid = true

theorem convContract_sub (bank : Bank) (declared target : Sig) (bias : BiasMode) (rd : Nat)
    (hn : KeysNodup target) (hM : bank.M % 2 = 1) (s : Sig) (hs : ∀ b ∈ s, b ∈ declared)
    (dims : List Nat) (D : Nat) (torus : List Bool) :
    convContract bank declared target bias { rhsDil := rd } ⟨s, dims, D, torus⟩ =
      some ⟨convContractOut bank s target, dims, D, torus⟩ := by
  unfold convContract
  have h1 : s.all (blockOk bank declared target) = true := by
    rw [List.all_eq_true]; intro b hb; unfold blockOk; simp [hs b hb]
  simp only [h1, if_true, convDims_same bank.M rd hM, convContractSig_eq_out bank target hn]

/-- an equivariant `ConvBlock` fed any part `s` of its declared input emits the reachable part of its
declared output (norm and nonlinearity look their parameters up per block and keep the signature) -/
theorem eqBlock_sub (b : BlockCfg) (rd : Nat) (hopts : b.opts = { rhsDil := rd })
    (he : b.equivariant = true) (hn : KeysNodup b.outKeys) (hM : b.bank.M % 2 = 1)
    (hgn : b.groupNorm = true → groupNormAccepts b.outKeys = true)
    (hpre : b.preact = true → b.inKeys = b.outKeys)
    (s : Sig) (hs : ∀ x ∈ s, x ∈ b.inKeys) (dims : List Nat) (D : Nat) (torus : List Bool) :
    convBlockOut b ⟨s, dims, D, torus⟩ = some ⟨convContractOut b.bank s b.outKeys, dims, D, torus⟩ := by
  unfold convBlockOut
  have hbuild : blockBuildOk b = true := by
    unfold blockBuildOk; simp only [he, if_true]
    by_cases g : b.groupNorm = true
    · simp [g, hgn g]
    · simp [g]
  have hconv : ∀ s', (∀ x ∈ s', x ∈ b.inKeys) → blockConv b ⟨s', dims, D, torus⟩ =
      some ⟨convContractOut b.bank s' b.outKeys, dims, D, torus⟩ := by
    intro s' hs'; unfold blockConv; simp only [he, if_true, hopts]
    exact convContract_sub _ _ _ _ _ hn hM _ hs' _ _ _
  have hnorm : ∀ s', (∀ x ∈ s', x ∈ b.outKeys) →
      blockNorm b ⟨s', dims, D, torus⟩ = some ⟨s', dims, D, torus⟩ := by
    intro s' hs'; unfold blockNorm groupNormCall
    by_cases g : b.groupNorm = true
    · simp only [g, he, if_true, all_contains_of_sub hs']
    · simp [g]
  have hnl : ∀ s', (∀ x ∈ s', x ∈ b.outKeys) →
      blockNonlin b ⟨s', dims, D, torus⟩ = some ⟨s', dims, D, torus⟩ := by
    intro s' hs'; unfold blockNonlin vnOut
    simp only [he, if_true]
    by_cases a : b.act = true
    · have : s'.all (fun x => x.1 == (0, 0) || b.outKeys.contains x) = true := by
        rw [List.all_eq_true]; intro x hx; simp [hs' x hx]
      simp only [a, if_true, this]
    · simp [a]
  simp only [hbuild, if_true]
  by_cases p : b.preact = true
  · have hio := hpre p
    simp only [p, if_true]
    rw [hnorm _ (by rw [← hio]; exact hs), Option.bind_some,
      hnl _ (by rw [← hio]; exact hs), Option.bind_some, hconv _ hs]
  · simp only [p]
    rw [hconv _ hs, Option.bind_some, hnorm _ (cco_sub _ _ _), Option.bind_some, hnl _ (cco_sub _ _ _)]
    simp

/-- a block of the network (bank `conv_filters`) on a part of its declared input -/
theorem netBlock_sub (c : NetCfg) (hg : BankGood c) (inK outK : Sig) (kernel : Option (List Nat))
    (act gn preact : Bool) (rd : Nat) (hn : KeysNodup outK)
    (hgn : gn = true → groupNormAccepts outK = true) (hpre : preact = true → inK = outK)
    (s : Sig) (hs : ∀ x ∈ s, x ∈ inK) (dims : List Nat) (D : Nat) (torus : List Bool) :
    convBlockOut (c.block inK outK kernel act gn preact { rhsDil := rd }) ⟨s, dims, D, torus⟩ =
      some ⟨convContractOut c.bank s outK, dims, D, torus⟩ :=
  eqBlock_sub (c.block inK outK kernel act gn preact { rhsDil := rd }) rd rfl hg.eqv hn hg.odd hgn hpre
    s hs dims D torus

/-- a chain of `n` identical-target blocks `mid → mid` -/
theorem chain_midSteps (c : NetCfg) (mid : Sig) (fs : List (MI → Option MI)) (dims : List Nat) (D : Nat)
    (torus : List Bool)
    (hf : ∀ f ∈ fs, ∀ s, (∀ x ∈ s, x ∈ mid) →
      f ⟨s, dims, D, torus⟩ = some ⟨convContractOut c.bank s mid, dims, D, torus⟩)
    (s : Sig) (hs : ∀ x ∈ s, x ∈ mid) :
    chainM fs ⟨s, dims, D, torus⟩ = some ⟨midSteps c.bank mid fs.length s, dims, D, torus⟩ := by
  induction fs generalizing s with
  | nil => rfl
  | cons f fs ih =>
    rw [chainM_cons, hf f (by simp) s hs, Option.bind_some, List.length_cons]
    simp only [midSteps]
    exact ih (fun g hg => hf g (by simp [hg])) _ (cco_sub _ _ _)

/-! ## Residual stages -/

/-- two in-order parts of the same signature with distinct keys are equal as soon as they have the
same blocks -/
theorem filter_eq_of_mem_iff {α} (l : List α) (p q : α → Bool)
    (h : ∀ a ∈ l, (p a = true ↔ q a = true)) : l.filter p = l.filter q := by
  apply List.filter_congr
  intro a ha
  have := h a ha
  cases hp : p a <;> cases hq : q a <;> simp_all

/-- `x + residual` on two in-order parts of `mid`: succeeds iff they are the same part -/
theorem add_parts (mid : Sig) (p q : Ty × Nat → Bool) (dims : List Nat) (D : Nat) (torus : List Bool) :
    add ⟨mid.filter p, dims, D, torus⟩ ⟨mid.filter q, dims, D, torus⟩ =
      if mid.filter p = mid.filter q then some ⟨mid.filter q, dims, D, torus⟩ else none := by
  by_cases h : mid.filter p = mid.filter q
  · rw [h]; simp [add_self]
  · simp only [h, if_false]
    unfold add addSig
    have : ((mid.filter p).all (fun x => (mid.filter q).contains x) &&
        (mid.filter q).all (fun x => (mid.filter p).contains x)) = false := by
      rw [Bool.eq_false_iff]
      intro hall
      apply h
      rw [Bool.and_eq_true, List.all_eq_true, List.all_eq_true] at hall
      apply filter_eq_of_mem_iff
      intro a ha
      constructor
      · intro hp
        have := hall.1 a (List.mem_filter.2 ⟨ha, hp⟩)
        exact (List.mem_filter.1 (by simpa using this)).2
      · intro hq
        have := hall.2 a (List.mem_filter.2 ⟨ha, hq⟩)
        exact (List.mem_filter.1 (by simpa using this)).2
    rw [this]
    simp

/-- every signature a chain produces is an in-order part (a `filter`) of `mid` -/
theorem midSteps_is_filter (bank : Bank) (mid : Sig) (n : Nat) (s : Sig)
    (hs : ∃ q, s = mid.filter q) : ∃ p, midSteps bank mid n s = mid.filter p := by
  induction n generalizing s with
  | zero => exact hs
  | succ n ih => simp only [midSteps]; exact ih _ ⟨_, rfl⟩

/-- one residual stage whose layers are `n` blocks `mid → mid` -/
theorem residualStage_sig (c : NetCfg) (fs : List (MI → Option MI)) (dims : List Nat) (D : Nat)
    (torus : List Bool)
    (hf : ∀ f ∈ fs, ∀ s, (∀ x ∈ s, x ∈ c.mid) →
      f ⟨s, dims, D, torus⟩ = some ⟨convContractOut c.bank s c.mid, dims, D, torus⟩)
    (s : Sig) (hs : ∃ q, s = c.mid.filter q) :
    residualStage fs ⟨s, dims, D, torus⟩ =
      (stageSig c.bank c.mid fs.length s).map (fun s' => ⟨s', dims, D, torus⟩) := by
  obtain ⟨q, rfl⟩ := hs
  have hsub : ∀ x ∈ c.mid.filter q, x ∈ c.mid := fun x hx => (List.mem_filter.1 hx).1
  unfold residualStage stageSig
  rw [chain_midSteps c c.mid fs dims D torus hf _ hsub, Option.bind_some]
  obtain ⟨p, hp⟩ := midSteps_is_filter c.bank c.mid fs.length (c.mid.filter q) ⟨q, rfl⟩
  rw [hp, add_parts]
  by_cases h : c.mid.filter p = c.mid.filter q <;> simp [h]

theorem iterM_stages (c : NetCfg) (fs : List (MI → Option MI)) (dims : List Nat) (D : Nat)
    (torus : List Bool)
    (hf : ∀ f ∈ fs, ∀ s, (∀ x ∈ s, x ∈ c.mid) →
      f ⟨s, dims, D, torus⟩ = some ⟨convContractOut c.bank s c.mid, dims, D, torus⟩)
    (n : Nat) (s : Sig) (hs : ∃ q, s = c.mid.filter q) :
    iterM n (residualStage fs) ⟨s, dims, D, torus⟩ =
      (iterSig (stageSig c.bank c.mid fs.length) n s).map (fun s' => ⟨s', dims, D, torus⟩) ∧
    ∀ s', iterSig (stageSig c.bank c.mid fs.length) n s = some s' → s' = s := by
  induction n with
  | zero => exact ⟨rfl, fun s' h => by simpa [iterSig] using h.symm⟩
  | succ n ih =>
    unfold iterM iterSig
    rw [residualStage_sig c fs dims D torus hf s hs]
    unfold stageSig
    by_cases h : midSteps c.bank c.mid fs.length s = s
    · simp only [h, if_true, Option.map_some, Option.bind_some]
      exact ih
    · simp [h]

/-! ## ResNet and DilResNet -/

theorem inputOk_bank (c : NetCfg) (hg : BankGood c) (sig : Sig) (dims : List Nat) (torus : List Bool)
    (hd : dims.length = c.D) (ht : torus.length = c.D) : inputOk c ⟨sig, dims, c.D, torus⟩ = true := by
  unfold inputOk
  rcases hg.dim with h | h <;> simp [h, hd, ht] <;> omega

theorem encoder_sub (c : NetCfg) (hg : BankGood c) (dims : List Nat) (D : Nat) (torus : List Bool) :
    chainM c.encoder ⟨c.inSig, dims, D, torus⟩ = some ⟨encoderSig c, dims, D, torus⟩ := by
  unfold NetCfg.encoder encoderSig
  rw [chainM_cons, show ({} : ConvOpts) = { rhsDil := 1 } from rfl, effIn_eq c hg.eqv,
    netBlock_sub c hg c.inSig c.mid (kernelOne c) c.act false false 1 hg.midNodup (by simp) (by simp)
      c.inSig (fun _ h => h), Option.bind_some, chainM_cons,
    netBlock_sub c hg c.mid c.mid (kernelOne c) c.act false false 1 hg.midNodup (by simp) (by simp)
      _ (cco_sub _ _ _), Option.bind_some]
  rfl

theorem decoder_sub (c : NetCfg) (hg : BankGood c) (s : Sig) (hs : ∀ x ∈ s, x ∈ c.mid)
    (dims : List Nat) (D : Nat) (torus : List Bool) :
    chainM c.decoder ⟨s, dims, D, torus⟩ = some ⟨decoderSig c s, dims, D, torus⟩ := by
  unfold NetCfg.decoder decoderSig
  have heo : c.effOut = c.outSig := by simp [NetCfg.effOut, hg.eqv]
  rw [chainM_cons, show ({} : ConvOpts) = { rhsDil := 1 } from rfl,
    netBlock_sub c hg c.mid c.mid (kernelOne c) c.act false false 1 hg.midNodup (by simp) (by simp)
      s hs, Option.bind_some, chainM_cons, heo,
    netBlock_sub c hg c.mid c.outSig (kernelOne c) false false false 1 hg.outNodup (by simp) (by simp)
      _ (cco_sub _ _ _), Option.bind_some]
  rfl

theorem leave_eqv (c : NetCfg) (hg : BankGood c) (x : MI) : c.leave x = some x := by
  simp [NetCfg.leave, hg.eqv]

theorem enter_eqv (c : NetCfg) (hg : BankGood c) (x : MI) : c.enter x = x := by
  simp [NetCfg.enter, hg.eqv]

/-- shared tail of the two residual networks -/
theorem residualNet_sig (c : NetCfg) (hg : BankGood c) (fs : List (MI → Option MI)) (dims : List Nat)
    (torus : List Bool)
    (hf : ∀ f ∈ fs, ∀ s, (∀ x ∈ s, x ∈ c.mid) →
      f ⟨s, dims, c.D, torus⟩ = some ⟨convContractOut c.bank s c.mid, dims, c.D, torus⟩) :
    (((chainM c.encoder (c.enter ⟨c.inSig, dims, c.D, torus⟩)).bind
        (iterM c.numBlocks (residualStage fs))).bind (chainM c.decoder)).bind c.leave =
      ((iterSig (stageSig c.bank c.mid fs.length) c.numBlocks (encoderSig c)).map (decoderSig c)).map
        (fun s => ⟨s, dims, c.D, torus⟩) := by
  rw [enter_eqv c hg, encoder_sub c hg, Option.bind_some]
  have henc : ∃ q, encoderSig c = c.mid.filter q := ⟨_, rfl⟩
  obtain ⟨h1, h2⟩ := iterM_stages c fs dims c.D torus hf c.numBlocks (encoderSig c) henc
  rw [h1]
  cases hit : iterSig (stageSig c.bank c.mid fs.length) c.numBlocks (encoderSig c) with
  | none => rfl
  | some s' =>
    have := h2 s' hit
    subst this
    simp only [Option.map_some, Option.bind_some]
    rw [decoder_sub c hg (encoderSig c) (by unfold encoderSig; exact cco_sub _ _ _), Option.bind_some,
      leave_eqv c hg]

/-- **ResNet, any bank**: the forward pass equals the layerwise closed form — the requested output
types reachable through encoder → stages → decoder, in requested order with the requested channel
counts, the input's extents, `D`, flags; or it raises, exactly when a residual stage does not
reproduce its own key set. -/
theorem model_outSig_partial_bank_resnet (c : NetCfg) (x : MI) (hg : BankGood c) (hx : Declared c x) :
    mkResNet c x = (resnetSig c).map (fun s => ⟨s, x.dims, x.D, x.torus⟩) := by
  obtain ⟨s, d, D, T⟩ := x; obtain ⟨rfl, rfl, hd, ht⟩ := hx
  unfold mkResNet resnetSig
  simp only [inputOk_bank c hg _ d T hd ht, if_true]
  have := residualNet_sig c hg (List.replicate c.numConv
    (convBlockOut (c.block c.mid c.mid c.kernel c.act c.groupNorm c.preact))) d T (by
      intro f hf s hs
      rw [(List.mem_replicate.1 hf).2]
      exact netBlock_sub c hg c.mid c.mid c.kernel c.act c.groupNorm c.preact 1 hg.midNodup hg.gn
        (fun _ => rfl) s hs d c.D T)
  rw [List.length_replicate] at this
  exact this

/-- **DilResNet, any bank** (seven dilated layers per stage) -/
theorem model_outSig_partial_bank_dilresnet (c : NetCfg) (x : MI) (hg : BankGood c) (hx : Declared c x) :
    mkDilResNet c x = (dilresnetSig c).map (fun s => ⟨s, x.dims, x.D, x.torus⟩) := by
  obtain ⟨s, d, D, T⟩ := x; obtain ⟨rfl, rfl, hd, ht⟩ := hx
  unfold mkDilResNet dilresnetSig
  simp only [inputOk_bank c hg _ d T hd ht, if_true]
  have := residualNet_sig c hg (dilations.map (fun r =>
    convBlockOut (c.block c.mid c.mid c.kernel c.act c.groupNorm false { rhsDil := r }))) d T (by
      intro f hf s hs
      obtain ⟨r, _, rfl⟩ := List.mem_map.1 hf
      exact netBlock_sub c hg c.mid c.mid c.kernel c.act c.groupNorm false r hg.midNodup hg.gn
        (by simp) s hs d c.D T)
  rw [List.length_map] at this
  exact this

/-! ## What the closed forms say -/

theorem iterSig_fixed (f : Sig → Option Sig) (n : Nat) (s : Sig) (h : f s = some s) :
    iterSig f n s = some s := by
  induction n with
  | zero => rfl
  | succ n ih => unfold iterSig; rw [h, Option.bind_some]; exact ih

theorem iterSig_stage_eq (bank : Bank) (mid : Sig) (k n : Nat) (s s' : Sig)
    (h : iterSig (stageSig bank mid k) n s = some s') : s' = s := by
  induction n with
  | zero => simpa [iterSig] using h.symm
  | succ n ih =>
    unfold iterSig stageSig at h
    by_cases hk : midSteps bank mid k s = s
    · simp only [hk, if_true, Option.bind_some] at h; exact ih h
    · simp [hk] at h

/-- whenever the residual networks return, their output is `decoderSig (encoderSig c)`: four layers
`in → mid → mid → mid → out` decide which types come out, whatever the number of stages -/
theorem resnetSig_some (c : NetCfg) (out : Sig) (h : resnetSig c = some out) :
    out = decoderSig c (encoderSig c) := by
  unfold resnetSig at h
  cases hi : iterSig (stageSig c.bank c.mid c.numConv) c.numBlocks (encoderSig c) with
  | none => simp [hi] at h
  | some s' =>
    rw [hi] at h
    have := iterSig_stage_eq _ _ _ _ _ _ hi
    subst this
    simpa using h.symm

theorem dilresnetSig_some (c : NetCfg) (out : Sig) (h : dilresnetSig c = some out) :
    out = decoderSig c (encoderSig c) := by
  unfold dilresnetSig at h
  cases hi : iterSig (stageSig c.bank c.mid dilations.length) c.numBlocks (encoderSig c) with
  | none => simp [hi] at h
  | some s' =>
    rw [hi] at h
    have := iterSig_stage_eq _ _ _ _ _ _ hi
    subst this
    simpa using h.symm

/-- the residual networks raise exactly when there is at least one stage and the stage does not
reproduce the key set it is given -/
theorem resnetSig_none_iff (c : NetCfg) :
    resnetSig c = none ↔ 0 < c.numBlocks ∧ midSteps c.bank c.mid c.numConv (encoderSig c) ≠ encoderSig c := by
  unfold resnetSig
  rw [Option.map_eq_none_iff]
  by_cases hk : midSteps c.bank c.mid c.numConv (encoderSig c) = encoderSig c
  · rw [iterSig_fixed _ _ _ (by simp [stageSig, hk])]
    simp [hk]
  · cases hn : c.numBlocks with
    | zero => simp [iterSig]
    | succ n => simp [iterSig, stageSig, hk]

/-- **requested order, requested channel counts**: the output is an in-order part of `output_keys` -/
theorem model_partial_bank_order (c : NetCfg) (out : Sig)
    (h : resnetSig c = some out ∨ dilresnetSig c = some out) : out.Sublist c.outSig := by
  have : out = decoderSig c (encoderSig c) := by
    rcases h with h | h
    · exact resnetSig_some c out h
    · exact dilresnetSig_some c out h
  subst this
  exact convContractOut_order _ _ _

/-- **a requested type is silently absent only when it is unreachable**: a requested block is
missing from the output iff no type present in front of the last layer has a connecting filter in
the bank -/
theorem model_absent_iff_unreachable (c : NetCfg) (out : Sig)
    (h : resnetSig c = some out ∨ dilresnetSig c = some out) (b : Ty × Nat) (hb : b ∈ c.outSig) :
    b ∉ out ↔ ∀ s ∈ keysOf (convContractOut c.bank (encoderSig c) c.mid), filterKey s b.1 ∉ c.bank.keys := by
  have : out = decoderSig c (encoderSig c) := by
    rcases h with h | h
    · exact resnetSig_some c out h
    · exact dilresnetSig_some c out h
  subst this
  unfold decoderSig
  rw [convContractOut_mem]
  constructor
  · intro hn s hs hf; exact hn ⟨hb, s, hs, hf⟩
  · rintro hn ⟨_, s, hs, hf⟩; exact hn s hs hf

/-- …i.e. **iff there is no path of filter types** from an input type: `in → mid → mid → mid → out` -/
theorem resnet_present_iff_path (c : NetCfg) (out : Sig)
    (h : resnetSig c = some out ∨ dilresnetSig c = some out) (b : Ty × Nat) :
    b ∈ out ↔ b ∈ c.outSig ∧ ∃ s ∈ keysOf c.inSig, ∃ u, Chain c.bank (keysOf c.mid) 3 s u ∧
      filterKey u b.1 ∈ c.bank.keys := by
  have : out = decoderSig c (encoderSig c) := by
    rcases h with h | h
    · exact resnetSig_some c out h
    · exact dilresnetSig_some c out h
  subst this
  have h3 : convContractOut c.bank (encoderSig c) c.mid = midSteps c.bank c.mid 3 c.inSig := rfl
  unfold decoderSig
  rw [convContractOut_mem, h3]
  constructor
  · rintro ⟨hb, u, hu, hf⟩
    obtain ⟨s, hs, hc⟩ := (midSteps_mem_iff_chain _ _ _ _ _).1 hu
    exact ⟨hb, s, hs, u, hc, hf⟩
  · rintro ⟨hb, s, hs, u, hc, hf⟩
    exact ⟨hb, u, (midSteps_mem_iff_chain _ _ _ _ _).2 ⟨s, hs, hc⟩, hf⟩

/-- **an empty mid signature is not an error**: when no mid type is reachable from the input types
the real models return an EMPTY multi-image (every later layer maps empty to empty, `empty + empty`
passes the key-set assertion), whose `get_spatial_dims()` is `()` -/
theorem model_empty_mid_returns_empty (c : NetCfg) (h : convContractOut c.bank c.inSig c.mid = []) :
    resnetSig c = some [] ∧ dilresnetSig c = some [] ∧
    ∀ dims D torus, observe ⟨[], dims, D, torus⟩ = ([], [], D, torus) := by
  have he : encoderSig c = [] := by unfold encoderSig; rw [h, convContractOut_empty_input]
  have hs : ∀ n, stageSig c.bank c.mid n [] = some [] := by
    intro n; simp [stageSig, midSteps_empty]
  refine ⟨?_, ?_, fun _ _ _ => rfl⟩
  · unfold resnetSig
    rw [he, iterSig_fixed _ _ _ (hs _)]
    simp [decoderSig, convContractOut_empty_input]
  · unfold dilresnetSig
    rw [he, iterSig_fixed _ _ _ (hs _)]
    simp [decoderSig, convContractOut_empty_input]

theorem midSteps_full (bank : Bank) (mid : Sig) (h : convContractOut bank mid mid = mid) (n : Nat) :
    midSteps bank mid n mid = mid := by
  induction n with
  | zero => rfl
  | succ n ih => simp only [midSteps, h, ih]

/-- **complete banks** (`model_outSig_full_bank` as a corollary of the partial-bank closed form):
with every filter type of order `≤ 2K` present, nothing is lost anywhere and the residual networks
return exactly the requested signature -/
theorem model_outSig_full_bank_corollary (c : NetCfg) (K : Nat) (hb : FullBank c.bank K)
    (hin : c.inSig ≠ []) (hmid : c.mid ≠ [])
    (hi : ∀ s ∈ keysOf c.inSig, TyOk K s) (hm : ∀ s ∈ keysOf c.mid, TyOk K s)
    (ho : ∀ s ∈ keysOf c.outSig, TyOk K s) :
    resnetSig c = some c.outSig ∧ dilresnetSig c = some c.outSig := by
  have h1 : convContractOut c.bank c.inSig c.mid = c.mid := convContractOut_full_bank _ K hb _ _ hin hi hm
  have h2 : convContractOut c.bank c.mid c.mid = c.mid := convContractOut_full_bank _ K hb _ _ hmid hm hm
  have h3 : convContractOut c.bank c.mid c.outSig = c.outSig := convContractOut_full_bank _ K hb _ _ hmid hm ho
  have he : encoderSig c = c.mid := by unfold encoderSig; rw [h1, h2]
  have hs : ∀ n, stageSig c.bank c.mid n c.mid = some c.mid := by
    intro n; simp [stageSig, midSteps_full _ _ h2]
  constructor
  · unfold resnetSig
    rw [he, iterSig_fixed _ _ _ (hs _)]
    simp [decoderSig, h2, h3]
  · unfold dilresnetSig
    rw [he, iterSig_fixed _ _ _ (hs _)]
    simp [decoderSig, h2, h3]

/-! ## Non-vacuity -/

/-- a bank with only the `(0,0)` and `(1,0)` filter types -/
def bankScalarVector : Bank := ⟨[(0, 0), (1, 0)], 3⟩

/-- ResNet, pseudo-types, bank `{(0,0),(1,0)}`: `(1,1) → (0,1)` needs the `(1,0)` filter (present),
`(1,1) → (1,1)` would need `(2,0)` (absent but `(0,1) → (1,1)` works), nothing connects the pseudo
types to `(0,0)` / `(1,0)`: those two requested types are silently absent. -/
def exPartial : NetCfg :=
  { D := 2, inSig := [((1, 1), 1)], outSig := [((1, 0), 2), ((0, 1), 1), ((0, 0), 3), ((1, 1), 1)],
    mid := [((0, 0), 2), ((1, 1), 2), ((0, 1), 2), ((1, 0), 2)], depth := 2, equivariant := true,
    bias := .auto, act := true, groupNorm := true, bank := bankScalarVector, kernel := none,
    numBlocks := 2, numConv := 2 }

example : BankGood exPartial :=
  { eqv := rfl, dim := Or.inl rfl, midNodup := by decide, outNodup := by decide, odd := by decide,
    gn := fun _ => by decide }

example : resnetSig exPartial = some [((0, 1), 1), ((1, 1), 1)] := by decide

example : mkResNet exPartial ⟨exPartial.inSig, [3, 4], 2, [true, false]⟩ =
    some ⟨[((0, 1), 1), ((1, 1), 1)], [3, 4], 2, [true, false]⟩ := by decide

/-- a stage that does not reproduce its key set: bank `{(1,0)}` alternates scalar ↔ vector, so one
layer per stage raises (`x + residual` on different key sets), two layers per stage pass -/
def exOsc (numConv : Nat) : NetCfg :=
  { D := 2, inSig := [((0, 0), 1)], outSig := [((0, 0), 1), ((1, 0), 2)],
    mid := [((0, 0), 2), ((1, 0), 2)], depth := 2, equivariant := true, bias := .auto, act := true,
    groupNorm := false, bank := ⟨[(1, 0)], 3⟩, kernel := none, numBlocks := 1, numConv := numConv }

example : resnetSig (exOsc 1) = none ∧ resnetSig (exOsc 2) = some [((0, 0), 1)] := by decide
example : mkResNet (exOsc 1) ⟨(exOsc 1).inSig, [4, 4], 2, [true, false]⟩ = none := by decide

/-- no mid type reachable: the empty multi-image comes back -/
example : resnetSig { exOsc 1 with bank := ⟨[(2, 0)], 3⟩ } = some [] ∧
    mkDilResNet { exOsc 1 with bank := ⟨[(2, 0)], 3⟩ } ⟨[((0, 0), 1)], [4, 4], 2, [true, false]⟩ =
      some ⟨[], [4, 4], 2, [true, false]⟩ := by decide

example : Chain bankScalarVector [(0, 1), (1, 1)] 2 (1, 1) (1, 1) :=
  .succ (u := (0, 1)) (by decide) (by decide) (.succ (u := (1, 1)) (by decide) (by decide) (.zero _))

end GinjaxVerif.C20
