import GinjaxVerif.Model.C05Extras
import GinjaxVerif.Properties.C05

/-!
# C05 (extras) — constant images, Kronecker delta, activation functions, equality under `B_d`

How the constructors and pixel-wise helpers of `GeometricImage` that are not nodes of `Expr`
(`Model/C05Extras.lean`) behave under the action `tge` (= `times_group_element`), for every
dimension `d`, every extent vector, every commutative ring of pixel values and every matrix accepted
by `isSignedPerm` (= all of `B_d`):

* `fill_act`, `zeros_act` (these two hold for *every* integer matrix);
* `kroneckerDelta_invariant_even` (+ the closed formula `tactL_kronecker`), and
  `kroneckerDelta_odd_not_invariant`: the code's own TODO ("should only be a 2-tensor");
* `activation_scalar_equivariant` (any `f`), `activation_pseudoscalar_equivariant_of_odd`,
  `activation_pseudoscalar_not_equivariant_relu`;
* `imgEq_act`, `eqB_iff` (the executable exact `__eq__` decides the spec `GImg.Eqv`);
* `eval_equivariant_with_constants`: leaves that are `g`-invariant constant images may be left
  untransformed.
-/
namespace GinjaxVerif.C05

open GinjaxVerif

variable {R : Type} [CommRing R] {d : Nat}

/-! ### constant images -/

/-- the action on one tensor (a pixel value of declared parity `p`):
`det(M)^p · Σ_j Π_i M[n_i][j_i] · c[j]` -/
def tensorAct (M : Mat d) (p : Nat) (c : List (Fin d) → R) : List (Fin d) → R :=
  fun n => (((det M) ^ p : Int) : R) * tactL M n c

/-- on a signed permutation: `(g·c)[n] = det^p · Π s(n_i) · c[σ n]` -/
theorem tensorAct_mat (g : SP d) (p : Nat) (c : List (Fin d) → R) (n : List (Fin d)) :
    tensorAct g.mat p c n = (((det g.mat) ^ p : Int) : R) * (((g.sgn n : Int) : R) * c (n.map g.σ)) := by
  simp only [tensorAct, tactL_mat]

/-- **`g · fill(c) = fill(g · c)`**, on the transported extents — for every extent vector, every
order, every parity and every integer matrix `M` (no pixel is looked up: the image is constant). -/
theorem fill_act (M : Mat d) (p : Nat) (dims : Fin d → Nat) (k : Nat) (c : List (Fin d) → R) :
    tge M p (fillImg dims k c) = fillImg (rotDims M dims) k (tensorAct M p c) := rfl

/-- the same for the class method `GeometricImage.fill` followed by `times_group_element`: parity
kept (`% 2` by the constructor), flags travel with the axes -/
theorem fillG_act (M : Mat d) (dims : Fin d → Nat) (k : Nat) (c : List (Fin d) → R) (parity : Nat)
    (torus : Fin d → Bool) :
    (GImg.fill dims k c parity torus).act M
      = GImg.fill (rotDims M dims) k (tensorAct M (parity % 2) c) parity (transport M torus) := rfl

theorem tactL_zero (M : Mat d) (n : List (Fin d)) : tactL M n (fun _ => (0 : R)) = 0 := by
  induction n with
  | nil => rfl
  | cons m n ih =>
    simp only [tactL, ih, mul_zero]
    rw [sumFin_eq]; simp

/-- **`g · zeros = zeros`** on the transported extents (every integer matrix) -/
theorem zeros_act (M : Mat d) (p : Nat) (dims : Fin d → Nat) (k : Nat) :
    (tge M p (zerosImg (R := R) dims k)).SEq (zerosImg (rotDims M dims) k) :=
  ⟨rfl, rfl, fun y _ n => by simp only [tge, zerosImg, tactL_zero, mul_zero]⟩

theorem zerosG_act (M : Mat d) (dims : Fin d → Nat) (k parity : Nat) (torus : Fin d → Bool) :
    ((GImg.zeros (R := R) dims k parity torus).act M).img.SEq
        (GImg.zeros (R := R) (rotDims M dims) k parity (transport M torus)).img ∧
      ((GImg.zeros (R := R) dims k parity torus).act M).p
        = (GImg.zeros (R := R) (rotDims M dims) k parity (transport M torus)).p ∧
      ((GImg.zeros (R := R) dims k parity torus).act M).torus
        = (GImg.zeros (R := R) (rotDims M dims) k parity (transport M torus)).torus :=
  ⟨zeros_act M _ dims k, rfl, rfl⟩

/-! ### Kronecker delta -/

/-- the symbol as a sentence: 1 exactly on the all-equal multi-indices of length `k` -/
theorem kroneckerSym_eq (d k : Nat) (m : List (Fin d)) :
    kroneckerSym d k m = if ∃ i, m = List.replicate k i then 1 else 0 := by
  by_cases h : ∃ i, m = List.replicate k i
  · rw [if_pos h]
    obtain ⟨i, hi⟩ := h
    have : (List.finRange d).any (fun i => m == List.replicate k i) = true := by
      rw [List.any_eq_true]
      exact ⟨i, List.mem_finRange i, by simp [hi]⟩
    simp only [kroneckerSym, this, if_true]
  · rw [if_neg h]
    have : (List.finRange d).any (fun i => m == List.replicate k i) = false := by
      rw [Bool.eq_false_iff]
      intro hh
      rw [List.any_eq_true] at hh
      obtain ⟨i, _, hi⟩ := hh
      exact h ⟨i, by simpa using hi⟩
    simp [kroneckerSym, this]

theorem kroneckerSym_replicate (k : Nat) (i : Fin d) : kroneckerSym d k (List.replicate k i) = 1 := by
  rw [kroneckerSym_eq, if_pos ⟨i, rfl⟩]

theorem kroneckerSym_of_length_ne (k : Nat) (m : List (Fin d)) (h : m.length ≠ k) :
    kroneckerSym d k m = 0 := by
  rw [kroneckerSym_eq, if_neg]
  rintro ⟨i, rfl⟩
  simp at h

/-- re-indexing by an axis permutation keeps the symbol -/
theorem kroneckerSym_map (σ : Equiv.Perm (Fin d)) (k : Nat) (m : List (Fin d)) :
    kroneckerSym d k (m.map σ) = kroneckerSym d k m := by
  have hiff : (∃ i, m.map σ = List.replicate k i) ↔ (∃ i, m = List.replicate k i) := by
    constructor
    · rintro ⟨i, hi⟩
      refine ⟨σ.symm i, ?_⟩
      have := congrArg (List.map σ.symm) hi
      simpa [List.map_map, List.map_replicate] using this
    · rintro ⟨i, rfl⟩
      exact ⟨σ i, by simp [List.map_replicate]⟩
  rw [kroneckerSym_eq, kroneckerSym_eq]
  by_cases h : ∃ i, m = List.replicate k i
  · rw [if_pos h, if_pos (hiff.mpr h)]
  · rw [if_neg h, if_neg (fun h' => h (hiff.mp h'))]

theorem sgn_replicate (g : SP d) (k : Nat) (i : Fin d) :
    g.sgn (List.replicate k i) = (g.s i) ^ k := by
  induction k with
  | zero => simp
  | succ k ih => rw [List.replicate_succ, SP.sgn_cons, ih, pow_succ, mul_comm]

/-- **the closed formula**: `Σ_j Π_i g[m_i, j_i] δ[j] = [all m_i equal] · s(m_0)^k`, i.e.
`Π s(m_i) · δ[m]` -/
theorem tactL_kronecker (g : SP d) (k : Nat) (m : List (Fin d)) :
    tactL g.mat m (fun j => ((kroneckerSym d k j : Int) : R))
      = (((g.sgn m * kroneckerSym d k m : Int)) : R) := by
  rw [tactL_mat, kroneckerSym_map]; push_cast; ring

theorem tactL_kronecker_replicate (g : SP d) (k : Nat) (i : Fin d) :
    tactL g.mat (List.replicate k i) (fun j => ((kroneckerSym d k j : Int) : R))
      = ((((g.s i) ^ k : Int)) : R) := by
  rw [tactL_kronecker, kroneckerSym_replicate, sgn_replicate, mul_one]

theorem kroneckerDelta_pf_even (g : SP d) {k : Nat} (hk : Even k) (dims : Fin d → Nat) :
    (pf g 1 (kroneckerDelta (R := R) dims k)).SEq (kroneckerDelta (fun i => dims (g.σ i)) k) := by
  refine ⟨rfl, rfl, ?_⟩
  intro y _ n
  simp only [pf, kroneckerDelta, kroneckerSym_map]
  by_cases h : ∃ i, n = List.replicate k i
  · obtain ⟨i, rfl⟩ := h
    have hs : g.sgn (List.replicate k i) = 1 := by
      rw [sgn_replicate]
      rcases g.hs i with a | a
      · rw [a, one_pow]
      · rw [a, hk.neg_one_pow]
    rw [hs]; simp
  · have h0 : kroneckerSym d k n = 0 := by rw [kroneckerSym_eq, if_neg h]
    rw [h0]; simp

/-- **for even `k` the Kronecker-delta image is fixed by every signed permutation** (as a parity-0
image, which is how `get_kronecker_delta_image` declares it), on every extent vector -/
theorem kroneckerDelta_invariant_even (M : Mat d) (hM : isSignedPerm M = true) {k : Nat}
    (hk : Even k) (dims : Fin d → Nat) :
    (tge M 0 (kroneckerDelta (R := R) dims k)).SEq (kroneckerDelta (rotDims M dims) k) := by
  obtain ⟨g, rfl⟩ := exists_SP_of_isSignedPerm M hM
  have h := (tge_seq_pf g 0 (kroneckerDelta (R := R) dims k)).trans
    (by rw [pow_zero]; exact kroneckerDelta_pf_even g hk dims)
  rw [rotDims_mat']; exact h

/-- the image `get_kronecker_delta_image(N, D, k)` itself (square, parity 0, all-torus): for even `k`
`times_group_element(g)` returns an equal image -/
theorem kroneckerDeltaG_invariant_even (M : Mat d) (hM : isSignedPerm M = true) {k : Nat}
    (hk : Even k) (N : Nat) :
    ((kroneckerDeltaG (R := R) N k).act M).img.SEq (kroneckerDeltaG (R := R) (d := d) N k).img ∧
      ((kroneckerDeltaG (R := R) N k).act M).p = (kroneckerDeltaG (R := R) (d := d) N k).p ∧
      ((kroneckerDeltaG (R := R) N k).act M).torus = (kroneckerDeltaG (R := R) (d := d) N k).torus := by
  refine ⟨?_, rfl, ?_⟩
  · have h := kroneckerDelta_invariant_even (R := R) M hM hk (fun _ => N)
    obtain ⟨g, rfl⟩ := exists_SP_of_isSignedPerm M hM
    rw [rotDims_mat'] at h
    exact h
  · obtain ⟨g, rfl⟩ := exists_SP_of_isSignedPerm M hM
    funext j
    exact transport_mat g _ j

/-- **for odd `k` it is not invariant** (the code's TODO "the KroneckerDelta should only be a
2-tensor"): `k = 3`, `d = 2`, the reflection of the second axis, entry `[1,1,1]` becomes `-1`. -/
theorem kroneckerDelta_odd_not_invariant :
    ∃ M : Mat 2, isSignedPerm M = true ∧
      ¬ (tge M 0 (kroneckerDelta (R := Int) (fun _ => 1) 3)).SEq
          (kroneckerDelta (rotDims M (fun _ => 1)) 3) := by
  refine ⟨reflY.mat, by decide, fun h => ?_⟩
  have hbox : InBox (tge reflY.mat 0 (kroneckerDelta (R := Int) (fun _ => 1) 3)).dims (fun _ => 0) := by
    intro i; fin_cases i <;> decide
  have := h.2.2 (fun _ => 0) hbox [1, 1, 1]
  revert this
  decide

/-! ### activation functions -/

theorem activationI_congr (f : R → R) {A A' : Img R d} (hA : A.SEq A') :
    (activationI f A).SEq (activationI f A') :=
  ⟨hA.1, hA.2.1, fun y hy n => by
    cases n with
    | nil => simp only [activationI, hA.2.2 y hy []]
    | cons a n => rfl⟩

/-- a pixel-wise function commutes with permute-and-flip times the scalar `c` as soon as it commutes
with the multiplication by `c` -/
theorem activation_pf (g : SP d) (c : Int) (f : R → R) (hf : ∀ x, f ((c : R) * x) = (c : R) * f x)
    (A : Img R d) : (activationI f (pf g c A)).SEq (pf g c (activationI f A)) := by
  refine ⟨rfl, rfl, ?_⟩
  intro y _ n
  cases n with
  | nil =>
    show f (((c : Int) : R) * (((g.sgn [] : Int) : R) * A.val _ ([].map g.σ)))
      = ((c : Int) : R) * (((g.sgn [] : Int) : R) * f (A.val _ []))
    simp only [SP.sgn_nil, Int.cast_one, one_mul, List.map_nil]
    exact hf _
  | cons a n => simp [activationI, pf]

theorem activation_tge (g : SP d) (p : Nat) (f : R → R)
    (hf : ∀ x, f ((((det g.mat) ^ p : Int) : R) * x) = (((det g.mat) ^ p : Int) : R) * f x)
    (A : Img R d) : (activationI f (tge g.mat p A)).SEq (tge g.mat p (activationI f A)) :=
  (activationI_congr f (tge_seq_pf g p A)).trans
    ((activation_pf g _ f hf A).trans (tge_seq_pf g p (activationI f A)).symm)

/-- **scalar images (`parity = 0`): every pixel-wise function `f` is equivariant**, for all of
`B_d` — no hypothesis on `f` at all -/
theorem activation_scalar_equivariant (M : Mat d) (hM : isSignedPerm M = true) (f : R → R)
    (A : Img R d) : (activationI f (tge M 0 A)).SEq (tge M 0 (activationI f A)) := by
  obtain ⟨g, rfl⟩ := exists_SP_of_isSignedPerm M hM
  exact activation_tge g 0 f (fun x => by simp) A

/-- **pseudo-scalar images (`parity = 1`) need an odd `f`** -/
theorem activation_pseudoscalar_equivariant_of_odd (M : Mat d) (hM : isSignedPerm M = true)
    (f : R → R) (hodd : ∀ x, f (-x) = -f x) (A : Img R d) :
    (activationI f (tge M 1 A)).SEq (tge M 1 (activationI f A)) := by
  obtain ⟨g, rfl⟩ := exists_SP_of_isSignedPerm M hM
  refine activation_tge g 1 f (fun x => ?_) A
  have hdet : det g.mat = 1 ∨ det g.mat = -1 := by
    have := SP.det_mul_self g
    exact Int.eq_one_or_neg_one_of_mul_eq_one this
  rcases hdet with h | h
  · rw [h]; simp
  · rw [h]; simp [hodd]

/-- the method `activation_function` with its assertion and bookkeeping: for an order-0 image of
parity 0 (any `f`) or parity 1 (odd `f`), applying `f` to the transformed image gives the
transformed result: same declared parity, flags transported -/
theorem activationG_act (M : Mat d) (hM : isSignedPerm M = true) (f : R → R) (G : GImg R d)
    (hk : G.img.k = 0) (hp : G.p = 0 ∨ (G.p = 1 ∧ ∀ x, f (-x) = -f x)) :
    ∃ X Y : GImg R d, (G.act M).activation f = some X ∧ G.activation f = some Y ∧
      X.img.SEq (Y.act M).img ∧ X.p = (Y.act M).p ∧ X.torus = (Y.act M).torus := by
  refine ⟨GImg.mk' (activationI f (G.act M).img) (G.act M).p (G.act M).torus,
    GImg.mk' (activationI f G.img) G.p G.torus, ?_, ?_, ?_, rfl, rfl⟩
  · have : (G.act M).img.k = 0 := hk
    simp only [GImg.activation, this, if_true]
  · simp only [GImg.activation, hk, if_true]
  · show (activationI f (tge M G.p G.img)).SEq (tge M (G.p % 2) (activationI f G.img))
    rcases hp with h | ⟨h, hodd⟩
    · rw [h]; exact activation_scalar_equivariant M hM f G.img
    · rw [h]; exact activation_pseudoscalar_equivariant_of_odd M hM f hodd G.img

/-- `activation_function` refuses tensor images -/
theorem activationG_none (f : R → R) (G : GImg R d) (hk : G.img.k ≠ 0) : G.activation f = none := by
  simp only [GImg.activation, hk, if_false]

/-- the constant pseudo-scalar image `1` on a single pixel -/
def onePS : Img Int 2 := ⟨fun _ => 1, 0, fun _ _ => 1⟩

/-- **a non-odd `f` on a pseudo-scalar image is not equivariant**: relu (`max(x, 0)`), the
reflection of the second axis: `relu(g·A) = relu(−1) = 0` but `g·relu(A) = −1`.  (The code accepts
this call: `activation_function` asserts `k == 0` only.) -/
theorem activation_pseudoscalar_not_equivariant_relu :
    ∃ M : Mat 2, isSignedPerm M = true ∧
      ¬ (activationI (fun x : Int => if 0 ≤ x then x else 0) (tge M 1 onePS)).SEq
          (tge M 1 (activationI (fun x : Int => if 0 ≤ x then x else 0) onePS)) := by
  refine ⟨reflY.mat, by decide, fun h => ?_⟩
  have hbox : InBox (activationI (fun x : Int => if 0 ≤ x then x else 0)
      (tge reflY.mat 1 onePS)).dims (fun _ => 0) := by
    intro i; fin_cases i <;> decide
  have := h.2.2 (fun _ => 0) hbox []
  revert this
  decide

/-! ### equality -/

omit [CommRing R] in
theorem GImg.Eqv.refl (G : GImg R d) : G.Eqv G := ⟨Img.Equiv.refl _, rfl, rfl⟩

theorem pf_equiv (g : SP d) (c : Int) {A B : Img R d} (h : A.Equiv B) :
    (pf g c A).Equiv (pf g c B) := by
  refine ⟨by simp only [pf, h.1], h.2.1, ?_⟩
  intro y hy n hn
  simp only [pf]
  have hy' : InBox A.dims (g.srcPix (fun i => A.dims (g.σ i)) y) := srcPix_inBox g A.dims y hy
  rw [h.2.2 _ hy' (n.map g.σ) (by rw [List.length_map]; exact hn), h.1]

theorem tge_equiv (M : Mat d) (hM : isSignedPerm M = true) (p : Nat) {A B : Img R d}
    (h : A.Equiv B) : (tge M p A).Equiv (tge M p B) := by
  obtain ⟨g, rfl⟩ := exists_SP_of_isSignedPerm M hM
  exact ((tge_seq_pf g p A).equiv.trans (pf_equiv g _ h)).trans (tge_seq_pf g p B).equiv.symm

/-- **equality is preserved by the action**: `A == B → g·A == g·B` (exact-arithmetic core of
`__eq__`) -/
theorem imgEq_act (M : Mat d) (hM : isSignedPerm M = true) (G H : GImg R d) (h : G.Eqv H) :
    (G.act M).Eqv (H.act M) := by
  obtain ⟨h1, h2, h3⟩ := h
  refine ⟨?_, h2, ?_⟩
  · show (tge M G.p G.img).Equiv (tge M H.p H.img)
    rw [h2]; exact tge_equiv M hM H.p h1
  · show transport M G.torus = transport M H.torus
    rw [h3]

/-! ### the executable equality decides the spec -/

omit [CommRing R] in
theorem forallIdx_iff (k : Nat) (f : List (Fin d) → Bool) :
    forallIdx d k f = true ↔ ∀ n : List (Fin d), n.length = k → f n = true := by
  induction k generalizing f with
  | zero =>
    constructor
    · intro h n hn
      have : n = [] := List.length_eq_zero_iff.mp hn
      subst this; exact h
    · intro h; exact h [] rfl
  | succ k ih =>
    simp only [forallIdx, List.all_eq_true, List.mem_finRange, true_implies, ih]
    constructor
    · intro h n hn
      cases n with
      | nil => simp at hn
      | cons a n => exact h a n (by simpa using hn)
    · intro h a n hn
      exact h (a :: n) (by simp [hn])

theorem forallBoxL_iff (ms : List Nat) (f : List Int → Bool) :
    forallBoxL ms f = true ↔
      ∀ a : List Int, List.Forall₂ (fun (x : Int) (m : Nat) => 0 ≤ x ∧ x < (m : Int)) a ms → f a = true := by
  induction ms generalizing f with
  | nil =>
    constructor
    · intro h a ha
      rw [List.forall₂_nil_right_iff] at ha
      subst ha; exact h
    · intro h; exact h [] List.Forall₂.nil
  | cons m ms ih =>
    simp only [forallBoxL, List.all_eq_true, List.mem_finRange, true_implies, ih]
    constructor
    · intro h a ha
      rw [List.forall₂_cons_right_iff] at ha
      obtain ⟨x, t, ⟨hx0, hxm⟩, ht, rfl⟩ := ha
      have := h ⟨x.toNat, by omega⟩ t ht
      simpa [Int.toNat_of_nonneg hx0] using this
    · intro h i t ht
      exact h _ (List.Forall₂.cons ⟨by omega, by have := i.isLt; omega⟩ ht)

omit [CommRing R] in
theorem dataEqB_iff [DecidableEq R] (A B : Img R d) :
    dataEqB A B = true ↔
      ∀ y, InBox A.dims y → ∀ n : List (Fin d), n.length = A.k → A.val y n = B.val y n := by
  simp only [dataEqB, forallBoxL_iff, forallIdx_iff, decide_eq_true_eq]
  constructor
  · intro h y hy n hn
    have hpix : (fun i : Fin d => ((List.finRange d).map y).getD i.val 0) = y := by
      funext i
      simp [List.getD_eq_getElem?_getD]
    have := h ((List.finRange d).map y) (by
      rw [List.forall₂_map_left_iff, List.forall₂_map_right_iff, List.forall₂_same]
      intro i _; exact hy i) n hn
    rwa [hpix] at this
  · intro h a ha n hn
    refine h _ ?_ n hn
    rw [List.forall₂_iff_get] at ha
    obtain ⟨hl, hg⟩ := ha
    simp only [List.length_map, List.length_finRange] at hl
    intro i
    have := hg i.val (by omega) (by simp)
    simp only [List.get_eq_getElem, List.getElem_map, List.getElem_finRange] at this
    have hgd : a.getD i.val 0 = a[i.val]'(by omega) := by
      simp [List.getD_eq_getElem?_getD, List.getElem?_eq_getElem (show i.val < a.length by omega)]
    show 0 ≤ a.getD i.val 0 ∧ a.getD i.val 0 < (A.dims i : Int)
    rw [hgd]
    simpa using this

omit [CommRing R] in
/-- **the executable `__eq__` of the model decides its spec** -/
theorem eqB_iff [DecidableEq R] (G H : GImg R d) : GImg.eqB G H = true ↔ G.Eqv H := by
  simp only [GImg.eqB, Bool.and_eq_true, fnEq_iff, beq_iff_eq, dataEqB_iff, GImg.Eqv, Img.Equiv]
  tauto

/-! ### constants as leaves of expressions -/

/-- environment in which the leaves marked `const` are left as they are and the others are
transformed -/
def mixEnv (M : Mat d) (const : Nat → Bool) (env : Nat → GImg R d) : Nat → GImg R d :=
  fun i => if const i then env i else (env i).act M

/-- **well-typed expressions with invariant constant leaves**: if the leaves marked `const` are
fixed by `M` (e.g. `get_kronecker_delta_image` for even `k`, a `fill` with an invariant tensor on a
square, `zeros` on a square), the conclusion of `eval_equivariant_gen` holds when only the other
leaves are transformed. -/
theorem eval_equivariant_with_constants (M : Mat d) (hM : isSignedPerm M = true)
    (tab : Img R d → Img R d) (htab : ∀ A, (tab A).SEq A) (sqrtF : R → R)
    (convF : (Fin d → Bool) → Img R d → Img R d → Img R d) (hConv : ConvHyp convF)
    (env : Nat → GImg R d) (const : Nat → Bool)
    (hconst : ∀ i, const i = true →
      ((env i).act M).img.SEq (env i).img ∧ ((env i).act M).torus = (env i).torus)
    (e : Expr R) (t : Ty d) (ht : tyOf (fun i => (env i).ty) e = some t) :
    (eval tab sqrtF convF env e).ty = t ∧
    (eval tab sqrtF convF (mixEnv M const env) e).img.SEq
      (tge M t.p (eval tab sqrtF convF env e).img) ∧
    (eval tab sqrtF convF (mixEnv M const env) e).p = t.p ∧
    (eval tab sqrtF convF (mixEnv M const env) e).torus = transport M t.torus := by
  obtain ⟨g, rfl⟩ := exists_SP_of_isSignedPerm M hM
  have henv : EnvAct g env (mixEnv g.mat const env) := by
    intro i
    by_cases hc : const i = true
    · obtain ⟨h1, h2⟩ := hconst i hc
      have hm : mixEnv g.mat const env i = env i := by simp only [mixEnv, hc, if_true]
      rw [hm]
      refine ⟨h1.symm.trans (tge_seq_pf g _ _), rfl, ?_⟩
      funext j
      exact (congrFun h2 j).symm.trans (transport_mat g _ j)
    · simp only [mixEnv, hc]
      exact envAct_tge g env i
  have h := eval_good g tab htab sqrtF convF env (mixEnv g.mat const env) henv e t
    (fun _ => LCSign_general g) (fun _ => hConv) ht
  refine ⟨?_, h.seq.trans (tge_seq_pf g _ _).symm, h.p', ?_⟩
  · cases t
    simp only [GImg.ty, Ty.mk.injEq]
    exact ⟨h.dims, h.k, h.p, h.torus⟩
  · rw [h.torus']
    funext j
    exact (transport_mat g _ j).symm

/-! ### normalize -/

/-- `normalize` is `times_scalar` with a factor computed from a statistic of the image; it is
equivariant as soon as the statistic (the largest pixel norm) is invariant -/
theorem normalize_act_of_invariant (g : SP d) (c : Int) (maxN : Img R d → R) (scaleOf : R → R)
    (A : Img R d) (hmax : maxN (pf g c A) = maxN A) :
    (normalizeI maxN scaleOf (pf g c A)).SEq (pf g c (normalizeI maxN scaleOf A)) := by
  unfold normalizeI
  rw [hmax]
  exact smul_act g c _ A

/-- the pixel norms of `g·A` are the pixel norms of `A`, re-arranged by the bijection of the boxes:
every statistic of the *set* of pixel norms (such as the maximum `normalize` uses) is invariant -/
theorem pixelNorms_invariant (g : SP d) (c : Int) (hc : c * c = 1) (A : Img R d) :
    (fun y => normSq (pf g c A) y) '' {y | InBox (pf g c A).dims y}
      = (fun z => normSq A z) '' {z | InBox A.dims z} := by
  have hb := srcPix_bijOn g A.dims
  rw [← hb.image_eq, Set.image_image]
  apply Set.image_congr
  intro y _
  exact normSq_pf g c hc A y

/-! ### non-vacuity and examples -/

section Examples

example : Even 2 ∧ Even 4 := by decide
example : kroneckerSym 3 2 [1, 1] = 1 ∧ kroneckerSym 3 2 [1, 2] = 0 ∧ kroneckerSym 3 4 [2, 2, 2, 2] = 1
    ∧ kroneckerSym 3 4 [2, 2, 2] = 0 ∧ kroneckerSym 2 3 [0, 0, 0] = 1 := by decide
/-- under the reflection the odd delta's entry flips, the even one's does not -/
example : (tge reflY.mat 0 (kroneckerDelta (R := Int) (fun _ => 1) 3)).val (fun _ => 0) [1, 1, 1] = -1 := by
  decide
example : (tge reflY.mat 0 (kroneckerDelta (R := Int) (fun _ => 1) 2)).val (fun _ => 0) [1, 1] = 1 := by
  decide
/-- the hypotheses of `activationG_act` are satisfiable: parity 1 with the odd function `x ↦ −x` -/
example : ∃ G : GImg Int 2, G.img.k = 0 ∧ (G.p = 0 ∨ (G.p = 1 ∧ ∀ x : Int, (fun x => -x) (-x) = -(fun x => -x) x)) :=
  ⟨GImg.mk' onePS 1 (fun _ => true), rfl, Or.inr ⟨rfl, fun _ => rfl⟩⟩
/-- a fill with a vector under the reflection: the second component flips -/
example : (tge reflY.mat 0 (fillImg (R := Int) (fun i => if i = 0 then 2 else 3) 1
    (fun n => if n = [1] then 5 else 7))).val (fun _ => 0) [1] = -5 := by decide
/-- `hconst` of `eval_equivariant_with_constants` is satisfied by the even Kronecker delta image -/
example (M : Mat 2) (hM : isSignedPerm M = true) :
    ((kroneckerDeltaG (R := Int) 3 2).act M).img.SEq (kroneckerDeltaG (R := Int) (d := 2) 3 2).img ∧
    ((kroneckerDeltaG (R := Int) 3 2).act M).torus = (kroneckerDeltaG (R := Int) (d := 2) 3 2).torus :=
  ⟨(kroneckerDeltaG_invariant_even M hM (by decide) 3).1,
   (kroneckerDeltaG_invariant_even M hM (by decide) 3).2.2⟩
/-- the executable equality on concrete images: equal to itself, different once the parity differs -/
example : GImg.eqB (GImg.mk' onePS 1 (fun _ => true)) (GImg.mk' onePS 1 (fun _ => true)) = true ∧
    GImg.eqB (GImg.mk' onePS 1 (fun _ => true)) (GImg.mk' onePS 0 (fun _ => true)) = false := by decide
example : tensorName 0 1 = "pseudoscalar" ∧ tensorName 1 0 = "vector" ∧
    tensorName 2 0 = "$2_{(+)}-$tensor" ∧ tensorName 3 1 = "$3_{(-)}-$tensor" := by decide

end Examples

end GinjaxVerif.C05
