import GinjaxVerif.Model.C03
import GinjaxVerif.Lemmas.C03Monomial

namespace GinjaxVerif.C03
end GinjaxVerif.C03
