import GinjaxVerif.Model.C03
import GinjaxVerif.Lemmas.C03Monomial
import GinjaxVerif.Lemmas.C03Concrete
import GinjaxVerif.Lemmas.C03Enum
import GinjaxVerif.Lemmas.C03Lists
import GinjaxVerif.Lemmas.C03Character
import GinjaxVerif.Lemmas.C03Literal
import GinjaxVerif.Lemmas.C03Link
import Mathlib.GroupTheory.OrderOfElement
import Mathlib.Algebra.CharZero.Defs
import Mathlib.Data.Int.Cast.Lemmas

/-!
# C03 — property theorems

The abstract statements (any field, any finite group, any monomial representation) are in
`Lemmas/C03Monomial.lean`:
`avg_invariant`, `invariant_mem_span_avg`, `avg_same_orbit`, `avg_support`,
`linearIndependent_of_disjoint_support`, `rescale_span`, `rescale_linearIndependent`,
`family_linearIndependent`, `family_span_eq_invariants`, `family_card_eq_finrank`,
`family_card_formula`, `exists_seeds_of_list`.

Here they are instantiated to the executable model `uniqueInvariantFilters` of
`get_unique_invariant_filters`, for **every** dimension `d`, side `M`, order `k`, parity `p` and every
operator list that enumerates a group of signed permutation matrices.

The last sentence of the property ("every translation- and G-equivariant linear map … is reachable
by weighting this family, and nothing non-equivariant is") is in `Properties/C03Converse.lean`
(`conv_equivariant_iff_filter_invariant`, `conv_equivariant_iff_mem_span_family`) and
`Properties/C03ConverseLinear.lean` (`shift_equivariant_linear_iff_conv`).
-/

namespace GinjaxVerif.C03
open scoped BigOperators

variable {d M k : ℕ}

/-! ### operator lists that are groups -/

/-- the operator list lists the elements of the group `H`, each once -/
structure Enumerates (ops : List (SP d)) (H : Subgroup (SP d)) : Prop where
  nodup : ops.Nodup
  mem : ∀ g, g ∈ ops ↔ g ∈ H

instance : Fintype (SP d) :=
  Fintype.ofEquiv (Equiv.Perm (Fin d) × (Fin d → ℤˣ))
    ⟨fun x => ⟨x.1, x.2⟩, fun g => (g.σ, g.s), fun _ => rfl, fun _ => rfl⟩

/-- a non-empty list of signed permutations closed under the matrix product is (the carrier of) a
group: this is the hypothesis "the operator list must be a group" in checkable form -/
theorem exists_subgroup_of_closed (ops : List (SP d)) (hne : ops ≠ [])
    (hcl : ∀ g ∈ ops, ∀ h ∈ ops, g * h ∈ ops) :
    ∃ H : Subgroup (SP d), ∀ g, g ∈ ops ↔ g ∈ H := by
  have pow_mem : ∀ a ∈ ops, ∀ n : ℕ, a ^ (n + 1) ∈ ops := by
    intro a ha n
    induction n with
    | zero => simpa using ha
    | succ n ih => rw [pow_succ]; exact hcl _ ih _ ha
  have one_mem : (1 : SP d) ∈ ops := by
    obtain ⟨a, ha⟩ := List.exists_mem_of_ne_nil ops hne
    have := pow_mem a ha (orderOf a - 1)
    rwa [Nat.sub_add_cancel (orderOf_pos a), pow_orderOf_eq_one] at this
  refine ⟨{ carrier := {g | g ∈ ops}
            mul_mem' := fun ha hb => hcl _ ha _ hb
            one_mem' := one_mem
            inv_mem' := ?_ }, fun g => Iff.rfl⟩
  intro a ha
  have hinv : a⁻¹ = a ^ (orderOf a - 1) := by
    apply inv_eq_of_mul_eq_one_left
    rw [← pow_succ, Nat.sub_add_cancel (orderOf_pos a), pow_orderOf_eq_one]
  change a⁻¹ ∈ ops
  rw [hinv]
  cases h : orderOf a - 1 with
  | zero => simpa using one_mem
  | succ n => exact pow_mem a ha n

/-- a list sum over the operators is the sum over the group -/
theorem sum_ops {R : Type*} [AddCommMonoid R] (ops : List (SP d)) (H : Subgroup (SP d))
    [Fintype H] (hE : Enumerates ops H) (F : SP d → R) :
    (ops.map F).sum = ∑ h : H, F h := by
  classical
  rw [← List.sum_toFinset F hE.nodup]
  exact Finset.sum_subtype ops.toFinset (fun g => by simp [hE.mem]) F

/-! ### the rows of `filter_matrix` are the group sums of the monomial representation -/

section Rows
variable (K : Type*) [Field K] (p : ℕ) (H : Subgroup (SP d)) [Fintype H]

/-- the cocycle of the filter representation restricted to the group `H` -/
abbrev cocH : Cocycle H (FIdx d M k) K := (filterCocycle K d M k p).restrict K H

variable {K p H}

theorem groupSum_eq_avg (ops : List (SP d)) (hE : Enumerates ops H) (i j : FIdx d M k) :
    ((groupSum (ops.map SP.toCore) p i j : ℤ) : K) = avg (cocH (M := M) (k := k) K p H) i j := by
  unfold groupSum avg
  rw [List.map_map, sum_ops ops H hE, Finset.sum_apply]
  push_cast
  refine Finset.sum_congr rfl fun h _ => ?_
  simp only [Function.comp_apply]
  rw [act_toCore K]
  change _ = (filterCocycle K d M k p).ε (h : SP d) ((h : SP d)⁻¹ • j) *
    (Pi.single i (1 : K) : FIdx d M k → K) ((h : SP d)⁻¹ • j)
  rw [rho_apply]
  congr 1
  rw [basis_eq_single]
  by_cases hij : (h : SP d)⁻¹ • j = i <;> simp [hij]

end Rows

/-! ### flattening and unflattening -/

section Flat
variable (K : Type*) [Field K]

/-- read a flattened row back as a function on the index type -/
def unflat (d M k : ℕ) (r : List ℤ) : FIdx d M k → K :=
  fun j => ((r.getD ((allIdx d M k).idxOf j) 0 : ℤ) : K)

/-- the model's family, read back as filters over `K` -/
def modelFamily (ops : List (SP d)) (M k p : ℕ) : List (FIdx d M k → K) :=
  (uniqueInvariantFilters (ops.map SP.toCore) M k p).map (unflat K d M k)

theorem unflat_map (f : FIdx d M k → ℤ) :
    unflat K d M k ((allIdx d M k).map f) = fun j => (f j : K) := by
  funext j
  unfold unflat
  have h : (allIdx d M k).idxOf j < (allIdx d M k).length := List.idxOf_lt_length_of_mem (mem_allIdx j)
  rw [List.getD_eq_getElem?_getD, List.getElem?_map, List.getElem?_eq_getElem h,
    List.getElem_idxOf h]
  rfl

end Flat

/-! ### the executable model's family is a basis of the invariant filters -/

section Main
variable (K : Type*) [Field K] [CharZero K]

/-- **C03 for the executable model.**  For every `d`, `M`, `k`, `p` and every operator list that
enumerates a group `H` of signed permutations: the rows returned by `uniqueInvariantFilters` (read
back as filters, and rescaled by arbitrary non-zero factors `t` — sign by row sum, max-abs scaling,
`normalize`, `rectify`, `primitive` are such factors; the order of the list is whatever the code
produces) are a family of seeds of the monomial representation: one non-zero group sum per orbit. -/
theorem model_family_seeds (p : ℕ) (ops : List (SP d)) (H : Subgroup (SP d)) [Fintype H]
    (hE : Enumerates ops H)
    (t : Fin (modelFamily K ops M k p).length → K)
    (ht : ∀ n, t n ≠ 0) :
    ∃ S : Seeds (cocH (M := M) (k := k) K p H)
        (Fin (modelFamily K ops M k p).length),
      ∀ n, S.family n = t n • (modelFamily K ops M k p).get n := by
  classical
  unfold modelFamily at t ht ⊢
  set c := cocH (M := M) (k := k) K p H with hc
  -- the integer rows
  let rowZ : FIdx d M k → FIdx d M k → ℤ := fun i j => groupSum (ops.map SP.toCore) p i j
  let R : FIdx d M k → List ℤ := fun i => (allIdx d M k).map (rowZ i)
  have hrow : ∀ i j, ((rowZ i j : ℤ) : K) = avg c i j := fun i j => groupSum_eq_avg ops hE i j
  have hcast : Function.Injective (Int.cast : ℤ → K) := Int.cast_injective
  have hzero : ∀ i, isZeroRow (R i) = true ↔ avg c i = 0 := by
    intro i
    rw [isZeroRow_iff]
    constructor
    · intro h
      funext j
      rw [← hrow, h (rowZ i j) (List.mem_map.mpr ⟨j, mem_allIdx j, rfl⟩)]
      simp
    · intro h v hv
      obtain ⟨j, _, rfl⟩ := List.mem_map.mp hv
      apply hcast
      rw [hrow, h]; simp
  -- the normalised rows
  let N : FIdx d M k → (FIdx d M k → K) := fun i => unflat K d M k (normLead (R i))
  have hNeq : ∀ i, N i = ((sgnLead (R i) : ℤ) : K) • avg c i := by
    intro i
    change unflat K d M k (normLead (R i)) = _
    rw [normLead_eq, List.map_map, unflat_map]
    funext j
    simp only [Function.comp_apply, Pi.smul_apply, smul_eq_mul]
    push_cast
    rw [hrow]
  have hN1 : ∀ i, avg c i ≠ 0 → ∃ s : K, s ≠ 0 ∧ N i = s • avg c i := by
    intro i _
    refine ⟨((sgnLead (R i) : ℤ) : K), ?_, hNeq i⟩
    rcases sgnLead_sq (R i) with h | h <;> rw [h] <;> simp
  have hN2 : ∀ i i', (avg c i = avg c i' ∨ avg c i = -avg c i') → N i = N i' := by
    intro i i' h
    rcases h with h | h
    · have : R i = R i' := by
        refine List.map_congr_left fun j _ => hcast ?_
        rw [hrow, hrow, h]
      change unflat K d M k (normLead (R i)) = unflat K d M k (normLead (R i'))
      rw [this]
    · have : R i = negRow (R i') := by
        unfold negRow
        rw [List.map_map]
        refine List.map_congr_left fun j _ => hcast ?_
        simp only [Function.comp_apply]
        push_cast
        rw [hrow, hrow, h]; rfl
      change unflat K d M k (normLead (R i)) = unflat K d M k (normLead (R i'))
      rw [this, normLead_negRow]
  -- membership in the model's output
  have hout : ∀ r, r ∈ uniqueInvariantFilters (ops.map SP.toCore) M k p ↔
      ∃ i, avg c i ≠ 0 ∧ r = normLead (R i) := by
    intro r
    unfold uniqueInvariantFilters filterMatrix
    rw [mem_uniqueRows, List.mem_map]
    constructor
    · rintro ⟨r', hr', rfl⟩
      rw [List.mem_filter, List.mem_map] at hr'
      obtain ⟨⟨i, _, rfl⟩, hz⟩ := hr'
      refine ⟨i, ?_, rfl⟩
      intro h0
      have := (hzero i).mpr h0
      simp only [Bool.not_eq_true', ] at hz
      change isZeroRow (R i) = false at hz
      rw [this] at hz; cases hz
    · rintro ⟨i, hi, rfl⟩
      refine ⟨R i, ?_, rfl⟩
      rw [List.mem_filter, List.mem_map]
      refine ⟨⟨i, mem_allIdx i, rfl⟩, ?_⟩
      have : isZeroRow (R i) = false := by
        cases hz : isZeroRow (R i) with
        | false => rfl
        | true => exact absurd ((hzero i).mp hz) hi
      change (!isZeroRow (R i)) = true
      rw [this]; rfl
  have hnd : ((uniqueInvariantFilters (ops.map SP.toCore) M k p).map (unflat K d M k)).Nodup := by
    refine List.Nodup.map_on ?_ (uniqueRows_nodup _)
    intro r hr r' hr' heq
    obtain ⟨i, _, rfl⟩ := (hout r).mp hr
    obtain ⟨i', _, rfl⟩ := (hout r').mp hr'
    rw [normLead_eq, normLead_eq, List.map_map, List.map_map] at heq ⊢
    rw [unflat_map, unflat_map] at heq
    refine List.map_congr_left fun j _ => hcast ?_
    exact congrFun heq j
  have hmem : ∀ v, v ∈ (uniqueInvariantFilters (ops.map SP.toCore) M k p).map (unflat K d M k) ↔
      ∃ i, avg c i ≠ 0 ∧ v = N i := by
    intro v
    rw [List.mem_map]
    constructor
    · rintro ⟨r, hr, rfl⟩
      obtain ⟨i, hi, rfl⟩ := (hout r).mp hr
      exact ⟨i, hi, rfl⟩
    · rintro ⟨i, hi, rfl⟩
      exact ⟨normLead (R i), (hout _).mpr ⟨i, hi, rfl⟩, rfl⟩
  exact exists_seeds_of_list c N hN1 hN2 _ hnd hmem t ht

/-- **C03, headline.**  The generated family (the model's rows read back as filters, with any
non-zero rescaling) consists of invariant filters, is linearly independent, spans exactly the
invariant subspace, and its size is the dimension of that subspace, which is the character average
`(1/|G|) Σ_g #fixedpixels(g) · tr(g)^k · det(g)^p` — for every `d`, `M`, `k`, `p` and every operator
list enumerating a group. -/
theorem model_family_basis (p : ℕ) (ops : List (SP d)) (H : Subgroup (SP d)) [Fintype H]
    (hE : Enumerates ops H)
    (t : Fin (modelFamily K ops M k p).length → K)
    (ht : ∀ n, t n ≠ 0) :
    let L := modelFamily K ops M k p
    let fam : Fin L.length → (FIdx d M k → K) := fun n => t n • L.get n
    (∀ n (h : H), rho (cocH (M := M) (k := k) K p H) h (fam n) = fam n) ∧
    LinearIndependent K fam ∧
    Submodule.span K (Set.range fam) = (rho (cocH (M := M) (k := k) K p H)).invariants ∧
    L.length = Module.finrank K (rho (cocH (M := M) (k := k) K p H)).invariants ∧
    ((L.length : ℤ) : K) * (ops.length : K)
      = ((characterSum (ops.map SP.toCore) M k p : ℤ) : K) := by
  intro L fam
  obtain ⟨S, hS⟩ := model_family_seeds K p ops H hE t ht
  have hfam : S.family = fam := funext hS
  have hcard : (Fintype.card H : K) ≠ 0 := by
    have : Fintype.card H ≠ 0 := Fintype.card_ne_zero
    exact_mod_cast this
  have hlen : ops.length = Fintype.card H := by
    classical
    rw [← List.toFinset_card_of_nodup hE.nodup, ← Fintype.card_coe]
    exact Fintype.card_congr (Equiv.subtypeEquivRight fun g => by simp [hE.mem])
  refine ⟨fun n h => ?_, ?_, ?_, ?_, ?_⟩
  · rw [← hfam]; exact S.family_invariant n h
  · rw [← hfam]; exact family_linearIndependent S
  · rw [← hfam]; exact family_span_eq_invariants S hcard
  · have := family_card_eq_finrank S hcard
    simpa using this
  · have h1 := family_card_formula (cocH (M := M) (k := k) K p H) S hcard
    rw [Fintype.card_fin] at h1
    have h2 : ((characterSum (ops.map SP.toCore) M k p : ℤ) : K)
        = ∑ g : H, ∑ i, if g • i = i then (cocH (M := M) (k := k) K p H).ε g i else 0 := by
      unfold characterSum
      rw [List.map_map, sum_ops ops H hE]
      push_cast
      refine Finset.sum_congr rfl fun g _ => ?_
      simp only [Function.comp_apply]
      rw [← sum_fixed_eps (M := M) (k := k) p (g : SP d)]
      push_cast
      refine Finset.sum_congr rfl fun i _ => ?_
      by_cases hfix : (g : SP d) • i = i
      · have hfix' : g • i = i := hfix
        rw [if_pos hfix, if_pos hfix']; rfl
      · have hfix' : ¬ g • i = i := hfix
        rw [if_neg hfix, if_neg hfix']
    rw [h2, hlen]
    push_cast
    rw [h1]
    field_simp

end Main


/-- the size of the model's family times the group order is the character sum
`Σ_g #fixedpixels(g) · tr(g)^k · det(g)^p` (an identity between the integers the driver reports) -/
theorem model_family_card (p : ℕ) (ops : List (SP d)) (H : Subgroup (SP d)) [Fintype H]
    (hE : Enumerates ops H) :
    ((uniqueInvariantFilters (ops.map SP.toCore) M k p).length : ℤ) * (ops.length : ℤ)
      = characterSum (ops.map SP.toCore) M k p := by
  have h := (model_family_basis (M := M) (k := k) ℚ p ops H hE (fun _ => 1) (by simp)).2.2.2.2
  simp only [modelFamily, List.length_map] at h
  exact_mod_cast h

/-- every operator the driver accepts (`SPerm.Valid`) is a signed permutation of the theorems -/
theorem exists_SP_of_valid (g : SPerm d) (hg : g.Valid) : ∃ g' : SP d, g'.toCore = g := by
  obtain ⟨h1, h2, h3⟩ := hg
  refine ⟨⟨⟨g.perm, g.inv, h1, h2⟩, fun a => if g.sgn a = 1 then 1 else -1⟩, ?_⟩
  cases g with
  | mk perm inv sgn =>
    simp only [SP.toCore, SPerm.mk.injEq]
    refine ⟨rfl, rfl, ?_⟩
    funext a
    rcases h3 a with h | h
    · simp only at h; simp [h]
    · simp only at h; simp [h]

/-! ### non-vacuity -/

instance : DecidableEq (SP d) := fun a b =>
  decidable_of_iff (a.σ = b.σ ∧ a.s = b.s) SP.ext_iff.symm

/-- the quarter turn `[[0,-1],[1,0]]` -/
def rot90 : SP 2 := ⟨Equiv.swap 0 1, fun a => if a = 0 then -1 else 1⟩

/-- the hypotheses are satisfiable: the cyclic group of the quarter turn is a closed list, hence
enumerates a subgroup -/
example : ∃ H : Subgroup (SP 2), ∀ g, g ∈ [1, rot90, rot90 * rot90, rot90 * rot90 * rot90] ↔ g ∈ H :=
  exists_subgroup_of_closed _ (by simp) (by decide)

example : Enumerates ([1] : List (SP d)) ⊥ :=
  ⟨by simp, fun g => by simp [Subgroup.mem_bot]⟩

/-! ### link to C02

The monomial action `act` on filters that every theorem above is about is not a separate model of
the group action: it **is** C02's model `tge` of the code's `times_group_element`
(`Model/Action.lean`: gather through `rotatedKey` with `rint` and `%`, einsum `tactL`, Laplace
`det`), evaluated on the filter seen as an image of extents `(M,…,M)` (`imgOfFilter`), at the
pixel `pixOf j.px` and tensor multi-index `tnOf j.tn` of the filter index `j`.  `g` ranges over
C02's signed permutations `GinjaxVerif.SP d`, i.e. (`exists_SP_of_isSignedPerm`,
`tge_imgOfFilter_of_isSignedPerm`) over every matrix accepted by `isSignedPerm`; `ofAction g` is
the same matrix in the sparse form of the C03 model (`ofAction_entry`, `ofAction_det`,
`ofAction_valid`), and `ofAction (toAction g) = g.toCore` for the group `C03.SP d` used above. -/

/-- **C03's action on filters is C02's model of `times_group_element`** — every `d`, `M`, `k`,
parity `p`, signed permutation `g`, filter `A`, index `j`. -/
theorem act_eq_tge (g : GinjaxVerif.SP d) (p : ℕ) (A : FIdx d M k → ℤ) (j : FIdx d M k) :
    act (ofAction g) p A j = (tge g.mat p (imgOfFilter A)).val (pixOf j.px) (tnOf j.tn) :=
  (tge_imgOfFilter g p A j).symm

/-- **the rows of `filter_matrix` are group sums of `times_group_element` images**: entry `j` of
row `i` (`groupSum`, the object of `groupSum_eq_avg` and `model_family_basis`) is the sum over the
operator list of C02's `tge` applied to the basis filter `e_i`, read at `j`. -/
theorem groupSum_eq_sum_tge (ops : List (SP d)) (p : ℕ) (i j : FIdx d M k) :
    groupSum (ops.map SP.toCore) p i j
      = (ops.map fun g =>
          (tge (toAction g).mat p (imgOfFilter (basis i))).val (pixOf j.px) (tnOf j.tn)).sum :=
  groupSum_tge_toCore ops p i j

/-- a `3 × 3` vector filter with pairwise different entries -/
def exFilter : FIdx 2 3 1 → ℤ := fun j => (j.px 0).val + 3 * (j.px 1).val + 9 * (j.tn 0).val

/-- non-vacuity of the link: the quarter turn acting on `exFilter`, computed through C02's `tge`, is
C03's `act` -/
example (j : FIdx 2 3 1) :
    (tge (toAction rot90).mat 1 (imgOfFilter exFilter)).val (pixOf j.px) (tnOf j.tn)
      = act rot90.toCore 1 exFilter j :=
  tge_imgOfFilter_toCore rot90 1 exFilter j

end GinjaxVerif.C03
