import GinjaxVerif.Properties.C19
import Mathlib.Data.Nat.Find

/-!
# C19 — one `TrainLoss` / `ValLoss` object re-used for a second `ml.train` call

`ml.train` executes `stop_condition.best_model = model` before its loop and resets nothing else.
An object that has been through an earlier call enters the loop with a *stale* best loss `b?` and
a *stale* counter `c`.  Everything below is for an ARBITRARY stale state, every patience, every
`min_delta`, every loss stream, over an arbitrary loss type `Q` with a decidable `<` and a `-`.

In words:
* the model handed back is always one of the models `0..e` of THIS call (`reused_returns_own_model`);
* the state after the losses `h` of this call is the fresh-run state of the *seeded* history
  `h` preceded by the stale best (`bestOf`/`trailing`/`argBest` of `h ++ [b]`, model ids shifted by
  the seed), except that the stale counter keeps counting until the first improvement of this call
  (`reused_spec`, `reused_terminates`);
* if no loss of this call beats the stale best by more than `min_delta`, the call hands back its
  own initial model and stops at the first epoch `e ≥ 1` with `c + e > patience`
  (`reused_no_improvement`); from a fresh object it is the ordinary loop (`reused_fresh`);
* without the assignment the loop can hand back a model of the earlier call
  (`keep_can_return_foreign_model`).
-/
namespace GinjaxVerif.C19

section Reuse
variable {Q : Type} [LT Q] [DecidableLT Q] [Sub Q]

/-! ### The returned model belongs to this call. -/

/-- Loop invariant: if the remembered model is one of the models `0..epoch` when the loop is at
`epoch`, the loop stops at some `e ≥ epoch` with a remembered model among `0..e`. -/
theorem pLoop_returns_own (patience : Nat) (delta : Q) (loss : Nat → Q) :
    ∀ (fuel : Nat) (s : PState Q) (epoch : Nat), (∃ j, s.bestModel = some j ∧ j ≤ epoch) →
      ∀ e bm, pLoop patience delta loss fuel s epoch = some (e, bm) →
        epoch ≤ e ∧ ∃ j, bm = some j ∧ j ≤ e := by
  intro fuel
  induction fuel with
  | zero => intro s epoch _ e bm h; simp [pLoop] at h
  | succ f ih =>
    intro s epoch hs e bm h
    have key : ∀ arg, ∃ j, (pStep patience delta s epoch arg).1.bestModel = some j ∧ j ≤ epoch := by
      intro arg
      cases arg with
      | none => exact hs
      | some x =>
        simp only [pStep]
        split
        · exact ⟨epoch, rfl, Nat.le_refl _⟩
        · exact hs
    simp only [pLoop] at h
    generalize (if epoch = 0 then none else some (loss (epoch - 1)) : Option Q) = arg at h
    obtain ⟨j, hj, hle⟩ := key arg
    cases hb : (pStep patience delta s epoch arg).2 with
    | true =>
      rw [hb] at h
      simp only [if_true, Option.some.injEq, Prod.mk.injEq] at h
      obtain ⟨rfl, rfl⟩ := h
      exact ⟨Nat.le_refl _, j, hj, hle⟩
    | false =>
      rw [hb] at h
      simp only [Bool.false_eq_true, if_false] at h
      obtain ⟨h1, h2⟩ := ih _ (epoch + 1) ⟨j, hj, Nat.le_succ_of_le hle⟩ e bm h
      exact ⟨by omega, h2⟩

/-- **reused_returns_own_model.**  Whatever state an earlier call left in the condition object,
the model handed back by this call is model `j` of this call for some `j ≤ e` (`e` = the epoch at
which it stopped; model `j` = the model after `j` epochs of this call) — never one kept from the
earlier call. -/
theorem reused_returns_own_model (patience : Nat) (delta : Q) (loss : Nat → Q) (fuel : Nat)
    (stale : PState Q) (e : Nat) (bm : Option Nat)
    (h : trainLoopReused patience delta loss fuel stale = some (e, bm)) :
    ∃ j, bm = some j ∧ j ≤ e :=
  (pLoop_returns_own patience delta loss fuel _ 0 ⟨0, rfl, Nat.le_refl _⟩ e bm h).2

/-! ### Exact characterisation. -/

/-- The machine state of the re-used object agrees with the spec on the seeded history. -/
structure RelR (delta : Q) (b? : Option Q) (c : Nat) (s : PState Q) (past : List Q) : Prop where
  best : s.best = bestOf delta (past ++ b?.toList)
  since : s.since = staleSince delta b? c past
  model : s.bestModel = some (staleModel delta b? past)

theorem relR_init (delta : Q) (stale : PState Q) :
    RelR delta stale.best stale.since { stale with bestModel := some 0 } [] := by
  cases hb : stale.best with
  | none => exact ⟨by simp [bestOf], by simp [staleSince, argBest], by simp [staleModel, argBest]⟩
  | some b =>
    exact ⟨by simp [bestOf, improves], by simp [staleSince, argBest, bestOf, improves],
      by simp [staleModel, argBest, bestOf, improves]⟩

/-- One call with a loss keeps the relation; its verdict is `staleSince … > patience`. -/
theorem pStep_relR (patience : Nat) (delta : Q) (b? : Option Q) (c : Nat) (s : PState Q)
    (past : List Q) (x : Q) (h : RelR delta b? c s past) :
    RelR delta b? c (pStep patience delta s (past.length + 1) (some x)).1 (x :: past) ∧
      (pStep patience delta s (past.length + 1) (some x)).2
        = decide (staleSince delta b? c (x :: past) > patience) := by
  unfold pStep
  by_cases hi : improves delta x s.best = true
  · have hi' : improves delta x (bestOf delta (past ++ b?.toList)) = true := by
      rw [← h.best]; exact hi
    have hlen : ¬ (past.length + b?.toList.length + 1 ≤ b?.toList.length) := by omega
    simp only [hi, if_true]
    refine ⟨⟨?_, ?_, ?_⟩, ?_⟩
    · simp [bestOf, hi']
    · simp [staleSince, argBest, trailing, hi', hlen]
    · simp only [staleModel, List.cons_append, argBest, hi', if_true, List.length_append,
        Option.some.injEq]
      omega
    · simp [staleSince, argBest, trailing, hi', hlen]
  · have hi' : ¬ improves delta x (bestOf delta (past ++ b?.toList)) = true := by
      rw [← h.best]; exact hi
    have hi'' : improves delta x (bestOf delta (past ++ b?.toList)) = false := by simpa using hi'
    have hs : staleSince delta b? c (x :: past) = staleSince delta b? c past + 1 := by
      simp only [staleSince, List.cons_append, argBest, hi'', Bool.false_eq_true, if_false, trailing,
        List.length_cons]
      by_cases hc : argBest delta (past ++ b?.toList) ≤ b?.toList.length
      · simp only [hc, if_true]; omega
      · simp only [hc, if_false]
    simp only [hi]
    refine ⟨⟨?_, ?_, ?_⟩, ?_⟩
    · simp [bestOf, hi', h.best]
    · simp [hs, h.since]
    · simp [staleModel, argBest, hi', h.model]
    · simp [hs, h.since]

/-- Generalised form of `reused_spec` (any already consumed history `past` of this call). -/
theorem reusedRun_rel (patience : Nat) (delta : Q) (b? : Option Q) (c : Nat) (h : List Q) :
    ∀ (s : PState Q) (past : List Q), RelR delta b? c s past →
      RelR delta b? c (pRun patience delta s (past.length + 1) (h.map some)).1 (h.reverse ++ past) ∧
      (pRun patience delta s (past.length + 1) (h.map some)).2
        = (List.range h.length).map
            (fun i => decide (staleSince delta b? c ((h.take (i + 1)).reverse ++ past) > patience)) := by
  induction h with
  | nil => intro s past hr; exact ⟨by simpa [pRun] using hr, by simp [pRun]⟩
  | cons x xs ih =>
    intro s past hr
    obtain ⟨hr', hv⟩ := pStep_relR patience delta b? c s past x hr
    have := ih (pStep patience delta s (past.length + 1) (some x)).1 (x :: past) hr'
    simp only [List.length_cons] at this
    obtain ⟨h1, h2⟩ := this
    constructor
    · simpa [pRun] using h1
    · simp only [List.map_cons, pRun, List.length_cons, List.range_succ_eq_map, List.map_cons,
        List.map_map]
      rw [h2, hv]
      simp [Function.comp_def]

/-- **reused_spec.**  Drive a used object (stale best `stale.best`, stale counter `stale.since`,
`best_model` reset to this call's model 0) through the losses `h` of this call (chronological;
model ids 1, 2, …).  Afterwards
* its best loss is the fresh-run best of the history seeded with the stale best,
  `bestOf (h.reverse ++ [b])`;
* its counter is `staleSince`: `c + |h|` while the last improvement of the seeded history is the
  seed itself, and the fresh-run `trailing` of the seeded history after that;
* its `best_model` is `staleModel`: this call's model at the epoch of the last improvement of
  the seeded history, model 0 if there was none in this call;
* the `i`-th verdict is `staleSince (first i+1 losses) > patience`. -/
theorem reused_spec (patience : Nat) (delta : Q) (stale : PState Q) (h : List Q) :
    (pRun patience delta { stale with bestModel := some 0 } 1 (h.map some)).1
        = { best := bestOf delta (h.reverse ++ stale.best.toList),
            since := staleSince delta stale.best stale.since h.reverse,
            bestModel := some (staleModel delta stale.best h.reverse) } ∧
      (pRun patience delta { stale with bestModel := some 0 } 1 (h.map some)).2
        = (List.range h.length).map
            (fun i => decide (staleSince delta stale.best stale.since (h.take (i + 1)).reverse
              > patience)) := by
  obtain ⟨hr, hv⟩ := reusedRun_rel patience delta stale.best stale.since h _ [] (relR_init delta stale)
  simp only [List.length_nil, Nat.zero_add, List.append_nil] at hr hv
  refine ⟨?_, hv⟩
  generalize (pRun patience delta { stale with bestModel := some 0 } 1 (h.map some)).1 = s at hr
  cases s
  simpa using ⟨hr.best, hr.since, hr.model⟩

/-- After at least one loss a fresh history has had an improvement (the first loss). -/
theorem argBest_pos (delta : Q) (x : Q) (xs : List Q) : 0 < argBest delta (x :: xs) := by
  induction xs generalizing x with
  | nil => simp [argBest, bestOf, improves]
  | cons y ys ih =>
    unfold argBest
    split
    · omega
    · exact ih y

/-- A fresh state is a stale state like any other: the specs specialise to the fresh ones. -/
theorem staleSince_fresh (delta : Q) (h : List Q) : staleSince delta none 0 h = trailing delta h := by
  cases h with
  | nil => simp [staleSince, argBest, trailing]
  | cons x xs =>
    have := argBest_pos delta x xs
    simp only [staleSince, Option.toList_none, List.append_nil, List.length_nil]
    rw [if_neg (by omega)]

theorem staleModel_fresh (delta : Q) (h : List Q) : staleModel delta none h = argBest delta h := by
  simp [staleModel]

/-- Loop invariant of the re-used loop, in the style of `pLoop_spec`. -/
theorem reusedLoop_spec (patience : Nat) (delta : Q) (loss : Nat → Q) (b? : Option Q) (c : Nat)
    (n : Nat)
    (hstop : staleSince delta b? c (hist loss n) > patience)
    (hfirst : ∀ m, 0 < m → m < n → ¬ staleSince delta b? c (hist loss m) > patience) :
    ∀ (k : Nat) (s : PState Q), k ≤ n → k ≠ 0 → RelR delta b? c s (hist loss (k - 1)) →
      ∀ fuel, n - k < fuel →
      pLoop patience delta loss fuel s k = some (n, some (staleModel delta b? (hist loss n))) := by
  intro k
  induction hk : n - k generalizing k with
  | zero =>
    intro s hkn hk0 hr fuel hf
    have hkn' : k = n := by omega
    subst hkn'
    obtain ⟨f, rfl⟩ : ∃ f, fuel = f + 1 := ⟨fuel - 1, by omega⟩
    obtain ⟨k', rfl⟩ : ∃ k', k = k' + 1 := ⟨k - 1, by omega⟩
    simp only [Nat.add_sub_cancel] at hr
    have := pStep_relR patience delta b? c s (hist loss k') (loss k') hr
    rw [hist_length] at this
    obtain ⟨hr', hv⟩ := this
    simp only [pLoop, Nat.add_one_ne_zero, if_false, Nat.add_sub_cancel]
    have hv' : (pStep patience delta s (k' + 1) (some (loss k'))).2 = true := by
      rw [hv]; simpa [hist] using hstop
    rw [hv']
    simp only [if_true]
    rw [hr'.model]; rfl
  | succ d ih =>
    intro s hkn hk0 hr fuel hf
    obtain ⟨f, rfl⟩ : ∃ f, fuel = f + 1 := ⟨fuel - 1, by omega⟩
    obtain ⟨k', rfl⟩ : ∃ k', k = k' + 1 := ⟨k - 1, by omega⟩
    simp only [Nat.add_sub_cancel] at hr
    have := pStep_relR patience delta b? c s (hist loss k') (loss k') hr
    rw [hist_length] at this
    obtain ⟨hr', hv⟩ := this
    simp only [pLoop, Nat.add_one_ne_zero, if_false, Nat.add_sub_cancel]
    have hv' : (pStep patience delta s (k' + 1) (some (loss k'))).2 = false := by
      rw [hv]
      have := hfirst (k' + 1) (by omega) (by omega)
      simpa [hist] using this
    rw [hv']
    simp only [Bool.false_eq_true, if_false]
    exact ih (k' + 1 + 1) (by omega) _ (by omega) (by omega) (by simpa [hist] using hr') f (by omega)

/-- **reused_terminates.**  For every stale state: if epoch `n ≥ 1` of this call is the first
epoch `≥ 1` at which the counter of the re-used object (`staleSince`, i.e. stale counter plus the
epochs of this call until this call's first improvement on the stale best, the ordinary trailing
count afterwards) exceeds `patience`, the loop stops exactly at epoch `n` and hands back this
call's model `staleModel` (epoch of the last improvement of this call, model 0 if none), provided
it is given enough fuel.  (Epoch 0 never stops, whatever the stale counter: the first call of
`stop` carries no loss.) -/
theorem reused_terminates (patience : Nat) (delta : Q) (loss : Nat → Q) (stale : PState Q) (n : Nat)
    (hn : 0 < n)
    (hstop : staleSince delta stale.best stale.since (hist loss n) > patience)
    (hfirst : ∀ m, 0 < m → m < n →
      ¬ staleSince delta stale.best stale.since (hist loss m) > patience)
    (fuel : Nat) (hf : n + 1 < fuel) :
    trainLoopReused patience delta loss fuel stale
      = some (n, some (staleModel delta stale.best (hist loss n))) := by
  obtain ⟨f, rfl⟩ : ∃ f, fuel = f + 1 := ⟨fuel - 1, by omega⟩
  unfold trainLoopReused
  simp only [pLoop, if_true, pStep, Bool.false_eq_true, if_false, Nat.zero_add]
  exact reusedLoop_spec patience delta loss stale.best stale.since n hstop hfirst 1 _ (by omega)
    (by omega) (by simpa [hist] using relR_init delta stale) f (by omega)

/-- As soon as the counter spec exceeds `patience` at SOME epoch `≥ 1`, the loop started with enough
fuel does stop, at the first such epoch, with one of this call's models. -/
theorem reused_stops (patience : Nat) (delta : Q) (loss : Nat → Q) (stale : PState Q)
    (hex : ∃ n, 0 < n ∧ staleSince delta stale.best stale.since (hist loss n) > patience) :
    ∃ e j, 0 < e ∧ j ≤ e ∧ ∀ fuel, e + 1 < fuel →
      trainLoopReused patience delta loss fuel stale = some (e, some j) := by
  classical
  have hspec := Nat.find_spec hex
  refine ⟨Nat.find hex, staleModel delta stale.best (hist loss (Nat.find hex)), hspec.1, ?_, ?_⟩
  · have := hist_length loss (Nat.find hex)
    have h1 := best_is_loss_of_argBest delta (hist loss (Nat.find hex) ++ stale.best.toList)
    simp only [staleModel]
    rcases h1 with ⟨h0, _⟩ | ⟨_, hle, _⟩
    · omega
    · rw [List.length_append, this] at hle; omega
  · intro fuel hf
    exact reused_terminates patience delta loss stale _ hspec.1 hspec.2
      (fun m hm hlt hgt => Nat.find_min hex hlt ⟨hm, hgt⟩) fuel hf

/-- While no loss of this call improves on the stale best `b`, the seeded history keeps the seed as
its best and as its last improvement. -/
theorem seeded_no_improvement (delta : Q) (loss : Nat → Q) (b : Q) (n : Nat)
    (hno : ∀ i, i < n → improves delta (loss i) (some b) = false) :
    ∀ m, m ≤ n → bestOf delta (hist loss m ++ [b]) = some b ∧ argBest delta (hist loss m ++ [b]) = 1 := by
  intro m
  induction m with
  | zero => intro _; simp [hist, bestOf, argBest, improves]
  | succ m ih =>
    intro hm
    obtain ⟨h1, h2⟩ := ih (by omega)
    have := hno m (by omega)
    simp [hist, bestOf, argBest, h1, h2, this]

/-- **reused_no_improvement** (case (i)).  If no loss of this call (up to the stop epoch) improves
on the stale best `b` by more than `min_delta`, the call hands back ITS OWN initial model (model 0)
and stops at the first epoch `e ≥ 1` with `c + e > patience`, i.e. `e = max 1 (patience + 1 - c)`
for the stale counter `c`. -/
theorem reused_no_improvement (patience : Nat) (delta : Q) (loss : Nat → Q) (stale : PState Q) (b : Q)
    (hb : stale.best = some b)
    (hno : ∀ i, i < max 1 (patience + 1 - stale.since) → improves delta (loss i) (some b) = false)
    (fuel : Nat) (hf : max 1 (patience + 1 - stale.since) + 1 < fuel) :
    trainLoopReused patience delta loss fuel stale
      = some (max 1 (patience + 1 - stale.since), some 0) := by
  have hseed := seeded_no_improvement delta loss b _ hno
  have hs : ∀ m, m ≤ max 1 (patience + 1 - stale.since) →
      staleSince delta stale.best stale.since (hist loss m) = stale.since + m := by
    intro m hm
    simp [staleSince, hb, (hseed m hm).2, hist_length]
  have hm0 : staleModel delta stale.best (hist loss (max 1 (patience + 1 - stale.since))) = 0 := by
    simp [staleModel, hb, (hseed _ (Nat.le_refl _)).2]
  rw [← hm0]
  apply reused_terminates patience delta loss stale _ (by omega) _ _ fuel hf
  · rw [hs _ (Nat.le_refl _)]; omega
  · intro m hm hlt
    rw [hs m (by omega)]; omega

/-- **reused_fresh** (case (ii)).  Handed a fresh object, the re-used loop is the ordinary training
loop. -/
theorem reused_fresh (patience : Nat) (delta : Q) (loss : Nat → Q) (fuel : Nat) (m0 : Option Nat) :
    trainLoopReused patience delta loss fuel (PState.init m0) = trainLoopP patience delta loss fuel :=
  rfl

end Reuse

/-! ### The contrast: the loop without `stop_condition.best_model = model`. -/

/-- **keep_can_return_foreign_model.**  Without the assignment the loop can hand back a model that
is not one of this call's: stale state "best loss 1, counter 2, best model #99" (what a finished
earlier call with patience 1 leaves behind), this call's losses all 5, patience 1, `min_delta` 0:
the un-reset loop stops at epoch 1 with model #99 (and `99 > 1` is no model of this call), the
real loop — with the reset — with this call's model 0. -/
theorem keep_can_return_foreign_model :
    ∃ (stale : PState Int) (loss : Nat → Int), stale.bestModel = some 99 ∧
      pLoopKeep 1 0 loss 10 stale = some (1, some 99) ∧ ¬ (99 ≤ 1) ∧
      trainLoopReused 1 0 loss 10 stale = some (1, some 0) :=
  ⟨⟨some 1, 2, some 99⟩, fun _ => 5, rfl, by decide, by decide, by decide⟩

/-! ### Non-vacuity: concrete numbers. -/

-- stale (best 2, counter 2, model 7), patience 3, this call's losses 4,3,1,1,1,1,1: epochs 1, 2 do
-- not beat 2 (counter 3, 4 … but 4 > 3 would stop at epoch 2): stops at epoch 2 with model 0
example : trainLoopReused (Q := Int) 3 0 (fun n => [4, 3, 1, 1, 1, 1, 1].getD n 1) 12 ⟨some 2, 2, some 7⟩
    = some (2, some 0) := by decide
-- same with patience 4: epoch 3 (loss 1) beats the stale 2, then five more epochs: stops at 8, model 3
example : trainLoopReused (Q := Int) 4 0 (fun n => [4, 3, 1, 1, 1, 1, 1].getD n 1) 12 ⟨some 2, 2, some 7⟩
    = some (8, some 3) := by decide
example : staleSince (0 : Int) (some 2) 2 [1, 1, 1, 1, 1, 1, 3, 4] = 5 ∧
    staleModel (0 : Int) (some 2) [1, 1, 1, 1, 1, 1, 3, 4] = 3 ∧
    staleSince (0 : Int) (some 2) 2 [3, 4] = 4 ∧ staleModel (0 : Int) (some 2) [3, 4] = 0 := by decide
-- the hypotheses of `reused_terminates` are met by the second instance (n = 8)
example : staleSince (0 : Int) (some 2) 2 (hist (fun n => [4, 3, 1, 1, 1, 1, 1].getD n 1) 8) > 4 ∧
    ∀ m, m < 8 → ¬ staleSince (0 : Int) (some 2) 2 (hist (fun n => [4, 3, 1, 1, 1, 1, 1].getD n 1) m) > 4 := by
  decide
-- the hypotheses of `reused_no_improvement` are met: stale best 1, counter 0, patience 2, losses 5
example : trainLoopReused (Q := Int) 2 0 (fun _ => 5) 10 ⟨some 1, 0, some 42⟩ = some (3, some 0) :=
  reused_no_improvement 2 0 (fun _ => 5) ⟨some 1, 0, some 42⟩ 1 rfl (by decide) 10 (by decide)
-- the un-reset loop on the first instance keeps the foreign model 7
example : pLoopKeep (Q := Int) 3 0 (fun n => [4, 3, 1, 1, 1, 1, 1].getD n 1) 12 ⟨some 2, 2, some 7⟩
    = some (2, some 7) := by decide

end GinjaxVerif.C19
