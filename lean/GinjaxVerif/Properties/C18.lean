import GinjaxVerif.Model.C18
import GinjaxVerif.Lemmas.C18
import Mathlib.Algebra.Module.LinearMap.Defs
import Mathlib.Algebra.Module.Pi
import Mathlib.Algebra.Field.Rat
import Mathlib.Algebra.Order.Ring.Rat
import Mathlib.Logic.Equiv.Basic
import Mathlib.Tactic.FinCases

/-!
# C18 — losses compute their definition, pair blocks by type, are symmetry-invariant

Values range over an arbitrary field (`smse_eq_spec`, `timestep_sum_eq_smse`, pairing, invariance)
or an arbitrary linearly ordered field (`loss_nonneg`, `loss_zero_iff_eq`); shapes, batch sizes,
channel counts, step counts, numbers of types and key orders are universally quantified.  The only
hypothesis on an argument is `LossWF`: unique keys and blocks of shape `(L, C_t, spatial…, (D,)*k)`.
-/
namespace GinjaxVerif.C18
open GinjaxVerif.C12
open Finset

section Field
variable {R : Type} [Field R]

/-! ### the losses compute their definition -/

/-- **`smse_eq_spec`**: per batch entry the loss is the squared difference summed over channels,
tensor components and types and averaged over pixels (`smseSpec`), with the target block looked
up by type; `reduce="mean"` averages that over the batch. -/
theorem smse_eq_spec {x y : MI R} {L : Nat} {sp : List Nat} (h : LossWF x L sp)
    (hk : ∀ t ∈ MI.keys x, t ∈ MI.keys y) :
    smsePerBatch x y = some ((List.range L).map (smseSpec x y)) ∧
    smse x y = some (mean ((List.range L).map (smseSpec x y))) := by
  have := smsePerBatch_eq_spec h ((hasAll_iff x y).mpr hk)
  exact ⟨this, by simp [smse, this]⟩

/-- **`timestep_eq_spec`**: entry `(i, s)` is the same quantity restricted to the channels
`c·n_steps + s` of time step `s`. -/
theorem timestep_eq_spec {x y : MI R} {L : Nat} {sp : List Nat} (h : LossWF x L sp)
    (hk : ∀ t ∈ MI.keys x, t ∈ MI.keys y) (steps : Nat) (hs : stepsOk x steps = true) :
    timestepMatrix x y steps
      = some ((List.range L).map (fun i => (List.range steps).map (tsSpec x y steps i))) :=
  timestepMatrix_eq_spec h ((hasAll_iff x y).mpr hk) steps hs

theorem list_range_map_sum (n : Nat) (f : Nat → R) : ((List.range n).map f).sum = ∑ j ∈ range n, f j :=
  sumRange_eq n f

theorem getD_range_map (n : Nat) (f : Nat → R) (s : Nat) (hs : s < n) :
    ((List.range n).map f).getD s 0 = f s := by
  simp [List.getD_eq_getElem?_getD, hs]

/-- **`timestep_sum_eq_smse`**: for every batch entry the per-step losses add up to the total
loss of that entry, and after `reduce="mean"` the per-step means add up to the mean total. -/
theorem timestep_sum_eq_smse {x y : MI R} {L : Nat} {sp : List Nat} (h : LossWF x L sp)
    (hk : ∀ t ∈ MI.keys x, t ∈ MI.keys y) (steps : Nat) (hs : stepsOk x steps = true) :
    ∃ m l, timestepMatrix x y steps = some m ∧ smsePerBatch x y = some l ∧
      (∀ i < L, (m.getD i []).sum = l.getD i 0) ∧ (meanAxis0 m steps).sum = mean l := by
  refine ⟨_, _, timestep_eq_spec h hk steps hs, (smse_eq_spec h hk).1, ?_, ?_⟩
  · intro i hi
    rw [List.getD_eq_getElem?_getD, List.getD_eq_getElem?_getD]
    simp only [List.getElem?_map, List.getElem?_range hi, Option.map_some, Option.getD_some]
    rw [list_range_map_sum]
    exact tsSpec_sum y steps hs i
  · simp only [meanAxis0, mean, List.length_map, List.length_range, List.map_map]
    rw [list_range_map_sum, list_range_map_sum, ← Finset.sum_div]
    congr 1
    have : ∀ s ∈ range steps,
        ((List.range L).map ((fun row : List R => row.getD s 0) ∘
          fun i => (List.range steps).map (tsSpec x y steps i))).sum
        = ∑ i ∈ range L, tsSpec x y steps i s := by
      intro s hs'
      rw [← list_range_map_sum]
      congr 1
      refine List.map_congr_left (fun i _ => ?_)
      simp only [Function.comp]
      exact getD_range_map steps _ s (Finset.mem_range.mp hs')
    rw [Finset.sum_congr rfl this, Finset.sum_comm]
    exact Finset.sum_congr rfl (fun i _ => tsSpec_sum y steps hs i)

/-! ### pairing by type: storage order of either argument is irrelevant -/

omit [Field R] in
theorem partner_perm {y y' : MI R} (hy : y.WF) (py : y.data.Perm y'.data) (t : Key) :
    partner y' t = partner y t := by
  simp only [partner, MI.get?]
  rw [Dict.get?_perm hy.1 py t]

omit [Field R] in
theorem LossWF.perm {x x' : MI R} {L : Nat} {sp : List Nat} (h : LossWF x L sp)
    (px : x.data.Perm x'.data) (hD : x'.D = x.D) : LossWF x' L sp := by
  refine ⟨MI.wf_perm h.wf px, ?_, by rw [hD]; exact h.dim, ?_⟩
  · intro he
    rw [he] at px
    exact h.ne (List.Perm.eq_nil px)
  · intro kv hkv
    rw [hD]
    exact h.shape kv (px.mem_iff.mpr hkv)

theorem smseSpec_perm {x x' y y' : MI R} (hy : y.WF) (px : x.data.Perm x'.data)
    (py : y.data.Perm y'.data) (hD : x'.D = x.D) (i : Nat) :
    smseSpec x' y' i = smseSpec x y i := by
  unfold smseSpec
  rw [hD]
  simp only [partner_perm hy py]
  exact ((px.map _).sum_eq).symm

theorem tsSpec_perm {x x' y y' : MI R} (hy : y.WF) (px : x.data.Perm x'.data)
    (py : y.data.Perm y'.data) (hD : x'.D = x.D) (steps i s : Nat) :
    tsSpec x' y' steps i s = tsSpec x y steps i s := by
  unfold tsSpec
  rw [hD]
  simp only [partner_perm hy py]
  exact ((px.map _).sum_eq).symm

omit [Field R] in
theorem hasAll_perm {x x' y y' : MI R} (px : x.data.Perm x'.data) (py : y.data.Perm y'.data) :
    hasAll x' y' = hasAll x y := by
  rw [Bool.eq_iff_iff, hasAll_iff, hasAll_iff]
  have hx : ∀ t, t ∈ MI.keys x' ↔ t ∈ MI.keys x := fun t => ((px.map _).mem_iff).symm
  have hy : ∀ t, t ∈ MI.keys y' ↔ t ∈ MI.keys y := fun t => ((py.map _).mem_iff).symm
  simp only [hx, hy]

omit [Field R] in
theorem stepsOk_perm {x x' : MI R} (px : x.data.Perm x'.data) (steps : Nat) :
    stepsOk x' steps = stepsOk x steps := by
  rw [Bool.eq_iff_iff, stepsOk_iff, stepsOk_iff]
  simp only [px.mem_iff]

/-- **`loss_pairs_by_key`**: re-ordering the blocks of the prediction and/or of the target in any
way (another insertion order, a jit / pytree round trip) changes neither `smse_loss` (per entry or
mean) nor any entry of `timestep_smse_loss`. -/
theorem loss_pairs_by_key {x x' y y' : MI R} {L : Nat} {sp : List Nat} (h : LossWF x L sp) (hy : y.WF)
    (px : x.data.Perm x'.data) (py : y.data.Perm y'.data) (hD : x'.D = x.D) :
    smsePerBatch x' y' = smsePerBatch x y ∧ smse x' y' = smse x y ∧
      ∀ steps, timestepMatrix x' y' steps = timestepMatrix x y steps := by
  have h' := h.perm px hD
  have hall := hasAll_perm px py
  have e1 : smsePerBatch x' y' = smsePerBatch x y := by
    by_cases hh : hasAll x y = true
    · rw [smsePerBatch_eq_spec h hh, smsePerBatch_eq_spec h' (by rw [hall]; exact hh)]
      have : smseSpec x' y' = smseSpec x y := funext (smseSpec_perm hy px py hD)
      rw [this]
    · have hh' : hasAll x y = false := by simpa using hh
      simp [smsePerBatch, hall, hh']
  refine ⟨e1, by simp [smse, e1], fun steps => ?_⟩
  by_cases hh : hasAll x y = true ∧ stepsOk x steps = true
  · rw [timestepMatrix_eq_spec h hh.1 steps hh.2,
      timestepMatrix_eq_spec h' (by rw [hall]; exact hh.1) steps (by rw [stepsOk_perm px]; exact hh.2)]
    have : tsSpec x' y' steps = tsSpec x y steps := funext (fun i => funext (tsSpec_perm hy px py hD steps i))
    rw [this]
  · have : (hasAll x y && stepsOk x steps) = false := by
      rw [Bool.and_eq_false_iff]
      by_cases h1 : hasAll x y = true
      · right; simpa using fun h2 => hh ⟨h1, h2⟩
      · left; simpa using h1
    simp only [timestepMatrix, hall, stepsOk_perm px, Bool.and_assoc, this, Bool.and_false]
    simp

end Field

/-! ### non-negativity and "zero exactly on equal arguments" (linearly ordered fields) -/
section Ordered
variable {R : Type} [Field R] [LinearOrder R] [IsStrictOrderedRing R]

theorem sq_nonneg' (a b : Block R) (j : Nat) : 0 ≤ sq a b j := mul_self_nonneg _

theorem blockLoss_nonneg (a b : Block R) (S i : Nat) : 0 ≤ blockLoss a b S i := by
  simp only [blockLoss, sumRange_eq]
  exact div_nonneg (Finset.sum_nonneg (fun _ _ => sq_nonneg' ..)) (Nat.cast_nonneg _)

theorem tsBlock_nonneg (a b : Block R) (steps S i s : Nat) : 0 ≤ tsBlock a b steps S i s := by
  simp only [tsBlock, sumRange_eq]
  exact div_nonneg (Finset.sum_nonneg (fun _ _ => Finset.sum_nonneg (fun _ _ => sq_nonneg' ..)))
    (Nat.cast_nonneg _)

theorem normBlock_nonneg (xa yb : Block R) (D S : Nat) (eps : R) (heps : 0 ≤ eps) (i : Nat) :
    0 ≤ normBlock xa yb D S eps i := by
  simp only [normBlock, sumRange_eq]
  refine div_nonneg (Finset.sum_nonneg (fun j _ => div_nonneg (sq_nonneg' ..) ?_)) (Nat.cast_nonneg _)
  exact add_nonneg (Finset.sum_nonneg (fun _ _ => mul_self_nonneg _)) heps

theorem map_sum_nonneg {α : Type} (l : List α) (f : α → R) (h : ∀ a ∈ l, 0 ≤ f a) : 0 ≤ (l.map f).sum := by
  apply List.sum_nonneg
  intro v hv
  obtain ⟨a, ha, rfl⟩ := List.mem_map.mp hv
  exact h a ha

theorem mean_nonneg (l : List R) (h : ∀ v ∈ l, 0 ≤ v) : 0 ≤ mean l :=
  div_nonneg (List.sum_nonneg h) (Nat.cast_nonneg _)

theorem smsePerBatch_nonneg (x y : MI R) (l : List R) (h : smsePerBatch x y = some l) : ∀ v ∈ l, 0 ≤ v := by
  unfold smsePerBatch at h
  split at h
  · simp only [Option.some.injEq] at h
    subst h
    intro v hv
    obtain ⟨i, -, rfl⟩ := List.mem_map.mp hv
    exact map_sum_nonneg _ _ (fun kv _ => blockLoss_nonneg ..)
  · simp at h

theorem timestepMatrix_nonneg (x y : MI R) (steps : Nat) (m : List (List R))
    (h : timestepMatrix x y steps = some m) : ∀ row ∈ m, ∀ v ∈ row, 0 ≤ v := by
  unfold timestepMatrix at h
  split at h
  · simp only [Option.some.injEq] at h
    subst h
    intro row hrow v hv
    obtain ⟨i, -, rfl⟩ := List.mem_map.mp hrow
    obtain ⟨s, -, rfl⟩ := List.mem_map.mp hv
    exact map_sum_nonneg _ _ (fun kv _ => tsBlock_nonneg ..)
  · simp at h

omit [IsStrictOrderedRing R] in
theorem getD_nonneg (row : List R) (h : ∀ v ∈ row, 0 ≤ v) (s : Nat) : 0 ≤ row.getD s 0 := by
  rw [List.getD_eq_getElem?_getD]
  cases hs : row[s]? with
  | none => simp
  | some v => simpa using h v (List.mem_of_getElem? hs)

/-- **`loss_nonneg`**: every entry of every loss, under every reduce mode, is `≥ 0`
(no hypothesis on the arguments at all). -/
theorem loss_nonneg (x y : MI R) :
    (∀ l, smsePerBatch x y = some l → ∀ v ∈ l, 0 ≤ v) ∧
    (∀ v, smse x y = some v → 0 ≤ v) ∧
    (∀ steps red l, timestepSmse x y steps red = some l → ∀ v ∈ l, 0 ≤ v) ∧
    (∀ eps v, 0 ≤ eps → normalizedSmse x y eps = some v → 0 ≤ v) := by
  refine ⟨smsePerBatch_nonneg x y, ?_, ?_, ?_⟩
  · intro v hv
    simp only [smse, Option.map_eq_some_iff] at hv
    obtain ⟨l, hl, rfl⟩ := hv
    exact mean_nonneg l (smsePerBatch_nonneg x y l hl)
  · intro steps red l hl
    simp only [timestepSmse, Option.map_eq_some_iff] at hl
    obtain ⟨m, hm, rfl⟩ := hl
    have hm' := timestepMatrix_nonneg x y steps m hm
    cases red with
    | mean =>
      intro v hv
      simp only [meanAxis0] at hv
      obtain ⟨s, -, rfl⟩ := List.mem_map.mp hv
      exact div_nonneg (map_sum_nonneg _ _ (fun row hrow => getD_nonneg row (hm' row hrow) s)) (Nat.cast_nonneg _)
    | max =>
      intro v hv
      simp only at hv
      rw [List.getD_eq_getElem?_getD] at hv
      cases hr : m[argmaxFirst (m.map List.sum)]? with
      | none => simp [hr] at hv
      | some row => rw [hr] at hv; exact hm' row (List.mem_of_getElem? hr) v (by simpa using hv)
    | none =>
      intro v hv
      simp only [List.mem_flatten] at hv
      obtain ⟨row, hrow, hv⟩ := hv
      exact hm' row hrow v hv
  · intro eps v heps hv
    unfold normalizedSmse at hv
    split at hv
    · simp only [Option.some.injEq] at hv
      subst hv
      apply mean_nonneg
      intro v hv
      obtain ⟨i, -, rfl⟩ := List.mem_map.mp hv
      exact map_sum_nonneg _ _ (fun kv _ => normBlock_nonneg _ _ _ _ _ heps _)
    · simp at hv

theorem map_sum_eq_zero_iff {α : Type} (l : List α) (f : α → R) (h : ∀ a ∈ l, 0 ≤ f a) :
    (l.map f).sum = 0 ↔ ∀ a ∈ l, f a = 0 := by
  induction l with
  | nil => simp
  | cons a l ih =>
    have h1 : 0 ≤ f a := h a (List.mem_cons_self ..)
    have h2 : ∀ b ∈ l, 0 ≤ f b := fun b hb => h b (List.mem_cons_of_mem _ hb)
    have h3 : 0 ≤ (l.map f).sum := map_sum_nonneg l f h2
    simp only [List.map_cons, List.sum_cons, List.mem_cons, forall_eq_or_imp]
    rw [add_eq_zero_iff_of_nonneg h1 h3, ih h2]

theorem mean_eq_zero_iff (l : List R) (h : ∀ v ∈ l, 0 ≤ v) : mean l = 0 ↔ ∀ v ∈ l, v = 0 := by
  unfold mean
  cases l with
  | nil => simp
  | cons a l =>
    have hpos : (0 : R) < ((a :: l).length : R) := by
      simp only [List.length_cons, Nat.cast_add, Nat.cast_one]
      positivity
    rw [div_eq_zero_iff]
    have := map_sum_eq_zero_iff (a :: l) id (by simpa using h)
    simp only [List.map_id, id] at this
    constructor
    · rintro (h0 | h0)
      · exact this.mp h0
      · exact absurd h0 (ne_of_gt hpos)
    · intro h0; exact Or.inl (this.mpr h0)

theorem sq_eq_zero_iff (a b : Block R) (j : Nat) : sq a b j = 0 ↔ Block.at a j = Block.at b j := by
  simp only [sq, mul_self_eq_zero, sub_eq_zero]

/-- one block, one batch entry: zero iff the two chunks agree elementwise -/
theorem blockLoss_eq_zero_iff (a b : Block R) (S i : Nat)
    (hS : S = 0 → Block.prod a.shape.tail = 0) :
    blockLoss a b S i = 0 ↔
      ∀ j < Block.prod a.shape.tail,
        Block.at a (i * Block.prod a.shape.tail + j) = Block.at b (i * Block.prod a.shape.tail + j) := by
  simp only [blockLoss, sumRange_eq]
  by_cases h0 : S = 0
  · rw [hS h0]; simp
  · have : (S : R) ≠ 0 := Nat.cast_ne_zero.mpr h0
    rw [div_eq_zero_iff]
    simp only [this, or_false]
    rw [Finset.sum_eq_zero_iff_of_nonneg (fun _ _ => sq_nonneg' ..)]
    simp only [Finset.mem_range, sq_eq_zero_iff]

/-- **`loss_zero_iff_eq`**: the mean loss is zero exactly when, for every type, every stored
entry of the prediction equals the entry of the target block **of the same type**. -/
theorem loss_zero_iff_eq {x y : MI R} {L : Nat} {sp : List Nat} (h : LossWF x L sp)
    (hk : ∀ t ∈ MI.keys x, t ∈ MI.keys y) :
    ∃ v, smse x y = some v ∧
      (v = 0 ↔ ∀ kv ∈ x.data, ∀ J < L * Block.prod kv.2.shape.tail,
        Block.at kv.2 J = Block.at (partner y kv.1) J) := by
  have hy := (hasAll_iff x y).mpr hk
  refine ⟨mean ((List.range (getL x)).map (fun i =>
      (x.data.map (fun kv => blockLoss kv.2 (partner y kv.1) (spatialSize x) i)).sum)),
    by simp [smse, smsePerBatch, h.nLeading_eq, hy], ?_⟩
  rw [mean_eq_zero_iff _ (by
    intro v hv
    obtain ⟨i, -, rfl⟩ := List.mem_map.mp hv
    exact map_sum_nonneg _ _ (fun kv _ => blockLoss_nonneg ..))]
  simp only [List.mem_map, List.mem_range, forall_exists_index, and_imp, forall_apply_eq_imp_iff₂, h.getL_eq]
  have hS : ∀ kv ∈ x.data, spatialSize x = 0 → Block.prod kv.2.shape.tail = 0 := by
    intro kv hkv h0
    rw [(h.block_dims hkv).2.1, ← h.spatialSize_eq, h0]
    simp
  constructor
  · intro hz kv hkv J hJ
    set chunk := Block.prod kv.2.shape.tail with hchunk
    have hc : 0 < chunk := by
      rcases Nat.eq_zero_or_pos chunk with h0 | h0
      · rw [h0] at hJ; simp at hJ
      · exact h0
    have hi : J / chunk < L := Nat.div_lt_of_lt_mul (by rw [Nat.mul_comm]; exact hJ)
    have hz' := (map_sum_eq_zero_iff _ _ (fun kv _ => blockLoss_nonneg ..)).mp (hz (J / chunk) hi) kv hkv
    have := (blockLoss_eq_zero_iff kv.2 (partner y kv.1) _ _ (hS kv hkv)).mp hz' (J % chunk) (Nat.mod_lt _ hc)
    rw [← hchunk, Nat.mul_comm, Nat.div_add_mod] at this
    exact this
  · intro he i hi
    rw [map_sum_eq_zero_iff _ _ (fun kv _ => blockLoss_nonneg ..)]
    intro kv hkv
    rw [blockLoss_eq_zero_iff _ _ _ _ (hS kv hkv)]
    intro j hj
    apply he kv hkv
    calc i * Block.prod kv.2.shape.tail + j < i * Block.prod kv.2.shape.tail + Block.prod kv.2.shape.tail := by omega
      _ = (i + 1) * Block.prod kv.2.shape.tail := by ring
      _ ≤ L * Block.prod kv.2.shape.tail := Nat.mul_le_mul_right _ hi

end Ordered

/-! ### symmetry invariance

The group action itself is modelled elsewhere (C02).  Here the statement is made for *any*
transformation of a block that (1) re-indexes the pixels by a bijection `σ` of the `P` pixel
positions — the same for every batch entry and channel — and (2) applies to the tensor at each
pixel a linear map `ρ` that preserves the squared norm `Σ_m v_m²`.  Every element of `B_d` acts
in exactly this way (pixel permutation + signed permutation of the components, times `det^p = ±1`),
so does any orthogonal transformation.  Rotated (non-square) blocks may have other spatial extents;
only the number of pixels has to agree. -/
section Invariance
variable {R : Type} [Field R]

/-- the tensor stored at batch entry `i`, channel `ch`, pixel `p` -/
def vecAt (a : Block R) (C P n i ch p : Nat) : Fin n → R := fun m => Block.at a (off C P n i ch p m)

def normSq {n : Nat} (v : Fin n → R) : R := ∑ m, v m * v m

/-- `a'` is `a` with pixels re-indexed by `σ` and every pixel tensor mapped by `ρ` -/
def ActsOn {P n : Nat} (σ : Equiv.Perm (Fin P)) (ρ : (Fin n → R) →ₗ[R] (Fin n → R)) (L C : Nat)
    (a a' : Block R) : Prop :=
  ∀ i < L, ∀ ch < C, ∀ p : Fin P, vecAt a' C P n i ch p = ρ (vecAt a C P n i ch (σ p))

/-- prediction block and target block of one type are transformed by the same `(σ, ρ)`, with `ρ`
norm preserving -/
def BlockAct (L C P n : Nat) (a a' b b' : Block R) : Prop :=
  ∃ (σ : Equiv.Perm (Fin P)) (ρ : (Fin n → R) →ₗ[R] (Fin n → R)),
    (∀ v, normSq (ρ v) = normSq v) ∧ ActsOn σ ρ L C a a' ∧ ActsOn σ ρ L C b b'

theorem BlockAct.swap {L C P n : Nat} {a a' b b' : Block R} (h : BlockAct L C P n a a' b b') :
    BlockAct L C P n b b' a a' := by
  obtain ⟨σ, ρ, hρ, ha, hb⟩ := h
  exact ⟨σ, ρ, hρ, hb, ha⟩

theorem pixErr_eq (a b : Block R) (C P n i ch p : Nat) :
    ∑ m ∈ range n, sq a b (off C P n i ch p m) = normSq (vecAt a C P n i ch p - vecAt b C P n i ch p) := by
  rw [Finset.sum_range]
  rfl

theorem pixNorm_eq (b : Block R) (C P n i ch p : Nat) :
    ∑ m ∈ range n, Block.at b (off C P n i ch p m) * Block.at b (off C P n i ch p m)
      = normSq (vecAt b C P n i ch p) := by
  rw [Finset.sum_range]
  rfl

/-- any per-pixel quantity built from the error norm and the target norm has the same sum over
the pixels before and after the transformation -/
theorem pix_sum_act {L C P n : Nat} {a a' b b' : Block R} (h : BlockAct L C P n a a' b b')
    (F : R → R → R) (i ch : Nat) (hi : i < L) (hch : ch < C) :
    ∑ p ∈ range P, F (∑ m ∈ range n, sq a' b' (off C P n i ch p m))
        (∑ m ∈ range n, Block.at b' (off C P n i ch p m) * Block.at b' (off C P n i ch p m))
      = ∑ p ∈ range P, F (∑ m ∈ range n, sq a b (off C P n i ch p m))
        (∑ m ∈ range n, Block.at b (off C P n i ch p m) * Block.at b (off C P n i ch p m)) := by
  obtain ⟨σ, ρ, hρ, ha, hb⟩ := h
  simp only [pixErr_eq, pixNorm_eq]
  rw [Finset.sum_range, Finset.sum_range]
  let G : Fin P → R := fun q =>
    F (normSq (vecAt a C P n i ch q - vecAt b C P n i ch q)) (normSq (vecAt b C P n i ch q))
  have : ∀ p : Fin P,
      F (normSq (vecAt a' C P n i ch p - vecAt b' C P n i ch p)) (normSq (vecAt b' C P n i ch p))
        = G (σ p) := by
    intro p
    simp only [G]
    rw [ha i hi ch hch p, hb i hi ch hch p, ← map_sub, hρ, hρ]
  rw [Finset.sum_congr rfl (fun p _ => this p)]
  exact Equiv.sum_comp σ G

theorem smseBlockSpec_act {L C P n : Nat} {a a' b b' : Block R} (h : BlockAct L C P n a a' b b')
    (i : Nat) (hi : i < L) : smseBlockSpec a' b' C P n i = smseBlockSpec a b C P n i := by
  rw [smseBlockSpec_eq, smseBlockSpec_eq]
  congr 1
  exact Finset.sum_congr rfl (fun ch hch =>
    pix_sum_act h (fun e _ => e) i ch hi (Finset.mem_range.mp hch))

theorem tsBlockSpec_act {L C P n : Nat} {a a' b b' : Block R} (h : BlockAct L C P n a a' b b')
    (steps i s : Nat) (hi : i < L) (hs : s < steps) :
    tsBlockSpec a' b' C P n steps i s = tsBlockSpec a b C P n steps i s := by
  rw [tsBlockSpec_eq, tsBlockSpec_eq]
  congr 1
  refine Finset.sum_congr rfl (fun c hc => pix_sum_act h (fun e _ => e) i _ hi ?_)
  have hc' := Finset.mem_range.mp hc
  calc c * steps + s < c * steps + steps := by omega
    _ = (c + 1) * steps := by ring
    _ ≤ (C / steps) * steps := Nat.mul_le_mul_right _ hc'
    _ ≤ C := Nat.div_mul_le_self C steps

theorem normBlockSpec_act {L C P n : Nat} {a a' b b' : Block R} (h : BlockAct L C P n a a' b b')
    (eps : R) (i : Nat) (hi : i < L) : normBlockSpec a' b' C P n eps i = normBlockSpec a b C P n eps i := by
  simp only [normBlockSpec, sumRange_eq]
  congr 1
  exact Finset.sum_congr rfl (fun ch hch =>
    pix_sum_act h (fun e t => e / (t + eps)) i ch hi (Finset.mem_range.mp hch))

omit [Field R] in
theorem partner_self {x : MI R} (hx : x.WF) {kv : Key × Block R} (hkv : kv ∈ x.data) :
    partner x kv.1 = kv.2 := by
  have : MI.get? x kv.1 = some kv.2 := (Dict.get?_eq_some_iff hx.1).mpr hkv
  simp [partner, this]

omit [Field R] in
/-- a sum over the items of a dict is a sum over its keys -/
theorem map_data_eq_map_keys {β : Type} {x : MI R} (hx : x.WF) (G : Key → Block R → β) :
    x.data.map (fun kv => G kv.1 kv.2) = (MI.keys x).map (fun t => G t (partner x t)) := by
  simp only [MI.keys, Dict.keys, List.map_map]
  refine List.map_congr_left (fun kv hkv => ?_)
  simp only [Function.comp, partner_self hx hkv]

/-- the transformed pair `(x', y')` of a pair `(x, y)`: same types in the same order, same batch
size and channel counts, as many pixels, every block pair related by `BlockAct` -/
structure Transformed (x y x' y' : MI R) (L : Nat) (sp sp' : List Nat) : Prop where
  wfx : LossWF x L sp
  wfx' : LossWF x' L sp'
  pix : Block.prod sp' = Block.prod sp
  dim : x'.D = x.D
  keys : MI.keys x' = MI.keys x
  hasy : ∀ t ∈ MI.keys x, t ∈ MI.keys y
  hasy' : ∀ t ∈ MI.keys x, t ∈ MI.keys y'
  chan : ∀ t ∈ MI.keys x, chanOf (partner x' t) = chanOf (partner x t)
  act : ∀ t ∈ MI.keys x,
    BlockAct L (chanOf (partner x t)) (Block.prod sp) (compOf (partner x t) x.D)
      (partner x t) (partner x' t) (partner y t) (partner y' t)

omit [Field R] in
theorem mem_data_of_key {x : MI R} (hx : x.WF) {t : Key} (ht : t ∈ MI.keys x) : (t, partner x t) ∈ x.data := by
  obtain ⟨v, hv⟩ := Dict.mem_keys.mp ht
  have := partner_self hx hv
  simp only at this
  rw [this]; exact hv

theorem Transformed.dims {x y x' y' : MI R} {L : Nat} {sp sp' : List Nat}
    (T : Transformed x y x' y' L sp sp') {t : Key} (ht : t ∈ MI.keys x) :
    pixOf (partner x t) x.D = Block.prod sp ∧ pixOf (partner x' t) x'.D = Block.prod sp ∧
      compOf (partner x' t) x'.D = compOf (partner x t) x.D := by
  have h1 := T.wfx.block_dims (mem_data_of_key T.wfx.wf ht)
  have h2 := T.wfx'.block_dims (mem_data_of_key T.wfx'.wf (by rw [T.keys]; exact ht))
  simp only at h1 h2
  refine ⟨h1.1, by rw [h2.1, T.pix], ?_⟩
  rw [h2.2.2.2, h1.2.2.2, T.dim]

theorem smseSpec_act {x y x' y' : MI R} {L : Nat} {sp sp' : List Nat}
    (T : Transformed x y x' y' L sp sp') (i : Nat) (hi : i < L) : smseSpec x' y' i = smseSpec x y i := by
  unfold smseSpec
  rw [map_data_eq_map_keys T.wfx'.wf (fun t b => smseBlockSpec b (partner y' t) (chanOf b) (pixOf b x'.D) (compOf b x'.D) i),
    map_data_eq_map_keys T.wfx.wf (fun t b => smseBlockSpec b (partner y t) (chanOf b) (pixOf b x.D) (compOf b x.D) i),
    T.keys]
  congr 1
  refine List.map_congr_left (fun t ht => ?_)
  obtain ⟨d1, d2, d3⟩ := T.dims ht
  simp only [d1, d2, d3, T.chan t ht]
  exact smseBlockSpec_act (T.act t ht) i hi

theorem tsSpec_act {x y x' y' : MI R} {L : Nat} {sp sp' : List Nat}
    (T : Transformed x y x' y' L sp sp') (steps i s : Nat) (hi : i < L) (hs : s < steps) :
    tsSpec x' y' steps i s = tsSpec x y steps i s := by
  unfold tsSpec
  rw [map_data_eq_map_keys T.wfx'.wf (fun t b => tsBlockSpec b (partner y' t) (chanOf b) (pixOf b x'.D) (compOf b x'.D) steps i s),
    map_data_eq_map_keys T.wfx.wf (fun t b => tsBlockSpec b (partner y t) (chanOf b) (pixOf b x.D) (compOf b x.D) steps i s),
    T.keys]
  congr 1
  refine List.map_congr_left (fun t ht => ?_)
  obtain ⟨d1, d2, d3⟩ := T.dims ht
  simp only [d1, d2, d3, T.chan t ht]
  exact tsBlockSpec_act (T.act t ht) steps i s hi hs

theorem Transformed.steps_ok_eq {x y x' y' : MI R} {L : Nat} {sp sp' : List Nat}
    (T : Transformed x y x' y' L sp sp') (steps : Nat) : stepsOk x' steps = stepsOk x steps := by
  rw [Bool.eq_iff_iff, stepsOk_iff, stepsOk_iff]
  have key : ∀ (z : MI R), z.WF → ((∀ kv ∈ z.data, steps ∣ chanOf kv.2) ↔ ∀ t ∈ MI.keys z, steps ∣ chanOf (partner z t)) := by
    intro z hz
    constructor
    · intro h t ht; exact h _ (mem_data_of_key hz ht)
    · intro h kv hkv
      have := h kv.1 (Dict.mem_keys.mpr ⟨kv.2, hkv⟩)
      rwa [partner_self hz hkv] at this
  rw [key x T.wfx.wf, key x' T.wfx'.wf, T.keys]
  constructor
  · rintro ⟨h0, h⟩; exact ⟨h0, fun t ht => by rw [← T.chan t ht]; exact h t ht⟩
  · rintro ⟨h0, h⟩; exact ⟨h0, fun t ht => by rw [T.chan t ht]; exact h t ht⟩

/-- **`loss_act_invariant`**: applying the same transformation (pixel bijection + norm-preserving
linear map on the components; in particular the same element of `B_d`) to prediction and target
leaves `smse_loss` (per entry and mean) and every entry of `timestep_smse_loss` unchanged. -/
theorem loss_act_invariant {x y x' y' : MI R} {L : Nat} {sp sp' : List Nat}
    (T : Transformed x y x' y' L sp sp') :
    smsePerBatch x' y' = smsePerBatch x y ∧ smse x' y' = smse x y ∧
      ∀ steps, timestepMatrix x' y' steps = timestepMatrix x y steps := by
  have hy := (hasAll_iff x y).mpr T.hasy
  have hy' := (hasAll_iff x' y').mpr (by rw [T.keys]; exact T.hasy')
  have e1 : smsePerBatch x' y' = smsePerBatch x y := by
    rw [smsePerBatch_eq_spec T.wfx hy, smsePerBatch_eq_spec T.wfx' hy']
    congr 1
    exact List.map_congr_left (fun i hi => smseSpec_act T i (List.mem_range.mp hi))
  refine ⟨e1, by simp [smse, e1], fun steps => ?_⟩
  by_cases hs : stepsOk x steps = true
  · rw [timestepMatrix_eq_spec T.wfx hy steps hs,
      timestepMatrix_eq_spec T.wfx' hy' steps (by rw [T.steps_ok_eq steps]; exact hs)]
    congr 1
    exact List.map_congr_left (fun i hi => List.map_congr_left (fun s hs' =>
      tsSpec_act T steps i s (List.mem_range.mp hi) (List.mem_range.mp hs')))
  · have hs' : stepsOk x steps = false := by simpa using hs
    simp [timestepMatrix, T.steps_ok_eq steps, hs']

/-- the same for the normalised loss, on its specification (`normSpec`, per batch entry) -/
theorem normalized_act_invariant {x y x' y' : MI R} {L : Nat} {sp sp' : List Nat}
    (T : Transformed y x y' x' L sp sp') (eps : R) (i : Nat) (hi : i < L) :
    normSpec x' y' eps i = normSpec x y eps i := by
  unfold normSpec
  rw [map_data_eq_map_keys T.wfx'.wf (fun t b => normBlockSpec (partner x' t) b (chanOf b) (pixOf b y'.D) (compOf b y'.D) eps i),
    map_data_eq_map_keys T.wfx.wf (fun t b => normBlockSpec (partner x t) b (chanOf b) (pixOf b y.D) (compOf b y.D) eps i),
    T.keys]
  congr 1
  refine List.map_congr_left (fun t ht => ?_)
  obtain ⟨d1, d2, d3⟩ := T.dims ht
  simp only [d1, d2, d3, T.chan t ht]
  exact normBlockSpec_act (T.act t ht).swap eps i hi

end Invariance

/-! ### the normalised loss computes its definition -/
section Normalised
variable {R : Type} [Field R]

theorem off_div (C P n i ch p m : Nat) (hm : m < n) : off C P n i ch p m / n = (i * C + ch) * P + p := by
  have hn : 0 < n := by omega
  simp only [off]
  rw [Nat.add_comm, Nat.add_mul_div_right _ _ hn, Nat.div_eq_of_lt hm, Nat.zero_add]

theorem normBlock_eq (xa yb : Block R) (D C P n S : Nat) (eps : R) (i : Nat)
    (hc : Block.prod yb.shape.tail = C * P * n) (hn : compOf yb D = n) :
    normBlock xa yb D S eps i
      = (∑ ch ∈ range C, ∑ p ∈ range P,
          (∑ m ∈ range n, sq xa yb (off C P n i ch p m)) /
            (∑ m ∈ range n, Block.at yb (off C P n i ch p m) * Block.at yb (off C P n i ch p m) + eps)) / (S : R) := by
  have hn' : Block.prod (yb.shape.drop (D + 2)) = n := hn
  simp only [normBlock, hc, hn', sumRange_eq]
  congr 1
  rcases Nat.eq_zero_or_pos n with h0 | hpos
  · subst h0; simp
  · let g : Nat → R := fun J => sq xa yb J /
      (∑ m ∈ range n, Block.at yb ((J / n) * n + m) * Block.at yb ((J / n) * n + m) + eps)
    have e1 : ∀ j, i * (C * P * n) + j / n * n = (i * (C * P * n) + j) / n * n := by
      intro j
      have : (i * (C * P * n) + j) / n = i * (C * P) + j / n := by
        rw [show i * (C * P * n) + j = j + (i * (C * P)) * n by ring, Nat.add_mul_div_right _ _ hpos]
        ring
      rw [this]; ring
    have e2 : ∀ j ∈ range (C * P * n),
        sq xa yb (i * (C * P * n) + j) /
          (∑ m ∈ range n, Block.at yb (i * (C * P * n) + j / n * n + m) * Block.at yb (i * (C * P * n) + j / n * n + m) + eps)
          = g (i * (C * P * n) + j) := by
      intro j _
      simp only [g, e1 j]
    rw [Finset.sum_congr rfl e2, chunk_sum g]
    refine Finset.sum_congr rfl (fun ch _ => Finset.sum_congr rfl (fun p _ => ?_))
    rw [Finset.sum_div]
    refine Finset.sum_congr rfl (fun m hm => ?_)
    simp only [g, off_div C P n i ch p m (Finset.mem_range.mp hm)]
    rfl

theorem normBlockSpec_eq (xa yb : Block R) (C P n : Nat) (eps : R) (i : Nat) :
    normBlockSpec xa yb C P n eps i
      = (∑ ch ∈ range C, ∑ p ∈ range P,
          (∑ m ∈ range n, sq xa yb (off C P n i ch p m)) /
            (∑ m ∈ range n, Block.at yb (off C P n i ch p m) * Block.at yb (off C P n i ch p m) + eps)) / (P : R) := by
  simp only [normBlockSpec, sumRange_eq]

/-- **`normalized_eq_spec`**: the normalised loss is the batch mean of: each channel-pixel's squared
error divided by the **target's** squared norm there plus eps, summed over channels and types and
averaged over pixels; the prediction block is looked up by type. -/
theorem normalized_eq_spec {x y : MI R} {L : Nat} {sp : List Nat} (hx : LossWF x L sp) (hy : LossWF y L sp)
    (hk : ∀ t ∈ MI.keys y, t ∈ MI.keys x) (eps : R) :
    normalizedSmse x y eps = some (mean ((List.range L).map (normSpec x y eps))) := by
  have hall := (hasAll_iff y x).mpr hk
  simp only [normalizedSmse, hall, if_true, hx.getL_eq, Option.some.injEq]
  congr 1
  refine List.map_congr_left (fun i _ => ?_)
  unfold normSpec
  congr 1
  refine List.map_congr_left (fun kv hkv => ?_)
  obtain ⟨h1, h2, -, -⟩ := hy.block_dims hkv
  rw [normBlock_eq _ _ _ _ _ _ _ _ _ h2 rfl, normBlockSpec_eq, hx.spatialSize_eq, h1]

end Normalised

/-! ### the defect of the unrepaired tree (D8) and non-vacuity of every theorem -/
section Examples

def lgX : MI Int := MI.new 2 [true, true] [((0, 0), ⟨[1, 1, 1, 1], [1]⟩), ((0, 1), ⟨[1, 1, 1, 1], [2]⟩)]
def lgY : MI Int := MI.new 2 [true, true] [((0, 1), ⟨[1, 1, 1, 1], [2]⟩), ((0, 0), ⟨[1, 1, 1, 1], [1]⟩)]

/-- D8: prediction and target hold the *same* blocks, the target in the other order: the
positional `zip(values(), values())` reports a loss of 2, the key-indexed loops report 0. -/
theorem smse_legacy_counterexample :
    smseLegacy lgX lgY = some 2 ∧ smse lgX lgY = some 0 ∧
    timestepMatrixLegacy lgX lgY 1 = some [[2]] ∧ timestepMatrix lgX lgY 1 = some [[0]] := by
  decide

def qX : MI Rat :=
  MI.new 2 [true, true] [((0, 1), ⟨[1, 2, 1, 2], [1, 2, 0, 1]⟩), ((0, 0), ⟨[1, 2, 1, 2], [1, 0, 2, 1]⟩)]
def qY : MI Rat :=
  MI.new 2 [true, true] [((0, 0), ⟨[1, 2, 1, 2], [0, 0, 1, 3]⟩), ((0, 1), ⟨[1, 2, 1, 2], [3, 5, 1, 1]⟩)]
/-- `qX`, `qY` after the reflection that swaps the two pixels (the pseudoscalar changes sign);
the rotated blocks have spatial extents `(2, 1)` instead of `(1, 2)` -/
def qX' : MI Rat :=
  MI.new 2 [true, true] [((0, 1), ⟨[1, 2, 2, 1], [-2, -1, -1, 0]⟩), ((0, 0), ⟨[1, 2, 2, 1], [0, 1, 1, 2]⟩)]
def qY' : MI Rat :=
  MI.new 2 [true, true] [((0, 0), ⟨[1, 2, 2, 1], [0, 0, 3, 1]⟩), ((0, 1), ⟨[1, 2, 2, 1], [-5, -3, -1, -1]⟩)]

theorem qX_wf : LossWF qX 1 [1, 2] := by
  refine ⟨by unfold MI.WF; decide, by decide, rfl, ?_⟩
  intro kv hkv
  have : kv = ((0, 1), ⟨[1, 2, 1, 2], [1, 2, 0, 1]⟩) ∨ kv = ((0, 0), ⟨[1, 2, 1, 2], [1, 0, 2, 1]⟩) := by
    simpa [qX, MI.new, Dict.ofItems, Dict.set] using hkv
  rcases this with rfl | rfl <;> exact ⟨2, rfl⟩

theorem qX'_wf : LossWF qX' 1 [2, 1] := by
  refine ⟨by unfold MI.WF; decide, by decide, rfl, ?_⟩
  intro kv hkv
  have : kv = ((0, 1), ⟨[1, 2, 2, 1], [-2, -1, -1, 0]⟩) ∨ kv = ((0, 0), ⟨[1, 2, 2, 1], [0, 1, 1, 2]⟩) := by
    simpa [qX', MI.new, Dict.ofItems, Dict.set] using hkv
  rcases this with rfl | rfl <;> exact ⟨2, rfl⟩

theorem qY_wf : LossWF qY 1 [1, 2] := by
  refine ⟨by unfold MI.WF; decide, by decide, rfl, ?_⟩
  intro kv hkv
  have : kv = ((0, 0), ⟨[1, 2, 1, 2], [0, 0, 1, 3]⟩) ∨ kv = ((0, 1), ⟨[1, 2, 1, 2], [3, 5, 1, 1]⟩) := by
    simpa [qY, MI.new, Dict.ofItems, Dict.set] using hkv
  rcases this with rfl | rfl <;> exact ⟨2, rfl⟩

theorem qXY_keys : ∀ t ∈ MI.keys qX, t ∈ MI.keys qY := by decide

/-- non-vacuity of `smse_eq_spec` / `timestep_eq_spec` / `timestep_sum_eq_smse` /
`normalized_eq_spec`: the hypotheses hold for arguments stored in *different* orders, and the
losses have definite non-zero values -/
example : smse qX qY = some (mean ((List.range 1).map (smseSpec qX qY))) := (smse_eq_spec qX_wf qXY_keys).2
example : MI.keys qX ≠ MI.keys qY := by decide
example : smse qX qY = some 10 ∧ timestepMatrix qX qY 2 = some [[7, 3]] ∧ smse qX' qY' = some 10 := by
  with_unfolding_all decide
example : ∃ m l, timestepMatrix qX qY 2 = some m ∧ smsePerBatch qX qY = some l ∧
    (∀ i < 1, (m.getD i []).sum = l.getD i 0) ∧ (meanAxis0 m 2).sum = mean l :=
  timestep_sum_eq_smse qX_wf qXY_keys 2 (by decide)
example : normalizedSmse qX qY 1 = some (mean ((List.range 1).map (normSpec qX qY 1))) :=
  normalized_eq_spec qX_wf qY_wf (by decide) 1
/-- normalising by the prediction's norm instead of the target's is a different number -/
example : normBlock ⟨[1, 1, 1, 1], [1]⟩ ⟨[1, 1, 1, 1], [(3 : Rat)]⟩ 2 1 1 0 = 2 / 5 ∧
    normBlockWrong ⟨[1, 1, 1, 1], [1]⟩ ⟨[1, 1, 1, 1], [(3 : Rat)]⟩ 2 1 1 0 = 2 := by
  with_unfolding_all decide

/-- non-vacuity of `loss_pairs_by_key`: both arguments re-ordered by a pytree round trip -/
example : smse (MI.treeRoundtrip qX) (MI.treeRoundtrip qY) = smse qX qY ∧
    (MI.treeRoundtrip qX).data ≠ qX.data := by
  have px : qX.data.Perm (MI.treeRoundtrip qX).data := by decide
  have py : qY.data.Perm (MI.treeRoundtrip qY).data := by decide
  exact ⟨(loss_pairs_by_key qX_wf qY_wf.wf px py rfl).2.1, by decide⟩

/-- non-vacuity of `loss_nonneg` and `loss_zero_iff_eq` -/
example : ∀ v, smse qX qY = some v → 0 ≤ v := (loss_nonneg qX qY).2.1
example : ∃ v, smse qX qX = some v ∧ v = 0 := by
  obtain ⟨v, h1, h2⟩ := loss_zero_iff_eq qX_wf (fun t ht => ht)
  exact ⟨v, h1, h2.mpr (fun kv hkv J _ => by rw [partner_self qX_wf.wf hkv])⟩
example : ∃ v, smse qX qY = some v ∧ (v = 0 ↔ ∀ kv ∈ qX.data, ∀ J < 1 * Block.prod kv.2.shape.tail,
    Block.at kv.2 J = Block.at (partner qY kv.1) J) := loss_zero_iff_eq qX_wf qXY_keys

set_option linter.unusedSimpArgs false in
/-- non-vacuity of `loss_act_invariant`: a reflection (pixel swap, sign change of the pseudoscalar,
rotated extents) satisfies `Transformed` -/
theorem q_transformed : Transformed qX qY qX' qY' 1 [1, 2] [2, 1] := by
  refine ⟨qX_wf, qX'_wf, rfl, rfl, by decide, by decide, by decide, by decide, ?_⟩
  intro t ht
  have ht' : t = (0, 1) ∨ t = (0, 0) := by simpa [qX, MI.keys, MI.new, Dict.ofItems, Dict.set, Dict.keys] using ht
  have hneg : ∀ v : Fin 1 → Rat, normSq ((-LinearMap.id : (Fin 1 → Rat) →ₗ[Rat] (Fin 1 → Rat)) v) = normSq v := by
    intro v; simp [normSq]
  rcases ht' with rfl | rfl
  · show BlockAct 1 2 2 1 (partner qX (0, 1)) (partner qX' (0, 1)) (partner qY (0, 1)) (partner qY' (0, 1))
    refine ⟨Equiv.swap 0 1, -LinearMap.id, hneg, ?_, ?_⟩ <;>
    · intro i hi ch hch p
      have hi0 : i = 0 := by omega
      subst hi0
      funext m
      have hm : m = 0 := Subsingleton.elim _ _
      subst hm
      have hch' : ch = 0 ∨ ch = 1 := by
        have : ch < 2 := hch
        omega
      rcases hch' with rfl | rfl <;> fin_cases p <;>
        simp +decide [vecAt, off, Block.at, partner, MI.get?, Dict.get?, List.lookup, qX, qX', qY, qY', MI.new,
          Dict.ofItems, Dict.set, Equiv.swap_apply_left, Equiv.swap_apply_right]
  · show BlockAct 1 2 2 1 (partner qX (0, 0)) (partner qX' (0, 0)) (partner qY (0, 0)) (partner qY' (0, 0))
    refine ⟨Equiv.swap 0 1, LinearMap.id, fun v => rfl, ?_, ?_⟩ <;>
    · intro i hi ch hch p
      have hi0 : i = 0 := by omega
      subst hi0
      funext m
      have hm : m = 0 := Subsingleton.elim _ _
      subst hm
      have hch' : ch = 0 ∨ ch = 1 := by
        have : ch < 2 := hch
        omega
      rcases hch' with rfl | rfl <;> fin_cases p <;>
        simp +decide [vecAt, off, Block.at, partner, MI.get?, Dict.get?, List.lookup, qX, qX', qY, qY', MI.new,
          Dict.ofItems, Dict.set, Equiv.swap_apply_left, Equiv.swap_apply_right]

example : smse qX' qY' = smse qX qY ∧ timestepMatrix qX' qY' 2 = timestepMatrix qX qY 2 :=
  ⟨(loss_act_invariant q_transformed).2.1, (loss_act_invariant q_transformed).2.2 2⟩
example : qX'.data ≠ qX.data := by decide

theorem qY'_wf : LossWF qY' 1 [2, 1] := by
  refine ⟨by unfold MI.WF; decide, by decide, rfl, ?_⟩
  intro kv hkv
  have : kv = ((0, 0), ⟨[1, 2, 2, 1], [0, 0, 3, 1]⟩) ∨ kv = ((0, 1), ⟨[1, 2, 2, 1], [-5, -3, -1, -1]⟩) := by
    simpa [qY', MI.new, Dict.ofItems, Dict.set] using hkv
  rcases this with rfl | rfl <;> exact ⟨2, rfl⟩

/-- the same reflection with the roles of prediction and target exchanged (the normalised loss
iterates over the target) -/
theorem q_transformed_swapped : Transformed qY qX qY' qX' 1 [1, 2] [2, 1] := by
  refine ⟨qY_wf, qY'_wf, rfl, rfl, by decide, by decide, by decide, by decide, ?_⟩
  intro t ht
  have ht' : t = (0, 0) ∨ t = (0, 1) := by simpa [qY, MI.keys, MI.new, Dict.ofItems, Dict.set, Dict.keys] using ht
  rcases ht' with rfl | rfl
  · exact (q_transformed.act (0, 0) (by decide)).swap
  · exact (q_transformed.act (0, 1) (by decide)).swap

/-- non-vacuity of `normalized_act_invariant` -/
example : normSpec qX' qY' 1 0 = normSpec qX qY 1 0 := normalized_act_invariant q_transformed_swapped 1 0 (by decide)

end Examples

end GinjaxVerif.C18
