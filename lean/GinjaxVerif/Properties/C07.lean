import GinjaxVerif.Lemmas.C07Build
import GinjaxVerif.Lemmas.C07Train
import GinjaxVerif.Lemmas.C07Shift
import GinjaxVerif.Lemmas.C07ShiftUNet
import GinjaxVerif.Lemmas.Capstone
import GinjaxVerif.Properties.C08
import GinjaxVerif.Properties.C09
import Mathlib.Algebra.Order.Field.Rat
import Mathlib.Algebra.Order.Ring.Rat

/-!
# C07 — equivariant networks are equivariant end to end

`Net` / `eval` (`Model/C07.lean`) is the forward pass of a tree of layer objects on multi-images with
values; `mkConvBlock`, `mkResNet`, `mkDilResNet`, `mkUNet` reproduce the constructors of `models.py` in
equivariant mode.  Everything below holds

* for **every value of every learnable array** (weights, biases, normalisation scales and biases,
  vector-neuron mixing matrices: fields of the nodes resp. the arbitrary parameter family `θ`),
* for every activation / `sqrt` / `abs` / `rsqrt` / `max(0,·)` function (`F : Fns R d`, no assumption)
  and every matrix function `F.S` standing for `eigh` that commutes with conjugation by signed
  permutations (`hS : ConjEquivariant F.S`; satisfied by the identity and every polynomial, C08),
* over every linearly ordered field `R` (ℝ in particular), every dimension `d`, all extents (square or
  not), every combination of toroidal / non-toroidal axes, every signature with distinct keys
  (pseudo-types included), every `g ∈ B_d` (`SP d`; `net_equivariant_tge`: every matrix accepted by
  `isSignedPerm`, with the model `tge` of the library's own `times_group_element`).

Hypotheses: `WellFormed` (static; proved for every constructor configuration by `mk*_wellFormed`, from
an invariant bank and positive extents — divisible by `2^num_downsamples` for the U-Net), `hS`, and
`PoolGeneric` (runtime: per-patch uniqueness of the maximal norm wherever a `MaxNormPool` is
evaluated; trivially true for the ResNets and ConvBlocks, `poolGeneric_of_noPool`).

Conclusion: wherever the forward pass evaluates (`eval … = some y`: the code does not raise), it
evaluates on the transformed input, and the result is — blockwise, on its channels, on the pixels of
its box and at tensor multi-indices of the declared order — the transformed output, each block
transforming with the type `(k, p)` it is stored under (`MI.Equiv y' (act g y)`).

Further: `hC07_discharged` / `trained_net_equivariant` (the hypothesis `hC07` of C09 instantiated:
training cannot break the equivariance of these networks), `net_shift` / `resnet_shift` /
`dilresnet_shift` (cyclic translations along toroidal axes), `unet_shift_multiple` (translations by
multiples of the total pooling factor), and non-vacuity examples (a concrete configuration satisfying every hypothesis for
every `g ∈ B_2`, a net with pooling satisfying `WellFormed` and `PoolGeneric`).

The forward pass is tied to the code structurally (layer plan `trace`, diffed against the recorded
forward pass of the real model); the per-layer numerics are those of C06 / C08 / C11.
-/
namespace GinjaxVerif.C07

open GinjaxVerif GinjaxVerif.C20 GinjaxVerif.Layer

variable {R : Type} {d : Nat}

/-! ### the main theorem -/

section Main
variable [Field R] [LinearOrder R]

/-- **C07.**  A well-formed network commutes with `g`: for every parameter value, on every consistent
input on which it evaluates and whose pooling patches have unique maxima along the evaluation. -/
theorem net_equivariant (g : SP d) (F : Fns R d) (hS : ConjEquivariant F.S) (net : Net R d)
    (x : MI R d) (hx : x.Consistent) (hwf : WellFormed g x.torus net x.dims)
    (hgen : PoolGeneric F net x) (y : MI R d) (hy : eval F net x = some y) :
    ∃ y', eval F net (act g x) = some y' ∧ MI.Equiv y' (act g y) := by
  obtain ⟨y', h1, h2⟩ := eval_rel g F hS net x (act g x) y hx (rel_act g x) hwf hgen hy
  exact ⟨y', h1, (rel_iff_equiv_act g y' y).1 h2⟩

/-- **C07 for every matrix the library accepts**, with the model `tge` of `times_group_element` as the
action on input and output and the code's `transport` rule for the flags. -/
theorem net_equivariant_tge (M : Mat d) (hM : isSignedPerm M = true) (F : Fns R d)
    (hS : ConjEquivariant F.S) (net : Net R d) (x : MI R d) (hx : x.Consistent)
    (hwf : ∀ g : SP d, g.mat = M → WellFormed g x.torus net x.dims)
    (hgen : PoolGeneric F net x) (y : MI R d) (hy : eval F net x = some y) :
    ∃ y', eval F net (tgeAct M x) = some y' ∧ MI.Equiv y' (tgeAct M y) := by
  obtain ⟨g, rfl⟩ := exists_SP_of_isSignedPerm M hM
  obtain ⟨y', h1, h2⟩ := eval_rel g F hS net x (tgeAct g.mat x) y hx (rel_tgeAct g x) (hwf g rfl) hgen hy
  exact ⟨y', h1, (rel_iff_equiv_tgeAct g y' y).1 h2⟩

/-- the relational form (what composes): a related input gives a related output -/
theorem net_equivariant_rel (g : SP d) (F : Fns R d) (hS : ConjEquivariant F.S) (net : Net R d)
    (x x' : MI R d) (hx : x.Consistent) (hr : MI.Equiv x' (act g x))
    (hwf : WellFormed g x.torus net x.dims) (hgen : PoolGeneric F net x) (y : MI R d)
    (hy : eval F net x = some y) : ∃ y', eval F net x' = some y' ∧ MI.Equiv y' (act g y) := by
  obtain ⟨y', h1, h2⟩ :=
    eval_rel g F hS net x x' y hx ((rel_iff_equiv_act g x' x).2 hr) hwf hgen hy
  exact ⟨y', h1, (rel_iff_equiv_act g y' y).1 h2⟩

/-- extents and flags of the output, and consistency, as computed by the static calculus `outDims`
that `WellFormed` is threaded with -/
theorem net_shape (F : Fns R d) (net : Net R d) (x y : MI R d) (hx : x.Consistent)
    (hy : eval F net x = some y) :
    y.Consistent ∧ y.torus = x.torus ∧ outDims x.torus net x.dims = some y.dims :=
  eval_shape F net x y hx hy

end Main

/-! ### every constructor configuration is well formed -/

section Builders
variable [CommRing R]

/-- **`ConvBlock`** — both activation orders, with / without `LayerNorm`, with / without activation,
all five bias settings, any signatures, any filter dilation: well formed on every input with positive
extents, for every `g` under which the bank is invariant. -/
theorem mkConvBlock_wellFormed (θ : ParamFam R) (id : List Nat) (g : SP d) (torus : Fin d → Bool)
    (a : BlockArgs R d) (h : BlockOK g a) (N : Fin d → Nat) (hN : ∀ j, 0 < N j) :
    WellFormed g torus (mkConvBlock θ id a) N := (mkConvBlock_wfSame θ id g torus a h N hN).1

/-- **`ResNet`** — every depth, number of blocks and convolutions, activation or none, group norm
on/off, pre-activation order on/off, bias setting, signatures with distinct keys -/
theorem mkResNet_wellFormed (θ : ParamFam R) (g : SP d) (torus : Fin d → Bool) (c : NetArgs R d)
    (h : NetOK g c) (N : Fin d → Nat) (hN : ∀ j, 0 < N j) : WellFormed g torus (mkResNet θ c) N :=
  (mkResNet_wfSame θ g torus c h N hN).1

/-- **`DilResNet`** — dilation schedule 1, 2, 4, 8, 4, 2, 1 -/
theorem mkDilResNet_wellFormed (θ : ParamFam R) (g : SP d) (torus : Fin d → Bool) (c : NetArgs R d)
    (h : NetOK g c) (N : Fin d → Nat) (hN : ∀ j, 0 < N j) : WellFormed g torus (mkDilResNet θ c) N :=
  (mkDilResNet_wfSame θ g torus c h N hN).1

/-- **`UNet`** — every number of down-samplings and convolutions per level, on inputs whose extents
are positive multiples of `2^num_downsamples` (torus or SAME-padded or mixed) -/
theorem mkUNet_wellFormed (θ : ParamFam R) (g : SP d) (torus : Fin d → Bool) (c : NetArgs R d)
    (h : UNetOK g c) (N : Fin d → Nat) (hN : ∀ j, 0 < N j) (hdiv : ∀ j, 2 ^ c.numDown ∣ N j) :
    WellFormed g torus (mkUNet θ c) N := (mkUNet_wfSame θ g torus c h N hN hdiv).1

/-- and all four keep the extents (the output lives on the input's grid) -/
theorem mk_outDims (θ : ParamFam R) (g : SP d) (torus : Fin d → Bool) (c : NetArgs R d)
    (N : Fin d → Nat) (hN : ∀ j, 0 < N j) :
    (NetOK g c → outDims torus (mkResNet θ c) N = some N ∧ outDims torus (mkDilResNet θ c) N = some N) ∧
    (UNetOK g c → (∀ j, 2 ^ c.numDown ∣ N j) → outDims torus (mkUNet θ c) N = some N) :=
  ⟨fun h => ⟨(mkResNet_wfSame θ g torus c h N hN).2, (mkDilResNet_wfSame θ g torus c h N hN).2⟩,
   fun h hdiv => (mkUNet_wfSame θ g torus c h N hN hdiv).2⟩

end Builders

/-! ### per-class corollaries -/

section Classes
variable [Field R] [LinearOrder R]

/-- **every `ConvBlock` is equivariant** -/
theorem convBlock_equivariant (g : SP d) (F : Fns R d) (hS : ConjEquivariant F.S) (θ : ParamFam R)
    (id : List Nat) (a : BlockArgs R d) (h : BlockOK g a) (x : MI R d) (hx : x.Consistent)
    (hN : ∀ j, 0 < x.dims j) (y : MI R d) (hy : eval F (mkConvBlock θ id a) x = some y) :
    ∃ y', eval F (mkConvBlock θ id a) (act g x) = some y' ∧ MI.Equiv y' (act g y) :=
  net_equivariant g F hS _ x hx (mkConvBlock_wellFormed θ id g x.torus a h x.dims hN)
    (poolGeneric_of_noPool F _ (noPool_mkConvBlock θ id a) x) y hy

/-- **every `ResNet` is equivariant**, for every parameter value -/
theorem resnet_equivariant (g : SP d) (F : Fns R d) (hS : ConjEquivariant F.S) (θ : ParamFam R)
    (c : NetArgs R d) (h : NetOK g c) (x : MI R d) (hx : x.Consistent) (hN : ∀ j, 0 < x.dims j)
    (y : MI R d) (hy : eval F (mkResNet θ c) x = some y) :
    ∃ y', eval F (mkResNet θ c) (act g x) = some y' ∧ MI.Equiv y' (act g y) :=
  net_equivariant g F hS _ x hx (mkResNet_wellFormed θ g x.torus c h x.dims hN)
    (poolGeneric_of_noPool F _ (noPool_mkResNet θ c) x) y hy

/-- **every `DilResNet` is equivariant**, for every parameter value -/
theorem dilresnet_equivariant (g : SP d) (F : Fns R d) (hS : ConjEquivariant F.S) (θ : ParamFam R)
    (c : NetArgs R d) (h : NetOK g c) (x : MI R d) (hx : x.Consistent) (hN : ∀ j, 0 < x.dims j)
    (y : MI R d) (hy : eval F (mkDilResNet θ c) x = some y) :
    ∃ y', eval F (mkDilResNet θ c) (act g x) = some y' ∧ MI.Equiv y' (act g y) :=
  net_equivariant g F hS _ x hx (mkDilResNet_wellFormed θ g x.torus c h x.dims hN)
    (poolGeneric_of_noPool F _ (noPool_mkDilResNet θ c) x) y hy

/-- **every `UNet` is equivariant**, for every parameter value, on inputs whose extents are positive
multiples of `2^num_downsamples` and whose pooling patches have unique maxima along the evaluation -/
theorem unet_equivariant (g : SP d) (F : Fns R d) (hS : ConjEquivariant F.S) (θ : ParamFam R)
    (c : NetArgs R d) (h : UNetOK g c) (x : MI R d) (hx : x.Consistent) (hN : ∀ j, 0 < x.dims j)
    (hdiv : ∀ j, 2 ^ c.numDown ∣ x.dims j) (hgen : PoolGeneric F (mkUNet θ c) x)
    (y : MI R d) (hy : eval F (mkUNet θ c) x = some y) :
    ∃ y', eval F (mkUNet θ c) (act g x) = some y' ∧ MI.Equiv y' (act g y) :=
  net_equivariant g F hS _ x hx (mkUNet_wellFormed θ g x.torus c h x.dims hN hdiv) hgen y hy

end Classes

/-! ### training: the hypothesis `hC07` of C09, discharged -/

section Trained
variable [Field R] [LinearOrder R]

/-- **C09's `trained_equivariant` with `hC07` instantiated by `net_equivariant`.**  A model whose plan
has no pooling and is well formed (bank aside) on all inputs with positive extents — every `ResNet`,
`DilResNet`, `ConvBlock` (`planOK_of_wfSame`) — and whose bank leaves are invariant under the group
`{g | S g}` is, after ANY training history (arbitrary new values of all parameters at every step, any
common factor on the bank leaves), strictly equivariant as a map into multi-images modulo extensional
equality: `evalQ (g • x) = g • evalQ x`. -/
theorem trained_net_equivariant (S : SP d → Prop) (hSinv : ∀ g, S g → S g.inv) (F : Fns R d)
    (hS : ConjEquivariant F.S) (m : C09.Model (Net R d) (ParamFam R) (FB R d)) (hwf : PlanOK m.plan)
    (hm : C09.BankInvariant (Subtype S) m) (us : List (C09.Update (ParamFam R) R)) :
    C09.Equivariant (Subtype S)
      (evalQ F (C09.train m us).plan (C09.train m us).params (C09.train m us).bank) :=
  C09.trained_equivariant PlanOK (evalQ F) (hC07_discharged S hSinv F hS) m hwf hm us

/-- the same for the model `train` returns (best-model selection) -/
theorem returned_net_equivariant (S : SP d → Prop) (hSinv : ∀ g, S g → S g.inv) (F : Fns R d)
    (hS : ConjEquivariant F.S) (choose : List (C09.Model (Net R d) (ParamFam R) (FB R d)) → Nat)
    (m : C09.Model (Net R d) (ParamFam R) (FB R d)) (hwf : PlanOK m.plan)
    (hm : C09.BankInvariant (Subtype S) m) (us : List (C09.Update (ParamFam R) R)) :
    C09.Equivariant (Subtype S)
      (evalQ F (C09.trainReturn choose m us).plan (C09.trainReturn choose m us).params
        (C09.trainReturn choose m us).bank) :=
  C09.returned_equivariant PlanOK (evalQ F) (hC07_discharged S hSinv F hS) choose m hwf hm us

/-- **every trained model, pooling included (U-Net).**  The max-uniqueness hypothesis depends on the
input and on the trained parameter values, so it cannot be put into the `∀ x` shape of `hC07`; the
statement is therefore per input: after any training history of a model with invariant bank leaves,
the network commutes with every `g` of the group on every consistent input at which the plan is well
formed (bank aside) and the pooling patches have unique maxima. -/
theorem trained_model_equivariant (S : SP d → Prop) (F : Fns R d) (hS : ConjEquivariant F.S)
    (m : C09.Model (Net R d) (ParamFam R) (FB R d)) (hm : C09.BankInvariant (Subtype S) m)
    (us : List (C09.Update (ParamFam R) R)) (g : SP d) (hg : S g) (x : MI R d) (hx : x.Consistent)
    (hwf : WellFormedPlan x.torus m.plan x.dims)
    (hgen : PoolGeneric F (netOf (C09.train m us).plan (C09.train m us).params (C09.train m us).bank) x)
    (y : MI R d)
    (hy : eval F (netOf (C09.train m us).plan (C09.train m us).params (C09.train m us).bank) x = some y) :
    ∃ y', eval F (netOf (C09.train m us).plan (C09.train m us).params (C09.train m us).bank) (act g x)
        = some y' ∧ MI.Equiv y' (act g y) := by
  obtain ⟨hb, hp⟩ := C09.train_inv (G := Subtype S) m us hm
  refine net_equivariant g F hS _ x hx ?_ hgen y hy
  apply wellFormed_netOf S _ _ _ hb g hg
  rw [hp]; exact hwf

end Trained

/-! ### translations -/

section Translations

theorem srel_iff_equiv_roll (s : Pix d) (y' y : MI R d) : SRel s y' y ↔ MI.Equiv y' (roll s y) := by
  have key : ∀ (e' e : Ty × Block R d),
      (e'.1 = e.1 ∧ SBRel (shiftPix y.dims y.torus s) e.1 e'.2 e.2) ↔
      (e'.1 = e.1 ∧ (toBlk e.1 e'.2).Equiv (toBlk e.1 (shiftBlock y.dims y.torus s e.2))) := by
    intro e' e
    constructor
    · rintro ⟨hk, hC, hd, hkk, hv⟩
      refine ⟨hk, hC, hd, hkk, ?_⟩
      intro c hc yy hy n hn
      exact hv c (by rw [← hC]; exact hc) yy (by rw [← hd]; exact hy) n (by rw [← hkk]; exact hn)
    · rintro ⟨hk, hC, hd, hkk, hv⟩
      refine ⟨hk, hC, hd, hkk, ?_⟩
      intro c hc yy hy n hn
      exact hv c (by rw [hC]; exact hc) yy (by rw [hd]; exact hy) n (by rw [hkk]; exact hn)
  constructor
  · rintro ⟨h1, h2, h3⟩
    refine ⟨h1, h2, ?_⟩
    show List.Forall₂ _ y'.blocks (List.map _ y.blocks)
    rw [List.forall₂_map_right_iff]
    exact List.Forall₂.imp (fun e' e h => (key e' e).1 h) h3
  · rintro ⟨h1, h2, h3⟩
    refine ⟨h1, h2, ?_⟩
    have h3' : List.Forall₂ _ y'.blocks (List.map _ y.blocks) := h3
    rw [List.forall₂_map_right_iff] at h3'
    exact List.Forall₂.imp (fun e' e h => (key e' e).2 h) h3'

variable [Field R] [LinearOrder R]

/-- **translation clause, general form**: a network of stride-1 convolutions with odd filters and
inferred padding, normalisations, nonlinearities and residual sums commutes with every cyclic
translation along the toroidal axes (identity on the others) — every parameter value, any bank. -/
theorem net_shift (F : Fns R d) (s : Pix d) (net : Net R d) (hok : ShiftOK net) (x : MI R d)
    (hx : x.Consistent) (hN : ∀ j, 0 < x.dims j) (y : MI R d) (hy : eval F net x = some y) :
    ∃ y', eval F net (roll s x) = some y' ∧ MI.Equiv y' (roll s y) := by
  obtain ⟨⟨y', h1, h2⟩, _⟩ := eval_shift F s net x (roll s x) y hx hN (srel_roll s x) hok hy
  exact ⟨y', h1, (srel_iff_equiv_roll s y' y).1 h2⟩

/-- **`ResNet`s on toroidal inputs commute with every cyclic translation** (on inputs with some
non-toroidal axes: with every translation along the toroidal ones) -/
theorem resnet_shift (F : Fns R d) (θ : ParamFam R) (c : NetArgs R d) (h : NetShiftOK c) (s : Pix d)
    (x : MI R d) (hx : x.Consistent) (hN : ∀ j, 0 < x.dims j) (y : MI R d)
    (hy : eval F (mkResNet θ c) x = some y) :
    ∃ y', eval F (mkResNet θ c) (roll s x) = some y' ∧ MI.Equiv y' (roll s y) :=
  net_shift F s _ (shiftOK_mkResNet θ c h) x hx hN y hy

/-- the same for the dilated ResNet (all filter dilations of the schedule) -/
theorem dilresnet_shift (F : Fns R d) (θ : ParamFam R) (c : NetArgs R d) (h : NetShiftOK c) (s : Pix d)
    (x : MI R d) (hx : x.Consistent) (hN : ∀ j, 0 < x.dims j) (y : MI R d)
    (hy : eval F (mkDilResNet θ c) x = some y) :
    ∃ y', eval F (mkDilResNet θ c) (roll s x) = some y' ∧ MI.Equiv y' (roll s y) :=
  net_shift F s _ (shiftOK_mkDilResNet θ c h) x hx hN y hy

/-- and for every `ConvBlock` with the inferred padding -/
theorem convBlock_shift (F : Fns R d) (θ : ParamFam R) (id : List Nat) (a : BlockArgs R d)
    (hpad : a.pad = .none) (hld : a.ld = 1) (hM : a.M % 2 = 1) (hn : KeysNodup a.outKeys) (s : Pix d)
    (x : MI R d) (hx : x.Consistent) (hN : ∀ j, 0 < x.dims j) (y : MI R d)
    (hy : eval F (mkConvBlock θ id a) x = some y) :
    ∃ y', eval F (mkConvBlock θ id a) (roll s x) = some y' ∧ MI.Equiv y' (roll s y) :=
  net_shift F s _ (shiftOK_mkConvBlock θ id a hpad hld hM hn) x hx hN y hy

/-- **translation clause, general form with a schedule**: rolling the input by `s` rolls the output by
`s'` whenever `ShiftSched` relates them (pooling divides the translation, the up-convolution doubles
it) -/
theorem net_shift_sched (F : Fns R d) (net : Net R d) (s s' : Pix d) (x : MI R d) (hx : x.Consistent)
    (hs : ShiftSched x.torus net x.dims s s') (y : MI R d) (hy : eval F net x = some y) :
    ∃ y', eval F net (roll s x) = some y' ∧ MI.Equiv y' (roll s' y) := by
  obtain ⟨y', h1, h2⟩ := eval_shift_sched F net x (roll s x) y s s' hx (srel_roll s x) hs hy
  exact ⟨y', h1, (srel_iff_equiv_roll s' y' y).1 h2⟩

/-- **the U-Net commutes with the cyclic translations by multiples of its total pooling factor
`2^num_downsamples`** (along the toroidal axes; on inputs whose extents are positive multiples of that
factor) — for every parameter value, any bank, no uniqueness of pooling maxima needed.  The zero padding
`(1,1)` of the image-dilated up-convolution coincides with the interleaved zeros of the periodic
dilated signal (`up_srcIdx_shift`), max pooling looks at the same patch in the same order
(`maxPool_sh`). -/
theorem unet_shift_multiple (F : Fns R d) (θ : ParamFam R) (c : NetArgs R d) (h : NetShiftOK c)
    (hup : c.upM = 2) (t : Pix d) (x : MI R d) (hx : x.Consistent) (hN : ∀ j, 0 < x.dims j)
    (hdiv : ∀ j, 2 ^ c.numDown ∣ x.dims j) (y : MI R d) (hy : eval F (mkUNet θ c) x = some y) :
    ∃ y', eval F (mkUNet θ c) (roll (fun j => t j * (2 : Int) ^ c.numDown) x) = some y' ∧
      MI.Equiv y' (roll (fun j => t j * (2 : Int) ^ c.numDown) y) :=
  net_shift_sched F _ _ _ x hx (mkUNet_schedSame θ x.torus c h hup t x.dims hN hdiv).1 y hy

end Translations

/-- the plans of the constructors satisfy `PlanOK` / `WellFormedPlan` -/
theorem planOK_of_wfSame [CommRing R] (g : SP d) (net : Net R d) (hnp : NoPool net)
    (h : ∀ (torus : Fin d → Bool) (N : Fin d → Nat), (∀ j, 0 < N j) → WFSame g torus net N) :
    PlanOK net :=
  ⟨hnp, fun torus N hN => wellFormedPlan_of_wellFormed g torus net N (h torus N hN).1⟩

theorem planOK_mkResNet [CommRing R] (g : SP d) (θ : ParamFam R) (c : NetArgs R d) (h : NetOK g c) :
    PlanOK (mkResNet θ c) :=
  planOK_of_wfSame g _ (noPool_mkResNet θ c) (fun torus N hN => mkResNet_wfSame θ g torus c h N hN)

theorem planOK_mkDilResNet [CommRing R] (g : SP d) (θ : ParamFam R) (c : NetArgs R d) (h : NetOK g c) :
    PlanOK (mkDilResNet θ c) :=
  planOK_of_wfSame g _ (noPool_mkDilResNet θ c) (fun torus N hN => mkDilResNet_wfSame θ g torus c h N hN)

theorem wellFormedPlan_mkUNet [CommRing R] (g : SP d) (θ : ParamFam R) (c : NetArgs R d)
    (h : UNetOK g c) (torus : Fin d → Bool) (N : Fin d → Nat) (hN : ∀ j, 0 < N j)
    (hdiv : ∀ j, 2 ^ c.numDown ∣ N j) : WellFormedPlan torus (mkUNet θ c) N :=
  wellFormedPlan_of_wellFormed g torus _ N (mkUNet_wellFormed θ g torus c h N hN hdiv)

/-! ### non-vacuity -/

section Examples

/-- filters of side `M`: the constant scalar filter and the Kronecker delta `δ_{uv}` (constant in
space) as the order-2 filter; invariant under every element of `B_d` -/
def exBank (d M : Nat) : MImg ℚ d :=
  [((0, 0), ⟨1, fun _ => M, fun _ _ _ => 1⟩),
   ((2, 0), ⟨1, fun _ => M, fun _ _ T => match T with
      | [u, v] => if u = v then 1 else 0
      | _ => 0⟩)]

theorem exBank_invariant {d : Nat} (g : SP d) (M : Nat) : BankInv g (fun _ => M) (exBank d M) := by
  refine ⟨fun _ => rfl, ?_⟩
  intro key F hF f a T _ hT
  unfold exBank at hF
  simp only [Layer.lookup] at hF
  split at hF
  · rename_i hk
    cases hF; subst hk
    have : T = [] := List.eq_nil_of_length_eq_zero hT
    subst this
    simp [pf]
  · split at hF
    · rename_i _ hk
      cases hF; subst hk
      match T, hT with
      | [u, v], _ =>
        simp only [pf, pow_zero, List.map_cons, List.map_nil, SP.sgn_cons, SP.sgn_nil, mul_one,
          EmbeddingLike.apply_eq_iff_eq]
        by_cases huv : u = v
        · subst huv
          have := g.s_mul_self u
          have h2 : ((g.s u : Int) : ℚ) * ((g.s u : Int) : ℚ) = 1 := by
            rw [← Int.cast_mul, this]; simp
          simp [h2]
        · simp [huv]
    · cases hF

def exF : Fns ℚ 2 := { act := id, sqrtF := id, absF := id, rsqrt := id, max0 := id, S := id }

def exArgs : NetArgs ℚ 2 :=
  { inSig := [((0, 0), 1), ((1, 0), 1)], outSig := [((1, 0), 1)], mid := [((0, 0), 2), ((1, 0), 2)],
    depth := 2, bias := .auto, act := true, groupNorm := true, bank := exBank 2 3, M := 3,
    upBank := exBank 2 2, upM := 2, numDown := 1, numConv := 1, numBlocks := 1, preact := true,
    epsNorm := 1 / 100000, epsVN := 1 / 100000 }

theorem exArgs_ok (g : SP 2) : UNetOK g exArgs :=
  { odd := rfl, midNodup := by decide, outNodup := by decide, inv := exBank_invariant g 3,
    norm := by intro _; decide, upM := rfl, upInv := exBank_invariant g 2 }

def exθ : ParamFam ℚ :=
  { convW := fun id s t o c f => (id.length : ℚ) + s.1 + 2 * t.1 + o - c + f + 1,
    convB := fun _ t o => (t.1 : ℚ) + o + 1, normScale := fun _ _ c => (c : ℚ) + 2,
    normBias := fun _ _ c => (c : ℚ) - 1, vnW := fun _ _ i j => (i : ℚ) + 2 * j + 1 }

def exX : MI ℚ 2 :=
  { blocks := [((0, 0), ⟨1, fun _ => 4, fun _ y _ => 1 + y 0 - 3 * y 1⟩),
               ((1, 0), ⟨1, fun _ => 4, fun _ y T => y 0 + 2 * y 1 + (T.headD 0).val⟩)]
    dims := fun _ => 4, torus := fun j => j = 0 }


/-- the hypotheses of `mkUNet_wellFormed` / `resnet_equivariant` … hold for this configuration and EVERY
`g ∈ B_2` (pseudo-free signature `{(0,0),(1,0)} → {(1,0)}`, group norm, pre-activation order, one
down-sampling) -/
example (g : SP 2) (θ : ParamFam ℚ) (torus : Fin 2 → Bool) :
    WellFormed g torus (mkUNet θ exArgs) (fun _ => 4) ∧ WellFormed g torus (mkResNet θ exArgs) (fun _ => 4)
      ∧ WellFormed g torus (mkDilResNet θ exArgs) (fun _ => 4) :=
  ⟨mkUNet_wellFormed θ g torus exArgs (exArgs_ok g) _ (fun _ => by decide) (fun _ => by decide),
   mkResNet_wellFormed θ g torus exArgs (exArgs_ok g).toNetOK _ (fun _ => by decide),
   mkDilResNet_wellFormed θ g torus exArgs (exArgs_ok g).toNetOK _ (fun _ => by decide)⟩

/-- and the forward passes evaluate on a concrete input with one toroidal and one ordinary axis -/
example : (eval exF (mkResNet exθ exArgs) exX).isSome = true ∧
    (eval exF (mkUNet exθ exArgs) exX).isSome = true := by decide

/-- so `resnet_equivariant` has an instance with a real output `y` -/
example (g : SP 2) : ∃ y, eval exF (mkResNet exθ exArgs) exX = some y ∧
    ∃ y', eval exF (mkResNet exθ exArgs) (act g exX) = some y' ∧ MI.Equiv y' (act g y) := by
  cases h : eval exF (mkResNet exθ exArgs) exX with
  | none =>
    have : (eval exF (mkResNet exθ exArgs) exX).isSome = true := by decide
    rw [h] at this; cases this
  | some y =>
    refine ⟨y, rfl, ?_⟩
    refine resnet_equivariant g exF conjEquivariant_id exθ exArgs (exArgs_ok g).toNetOK exX ?_ ?_ y h
    · intro e he
      simp only [exX, List.mem_cons, List.mem_nil_iff, or_false] at he
      rcases he with rfl | rfl <;> rfl
    · intro j; show 0 < 4; decide

/-- `PlanOK` is satisfiable: the hypothesis of `trained_net_equivariant` on the plan -/
example (θ : ParamFam ℚ) : PlanOK (mkResNet θ exArgs) :=
  planOK_mkResNet SP.one θ exArgs (exArgs_ok SP.one).toNetOK

/-- a 2×2 scalar image with values 1, 2, 3, 4 -/
def exRamp : MI ℚ 2 :=
  { blocks := [((0, 0), ⟨1, fun _ => 2, fun _ y _ => y 0 + 2 * y 1 + 1⟩)]
    dims := fun _ => 2, torus := fun _ => true }

def exSmallArgs : BlockArgs ℚ 2 :=
  { inKeys := [((0, 0), 1)], outKeys := [((0, 0), 2), ((1, 0), 1)], bias := .auto, act := true,
    bank := exBank 2 3, M := 3, groupNorm := true, epsNorm := 1 / 100000, epsVN := 1 / 100000 }

/-- `MaxNormPool(2)` followed by a `ConvBlock` with `LayerNorm` and `VectorNeuronNonlinear` -/
def exSmall : Net ℚ 2 := .seq (.maxNormPool 2) (mkConvBlock exθ [] exSmallArgs)

theorem exRamp_unique : PoolUnique 2 exRamp := by
  intro e he
  simp only [exRamp, List.mem_singleton] at he
  subst he
  intro c _ y hy
  have hy0 := hy 0
  have hy1 := hy 1
  simp only [toBlk] at hy0 hy1
  have y0 : y 0 = 0 := by omega
  have y1 : y 1 = 0 := by omega
  refine ⟨fun _ => 1, fun j => by simp, ?_⟩
  intro b hb hne
  have hb0 : 0 ≤ b 0 ∧ b 0 < ((2 : Nat) : Int) := hb 0
  have hb1 : 0 ≤ b 1 ∧ b 1 < ((2 : Nat) : Int) := hb 1
  have hn : ¬ (b 0 = 1 ∧ b 1 = 1) := by
    rintro ⟨h0, h1⟩
    apply hne
    funext i
    fin_cases i
    · exact h0
    · exact h1
  have c0 : b 0 = 0 ∨ b 0 = 1 := by omega
  have c1 : b 1 = 0 ∨ b 1 = 1 := by omega
  simp only [normSq, sumIdx, toBlk, Blk.img, patchPix, y0, y1]
  rcases c0 with h0 | h0 <;> rcases c1 with h1 | h1
  · simp [h0, h1]; norm_num
  · simp [h0, h1]; norm_num
  · simp [h0, h1]; norm_num
  · exact absurd ⟨h0, h1⟩ hn


/-- a net WITH pooling satisfying `WellFormed` (for every `g ∈ B_2`) and `PoolGeneric` on a concrete
input on which it evaluates: `net_equivariant` applies to it -/
theorem exSmall_wellFormed (g : SP 2) : WellFormed g exRamp.torus exSmall exRamp.dims := by
  refine ⟨fun _ => (by decide : 2 ∣ 2), ?_⟩
  intro N' hN'
  simp only [outDims, Option.some.injEq] at hN'
  subst hN'
  exact mkConvBlock_wellFormed exθ [] g _ exSmallArgs
    { pad := rfl, ld := rfl, odd := rfl, nodup := by decide, inv := exBank_invariant g 3,
      norm := by intro _; decide } _ (fun _ => (by decide : 0 < 2 / 2))

theorem exSmall_poolGeneric : PoolGeneric exF exSmall exRamp :=
  ⟨exRamp_unique, fun y _ => poolGeneric_of_noPool exF _ (noPool_mkConvBlock exθ [] exSmallArgs) y⟩

example : (eval exF exSmall exRamp).isSome = true := by decide

example (g : SP 2) (y : MI ℚ 2) (hy : eval exF exSmall exRamp = some y) :
    ∃ y', eval exF exSmall (act g exRamp) = some y' ∧ MI.Equiv y' (act g y) :=
  net_equivariant g exF conjEquivariant_id exSmall exRamp
    (by intro e he; simp only [exRamp, List.mem_singleton] at he; subst he; rfl)
    (exSmall_wellFormed g) exSmall_poolGeneric y hy

end Examples

/-! ### capstone: the bank hypothesis discharged for the generated invariant filters

`Lemmas/Capstone.lean` builds the bank `Capstone.bankOfFamily R ops M ks ps t` — the Lean counterpart of
`geom.get_invariant_filters(Ms=[M], ks, parities, D, operators)` as assembled by
`MultiImage.from_images`, from the executable C03 model `uniqueInvariantFilters`, with values cast to
`R` and an arbitrary factor `t key f` per filter — and proves from C03 (`model_family_basis`) and the
link C03 ↔ C02 (`Lemmas/C03Link.lean`) that it satisfies `Layer.BankInv` for every operator of the
list.  Below that hypothesis of C06 / C07 is discharged: the chain

  generated filters ⇒ invariant bank ⇒ equivariant layer ⇒ equivariant network ⇒ equivariant trained
  network

is closed inside Lean.  `ops : List (C03.SP d)` is any operator list that is a finite group of signed
permutation matrices (`Capstone.ClosedOps`: non-empty, duplicate free, closed under the matrix product:
`B_d`, its rotation subgroup, `C2^d`, …); `h ∈ ops` acts as C02's signed permutation `C03.toAction h`
(same matrix: `C03.toAction_mat`).  Everything holds for every `d`, side `M` (odd where C07 requires
it), lists of orders `ks` and parities `ps`, rescaling `t`, and every parameter value.  The hypotheses
that genuinely remain are explicit. -/

section Generated

/-- **(b) the generated bank is invariant** under every operator of the list, in exactly the sense
`Layer.BankInv` that C06 / C07 assume -/
theorem bankOfFamily_invariant [CommRing R] {ops : List (C03.SP d)} (hops : Capstone.ClosedOps ops)
    (M : Nat) (ks ps : List Nat) (t : Ty → Nat → R) (h : C03.SP d) (hh : h ∈ ops) :
    BankInv (C03.toAction h) (fun _ => M) (Capstone.bankOfFamily R ops M ks ps t) :=
  Capstone.bankOfFamily_invariant hops M ks ps t h hh

/-- the same with the operator given as a signed permutation `g` of C02 (matrix `g.mat`) -/
theorem bankOfFamily_invariant_action [CommRing R] {ops : List (C03.SP d)}
    (hops : Capstone.ClosedOps ops) (M : Nat) (ks ps : List Nat) (t : Ty → Nat → R) (g : SP d)
    (hg : C03.spOfAction g ∈ ops) :
    BankInv g (fun _ => M) (Capstone.bankOfFamily R ops M ks ps t) :=
  Capstone.bankOfFamily_invariant_action hops M ks ps t g hg

/-- keys, dict order and block shapes of the generated bank are C03's `assembleBank` -/
theorem bankOfFamily_shape [CommRing R] (ops : List (C03.SP d)) (M : Nat) (ks ps : List Nat)
    (t : Ty → Nat → R) :
    C03.assembleBank (ops.map C03.SP.toCore) [M] ks ps =
      match (Capstone.bankOfFamily R ops M ks ps t).map (fun e => (e.1, (e.2.chans, M))) with
      | [] => none
      | l => some l :=
  Capstone.bankOfFamily_shape R ops M ks ps t

/-- **C06 for the generated bank** (model of the code `layerV`): every weight / bias / `μ` value;
remaining hypotheses: distinct target keys, symmetric options that fit, input on the layer's grid -/
theorem layer_equivariant_generated [CommRing R] {ops : List (C03.SP d)}
    (hops : Capstone.ClosedOps ops) (M : Nat) (ks ps : List Nat) (t : Ty → Nat → R) (h : C03.SP d)
    (hh : h ∈ ops) (P : Params R d) (hM : ∀ j, (P.ax j).M = M)
    (hbank : P.bank = Capstone.bankOfFamily R ops M ks ps t) (hn : KeysNodup P.target)
    (hs : ∀ j, (P.ax j).Sym) (hf : ∀ j, (P.ax j).Fits) (x : MImg R d)
    (hx : ∀ e ∈ x, e.2.dims = fun j => (P.ax j).N) (ty : Ty) (n : Nat) (ht : (ty, n) ∈ P.target) :
    (Layer.lookup (layerV (P.push (C03.toAction h)) (actMI (C03.toAction h) x)) ty).isSome
        = (Layer.lookup (layerV P x) ty).isSome ∧
    ∀ b b', Layer.lookup (layerV P x) ty = some b →
      Layer.lookup (layerV (P.push (C03.toAction h)) (actMI (C03.toAction h) x)) ty = some b' →
      b'.chans = (actBlock (C03.toAction h) ty b).chans ∧
      b'.dims = (actBlock (C03.toAction h) ty b).dims ∧
      ∀ o, o < n → ∀ (i' : Pix d) (T : List (Fin d)), T.length = ty.1 →
        b'.val o i' T = (actBlock (C03.toAction h) ty b).val o i' T :=
  Capstone.layer_equivariant_generated hops M ks ps t h hh P hM hbank hn hs hf x hx ty n ht

/-- the static hypotheses of a `ConvBlock` with the generated bank: only the options remain -/
theorem blockOK_generated [CommRing R] {ops : List (C03.SP d)} (hops : Capstone.ClosedOps ops)
    (ks ps : List Nat) (t : Ty → Nat → R) (h : C03.SP d) (hh : h ∈ ops) (a : BlockArgs R d)
    (hbank : a.bank = Capstone.bankOfFamily R ops a.M ks ps t) (hpad : a.pad = .none)
    (hld : a.ld = 1) (hodd : a.M % 2 = 1) (hn : KeysNodup a.outKeys)
    (hnorm : a.groupNorm = true → ∀ b ∈ a.outKeys, b.1.1 ≤ 1) : BlockOK (C03.toAction h) a :=
  { pad := hpad, ld := hld, odd := hodd, nodup := hn,
    inv := by rw [hbank]; exact Capstone.bankOfFamily_invariant hops a.M ks ps t h hh
    norm := hnorm }

/-- the static hypotheses of `ResNet` / `DilResNet` with the generated bank -/
theorem netOK_generated [CommRing R] {ops : List (C03.SP d)} (hops : Capstone.ClosedOps ops)
    (ks ps : List Nat) (t : Ty → Nat → R) (h : C03.SP d) (hh : h ∈ ops) (c : NetArgs R d)
    (hbank : c.bank = Capstone.bankOfFamily R ops c.M ks ps t) (hodd : c.M % 2 = 1)
    (hmid : KeysNodup c.mid) (hout : KeysNodup c.outSig)
    (hnorm : c.groupNorm = true → ∀ b ∈ c.mid, b.1.1 ≤ 1) : NetOK (C03.toAction h) c :=
  { odd := hodd, midNodup := hmid, outNodup := hout,
    inv := by rw [hbank]; exact Capstone.bankOfFamily_invariant hops c.M ks ps t h hh
    norm := hnorm }

/-- the static hypotheses of the `UNet`: conv bank of side `c.M`, up-sampling bank = the generated
family of side 2 (its own orders, parities and rescaling) -/
theorem unetOK_generated [CommRing R] {ops : List (C03.SP d)} (hops : Capstone.ClosedOps ops)
    (ks ps ks2 ps2 : List Nat) (t t2 : Ty → Nat → R) (h : C03.SP d) (hh : h ∈ ops) (c : NetArgs R d)
    (hbank : c.bank = Capstone.bankOfFamily R ops c.M ks ps t) (hup : c.upM = 2)
    (hupbank : c.upBank = Capstone.bankOfFamily R ops 2 ks2 ps2 t2) (hodd : c.M % 2 = 1)
    (hmid : KeysNodup c.mid) (hout : KeysNodup c.outSig)
    (hnorm : c.groupNorm = true → ∀ b ∈ c.mid, b.1.1 ≤ 1) : UNetOK (C03.toAction h) c :=
  { toNetOK := netOK_generated hops ks ps t h hh c hbank hodd hmid hout hnorm
    upM := hup
    upInv := by rw [hupbank, hup]; exact Capstone.bankOfFamily_invariant hops 2 ks2 ps2 t2 h hh }

/-- the bank leaves of a model all come from generated banks (any sides: the conv bank and the side-2
up-sampling bank of a U-Net, …) ⇒ C09's hypothesis `BankInvariant` for the group of the list -/
theorem bankInvariant_generated [CommRing R] {ops : List (C03.SP d)} (hops : Capstone.ClosedOps ops)
    (m : C09.Model (Net R d) (ParamFam R) (FB R d))
    (hbank : ∀ b ∈ m.bank, ∃ (M : Nat) (ks ps : List Nat) (t : Ty → Nat → R),
      b ∈ Capstone.leavesOfBank (Capstone.bankOfFamily R ops M ks ps t)) :
    C09.BankInvariant (Subtype (Capstone.InOps ops)) m := by
  intro b hb g
  obtain ⟨M, ks, ps, t, hm⟩ := hbank b hb
  exact Capstone.leaves_invariant hops M ks ps t b hm g

variable [Field R] [LinearOrder R]

/-- **every `ConvBlock` built on the generated filters is equivariant** under every operator of the
list, for every parameter value -/
theorem convBlock_equivariant_generated {ops : List (C03.SP d)} (hops : Capstone.ClosedOps ops)
    (ks ps : List Nat) (t : Ty → Nat → R) (h : C03.SP d) (hh : h ∈ ops) (F : Fns R d)
    (hS : ConjEquivariant F.S) (θ : ParamFam R) (id : List Nat) (a : BlockArgs R d)
    (hbank : a.bank = Capstone.bankOfFamily R ops a.M ks ps t) (hpad : a.pad = .none)
    (hld : a.ld = 1) (hodd : a.M % 2 = 1) (hn : KeysNodup a.outKeys)
    (hnorm : a.groupNorm = true → ∀ b ∈ a.outKeys, b.1.1 ≤ 1) (x : MI R d) (hx : x.Consistent)
    (hN : ∀ j, 0 < x.dims j) (y : MI R d) (hy : eval F (mkConvBlock θ id a) x = some y) :
    ∃ y', eval F (mkConvBlock θ id a) (act (C03.toAction h) x) = some y' ∧
      MI.Equiv y' (act (C03.toAction h) y) :=
  convBlock_equivariant (C03.toAction h) F hS θ id a
    (blockOK_generated hops ks ps t h hh a hbank hpad hld hodd hn hnorm) x hx hN y hy

/-- **every `ResNet` built on the generated filters is equivariant** under every operator of the list,
for every parameter value; remaining hypotheses: odd side, distinct keys, `GroupNorm` only on orders
`≤ 1`, `ConjEquivariant F.S`, a consistent input with positive extents on which the net evaluates -/
theorem resnet_equivariant_generated {ops : List (C03.SP d)} (hops : Capstone.ClosedOps ops)
    (ks ps : List Nat) (t : Ty → Nat → R) (h : C03.SP d) (hh : h ∈ ops) (F : Fns R d)
    (hS : ConjEquivariant F.S) (θ : ParamFam R) (c : NetArgs R d)
    (hbank : c.bank = Capstone.bankOfFamily R ops c.M ks ps t) (hodd : c.M % 2 = 1)
    (hmid : KeysNodup c.mid) (hout : KeysNodup c.outSig)
    (hnorm : c.groupNorm = true → ∀ b ∈ c.mid, b.1.1 ≤ 1) (x : MI R d) (hx : x.Consistent)
    (hN : ∀ j, 0 < x.dims j) (y : MI R d) (hy : eval F (mkResNet θ c) x = some y) :
    ∃ y', eval F (mkResNet θ c) (act (C03.toAction h) x) = some y' ∧
      MI.Equiv y' (act (C03.toAction h) y) :=
  resnet_equivariant (C03.toAction h) F hS θ c
    (netOK_generated hops ks ps t h hh c hbank hodd hmid hout hnorm) x hx hN y hy

/-- **every `DilResNet` built on the generated filters is equivariant** -/
theorem dilresnet_equivariant_generated {ops : List (C03.SP d)} (hops : Capstone.ClosedOps ops)
    (ks ps : List Nat) (t : Ty → Nat → R) (h : C03.SP d) (hh : h ∈ ops) (F : Fns R d)
    (hS : ConjEquivariant F.S) (θ : ParamFam R) (c : NetArgs R d)
    (hbank : c.bank = Capstone.bankOfFamily R ops c.M ks ps t) (hodd : c.M % 2 = 1)
    (hmid : KeysNodup c.mid) (hout : KeysNodup c.outSig)
    (hnorm : c.groupNorm = true → ∀ b ∈ c.mid, b.1.1 ≤ 1) (x : MI R d) (hx : x.Consistent)
    (hN : ∀ j, 0 < x.dims j) (y : MI R d) (hy : eval F (mkDilResNet θ c) x = some y) :
    ∃ y', eval F (mkDilResNet θ c) (act (C03.toAction h) x) = some y' ∧
      MI.Equiv y' (act (C03.toAction h) y) :=
  dilresnet_equivariant (C03.toAction h) F hS θ c
    (netOK_generated hops ks ps t h hh c hbank hodd hmid hout hnorm) x hx hN y hy

/-- **every `UNet` built on the generated filters** (conv bank of side `c.M`, up-sampling bank the
family of side 2) **is equivariant**; remaining hypotheses as for the ResNet plus extents divisible
by `2^num_downsamples` and unique pooling maxima along the evaluation (`PoolGeneric`) -/
theorem unet_equivariant_generated {ops : List (C03.SP d)} (hops : Capstone.ClosedOps ops)
    (ks ps ks2 ps2 : List Nat) (t t2 : Ty → Nat → R) (h : C03.SP d) (hh : h ∈ ops) (F : Fns R d)
    (hS : ConjEquivariant F.S) (θ : ParamFam R) (c : NetArgs R d)
    (hbank : c.bank = Capstone.bankOfFamily R ops c.M ks ps t) (hup : c.upM = 2)
    (hupbank : c.upBank = Capstone.bankOfFamily R ops 2 ks2 ps2 t2) (hodd : c.M % 2 = 1)
    (hmid : KeysNodup c.mid) (hout : KeysNodup c.outSig)
    (hnorm : c.groupNorm = true → ∀ b ∈ c.mid, b.1.1 ≤ 1) (x : MI R d) (hx : x.Consistent)
    (hN : ∀ j, 0 < x.dims j) (hdiv : ∀ j, 2 ^ c.numDown ∣ x.dims j)
    (hgen : PoolGeneric F (mkUNet θ c) x) (y : MI R d) (hy : eval F (mkUNet θ c) x = some y) :
    ∃ y', eval F (mkUNet θ c) (act (C03.toAction h) x) = some y' ∧
      MI.Equiv y' (act (C03.toAction h) y) :=
  unet_equivariant (C03.toAction h) F hS θ c
    (unetOK_generated hops ks ps ks2 ps2 t t2 h hh c hbank hup hupbank hodd hmid hout hnorm)
    x hx hN hdiv hgen y hy

/-- **after ANY training history, a model whose bank leaves are generated filters commutes with every
operator of the list** (pooling included: per input, with `PoolGeneric`); the plan must be well formed
(bank aside) at the input, `F.S` conjugation equivariant -/
theorem trained_model_equivariant_generated {ops : List (C03.SP d)} (hops : Capstone.ClosedOps ops)
    (F : Fns R d) (hS : ConjEquivariant F.S) (m : C09.Model (Net R d) (ParamFam R) (FB R d))
    (hbank : ∀ b ∈ m.bank, ∃ (M : Nat) (ks ps : List Nat) (t : Ty → Nat → R),
      b ∈ Capstone.leavesOfBank (Capstone.bankOfFamily R ops M ks ps t))
    (us : List (C09.Update (ParamFam R) R)) (h : C03.SP d) (hh : h ∈ ops) (x : MI R d)
    (hx : x.Consistent) (hwf : WellFormedPlan x.torus m.plan x.dims)
    (hgen : PoolGeneric F (netOf (C09.train m us).plan (C09.train m us).params (C09.train m us).bank) x)
    (y : MI R d)
    (hy : eval F (netOf (C09.train m us).plan (C09.train m us).params (C09.train m us).bank) x = some y) :
    ∃ y', eval F (netOf (C09.train m us).plan (C09.train m us).params (C09.train m us).bank)
        (act (C03.toAction h) x) = some y' ∧ MI.Equiv y' (act (C03.toAction h) y) :=
  trained_model_equivariant (Capstone.InOps ops) F hS m (bankInvariant_generated hops m hbank) us
    (C03.toAction h) ⟨h, hh, rfl⟩ x hx hwf hgen y hy

/-- **… and for plans without pooling (every `ResNet`, `DilResNet`, `ConvBlock`) the trained network is
strictly equivariant** as a map into multi-images modulo extensional equality, for the whole group of
the operator list (C09's `trained_equivariant` with both hypotheses discharged) -/
theorem trained_net_equivariant_generated {ops : List (C03.SP d)} (hops : Capstone.ClosedOps ops)
    (F : Fns R d) (hS : ConjEquivariant F.S) (m : C09.Model (Net R d) (ParamFam R) (FB R d))
    (hwf : PlanOK m.plan)
    (hbank : ∀ b ∈ m.bank, ∃ (M : Nat) (ks ps : List Nat) (t : Ty → Nat → R),
      b ∈ Capstone.leavesOfBank (Capstone.bankOfFamily R ops M ks ps t))
    (us : List (C09.Update (ParamFam R) R)) :
    C09.Equivariant (Subtype (Capstone.InOps ops))
      (evalQ F (C09.train m us).plan (C09.train m us).params (C09.train m us).bank) :=
  trained_net_equivariant (Capstone.InOps ops) (Capstone.inOps_inv hops) F hS m hwf
    (bankInvariant_generated hops m hbank) us

/-- non-vacuity: a U-Net configuration whose conv bank and up-sampling bank are the generated families
of the rotation group of the square (orders 0–2, both parities) satisfies every static hypothesis, for
every operator of the group -/
def genArgs : NetArgs ℚ 2 :=
  { exArgs with
    bank := Capstone.bankOfFamily ℚ Capstone.rotOps 3 [0, 1, 2] [0, 1] (fun _ _ => 1)
    upBank := Capstone.bankOfFamily ℚ Capstone.rotOps 2 [0, 1, 2] [0, 1] (fun _ _ => 1) }

example (h : C03.SP 2) (hh : h ∈ Capstone.rotOps) : UNetOK (C03.toAction h) genArgs :=
  unetOK_generated Capstone.rotOps_closed [0, 1, 2] [0, 1] [0, 1, 2] [0, 1] (fun _ _ => 1)
    (fun _ _ => 1) h hh genArgs rfl rfl rfl rfl (by decide) (by decide) (by intro _; decide)

end Generated

end GinjaxVerif.C07
