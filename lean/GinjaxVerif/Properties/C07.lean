import GinjaxVerif.Lemmas.C07Build
import GinjaxVerif.Properties.C08
import GinjaxVerif.Properties.C09
import Mathlib.Algebra.Order.Field.Rat
import Mathlib.Algebra.Order.Ring.Rat

/-!
# C07 — equivariant networks are equivariant end to end

`Net` / `eval` (`Model/C07.lean`) is the forward pass of a tree of layer objects on multi-images with
values; `mkConvBlock`, `mkResNet`, `mkDilResNet`, `mkUNet` reproduce the constructors of `models.py` in
equivariant mode.  Everything below holds

* for **every value of every learnable array** (weights, biases, normalisation scales and biases,
  vector-neuron mixing matrices: fields of the nodes resp. the arbitrary parameter family `θ`),
* for every activation / `sqrt` / `abs` / `rsqrt` / `max(0,·)` function (`F : Fns R d`, no assumption)
  and every matrix function `F.S` standing for `eigh` that commutes with conjugation by signed
  permutations (`hS : ConjEquivariant F.S`; satisfied by the identity and every polynomial, C08),
* over every linearly ordered field `R` (ℝ in particular), every dimension `d`, all extents (square or
  not), every combination of toroidal / non-toroidal axes, every signature with distinct keys
  (pseudo-types included), every `g ∈ B_d` (`SP d`; `net_equivariant_tge`: every matrix accepted by
  `isSignedPerm`, with the model `tge` of the library's own `times_group_element`).

Hypotheses: `WellFormed` (static; proved for every constructor configuration by `mk*_wellFormed`, from
an invariant bank and positive extents — divisible by `2^num_downsamples` for the U-Net), `hS`, and
`PoolGeneric` (runtime: per-patch uniqueness of the maximal norm wherever a `MaxNormPool` is
evaluated; trivially true for the ResNets and ConvBlocks, `poolGeneric_of_noPool`).

Conclusion: wherever the forward pass evaluates (`eval … = some y`: the code does not raise), it
evaluates on the transformed input, and the result is — blockwise, on its channels, on the pixels of
its box and at tensor multi-indices of the declared order — the transformed output, each block
transforming with the type `(k, p)` it is stored under (`MI.Equiv y' (act g y)`).

The forward pass is tied to the code structurally (layer plan `trace`, diffed against the recorded
forward pass of the real model); the per-layer numerics are those of C06 / C08 / C11.
-/
namespace GinjaxVerif.C07

open GinjaxVerif GinjaxVerif.C20 GinjaxVerif.Layer

variable {R : Type} {d : Nat}

/-! ### extensional equality of multi-images -/

/-- same keys in the same order, same extents and flags, and blockwise `Blk.Equiv` with the order of
the key -/
def MI.Equiv (a b : MI R d) : Prop :=
  a.dims = b.dims ∧ a.torus = b.torus ∧
    List.Forall₂ (fun e' e => e'.1 = e.1 ∧ (toBlk e.1 e'.2).Equiv (toBlk e.1 e.2)) a.blocks b.blocks

theorem rel_iff_equiv_act [CommRing R] (g : SP d) (y' y : MI R d) :
    Rel g y' y ↔ MI.Equiv y' (act g y) := by
  constructor
  · rintro ⟨h1, h2, h3⟩
    refine ⟨h1, h2, ?_⟩
    show List.Forall₂ _ y'.blocks (List.map _ y.blocks)
    rw [List.forall₂_map_right_iff]
    exact h3
  · rintro ⟨h1, h2, h3⟩
    refine ⟨h1, h2, ?_⟩
    have h3' : List.Forall₂ _ y'.blocks (List.map _ y.blocks) := h3
    rw [List.forall₂_map_right_iff] at h3'
    exact h3'

theorem rel_iff_equiv_tgeAct [CommRing R] (g : SP d) (y' y : MI R d) :
    Rel g y' y ↔ MI.Equiv y' (tgeAct g.mat y) := by
  have key : ∀ (e' e : Ty × Block R d),
      (e'.1 = e.1 ∧ BRel g e.1 e'.2 e.2) ↔
      (e'.1 = e.1 ∧ (toBlk e.1 e'.2).Equiv (toBlk e.1 (tgeBlock g.mat e.1 e.2))) := by
    intro e' e
    have hb : toBlk e.1 (tgeBlock g.mat e.1 e.2) = tgeBlk g.mat e.1.2 (toBlk e.1 e.2) := rfl
    rw [hb]
    constructor
    · rintro ⟨hk, h⟩; exact ⟨hk, h.trans (tgeBlk_equiv_pfBlk g e.1.2 _).symm⟩
    · rintro ⟨hk, h⟩; exact ⟨hk, h.trans (tgeBlk_equiv_pfBlk g e.1.2 _)⟩
  constructor
  · rintro ⟨h1, h2, h3⟩
    refine ⟨by rw [h1]; exact (rotDims_mat' g y.dims).symm,
      by rw [h2]; exact (transport_mat' g y.torus).symm, ?_⟩
    show List.Forall₂ _ y'.blocks (List.map _ y.blocks)
    rw [List.forall₂_map_right_iff]
    exact List.Forall₂.imp (fun e' e h => (key e' e).1 h) h3
  · rintro ⟨h1, h2, h3⟩
    refine ⟨h1.trans (rotDims_mat' g y.dims), h2.trans (transport_mat' g y.torus), ?_⟩
    have h3' : List.Forall₂ _ y'.blocks (List.map _ y.blocks) := h3
    rw [List.forall₂_map_right_iff] at h3'
    exact List.Forall₂.imp (fun e' e h => (key e' e).2 h) h3'

/-! ### the main theorem -/

section Main
variable [Field R] [LinearOrder R]

/-- **C07.**  A well-formed network commutes with `g`: for every parameter value, on every consistent
input on which it evaluates and whose pooling patches have unique maxima along the evaluation. -/
theorem net_equivariant (g : SP d) (F : Fns R d) (hS : ConjEquivariant F.S) (net : Net R d)
    (x : MI R d) (hx : x.Consistent) (hwf : WellFormed g x.torus net x.dims)
    (hgen : PoolGeneric F net x) (y : MI R d) (hy : eval F net x = some y) :
    ∃ y', eval F net (act g x) = some y' ∧ MI.Equiv y' (act g y) := by
  obtain ⟨y', h1, h2⟩ := eval_rel g F hS net x (act g x) y hx (rel_act g x) hwf hgen hy
  exact ⟨y', h1, (rel_iff_equiv_act g y' y).1 h2⟩

/-- **C07 for every matrix the library accepts**, with the model `tge` of `times_group_element` as the
action on input and output and the code's `transport` rule for the flags. -/
theorem net_equivariant_tge (M : Mat d) (hM : isSignedPerm M = true) (F : Fns R d)
    (hS : ConjEquivariant F.S) (net : Net R d) (x : MI R d) (hx : x.Consistent)
    (hwf : ∀ g : SP d, g.mat = M → WellFormed g x.torus net x.dims)
    (hgen : PoolGeneric F net x) (y : MI R d) (hy : eval F net x = some y) :
    ∃ y', eval F net (tgeAct M x) = some y' ∧ MI.Equiv y' (tgeAct M y) := by
  obtain ⟨g, rfl⟩ := exists_SP_of_isSignedPerm M hM
  obtain ⟨y', h1, h2⟩ := eval_rel g F hS net x (tgeAct g.mat x) y hx (rel_tgeAct g x) (hwf g rfl) hgen hy
  exact ⟨y', h1, (rel_iff_equiv_tgeAct g y' y).1 h2⟩

/-- the relational form (what composes): a related input gives a related output -/
theorem net_equivariant_rel (g : SP d) (F : Fns R d) (hS : ConjEquivariant F.S) (net : Net R d)
    (x x' : MI R d) (hx : x.Consistent) (hr : MI.Equiv x' (act g x))
    (hwf : WellFormed g x.torus net x.dims) (hgen : PoolGeneric F net x) (y : MI R d)
    (hy : eval F net x = some y) : ∃ y', eval F net x' = some y' ∧ MI.Equiv y' (act g y) := by
  obtain ⟨y', h1, h2⟩ :=
    eval_rel g F hS net x x' y hx ((rel_iff_equiv_act g x' x).2 hr) hwf hgen hy
  exact ⟨y', h1, (rel_iff_equiv_act g y' y).1 h2⟩

/-- extents and flags of the output, and consistency, as computed by the static calculus `outDims`
that `WellFormed` is threaded with -/
theorem net_shape (F : Fns R d) (net : Net R d) (x y : MI R d) (hx : x.Consistent)
    (hy : eval F net x = some y) :
    y.Consistent ∧ y.torus = x.torus ∧ outDims x.torus net x.dims = some y.dims :=
  eval_shape F net x y hx hy

end Main

/-! ### every constructor configuration is well formed -/

section Builders
variable [CommRing R]

/-- **`ConvBlock`** — both activation orders, with / without `LayerNorm`, with / without activation,
all five bias settings, any signatures, any filter dilation: well formed on every input with positive
extents, for every `g` under which the bank is invariant. -/
theorem mkConvBlock_wellFormed (θ : ParamFam R) (id : List Nat) (g : SP d) (torus : Fin d → Bool)
    (a : BlockArgs R d) (h : BlockOK g a) (N : Fin d → Nat) (hN : ∀ j, 0 < N j) :
    WellFormed g torus (mkConvBlock θ id a) N := (mkConvBlock_wfSame θ id g torus a h N hN).1

/-- **`ResNet`** — every depth, number of blocks and convolutions, activation or none, group norm
on/off, pre-activation order on/off, bias setting, signatures with distinct keys -/
theorem mkResNet_wellFormed (θ : ParamFam R) (g : SP d) (torus : Fin d → Bool) (c : NetArgs R d)
    (h : NetOK g c) (N : Fin d → Nat) (hN : ∀ j, 0 < N j) : WellFormed g torus (mkResNet θ c) N :=
  (mkResNet_wfSame θ g torus c h N hN).1

/-- **`DilResNet`** — dilation schedule 1, 2, 4, 8, 4, 2, 1 -/
theorem mkDilResNet_wellFormed (θ : ParamFam R) (g : SP d) (torus : Fin d → Bool) (c : NetArgs R d)
    (h : NetOK g c) (N : Fin d → Nat) (hN : ∀ j, 0 < N j) : WellFormed g torus (mkDilResNet θ c) N :=
  (mkDilResNet_wfSame θ g torus c h N hN).1

/-- **`UNet`** — every number of down-samplings and convolutions per level, on inputs whose extents
are positive multiples of `2^num_downsamples` (torus or SAME-padded or mixed) -/
theorem mkUNet_wellFormed (θ : ParamFam R) (g : SP d) (torus : Fin d → Bool) (c : NetArgs R d)
    (h : UNetOK g c) (N : Fin d → Nat) (hN : ∀ j, 0 < N j) (hdiv : ∀ j, 2 ^ c.numDown ∣ N j) :
    WellFormed g torus (mkUNet θ c) N := (mkUNet_wfSame θ g torus c h N hN hdiv).1

/-- and all four keep the extents (the output lives on the input's grid) -/
theorem mk_outDims (θ : ParamFam R) (g : SP d) (torus : Fin d → Bool) (c : NetArgs R d)
    (N : Fin d → Nat) (hN : ∀ j, 0 < N j) :
    (NetOK g c → outDims torus (mkResNet θ c) N = some N ∧ outDims torus (mkDilResNet θ c) N = some N) ∧
    (UNetOK g c → (∀ j, 2 ^ c.numDown ∣ N j) → outDims torus (mkUNet θ c) N = some N) :=
  ⟨fun h => ⟨(mkResNet_wfSame θ g torus c h N hN).2, (mkDilResNet_wfSame θ g torus c h N hN).2⟩,
   fun h hdiv => (mkUNet_wfSame θ g torus c h N hN hdiv).2⟩

end Builders

/-! ### per-class corollaries -/

section Classes
variable [Field R] [LinearOrder R]

/-- **every `ConvBlock` is equivariant** -/
theorem convBlock_equivariant (g : SP d) (F : Fns R d) (hS : ConjEquivariant F.S) (θ : ParamFam R)
    (id : List Nat) (a : BlockArgs R d) (h : BlockOK g a) (x : MI R d) (hx : x.Consistent)
    (hN : ∀ j, 0 < x.dims j) (y : MI R d) (hy : eval F (mkConvBlock θ id a) x = some y) :
    ∃ y', eval F (mkConvBlock θ id a) (act g x) = some y' ∧ MI.Equiv y' (act g y) :=
  net_equivariant g F hS _ x hx (mkConvBlock_wellFormed θ id g x.torus a h x.dims hN)
    (poolGeneric_of_noPool F _ (noPool_mkConvBlock θ id a) x) y hy

/-- **every `ResNet` is equivariant**, for every parameter value -/
theorem resnet_equivariant (g : SP d) (F : Fns R d) (hS : ConjEquivariant F.S) (θ : ParamFam R)
    (c : NetArgs R d) (h : NetOK g c) (x : MI R d) (hx : x.Consistent) (hN : ∀ j, 0 < x.dims j)
    (y : MI R d) (hy : eval F (mkResNet θ c) x = some y) :
    ∃ y', eval F (mkResNet θ c) (act g x) = some y' ∧ MI.Equiv y' (act g y) :=
  net_equivariant g F hS _ x hx (mkResNet_wellFormed θ g x.torus c h x.dims hN)
    (poolGeneric_of_noPool F _ (noPool_mkResNet θ c) x) y hy

/-- **every `DilResNet` is equivariant**, for every parameter value -/
theorem dilresnet_equivariant (g : SP d) (F : Fns R d) (hS : ConjEquivariant F.S) (θ : ParamFam R)
    (c : NetArgs R d) (h : NetOK g c) (x : MI R d) (hx : x.Consistent) (hN : ∀ j, 0 < x.dims j)
    (y : MI R d) (hy : eval F (mkDilResNet θ c) x = some y) :
    ∃ y', eval F (mkDilResNet θ c) (act g x) = some y' ∧ MI.Equiv y' (act g y) :=
  net_equivariant g F hS _ x hx (mkDilResNet_wellFormed θ g x.torus c h x.dims hN)
    (poolGeneric_of_noPool F _ (noPool_mkDilResNet θ c) x) y hy

/-- **every `UNet` is equivariant**, for every parameter value, on inputs whose extents are positive
multiples of `2^num_downsamples` and whose pooling patches have unique maxima along the evaluation -/
theorem unet_equivariant (g : SP d) (F : Fns R d) (hS : ConjEquivariant F.S) (θ : ParamFam R)
    (c : NetArgs R d) (h : UNetOK g c) (x : MI R d) (hx : x.Consistent) (hN : ∀ j, 0 < x.dims j)
    (hdiv : ∀ j, 2 ^ c.numDown ∣ x.dims j) (hgen : PoolGeneric F (mkUNet θ c) x)
    (y : MI R d) (hy : eval F (mkUNet θ c) x = some y) :
    ∃ y', eval F (mkUNet θ c) (act g x) = some y' ∧ MI.Equiv y' (act g y) :=
  net_equivariant g F hS _ x hx (mkUNet_wellFormed θ g x.torus c h x.dims hN hdiv) hgen y hy

end Classes

end GinjaxVerif.C07
