import GinjaxVerif.Lemmas.C15

/-!
# C15 — time-series windowing yields exactly the causal (past, future) pairs

All theorems are about the model `toWindows` / `batchTimeSeries` of `Model/C15.lean` (the code's own
arithmetic and re-layouts) and hold for every trajectory length `T`, past/future step counts
`p, f ≥ 1`, spacing `dt ≥ 1`, skip `s` with at least one window (`Valid`), every number of tensor
types, every channel count `≥ 1` per type, every frame content, every pooling function and every
number of poolings.  A dynamic multi-image is described by its signature
`sig : List (key × channels × (channel → time → frame))` (`mkDyn T sig`; every block of extent
`c·T` has this form, `mkBlock_surjective`).
-/
namespace GinjaxVerif.C15

variable {α κ : Type} [DecidableEq κ]

/-- every block of extent `c·T` is `mkBlock c T fr` for some frame function -/
theorem mkBlock_surjective [Inhabited α] (c T : Nat) (l : List α) (hl : l.length = c * T) :
    ∃ fr : Nat → Nat → α, l = mkBlock c T fr := by
  refine ⟨fun ch t => l[ch * T + t]?.getD default, ?_⟩
  apply List.ext_getElem?
  intro i
  by_cases hi : i < c * T
  · have hT : 0 < T := by
      rcases Nat.eq_zero_or_pos T with h | h
      · subst h; omega
      · exact h
    have h1 : i / T < c := (Nat.div_lt_iff_lt_mul hT).mpr hi
    have h2 : i % T < T := Nat.mod_lt _ hT
    have h3 : i / T * T + i % T = i := by rw [Nat.mul_comm]; exact Nat.div_add_mod i T
    have := getElem?_flatMap_range c T (fun ch t => l[ch * T + t]?.getD default) (i / T) (i % T) h1 h2
    rw [h3] at this
    unfold mkBlock
    rw [this]
    have : i < l.length := by omega
    simp [this]
  · have h1 : l.length ≤ i := by omega
    have h2 : (mkBlock c T fun ch t => l[ch * T + t]?.getD default).length ≤ i := by
      rw [length_mkBlock]; omega
    rw [List.getElem?_eq_none h1, List.getElem?_eq_none h2]

/-! ## the index arithmetic -/

/-- `time_series_idxs` returns exactly the windows of the statement: `T' − (p+f−1)·dt` rows,
row `w` = times `w + j·dt` (input) and `w + (p+j)·dt` (target). -/
theorem timeSeriesIdxs_spec {T p f dt s : Nat} (hv : Valid T p f dt s) :
    timeSeriesIdxs p f dt ((T : Int) - s)
      = some (idxSpec (nWindows T p f dt s) p 0 dt, idxSpec (nWindows T p f dt s) f p dt) := by
  apply timeSeriesIdxs_window p f dt _ hv.hp hv.hf hv.hdt hv.n_pos
  have := hv.hwin
  unfold nWindows
  omega

/-- a configuration without a window is rejected (the first `assert`) -/
theorem toWindows_no_window (pool : α → α) {T p f dt s : Nat} (ds : Nat) (hp : 1 ≤ p) (hf : 1 ≤ f)
    (h : T ≤ s + (p + f - 1) * dt) (dyn const : MI κ (List α)) :
    toWindows pool T p f dt s ds dyn const = none := by
  unfold toWindows
  rw [timeSeriesIdxs_no_window p f dt hp hf _ (by omega)]
  split <;> rfl

/-- **no target time is an input time of the same sample**: in every row pair returned by the
model of `time_series_idxs`, every target index is strictly later than every input index. -/
theorem target_not_input {p f dt : Nat} (hp : 1 ≤ p) (hf : 1 ≤ f) (hdt : 1 ≤ dt) (T' : Int)
    (inI outI : List (List Nat)) (h : timeSeriesIdxs p f dt T' = some (inI, outI))
    (w : Nat) (rowI rowO : List Nat) (hI : inI[w]? = some rowI) (hO : outI[w]? = some rowO) :
    ∀ i ∈ rowI, ∀ o ∈ rowO, i < o := by
  by_cases hT : T' ≤ (((p + f - 1) * dt : Nat) : Int)
  · rw [timeSeriesIdxs_no_window p f dt hp hf T' hT] at h
    exact absurd h (by simp)
  · obtain ⟨n, hn⟩ : ∃ n : Nat, T' = (((p + f - 1) * dt + n : Nat) : Int) :=
      ⟨(T' - (((p + f - 1) * dt : Nat) : Int)).toNat, by omega⟩
    have hn1 : 1 ≤ n := by omega
    rw [timeSeriesIdxs_window p f dt n hp hf hdt hn1 T' hn] at h
    simp only [Option.some.injEq, Prod.mk.injEq] at h
    obtain ⟨rfl, rfl⟩ := h
    simp only [idxSpec, List.getElem?_map, Option.map_eq_some_iff] at hI hO
    obtain ⟨w1, hw1, rfl⟩ := hI
    obtain ⟨w2, hw2, rfl⟩ := hO
    have e1 : w1 = w := by
      obtain ⟨_, h⟩ := List.getElem?_eq_some_iff.mp hw1
      simpa using h.symm
    have e2 : w2 = w := by
      obtain ⟨_, h⟩ := List.getElem?_eq_some_iff.mp hw2
      simpa using h.symm
    subst e1 e2
    intro i hi o ho
    simp only [List.mem_map, List.mem_range] at hi ho
    obtain ⟨j, hj, rfl⟩ := hi
    obtain ⟨j', _, rfl⟩ := ho
    have : (0 + j) * dt < (p + j') * dt := Nat.mul_lt_mul_of_pos_right (by omega) (by omega)
    omega

/-! ## the windows -/

/-- pooled signature: the same channels with every frame replaced by its `ds`-fold pooling -/
def poolSig (g : α → α) (sig : List (κ × Nat × (Nat → Nat → α))) :
    List (κ × Nat × (Nat → Nat → α)) :=
  sig.map (fun e => (e.1, e.2.1, fun ch t => g (e.2.2 ch t)))

omit [DecidableEq κ] in
theorem mkDyn_poolSig (g : α → α) (T : Nat) (sig : List (κ × Nat × (Nat → Nat → α))) :
    mkDyn T (poolSig g sig) = mapVals (List.map g) (mkDyn T sig) := by
  simp only [mkDyn, poolSig, mapVals, List.map_map]
  apply List.map_congr_left
  intro e _
  simp [Function.comp_def, mkBlock, List.map_flatMap]

omit [DecidableEq κ] in
theorem specMI_poolSig (g : α → α) (n m a dt s : Nat) (sig : List (κ × Nat × (Nat → Nat → α))) :
    specMI n m a dt s (poolSig g sig) = mapVals (List.map (List.map g)) (specMI n m a dt s sig) := by
  simp only [specMI, poolSig, mapVals, List.map_map]
  apply List.map_congr_left
  intro e _
  simp [Function.comp_def, specBlock, specSample, List.map_flatMap]

theorem appendKey_natural {β γ : Type} (h : β → γ) (cat : β → β → β) (cat' : γ → γ → γ)
    (hcat : ∀ a b, h (cat a b) = cat' (h a) (h b)) (m : MI κ β) (k : κ) (b : β) :
    mapVals h (appendKey cat m k b) = appendKey cat' (mapVals h m) k (h b) := by
  induction m with
  | nil => rfl
  | cons kb r ih =>
    obtain ⟨k₀, b₀⟩ := kb
    by_cases h0 : k₀ = k
    · simp [appendKey, mapVals, h0, hcat]
    · simp only [mapVals] at ih
      simp [appendKey, mapVals, h0, ih]

theorem appendConsts_natural (g : α → α) (n : Nat) (const : MI κ (List α))
    (x : MI κ (List (List α))) :
    mapVals (List.map (List.map g)) (appendConsts n const x)
      = appendConsts n (mapVals (List.map g) const) (mapVals (List.map (List.map g)) x) := by
  unfold appendConsts
  induction const generalizing x with
  | nil => rfl
  | cons kc r ih =>
    simp only [List.foldl_cons, mapVals, List.map_cons] at ih ⊢
    rw [ih]
    congr 1
    have := appendKey_natural (κ := κ) (List.map (List.map g)) (List.zipWith (· ++ ·))
      (List.zipWith (· ++ ·)) (by
        intro a b
        simp [List.map_zipWith, List.zipWith_map]) x kc.1 (List.replicate n kc.2)
    simp only [mapVals] at this
    rw [this]
    simp


section Windows
variable (pool : α → α) {T p f dt s : Nat} (ds : Nat) (hv : Valid T p f dt s)
  (sig : List (κ × Nat × (Nat → Nat → α))) (hne : sig ≠ []) (hc : ∀ e ∈ sig, 1 ≤ e.2.1)
  (const : MI κ (List α))
include hv hne hc

/-- **count**: on a valid configuration the code accepts, and every block of the input and of the
target multi-image (every type, constant-only types included) has exactly
`T − s − (p+f−1)·dt` samples. -/
theorem windows_count :
    ∃ X Y, toWindows pool T p f dt s ds (mkDyn T sig) const = some (X, Y) ∧
      AllLen (T - s - (p + f - 1) * dt) X ∧ AllLen (T - s - (p + f - 1) * dt) Y := by
  refine ⟨_, _, toWindows_eq_spec pool ds hv sig hne hc const, ?_, ?_⟩
  · exact AllLen.iter_poolMI pool ds _ (AllLen.appendConsts const _ (AllLen.specMI _ _ _ _ _ sig))
  · exact AllLen.iter_poolMI pool ds _ (AllLen.specMI _ _ _ _ _ sig)

/-- the input block of a dynamic type: the statement's windows, each followed by the constants of
that type (if any), every frame pooled `ds` times -/
theorem lookup_input (hk : (sig.map Prod.fst).Nodup) (hkc : (const.map Prod.fst).Nodup)
    (e : κ × Nat × (Nat → Nat → α)) (he : e ∈ sig) :
    ∃ X Y, toWindows pool T p f dt s ds (mkDyn T sig) const = some (X, Y) ∧
      lookup e.1 X = some (((specBlock (nWindows T p f dt s) e.2.1 p 0 dt s e.2.2).map
        (· ++ (lookup e.1 const).getD [])).map (List.map (iter pool ds))) := by
  refine ⟨_, _, toWindows_eq_spec pool ds hv sig hne hc const, ?_⟩
  rw [lookup_iter_poolMI, lookup_appendConsts_of_some _ const hkc _ e.1
    (specBlock (nWindows T p f dt s) e.2.1 p 0 dt s e.2.2)]
  · rfl
  · exact lookup_map_of_mem sig Prod.fst _ hk e he
  · simp [specBlock]

/-- the target block of a dynamic type: the statement's windows pooled `ds` times; the constant
fields occur nowhere in it -/
theorem lookup_target (hk : (sig.map Prod.fst).Nodup)
    (e : κ × Nat × (Nat → Nat → α)) (he : e ∈ sig) :
    ∃ X Y, toWindows pool T p f dt s ds (mkDyn T sig) const = some (X, Y) ∧
      lookup e.1 Y = some ((specBlock (nWindows T p f dt s) e.2.1 f p dt s e.2.2).map
        (List.map (iter pool ds))) := by
  refine ⟨_, _, toWindows_eq_spec pool ds hv sig hne hc const, ?_⟩
  rw [lookup_iter_poolMI]
  have := lookup_map_of_mem sig Prod.fst
    (fun e => specBlock (nWindows T p f dt s) e.2.1 f p dt s e.2.2) hk e he
  unfold specMI
  rw [this]
  rfl

/-- **input**: sample `w`, channel `ch`, step `j` of the input of type `k` is frame `ch` of that
type at time `s + w + j·dt` (pooled `ds` times), at position `ch·p + j`: per channel, in time
order. -/
theorem window_input (hk : (sig.map Prod.fst).Nodup) (hkc : (const.map Prod.fst).Nodup)
    (k : κ) (c : Nat) (fr : Nat → Nat → α) (he : (k, c, fr) ∈ sig)
    (w ch j : Nat) (hw : w < T - s - (p + f - 1) * dt) (hch : ch < c) (hj : j < p) :
    ∃ X Y, toWindows pool T p f dt s ds (mkDyn T sig) const = some (X, Y) ∧
      ∃ blk row, lookup k X = some blk ∧ blk[w]? = some row ∧
        row[ch * p + j]? = some (iter pool ds (fr ch (s + w + j * dt))) := by
  obtain ⟨X, Y, h, hl⟩ := lookup_input pool ds hv sig hne hc const hk hkc (k, c, fr) he
  refine ⟨X, Y, h, _,
    (specSample c p 0 dt s fr w ++ (lookup k const).getD []).map (iter pool ds), hl, ?_, ?_⟩
  · simp only [specBlock, List.map_map, List.getElem?_map, nWindows]
    rw [List.getElem?_range hw]
    rfl
  · simp only [List.getElem?_map]
    have h1 := getElem?_flatMap_range c p (fun ch j => fr ch (s + w + (0 + j) * dt)) ch j hch hj
    have hlen : (specSample c p 0 dt s fr w).length = c * p := by
      have := length_mkBlock c p (fun ch j => fr ch (s + w + (0 + j) * dt))
      simpa [mkBlock, specSample] using this
    rw [List.getElem?_append_left]
    · unfold specSample
      rw [h1]
      simp
    · rw [hlen]
      calc ch * p + j < ch * p + p := by omega
        _ = (ch + 1) * p := by rw [Nat.add_mul, Nat.one_mul]
        _ ≤ c * p := Nat.mul_le_mul_right p hch

/-- **target**: sample `w`, channel `ch`, step `j` of the target of type `k` is frame `ch` at time
`s + w + (p + j)·dt` (pooled `ds` times), at position `ch·f + j`. -/
theorem window_target (hk : (sig.map Prod.fst).Nodup)
    (k : κ) (c : Nat) (fr : Nat → Nat → α) (he : (k, c, fr) ∈ sig)
    (w ch j : Nat) (hw : w < T - s - (p + f - 1) * dt) (hch : ch < c) (hj : j < f) :
    ∃ X Y, toWindows pool T p f dt s ds (mkDyn T sig) const = some (X, Y) ∧
      ∃ blk row, lookup k Y = some blk ∧ blk[w]? = some row ∧
        row[ch * f + j]? = some (iter pool ds (fr ch (s + w + (p + j) * dt))) := by
  obtain ⟨X, Y, h, hl⟩ := lookup_target pool ds hv sig hne hc const hk (k, c, fr) he
  refine ⟨X, Y, h, _, (specSample c f p dt s fr w).map (iter pool ds), hl, ?_, ?_⟩
  · simp only [specBlock, List.map_map, List.getElem?_map, nWindows]
    rw [List.getElem?_range hw]
    rfl
  · simp only [List.getElem?_map]
    have h1 := getElem?_flatMap_range c f (fun ch j => fr ch (s + w + (p + j) * dt)) ch j hch hj
    unfold specSample
    rw [h1]
    rfl

/-- **constants**: (a) in the input of a type that has constant fields `cs`, every sample is its
dynamic channels followed by `cs` unchanged (only pooled like everything else); (b) a type with
only constant fields appears in the input as `cs` repeated for every sample; (c) the target
multi-image is the statement's windows — it does not depend on the constants at all. -/
theorem constants_in_inputs_only (hk : (sig.map Prod.fst).Nodup)
    (hkc : (const.map Prod.fst).Nodup) :
    ∃ X Y, toWindows pool T p f dt s ds (mkDyn T sig) const = some (X, Y) ∧
      (∀ k c fr cs, (k, c, fr) ∈ sig → lookup k const = some cs →
        ∀ w, w < nWindows T p f dt s → ∃ blk, lookup k X = some blk ∧
          blk[w]? = some ((specSample c p 0 dt s fr w ++ cs).map (iter pool ds))) ∧
      (∀ k cs, k ∉ sig.map Prod.fst → lookup k const = some cs →
        lookup k X = some (List.replicate (nWindows T p f dt s) (cs.map (iter pool ds)))) ∧
      Y = iter (poolMI pool) ds (specMI (nWindows T p f dt s) f p dt s sig) ∧
      (∃ X', toWindows pool T p f dt s ds (mkDyn T sig) [] = some (X', Y)) := by
  refine ⟨_, _, toWindows_eq_spec pool ds hv sig hne hc const, ?_, ?_, rfl,
    ⟨_, toWindows_eq_spec pool ds hv sig hne hc []⟩⟩
  · intro k c fr cs he hcs w hw
    obtain ⟨X, Y, h, hl⟩ := lookup_input pool ds hv sig hne hc const hk hkc (k, c, fr) he
    rw [toWindows_eq_spec pool ds hv sig hne hc const] at h
    simp only [Option.some.injEq, Prod.mk.injEq] at h
    obtain ⟨rfl, rfl⟩ := h
    refine ⟨_, hl, ?_⟩
    simp only [specBlock, List.map_map, List.getElem?_map, hcs]
    rw [List.getElem?_range hw]
    rfl
  · intro k cs hk' hcs
    rw [lookup_iter_poolMI, lookup_appendConsts_of_none _ const hkc _ k]
    · simp [hcs]
    · apply lookup_eq_none_of_not_mem
      simpa [specMI] using hk'

/-- **downsampling commutes with windowing**: windowing and then pooling every frame `ds` times
(what the code does) equals windowing the trajectory whose frames (dynamic and constant) were
pooled `ds` times beforehand. -/
theorem downsample_commutes :
    toWindows pool T p f dt s ds (mkDyn T sig) const
      = toWindows pool T p f dt s 0 (mkDyn T (poolSig (iter pool ds) sig))
          (mapVals (List.map (iter pool ds)) const) := by
  have hne' : poolSig (iter pool ds) sig ≠ [] := by
    cases sig with
    | nil => exact absurd rfl hne
    | cons e r => simp [poolSig]
  have hc' : ∀ e ∈ poolSig (iter pool ds) sig, 1 ≤ e.2.1 := by
    intro e he
    simp only [poolSig, List.mem_map] at he
    obtain ⟨e', he', rfl⟩ := he
    exact hc e' he'
  rw [toWindows_eq_spec pool ds hv sig hne hc const,
    toWindows_eq_spec pool 0 hv _ hne' hc' _]
  simp only [iter, specMI_poolSig, iter_poolMI, appendConsts_natural]

end Windows

/-! ## `batch_time_series` -/

theorem allSome_range_getElem {β : Type} (B : Nat) (F : Nat → Option β) (rs : List β)
    (h : allSome ((List.range B).map F) = some rs) :
    rs.length = B ∧ ∀ b, b < B → F b = rs[b]? := by
  have hl := allSome_eq_some_length h
  simp only [List.length_map, List.length_range] at hl
  refine ⟨hl, fun b hb => ?_⟩
  have := allSome_eq_some_getElem? h b (by simpa using hb)
  simp only [List.getElem?_map, List.getElem?_range hb, Option.map_some] at this
  have hb' : b < rs.length := by omega
  rw [List.getElem?_eq_getElem hb'] at this ⊢
  exact Option.some.inj this

/-- **the batched variant is the per-trajectory variant, stacked**: whenever `batch_time_series`
succeeds, every trajectory `b` on its own succeeds through `times_series_to_multi_images`, and
the outputs are the per-trajectory outputs merged by `stackMerge` (trajectory-major, see
`stackMerge_getElem?`). -/
theorem batch_eq_stack (pool : α → α) (T p f dt s ds : Nat) (dyn const : MI κ (List (List α)))
    (X Y : MI κ (List (List α)))
    (h : batchTimeSeries pool T p f dt s ds dyn const = some (X, Y)) :
    ∃ rs : List (MI κ (List (List α)) × MI κ (List (List α))),
      rs.length = getL dyn ∧ 0 < getL dyn ∧
      (∀ b, b < getL dyn → ∃ d c r, sliceTraj b dyn = some d ∧ sliceTraj b const = some c ∧
        rs[b]? = some r ∧ toWindows pool T p f dt s ds d c = some r) ∧
      X = stackMerge (rs.map Prod.fst) ∧ Y = stackMerge (rs.map Prod.snd) := by
  unfold batchTimeSeries at h
  simp only at h
  split at h
  · exact absurd h (by simp)
  · split at h
    · exact absurd h (by simp)
    · split at h
      · exact absurd h (by simp)
      · rename_i hB _ rs hrs
        simp only [Option.some.injEq, Prod.mk.injEq] at h
        obtain ⟨rfl, rfl⟩ := h
        obtain ⟨hl, hget⟩ := allSome_range_getElem _ _ rs hrs
        refine ⟨rs, hl, by omega, ?_, rfl, rfl⟩
        intro b hb
        have hgb := hget b hb
        have hb' : b < rs.length := by omega
        rw [List.getElem?_eq_getElem hb'] at hgb
        split at hgb
        · rename_i d c hd hc'
          exact ⟨d, c, rs[b], hd, hc', List.getElem?_eq_getElem hb', hgb⟩
        · exact absurd hgb (by simp)

/-- entries of a uniform `flatten`: block `b`, row `w` sits at `b·n + w` -/
theorem getElem?_flatten_uniform {β : Type} (n : Nat) (L : List (List β))
    (h : ∀ r ∈ L, r.length = n) (b w : Nat) (hw : w < n) :
    L.flatten[b * n + w]? = (L[b]?).bind (·[w]?) := by
  induction L generalizing b with
  | nil => simp
  | cons r L ih =>
    have hr : r.length = n := h r (by simp)
    cases b with
    | zero =>
      simp only [Nat.zero_mul, Nat.zero_add, List.flatten_cons, List.getElem?_cons_zero,
        Option.bind_some]
      rw [List.getElem?_append_left (by omega)]
    | succ b =>
      have e : (b + 1) * n + w = r.length + (b * n + w) := by rw [hr, Nat.add_mul]; omega
      rw [List.flatten_cons, e, List.getElem?_append_right (by omega)]
      simp only [Nat.add_sub_cancel_left, List.getElem?_cons_succ]
      exact ih (fun x hx => h x (by simp [hx])) b

theorem filterMap_lookup_uniform {γ : Type} (rs : List (MI κ (List γ))) (k : κ) (n : Nat)
    (hn : ∀ r ∈ rs, ∃ blk, lookup k r = some blk ∧ blk.length = n) :
    (∀ g ∈ rs.filterMap (lookup k), g.length = n) ∧
      ∀ b : Nat, (rs.filterMap (lookup k))[b]? = (rs[b]?).bind (lookup k) := by
  induction rs with
  | nil => simp
  | cons r t ih =>
    obtain ⟨blk, hb1, hb2⟩ := hn r (by simp)
    obtain ⟨ih1, ih2⟩ := ih (fun x hx => hn x (by simp [hx]))
    rw [List.filterMap_cons, hb1]
    constructor
    · intro g hg
      rcases List.mem_cons.mp hg with rfl | hg
      · exact hb2
      · exact ih1 g hg
    · intro b
      cases b with
      | zero => simp [hb1]
      | succ b => simpa using ih2 b

/-- **trajectory-major**: if every per-trajectory result has a block of `n` samples for key `k`,
then sample `b·n + w` of the merged block is sample `w` of trajectory `b`. -/
theorem stackMerge_getElem? {γ : Type} (rs : List (MI κ (List γ))) (k : κ) (n : Nat)
    (hne : rs ≠ []) (hn : ∀ r ∈ rs, ∃ blk, lookup k r = some blk ∧ blk.length = n)
    (b w : Nat) (hw : w < n) :
    ∃ blk, lookup k (stackMerge rs) = some blk ∧
      blk[b * n + w]? = ((rs[b]?).bind (lookup k)).bind (·[w]?) := by
  obtain ⟨h1, h2⟩ := filterMap_lookup_uniform rs k n hn
  refine ⟨(rs.filterMap (lookup k)).flatten, ?_, ?_⟩
  · cases rs with
    | nil => exact absurd rfl hne
    | cons r0 rest =>
      obtain ⟨blk0, h0, _⟩ := hn r0 (by simp)
      show lookup k (r0.map (fun kb => (kb.1, ((r0 :: rest).filterMap (lookup kb.1)).flatten)))
        = some (((r0 :: rest).filterMap (lookup k)).flatten)
      generalize (r0 :: rest) = all
      clear h1 h2 hn hne
      induction r0 with
      | nil => simp [lookup] at h0
      | cons kb r ih =>
        obtain ⟨k', b'⟩ := kb
        by_cases hk : k' = k
        · subst hk
          simp [lookup]
        · simp only [lookup, hk, if_false] at h0
          simp only [List.map_cons, lookup, hk, if_false]
          exact ih h0
  · rw [getElem?_flatten_uniform n _ h1 b w hw, h2]


/-! ## non-vacuity: every theorem instantiated on a concrete trajectory

`T = 7`, `p = 2`, `f = 1`, `dt = 2`, `s = 1`: two windows.  Two types: key `0` with two channels
and a constant field, key `1` with one channel; key `2` has only a constant field.  Frames are
numbers `100·key + 10·channel + t`; "pooling" adds 1000. -/

def exSig : List (Nat × Nat × (Nat → Nat → Nat)) :=
  [(0, 2, fun ch t => 10 * ch + t), (1, 1, fun ch t => 100 + 10 * ch + t)]

def exConst : MI Nat (List Nat) := [(2, [277, 278]), (0, [77])]

theorem exValid : Valid 7 2 1 2 1 := ⟨by decide, by decide, by decide, by decide⟩

example : nWindows 7 2 1 2 1 = 2 := by decide

example : toWindows (· + 1000) 7 2 1 2 1 1 (mkDyn 7 exSig) exConst
    = some ([(0, [[1001, 1003, 1011, 1013, 1077], [1002, 1004, 1012, 1014, 1077]]),
             (1, [[1101, 1103], [1102, 1104]]),
             (2, [[1277, 1278], [1277, 1278]])],
            [(0, [[1005, 1015], [1006, 1016]]), (1, [[1105], [1106]])]) := by decide

example : timeSeriesIdxs 2 1 2 ((7 : Nat) - (1 : Nat) : Int) = some ([[0, 2], [1, 3]], [[4], [5]]) :=
  timeSeriesIdxs_spec exValid

example : toWindows (· + 1000) 4 2 1 2 0 0 (mkDyn 4 exSig) exConst = none :=
  toWindows_no_window _ 0 (by decide) (by decide) (by decide) _ _

example : ∀ i ∈ [1, 3], ∀ o ∈ [5], i < o :=
  target_not_input (by decide) (by decide) (by decide) _ _ _ (timeSeriesIdxs_spec exValid) 1
    [1, 3] [5] (by decide) (by decide)

example : ∃ X Y, toWindows (· + 1000) 7 2 1 2 1 1 (mkDyn 7 exSig) exConst = some (X, Y) ∧
    AllLen 2 X ∧ AllLen 2 Y :=
  windows_count (· + 1000) 1 exValid exSig (by decide) (by decide) exConst

example : ∃ X Y, toWindows (· + 1000) 7 2 1 2 1 1 (mkDyn 7 exSig) exConst = some (X, Y) ∧
    ∃ blk row, lookup 0 X = some blk ∧ blk[1]? = some row ∧ row[1 * 2 + 1]? = some 1014 :=
  window_input (· + 1000) 1 exValid exSig (by decide) (by decide) exConst (by decide) (by decide)
    0 2 _ (List.mem_cons_self) 1 1 1 (by decide) (by decide) (by decide)

example : ∃ X Y, toWindows (· + 1000) 7 2 1 2 1 1 (mkDyn 7 exSig) exConst = some (X, Y) ∧
    ∃ blk row, lookup 0 Y = some blk ∧ blk[1]? = some row ∧ row[1 * 1 + 0]? = some 1016 :=
  window_target (· + 1000) 1 exValid exSig (by decide) (by decide) exConst (by decide)
    0 2 _ (List.mem_cons_self) 1 1 0 (by decide) (by decide) (by decide)

example : ∃ X Y, toWindows (· + 1000) 7 2 1 2 1 1 (mkDyn 7 exSig) exConst = some (X, Y) ∧
    lookup 2 X = some [[1277, 1278], [1277, 1278]] ∧
    (∃ blk, lookup 0 X = some blk ∧ blk[1]? = some [1002, 1004, 1012, 1014, 1077]) ∧
    ∃ X', toWindows (· + 1000) 7 2 1 2 1 1 (mkDyn 7 exSig) [] = some (X', Y) := by
  obtain ⟨X, Y, h, h1, h2, _, h4⟩ := constants_in_inputs_only (· + 1000) 1 exValid exSig
    (by decide) (by decide) exConst (by decide) (by decide)
  exact ⟨X, Y, h, h2 2 [277, 278] (by decide) (by decide),
    h1 0 2 _ [77] List.mem_cons_self (by decide) 1 (by decide), h4⟩

example : toWindows (· + 1000) 7 2 1 2 1 2 (mkDyn 7 exSig) exConst
    = toWindows (· + 1000) 7 2 1 2 1 0 (mkDyn 7 (poolSig (iter (· + 1000) 2) exSig))
        (mapVals (List.map (iter (· + 1000) 2)) exConst) :=
  downsample_commutes (· + 1000) 2 exValid exSig (by decide) (by decide) exConst

/-- two trajectories (the second one shifted by 5000) -/
def exDynB : MI Nat (List (List Nat)) :=
  [(0, [mkBlock 2 7 (fun ch t => 10 * ch + t), mkBlock 2 7 (fun ch t => 5000 + 10 * ch + t)])]

def exConstB : MI Nat (List (List Nat)) := [(0, [[77], [5077]])]

theorem exBatch : batchTimeSeries (· + 1000) 7 2 1 2 1 0 exDynB exConstB
    = some ([(0, [[1, 3, 11, 13, 77], [2, 4, 12, 14, 77],
                  [5001, 5003, 5011, 5013, 5077], [5002, 5004, 5012, 5014, 5077]])],
            [(0, [[5, 15], [6, 16], [5005, 5015], [5006, 5016]])]) := by decide

example : ∃ rs : List (MI Nat (List (List Nat)) × MI Nat (List (List Nat))), rs.length = 2 := by
  obtain ⟨rs, h1, _⟩ := batch_eq_stack _ _ _ _ _ _ _ _ _ _ _ exBatch
  exact ⟨rs, h1⟩

example : ∃ blk, lookup 0 (stackMerge [[(0, [[1], [2]])], [(0, [[3], [4]])]]) = some blk ∧
    blk[1 * 2 + 1]? = some [4] :=
  stackMerge_getElem? _ 0 2 (by decide) (by decide) 1 1 (by decide)

example : ∃ fr : Nat → Nat → Nat, [5, 6, 7, 8, 9, 10] = mkBlock 2 3 fr :=
  mkBlock_surjective 2 3 _ (by decide)

end GinjaxVerif.C15
