import GinjaxVerif.Properties.C07
import GinjaxVerif.Lemmas.C08InvSqrt

/-!
# C07 with the whitening the code computes

`net_equivariant` (C07) assumes `ConjEquivariant F.S` of the matrix function `F.S` that stands for
`U diag(λ^{-1/2}) Uᵀ` (`jnp.linalg.eigh`) in the vector layer norm.  Over `ℝ` the function the code
computes is the symmetric inverse square root `invSqrtR` (`Lemmas/C08InvSqrt.lean`), for which the
hypothesis is a theorem; the corollaries below have no hypothesis on `F.S` left.
-/
namespace GinjaxVerif.C07

open GinjaxVerif GinjaxVerif.C20 GinjaxVerif.Layer

variable {d : Nat}

/-- a function record whose matrix function is the symmetric inverse square root -/
noncomputable def Fns.withInvSqrt (F : Fns ℝ d) : Fns ℝ d := { F with S := invSqrtR }

/-- **C07's hypothesis `hS` holds** for every function record whose `S` is the inverse square root -/
theorem conjEquivariant_S_invSqrt (F : Fns ℝ d) (hF : F.S = invSqrtR) : ConjEquivariant F.S :=
  hF ▸ conjEquivariant_invSqrt

theorem conjEquivariant_withInvSqrt (F : Fns ℝ d) : ConjEquivariant F.withInvSqrt.S :=
  conjEquivariant_invSqrt

/-- **C07 with the real whitening**: a well-formed network over `ℝ` whose vector layer norms whiten
with the symmetric inverse square root commutes with `g`, for every other nonlinearity -/
theorem net_equivariant_invSqrt (g : SP d) (F : Fns ℝ d) (net : Net ℝ d)
    (x : MI ℝ d) (hx : x.Consistent) (hwf : WellFormed g x.torus net x.dims)
    (hgen : PoolGeneric F.withInvSqrt net x) (y : MI ℝ d)
    (hy : eval F.withInvSqrt net x = some y) :
    ∃ y', eval F.withInvSqrt net (act g x) = some y' ∧ MI.Equiv y' (act g y) :=
  net_equivariant g F.withInvSqrt (conjEquivariant_withInvSqrt F) net x hx hwf hgen y hy

/-- the same for every matrix the library accepts, with the model of `times_group_element` -/
theorem net_equivariant_tge_invSqrt (M : Mat d) (hM : isSignedPerm M = true) (F : Fns ℝ d)
    (net : Net ℝ d) (x : MI ℝ d) (hx : x.Consistent)
    (hwf : ∀ g : SP d, g.mat = M → WellFormed g x.torus net x.dims)
    (hgen : PoolGeneric F.withInvSqrt net x) (y : MI ℝ d)
    (hy : eval F.withInvSqrt net x = some y) :
    ∃ y', eval F.withInvSqrt net (tgeAct M x) = some y' ∧ MI.Equiv y' (tgeAct M y) :=
  net_equivariant_tge M hM F.withInvSqrt (conjEquivariant_withInvSqrt F) net x hx hwf hgen y hy

end GinjaxVerif.C07
