import GinjaxVerif.Lemmas.ActionLaws
import GinjaxVerif.Lemmas.SignedPerm

/-!
# C02 — the group action on images is a genuine, type-correct group action

`tge` is the model of the code (`times_group_element` with the repaired re-centring), `actSpec`
the property's defining formula.  Everything is stated for an arbitrary dimension `d`, arbitrary
extents (square or not, extent 1 included), arbitrary tensor order, both parities, an arbitrary
commutative ring of pixel values, and every matrix accepted by `isSignedPerm` (= all of `B_d`).
-/
namespace GinjaxVerif.C02

open GinjaxVerif

variable {R : Type} [CommRing R] {d : Nat}

/-- **The code computes the defining formula**: after `rint` and the modulo of `hash`, the gathered
pixel is exactly `c + g⁻¹(y − c')`, for every signed permutation and every extent vector. -/
theorem tge_eq_actSpec (M : Mat d) (hM : isSignedPerm M = true) (p : Nat) (A : Img R d) :
    (tge M p A).SEq (actSpec M p A) := by
  obtain ⟨g, rfl⟩ := exists_SP_of_isSignedPerm M hM
  refine ⟨rfl, rfl, ?_⟩
  intro y hy n
  rw [(tge_eq_pf g p A).2.2 y hy n, (actSpec_eq_pf g p A).2 y n]

/-- The defining formula in permute-and-flip form: extents travel with the axes, the source pixel
is obtained by permuting the coordinates and mirroring the flipped ones, the tensor is re-indexed
by `σ` and multiplied by `det^p · Π s(n_i)`. -/
theorem actSpec_eq_permflip (g : SP d) (p : Nat) (A : Img R d) :
    (actSpec g.mat p A).dims = (fun i => A.dims (g.σ i)) ∧
    ∀ y n, (actSpec g.mat p A).val y n =
      (((det g.mat) ^ p : Int) : R) *
        (((g.sgn n : Int) : R) * A.val (g.srcPix (fun i => A.dims (g.σ i)) y) (n.map g.σ)) :=
  actSpec_eq_pf g p A

/-- the identity acts trivially -/
theorem act_one (p : Nat) (A : Img R d) : (tge (Mat.one d) p A).SEq A := tge_one p A

/-- **composition**: `(g h)·A = g·(h·A)` -/
theorem act_mul (M N : Mat d) (hM : isSignedPerm M = true) (hN : isSignedPerm N = true) (p : Nat)
    (A : Img R d) : (tge (Mat.mul M N) p A).SEq (tge M p (tge N p A)) := by
  obtain ⟨g, rfl⟩ := exists_SP_of_isSignedPerm M hM
  obtain ⟨h, rfl⟩ := exists_SP_of_isSignedPerm N hN
  exact tge_mul g h p A

/-- `g⁻¹ = gᵀ` undoes `g` (on either side) -/
theorem act_transpose_cancel (M : Mat d) (hM : isSignedPerm M = true) (p : Nat) (A : Img R d) :
    (tge (Mat.transpose M) p (tge M p A)).SEq A ∧ (tge M p (tge (Mat.transpose M) p A)).SEq A := by
  obtain ⟨g, rfl⟩ := exists_SP_of_isSignedPerm M hM
  exact ⟨tge_transpose_cancel g p A, tge_cancel_transpose g p A⟩

/-- the group is closed: identity, products and transposes of accepted matrices are accepted -/
theorem closed (M N : Mat d) (hM : isSignedPerm M = true) (hN : isSignedPerm N = true) :
    isSignedPerm (Mat.one d) = true ∧ isSignedPerm (Mat.mul M N) = true ∧
      isSignedPerm (Mat.transpose M) = true := by
  obtain ⟨g, rfl⟩ := exists_SP_of_isSignedPerm M hM
  obtain ⟨h, rfl⟩ := exists_SP_of_isSignedPerm N hN
  refine ⟨?_, ?_, ?_⟩
  · rw [← SP.mat_one]; exact isSignedPerm_mat _
  · rw [← SP.mat_mul]; exact isSignedPerm_mat _
  · rw [← SP.mat_inv]; exact isSignedPerm_mat _

/-- linearity in the image (for every matrix) -/
theorem act_add (M : Mat d) (p : Nat) (A B : Img R d) (hd : A.dims = B.dims) :
    tge M p (A.add B) = (tge M p A).add (tge M p B) := tge_add M p A B hd

theorem act_smul (M : Mat d) (p : Nat) (c : R) (A : Img R d) :
    tge M p (Img.smul c A) = Img.smul c (tge M p A) := tge_smul M p c A

/-- D, k and p are unchanged; the extents and the per-axis boundary flags are carried along one
and the same axis permutation. -/
theorem act_dims_flags (M : Mat d) (hM : isSignedPerm M = true) :
    ∃ σ : Equiv.Perm (Fin d),
      (∀ (dims : Fin d → Nat) i, rotDims M dims i = dims (σ i)) ∧
      (∀ (α : Type) (flags : Fin d → α) i, transport M flags i = flags (σ i)) := by
  obtain ⟨g, rfl⟩ := exists_SP_of_isSignedPerm M hM
  exact ⟨g.σ, fun dims i => rotDims_mat g dims i, fun _ flags i => transport_mat g flags i⟩

theorem act_order (M : Mat d) (p : Nat) (A : Img R d) : (tge M p A).k = A.k := rfl

/-- **pixels move by a bijection** from the transformed box onto the source box -/
theorem srcMap_bijective (M : Mat d) (hM : isSignedPerm M = true) (dims : Fin d → Nat) :
    Set.BijOn (fun y => fun j => src2 M dims y j / 2)
      {y | InBox (rotDims M dims) y} {z | InBox dims z} := by
  obtain ⟨g, rfl⟩ := exists_SP_of_isSignedPerm M hM
  have h1 : (fun y => fun j => src2 g.mat dims y j / 2)
      = g.srcPix (fun i => dims (g.σ i)) := by
    funext y; rw [src2_div_mat, rotDims_mat']
  rw [h1, rotDims_mat']
  exact srcPix_bijOn g dims

/-- **every pixel's squared Frobenius norm is preserved** along that bijection -/
theorem normSq_act (M : Mat d) (hM : isSignedPerm M = true) (p : Nat) (A : Img R d)
    (y : Fin d → Int) (hy : InBox (rotDims M A.dims) y) :
    normSq (tge M p A) y = normSq A (fun j => src2 M A.dims y j / 2) := by
  obtain ⟨g, rfl⟩ := exists_SP_of_isSignedPerm M hM
  rw [normSq_tge g p A y hy, src2_div_mat, rotDims_mat']

/-! ### the legacy re-centring (defect D1) gathers wrong pixels on a non-cubic box -/

/-- cyclic axis permutation `x → y → z → x` as a matrix -/
def cyc3 : Mat 3 := fun i j => if j.val = (i.val + 1) % 3 then 1 else 0

def dims234 : Fin 3 → Nat := fun i => [2, 3, 4].getD i.val 0

theorem cyc3_signedPerm : isSignedPerm cyc3 = true := by decide

/-- On the box (2,3,4) the legacy formula `|gg @ centre|` fetches, for output pixel (0,0,0), a
source coordinate different from the defining formula's (and from the repaired code's). -/
theorem rotatedKeysLegacy_counterexample :
    rotatedKeyLegacy cyc3 dims234 (fun _ => 0) ≠ (fun j => src2 cyc3 dims234 (fun _ => 0) j / 2) ∧
    rotatedKey cyc3 dims234 (fun _ => 0) = (fun j => src2 cyc3 dims234 (fun _ => 0) j / 2) := by
  constructor
  · intro h
    have := congrFun h 0
    revert this
    decide
  · funext j
    fin_cases j <;> decide

/-! ### non-vacuity -/

def rot90 : Mat 2 := fun i j => if i.val = 0 ∧ j.val = 1 then -1 else if i.val = 1 ∧ j.val = 0 then 1 else 0

example : isSignedPerm rot90 = true := by decide
example : isSignedPerm (Mat.mul rot90 rot90) = true := by decide
example : rotDims rot90 (fun i => if i.val = 0 then 2 else 3) = (fun i => if i.val = 0 then 3 else 2) := by
  funext i; fin_cases i <;> decide

end GinjaxVerif.C02
