import GinjaxVerif.Lemmas.C05Eval
import GinjaxVerif.Lemmas.C05LC
import GinjaxVerif.Lemmas.C05LCGeneral
import GinjaxVerif.Lemmas.C05Sym
import GinjaxVerif.Lemmas.C05Conv
import GinjaxVerif.Lemmas.SignedPerm
import GinjaxVerif.Lemmas.C05ConvBridge

/-!
# C05 — the image algebra is type-sound: the declared `(k, parity)` is how results transform

`eval` runs the operators of `GeometricImage` (model of the code, `Model/C05.lean`), `tyOf` is the
code's own bookkeeping (`parity + parity`, `% 2` in the constructor, `k + k'`, `k − 2`,
`k − D + 2`, norm ↦ (0, 0); every assertion ↦ `none`).  The theorems hold for every commutative
ring of pixel values, every extent vector, every tensor order, every tree, every environment,
every matrix accepted by `isSignedPerm` (= all of `B_d`), every `sqrtF`, and every materialiser
`tab` that is the identity up to extensional equality.

* Levi-Civita nodes: the sign identity `LCSign g` holds in **every** dimension
  (`leviCivita_sign : leviCivita_sign_statement`, from `LCSign_general` in
  `Lemmas/C05LCGeneral.lean`): the code's `permutation_parity` marking loop is proved to compute
  `Equiv.Perm.sign` (`permParity_eq_sign`), so the symbol it builds is the usual one
  (`leviCivitaSym_eq_sign`).  For `d ∈ {2, 3}` there is also the independent kernel decision
  `LCSign_two/three`.  The `…_gen` theorems are the all-dimension forms of the main theorems
  (`eval_equivariant_general : eval_equivariant_statement`).
* Convolution nodes (default options): the case of the induction is the hypothesis
  `ConvHyp.hConv`, **discharged by C01's `conv_act`**; `convI_hyp` supplies the rest for the
  direct-sum model `convI`.
-/
namespace GinjaxVerif.C05

open GinjaxVerif

variable {R : Type} [CommRing R] {d : Nat}

/-- the environment transformed by the code's action, every leaf with its own declared parity and
its flags transported (`GeometricImage.times_group_element`) -/
def actEnv (M : Mat d) (env : Nat → GImg R d) : Nat → GImg R d := fun i => (env i).act M

theorem envAct_tge (g : SP d) (env : Nat → GImg R d) : EnvAct g env (actEnv g.mat env) := by
  intro i
  refine ⟨tge_seq_pf g _ _, rfl, ?_⟩
  funext j
  exact transport_mat g _ j

/-- **Main theorem, every dimension.**  For a well-typed tree (`tyOf = some t`):
the result has the declared extents, order, parity and flags; and evaluating the tree on the
`g`-transformed leaves equals `g` acting on the original result *with the declared parity `t.p`*
(and the declared flags travel with the axes).  Levi-Civita nodes need the sign identity for `g`,
convolution nodes need `ConvHyp`. -/
theorem eval_equivariant_of (M : Mat d) (hM : isSignedPerm M = true)
    (tab : Img R d → Img R d) (htab : ∀ A, (tab A).SEq A) (sqrtF : R → R)
    (convF : (Fin d → Bool) → Img R d → Img R d → Img R d)
    (env : Nat → GImg R d) (e : Expr R) (t : Ty d)
    (hLC : hasLC e = true → ∀ g : SP d, LCSign g)
    (hCv : hasConv e = true → ConvHyp convF)
    (ht : tyOf (fun i => (env i).ty) e = some t) :
    (eval tab sqrtF convF env e).ty = t ∧
    (eval tab sqrtF convF (actEnv M env) e).img.SEq (tge M t.p (eval tab sqrtF convF env e).img) ∧
    (eval tab sqrtF convF (actEnv M env) e).p = t.p ∧
    (eval tab sqrtF convF (actEnv M env) e).torus = transport M t.torus := by
  obtain ⟨g, rfl⟩ := exists_SP_of_isSignedPerm M hM
  have h := eval_good g tab htab sqrtF convF env (actEnv g.mat env) (envAct_tge g env) e t
    (fun hl => hLC hl g) hCv ht
  refine ⟨?_, h.seq.trans (tge_seq_pf g _ _).symm, h.p', ?_⟩
  · cases t
    simp only [GImg.ty, Ty.mk.injEq]
    exact ⟨h.dims, h.k, h.p, h.torus⟩
  · rw [h.torus']
    funext j
    exact (transport_mat g _ j).symm

/-- the checker accepts the tree on the transformed leaves exactly when it accepts it on the
original ones, and declares the transformed type (same `k`, same parity) -/
theorem tyOf_actEnv (g : SP d) (env : Nat → GImg R d) (e : Expr R) :
    tyOf (fun i => (actEnv g.mat env i).ty) e = (tyOf (fun i => (env i).ty) e).map (Ty.act g) := by
  have h : (fun i => (actEnv g.mat env i).ty) = fun i => ((env i).ty).act g := by
    funext i
    simp only [actEnv, GImg.act, GImg.ty, Ty.act, tge, rotDims_mat', Ty.mk.injEq, true_and]
    funext j
    exact transport_mat g _ j
  rw [h, tyOf_act]

theorem LCSign_23 (hd : d = 2 ∨ d = 3) (g : SP d) : LCSign g := by
  rcases hd with rfl | rfl
  · exact LCSign_two g
  · exact LCSign_three g

/-- **Main theorem for the dimensions of the library (`d ∈ {2, 3}`)**: all node kinds; the only
remaining hypothesis is the equivariance of convolution, and only for trees that convolve. -/
theorem eval_equivariant (hd : d = 2 ∨ d = 3) (M : Mat d) (hM : isSignedPerm M = true)
    (tab : Img R d → Img R d) (htab : ∀ A, (tab A).SEq A) (sqrtF : R → R)
    (convF : (Fin d → Bool) → Img R d → Img R d → Img R d)
    (hConv : ConvHyp convF)
    (env : Nat → GImg R d) (e : Expr R) (t : Ty d)
    (ht : tyOf (fun i => (env i).ty) e = some t) :
    (eval tab sqrtF convF env e).ty = t ∧
    (eval tab sqrtF convF (actEnv M env) e).img.SEq (tge M t.p (eval tab sqrtF convF env e).img) ∧
    (eval tab sqrtF convF (actEnv M env) e).p = t.p ∧
    (eval tab sqrtF convF (actEnv M env) e).torus = transport M t.torus :=
  eval_equivariant_of M hM tab htab sqrtF convF env e t (fun _ => LCSign_23 hd) (fun _ => hConv) ht

/-- **Unconditional form**, `d ∈ {2, 3}`: with the direct-sum convolution `convI` (default options of
`convolve_with`, the model the driver evaluates) every well-typed tree — convolution nodes
included — is equivariant with its declared type.  The convolution case is discharged by C01's
index-level theorem `convSpec_push` through `convI_eq_convSpec` (`Lemmas/C05ConvBridge.lean`). -/
theorem eval_equivariant_convI (hd : d = 2 ∨ d = 3) (M : Mat d) (hM : isSignedPerm M = true)
    (tab : Img R d → Img R d) (htab : ∀ A, (tab A).SEq A) (sqrtF : R → R)
    (env : Nat → GImg R d) (e : Expr R) (t : Ty d)
    (ht : tyOf (fun i => (env i).ty) e = some t) :
    (eval tab sqrtF convI env e).ty = t ∧
    (eval tab sqrtF convI (actEnv M env) e).img.SEq (tge M t.p (eval tab sqrtF convI env e).img) ∧
    (eval tab sqrtF convI (actEnv M env) e).p = t.p ∧
    (eval tab sqrtF convI (actEnv M env) e).torus = transport M t.torus :=
  eval_equivariant hd M hM tab htab sqrtF convI convI_convHyp env e t ht

/-- convolution-free trees, `d ∈ {2, 3}`: no hypothesis left (whatever `convF` is) -/
theorem eval_equivariant_noConv (hd : d = 2 ∨ d = 3) (M : Mat d) (hM : isSignedPerm M = true)
    (tab : Img R d → Img R d) (htab : ∀ A, (tab A).SEq A) (sqrtF : R → R)
    (convF : (Fin d → Bool) → Img R d → Img R d → Img R d)
    (env : Nat → GImg R d) (e : Expr R) (t : Ty d) (hnc : hasConv e = false)
    (ht : tyOf (fun i => (env i).ty) e = some t) :
    (eval tab sqrtF convF env e).ty = t ∧
    (eval tab sqrtF convF (actEnv M env) e).img.SEq (tge M t.p (eval tab sqrtF convF env e).img) ∧
    (eval tab sqrtF convF (actEnv M env) e).p = t.p ∧
    (eval tab sqrtF convF (actEnv M env) e).torus = transport M t.torus :=
  eval_equivariant_of M hM tab htab sqrtF convF env e t (fun _ => LCSign_23 hd)
    (fun h => by rw [hnc] at h; exact absurd h (by decide)) ht

/-- every dimension, trees without Levi-Civita and convolution nodes: no hypothesis left -/
theorem eval_equivariant_anyDim (M : Mat d) (hM : isSignedPerm M = true)
    (tab : Img R d → Img R d) (htab : ∀ A, (tab A).SEq A) (sqrtF : R → R)
    (convF : (Fin d → Bool) → Img R d → Img R d → Img R d)
    (env : Nat → GImg R d) (e : Expr R) (t : Ty d) (hnl : hasLC e = false)
    (hnc : hasConv e = false)
    (ht : tyOf (fun i => (env i).ty) e = some t) :
    (eval tab sqrtF convF env e).ty = t ∧
    (eval tab sqrtF convF (actEnv M env) e).img.SEq (tge M t.p (eval tab sqrtF convF env e).img) ∧
    (eval tab sqrtF convF (actEnv M env) e).p = t.p ∧
    (eval tab sqrtF convF (actEnv M env) e).torus = transport M t.torus :=
  eval_equivariant_of M hM tab htab sqrtF convF env e t
    (fun h => by rw [hnl] at h; exact absurd h (by decide))
    (fun h => by rw [hnc] at h; exact absurd h (by decide)) ht

/-- the full statement in every dimension (Levi-Civita nodes included); it follows from
`leviCivita_sign_statement` (`eval_equivariant_statement_of_sign`), which is proved
(`leviCivita_sign`), so it is a theorem: `eval_equivariant_general` -/
def eval_equivariant_statement : Prop :=
  ∀ (R : Type) [CommRing R] (d : Nat) (M : Mat d), isSignedPerm M = true →
    ∀ (sqrtF : R → R) (convF : (Fin d → Bool) → Img R d → Img R d → Img R d), ConvHyp convF →
    ∀ (env : Nat → GImg R d) (e : Expr R) (t : Ty d), tyOf (fun i => (env i).ty) e = some t →
      (eval id sqrtF convF (actEnv M env) e).img.SEq (tge M t.p (eval id sqrtF convF env e).img)

theorem eval_equivariant_statement_of_sign (h : leviCivita_sign_statement) :
    eval_equivariant_statement := by
  intro R _ d M hM sqrtF convF hC env e t ht
  exact (eval_equivariant_of M hM id (fun A => Img.SEq.refl A) sqrtF convF env e t
    (fun _ g => h d g) (fun _ => hC) ht).2.1

/-! ### every dimension: the Levi-Civita sign identity is a theorem -/

/-- **the sign identity of the Levi-Civita symbol, every dimension, every `g ∈ B_d`**: on the
symbol as the code builds it (`permutation_parity` by cycle counting, proved to be
`Equiv.Perm.sign` by `permParity_eq_sign`), `ε(m) = det g · Π s(m_i) · ε(σ m)`. -/
theorem leviCivita_sign : leviCivita_sign_statement := leviCivita_sign_general

/-- **the full statement in every dimension**, Levi-Civita nodes included -/
theorem eval_equivariant_general : eval_equivariant_statement :=
  eval_equivariant_statement_of_sign leviCivita_sign

/-- **Main theorem, every dimension, all node kinds**; the only remaining hypothesis is the
equivariance of convolution, and only for trees that convolve (all-`d` form of
`eval_equivariant`). -/
theorem eval_equivariant_gen (M : Mat d) (hM : isSignedPerm M = true)
    (tab : Img R d → Img R d) (htab : ∀ A, (tab A).SEq A) (sqrtF : R → R)
    (convF : (Fin d → Bool) → Img R d → Img R d → Img R d)
    (hConv : ConvHyp convF)
    (env : Nat → GImg R d) (e : Expr R) (t : Ty d)
    (ht : tyOf (fun i => (env i).ty) e = some t) :
    (eval tab sqrtF convF env e).ty = t ∧
    (eval tab sqrtF convF (actEnv M env) e).img.SEq (tge M t.p (eval tab sqrtF convF env e).img) ∧
    (eval tab sqrtF convF (actEnv M env) e).p = t.p ∧
    (eval tab sqrtF convF (actEnv M env) e).torus = transport M t.torus :=
  eval_equivariant_of M hM tab htab sqrtF convF env e t (fun _ => LCSign_general)
    (fun _ => hConv) ht

/-- **Unconditional form, every dimension** (all-`d` form of `eval_equivariant_convI`): with the
direct-sum convolution `convI` every well-typed tree is equivariant with its declared type. -/
theorem eval_equivariant_convI_gen (M : Mat d) (hM : isSignedPerm M = true)
    (tab : Img R d → Img R d) (htab : ∀ A, (tab A).SEq A) (sqrtF : R → R)
    (env : Nat → GImg R d) (e : Expr R) (t : Ty d)
    (ht : tyOf (fun i => (env i).ty) e = some t) :
    (eval tab sqrtF convI env e).ty = t ∧
    (eval tab sqrtF convI (actEnv M env) e).img.SEq (tge M t.p (eval tab sqrtF convI env e).img) ∧
    (eval tab sqrtF convI (actEnv M env) e).p = t.p ∧
    (eval tab sqrtF convI (actEnv M env) e).torus = transport M t.torus :=
  eval_equivariant_gen M hM tab htab sqrtF convI convI_convHyp env e t ht

/-- convolution-free trees, every dimension, Levi-Civita nodes allowed: no hypothesis left
(all-`d` form of `eval_equivariant_noConv`) -/
theorem eval_equivariant_noConv_gen (M : Mat d) (hM : isSignedPerm M = true)
    (tab : Img R d → Img R d) (htab : ∀ A, (tab A).SEq A) (sqrtF : R → R)
    (convF : (Fin d → Bool) → Img R d → Img R d → Img R d)
    (env : Nat → GImg R d) (e : Expr R) (t : Ty d) (hnc : hasConv e = false)
    (ht : tyOf (fun i => (env i).ty) e = some t) :
    (eval tab sqrtF convF env e).ty = t ∧
    (eval tab sqrtF convF (actEnv M env) e).img.SEq (tge M t.p (eval tab sqrtF convF env e).img) ∧
    (eval tab sqrtF convF (actEnv M env) e).p = t.p ∧
    (eval tab sqrtF convF (actEnv M env) e).torus = transport M t.torus :=
  eval_equivariant_of M hM tab htab sqrtF convF env e t (fun _ => LCSign_general)
    (fun h => by rw [hnc] at h; exact absurd h (by decide)) ht

/-! ### the E2 lemmas, restated for the record (proved in `Lemmas/C05.lean`) -/

theorem add_act' (g : SP d) (c : Int) (A B : Img R d) (hd : A.dims = B.dims) :
    (addI (pf g c A) (pf g c B)).SEq (pf g c (addI A B)) := add_act g c A B hd

theorem mul_act' (g : SP d) (c c' : Int) (A B : Img R d) (hd : A.dims = B.dims) :
    (mulI (pf g c A) (pf g c' B)).SEq (pf g (c * c') (mulI A B)) := mul_act g c c' A B hd

/-- Levi-Civita contraction flips the parity: the scalar picks up one factor `det g` -/
theorem leviCivita_act_23 (hd : d = 2 ∨ d = 3) (g : SP d) (c : Int) (idxs : List Nat) (A : Img R d)
    (hwf : wfPairs (lcPairs A.k idxs) (List.replicate (A.k + d) false) = true) :
    (leviCivitaI idxs (pf g c A)).SEq (pf g (c * det g.mat) (leviCivitaI idxs A)) :=
  leviCivita_act g (LCSign_23 hd g) c idxs A hwf

/-- the same in every dimension -/
theorem leviCivita_act_gen (g : SP d) (c : Int) (idxs : List Nat) (A : Img R d)
    (hwf : wfPairs (lcPairs A.k idxs) (List.replicate (A.k + d) false) = true) :
    (leviCivitaI idxs (pf g c A)).SEq (pf g (c * det g.mat) (leviCivitaI idxs A)) :=
  leviCivita_act g (LCSign_general g) c idxs A hwf

/-! ### non-vacuity -/

section Examples

def v0 : Img Int 2 := ⟨fun _ => 2, 1, fun y n => y 0 + 2 * y 1 + (n.map (·.val)).sum⟩
def s0 : Img Int 2 := ⟨fun _ => 2, 0, fun y _ => 1 + y 0⟩
def envEx : Nat → GImg Int 2
  | 0 => GImg.mk' v0 0 (fun _ => true)
  | 1 => GImg.mk' v0 1 (fun _ => true)
  | _ => GImg.mk' s0 1 (fun _ => true)

def kp (t : Option (Ty 2)) : Option (Nat × Nat) := t.map (fun t => (t.k, t.p))

/-- vector ⊗ pseudo-vector, Levi-Civita contracted on index 0: a pseudo·pseudo = true 1-tensor -/
example : kp (tyOf (fun i => (envEx i).ty)
    (Expr.leviCivita [0] (Expr.mul (Expr.leaf 0 : Expr Int) (Expr.leaf 1)))) = some (2, 0) := by
  decide
example : kp (tyOf (fun i => (envEx i).ty)
    (Expr.contract 0 1 (Expr.mul (Expr.leaf 0 : Expr Int) (Expr.leaf 1)))) = some (0, 1) := by
  decide
example : kp (tyOf (fun i => (envEx i).ty)
    (Expr.norm (Expr.mul (Expr.leaf 2 : Expr Int) (Expr.leaf 1)))) = some (0, 0) := by decide
/-- adding a vector and a pseudo-vector is rejected, as `__add__` asserts -/
example : kp (tyOf (fun i => (envEx i).ty)
    (Expr.add (Expr.leaf 0 : Expr Int) (Expr.leaf 1))) = none := by decide
/-- contracting an index with itself / a 1-tensor is rejected -/
example : kp (tyOf (fun i => (envEx i).ty) (Expr.contract 0 0 (Expr.mul (Expr.leaf 0 : Expr Int)
    (Expr.leaf 0)))) = none := by decide
example : kp (tyOf (fun i => (envEx i).ty) (Expr.contract 0 1 (Expr.leaf 0 : Expr Int))) = none := by
  decide
/-- a value: `ε_{ab} v_a` at pixel (1,0), free index 1 -/
example : (eval id id convI envEx (Expr.leviCivita [0] (Expr.leaf 0 : Expr Int))).img.val
    (fun i => if i = 0 then 1 else 0) [1] = 1 := by decide
/-- the symbol is the usual one -/
example : leviCivitaSym 3 [0, 1, 2] = 1 ∧ leviCivitaSym 3 [1, 0, 2] = -1 ∧
    leviCivitaSym 3 [1, 2, 0] = 1 ∧ leviCivitaSym 3 [0, 0, 2] = 0 := by decide
/-- the general-`d` theorems say something beyond `d ≤ 3`: a 4-cycle is odd, a double
transposition even, a repeated entry gives 0 (evaluated on the model, then re-derived from
`leviCivitaSym_perm`) -/
example : leviCivitaSym 4 [1, 2, 3, 0] = -1 ∧ leviCivitaSym 4 [1, 0, 3, 2] = 1 ∧
    leviCivitaSym 4 [1, 1, 3, 2] = 0 ∧ leviCivitaSym 5 [4, 3, 2, 1, 0] = 1 := by decide
example : leviCivitaSym 4 ((List.finRange 4).map (Equiv.swap (0 : Fin 4) 1)) = -1 := by
  rw [leviCivitaSym_perm, Equiv.Perm.sign_swap (by decide)]; rfl
/-- `ConvHyp` is satisfiable (so the conditional theorem is not vacuous) -/
example : ConvHyp (R := Int) (d := 2) (fun _ A F => ⟨A.dims, A.k + F.k, fun _ _ => 0⟩) :=
  ⟨fun _ _ _ => rfl, fun _ _ _ => rfl,
   fun _ _ _ _ _ hA hF => ⟨hA.1, by simp only [hA.2.1, hF.2.1], fun _ _ _ => rfl⟩,
   fun g c c' _ A F _ _ => ⟨rfl, rfl, fun _ _ _ => by simp [pf]⟩⟩

/-! sharpness: the declared parity matters -/

/-- the reflection `y ↦ −y` of the second axis -/
def reflY : SP 2 := ⟨Equiv.refl _, fun i => if i = 0 then 1 else -1, fun i => by
  by_cases h : i = 0 <;> simp [h]⟩

example : det reflY.mat = -1 := by decide

/-- the parity flip of `levi_civita_contract` is necessary: with the operand's parity (scalar `1`
instead of `det g`) the two sides differ at pixel (0,0), index [0] -/
example : (leviCivitaI [0] (pf reflY 1 v0)).val (fun _ => 0) [0]
    ≠ (pf reflY 1 (leviCivitaI [0] v0)).val (fun _ => 0) [0] := by decide
example : (leviCivitaI [0] (pf reflY 1 v0)).val (fun _ => 0) [0]
    = (pf reflY (1 * det reflY.mat) (leviCivitaI [0] v0)).val (fun _ => 0) [0] := by decide
end Examples

end GinjaxVerif.C05
