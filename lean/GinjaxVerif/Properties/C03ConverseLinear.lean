import Mathlib.Algebra.BigOperators.Pi
import Mathlib.Algebra.Module.Pi
import Mathlib.Algebra.Module.LinearMap.Defs
import Mathlib.Algebra.BigOperators.Group.Finset.Basic
import Mathlib.Algebra.BigOperators.GroupWithZero.Action
import Mathlib.Data.ZMod.Basic

/-!
# C03, last sentence — every shift-equivariant linear map between torus images is a convolution

Stated on functions on a finite abelian group `X` (the torus pixel grid `(ℤ/N)^d`, `Fin d → ZMod N`):
a linear map `T` on images `X → R` that commutes with all translations is
`T A x = Σ_z A (x + z) · F z` with the filter `F z = T δ₀ (-z)` read off the response to the unit
impulse (`shift_equivariant_linear_eq_conv`); if that response is supported in a window `W` the sum
runs over `W` (`…_window`), and conversely every such sum is linear and shift-equivariant
(`shift_equivariant_linear_iff_conv`).  Together with `conv_equivariant_iff_mem_span_family`
(`Properties/C03Converse.lean`; `convSpec_torus` there shows that the model's toroidal convolution is
such a window sum, `z = a·rd − w`): every translation- and `G`-equivariant linear map supported in
the filter window is a weighting of the generated family, and nothing non-equivariant is.
-/

namespace GinjaxVerif.C03
open scoped BigOperators

section Abstract
variable {X R : Type*} [AddCommGroup X] [Fintype X] [DecidableEq X] [CommRing R]

theorem shift_equivariant_linear_eq_conv (T : (X → R) →ₗ[R] (X → R))
    (hT : ∀ (s : X) (A : X → R), T (fun x => A (x + s)) = fun x => T A (x + s))
    (A : X → R) (x : X) :
    T A x = ∑ z, A (x + z) * T (Pi.single 0 1) (-z) := by
  have hA : A = ∑ y, A y • (Pi.single y (1 : R) : X → R) := by
    funext x
    simp [Finset.sum_apply, Pi.single_apply]
  have hδ : ∀ y, (Pi.single y (1 : R) : X → R)
      = fun x => (Pi.single 0 (1 : R) : X → R) (x + (-y)) := by
    intro y
    funext x
    simp only [Pi.single_apply]
    have : x = y ↔ x + -y = 0 := by
      rw [← sub_eq_add_neg, sub_eq_zero]
    simp only [this]
  conv_lhs => rw [hA]
  rw [map_sum]
  simp only [map_smul, Finset.sum_apply, Pi.smul_apply, smul_eq_mul]
  rw [← Equiv.sum_comp (Equiv.addLeft x)]
  refine Finset.sum_congr rfl fun z _ => ?_
  simp only [Equiv.coe_addLeft]
  rw [hδ (x + z), hT]
  simp

/-- the same with the sum restricted to a window `W` outside of which the response to the unit
impulse vanishes (`F z = T δ₀ (-z)` is the filter read off `T δ₀`) -/
theorem shift_equivariant_linear_eq_conv_window (T : (X → R) →ₗ[R] (X → R))
    (hT : ∀ (s : X) (A : X → R), T (fun x => A (x + s)) = fun x => T A (x + s))
    (W : Finset X) (hW : ∀ z, z ∉ W → T (Pi.single 0 1) (-z) = 0) (A : X → R) (x : X) :
    T A x = ∑ z ∈ W, A (x + z) * T (Pi.single 0 1) (-z) := by
  rw [shift_equivariant_linear_eq_conv T hT A x]
  symm
  apply Finset.sum_subset (Finset.subset_univ W)
  intro z _ hz
  rw [hW z hz, mul_zero]

/-- conversely every such sum is linear and commutes with all shifts -/
def convMap (W : Finset X) (F : X → R) : (X → R) →ₗ[R] (X → R) where
  toFun A := fun x => ∑ z ∈ W, A (x + z) * F z
  map_add' A B := by funext x; simp [add_mul, Finset.sum_add_distrib]
  map_smul' r A := by funext x; simp [Finset.mul_sum, mul_assoc]

omit [Fintype X] [DecidableEq X] in
theorem convMap_shift (W : Finset X) (F : X → R) (s : X) (A : X → R) :
    convMap W F (fun x => A (x + s)) = fun x => convMap W F A (x + s) := by
  funext x
  simp only [convMap, LinearMap.coe_mk, AddHom.coe_mk]
  refine Finset.sum_congr rfl fun z _ => ?_
  rw [add_right_comm]

/-- **every linear map between torus images that commutes with all cyclic shifts and whose impulse
response is supported in the window `W` is the convolution with the filter read off `T δ₀`** -/
theorem shift_equivariant_linear_iff_conv (T : (X → R) →ₗ[R] (X → R)) (W : Finset X) :
    ((∀ (s : X) (A : X → R), T (fun x => A (x + s)) = fun x => T A (x + s)) ∧
      ∀ z, z ∉ W → T (Pi.single 0 1) (-z) = 0) ↔ ∃ F : X → R, T = convMap W F := by
  constructor
  · rintro ⟨hT, hW⟩
    refine ⟨fun z => T (Pi.single 0 1) (-z), ?_⟩
    apply LinearMap.ext
    intro A
    funext x
    rw [shift_equivariant_linear_eq_conv_window T hT W hW A x]
    rfl
  · rintro ⟨F, rfl⟩
    refine ⟨convMap_shift W F, ?_⟩
    intro z hz
    simp only [convMap, LinearMap.coe_mk, AddHom.coe_mk]
    apply Finset.sum_eq_zero
    intro w hw
    have : -z + w ≠ 0 := by
      intro h
      have : w = z := by rw [neg_add_eq_zero] at h; exact h.symm
      exact hz (this ▸ hw)
    simp [this]

end Abstract

/-- the torus images of the library: pixel grid `(ℤ/N)^d` -/
example (d N : ℕ) [NeZero N] (T : ((Fin d → ZMod N) → ℤ) →ₗ[ℤ] ((Fin d → ZMod N) → ℤ))
    (hT : ∀ s A, T (fun x => A (x + s)) = fun x => T A (x + s)) (A : (Fin d → ZMod N) → ℤ)
    (x : Fin d → ZMod N) : T A x = ∑ z, A (x + z) * T (Pi.single 0 1) (-z) :=
  shift_equivariant_linear_eq_conv T hT A x

end GinjaxVerif.C03
