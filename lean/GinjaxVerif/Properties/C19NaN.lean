import GinjaxVerif.Properties.C19
import Mathlib.Data.Nat.Find

/-!
# C19 — NaN and infinite losses

The code holds `best_*_loss` as a float (initially `jnp.inf`) and tests
`loss < best - min_delta` in IEEE arithmetic.  `Model/C19.lean` has that float-shaped machine
(`pStepF`, `pRunF`, `pLoopF`, `trainLoopF` over `FV Q`).  Here:

* `pStepF_fin_simulates`, `pRunF_fin`, `pLoopF_fin`, `trainLoopF_fin`: on finite losses with a
  finite `min_delta` the float-shaped machine IS the `Option`-shaped machine of `Properties/C19`
  (`none` ↔ `pinf`, `some b` ↔ `fin b`), so `pRun_spec`, `stop_true_iff`, `trainLoop_terminates` …
  transfer (`pRunF_fin_spec`, `trainLoopF_fin_terminates`);
* `nan_never_improves`, `pinf_never_improves`: a NaN / +inf loss never changes the best loss or the
  best model and increments the counter, in EVERY state and for every `min_delta`;
* `pRunF_spec_nan`: on an arbitrary history over the FULL alphabet {finite, NaN, +inf, -inf} the
  machine tracks `bestFV` (the best of the FINITE sub-history until the first `-inf`, `-inf` from
  then on), counts NaN / +inf epochs — and every epoch after a `-inf` — as non-improving epochs
  (`trailingF`), and remembers the epoch of the last improvement (`argBestF`);
  `stopF_true_iff`, `stopF_true_iff_full`, `bestF_is_loss_of_argBestF`, `trainLoopF_terminates`;
* `ninf_improves`, `after_ninf_nothing_improves`, `ninf_is_final_best`: a `-inf` loss is taken as the
  new best from every finite / `+inf` best; once the best is `-inf` no loss (not even another `-inf`)
  improves, for every `min_delta`; the loop stops exactly `patience + 1` epochs after the first
  `-inf` epoch and hands back the model of that epoch;
* `nan_tail_terminates`, `nan_tail_stops`: a history that is NaN / +inf from some epoch on stops
  after `patience + 1 - counter` further epochs and returns the best finite-loss model seen before;
* `ge_variant_diverges_on_nan`: the restructured test `if loss >= best - min_delta: count … else:
  new best` takes a NaN loss for an improvement and never stops.
-/
namespace GinjaxVerif.C19

section Float
variable {Q : Type} [LT Q] [DecidableLT Q] [Sub Q]

/-! ### Basic facts of the IEEE-like comparison and subtraction. -/

omit [DecidableLT Q] [Sub Q] in
theorem FV.not_nan_lt (y : FV Q) : ¬ (FV.nan < y) := fun h => by cases h

omit [DecidableLT Q] [Sub Q] in
theorem FV.not_lt_nan (x : FV Q) : ¬ (x < FV.nan) := fun h => by cases x <;> cases h

omit [DecidableLT Q] [Sub Q] in
theorem FV.not_pinf_lt (y : FV Q) : ¬ (FV.pinf < y) := fun h => by cases h

omit [DecidableLT Q] [Sub Q] in
theorem FV.not_lt_ninf (x : FV Q) : ¬ (x < FV.ninf) := fun h => by cases x <;> cases h

omit [DecidableLT Q] [Sub Q] in
theorem FV.fin_lt_fin (x y : Q) : (FV.fin x < FV.fin y) ↔ x < y := Iff.rfl

omit [DecidableLT Q] [Sub Q] in
theorem FV.fin_lt_pinf (x : Q) : FV.fin x < (FV.pinf : FV Q) := trivial

omit [LT Q] [DecidableLT Q] in
theorem FV.fin_sub_fin (x y : Q) : (FV.fin x - FV.fin y : FV Q) = FV.fin (x - y) := rfl

omit [LT Q] [DecidableLT Q] in
theorem FV.pinf_sub_fin (y : Q) : (FV.pinf - FV.fin y : FV Q) = FV.pinf := rfl

/-- the float-shaped state that corresponds to an `Option`-shaped state -/
def PState.toF (s : PState Q) : FState Q :=
  { best := toFV s.best, since := s.since, bestModel := s.bestModel }

omit [LT Q] [DecidableLT Q] [Sub Q] in
theorem toF_init (m0 : Option Nat) : (PState.init m0 : PState Q).toF = FState.init m0 := rfl

/-- The float test on a finite loss against a tracked best is the `Option`-shaped test. -/
theorem fin_lt_sub_iff (delta x : Q) (b : Option Q) :
    (FV.fin x < toFV b - FV.fin delta) ↔ improves delta x b = true := by
  cases b with
  | none => simp [toFV, FV.pinf_sub_fin, FV.fin_lt_pinf, improves]
  | some b => simp [toFV, FV.fin_sub_fin, FV.fin_lt_fin, improves]

omit [DecidableLT Q] [Sub Q] in
/-- A NaN / +inf loss fails the float test whatever the state and `min_delta`. -/
theorem nonfinite_not_lt (x y : FV Q) (hx : x = .nan ∨ x = .pinf) : ¬ (x < y) := by
  rcases hx with rfl | rfl
  · exact FV.not_nan_lt y
  · exact FV.not_pinf_lt y

/-! ### Finite losses: the float-shaped machine is the `Option`-shaped one. -/

/-- **pStepF_fin_simulates.**  From corresponding states (`none` ↔ `pinf`, `some b` ↔ `fin b`), on a
finite loss (or no loss) with a finite `min_delta`, the float-shaped step and `pStep` go to
corresponding states and give the same verdict. -/
theorem pStepF_fin_simulates (patience : Nat) (delta : Q) (s : PState Q) (m : Nat) (arg : Option Q) :
    pStepF patience (.fin delta) s.toF m (arg.map .fin)
      = ((pStep patience delta s m arg).1.toF, (pStep patience delta s m arg).2) := by
  cases arg with
  | none => rfl
  | some x =>
    simp only [Option.map_some, pStepF, pStep, PState.toF]
    by_cases hi : improves delta x s.best = true
    · have h1 := (fin_lt_sub_iff delta x s.best).2 hi
      simp [h1, hi]
      rfl
    · have h1 : ¬ (FV.fin x < toFV s.best - FV.fin delta) :=
        fun h => hi ((fin_lt_sub_iff delta x s.best).1 h)
      simp [h1, hi]

/-- Whole call histories: same verdicts, corresponding final states. -/
theorem pRunF_fin (patience : Nat) (delta : Q) (l : List (Option Q)) :
    ∀ (s : PState Q) (m : Nat),
      pRunF patience (.fin delta) s.toF m (l.map (Option.map .fin))
        = ((pRun patience delta s m l).1.toF, (pRun patience delta s m l).2) := by
  induction l with
  | nil => intro s m; rfl
  | cons a as ih =>
    intro s m
    simp only [List.map_cons, pRunF, pRun, pStepF_fin_simulates, ih]

/-- The epoch loop: same stop epoch, same best model, for every fuel. -/
theorem pLoopF_fin (patience : Nat) (delta : Q) (loss : Nat → Q) :
    ∀ (fuel : Nat) (s : PState Q) (epoch : Nat),
      pLoopF patience (.fin delta) (fun n => .fin (loss n)) fuel s.toF epoch
        = pLoop patience delta loss fuel s epoch := by
  intro fuel
  induction fuel with
  | zero => intro s epoch; rfl
  | succ f ih =>
    intro s epoch
    have harg : (if epoch = 0 then none else some (FV.fin (loss (epoch - 1))) : Option (FV Q))
        = (if epoch = 0 then none else some (loss (epoch - 1)) : Option Q).map .fin := by
      split <;> rfl
    simp only [pLoopF, pLoop, harg, pStepF_fin_simulates, ih]
    rfl

theorem trainLoopF_fin (patience : Nat) (delta : Q) (loss : Nat → Q) (fuel : Nat) :
    trainLoopF patience (.fin delta) (fun n => .fin (loss n)) fuel
      = trainLoopP patience delta loss fuel :=
  pLoopF_fin patience delta loss fuel (PState.init (some 0)) 0

/-- **pRunF_fin_spec** (`pRun_spec` transferred).  On an all-finite history `h` (chronological) the
float-shaped machine started as the code starts it (`best = inf`) ends in the state the
declarative spec describes and its `i`-th verdict is `trailing (first i+1 losses) > patience`;
by `stop_true_iff`, that is: the last `patience + 1` losses all failed to improve. -/
theorem pRunF_fin_spec (patience : Nat) (delta : Q) (m0 : Option Nat) (h : List Q) :
    (pRunF patience (.fin delta) (FState.init m0) 1 (h.map (fun x => some (.fin x)))).1
        = { best := toFV (bestOf delta h.reverse), since := trailing delta h.reverse,
            bestModel := if argBest delta h.reverse = 0 then m0
                         else some (argBest delta h.reverse) } ∧
      (pRunF patience (.fin delta) (FState.init m0) 1 (h.map (fun x => some (.fin x)))).2
        = (List.range h.length).map
            (fun i => decide (trailing delta (h.take (i + 1)).reverse > patience)) := by
  have hm : h.map (fun x => some (FV.fin x)) = (h.map some).map (Option.map FV.fin) := by
    simp [List.map_map, Function.comp_def]
  rw [hm, ← toF_init, pRunF_fin]
  obtain ⟨hr, hv⟩ := pRun_spec patience delta m0 h (PState.init m0) [] (rel_init delta m0)
  simp only [List.length_nil, Nat.zero_add, List.append_nil] at hr hv
  refine ⟨?_, hv⟩
  simp only [PState.toF, hr.best, hr.since, hr.model]

/-- **trainLoopF_fin_terminates** (`trainLoop_terminates` transferred). -/
theorem trainLoopF_fin_terminates (patience : Nat) (delta : Q) (loss : Nat → Q) (n : Nat)
    (hstop : trailing delta (hist loss n) > patience)
    (hfirst : ∀ m, m < n → ¬ trailing delta (hist loss m) > patience)
    (fuel : Nat) (hf : n + 1 < fuel) :
    trainLoopF patience (.fin delta) (fun n => .fin (loss n)) fuel
      = some (n, if argBest delta (hist loss n) = 0 then some 0
                 else some (argBest delta (hist loss n))) := by
  rw [trainLoopF_fin]; exact trainLoop_terminates patience delta loss n hstop hfirst fuel hf

/-! ### NaN / +inf losses never improve. -/

/-- **nan_never_improves.**  In every state (in particular the initial one, `best = inf`) and for
every `min_delta`, a NaN loss leaves `best` and `best_model` alone and increments the counter. -/
theorem nan_never_improves (patience : Nat) (delta : FV Q) (s : FState Q) (m : Nat) :
    pStepF patience delta s m (some .nan)
      = ({ s with since := s.since + 1 }, decide (s.since + 1 > patience)) := by
  simp only [pStepF, if_neg (FV.not_nan_lt _)]

/-- likewise a `+inf` loss -/
theorem pinf_never_improves (patience : Nat) (delta : FV Q) (s : FState Q) (m : Nat) :
    pStepF patience delta s m (some .pinf)
      = ({ s with since := s.since + 1 }, decide (s.since + 1 > patience)) := by
  simp only [pStepF, if_neg (FV.not_pinf_lt _)]

end Float

/-- epoch `i + 1` of the chronological history is `loss i` -/
theorem hist_reverse_getElem? {A : Type} (loss : Nat → A) (n i : Nat) (hi : i < n) :
    (hist loss n).reverse[i]? = some (loss i) := by
  induction n with
  | zero => omega
  | succ n ih =>
    simp only [hist, List.reverse_cons]
    by_cases h : i < n
    · rw [List.getElem?_append_left (by rw [List.length_reverse, hist_length]; exact h)]
      exact ih h
    · have : i = n := by omega
      subst this
      rw [List.getElem?_append_right (by rw [List.length_reverse, hist_length]),
        List.length_reverse, hist_length, Nat.sub_self]
      rfl

/-! ### Arbitrary histories (NaN / +inf anywhere): the machine against the finite-sub-history spec. -/

section Spec
variable {Q : Type} [LT Q] [DecidableLT Q] [Sub Q]

/-- The float-shaped state agrees with the spec of a history (newest first) over the full alphabet:
"best" is `bestFV` (`-inf` once a `-inf` has been seen, else the best of the finite sub-history),
non-improving epochs are counted by `trailingF`. -/
structure RelF (delta : Q) (m0 : Option Nat) (s : FState Q) (past : List (FV Q)) : Prop where
  best : s.best = bestFV delta past
  since : s.since = trailingF delta past
  model : s.bestModel = if argBestF delta past = 0 then m0 else some (argBestF delta past)

theorem relF_init (delta : Q) (m0 : Option Nat) : RelF delta m0 (FState.init m0) [] :=
  ⟨rfl, rfl, rfl⟩

omit [LT Q] [DecidableLT Q] [Sub Q] in
theorem hasNinf_cons_of_true (x : FV Q) (past : List (FV Q)) (h : hasNinf past = true) :
    hasNinf (x :: past) = true := by
  cases x <;> simp [hasNinf, h]

omit [LT Q] [DecidableLT Q] [Sub Q] in
theorem hasNinf_cons_of_ne (x : FV Q) (past : List (FV Q)) (hx : x ≠ .ninf) :
    hasNinf (x :: past) = hasNinf past := by
  cases x with
  | ninf => exact absurd rfl hx
  | nan => rfl
  | pinf => rfl
  | fin q => rfl

/-- Once a `-inf` has been seen, no loss improves (spec side). -/
theorem improvesF_false_of_hasNinf (delta : Q) (x : FV Q) (past : List (FV Q))
    (h : hasNinf past = true) : improvesF delta x past = false := by
  cases x <;> simp [improvesF, h]

theorem bestFV_of_hasNinf (delta : Q) (h : List (FV Q)) (hn : hasNinf h = true) :
    bestFV delta h = .ninf := by
  simp [bestFV, hn]

theorem bestFV_of_not_hasNinf (delta : Q) (h : List (FV Q)) (hn : hasNinf h = false) :
    bestFV delta h = toFV (bestOfF delta h) := by
  simp [bestFV, hn]

/-- The code's float test against the tracked best is the spec's `improvesF`, for EVERY loss value:
finite, NaN, +inf and -inf. -/
theorem lt_sub_iff_improvesF (delta : Q) (x : FV Q) (past : List (FV Q)) :
    (x < bestFV delta past - FV.fin delta) ↔ improvesF delta x past = true := by
  by_cases hn : hasNinf past = true
  · rw [bestFV_of_hasNinf delta past hn, improvesF_false_of_hasNinf delta x past hn]
    have : (FV.ninf - FV.fin delta : FV Q) = FV.ninf := rfl
    rw [this]
    simp [FV.not_lt_ninf]
  · have hn' : hasNinf past = false := by simpa using hn
    rw [bestFV_of_not_hasNinf delta past hn']
    cases x with
    | nan => simp [improvesF, FV.not_nan_lt]
    | pinf => simp [improvesF, FV.not_pinf_lt]
    | ninf =>
      have : (FV.ninf : FV Q) < toFV (bestOfF delta past) - FV.fin delta := by
        cases bestOfF delta past <;> exact trivial
      simp [improvesF, hn', this]
    | fin q =>
      rw [show bestOfF delta past = bestOf delta (finPart past) from rfl, fin_lt_sub_iff]
      simp [improvesF, hn']

/-- Only a finite loss or a `-inf` loss can improve, and only while no `-inf` has been seen. -/
theorem improvesF_cases_of_true (delta : Q) (x : FV Q) (past : List (FV Q))
    (h : improvesF delta x past = true) :
    hasNinf past = false ∧ ((∃ q, x = .fin q) ∨ x = .ninf) := by
  cases x with
  | fin q => simp [improvesF] at h; exact ⟨h.1, Or.inl ⟨q, rfl⟩⟩
  | ninf => simp [improvesF] at h; exact ⟨h, Or.inr rfl⟩
  | nan => simp [improvesF] at h
  | pinf => simp [improvesF] at h

theorem bestOfF_cons_of_not (delta : Q) (x : FV Q) (past : List (FV Q)) (hn : hasNinf past = false)
    (h : improvesF delta x past = false) : bestOfF delta (x :: past) = bestOfF delta past := by
  cases x with
  | fin q =>
    have h' : improves delta q (bestOf delta (finPart past)) = false := by
      simpa [improvesF, hn] using h
    simp [bestOfF, finPart, bestOf, h']
  | nan => rfl
  | pinf => rfl
  | ninf => rfl

/-- An improving loss becomes the tracked best. -/
theorem bestFV_cons_of_improves (delta : Q) (x : FV Q) (past : List (FV Q))
    (h : improvesF delta x past = true) : bestFV delta (x :: past) = x := by
  obtain ⟨hn, ⟨q, rfl⟩ | rfl⟩ := improvesF_cases_of_true delta x past h
  · have h' : improves delta q (bestOf delta (finPart past)) = true := by
      simpa [improvesF, hn] using h
    have h1 : hasNinf (FV.fin q :: past) = false := hn
    rw [bestFV_of_not_hasNinf delta _ h1]
    simp [bestOfF, finPart, bestOf, h', toFV]
  · exact bestFV_of_hasNinf delta _ rfl

/-- A non-improving loss leaves the tracked best alone. -/
theorem bestFV_cons_of_not (delta : Q) (x : FV Q) (past : List (FV Q))
    (h : improvesF delta x past = false) : bestFV delta (x :: past) = bestFV delta past := by
  by_cases hn : hasNinf past = true
  · rw [bestFV_of_hasNinf delta past hn, bestFV_of_hasNinf delta _ (hasNinf_cons_of_true x past hn)]
  · have hn' : hasNinf past = false := by simpa using hn
    have hx : x ≠ .ninf := by
      rintro rfl
      simp [improvesF, hn'] at h
    rw [bestFV_of_not_hasNinf delta past hn',
      bestFV_of_not_hasNinf delta _ (by rw [hasNinf_cons_of_ne x past hx]; exact hn'),
      bestOfF_cons_of_not delta x past hn' h]

/-- One call with ANY loss (finite, NaN, +inf, -inf) keeps the relation; its verdict is "more than
`patience` trailing non-improving epochs". -/
theorem pStepF_relF (patience : Nat) (delta : Q) (m0 : Option Nat) (s : FState Q)
    (past : List (FV Q)) (x : FV Q) (h : RelF delta m0 s past) :
    RelF delta m0 (pStepF patience (.fin delta) s (past.length + 1) (some x)).1 (x :: past) ∧
      (pStepF patience (.fin delta) s (past.length + 1) (some x)).2
        = decide (trailingF delta (x :: past) > patience) := by
  unfold pStepF
  by_cases hi : improvesF delta x past = true
  · have h1 : x < s.best - FV.fin delta := by
      rw [h.best]; exact (lt_sub_iff_improvesF delta x past).2 hi
    simp only [h1, if_true]
    refine ⟨⟨?_, ?_, ?_⟩, ?_⟩
    · simp [bestFV_cons_of_improves delta x past hi]
    · simp [trailingF, hi]
    · simp [argBestF, hi]
    · simp [trailingF, hi]
  · have hi' : improvesF delta x past = false := by simpa using hi
    have h1 : ¬ (x < s.best - FV.fin delta) := by
      rw [h.best]; exact fun hlt => hi ((lt_sub_iff_improvesF delta x past).1 hlt)
    simp only [h1, if_false]
    refine ⟨⟨?_, ?_, ?_⟩, ?_⟩
    · simp [bestFV_cons_of_not delta x past hi', h.best]
    · simp [trailingF, hi', h.since]
    · simp [argBestF, hi', h.model]
    · simp [trailingF, hi', h.since]

/-- Generalised form of `pRunF_spec_nan` (any already consumed history `past`). -/
theorem pRunF_rel (patience : Nat) (delta : Q) (m0 : Option Nat) (h : List (FV Q)) :
    ∀ (s : FState Q) (past : List (FV Q)), RelF delta m0 s past →
      RelF delta m0 (pRunF patience (.fin delta) s (past.length + 1) (h.map some)).1
          (h.reverse ++ past) ∧
      (pRunF patience (.fin delta) s (past.length + 1) (h.map some)).2
        = (List.range h.length).map
            (fun i => decide (trailingF delta ((h.take (i + 1)).reverse ++ past) > patience)) := by
  induction h with
  | nil => intro s past hr; exact ⟨by simpa [pRunF] using hr, by simp [pRunF]⟩
  | cons x xs ih =>
    intro s past hr
    obtain ⟨hr', hv⟩ := pStepF_relF patience delta m0 s past x hr
    have := ih
      (pStepF patience (.fin delta) s (past.length + 1) (some x)).1 (x :: past) hr'
    simp only [List.length_cons] at this
    obtain ⟨h1, h2⟩ := this
    constructor
    · simpa [pRunF] using h1
    · simp only [List.map_cons, pRunF, List.length_cons, List.range_succ_eq_map, List.map_cons,
        List.map_map]
      rw [h2, hv]
      simp [Function.comp_def]

/-- **pRunF_spec_nan.**  Drive the machine as the code initialises it (`best = inf`) through an
ARBITRARY chronological history `h` of losses — finite values, NaN, `+inf` and `-inf` anywhere —
with a finite `min_delta`.  Afterwards
* its best loss is `bestFV`: `-inf` if a `-inf` loss has been seen, otherwise the tracked best of
  the FINITE sub-history (`inf` if there is no finite loss),
* its counter is `trailingF`: the number of epochs since the last improvement, NaN / +inf epochs
  and all epochs after the first `-inf` counted as non-improving epochs,
* its `best_model` is the model of epoch `argBestF` (position in the full history of the last
  improvement: the first `-inf` epoch if there is one), the initial `m0` if there was none,
* the `i`-th verdict is `trailingF (first i+1 losses) > patience`. -/
theorem pRunF_spec_nan (patience : Nat) (delta : Q) (m0 : Option Nat) (h : List (FV Q)) :
    (pRunF patience (.fin delta) (FState.init m0) 1 (h.map some)).1
        = { best := bestFV delta h.reverse, since := trailingF delta h.reverse,
            bestModel := if argBestF delta h.reverse = 0 then m0
                         else some (argBestF delta h.reverse) } ∧
      (pRunF patience (.fin delta) (FState.init m0) 1 (h.map some)).2
        = (List.range h.length).map
            (fun i => decide (trailingF delta (h.take (i + 1)).reverse > patience)) := by
  obtain ⟨hr, hv⟩ := pRunF_rel patience delta m0 h _ [] (relF_init delta m0)
  simp only [List.length_nil, Nat.zero_add, List.append_nil] at hr hv
  refine ⟨?_, hv⟩
  generalize (pRunF patience (.fin delta) (FState.init m0) 1 (h.map some)).1 = s at hr
  cases s
  simpa using ⟨hr.best, hr.since, hr.model⟩

/-! #### The spec on all-finite histories is the ordinary one. -/

omit [LT Q] [DecidableLT Q] [Sub Q] in
theorem finPart_map_fin (h : List Q) : finPart (h.map FV.fin) = h := by
  induction h with
  | nil => rfl
  | cons x xs ih => simp [finPart, ih]

omit [LT Q] [DecidableLT Q] [Sub Q] in
theorem hasNinf_map_fin (h : List Q) : hasNinf (h.map FV.fin) = false := by
  induction h with
  | nil => rfl
  | cons x xs ih => simpa [hasNinf] using ih

theorem improvesF_map_fin (delta : Q) (x : Q) (h : List Q) :
    improvesF delta (.fin x) (h.map FV.fin) = improves delta x (bestOf delta h) := by
  simp [improvesF, finPart_map_fin, hasNinf_map_fin]

theorem trailingF_map_fin (delta : Q) (h : List Q) :
    trailingF delta (h.map FV.fin) = trailing delta h := by
  induction h with
  | nil => rfl
  | cons x xs ih => simp only [List.map_cons, trailingF, trailing, improvesF_map_fin, ih]

theorem argBestF_map_fin (delta : Q) (h : List Q) :
    argBestF delta (h.map FV.fin) = argBest delta h := by
  induction h with
  | nil => rfl
  | cons x xs ih =>
    simp only [List.map_cons, argBestF, argBest, improvesF_map_fin, ih, List.length_map]

/-! #### When does it stop, and what does it hand back. -/

theorem le_trailingF_iff (delta : Q) (h : List (FV Q)) (k : Nat) :
    k ≤ trailingF delta h ↔
      k ≤ h.length ∧ ∀ i, i < k → ∀ x past, h.drop i = x :: past →
        improvesF delta x past = false := by
  induction h generalizing k with
  | nil =>
    simp only [trailingF, Nat.le_zero_eq, List.length_nil, List.drop_nil, reduceCtorEq,
      false_imp_iff, implies_true, and_true]
  | cons y ys ih =>
    cases k with
    | zero => simp
    | succ k =>
      by_cases hy : improvesF delta y ys = true
      · simp only [trailingF, hy, if_true, Nat.le_zero_eq, Nat.add_one_ne_zero, false_iff,
          List.length_cons, not_and, not_forall]
        intro _
        exact ⟨0, Nat.succ_pos _, y, ys, rfl, by simp [hy]⟩
      · have hy' : improvesF delta y ys = false := by simpa using hy
        simp only [trailingF, hy', Bool.false_eq_true, if_false, Nat.add_le_add_iff_right,
          List.length_cons, ih]
        constructor
        · rintro ⟨hl, hall⟩
          refine ⟨hl, ?_⟩
          intro i hi x past hd
          cases i with
          | zero =>
            simp only [List.drop_zero, List.cons.injEq] at hd
            obtain ⟨rfl, rfl⟩ := hd; exact hy'
          | succ i => exact hall i (Nat.lt_of_succ_lt_succ hi) x past (by simpa using hd)
        · rintro ⟨hl, hall⟩
          refine ⟨hl, ?_⟩
          intro i hi x past hd
          exact hall (i + 1) (Nat.succ_lt_succ hi) x past (by simpa using hd)

/-- **stopF_true_iff** (`stop_true_iff` for histories over the full alphabet).  After any history `h`
(newest first) the verdict of the last call is `true` iff each of the last `patience + 1` epochs
failed to improve (`improvesF … = false`; spelled out per kind of loss in `stopF_true_iff_full`). -/
theorem stopF_true_iff (patience : Nat) (delta : Q) (h : List (FV Q)) :
    trailingF delta h > patience ↔
      patience + 1 ≤ h.length ∧ ∀ i, i < patience + 1 → ∀ x past, h.drop i = x :: past →
        improvesF delta x past = false :=
  le_trailingF_iff delta h (patience + 1)

/-- what `improvesF x past = false` says, over the full alphabet {fin, nan, +inf, -inf}: the loss is
NaN, or `+inf`, or a `-inf` has been seen before it (then nothing improves, whatever `x` is — also
another `-inf`), or it is finite and fails to improve on the best finite loss before it. -/
theorem improvesF_false_iff (delta : Q) (x : FV Q) (past : List (FV Q)) :
    improvesF delta x past = false ↔
      (x = .nan ∨ x = .pinf ∨ hasNinf past = true ∨
        ∃ q, x = .fin q ∧ improves delta q (bestOfF delta past) = false) := by
  cases x with
  | fin q =>
    by_cases hn : hasNinf past = true
    · simp [improvesF, hn]
    · have hn' : hasNinf past = false := by simpa using hn
      simp [improvesF, bestOfF, hn']
  | nan => simp [improvesF]
  | pinf => simp [improvesF]
  | ninf => simp [improvesF]

/-- **stopF_true_iff_full.**  The spec of the verdict over the FULL alphabet {fin, nan, +inf, -inf}:
after any history `h` (newest first) the last call returns `true` iff there have been at least
`patience + 1` epochs and each of the last `patience + 1` of them
* had a NaN loss, or
* had a `+inf` loss, or
* came after a `-inf` loss (whatever its own loss: finite, `-inf` again, …), or
* had a finite loss that failed to improve, by more than `min_delta`, on the best finite loss
  before it.
(In particular a `-inf` loss with no `-inf` before it is always an improvement.) -/
theorem stopF_true_iff_full (patience : Nat) (delta : Q) (h : List (FV Q)) :
    trailingF delta h > patience ↔
      patience + 1 ≤ h.length ∧ ∀ i, i < patience + 1 → ∀ x past, h.drop i = x :: past →
        (x = .nan ∨ x = .pinf ∨ hasNinf past = true ∨
          ∃ q, x = .fin q ∧ improves delta q (bestOfF delta past) = false) := by
  rw [stopF_true_iff]
  constructor
  · rintro ⟨hl, hall⟩
    exact ⟨hl, fun i hi x past hd => (improvesF_false_iff delta x past).1 (hall i hi x past hd)⟩
  · rintro ⟨hl, hall⟩
    exact ⟨hl, fun i hi x past hd => (improvesF_false_iff delta x past).2 (hall i hi x past hd)⟩

/-- **bestF_is_loss_of_argBestF.**  Either nothing has improved yet (`argBestF = 0`: no finite and no
`-inf` loss seen, the initial model is kept), or `argBestF` is an epoch of the history whose loss IS
the tracked best `bestFV` — a finite value, or `-inf`. -/
theorem bestF_is_loss_of_argBestF (delta : Q) (h : List (FV Q)) :
    (argBestF delta h = 0 ∧ finPart h = [] ∧ hasNinf h = false) ∨
    (0 < argBestF delta h ∧ argBestF delta h ≤ h.length ∧
      h.reverse[argBestF delta h - 1]? = some (bestFV delta h) ∧
      (bestFV delta h = .ninf ∨ ∃ b, bestFV delta h = .fin b)) := by
  induction h with
  | nil => left; exact ⟨rfl, rfl, rfl⟩
  | cons x xs ih =>
    by_cases hx : improvesF delta x xs = true
    · right
      simp only [argBestF, hx, if_true, List.length_cons, List.reverse_cons,
        bestFV_cons_of_improves delta x xs hx]
      refine ⟨Nat.succ_pos _, Nat.le_refl _, ?_, ?_⟩
      · rw [Nat.add_sub_cancel, List.getElem?_append_right (by simp), List.length_reverse,
          Nat.sub_self]
        rfl
      · rcases (improvesF_cases_of_true delta x xs hx).2 with ⟨q, rfl⟩ | rfl
        · exact Or.inr ⟨q, rfl⟩
        · exact Or.inl rfl
    · have hx' : improvesF delta x xs = false := by simpa using hx
      simp only [argBestF, hx', Bool.false_eq_true, if_false, List.length_cons, List.reverse_cons,
        bestFV_cons_of_not delta x xs hx']
      rcases ih with ⟨h0, hn, hi⟩ | ⟨hp, hle, hg, hb⟩
      · left
        refine ⟨h0, ?_, ?_⟩
        · cases x with
          | fin q => simp [improvesF, hn, hi, bestOf, improves] at hx'
          | nan => exact hn
          | pinf => exact hn
          | ninf => simp [improvesF, hi] at hx'
        · cases x with
          | fin q => exact hi
          | nan => exact hi
          | pinf => exact hi
          | ninf => simp [improvesF, hi] at hx'
      · right
        refine ⟨hp, Nat.le_succ_of_le hle, ?_, hb⟩
        rw [List.getElem?_append_left (by rw [List.length_reverse]; omega)]
        exact hg

/-- Loop invariant, in the style of `pLoop_spec`. -/
theorem pLoopF_spec (patience : Nat) (delta : Q) (loss : Nat → FV Q) (m0 : Option Nat) (n : Nat)
    (hstop : trailingF delta (hist loss n) > patience)
    (hfirst : ∀ m, m < n → ¬ trailingF delta (hist loss m) > patience) :
    ∀ (k : Nat) (s : FState Q), k ≤ n → k ≠ 0 → RelF delta m0 s (hist loss (k - 1)) →
      ∀ fuel, n - k < fuel →
      pLoopF patience (.fin delta) loss fuel s k
        = some (n, if argBestF delta (hist loss n) = 0 then m0
                   else some (argBestF delta (hist loss n))) := by
  intro k
  induction hk : n - k generalizing k with
  | zero =>
    intro s hkn hk0 hr fuel hf
    have hkn' : k = n := by omega
    subst hkn'
    obtain ⟨f, rfl⟩ : ∃ f, fuel = f + 1 := ⟨fuel - 1, by omega⟩
    obtain ⟨k', rfl⟩ : ∃ k', k = k' + 1 := ⟨k - 1, by omega⟩
    simp only [Nat.add_sub_cancel] at hr
    have := pStepF_relF patience delta m0 s (hist loss k') (loss k') hr
    rw [hist_length] at this
    obtain ⟨hr', hv⟩ := this
    simp only [pLoopF, Nat.add_one_ne_zero, if_false, Nat.add_sub_cancel]
    have hv' : (pStepF patience (.fin delta) s (k' + 1) (some (loss k'))).2 = true := by
      rw [hv]; simpa [hist] using hstop
    rw [hv']
    simp only [if_true]
    rw [hr'.model]; rfl
  | succ d ih =>
    intro s hkn hk0 hr fuel hf
    obtain ⟨f, rfl⟩ : ∃ f, fuel = f + 1 := ⟨fuel - 1, by omega⟩
    obtain ⟨k', rfl⟩ : ∃ k', k = k' + 1 := ⟨k - 1, by omega⟩
    simp only [Nat.add_sub_cancel] at hr
    have := pStepF_relF patience delta m0 s (hist loss k') (loss k') hr
    rw [hist_length] at this
    obtain ⟨hr', hv⟩ := this
    simp only [pLoopF, Nat.add_one_ne_zero, if_false, Nat.add_sub_cancel]
    have hv' : (pStepF patience (.fin delta) s (k' + 1) (some (loss k'))).2 = false := by
      rw [hv]
      have := hfirst (k' + 1) (by omega)
      simpa [hist] using this
    rw [hv']
    simp only [Bool.false_eq_true, if_false]
    exact ih (k' + 1 + 1) (by omega) _ (by omega) (by omega) (by simpa [hist] using hr') f (by omega)

/-- **trainLoopF_terminates.**  For EVERY loss stream over the full alphabet (finite, NaN, +inf,
-inf anywhere): if epoch `n` is the first epoch at which more than `patience` consecutive epochs
(NaN / +inf epochs and epochs after a `-inf` included) have failed to improve, the training loop
stops exactly at epoch `n` and hands back the model of the last improvement (the initial model if
there never was one). -/
theorem trainLoopF_terminates (patience : Nat) (delta : Q) (loss : Nat → FV Q) (n : Nat)
    (hstop : trailingF delta (hist loss n) > patience)
    (hfirst : ∀ m, m < n → ¬ trailingF delta (hist loss m) > patience)
    (fuel : Nat) (hf : n + 1 < fuel) :
    trainLoopF patience (.fin delta) loss fuel
      = some (n, if argBestF delta (hist loss n) = 0 then some 0
                 else some (argBestF delta (hist loss n))) := by
  have hn : n ≠ 0 := by
    rintro rfl
    simp [hist, trailingF] at hstop
  obtain ⟨f, rfl⟩ : ∃ f, fuel = f + 1 := ⟨fuel - 1, by omega⟩
  unfold trainLoopF
  simp only [pLoopF, if_true, pStepF, Bool.false_eq_true, if_false, Nat.zero_add]
  exact pLoopF_spec patience delta loss (some 0) n hstop hfirst 1 _ (by omega) (by omega)
    (by simpa [hist] using relF_init delta (some 0)) f (by omega)

/-! #### A history that is NaN / +inf from some epoch on. -/

/-- Over a NaN / +inf tail the counter grows by one per epoch and the best epoch stays put. -/
theorem nan_tail_spec (delta : Q) (loss : Nat → FV Q) (n0 : Nat)
    (htail : ∀ e, n0 ≤ e → loss e = .nan ∨ loss e = .pinf) (k : Nat) :
    trailingF delta (hist loss (n0 + k)) = trailingF delta (hist loss n0) + k ∧
    argBestF delta (hist loss (n0 + k)) = argBestF delta (hist loss n0) ∧
    bestFV delta (hist loss (n0 + k)) = bestFV delta (hist loss n0) := by
  induction k with
  | zero => exact ⟨rfl, rfl, rfl⟩
  | succ k ih =>
    obtain ⟨h1, h2, h3⟩ := ih
    have hx : improvesF delta (loss (n0 + k)) (hist loss (n0 + k)) = false := by
      rcases htail (n0 + k) (by omega) with h | h <;> rw [h] <;> rfl
    refine ⟨?_, ?_, ?_⟩
    · show trailingF delta (loss (n0 + k) :: hist loss (n0 + k)) = _
      simp only [trailingF, hx, Bool.false_eq_true, if_false, h1]; omega
    · show argBestF delta (loss (n0 + k) :: hist loss (n0 + k)) = _
      simp only [argBestF, hx, Bool.false_eq_true, if_false, h2]
    · show bestFV delta (loss (n0 + k) :: hist loss (n0 + k)) = _
      rw [bestFV_cons_of_not delta _ _ hx, h3]

/-- **nan_tail_terminates.**  Training diverges: from epoch `n0 + 1` on every loss is NaN (or
`+inf`).  If the loop has not stopped by epoch `n0` (counter `c = trailingF … ≤ patience` there), it
stops exactly `patience + 1 - c` epochs later and hands back the model of the last improvement
seen before the tail — whose loss is the tracked best `bestFV` (finite, or `-inf`) — or the
initial model 0 if no finite / `-inf` loss was ever seen. -/
theorem nan_tail_terminates (patience : Nat) (delta : Q) (loss : Nat → FV Q) (n0 : Nat)
    (htail : ∀ e, n0 ≤ e → loss e = .nan ∨ loss e = .pinf)
    (hbefore : ∀ m, m ≤ n0 → ¬ trailingF delta (hist loss m) > patience)
    (fuel : Nat) (hf : n0 + (patience + 1 - trailingF delta (hist loss n0)) + 1 < fuel) :
    trainLoopF patience (.fin delta) loss fuel
      = some (n0 + (patience + 1 - trailingF delta (hist loss n0)),
              some (argBestF delta (hist loss n0))) ∧
    argBestF delta (hist loss n0) ≤ n0 ∧
    ((argBestF delta (hist loss n0) = 0 ∧ finPart (hist loss n0) = [] ∧
        hasNinf (hist loss n0) = false) ∨
     (0 < argBestF delta (hist loss n0) ∧
       loss (argBestF delta (hist loss n0) - 1) = bestFV delta (hist loss n0) ∧
       (bestFV delta (hist loss n0) = .ninf ∨ ∃ b, bestFV delta (hist loss n0) = .fin b))) := by
  have hc := hbefore n0 (Nat.le_refl _)
  have hspec := nan_tail_spec delta loss n0 htail
  refine ⟨?_, ?_, ?_⟩
  · have := trainLoopF_terminates patience delta loss
      (n0 + (patience + 1 - trailingF delta (hist loss n0)))
      (by rw [(hspec _).1]; omega)
      (by
        intro m hm
        by_cases hmn : m ≤ n0
        · exact hbefore m hmn
        · obtain ⟨k, rfl⟩ : ∃ k, m = n0 + k := ⟨m - n0, by omega⟩
          rw [(hspec k).1]; omega)
      fuel hf
    rw [this, (hspec _).2.1]
    by_cases h0 : argBestF delta (hist loss n0) = 0
    · simp [h0]
    · simp [h0]
  · rcases bestF_is_loss_of_argBestF delta (hist loss n0) with ⟨h0, _⟩ | ⟨_, hle, _⟩
    · omega
    · rw [hist_length] at hle; exact hle
  · rcases bestF_is_loss_of_argBestF delta (hist loss n0) with ⟨h0, hn, hi⟩ | ⟨hp, hle, hg, hb⟩
    · left; exact ⟨h0, hn, hi⟩
    · right
      refine ⟨hp, ?_, hb⟩
      rw [hist_length] at hle
      have := hist_reverse_getElem? loss n0 (argBestF delta (hist loss n0) - 1) (by omega)
      rw [this] at hg
      exact Option.some.inj hg

/-- **nan_tail_stops.**  Unconditionally: a history that is NaN / +inf from epoch `n0 + 1` on
stops, at the latest `patience + 1` epochs into the tail, with a model from before the tail. -/
theorem nan_tail_stops (patience : Nat) (delta : Q) (loss : Nat → FV Q) (n0 : Nat)
    (htail : ∀ e, n0 ≤ e → loss e = .nan ∨ loss e = .pinf) :
    ∃ n j, 0 < n ∧ n ≤ n0 + patience + 1 ∧ j ≤ n0 ∧ j ≤ n ∧
      ∀ fuel, n + 1 < fuel → trainLoopF patience (.fin delta) loss fuel = some (n, some j) := by
  classical
  have hex : ∃ n, trailingF delta (hist loss n) > patience :=
    ⟨n0 + (patience + 1), by rw [(nan_tail_spec delta loss n0 htail _).1]; omega⟩
  have hfind := Nat.find_spec hex
  have hle : Nat.find hex ≤ n0 + patience + 1 :=
    Nat.find_min' hex (by
      rw [Nat.add_assoc, (nan_tail_spec delta loss n0 htail _).1]; omega)
  have hpos : 0 < Nat.find hex := by
    rcases Nat.eq_zero_or_pos (Nat.find hex) with h0 | hp
    · rw [h0] at hfind; simp [hist, trailingF] at hfind
    · exact hp
  have hj : argBestF delta (hist loss (Nat.find hex)) ≤ Nat.find hex := by
    rcases bestF_is_loss_of_argBestF delta (hist loss (Nat.find hex)) with ⟨h0, _⟩ | ⟨_, h, _⟩
    · omega
    · rw [hist_length] at h; exact h
  have hj0 : argBestF delta (hist loss (Nat.find hex)) ≤ n0 := by
    by_cases hmn : Nat.find hex ≤ n0
    · omega
    · obtain ⟨k, hk⟩ : ∃ k, Nat.find hex = n0 + k := ⟨Nat.find hex - n0, by omega⟩
      rw [hk, (nan_tail_spec delta loss n0 htail k).2.1]
      rcases bestF_is_loss_of_argBestF delta (hist loss n0) with ⟨h0, _⟩ | ⟨_, h, _⟩
      · omega
      · rw [hist_length] at h; exact h
  refine ⟨Nat.find hex, argBestF delta (hist loss (Nat.find hex)), hpos, hle, hj0, hj, ?_⟩
  intro fuel hf
  rw [trainLoopF_terminates patience delta loss _ hfind
    (fun m hm => Nat.find_min hex hm) fuel hf]
  by_cases h0 : argBestF delta (hist loss (Nat.find hex)) = 0
  · simp [h0]
  · simp [h0]

/-! #### `-inf` losses: the first one is the final best. -/

omit [DecidableLT Q] in
/-- `x < -inf - min_delta` holds for no `x` and no `min_delta` (`-inf - d` is `-inf` or NaN). -/
theorem FV.not_lt_ninf_sub (x delta : FV Q) : ¬ (x < FV.ninf - delta) := by
  cases delta with
  | nan => exact FV.not_lt_nan x
  | ninf => exact FV.not_lt_nan x
  | pinf => exact FV.not_lt_ninf x
  | fin d => exact FV.not_lt_ninf x

/-- **ninf_improves.**  A `-inf` loss is taken as the new best (counter reset, model recorded) from
every state whose best is `+inf` (the initial state) or finite, for every finite `min_delta`. -/
theorem ninf_improves (patience : Nat) (delta : Q) (s : FState Q) (m : Nat)
    (hs : s.best = .pinf ∨ ∃ b, s.best = .fin b) :
    pStepF patience (.fin delta) s m (some .ninf)
      = ({ best := .ninf, since := 0, bestModel := some m }, decide (0 > patience)) := by
  have h1 : (FV.ninf : FV Q) < s.best - FV.fin delta := by
    rcases hs with h | ⟨b, h⟩ <;> rw [h] <;> exact trivial
  simp only [pStepF, if_pos h1]

/-- **after_ninf_nothing_improves.**  In every state whose best loss is `-inf`, EVERY loss — finite,
NaN, `+inf`, or `-inf` again — for EVERY `min_delta` (finite or not) leaves `best` and `best_model`
alone and increments the counter. -/
theorem after_ninf_nothing_improves (patience : Nat) (delta : FV Q) (s : FState Q) (m : Nat)
    (x : FV Q) (hs : s.best = .ninf) :
    pStepF patience delta s m (some x)
      = ({ s with since := s.since + 1 }, decide (s.since + 1 > patience)) := by
  simp only [pStepF, hs, if_neg (FV.not_lt_ninf_sub x delta)]

omit [LT Q] [DecidableLT Q] [Sub Q] in
theorem hasNinf_hist_of_none (loss : Nat → FV Q) (n : Nat) (h : ∀ e, e < n → loss e ≠ .ninf) :
    hasNinf (hist loss n) = false := by
  induction n with
  | zero => rfl
  | succ n ih =>
    show hasNinf (loss n :: hist loss n) = false
    rw [hasNinf_cons_of_ne _ _ (h n (Nat.lt_succ_self n))]
    exact ih (fun e he => h e (Nat.lt_succ_of_lt he))

/-- After the first `-inf` (epoch `n0 + 1`) the counter grows by one per epoch, whatever the losses
are; the best epoch stays `n0 + 1` and the tracked best stays `-inf`. -/
theorem ninf_tail_spec (delta : Q) (loss : Nat → FV Q) (n0 : Nat)
    (hninf : loss n0 = .ninf) (hfirstninf : ∀ e, e < n0 → loss e ≠ .ninf) (k : Nat) :
    hasNinf (hist loss (n0 + 1 + k)) = true ∧
    trailingF delta (hist loss (n0 + 1 + k)) = k ∧
    argBestF delta (hist loss (n0 + 1 + k)) = n0 + 1 ∧
    bestFV delta (hist loss (n0 + 1 + k)) = .ninf := by
  induction k with
  | zero =>
    have hi : improvesF delta (loss n0) (hist loss n0) = true := by
      rw [hninf]; simp [improvesF, hasNinf_hist_of_none loss n0 hfirstninf]
    have hh : hasNinf (hist loss (n0 + 1)) = true := by
      show hasNinf (loss n0 :: hist loss n0) = true
      rw [hninf]; rfl
    refine ⟨hh, ?_, ?_, bestFV_of_hasNinf delta _ hh⟩
    · show trailingF delta (loss n0 :: hist loss n0) = 0
      simp [trailingF, hi]
    · show argBestF delta (loss n0 :: hist loss n0) = n0 + 1
      simp [argBestF, hi, hist_length]
  | succ k ih =>
    obtain ⟨h0, h1, h2, _⟩ := ih
    have hx := improvesF_false_of_hasNinf delta (loss (n0 + 1 + k)) _ h0
    have hh : hasNinf (hist loss (n0 + 1 + (k + 1))) = true :=
      hasNinf_cons_of_true (loss (n0 + 1 + k)) _ h0
    refine ⟨hh, ?_, ?_, bestFV_of_hasNinf delta _ hh⟩
    · show trailingF delta (loss (n0 + 1 + k) :: hist loss (n0 + 1 + k)) = _
      simp only [trailingF, hx, Bool.false_eq_true, if_false, h1]
    · show argBestF delta (loss (n0 + 1 + k) :: hist loss (n0 + 1 + k)) = _
      simp only [argBestF, hx, Bool.false_eq_true, if_false, h2]

/-- **ninf_is_final_best.**  Epoch `n0 + 1` reports the FIRST `-inf` loss of a run, and the loop has
not stopped by epoch `n0`.  Then, whatever the later losses are (finite, NaN, ±inf):
* the `-inf` is recorded as the best loss (counter 0, best model = model of epoch `n0 + 1`),
* no later loss improves: `k` epochs later the counter is exactly `k`, the best epoch is still
  `n0 + 1` and the best loss still `-inf`,
* the training loop stops after exactly `patience + 1` further epochs, at epoch
  `n0 + 1 + (patience + 1)`, and hands back the model of epoch `n0 + 1` (the first `-inf` epoch). -/
theorem ninf_is_final_best (patience : Nat) (delta : Q) (loss : Nat → FV Q) (n0 : Nat)
    (hninf : loss n0 = .ninf) (hfirstninf : ∀ e, e < n0 → loss e ≠ .ninf)
    (hbefore : ∀ m, m ≤ n0 → ¬ trailingF delta (hist loss m) > patience) :
    (∀ fuel, n0 + 1 + (patience + 1) + 1 < fuel →
      trainLoopF patience (.fin delta) loss fuel = some (n0 + 1 + (patience + 1), some (n0 + 1))) ∧
    (∀ k, trailingF delta (hist loss (n0 + 1 + k)) = k ∧
          argBestF delta (hist loss (n0 + 1 + k)) = n0 + 1 ∧
          bestFV delta (hist loss (n0 + 1 + k)) = .ninf) ∧
    (∀ k x, improvesF delta x (hist loss (n0 + 1 + k)) = false) := by
  have hspec := ninf_tail_spec delta loss n0 hninf hfirstninf
  refine ⟨?_, fun k => (hspec k).2, fun k x => improvesF_false_of_hasNinf delta x _ (hspec k).1⟩
  intro fuel hf
  have := trainLoopF_terminates patience delta loss (n0 + 1 + (patience + 1))
    (by rw [(hspec _).2.1]; omega)
    (by
      intro m hm
      by_cases hmn : m ≤ n0
      · exact hbefore m hmn
      · obtain ⟨k, rfl⟩ : ∃ k, m = n0 + 1 + k := ⟨m - (n0 + 1), by omega⟩
        rw [(hspec k).2.1]; omega)
    fuel hf
  rw [this, (hspec _).2.2.1]
  simp

end Spec

/-! ### The contrast: `if loss >= best - min_delta: count … else: new best`. -/

section Ge
variable {Q : Type} [LT Q] [DecidableLT Q] [Sub Q]

/-- On a NaN loss the `>=`-shaped step takes the ELSE branch: NaN becomes the best loss, the
diverged model the best model, the counter is reset — in every state, for every `min_delta`. -/
theorem ge_variant_nan_improves (patience : Nat) (delta : FV Q) (s : FState Q) (m : Nat) :
    pStepGe patience delta s m (some .nan)
      = ({ best := .nan, since := 0, bestModel := some m }, decide (0 > patience)) := by
  simp [pStepGe, FV.geB, FV.isNan]

/-- Once the `>=`-shaped machine has been fed NaN at every epoch from `epoch` on, it never stops:
every call resets the counter.  (Every fuel.) -/
theorem ge_variant_never_stops_on_nan_tail (patience : Nat) (delta : FV Q) (loss : Nat → FV Q) :
    ∀ (fuel : Nat) (s : FState Q) (epoch : Nat), 0 < epoch →
      (∀ e, epoch - 1 ≤ e → loss e = .nan) →
      pLoopGe patience delta loss fuel s epoch = none := by
  intro fuel
  induction fuel with
  | zero => intro s epoch _ _; rfl
  | succ f ih =>
    intro s epoch hpos htail
    have h0 : epoch ≠ 0 := by omega
    simp only [pLoopGe, h0, if_false, htail (epoch - 1) (Nat.le_refl _), ge_variant_nan_improves]
    have : decide (0 > patience) = false := by simp
    rw [this]
    simp only [Bool.false_eq_true, if_false]
    exact ih _ (epoch + 1) (by omega) (fun e he => htail e (by omega))

end Ge

/-- **ge_variant_diverges_on_nan.**  Losses 3, 2, NaN, NaN, NaN, … with patience 1, `min_delta` 0:
the code as written stops at epoch 4 and hands back the model of epoch 2 (loss 2); the
`>=`-restructured variant is still running when the fuel (10 calls) is exhausted, and its tracked
best model after the first NaN is the diverged one (epoch 3). -/
theorem ge_variant_diverges_on_nan :
    trainLoopF (Q := Int) 1 (.fin 0) (fun n => [FV.fin 3, FV.fin 2].getD n FV.nan) 10
        = some (4, some 2) ∧
      trainLoopGe (Q := Int) 1 (.fin 0) (fun n => [FV.fin 3, FV.fin 2].getD n FV.nan) 10 = none ∧
      (pStepGe (Q := Int) 1 (.fin 0) ⟨.fin 2, 0, some 2⟩ 3 (some .nan)).1.bestModel = some 3 := by
  decide

/-! ### Non-vacuity: concrete histories. -/

-- the simulation on a finite history: same answer as the `Option`-shaped loop
example : trainLoopF (Q := Int) 1 (.fin 0) (fun n => .fin ([3, 2, 2, 2].getD n 0)) 10
    = some (4, some 2) := by decide
-- NaN first, then finite: the first finite loss is the first improvement (epoch 3)
example : trailingF (0 : Int) [.fin 1, .nan, .nan] = 0 ∧ argBestF (0 : Int) [.fin 1, .nan, .nan] = 3 ∧
    trailingF (0 : Int) [.nan, .nan] = 2 ∧ argBestF (0 : Int) [.nan, .nan] = 0 := by decide
-- inf, inf, 2, inf, nan (chronological), patience 1: verdicts F T F F T, best model – – 3 3 3
example : (pRunF (Q := Int) 1 (.fin 0) (FState.init none) 1
      [some .pinf, some .pinf, some (.fin 2), some .pinf, some .nan]).2 = [false, true, false, false, true] ∧
    (pRunF (Q := Int) 1 (.fin 0) (FState.init none) 1
      [some .pinf, some .pinf, some (.fin 2), some .pinf, some .nan]).1.bestModel = some 3 := by decide
-- the hypotheses of `nan_tail_terminates` are met: losses 3, 2, then NaN for ever; n0 = 2, patience 2
example : trainLoopF (Q := Int) 2 (.fin 0) (fun n => [FV.fin 3, FV.fin 2].getD n FV.nan) 12
    = some (5, some 2) :=
  (nan_tail_terminates 2 0 (fun n => [FV.fin 3, FV.fin 2].getD n FV.nan) 2
    (by intro e he; obtain ⟨k, rfl⟩ : ∃ k, e = k + 2 := ⟨e - 2, by omega⟩; left; simp)
    (by decide) 12 (by decide)).1
-- diverged from the very first epoch: stops after patience + 1 epochs with the initial model
example : trainLoopF (Q := Int) 2 (.fin 0) (fun _ => FV.nan) 12 = some (3, some 0) := by decide
-- the hypotheses of `trainLoopF_terminates` are met with a NaN in the middle (n = 5)
example : trailingF (0 : Int) (hist (fun n => [FV.fin 3, FV.nan, FV.fin 2, FV.nan].getD n FV.pinf) 5) > 1 ∧
    ∀ m, m < 5 → ¬ trailingF (0 : Int) (hist (fun n => [FV.fin 3, FV.nan, FV.fin 2, FV.nan].getD n FV.pinf) m) > 1 := by
  decide

-- `-inf` losses.  3, -inf, 1, -inf, nan (chronological), patience 1: the first -inf (epoch 2) is the
-- last improvement; verdicts F F F T T; best model – 1 2 2 2 2; best loss ends as -inf
example : (pRunF (Q := Int) 1 (.fin 0) (FState.init none) 1
      [some (.fin 3), some .ninf, some (.fin 1), some .ninf, some .nan]).2 = [false, false, false, true, true] ∧
    (pRunF (Q := Int) 1 (.fin 0) (FState.init none) 1
      [some (.fin 3), some .ninf, some (.fin 1), some .ninf, some .nan]).1.bestModel = some 2 ∧
    trailingF (0 : Int) [.nan, .ninf, .fin 1, .ninf, .fin 3] = 3 ∧
    argBestF (0 : Int) [.nan, .ninf, .fin 1, .ninf, .fin 3] = 2 ∧
    hasNinf ([.nan, .ninf, .fin 1, .ninf, .fin 3] : List (FV Int)) = true := by decide
-- the hypotheses of `ninf_is_final_best` are met: losses 3, 2, -inf, then 0 for ever; n0 = 2, patience 2:
-- stops at epoch 3 + 3 = 6 with the model of epoch 3
example : trainLoopF (Q := Int) 2 (.fin 0) (fun n => [FV.fin 3, FV.fin 2, FV.ninf].getD n (FV.fin 0)) 12
    = some (6, some 3) :=
  (ninf_is_final_best 2 0 (fun n => [FV.fin 3, FV.fin 2, FV.ninf].getD n (FV.fin 0)) 2 rfl
    (by intro e he; rcases e with _ | _ | e <;> first | omega | simp)
    (by decide)).1 12 (by decide)
-- -inf at the very first epoch, then -inf for ever: stops after patience + 1 further epochs, model 1
example : trainLoopF (Q := Int) 2 (.fin 0) (fun _ => FV.ninf) 12 = some (4, some 1) := by decide
-- `ninf_improves` / `after_ninf_nothing_improves` on concrete states
example : pStepF (Q := Int) 1 (.fin 1) ⟨.fin 5, 1, some 2⟩ 7 (some .ninf) = (⟨.ninf, 0, some 7⟩, false) :=
  ninf_improves 1 1 ⟨.fin 5, 1, some 2⟩ 7 (Or.inr ⟨5, rfl⟩)
example : pStepF (Q := Int) 1 (.fin 1) ⟨.ninf, 1, some 2⟩ 7 (some .ninf) = (⟨.ninf, 2, some 2⟩, true) :=
  after_ninf_nothing_improves 1 (.fin 1) ⟨.ninf, 1, some 2⟩ 7 .ninf rfl

end GinjaxVerif.C19
