/-!
# C16 — autoregressive rollout: model of `ginjax/ml/training.py: autoregressive_step,
autoregressive_map` and of the `MultiImage` methods they call (`concat_inverse`, `expand`,
`append`, `concat`, `combine_axes`, `empty`).

Core Lean only (no Mathlib): this file is compiled into the correspondence driver.

Only the leading (channel) axis is touched by this code; everything behind it (spatial and tensor
axes) is an opaque *frame* type `α`.  A block `image_block` of one tensor type is the `List α` of
its frames along axis 0.  `MultiImage.data` (a Python `dict`, insertion ordered, unique keys) is an
association list.  A block that has been `expand`ed to `(c, t, …)` is a `List (List α)` (`c` rows of
`t` frames).  Everything that makes the Python raise (failed `assert`, impossible `reshape`,
`concatenate` of mismatching shapes) is `none`.

Assumptions outside the model: every block has exactly one leading axis, all frames of one tensor
type have one shape (so that `concatenate` only looks at the leading axes), parities are 0/1 (so
that `append`'s `parity % 2` is the identity), `constant_fields` sizes are non-negative (the driver
rejects negative ones like the code's `assert 0 <= size`).  `append`'s own assertion
`axis < n_leading_axes` (checked when it concatenates onto an existing key) always holds in this
flow (axis 0 on blocks with a channel axis; axis 1 on `(c, t, …)` blocks), so it is not a
rejection of the model.
-/
namespace GinjaxVerif.C16

variable {κ : Type} [DecidableEq κ] {α β γ σ : Type}

/-- `MultiImage.data` with one leading axis: key ↦ frames along axis 0, in insertion order. -/
abbrev MI (κ α : Type) := List (κ × List α)

/-- an `expand`ed multi image: key ↦ rows (axis 0) of frames (axis 1) -/
abbrev MI2 (κ α : Type) := List (κ × List (List α))

/-- `data.keys()` -/
def keys (x : List (κ × β)) : List κ := x.map Prod.fst

/-- `get_signature`-like view: key ↦ size of axis 0 -/
def sig (x : List (κ × List β)) : List (κ × Nat) := x.map fun kb => (kb.1, kb.2.length)

/-- `MultiImage.append(k, parity, block, axis=0)`: concatenate onto an existing key (which keeps its
position in the dict), otherwise insert at the end. -/
def append [Append β] (k : κ) (b : β) : List (κ × β) → List (κ × β)
  | [] => [(k, b)]
  | (k', b') :: rest => if k' = k then (k', b' ++ b) :: rest else (k', b') :: append k b rest

/-- the loop `out = self.empty(); for key, block in self.items(): out.append(key, g(block))` used by
`expand` and `combine_axes` (here with an accumulator; `g` may raise). -/
def appendEach [Append γ] (g : β → Option γ) : List (κ × β) → List (κ × γ) → Option (List (κ × γ))
  | [], out => some out
  | (k, b) :: rest, out =>
    match g b with
    | none => none
    | some e => appendEach g rest (append k e out)

/-- `signature_dict[key] if key in signature_dict else 0` -/
def constSize (consts : List (κ × Nat)) (k : κ) : Nat := (consts.lookup k).getD 0

/-- the loop of `MultiImage.concat_inverse(signature_dict, axis=0)` with its two accumulators
`a` (what remains) and `b` (what is split off), including the `size == 0` and `size == axis_size`
branches. -/
def concatInverseAux (consts : List (κ × Nat)) :
    MI κ α → MI κ α → MI κ α → Option (MI κ α × MI κ α)
  | [], a, b => some (a, b)
  | (k, blk) :: rest, a, b =>
    let size := constSize consts k
    let axisSize := blk.length
    if size > axisSize then none                                  -- assert 0 <= size <= axis_size
    else if size = 0 then concatInverseAux consts rest (append k blk a) b
    else if size = axisSize then concatInverseAux consts rest a (append k blk b)
    else concatInverseAux consts rest (append k (blk.take (axisSize - size)) a)
           (append k (blk.drop (axisSize - size)) b)

def concatInverse (consts : List (κ × Nat)) (x : MI κ α) : Option (MI κ α × MI κ α) :=
  concatInverseAux consts x [] []

/-- `block.reshape((-1, size) + block.shape[1:])`: row `i` is `block[i*size : (i+1)*size]`.  The
reshape raises when `size` is 0, when the block is empty (`-1` cannot be inferred) or when `size`
does not divide the length. -/
def expand (size : Nat) (l : List α) : Option (List (List α)) :=
  if size = 0 ∨ l.length = 0 ∨ l.length % size ≠ 0 then none
  else some ((List.range (l.length / size)).map fun i => (l.drop (i * size)).take size)

/-- `MultiImage.expand(axis=0, size)` -/
def expandMI (size : Nat) (x : MI κ α) : Option (MI2 κ α) := appendEach (expand size) x []

/-- `rows.reshape((-1,) + rows.shape[2:])` -/
def flattenRows (rows : List (List α)) : List α := rows.flatten

/-- `MultiImage.combine_axes((0, 1))` -/
def combineAxes01 (x : MI2 κ α) : Option (MI κ α) := appendEach (fun rows => some (flattenRows rows)) x []

/-- the body of the `for k, parity in input.keys()` loop of `autoregressive_step` for one key -/
def stepKey (future : Nat) (dynE outE : MI2 κ α) (cst : MI κ α) (k : κ) (acc : MI κ α) :
    Option (MI κ α) :=
  let acc1 : Option (MI κ α) :=
    match dynE.lookup k with
    | none => some acc
    | some win =>                                  -- (c, past_steps, …)
      match outE.lookup k with
      | none => none                               -- assert (k, parity) in output
      | some o =>                                  -- (c', future_steps, …)
        if win.length = o.length then              -- jnp.concatenate(…, axis=1) needs equal axis 0
          some (append k (flattenRows (List.zipWith (fun w p => w.drop future ++ p) win o)) acc)
        else none
  match acc1 with
  | none => none
  | some acc1 =>
    match cst.lookup k with
    | none => some acc1
    | some c => some (append k c acc1)

def stepLoop (future : Nat) (dynE outE : MI2 κ α) (cst : MI κ α) : List κ → MI κ α → Option (MI κ α)
  | [], acc => some acc
  | k :: rest, acc =>
    match stepKey future dynE outE cst k acc with
    | none => none
    | some acc' => stepLoop future dynE outE cst rest acc'

/-- `autoregressive_step(input, output, past_steps, constant_fields_dict, future_steps)` -/
def autoregressiveStep (past : Nat) (consts : List (κ × Nat)) (input output : MI κ α)
    (future : Nat := 1) : Option (MI κ α) :=
  if future ≠ 1 then none else                     -- assert future_steps == 1
  match concatInverse consts input with
  | none => none
  | some (dyn, cst) =>
    match expandMI past dyn with
    | none => none
    | some dynE =>
      match expandMI future output with
      | none => none
      | some outE => stepLoop future dynE outE cst (keys input) []

/-- `out.append(k, parity, block, axis=1)` on `(c, t, …)` blocks: concatenation along axis 1 needs
equal axis 0. -/
def appendAxis1 (k : κ) (b : List (List α)) : MI2 κ α → Option (MI2 κ α)
  | [] => some [(k, b)]
  | (k', b') :: rest =>
    if k' = k then
      (if b'.length = b.length then some ((k', List.zipWith (· ++ ·) b' b) :: rest) else none)
    else
      match appendAxis1 k b rest with
      | none => none
      | some r => some ((k', b') :: r)

/-- `out_x.concat(other, axis=1)` (the copy of `out_x` followed by one `append` per item of `other`) -/
def concatAxis1 : MI2 κ α → MI2 κ α → Option (MI2 κ α)
  | out, [] => some out
  | out, (k, b) :: rest =>
    match appendAxis1 k b out with
    | none => none
    | some out' => concatAxis1 out' rest

/-- the `for _ in range(autoregressive_steps)` loop of `autoregressive_map`; the model `f` is an
arbitrary function of the current input and the auxiliary state. -/
def mapLoop (f : MI κ α → σ → MI κ α × σ) (past : Nat) (consts : List (κ × Nat)) :
    Nat → MI κ α → σ → MI2 κ α → Option (MI2 κ α × σ)
  | 0, _, s, out => some (out, s)
  | n + 1, x, s, out =>
    let ps := f x s
    match autoregressiveStep past consts x ps.1 with
    | none => none
    | some x' =>
      match expandMI 1 ps.1 with
      | none => none
      | some pe =>
        match concatAxis1 out pe with
        | none => none
        | some out' => mapLoop f past consts n x' ps.2 out'

/-- `autoregressive_map(model, x, aux_data, past_steps, autoregressive_steps, constant_fields)` -/
def autoregressiveMap (f : MI κ α → σ → MI κ α × σ) (past : Nat) (consts : List (κ × Nat))
    (x : MI κ α) (s : σ) (n : Nat) : Option (MI κ α × σ) :=
  match mapLoop f past consts n x s [] with
  | none => none
  | some (out, s') =>
    match combineAxes01 out with
    | none => none
    | some r => some (r, s')

/-! ## Specification: the sentence of the property -/

/-- sliding-window update of one block laid out as `c` windows of `past` frames followed by `m`
constant frames: every window loses its oldest frame and gets that channel's prediction as the
newest; the constants stay where they are. -/
def specBlock (past m : Nat) (old pred : List α) : List α :=
  ((List.range ((old.length - m) / past)).flatMap fun i =>
      ((old.drop (i * past)).take past).tail ++ (pred[i]?).toList)
    ++ old.drop (old.length - m)

/-- the next input: every type of the input, in the input's order, updated by `specBlock` -/
def specStep (past : Nat) (consts : List (κ × Nat)) (x pred : MI κ α) : MI κ α :=
  x.map fun kb => (kb.1, specBlock past (constSize consts kb.1) kb.2 ((pred.lookup kb.1).getD []))

/-- explicit iteration: input and auxiliary state before step `t` -/
def iterate (f : MI κ α → σ → MI κ α × σ) (past : Nat) (consts : List (κ × Nat))
    (x : MI κ α) (s : σ) : Nat → MI κ α × σ
  | 0 => (x, s)
  | t + 1 =>
    let xs := iterate f past consts x s t
    let ps := f xs.1 xs.2
    (specStep past consts xs.1 ps.1, ps.2)

/-- the model's prediction at step `t` of the explicit iteration -/
def predAt (f : MI κ α → σ → MI κ α × σ) (past : Nat) (consts : List (κ × Nat))
    (x : MI κ α) (s : σ) (t : Nat) : MI κ α :=
  (f (iterate f past consts x s t).1 (iterate f past consts x s t).2).1

/-- rows `(c, t)` collected from the first `n` predictions: row `i` of type `k` is
`[preds 0 k i, …, preds (n-1) k i]` -/
def specRows (preds : Nat → MI κ α) (n : Nat) (k : κ) (c : Nat) : List (List α) :=
  (List.range c).map fun i => (List.range n).filterMap fun t => ((preds t).lookup k).bind (·[i]?)

/-- the rollout: for every type of the (first) prediction, channel-major, time-minor -/
def specRollout (preds : Nat → MI κ α) (n : Nat) : MI κ α :=
  match n with
  | 0 => []
  | _ + 1 => (preds 0).map fun kb => (kb.1, (specRows preds n kb.1 kb.2.length).flatten)

end GinjaxVerif.C16
