import GinjaxVerif.Model.Action
/-!
# Convolution: spec, model of the XLA primitive, model of the code's pipeline

Model of `functional_geometric_image.py: get_torus_expanded, get_same_padding,
pre_tensor_product_expand, conv_contract_image_expand, convolve, convolve_ravel,
convolve_contract`.  Core Lean only.

Per axis, after the padding dispatch of `convolve_ravel`, one call of
`jax.lax.conv_general_dilated` is described by `AxisOpt`: the image extent `N`, the filter extent
`M`, the periodic wrap width `w` added on each side by `jnp.pad(mode="wrap")` (TORUS padding on a
toroidal axis, measured in undilated pixels), the zero padding `(lo, hi)`, the window stride, the
filter dilation `rd` and the image dilation `ld` (zero interleaving, transposed convolution).
-/
namespace GinjaxVerif

structure AxisOpt where
  N : Nat
  M : Nat
  w : Nat := 0
  lo : Nat := 0
  hi : Nat := 0
  stride : Nat := 1
  rd : Nat := 1
  ld : Nat := 1
  deriving Repr, DecidableEq

/-- extent after wrapping and zero-interleaving -/
def AxisOpt.dilLen (o : AxisOpt) : Nat := (o.N + 2 * o.w - 1) * o.ld + 1

/-- extent of the padded signal the filter slides over -/
def AxisOpt.padLen (o : AxisOpt) : Nat := o.dilLen + o.lo + o.hi

/-- extent of the dilated filter -/
def AxisOpt.filtLen (o : AxisOpt) : Nat := (o.M - 1) * o.rd + 1

/-- standard output size formula -/
def AxisOpt.outLen (o : AxisOpt) : Nat :=
  if o.padLen < o.filtLen then 0 else (o.padLen - o.filtLen) / o.stride + 1

/-- Which source pixel (if any) sits at position `q` of the padded signal: positions in the zero
padding or between interleaved samples hold `0` (`none`); the wrapped part is periodic. -/
def AxisOpt.srcIdx (o : AxisOpt) (q : Int) : Option Int :=
  let q' := q - o.lo
  if 0 ≤ q' ∧ q' < o.dilLen ∧ q' % o.ld = 0 then some ((q' / o.ld - o.w) % o.N) else none

abbrev Pix (d : Nat) := Fin d → Int

/-- value of the padded signal built from `A` at position `q` -/
def padVal {R : Type} [Zero R] {d : Nat} (ax : Fin d → AxisOpt) (A : Pix d → R) (q : Pix d) : R :=
  if (List.finRange d).all (fun j => ((ax j).srcIdx (q j)).isSome) then
    A (fun j => ((ax j).srcIdx (q j)).getD 0)
  else 0

def consFn {α : Type} {n : Nat} (a : α) (t : Fin n → α) : Fin (n + 1) → α :=
  fun i => Fin.cases a t i

/-- `Σ_{a ∈ box M} f a`, the box being `Π_j [0, M j)` -/
def sumBox {R : Type} [Zero R] [Add R] : {d : Nat} → (Fin d → Nat) → (Pix d → R) → R
  | 0, _, f => f (fun i => i.elim0)
  | _ + 1, M, f =>
    sumFin (M 0) (fun a => sumBox (fun i => M i.succ) (fun t => f (consFn (a.val : Int) t)))

/-- a batch (or bank) of tensor images: leading index, channel, pixel, tensor multi-index -/
abbrev Bank (R : Type) (d : Nat) := Nat → Nat → Pix d → List (Fin d) → R

structure ConvCfg (d : Nat) where
  ax : Fin d → AxisOpt
  inC : Nat
  outC : Nat
  kI : Nat
  kF : Nat

/-- **Spec (the property's direct sum)**:
`out[b,o,i][t ++ t'] = Σ_c Σ_a P[b,c, i·stride + a·rd][t] · F[o,c,a][t']`. -/
def convSpec {R : Type} [Zero R] [Add R] [Mul R] {d : Nat} (cfg : ConvCfg d)
    (img flt : Bank R d) : Bank R d :=
  fun b o i n =>
    sumFin cfg.inC (fun c =>
      sumBox (fun j => (cfg.ax j).M) (fun a =>
        padVal cfg.ax (fun y => img b c.val y (n.take cfg.kI))
            (fun j => i j * ((cfg.ax j).stride : Int) + a j * ((cfg.ax j).rd : Int))
          * flt o c.val a (n.drop cfg.kI)))

def ConvCfg.outDims {d : Nat} (cfg : ConvCfg d) : Fin d → Nat := fun j => (cfg.ax j).outLen

/-! ### the XLA primitive and the code's layout around it -/

/-- row-major flat index of a tensor multi-index (each axis has extent `d`) -/
def ravelT {d : Nat} : List (Fin d) → Nat
  | [] => 0
  | a :: t => a.val * d ^ t.length + ravelT t

/-- inverse of `ravelT` on lists of length `k` -/
def unravelT (d : Nat) : (k : Nat) → Nat → List (Fin d)
  | 0, _ => []
  | k + 1, m =>
    if h : 0 < d then ⟨(m / d ^ k) % d, Nat.mod_lt _ h⟩ :: unravelT d k (m % d ^ k) else []

/-- Model of `jax.lax.conv_general_dilated` with `N…C / …IO / N…C` dimension numbers and
`feature_group_count = G`: `lhs[b, pixel, channel]` has `G·I` channels, `rhs[a, i, o]` has `I`
inputs per group and `O` outputs; output channel `och` belongs to group `och / (O / G)` and sees
only that group's `I` input channels. -/
def xlaConv {R : Type} [Zero R] [Add R] [Mul R] {d : Nat} (ax : Fin d → AxisOpt)
    (I O G : Nat) (lhs : Nat → Pix d → Nat → R) (rhs : Pix d → Nat → Nat → R) :
    Nat → Pix d → Nat → R :=
  fun b x och =>
    let grp := och / (O / G)
    sumFin I (fun c =>
      sumBox (fun j => (ax j).M) (fun a =>
        padVal ax (fun y => lhs b y (grp * I + c.val))
            (fun j => x j * ((ax j).stride : Int) + a j * ((ax j).rd : Int))
          * rhs a c.val och))

/-- **Model of `convolve`** (`tensor_expand=True`): tensor expansion by ones (image indices first),
`moveaxis`/`reshape` into N…C with channel `ravel(T)·in_c + c` and …IO with output channel
`ravel(T)·out_c + o`, grouped convolution with `feature_group_count = D^(k+k')`, reshape back. -/
def convImpl {R : Type} [Zero R] [Add R] [Mul R] {d : Nat} (cfg : ConvCfg d)
    (img flt : Bank R d) : Bank R d :=
  let K := cfg.kI + cfg.kF
  let G := d ^ K
  let lhs : Nat → Pix d → Nat → R := fun b y ch =>
    img b (ch % cfg.inC) y ((unravelT d K (ch / cfg.inC)).take cfg.kI)
  let rhs : Pix d → Nat → Nat → R := fun a c och =>
    flt (och % cfg.outC) c a ((unravelT d K (och / cfg.outC)).drop cfg.kI)
  fun b o x T => xlaConv cfg.ax cfg.inC (G * cfg.outC) G lhs rhs b x (ravelT T * cfg.outC + o)

/-- `convolve(..., tensor_expand=False)`: image and filter already have the same tensor order `K`
and are multiplied component by component. -/
def convImplNoExpand {R : Type} [Zero R] [Add R] [Mul R] {d : Nat} (cfg : ConvCfg d) (K : Nat)
    (img flt : Bank R d) : Bank R d :=
  let G := d ^ K
  let lhs : Nat → Pix d → Nat → R := fun b y ch =>
    img b (ch % cfg.inC) y (unravelT d K (ch / cfg.inC))
  let rhs : Pix d → Nat → Nat → R := fun a c och =>
    flt (och % cfg.outC) c a (unravelT d K (och / cfg.outC))
  fun b o x T => xlaConv cfg.ax cfg.inC (G * cfg.outC) G lhs rhs b x (ravelT T * cfg.outC + o)

/-- **Model of `convolve_contract`**: expand the image (order `kI`) by ones to the filter's order
`kF ≥ kI`, convolve without tensor expansion, sum the leading `kI` tensor axes. -/
def convContractImpl {R : Type} [Zero R] [Add R] [Mul R] {d : Nat} (cfg : ConvCfg d)
    (img flt : Bank R d) : Bank R d :=
  let imgExp : Bank R d := fun b c y T => img b c y (T.take cfg.kI)
  fun b o x t' =>
    sumIdx d cfg.kI (fun t => convImplNoExpand cfg cfg.kF imgExp flt b o x (t ++ t'))

/-- Spec of the fused operation: convolve (tensor product), then contract image index `i` with
filter index `i` for every `i < kI`. -/
def convContractSpec {R : Type} [Zero R] [Add R] [Mul R] {d : Nat} (cfg : ConvCfg d)
    (img flt : Bank R d) : Bank R d :=
  fun b o x t' => sumIdx d cfg.kI (fun t => convSpec cfg img flt b o x (t ++ (t ++ t')))

/-! ### the padding dispatch of `convolve_ravel` -/

inductive PadMode where
  | torus | same | valid
  | int (p : Nat)
  | explicit (pads : List (Nat × Nat))
  | none
  deriving Repr

/-- `(w, lo, hi)` for axis `j` as computed by `convolve_ravel` / `get_torus_expanded` /
`get_same_padding`; `Option.none` where the code's assertion on even filter sides fails. -/
def dispatchAxis (mode : PadMode) (anyTorus : Bool) (torus : Bool) (M rd : Nat) (j : Nat) :
    Option (Nat × Nat × Nat) :=
  let half := ((M - 1) / 2) * rd
  match mode with
  | .torus => if torus then some (half, 0, 0) else some (0, half, half)
  | .same => some (0, half, half)
  | .valid => some (0, 0, 0)
  | .int p => some (0, p, p)
  | .explicit pads => (pads[j]?).map (fun (lo, hi) => (0, lo, hi))
  | .none =>
    if anyTorus then (if torus then some (half, 0, 0) else some (0, half, half))
    else some (0, half, half)

/-- string paddings (and the default) require every filter side to be odd -/
def modeNeedsOdd : PadMode → Bool
  | .torus | .same | .none => true
  | _ => false

def dispatch {d : Nat} (mode : PadMode) (torus : Fin d → Bool) (N M stride rd ld : Fin d → Nat) :
    Option (Fin d → AxisOpt) :=
  let anyTorus := (List.finRange d).any torus
  if modeNeedsOdd mode && (List.finRange d).any (fun j => M j % 2 = 0) then none
  else if (List.finRange d).all (fun j => (dispatchAxis mode anyTorus (torus j) (M j) (rd j) j.val).isSome) then
    some (fun j =>
      match dispatchAxis mode anyTorus (torus j) (M j) (rd j) j.val with
      | some (w, lo, hi) =>
        { N := N j, M := M j, w := w, lo := lo, hi := hi, stride := stride j, rd := rd j, ld := ld j }
      | none => { N := N j, M := M j })
  else none

end GinjaxVerif
