/-!
# C19 — stopping conditions: model of `ginjax/ml/stopping_conditions.py` and of the epoch loop of
`ginjax/ml/training.py: train`.

Core Lean only (no Mathlib): this file is compiled into the correspondence driver.

Model ids are natural numbers: the model handed to the `n`-th call of `stop`.  `none` for the
best loss stands for the code's initial `jnp.inf`; this `Option`-shaped machine is over ordinary numbers.
NaN and both infinities are covered by the float-shaped machine (`FV`, `pStepF`) at the end of the file.
-/
namespace GinjaxVerif.C19

/-- How a loss value is represented when it reaches `stop` (the code's `isinstance` guard looked at
this; the training loop supplies `jaxScalar`). -/
inductive Rep where
  | pyFloat | npFloat64 | npFloat32 | jaxScalar
  deriving DecidableEq, Repr

/-- State of `TrainLoss` / `ValLoss`: `best_*_loss`, `epochs_since_best`, `best_model`. -/
structure PState (Q : Type) where
  best : Option Q
  since : Nat
  bestModel : Option Nat
  deriving Repr

def PState.init {Q} (m0 : Option Nat) : PState Q := { best := none, since := 0, bestModel := m0 }

/-- the code's test `loss < best - min_delta`, with `best = +inf` modelled by `none`. -/
def improves {Q} [LT Q] [DecidableLT Q] [Sub Q] (delta : Q) (x : Q) : Option Q → Bool
  | none => true
  | some b => decide (x < b - delta)

/-- One call `stop(model, epoch, loss…)` of a patience based condition, after the monitored
argument has been selected.  Mirrors the body of `TrainLoss.stop` / `ValLoss.stop`. -/
def pStep {Q} [LT Q] [DecidableLT Q] [Sub Q] (patience : Nat) (delta : Q)
    (s : PState Q) (model : Nat) : Option Q → PState Q × Bool
  | none => (s, false)
  | some x =>
    if improves delta x s.best then
      ({ best := some x, since := 0, bestModel := some model }, decide (0 > patience))
    else
      ({ s with since := s.since + 1 }, decide (s.since + 1 > patience))

/-- The legacy guard `loss is None or not isinstance(loss, float)`: only Python floats and
`numpy.float64` (a subclass of `float`) got past it. -/
def legacyPasses : Rep → Bool
  | .pyFloat => true
  | .npFloat64 => true
  | _ => false

def pStepLegacy {Q} [LT Q] [DecidableLT Q] [Sub Q] (patience : Nat) (delta : Q)
    (s : PState Q) (model : Nat) : Option (Rep × Q) → PState Q × Bool
  | none => (s, false)
  | some (r, x) => if legacyPasses r then pStep patience delta s model (some x) else (s, false)

/-- which argument of `stop` a condition monitors -/
inductive Monitor where
  | train | val
  deriving DecidableEq, Repr

def select {Q} : Monitor → Option Q → Option Q → Option Q
  | .train, t, _ => t
  | .val, _, v => v

/-- Feed a whole call history (model id = position, starting at `m0`) and collect the verdicts. -/
def pRun {Q} [LT Q] [DecidableLT Q] [Sub Q] (patience : Nat) (delta : Q) :
    PState Q → Nat → List (Option Q) → PState Q × List Bool
  | s, _, [] => (s, [])
  | s, m, l :: ls =>
    let (s', b) := pStep patience delta s m l
    let (s'', bs) := pRun patience delta s' (m + 1) ls
    (s'', b :: bs)

/-! ### Declarative spec on a loss history (newest first). -/

/-- tracked best after a history (newest loss first) -/
def bestOf {Q} [LT Q] [DecidableLT Q] [Sub Q] (delta : Q) : List Q → Option Q
  | [] => none
  | x :: past => if improves delta x (bestOf delta past) then some x else bestOf delta past

/-- number of consecutive non-improving epochs at the end of the history (newest first) -/
def trailing {Q} [LT Q] [DecidableLT Q] [Sub Q] (delta : Q) : List Q → Nat
  | [] => 0
  | x :: past => if improves delta x (bestOf delta past) then 0 else trailing delta past + 1

/-- 1-based epoch of the last improvement (0 = none yet, i.e. the initial model) -/
def argBest {Q} [LT Q] [DecidableLT Q] [Sub Q] (delta : Q) : List Q → Nat
  | [] => 0
  | x :: past => if improves delta x (bestOf delta past) then past.length + 1 else argBest delta past

/-! ### `EpochStop` and the epoch loop of `train`. -/

/-- `EpochStop.stop`: remembers the model it was handed, stops iff `epoch ≥ epochs`. -/
def eStep (epochs : Nat) (model epoch : Nat) : Option Nat × Bool := (some model, decide (epoch ≥ epochs))

/-- The `while not stop(model, epoch, epoch_loss, …)` loop of `train` for a patience condition.
`loss e` is the monitored loss of epoch `e+1` (computed with model `e+1`).  The first call carries
no loss.  Returns `(epoch at which it stopped, best model id)`; `none` = out of fuel. -/
def pLoop {Q} [LT Q] [DecidableLT Q] [Sub Q] (patience : Nat) (delta : Q) (loss : Nat → Q) :
    Nat → PState Q → Nat → Option (Nat × Option Nat)
  | 0, _, _ => none
  | fuel + 1, s, epoch =>
    let arg : Option Q := if epoch = 0 then none else some (loss (epoch - 1))
    let (s', stop) := pStep patience delta s epoch arg
    if stop then some (epoch, s'.bestModel) else pLoop patience delta loss fuel s' (epoch + 1)

/-- `train` sets `stop_condition.best_model = model` (model 0) before the loop. -/
def trainLoopP {Q} [LT Q] [DecidableLT Q] [Sub Q] (patience : Nat) (delta : Q) (loss : Nat → Q)
    (fuel : Nat) : Option (Nat × Option Nat) :=
  pLoop patience delta loss fuel (PState.init (some 0)) 0

/-! ### One condition object re-used for a second `train` call.

`train` never resets `best_*_loss` / `epochs_since_best`; it only executes
`stop_condition.best_model = model` before its loop.  A `TrainLoss` / `ValLoss` object that has
already been through an earlier call therefore enters the loop in a *stale* state. -/

/-- The epoch loop of a `train` call that is handed a used condition object in state `stale`:
`stop_condition.best_model = model` overwrites `best_model` with this call's initial model (id 0),
the stale best loss and the stale counter stay. -/
def trainLoopReused {Q} [LT Q] [DecidableLT Q] [Sub Q] (patience : Nat) (delta : Q) (loss : Nat → Q)
    (fuel : Nat) (stale : PState Q) : Option (Nat × Option Nat) :=
  pLoop patience delta loss fuel { stale with bestModel := some 0 } 0

/-- The same loop WITHOUT the assignment `stop_condition.best_model = model` (not what `train`
does; kept as the contrast that shows what the assignment is needed for). -/
def pLoopKeep {Q} [LT Q] [DecidableLT Q] [Sub Q] (patience : Nat) (delta : Q) (loss : Nat → Q)
    (fuel : Nat) (stale : PState Q) : Option (Nat × Option Nat) :=
  pLoop patience delta loss fuel stale 0

/-- Spec of the counter of a re-used object after this call's losses `h` (newest first), stale
best `b?` and stale counter `c`: as long as no loss of this call has improved on the stale best
(the last improvement of the seeded history `h ++ [b]` is the seed itself) the stale counter just
keeps counting, afterwards it is the fresh counter of the seeded history. -/
def staleSince {Q} [LT Q] [DecidableLT Q] [Sub Q] (delta : Q) (b? : Option Q) (c : Nat)
    (h : List Q) : Nat :=
  if argBest delta (h ++ b?.toList) ≤ b?.toList.length then c + h.length
  else trailing delta (h ++ b?.toList)

/-- Spec of the best model id of a re-used object after this call's losses `h` (newest first):
the epoch of the last improvement of the seeded history, counted in epochs of THIS call (the seed
occupies position 1 of the seeded history); `0` (this call's initial model, by truncated
subtraction) when no loss of this call improved on the stale best. -/
def staleModel {Q} [LT Q] [DecidableLT Q] [Sub Q] (delta : Q) (b? : Option Q) (h : List Q) : Nat :=
  argBest delta (h ++ b?.toList) - b?.toList.length

def eLoop (epochs : Nat) : Nat → Nat → Option (Nat × Option Nat)
  | 0, _ => none
  | fuel + 1, epoch =>
    let (bm, stop) := eStep epochs epoch epoch
    if stop then some (epoch, bm) else eLoop epochs fuel (epoch + 1)

/-! ### Non-finite losses: the FLOAT-SHAPED machine.

The code keeps `best_*_loss` as a float initialised to `jnp.inf` and tests
`loss < best - min_delta` in IEEE arithmetic.  `FV Q` is an IEEE-like value type over an exact
carrier `Q` (no rounding, no overflow): NaN, the two infinities and the finite values.  The
machine below is the code as it stands, over `FV Q`; `Properties/C19NaN.lean` proves that on
finite losses it is the `Option`-shaped machine above (`none` ↔ `pinf`, `some b` ↔ `fin b`), and
characterises it on histories over the full alphabet {finite, NaN, +inf, -inf}. -/

/-- IEEE-like values over an exact carrier. -/
inductive FV (Q : Type) where
  | nan | ninf | pinf | fin (q : Q)
  deriving Repr

/-- IEEE `<`: every comparison involving NaN is false; `-inf < finite < +inf`, `-inf < +inf`;
no infinity is below itself. -/
def FV.lt {Q} [LT Q] : FV Q → FV Q → Prop
  | .fin x, .fin y => x < y
  | .fin _, .pinf => True
  | .ninf, .fin _ => True
  | .ninf, .pinf => True
  | _, _ => False

instance {Q} [LT Q] : LT (FV Q) := ⟨FV.lt⟩

instance {Q} [LT Q] [DecidableLT Q] : DecidableLT (FV Q) := fun a b =>
  match a, b with
  | .fin x, .fin y => inferInstanceAs (Decidable (x < y))
  | .fin _, .pinf => isTrue trivial
  | .ninf, .fin _ => isTrue trivial
  | .ninf, .pinf => isTrue trivial
  | .nan, _ => isFalse (fun h => by cases h)
  | .pinf, _ => isFalse (fun h => by cases h)
  | .ninf, .nan => isFalse (fun h => by cases h)
  | .ninf, .ninf => isFalse (fun h => by cases h)
  | .fin _, .nan => isFalse (fun h => by cases h)
  | .fin _, .ninf => isFalse (fun h => by cases h)

/-- IEEE `-` (exact on finite values): NaN propagates; `inf - inf` of equal sign is NaN
(`pinf - pinf`, `ninf - ninf`); otherwise an infinite left operand wins (`pinf - y = pinf`,
`ninf - y = ninf`); `fin - pinf = ninf`, `fin - ninf = pinf`; `fin x - fin y = fin (x - y)`. -/
def FV.sub {Q} [Sub Q] : FV Q → FV Q → FV Q
  | .nan, _ => .nan
  | .pinf, .nan => .nan
  | .pinf, .pinf => .nan
  | .pinf, .ninf => .pinf
  | .pinf, .fin _ => .pinf
  | .ninf, .nan => .nan
  | .ninf, .ninf => .nan
  | .ninf, .pinf => .ninf
  | .ninf, .fin _ => .ninf
  | .fin _, .nan => .nan
  | .fin _, .pinf => .ninf
  | .fin _, .ninf => .pinf
  | .fin x, .fin y => .fin (x - y)

instance {Q} [Sub Q] : Sub (FV Q) := ⟨FV.sub⟩

def FV.isNan {Q} : FV Q → Bool
  | .nan => true
  | _ => false

/-- IEEE `x >= y` on a totally ordered carrier: both operands ordered (not NaN) and not `x < y`. -/
def FV.geB {Q} [LT Q] [DecidableLT Q] (x y : FV Q) : Bool :=
  !x.isNan && !y.isNan && !decide (x < y)

/-- State of `TrainLoss` / `ValLoss` as the code holds it: `best_*_loss` is a float. -/
structure FState (Q : Type) where
  best : FV Q
  since : Nat
  bestModel : Option Nat
  deriving Repr

/-- `self.best_*_loss = jnp.inf`, `self.epochs_since_best = 0`. -/
def FState.init {Q} (m0 : Option Nat) : FState Q := { best := .pinf, since := 0, bestModel := m0 }

/-- One call of `TrainLoss.stop` / `ValLoss.stop` exactly as written:
`if loss < self.best - self.min_delta: new best … else: counter += 1`, all in float arithmetic. -/
def pStepF {Q} [LT Q] [DecidableLT Q] [Sub Q] (patience : Nat) (delta : FV Q)
    (s : FState Q) (model : Nat) : Option (FV Q) → FState Q × Bool
  | none => (s, false)
  | some x =>
    if x < s.best - delta then
      ({ best := x, since := 0, bestModel := some model }, decide (0 > patience))
    else
      ({ s with since := s.since + 1 }, decide (s.since + 1 > patience))

def pRunF {Q} [LT Q] [DecidableLT Q] [Sub Q] (patience : Nat) (delta : FV Q) :
    FState Q → Nat → List (Option (FV Q)) → FState Q × List Bool
  | s, _, [] => (s, [])
  | s, m, l :: ls =>
    let (s', b) := pStepF patience delta s m l
    let (s'', bs) := pRunF patience delta s' (m + 1) ls
    (s'', b :: bs)

/-- `pLoop` for the float-shaped machine. -/
def pLoopF {Q} [LT Q] [DecidableLT Q] [Sub Q] (patience : Nat) (delta : FV Q) (loss : Nat → FV Q) :
    Nat → FState Q → Nat → Option (Nat × Option Nat)
  | 0, _, _ => none
  | fuel + 1, s, epoch =>
    let arg : Option (FV Q) := if epoch = 0 then none else some (loss (epoch - 1))
    let (s', stop) := pStepF patience delta s epoch arg
    if stop then some (epoch, s'.bestModel) else pLoopF patience delta loss fuel s' (epoch + 1)

def trainLoopF {Q} [LT Q] [DecidableLT Q] [Sub Q] (patience : Nat) (delta : FV Q)
    (loss : Nat → FV Q) (fuel : Nat) : Option (Nat × Option Nat) :=
  pLoopF patience delta loss fuel (FState.init (some 0)) 0

/-! #### Spec on a history over the FULL alphabet {finite, NaN, +inf, -inf} (newest first).

* a NaN or +inf loss never improves; it is skipped for "best" and counted for "trailing";
* a `-inf` loss improves on every tracked best except `-inf` itself (`-inf < best - min_delta` holds
  for `best` finite or `+inf`; `x < -inf - min_delta = -inf` holds for no `x`): the FIRST `-inf` of a
  history is an improvement, and after it nothing ever improves again — neither a finite loss nor
  another `-inf`. -/

/-- the finite losses of a history, in the same order -/
def finPart {Q} : List (FV Q) → List Q
  | [] => []
  | .fin q :: past => q :: finPart past
  | _ :: past => finPart past

/-- has a `-inf` loss been seen? -/
def hasNinf {Q} : List (FV Q) → Bool
  | [] => false
  | .ninf :: _ => true
  | _ :: past => hasNinf past

/-- `none` (nothing tracked yet) is the code's `jnp.inf`. -/
def toFV {Q} : Option Q → FV Q
  | none => .pinf
  | some b => .fin b

/-- does the newest loss `x` improve on the best loss tracked over `past`?  Finite: no `-inf` so far
and it improves on the best FINITE loss; `-inf`: no `-inf` so far; NaN / +inf: never. -/
def improvesF {Q} [LT Q] [DecidableLT Q] [Sub Q] (delta : Q) (x : FV Q) (past : List (FV Q)) : Bool :=
  match x with
  | .fin q => !hasNinf past && improves delta q (bestOf delta (finPart past))
  | .ninf => !hasNinf past
  | _ => false

/-- tracked best of the finite sub-history -/
def bestOfF {Q} [LT Q] [DecidableLT Q] [Sub Q] (delta : Q) (h : List (FV Q)) : Option Q :=
  bestOf delta (finPart h)

/-- tracked best as the code holds it (a float): `-inf` once a `-inf` loss has been seen, otherwise
the tracked best of the finite sub-history (`+inf` if there is none) -/
def bestFV {Q} [LT Q] [DecidableLT Q] [Sub Q] (delta : Q) (h : List (FV Q)) : FV Q :=
  if hasNinf h then .ninf else toFV (bestOfF delta h)

/-- consecutive non-improving epochs at the end, non-finite epochs counted -/
def trailingF {Q} [LT Q] [DecidableLT Q] [Sub Q] (delta : Q) : List (FV Q) → Nat
  | [] => 0
  | x :: past => if improvesF delta x past then 0 else trailingF delta past + 1

/-- 1-based epoch (position in the FULL history) of the last improvement, 0 = none yet -/
def argBestF {Q} [LT Q] [DecidableLT Q] [Sub Q] (delta : Q) : List (FV Q) → Nat
  | [] => 0
  | x :: past => if improvesF delta x past then past.length + 1 else argBestF delta past

/-! #### The contrast: the test restructured as `if loss >= best - min_delta: counter += 1 …
else: new best`.  Same on ordered values; a NaN loss fails `>=` and is taken for an improvement. -/

def pStepGe {Q} [LT Q] [DecidableLT Q] [Sub Q] (patience : Nat) (delta : FV Q)
    (s : FState Q) (model : Nat) : Option (FV Q) → FState Q × Bool
  | none => (s, false)
  | some x =>
    if FV.geB x (s.best - delta) then
      ({ s with since := s.since + 1 }, decide (s.since + 1 > patience))
    else
      ({ best := x, since := 0, bestModel := some model }, decide (0 > patience))

def pLoopGe {Q} [LT Q] [DecidableLT Q] [Sub Q] (patience : Nat) (delta : FV Q) (loss : Nat → FV Q) :
    Nat → FState Q → Nat → Option (Nat × Option Nat)
  | 0, _, _ => none
  | fuel + 1, s, epoch =>
    let arg : Option (FV Q) := if epoch = 0 then none else some (loss (epoch - 1))
    let (s', stop) := pStepGe patience delta s epoch arg
    if stop then some (epoch, s'.bestModel) else pLoopGe patience delta loss fuel s' (epoch + 1)

def trainLoopGe {Q} [LT Q] [DecidableLT Q] [Sub Q] (patience : Nat) (delta : FV Q)
    (loss : Nat → FV Q) (fuel : Nat) : Option (Nat × Option Nat) :=
  pLoopGe patience delta loss fuel (FState.init (some 0)) 0

end GinjaxVerif.C19
