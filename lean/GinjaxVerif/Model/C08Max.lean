import GinjaxVerif.Model.C08
/-!
# C08 — the remaining comparator paths of `max_pool` (executable model, core Lean only)

`functional_geometric_image.py: max_pool(D, image_data, patch_len, use_norm, comparator_image)`
chooses, per patch, the pixel at `argmax(comparator_patches)`; the comparator patches are

* `comparator_image` cut into the same patches when it is given (lines 717-726),
* the pixel norm when `use_norm` (lines 727-728; `maxPool` of `Model/C08.lean`),
* the image itself when `use_norm=False`, which needs `k = 0` (lines 729-731).

`jnp.argmax` returns the first index of the maximum in the row-major order of the patch
(`boxList`), which is what `argmaxList` does.  A *comparator block* holds one scalar image
(`k = 0`) per channel, as `MaxNormPool` / `vmap` would hand one to every channel.
-/
namespace GinjaxVerif

/-- the patch position selected for output pixel `y` by the scalar comparator image `K`:
`jnp.argmax(comparator_patches, axis=0)` (line 733) -/
def cmpPos {R : Type} [LT R] [DecidableLT R] {d : Nat} (P : Nat) (K : Img R d) (y : Pix d) : Pix d :=
  argmaxList (fun a => K.val (patchPix P y a) []) (fun _ => 0) (boxList d P)

/-- **`max_pool(..., comparator_image=K)`** (per channel): the pixel of the patch at which the
comparator image is maximal (lines 733-735) -/
def maxPoolCmp {R : Type} [LT R] [DecidableLT R] {d : Nat} (P : Nat) (K B : Blk R d) : Blk R d :=
  { C := B.C, dims := fun j => B.dims j / P, k := B.k
    val := fun c y n => B.val c (patchPix P y (cmpPos P (K.img c) y)) n }

/-- **`max_pool(..., use_norm=False)`** on a `k = 0` image: `comparator_patches = patches[0]`, the
image is its own comparator (lines 729-731) -/
def maxPoolScalar {R : Type} [LT R] [DecidableLT R] {d : Nat} (P : Nat) (B : Blk R d) : Blk R d :=
  maxPoolCmp P B B

/-- the squared pixel norm of every channel as a scalar block (the comparator of the
`use_norm=True` path, compared through squares) -/
def normSqBlk {R : Type} [Zero R] [Add R] [Mul R] {d : Nat} (B : Blk R d) : Blk R d :=
  { C := B.C, dims := B.dims, k := 0, val := fun c y _ => normSq (B.img c) y }

/-- the pixel norm `sqrtF (Σ x²)` of every channel as a scalar block (`jnp.linalg.norm(patches,
axis=0)`, line 728), `sqrtF` a parameter -/
def normBlk {R : Type} [Zero R] [Add R] [Mul R] {d : Nat} (sqrtF : R → R) (B : Blk R d) : Blk R d :=
  { C := B.C, dims := B.dims, k := 0, val := fun c y _ => sqrtF (normSq (B.img c) y) }

end GinjaxVerif
