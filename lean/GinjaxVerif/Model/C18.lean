import GinjaxVerif.Model.C12
/-!
# C18 — model of `ginjax/ml/losses.py`

Core Lean only.  Multi-images are the `MI` of the C12 model (Python-dict semantics); blocks are
flat row-major arrays with a shape `(batch, channels, spatial…, tensor…)`.

* `smse`, `timestepSmse` model the **repaired** code (the target block is looked up by key);
  `smseLegacy`, `timestepLegacy` are the positional `zip(values(), values())` of the unrepaired
  tree (defect D8).  `normalizedSmse` is the code as it is (it always indexed by key).
* `jnp.sum(..., axis=…)` over trailing axes of a row-major array is a sum over a contiguous chunk;
  the reshape `(b, c·steps, rest) → (b, c, steps, rest)` keeps the flat data.
* `…Spec` definitions are the sentences of the property in explicit
  (batch, channel, pixel, component) coordinates.
-/
namespace GinjaxVerif.C18
open GinjaxVerif.C12

variable {R : Type}

/-- `Σ_{j<n} f j` -/
def sumRange [Zero R] [Add R] (n : Nat) (f : Nat → R) : R := ((List.range n).map f).sum

/-- flat row-major accessor (0 outside, never used outside for well-formed blocks) -/
def Block.at [Zero R] (b : Block R) (j : Nat) : R := b.data.getD j 0

/-- `(a - b) ** 2` at flat position `j` -/
def sq [Zero R] [Sub R] [Mul R] (a b : Block R) (j : Nat) : R := (Block.at a j - Block.at b j) * (Block.at a j - Block.at b j)

/-- `get_spatial_dims()`: read off the first block -/
def spatialDims (x : MI R) : List Nat :=
  match x.data with
  | [] => []
  | (t, b) :: _ => (b.shape.drop (b.shape.length - (t.1 + x.D))).take x.D

/-- `np.multiply.reduce(get_spatial_dims())` -/
def spatialSize (x : MI R) : Nat := Block.prod (spatialDims x)

/-- `get_L()`: first extent of the first block -/
def getL (x : MI R) : Nat :=
  match x.data with
  | [] => 0
  | (_, b) :: _ => b.shape.headD 0

/-- `jnp.sum((a-b)**2, axis=range(1, ndim)) / spatial_size`, entry `i` of the batch -/
def blockLoss [Zero R] [Add R] [Sub R] [Mul R] [Div R] [NatCast R] (a b : Block R) (S : Nat) (i : Nat) : R :=
  let chunk := Block.prod a.shape.tail
  sumRange chunk (fun j => sq a b (i * chunk + j)) / (S : R)

def hasAll (x y : MI R) : Bool := (MI.keys x).all (fun t => (MI.keys y).contains t)

/-- block of `y` paired with the item `(t, a)` of `x` by the repaired code -/
def partner (y : MI R) (t : Key) : Block R :=
  match MI.get? y t with
  | some b => b
  | none => ⟨[], []⟩

/-- `smse_loss(x, y, reduce=None)`; `none` = an assertion fails / `KeyError` -/
def smsePerBatch [Zero R] [Add R] [Sub R] [Mul R] [Div R] [NatCast R] (x y : MI R) : Option (List R) :=
  if MI.nLeading x == 2 && hasAll x y then
    some ((List.range (getL x)).map (fun i =>
      (x.data.map (fun kv => blockLoss kv.2 (partner y kv.1) (spatialSize x) i)).sum))
  else none

/-- `jnp.mean` of a vector -/
def mean [Zero R] [Add R] [Div R] [NatCast R] (l : List R) : R := l.sum / (l.length : R)

/-- `smse_loss(x, y, reduce="mean")` -/
def smse [Zero R] [Add R] [Sub R] [Mul R] [Div R] [NatCast R] (x y : MI R) : Option R :=
  (smsePerBatch x y).map mean

/-- D8: the unrepaired loop `for a, b in zip(x.values(), y.values())` -/
def smsePerBatchLegacy [Zero R] [Add R] [Sub R] [Mul R] [Div R] [NatCast R] (x y : MI R) : Option (List R) :=
  if MI.nLeading x == 2 then
    some ((List.range (getL x)).map (fun i =>
      ((List.zip x.data y.data).map (fun p => blockLoss p.1.2 p.2.2 (spatialSize x) i)).sum))
  else none

def smseLegacy [Zero R] [Add R] [Sub R] [Mul R] [Div R] [NatCast R] (x y : MI R) : Option R :=
  (smsePerBatchLegacy x y).map mean

/-! ### per-timestep loss -/

/-- one block: after `reshape((batch, -1, n_steps) + shape[2:])` sum over axes 1 and ≥3.
`C' = channels / n_steps`, `rest = prod shape[2:]`. -/
def tsBlock [Zero R] [Add R] [Sub R] [Mul R] [Div R] [NatCast R] (a b : Block R) (steps S : Nat) (i s : Nat) : R :=
  let C' := a.shape.getD 1 0 / steps
  let rest := Block.prod (a.shape.drop 2)
  sumRange C' (fun c => sumRange rest (fun r => sq a b (((i * C' + c) * steps + s) * rest + r))) / (S : R)

/-- the reshape is possible for every block: `n_steps` divides the channel count -/
def stepsOk (x : MI R) (steps : Nat) : Bool :=
  decide (0 < steps) && x.data.all (fun kv => kv.2.shape.getD 1 0 % steps == 0)

/-- `timestep_smse_loss(x, y, n_steps, reduce=None)`: matrix `(batch, n_steps)` -/
def timestepMatrix [Zero R] [Add R] [Sub R] [Mul R] [Div R] [NatCast R] (x y : MI R) (steps : Nat) :
    Option (List (List R)) :=
  if MI.nLeading x == 2 && hasAll x y && stepsOk x steps then
    some ((List.range (getL x)).map (fun i => (List.range steps).map (fun s =>
      (x.data.map (fun kv => tsBlock kv.2 (partner y kv.1) steps (spatialSize x) i s)).sum)))
  else none

def timestepMatrixLegacy [Zero R] [Add R] [Sub R] [Mul R] [Div R] [NatCast R] (x y : MI R) (steps : Nat) :
    Option (List (List R)) :=
  if MI.nLeading x == 2 && stepsOk x steps then
    some ((List.range (getL x)).map (fun i => (List.range steps).map (fun s =>
      ((List.zip x.data y.data).map (fun p => tsBlock p.1.2 p.2.2 steps (spatialSize x) i s)).sum)))
  else none

/-- `jnp.mean(m, axis=0)` of a `(rows, steps)` matrix -/
def meanAxis0 [Zero R] [Add R] [Div R] [NatCast R] (m : List (List R)) (steps : Nat) : List R :=
  (List.range steps).map (fun s => (m.map (fun row => row.getD s 0)).sum / (m.length : R))

/-- `jnp.argmax`: index of the first maximum -/
def argmaxFirst [LT R] [DecidableLT R] : List R → Nat
  | [] => 0
  | v :: vs =>
    let rec go (best : R) (bi : Nat) (i : Nat) : List R → Nat
      | [] => bi
      | w :: ws => if best < w then go w i (i + 1) ws else go best bi (i + 1) ws
    go v 0 1 vs

inductive Reduce where
  | mean | max | none
  deriving DecidableEq, Repr

/-- `timestep_smse_loss(x, y, n_steps, reduce)`; for `none` the matrix is returned by
`timestepMatrix` -/
def timestepSmse [Zero R] [Add R] [Sub R] [Mul R] [Div R] [NatCast R] [LT R] [DecidableLT R]
    (x y : MI R) (steps : Nat) (red : Reduce) : Option (List R) :=
  (timestepMatrix x y steps).map (fun m =>
    match red with
    | .mean => meanAxis0 m steps
    | .max => m.getD (argmaxFirst (m.map List.sum)) []
    | .none => m.flatten)

/-! ### normalised loss -/

/-- one block of `normalized_smse_loss`: `n` = number of tensor components per pixel
(`prod shape[D+2:]`); the squared norm of the *target* pixel tensor (+ eps) divides the error -/
def normBlock [Zero R] [Add R] [Sub R] [Mul R] [Div R] [NatCast R] (xa yb : Block R) (D S : Nat) (eps : R) (i : Nat) : R :=
  let chunk := Block.prod yb.shape.tail
  let n := Block.prod (yb.shape.drop (D + 2))
  sumRange chunk (fun j =>
    sq xa yb (i * chunk + j) /
      (sumRange n (fun m => Block.at yb (i * chunk + (j / n) * n + m) * Block.at yb (i * chunk + (j / n) * n + m)) + eps))
    / (S : R)

/-- `normalized_smse_loss(x, y, eps)`: loops over the items of `y`, indexes `x` by key -/
def normalizedSmse [Zero R] [Add R] [Sub R] [Mul R] [Div R] [NatCast R] (x y : MI R) (eps : R) : Option R :=
  if hasAll y x then
    some (mean ((List.range (getL x)).map (fun i =>
      (y.data.map (fun kv => normBlock (partner x kv.1) kv.2 y.D (spatialSize x) eps i)).sum)))
  else none

/-- the same with the *prediction's* norm (a plausible slip; used by the examples) -/
def normBlockWrong [Zero R] [Add R] [Sub R] [Mul R] [Div R] [NatCast R] (xa yb : Block R) (D S : Nat) (eps : R) (i : Nat) : R :=
  normBlock yb xa D S eps i

/-! ### the property's sentences in (batch, channel, pixel, component) coordinates -/

/-- flat offset of element `(i, ch, p, m)` of a block with `C` channels, `P` pixels, `n` components -/
def off (C P n i ch p m : Nat) : Nat := ((i * C + ch) * P + p) * n + m

/-- squared difference summed over channels and tensor components, averaged over pixels -/
def smseBlockSpec [Zero R] [Add R] [Sub R] [Mul R] [Div R] [NatCast R] (a b : Block R) (C P n : Nat) (i : Nat) : R :=
  sumRange C (fun ch => sumRange P (fun p => sumRange n (fun m => sq a b (off C P n i ch p m)))) / (P : R)

/-- the same, separately for time step `s`: channel `c·steps + s` belongs to step `s` -/
def tsBlockSpec [Zero R] [Add R] [Sub R] [Mul R] [Div R] [NatCast R] (a b : Block R) (C P n steps : Nat) (i s : Nat) : R :=
  sumRange (C / steps) (fun c => sumRange P (fun p => sumRange n (fun m =>
    sq a b (off C P n i (c * steps + s) p m)))) / (P : R)

/-- each channel-pixel's error divided by the target's squared norm there (+ eps) -/
def normBlockSpec [Zero R] [Add R] [Sub R] [Mul R] [Div R] [NatCast R] (xa yb : Block R) (C P n : Nat) (eps : R) (i : Nat) : R :=
  sumRange C (fun ch => sumRange P (fun p =>
    sumRange n (fun m => sq xa yb (off C P n i ch p m)) /
      (sumRange n (fun m => Block.at yb (off C P n i ch p m) * Block.at yb (off C P n i ch p m)) + eps))) / (P : R)

/-- shape data of a block `(L, C, spatial…, (D,)*k)` -/
def chanOf (b : Block R) : Nat := b.shape.getD 1 0
def pixOf (b : Block R) (D : Nat) : Nat := Block.prod ((b.shape.drop 2).take D)
def compOf (b : Block R) (D : Nat) : Nat := Block.prod (b.shape.drop (D + 2))

/-- whole-loss specification, per batch entry: sum over the types of `x` -/
def smseSpec [Zero R] [Add R] [Sub R] [Mul R] [Div R] [NatCast R] (x y : MI R) (i : Nat) : R :=
  (x.data.map (fun kv => smseBlockSpec kv.2 (partner y kv.1) (chanOf kv.2) (pixOf kv.2 x.D) (compOf kv.2 x.D) i)).sum

def tsSpec [Zero R] [Add R] [Sub R] [Mul R] [Div R] [NatCast R] (x y : MI R) (steps : Nat) (i s : Nat) : R :=
  (x.data.map (fun kv => tsBlockSpec kv.2 (partner y kv.1) (chanOf kv.2) (pixOf kv.2 x.D) (compOf kv.2 x.D) steps i s)).sum

def normSpec [Zero R] [Add R] [Sub R] [Mul R] [Div R] [NatCast R] (x y : MI R) (eps : R) (i : Nat) : R :=
  (y.data.map (fun kv => normBlockSpec (partner x kv.1) kv.2 (chanOf kv.2) (pixOf kv.2 y.D) (compOf kv.2 y.D) eps i)).sum

end GinjaxVerif.C18
