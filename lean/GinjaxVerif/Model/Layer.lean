import GinjaxVerif.Model.Conv
import GinjaxVerif.Model.C20
/-!
# The convolve-and-contract layer with values (C11, C06): `ginjax/ml/layers.py: ConvContract`

Core Lean only (compiled into the correspondence driver).  `Model/C20.lean` models the *signature*
of the same layer; this file models its *values*, following the code of the repaired layer
(defects D6 and D10 fixed; the legacy signature behaviour is documented by
`C20.layer_legacy_drops_scalar_mode`, `C20.layer_legacy_empty_true_mode`,
`C20.layer_legacy_order_counterexample`):

* `__init__`           → `initShapes` (bias-mode normalisation, weight / bias shapes, `missing_filter`)
* `individual_convolve`→ `filterBlock` (the einsum `"ijk,k...->ij..."`), `contribution`
                         (`geom.convolve_contract(...)[0]`, i.e. `convContractImpl`), `accumulate`
                         (`out[key] = new + out[key]` / `out.append`), `individualConvolveV`
* `__call__`           → `emitInTargetOrderV` (re-emission in `target_keys` order), `biasBlock`,
                         `biasLoopV`, `layerV`
and the **spec** `layerSpec`, the sentence of property C11.

A block of one type is a channel count, spatial extents and a value function
`channel → pixel → tensor multi-index → R`; a multi-image is an association list in dict order.
All blocks of one multi-image share their extents `N`, all filters of a bank share theirs `M`, hence
one per-axis option vector `ax` (the result of `dispatch`) serves every (input type, target type)
pair.  The spatial mean of the bias branch is `μ · Σ_{y ∈ box}`, with `μ` a parameter (the driver
passes `1/|box|`).
-/
namespace GinjaxVerif.Layer

open GinjaxVerif GinjaxVerif.C20

/-- one image block `(channels, spatial…, tensor…)` of a `MultiImage` -/
structure Block (R : Type) (d : Nat) where
  chans : Nat
  dims : Fin d → Nat
  val : Nat → Pix d → List (Fin d) → R

/-- `MultiImage.data`: blocks by `(k, parity)` in dict order -/
abbrev MImg (R : Type) (d : Nat) := List (Ty × Block R d)

/-- dict lookup (first entry with the key) -/
def lookup {α : Type} : List (Ty × α) → Ty → Option α
  | [], _ => none
  | (k, v) :: r, t => if k = t then some v else lookup r t

/-- `get_signature()` -/
def sigOf {R : Type} {d : Nat} (m : MImg R d) : Sig := m.map (fun e => (e.1, e.2.chans))

/-- values of the block of type `t` (zero function when the block is absent) -/
def getVal {R : Type} [Zero R] {d : Nat} (m : MImg R d) (t : Ty) : Nat → Pix d → List (Fin d) → R :=
  match lookup m t with
  | some b => b.val
  | none => fun _ _ _ => 0

/-- The layer object.  `bank` = `invariant_filters` (per filter type: `chans` = number of filters,
`val f a T`); `weights s t o c f` = `self.weights[s][t][o, c, f]`; `bias t o` = the single free entry
per channel of `self.bias[t]` (shape `(out_c, 1, …, 1)`); `mode` = the `use_bias` argument; `ax` =
the dispatched per-axis options; `mu` = the factor of the spatial mean. -/
structure Params (R : Type) (d : Nat) where
  target : Sig
  bank : MImg R d
  weights : Ty → Ty → Nat → Nat → Nat → R
  bias : Ty → Nat → R
  mode : BiasMode
  ax : Fin d → AxisOpt
  mu : R

/-- keys of `invariant_filters` as the `C20.Bank` of the signature calculus (its side length plays
no role for `hasFilter` / `reachable`) -/
def bankSig {R : Type} {d : Nat} (P : Params R d) : C20.Bank := ⟨P.bank.map Prod.fst, 0⟩

section Values
variable {R : Type} [Zero R] [Add R] [Mul R] {d : Nat}

/-- `jnp.einsum("ijk,k...->ij...", W[s][t], invariant_filters[filter_key])` -/
def filterBlock (P : Params R d) (s t : Ty) : Bank R d :=
  match lookup P.bank (filterKey s t) with
  | some F => fun o c a T => sumFin F.chans (fun f => P.weights s t o c f.val * F.val f.val a T)
  | none => fun _ _ _ _ => 0

/-- options of the `convolve_contract` call for input type `s` and target type `t` -/
def layerCfg (ax : Fin d → AxisOpt) (s t : Ty) (inC outC : Nat) : ConvCfg d :=
  { ax := ax, inC := inC, outC := outC, kI := s.1, kF := s.1 + t.1 }

/-- `geom.convolve_contract(D, block[None], filter_block, is_torus, stride, padding, lhs_dilation,
rhs_dilation)[0]` -/
def contribution (ax : Fin d → AxisOpt) (fb : Ty → Ty → Bank R d) (s : Ty) (xs : Block R d)
    (t : Ty) (outC : Nat) : Block R d :=
  { chans := outC
    dims := fun j => (ax j).outLen
    val := convContractImpl (layerCfg ax s t xs.chans outC) (fun _ c y T => xs.val c y T) (fb s t) 0 }

/-- `convolve_contracted_imgs + out[(out_k, out_p)]` -/
def addBlock (new old : Block R d) : Block R d :=
  { chans := new.chans, dims := new.dims, val := fun o x T => new.val o x T + old.val o x T }

/-- `if key in out: out[key] = new + out[key]  else: out.append(k, p, new)` (an existing key keeps
its position) -/
def accumulate : MImg R d → Ty → Block R d → MImg R d
  | [], t, b => [(t, b)]
  | (k, v) :: r, t, b => if k = t then (k, addBlock b v) :: r else (k, v) :: accumulate r t b

/-- `individual_convolve`: outer loop over the blocks of the input (dict order of the *input*, not
of `input_keys`), inner loop over `weights[s].items()` (the targets for which the filter type
exists, with their `out_c`).  `fb` is the filter-block function (`filterBlock P`; the driver passes
an array-backed copy). -/
def individualConvolveV (bank : C20.Bank) (target : Sig) (ax : Fin d → AxisOpt)
    (fb : Ty → Ty → Bank R d) (x : MImg R d) : MImg R d :=
  x.foldl (fun acc e =>
    (weightsFor bank target e.1).foldl
      (fun acc' w => accumulate acc' w.1 (contribution ax fb e.1 e.2 w.1 w.2)) acc) []

/-- `{k_p: x[k_p] for k_p, _ in self.target_keys if k_p in x}` (repair of D10) -/
def emitInTargetOrderV (target : Sig) (produced : MImg R d) : MImg R d :=
  target.filterMap (fun t => (lookup produced t.1).map (fun b => (t.1, b)))

/-- one iteration of the bias loop of `__call__` with the stored (normalised) setting `m`:
additive bias for true scalars, `image + mean_image * bias` for the mean-scaled branch, pass-through
otherwise (repair of D6). -/
def biasBlock (m : BiasMode) (bias : Ty → Nat → R) (mu : R) (t : Ty) (b : Block R d) : Block R d :=
  if t = (0, 0) ∧ (m = .scalar ∨ m = .auto) then
    { b with val := fun o x T => b.val o x T + bias t o }
  else if (t ≠ (0, 0) ∧ m = .auto) ∨ m = .mean then
    { b with val := fun o x T => b.val o x T + (mu * sumBox b.dims (fun y => b.val o y T)) * bias t o }
  else b

/-- `if self.use_bias: …loop… else: return x` -/
def biasLoopV (m : BiasMode) (bias : Ty → Nat → R) (mu : R) (x : MImg R d) : MImg R d :=
  match m with
  | .false_ => x
  | m => x.map (fun e => (e.1, biasBlock m bias mu e.1 e.2))

/-- the convolution stage of `__call__` with an explicit filter-block function -/
def convStageV (P : Params R d) (fb : Ty → Ty → Bank R d) (x : MImg R d) : MImg R d :=
  emitInTargetOrderV P.target (individualConvolveV (bankSig P) P.target P.ax fb x)

/-- **Model of `ConvContract.__call__`** (repaired code; `fast_mode` is forced to `False`). -/
def layerV (P : Params R d) (x : MImg R d) : MImg R d :=
  biasLoopV (normaliseBias P.mode) P.bias P.mu (convStageV P (filterBlock P) x)

/-! ### the spec: the sentence of property C11 -/

/-- `Σ_{(s, x_s) ∈ x, filter (k_s+k_t, (p_s+p_t)%2) present}` of the contraction (over the input's
tensor indices) of the convolution of `x_s` with the weight-combined invariant filters -/
def convPartSpec (P : Params R d) (x : MImg R d) (t : Ty) : Nat → Pix d → List (Fin d) → R :=
  fun o i T =>
    x.foldr (fun e r =>
      (if hasFilter (bankSig P) e.1 t then
        convContractSpec (layerCfg P.ax e.1 t e.2.chans 0) (fun _ c y T => e.2.val c y T)
          (filterBlock P e.1 t) 0 o i T
       else 0) + r) 0

/-- the bias selected by the bias setting (stated on the five documented settings, not on the
normalised one): a per-channel additive constant only for true scalars; a per-channel multiple of
the block's spatial mean in mode `mean` and, for non-scalars, in modes `auto` / `True`; nothing
otherwise. -/
def biasSpec (mode : BiasMode) (bias : Ty → Nat → R) (mu : R) (dims : Fin d → Nat) (t : Ty)
    (c : Nat → Pix d → List (Fin d) → R) : Nat → Pix d → List (Fin d) → R :=
  fun o i T =>
    if t = (0, 0) ∧ (mode = .auto ∨ mode = .scalar ∨ mode = .true_) then c o i T + bias t o
    else if mode = .mean ∨ ((mode = .auto ∨ mode = .true_) ∧ t ≠ (0, 0)) then
      c o i T + bias t o * (mu * sumBox dims (fun y => c o y T))
    else c o i T

/-- extents of every output block -/
def outDims (P : Params R d) : Fin d → Nat := fun j => (P.ax j).outLen

/-- **Spec of the output block of target type `t`.** -/
def layerSpec (P : Params R d) (x : MImg R d) (t : Ty) : Nat → Pix d → List (Fin d) → R :=
  biasSpec P.mode P.bias P.mu (outDims P) t (convPartSpec P x t)

end Values

/-- the call is accepted (`weights[s]` exists, channel counts of feeding blocks as declared) -/
def accepts {R : Type} {d : Nat} (P : Params R d) (declared : Sig) (x : MImg R d) : Bool :=
  (sigOf x).all (blockOk (bankSig P) declared P.target)

/-! ### `__init__` -/

/-- what the constructor builds: `weights[s][t].shape = (out_c, in_c, n_filters)` per type pair with
an existing filter type (dicts in insertion order), `bias[t]` with `out_c` free entries (shape
`(out_c, 1, …, 1)`), the flag `missing_filter` and the stored bias setting -/
structure Shapes where
  weights : List (Ty × List (Ty × (Nat × Nat × Nat)))
  bias : List (Ty × Nat)
  missing : Bool
  mode : BiasMode
  deriving DecidableEq, Repr

/-- dict assignment `d[key] = v` -/
def assign {α : Type} : List (Ty × α) → Ty → α → List (Ty × α)
  | [], t, v => [(t, v)]
  | (k, u) :: r, t, v => if k = t then (k, v) :: r else (k, u) :: assign r t v

/-- body of the inner loop of `__init__` for the declared input block `s` and the target `t`:
`acc = (weights[s] so far, bias dict, missing_filter)`; `m` = the normalised bias setting -/
def initInner (m : BiasMode) (bankN : List (Ty × Nat)) (s : Ty × Nat)
    (acc : List (Ty × (Nat × Nat × Nat)) × List (Ty × Nat) × Bool) (t : Ty × Nat) :
    List (Ty × (Nat × Nat × Nat)) × List (Ty × Nat) × Bool :=
  match lookup bankN (filterKey s.1 t.1) with
  | none => (acc.1, acc.2.1, true)
  | some nF =>
    (acc.1 ++ [(t.1, (t.2, s.2, nF))],
     (if m = .false_ then acc.2.1 else assign acc.2.1 t.1 t.2), acc.2.2)

/-- the double loop of `__init__`; `bankN` = filter type ↦ number of invariant filters -/
def initShapes (inputKeys target : Sig) (bankN : List (Ty × Nat)) (mode : BiasMode) : Shapes :=
  let m := normaliseBias mode
  inputKeys.foldl (fun sh s =>
    let r := target.foldl (initInner m bankN s) ([], sh.bias, sh.missing)
    { sh with weights := assign sh.weights s.1 r.1, bias := r.2.1, missing := r.2.2 })
    { weights := [], bias := [], missing := false, mode := m }

end GinjaxVerif.Layer
