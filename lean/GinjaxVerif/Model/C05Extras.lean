import GinjaxVerif.Model.C05
/-!
# C05 (extras) — constant images, activation functions, equality, names

Model of the parts of the image algebra that are not operators of the expression language `Expr`:

* `constants.py: KroneckerDeltaSymbol.get(D, k)` (`kroneckerSym`) and
  `geometric_image.py: get_kronecker_delta_image(N, D, k)` (`kroneckerDeltaG`);
* `GeometricImage.fill` (`fillImg`, `GImg.fill`), `GeometricImage.zeros` (`zerosImg`, `GImg.zeros`);
* `GeometricImage.activation_function` (`activationI`, `GImg.activation`: `assert self.k == 0`);
* `GeometricImage.__eq__` (`GImg.eqB`; its tolerance-free exact-arithmetic core: same D — the type
  index —, extents, k, parity, flags and data), the spec is `GImg.Eqv`;
* `GeometricImage.normalize` (`normalizeI`: `times_scalar` with a factor computed from the largest
  pixel norm) and `common.py: tensor_name`.

Core Lean only (compiled into the driver).  Same image representation as `Model/C05.lean`.
-/
namespace GinjaxVerif.C05

open GinjaxVerif

section Extras
variable {R : Type} {d : Nat}

/-! ### Kronecker delta -/

/-- entry of `KroneckerDeltaSymbol.get(D, k)`: `arr = np.zeros(k * (D,))`, then
`for i in range(D): arr[(i,) * k] = 1` (no entries for index lists of another length). -/
def kroneckerSym (d k : Nat) (m : List (Fin d)) : Int :=
  if (List.finRange d).any (fun i => m == List.replicate k i) then 1 else 0

/-- the data of `get_kronecker_delta_image`: the symbol stacked on every pixel -/
def kroneckerDelta [IntCast R] (dims : Fin d → Nat) (k : Nat) : Img R d :=
  { dims := dims, k := k, val := fun _ n => ((kroneckerSym d k n : Int) : R) }

/-- `get_kronecker_delta_image(N, D, k)`: square of side `N`, parity 0, default `is_torus=True` -/
def kroneckerDeltaG [IntCast R] (N k : Nat) : GImg R d :=
  GImg.mk' (kroneckerDelta (fun _ => N) k) 0 (fun _ => true)

/-- `assert D > 1; assert k > 1` of `KroneckerDeltaSymbol.get` -/
def kroneckerOk (d k : Nat) : Bool := decide (1 < d) && decide (1 < k)

/-! ### constant images -/

/-- `jnp.stack([fill for _ in range(prod(spatial_dims))]).reshape(spatial_dims + (D,)*k)`: the tensor
`c` (order `k = len(fill.shape)`, 0 for a number) on every pixel -/
def fillImg (dims : Fin d → Nat) (k : Nat) (c : List (Fin d) → R) : Img R d :=
  { dims := dims, k := k, val := fun _ n => c n }

/-- `GeometricImage.fill(N, parity, D, fill, is_torus)` -/
def GImg.fill (dims : Fin d → Nat) (k : Nat) (c : List (Fin d) → R) (parity : Nat)
    (torus : Fin d → Bool) : GImg R d :=
  GImg.mk' (fillImg dims k c) parity torus

/-- `jnp.zeros(spatial_dims + (D,) * k)` -/
def zerosImg [Zero R] (dims : Fin d → Nat) (k : Nat) : Img R d :=
  { dims := dims, k := k, val := fun _ _ => 0 }

/-- `GeometricImage.zeros(N, k, parity, D, is_torus)` -/
def GImg.zeros [Zero R] (dims : Fin d → Nat) (k parity : Nat) (torus : Fin d → Bool) : GImg R d :=
  GImg.mk' (zerosImg dims k) parity torus

/-! ### activation functions -/

/-- `function(self.data)` for a pixel-wise `function` on a scalar image.  (As for `normI`: the value
at a non-empty index list is irrelevant for an order-0 image and set to 0.) -/
def activationI [Zero R] (f : R → R) (A : Img R d) : Img R d :=
  { dims := A.dims, k := A.k
    val := fun y n => match n with
      | [] => f (A.val y [])
      | _ :: _ => 0 }

/-- `GeometricImage.activation_function(function)`: `assert self.k == 0`, then
`self.__class__(function(self.data), self.parity, self.D, self.is_torus)` — the parity is kept
whatever it is (the code does not look at it). -/
def GImg.activation [Zero R] (f : R → R) (G : GImg R d) : Option (GImg R d) :=
  if G.img.k = 0 then some (GImg.mk' (activationI f G.img) G.p G.torus) else none

/-- the named family of exact integer functions the driver offers -/
def namedFn : String → Option (Int → Int)
  | "identity" => some (fun x => x)
  | "negate" => some (fun x => -x)
  | "square" => some (fun x => x * x)
  | "relu" => some (fun x => if 0 ≤ x then x else 0)
  | "cube" => some (fun x => x * x * x)
  | "abs" => some (fun x => if 0 ≤ x then x else -x)
  | _ => none

/-! ### equality -/

/-- `∀` over the pixels of a box, the pixel as a list of coordinates (as `sumBoxL`) -/
def forallBoxL : List Nat → (List Int → Bool) → Bool
  | [], f => f []
  | m :: ms, f => (List.finRange m).all (fun a => forallBoxL ms (fun t => f ((a.val : Int) :: t)))

/-- `∀` over the tensor multi-indices of length `k` (as `sumIdx`) -/
def forallIdx (d : Nat) : (k : Nat) → (List (Fin d) → Bool) → Bool
  | 0, f => f []
  | k + 1, f => (List.finRange d).all (fun a => forallIdx d k (fun n => f (a :: n)))

/-- the data comparison of `__eq__` in exact arithmetic (`allclose` without its tolerance): every
entry of the array, i.e. every pixel of the box and every index list of length `k` -/
def dataEqB [DecidableEq R] (A B : Img R d) : Bool :=
  forallBoxL ((List.finRange d).map A.dims) (fun a =>
    forallIdx d A.k (fun n =>
      decide (A.val (fun i => a.getD i.val 0) n = B.val (fun i => a.getD i.val 0) n)))

/-- `GeometricImage.__eq__` (both operands of dimension `D = d`): `spatial_dims`, `k`, `parity`,
`is_torus` equal (`data.shape` is then equal as well) and the data equal. -/
def GImg.eqB [DecidableEq R] (G H : GImg R d) : Bool :=
  fnEq G.img.dims H.img.dims && G.img.k == H.img.k && G.p == H.p && fnEq G.torus H.torus &&
    dataEqB G.img H.img

/-- **spec** of `__eq__`: extensionally equal data (`Img.Equiv`: extents, order, values on the box
at index lists of length `k`), equal parity and flags -/
def GImg.Eqv (G H : GImg R d) : Prop :=
  G.img.Equiv H.img ∧ G.p = H.p ∧ G.torus = H.torus

/-! ### normalize -/

/-- `GeometricImage.normalize`: `max_norm = max(self.norm().data)`; `times_scalar(1/max_norm)` if
`max_norm > TINY` else `times_scalar(1.0)`.  The factor is a function `scaleOf` of the largest pixel
norm; `maxN` is that statistic (any function of the image, see `normalize_act`). -/
def normalizeI [Mul R] (maxN : Img R d → R) (scaleOf : R → R) (A : Img R d) : Img R d :=
  smulI (scaleOf (maxN A)) A

end Extras

/-! ### `tensor_name` -/

/-- `common.py: tensor_name(k, parity)`.  Code-shaped: "pseudo" is decided by `parity % 2 == 1` for
`k < 2`, but for `k > 1` the sign in the name is decided by `parity == 0` (no `% 2`). -/
def tensorName (k parity : Nat) : String :=
  let nn := "tensor"
  let nn := if k == 0 then "scalar" else nn
  let nn := if k == 1 then "vector" else nn
  let nn := if parity % 2 == 1 && decide (k < 2) then "pseudo" ++ nn else nn
  if 1 < k then
    if parity == 0 then "$" ++ toString k ++ "_" ++ "{(+)}" ++ "-$" ++ nn
    else "$" ++ toString k ++ "_" ++ "{(-)}" ++ "-$" ++ nn
  else nn

end GinjaxVerif.C05
