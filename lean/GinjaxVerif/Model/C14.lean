import GinjaxVerif.Model.NDArr
import GinjaxVerif.Model.C13
import GinjaxVerif.Model.Action

/-!
# C14 — per-image operations of `MultiImage` and `jax.vmap` (executable model, core Lean only)

Model of `src/ginjax/geometric/multi_image.py`:
`times_group_element`, `average_pool` (the *flatten leading axes → `jax.vmap` → restore leading
axes* pattern), `norm` (`idx_shift = n_leading + D`, blocks appended as scalars on axis
`n_leading − 1`), `get_component` / `batch_get_component` (the reshape / moveaxis / concatenate
chain with `future_steps`), `to_images` (model: `C13.MI.toImages`), and of `jax.vmap(model)`.

* `jax.vmap(f)` with `in_axes = out_axes = 0` is **a map over the rows followed by a stack**
  (`vmap0`).  jax obtains the output shape by abstract evaluation of `f` on the row shape; the
  model takes that as the function `outShape` on shapes.
* the per-image function `f : NDArr α → NDArr α` of `mapLeading` is arbitrary.  The instances the
  library uses are `tgeArr` (the action on one image: `Model/Action.tge` read through the array
  ↔ image bridge `toImg` / `ofImg`), `poolArr` (average pooling of one image) and, for `norm`, the
  reduction `reduceLast g` of the flattened tensor axes with an arbitrary per-pixel function `g`
  (`g = sqrt ∘ Σ x²` in the library, `Σ x²` in the integer driver).
* the multi image container is `C13.MI` (association list with `dict` semantics).
-/
namespace GinjaxVerif.C14
open GinjaxVerif.ND GinjaxVerif.ND.NDArr GinjaxVerif.C13

/-! ## generic: sub-array at a leading multi-index, vmap, flatten → map → restore -/
section Generic
variable {α : Type} [Inhabited α]

/-- `a[li]` for a leading multi-index `li` (`a[i0, i1, …]`): the sub-array of the remaining axes -/
def subAt (li : List Nat) (a : NDArr α) : NDArr α :=
  ofFn (a.shape.drop li.length) fun i => a.get (li ++ i)

/-- `jax.vmap(f)(x)` with `in_axes = out_axes = 0`: `f` on every row, results stacked.
`outShape` is the abstract evaluation of `f` (shape of a row ↦ shape of `f row`). -/
def vmap0 (outShape : List Nat → List Nat) (f : NDArr α → NDArr α) (x : NDArr α) : NDArr α :=
  stack (outShape x.shape.tail) (x.rows.map f)

/-- the pattern of `times_group_element` / `average_pool`:
`y = vmap(f)(x.reshape((-1,) + rest)); y.reshape(x.shape[:nLead] + y.shape[1:])` -/
def mapLeading (nLead : Nat) (rest : List Nat) (outShape : List Nat → List Nat)
    (f : NDArr α → NDArr α) (x : NDArr α) : NDArr α :=
  let y := vmap0 outShape f (x.reshapeInfer [] rest)
  y.reshape (x.shape.take nLead ++ y.shape.tail)

/-- numpy accepts both reshapes of `mapLeading` -/
def mapLeadingOk (nLead : Nat) (rest : List Nat) (outShape : List Nat → List Nat)
    (x : NDArr α) : Bool :=
  x.reshapeInferOk [] rest
    && (x.shape.take nLead ++ outShape rest).prod
        == (inferDim x.shape.prod [] rest :: outShape rest).prod

/-- all multi-indices of a box, row-major (`itertools.product(*map(range, s))`) -/
def boxIdx : List Nat → List (List Nat)
  | [] => [[]]
  | n :: rest => (List.range n).flatMap fun i => (boxIdx rest).map fun t => i :: t

/-- reduce the last axis with a per-pixel function of the list of its entries
(`jnp.linalg.norm(·, axis=-1)` for `g = sqrt ∘ Σ x²`) -/
def reduceLast (g : List α → α) (a : NDArr α) : NDArr α :=
  ofFn a.shape.dropLast fun i =>
    g ((List.range (a.shape.getLastD 0)).map fun j => a.get (i ++ [j]))

/-- `geom.norm(idx_shift, data)` with `keepdims=False`:
`reduce(data.reshape(data.shape[:idx_shift] + (-1,)), axis=idx_shift)` -/
def normBlock (idxShift : Nat) (g : List α → α) (data : NDArr α) : NDArr α :=
  reduceLast g (data.reshapeInfer (data.shape.take idxShift) [])

/-- `assert idx_shift <= data.ndim` and numpy's `-1` inference -/
def normBlockOk (idxShift : Nat) (data : NDArr α) : Bool :=
  decide (idxShift ≤ data.shape.length) && data.reshapeInferOk (data.shape.take idxShift) []

/-- `a[..., i]` -/
def indexLast (i : Nat) (a : NDArr α) : NDArr α :=
  ofFn a.shape.dropLast fun j => a.get (j ++ [i])

/-- `jnp.concatenate([acc, x], axis=-1)` -/
def concatLast (acc x : NDArr α) : NDArr α := concat (normAxis acc.shape.length (-1)) acc x

end Generic

/-! ## the per-image functions of the library -/
section Images
variable {R : Type} [Inhabited R]

/-- read an array of shape `spatial ++ (d,)*k` as a geometric image -/
def toImg (d : Nat) (a : NDArr R) : Img R d :=
  { dims := fun i => a.shape.getD i.val 0
    k := a.shape.length - d
    val := fun y n => a.get ((List.finRange d).map (fun i => (y i).toNat) ++ n.map (·.val)) }

/-- a list of naturals below `d` as tensor indices -/
def idxToFin (d : Nat) (l : List Nat) : List (Fin d) :=
  l.filterMap fun a => if h : a < d then some ⟨a, h⟩ else none

/-- tabulate a geometric image as an array of shape `dims ++ (d,)*k` -/
def ofImg {d : Nat} (A : Img R d) : NDArr R :=
  ofFn ((List.finRange d).map A.dims ++ List.replicate A.k d) fun i =>
    A.val (fun j => ((i.getD j.val 0 : Nat) : Int)) (idxToFin d (i.drop d))

/-- **`geom.times_group_element(D, data, parity, gg)`** on the data array of one image -/
def tgeArr [Zero R] [Add R] [Mul R] [IntCast R] (d : Nat) (M : Mat d) (p : Nat) (a : NDArr R) :
    NDArr R :=
  ofImg (tge M p (toImg d a))

/-- shape of `tgeArr` as a function of the input shape (`|gg| @ spatial` ++ tensor axes) -/
def tgeOutShape {d : Nat} (M : Mat d) (rest : List Nat) : List Nat :=
  (List.finRange d).map (rotDims M fun j => rest.getD j.val 0) ++ List.replicate (rest.length - d) d

/-- **`geom.average_pool(D, image_data, patch_len)`** on one image: `scale · Σ` over every
`patch^D` patch (`scale = 1 / patch^D`; the integer driver uses `scale = 1`, the patch sum) -/
def poolArr [Zero R] [Add R] [Mul R] (d patch : Nat) (scale : R) (a : NDArr R) : NDArr R :=
  ofFn ((a.shape.take d).map (· / patch) ++ a.shape.drop d) fun i =>
    scale * (boxIdx (List.replicate d patch)).foldl
      (fun acc off => acc + a.get (List.zipWith (fun y o => y * patch + o) (i.take d) off ++ i.drop d))
      0

def poolOutShape (d patch : Nat) (rest : List Nat) : List Nat :=
  (rest.take d).map (· / patch) ++ rest.drop d

/-- what `geom.average_pool` accepts: the `assert` that the patch divides every extent; and the
convolution behind it only exists for `D ∈ {2, 3}` (`D = 1` is rejected by both entry points) -/
def poolOk (d patch : Nat) (rest : List Nat) : Bool :=
  (d == 2 || d == 3) && patch != 0 && decide (d ≤ rest.length)
    && (rest.take d).all fun n => n % patch == 0

/-- `Σ x²` of a pixel (the square of the Frobenius norm) -/
def sumSq [Zero R] [Add R] [Mul R] (l : List R) : R := l.foldl (fun acc x => acc + x * x) 0

end Images

/-! ## the multi-image methods -/
section Methods
variable {R : Type} [Inhabited R]

/-- the boundary flags travel with the axes: `is_torus[argmax |gg[i]|]` -/
def rotTorus {d : Nat} (M : Mat d) (t : List Bool) : List Bool :=
  (List.finRange d).map (transport M fun j => t.getD j.val false)

/-- **`MultiImage.times_group_element(gg)`**: per block
`vmap_rotate(block.reshape((-1,) + spatial + (D,)*k))` restored to
`block.shape[:n_leading] + rotated.shape[1:]` with `n_leading = ndim − (D + k)`; the blocks are
appended to `MultiImage({}, D, rotated_is_torus)` -/
def miTge [Zero R] [Add R] [Mul R] [IntCast R] {d : Nat} (M : Mat d) (m : MI R) : MI R :=
  appendAll (MI.new [] m.D (rotTorus M m.isTorus)) (m.data.map fun e =>
    (e.1, mapLeading (e.2.shape.length - (m.D + e.1.1))
      (m.spatialDims ++ List.replicate e.1.1 m.D) (tgeOutShape M) (tgeArr d M e.1.2) e.2))

/-- the reshapes of `times_group_element` are accepted -/
def miTgeOk {d : Nat} (M : Mat d) (m : MI R) : Bool :=
  m.D == d && m.data.all fun e =>
    mapLeadingOk (e.2.shape.length - (m.D + e.1.1))
      (m.spatialDims ++ List.replicate e.1.1 m.D) (tgeOutShape M) e.2

/-- **`MultiImage.average_pool(patch_len)`**: per block
`vmap_avg_pool(block.reshape((-1,) + block.shape[n_leading:]))` restored to
`block.shape[:n_leading] + pooled.shape[1:]` with `n_leading = get_n_leading()` -/
def miAveragePool [Zero R] [Add R] [Mul R] (patch : Nat) (scale : R) (m : MI R) : MI R :=
  appendAll m.empty (m.data.map fun e =>
    (e.1, mapLeading m.nLeading (e.2.shape.drop m.nLeading) (poolOutShape m.D patch)
      (poolArr m.D patch scale) e.2))

def miAveragePoolOk (patch : Nat) (m : MI R) : Bool :=
  m.data.all fun e =>
    poolOk m.D patch (e.2.shape.drop m.nLeading)
      && mapLeadingOk m.nLeading (e.2.shape.drop m.nLeading) (poolOutShape m.D patch) e.2

/-- **`MultiImage.norm()`**: every block becomes scalar channels,
`out.append(0, 0, norm(n_lead + D, block), axis = n_lead − 1)` -/
def miNorm (g : List R → R) (m : MI R) : MI R :=
  appendAll m.empty
    (m.data.map fun e => (((0, 0) : Key), normBlock (m.nLeading + m.D) g e.2)) (m.nLeading - 1)

/-- `assert n_lead_axes > 0`, the `assert`/reshape of `geom.norm`, and the `append`s -/
def miNormOk (g : List R → R) (m : MI R) : Bool :=
  decide (m.nLeading > 0)
    && m.data.all (fun e => normBlockOk (m.nLeading + m.D) e.2)
    && appendAllOk m.empty
        (m.data.map fun e => (((0, 0) : Key), normBlock (m.nLeading + m.D) g e.2)) (m.nLeading - 1)

/-- the `component` argument of `get_component`: an integer or a slice `lo:hi` -/
inductive Comp where
  | idx (i : Nat)
  | slice (lo hi : Nat)
  deriving Repr, DecidableEq

/-- one iteration of the loop of `get_component`:
`(c*time, spatial, tensor) → (c, time, spatial, tensor) → (time, spatial, c, tensor) →
(time, spatial, c*tensor)` -/
def expBlock (D T : Nat) (spatial : List Nat) (k : Nat) (img : NDArr R) : NDArr R :=
  let e1 := img.reshapeInfer [] (T :: (spatial ++ List.replicate k D))
  let e2 := e1.moveaxis 0 (1 + D)
  e2.reshapeInfer (T :: spatial) []

/-- `data[..., component]` -/
def selectComp (c : Comp) (data : NDArr R) : NDArr R :=
  match c with
  | .idx i => indexLast i data
  | .slice lo hi => pySliceAxis (data.shape.length - 1) lo hi data

/-- the tail of `get_component`:
`data[..., component].reshape((T,) + spatial + (-1,))`, `moveaxis(-1, 0)`,
`reshape((-1,) + spatial)` -/
def compTail (T : Nat) (spatial : List Nat) (c : Comp) (data : NDArr R) : NDArr R :=
  let cd := (selectComp c data).reshapeInfer (T :: spatial) []
  (cd.moveaxis (normAxis cd.shape.length (-1)) 0).reshapeInfer [] spatial

/-- the block `data` that the loop of `get_component` accumulates -/
def compData (m : MI R) (T : Nat) : Option (NDArr R) :=
  match m.data.map fun e => expBlock m.D T m.spatialDims e.1.1 e.2 with
  | [] => none
  | x :: xs => some (xs.foldl concatLast x)

/-- **`MultiImage.get_component(component, future_steps)`** -/
def getComponent (m : MI R) (c : Comp) (T : Nat := 1) : MI R :=
  MI.new [(((0, 0) : Key), compTail T m.spatialDims c ((compData m T).getD default))] m.D m.isTorus

/-- the `assert`s of `get_component`, numpy's `-1` inference in its reshapes, agreement of the
concatenated blocks, and a component inside the concatenated width -/
def getComponentOk (m : MI R) (c : Comp) (T : Nat := 1) : Bool :=
  let S := m.spatialDims
  decide (m.nLeading = 1) && !m.data.isEmpty && T != 0 && S.prod != 0
    && m.data.all (fun e =>
        e.2.reshapeInferOk [] (T :: (S ++ List.replicate e.1.1 m.D))
          && e.2.shape.drop 1 == S ++ List.replicate e.1.1 m.D)
    && (match compData m T with
        | none => false
        | some data =>
          let w := data.shape.getLastD 0
          match c with
          | .idx i => decide (i < w)
          | .slice lo hi => decide (lo < hi) && decide (hi ≤ w))

/-- the multi image seen by one instance of a `vmap` over the first axis of every block -/
def rowAt (m : MI R) (b : Nat) : MI R :=
  { m with data := m.data.map fun e => (e.1, e.2.row b) }

/-- **`MultiImage.batch_get_component`** (repaired, fix D12) = `jax.vmap` over the blocks of
`get_component` applied to the entry rebuilt in the ORIGINAL dict order: every block is mapped over
its first axis, the scalar results are stacked -/
def batchGetComponent (m : MI R) (c : Comp) (T : Nat := 1) : MI R :=
  let outs := (List.range m.getL).map fun b =>
    (dictGet (0, 0) (getComponent (rowAt m b) c T).data).getD default
  MI.new [(((0, 0) : Key), stack ((outs.head?.map (·.shape)).getD []) outs)] m.D m.isTorus

/-- the dict of a multi image after a pytree round trip (jax flattens dicts in sorted key order);
insertion sort, the keys of a dict are distinct -/
def sortKeys (d : List (Key × NDArr R)) : List (Key × NDArr R) :=
  let rec ins (e : Key × NDArr R) : List (Key × NDArr R) → List (Key × NDArr R)
    | [] => [e]
    | f :: rest => if keyLe e.1 f.1 then e :: f :: rest else f :: ins e rest
  d.foldr ins []

/-- **legacy `batch_get_component`** (defect D12): `eqx.filter_vmap` was applied to the MultiImage
itself, so inside the vmap it was rebuilt from its pytree with the types in SORTED key order and
`component` designated another field than in `get_component` -/
def batchGetComponentLegacy (m : MI R) (c : Comp) (T : Nat := 1) : MI R :=
  batchGetComponent { m with data := sortKeys m.data } c T

def batchGetComponentOk (m : MI R) (c : Comp) (T : Nat := 1) : Bool :=
  decide (m.getL > 0) && m.data.all (fun e => e.2.shape.headD 0 == m.getL)
    && (List.range m.getL).all fun b => getComponentOk (rowAt m b) c T

end Methods

/-! ## `jax.vmap(model)` on a batch of multi images -/
section Vmap
variable {R : Type} [Inhabited R]

/-- `jax.vmap(model)(batch)` for a model from multi images to multi images: the model is run on
every batch entry (`rowAt b`), the output blocks are stacked per type.  Keys, order, `D`, flags
and the block shapes are those of the abstract evaluation, here read off the first entry. -/
def vmapMI (model : MI R → MI R) (m : MI R) : MI R :=
  let outs := (List.range m.getL).map fun b => model (rowAt m b)
  match outs.head? with
  | none => m.empty
  | some o0 =>
    ⟨o0.D, o0.isTorus, o0.data.map fun e =>
      (e.1, stack e.2.shape (outs.map fun o => (dictGet e.1 o.data).getD default))⟩

/-- `eqx.nn.GroupNorm(groups, channels)` on ONE sample `x` of shape `(channels,) + spatial`
(the scalar path of `ml.GroupNorm`; `ml.LayerNorm` is `groups = 1`):
`y = x.reshape(groups, -1)`; every entry is normalised with the statistics of its own group of
this sample, `norm x[i] (stat y[g, :])`.  The statistic `stat` (mean and variance in the library)
and the normalisation `norm` (`(v − μ) / sqrt(σ² + eps)`) are parameters. -/
def groupNormSample {S : Type} (groups : Nat) (stat : List R → S) (norm : R → S → R) (x : NDArr R) :
    NDArr R :=
  let y := x.reshapeInfer [groups] []
  let per := y.shape.getD 1 0
  ofFn x.shape fun i =>
    norm (x.get i) (stat ((List.range per).map fun j => y.get [ravel x.shape i / per, j]))

end Vmap

end GinjaxVerif.C14

/-! ## executable sanity checks -/
section Tests
open GinjaxVerif GinjaxVerif.ND GinjaxVerif.ND.NDArr GinjaxVerif.C13 GinjaxVerif.C14

private def b235 : NDArr Int := ofFn [2, 3, 5] fun i => (ravel [2, 3, 5] i : Int)
-- identity per-image function: flatten → map → restore is the identity
#guard mapLeading 1 [3, 5] id id b235 == b235
#guard mapLeading 2 [5] id id b235 == b235
#guard mapLeading 0 [2, 3, 5] id id b235 == b235
#guard (subAt [1, 2] b235).data == #[25, 26, 27, 28, 29]
-- np.linalg.norm(np.arange(30).reshape(2,3,5), axis=-1)**2 at [1,2] = 25²+…+29²
#guard (normBlock 2 sumSq b235).get [1, 2] == 3655
#guard (normBlock 2 sumSq b235).shape == [2, 3]
#guard (normBlock 3 sumSq b235).shape == [2, 3, 5]
#guard (normBlock 3 sumSq b235).get [1, 2, 4] == 841
#guard boxIdx [2, 2] == [[0, 0], [0, 1], [1, 0], [1, 1]]
-- patch sums of arange(16).reshape(4,4): [[10,18],[42,50]]
#guard (poolArr 2 2 (1 : Int) (ofFn [4, 4] fun i => (ravel [4, 4] i : Int))).data == #[10, 18, 42, 50]
-- rot90 of a 2 x 3 image has shape 3 x 2
private def rot90 : Mat 2 := fun i j => if i.val = 0 ∧ j.val = 1 then -1 else if i.val = 1 ∧ j.val = 0 then 1 else 0
#guard (tgeArr 2 rot90 0 (ofFn [2, 3] fun i => (ravel [2, 3] i : Int))).shape == [3, 2]
#guard tgeOutShape rot90 [2, 3, 2] == [3, 2, 2]
end Tests
