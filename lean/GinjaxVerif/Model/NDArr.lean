/-!
# Mini-numpy: row-major n-dimensional arrays (executable model, core Lean only)

The subset of numpy / `jax.numpy` that the plumbing of ginjax uses (`reshape`, `moveaxis`,
`concatenate`, basic slicing along one axis, integer-array indexing along one axis, `stack`,
iteration over the first axis), written so that

* it runs in the compiled driver (arrays are `shape : List Nat` + `data : Array α`, row-major), and
* every operation other than `reshape` is *defined* by its read-out formula (`ofFn shape f`), so the
  index-calculus lemmas in `GinjaxVerif/Lemmas/NDArr.lean` are one `get_ofFn` away.

Conventions
* a shape and a multi-index are `List Nat`; `InRange s i` says `i` is a valid multi-index of `s`;
* `ravel s i` is the flat row-major offset, `unravel s r` its inverse on `r < s.prod`;
* `NDArr.get` is total: out-of-range reads return `default` (so `[Inhabited α]`); all lemmas are
  about in-range reads of well-formed arrays (`NDArr.WF a : a.data.size = a.shape.prod`);
* axes passed to the operations are already normalised naturals; `normAxis` / `pySlice` model
  Python's handling of negative axes and slice bounds.
-/
namespace GinjaxVerif.ND

/-! ## index arithmetic -/

/-- Row-major flat offset of the multi-index `i` in an array of shape `s`
(`numpy.ravel_multi_index`).  Total: extra / missing entries contribute `0`. -/
def ravel : List Nat → List Nat → Nat
  | _ :: s, i :: is => i * s.prod + ravel s is
  | _, _ => 0

/-- Multi-index of the flat offset `r` in an array of shape `s` (`numpy.unravel_index`). -/
def unravel : List Nat → Nat → List Nat
  | [], _ => []
  | _ :: s, r => (r / s.prod) :: unravel s (r % s.prod)

/-- `i` is a valid multi-index for shape `s`: same length and every entry below its extent. -/
def InRange : List Nat → List Nat → Prop
  | [], [] => True
  | n :: s, i :: is => i < n ∧ InRange s is
  | _, _ => False

/-- Boolean version of `InRange` (used by the driver and by `Decidable`). -/
def inRange : List Nat → List Nat → Bool
  | [], [] => true
  | n :: s, i :: is => decide (i < n) && inRange s is
  | _, _ => false

/-- Python's normalisation of a possibly negative axis (or index) against `n`:
`a ↦ a + n` when `a < 0`.  Out-of-range results are *not* clamped (callers check `< n`). -/
def normAxis (n : Nat) (a : Int) : Nat :=
  if a < 0 then (a + n).toNat else a.toNat

/-- Python's `slice(lo, hi).indices(n)` for step 1: negative bounds are shifted by `n`, then
both are clamped to `[0, n]`; returns `(start, stop)` with `stop` raised to at least `start`. -/
def pySlice (n : Nat) (lo hi : Int) : Nat × Nat :=
  let c (x : Int) : Nat :=
    let y := if x < 0 then x + n else x
    if y < 0 then 0 else if y > n then n else y.toNat
  let l := c lo
  let h := c hi
  (l, if h < l then l else h)

/-- Move the entry at position `src` of a list to position `dst` (positions refer to the list
before removal resp. after insertion, exactly as `numpy.moveaxis` treats axes).  A `src` beyond
the end leaves the list unchanged. -/
def moveList {β : Type} (src dst : Nat) (l : List β) : List β :=
  match l[src]? with
  | some x => (l.eraseIdx src).insertIdx dst x
  | none => l

/-! ## arrays -/

/-- A row-major n-dimensional array: `data[ravel shape i]` is the entry at multi-index `i`. -/
structure NDArr (α : Type) where
  /-- extents of the axes, outermost first -/
  shape : List Nat
  /-- the entries in row-major (C) order -/
  data : Array α
  deriving Repr, DecidableEq

namespace NDArr
variable {α : Type}

instance [Inhabited α] : Inhabited (NDArr α) := ⟨⟨[0], #[]⟩⟩

/-- Well-formedness: the data array has exactly `shape.prod` entries. -/
def WF (a : NDArr α) : Prop := a.data.size = a.shape.prod

instance (a : NDArr α) : Decidable a.WF := inferInstanceAs (Decidable (_ = _))

/-- number of axes (`ndim`) -/
def rank (a : NDArr α) : Nat := a.shape.length

/-- number of entries according to the shape (`size`) -/
def size (a : NDArr α) : Nat := a.shape.prod

/-- Read the entry at multi-index `i` (total; `default` when the flat offset is out of bounds). -/
def get [Inhabited α] (a : NDArr α) (i : List Nat) : α := a.data.getD (ravel a.shape i) default

/-- The array of shape `s` whose entry at `i` is `f i` (`numpy.fromfunction`). -/
def ofFn (s : List Nat) (f : List Nat → α) : NDArr α :=
  ⟨s, Array.ofFn (n := s.prod) fun r => f (unravel s r.val)⟩

/-- `numpy.reshape` to an explicit shape: the row-major data is unchanged.  (Only meaningful when
`s.prod = a.shape.prod`; the driver checks this with `reshapeOk`.) -/
def reshape (a : NDArr α) (s : List Nat) : NDArr α := ⟨s, a.data⟩

/-- numpy accepts a reshape iff the number of entries is unchanged -/
def reshapeOk (a : NDArr α) (s : List Nat) : Bool := s.prod == a.shape.prod

/-- The extent numpy infers for a `-1` placed between `pre` and `post` in a reshape of an array
with `total` entries: `total / (pre.prod * post.prod)`. -/
def inferDim (total : Nat) (pre post : List Nat) : Nat := total / (pre.prod * post.prod)

/-- `a.reshape(pre + (-1,) + post)`. -/
def reshapeInfer (a : NDArr α) (pre post : List Nat) : NDArr α :=
  a.reshape (pre ++ inferDim a.shape.prod pre post :: post)

/-- numpy accepts `reshape(pre + (-1,) + post)` iff the known extents divide the size (and are
non-zero). -/
def reshapeInferOk (a : NDArr α) (pre post : List Nat) : Bool :=
  pre.prod * post.prod != 0 && a.shape.prod % (pre.prod * post.prod) == 0

/-- `a.reshape(-1)` -/
def flatten (a : NDArr α) : NDArr α := a.reshape [a.shape.prod]

/-- `numpy.moveaxis(a, src, dst)` for single, already normalised axes: the result has shape
`moveList src dst a.shape` and reads `a` at the index with the axis moved back. -/
def moveaxis [Inhabited α] (a : NDArr α) (src dst : Nat) : NDArr α :=
  ofFn (moveList src dst a.shape) fun i => a.get (moveList dst src i)

/-- `numpy.concatenate((a, b), axis)`.  The result takes all extents from `a` except along
`axis`, where the extents add (numpy additionally demands that the other extents of `b` agree,
see `concatOk`). -/
def concat [Inhabited α] (axis : Nat) (a b : NDArr α) : NDArr α :=
  let n := a.shape.getD axis 0
  ofFn (a.shape.set axis (n + b.shape.getD axis 0)) fun i =>
    let x := i.getD axis 0
    if x < n then a.get i else b.get (i.set axis (x - n))

/-- numpy accepts `concatenate((a, b), axis)` iff `axis` is an axis of both and all other
extents agree. -/
def concatOk (axis : Nat) (a b : NDArr α) : Bool :=
  decide (axis < a.shape.length) && a.shape.eraseIdx axis == b.shape.eraseIdx axis
    && a.shape.length == b.shape.length

/-- Basic slicing `a[:, …, lo:hi]` along `axis` with already normalised `lo ≤ hi ≤ extent`. -/
def sliceAxis [Inhabited α] (axis lo hi : Nat) (a : NDArr α) : NDArr α :=
  ofFn (a.shape.set axis (hi - lo)) fun i => a.get (i.set axis (i.getD axis 0 + lo))

/-- `a[(slice(None),)*axis + (slice(lo, hi),)]` with Python (possibly negative) bounds. -/
def pySliceAxis [Inhabited α] (axis : Nat) (lo hi : Int) (a : NDArr α) : NDArr α :=
  let p := pySlice (a.shape.getD axis 0) lo hi
  sliceAxis axis p.1 p.2 a

/-- Integer-array indexing along one axis: `numpy.take(a, idxs, axis)`. -/
def takeAxis [Inhabited α] (axis : Nat) (idxs : List Nat) (a : NDArr α) : NDArr α :=
  ofFn (a.shape.set axis idxs.length) fun i =>
    a.get (i.set axis (idxs.getD (i.getD axis 0) 0))

/-- `a[j]`: the `j`-th sub-array along the first axis (one step of `for x in a`). -/
def row [Inhabited α] (a : NDArr α) (j : Nat) : NDArr α :=
  ofFn a.shape.tail fun i => a.get (j :: i)

/-- `list(a)`: all sub-arrays along the first axis. -/
def rows [Inhabited α] (a : NDArr α) : List (NDArr α) :=
  (List.range (a.shape.headD 0)).map a.row

/-- `numpy.stack(xs)` (new first axis) of arrays of common shape `s`. -/
def stack [Inhabited α] (s : List Nat) (xs : List (NDArr α)) : NDArr α :=
  ofFn (xs.length :: s) fun i =>
    match i with
    | [] => default
    | j :: is => (xs.getD j default).get is

/-- `a[None]` / `a.reshape((1,)*n + a.shape)`: add `n` leading axes of extent 1. -/
def addLeading (n : Nat) (a : NDArr α) : NDArr α := a.reshape (List.replicate n 1 ++ a.shape)

/-- Elementwise map (used by callers that post-process values; keeps the shape). -/
def map {β : Type} (f : α → β) (a : NDArr α) : NDArr β := ⟨a.shape, a.data.map f⟩

/-- Left fold of `concat axis` over a non-empty list (what a loop of `append` produces). -/
def concatList [Inhabited α] (axis : Nat) : List (NDArr α) → Option (NDArr α)
  | [] => none
  | x :: xs => some (xs.foldl (concat axis) x)

end NDArr
end GinjaxVerif.ND

/-! ## executable sanity checks (numpy's answers, evaluated when this file is compiled) -/
section Tests
open GinjaxVerif.ND GinjaxVerif.ND.NDArr

private def t23 : NDArr Nat := ⟨[2, 3], #[0, 1, 2, 3, 4, 5]⟩
private def t234 : NDArr Nat := ofFn [2, 3, 4] fun i => ravel [2, 3, 4] i

#guard ravel [2, 3, 4] [1, 2, 3] == 23
#guard unravel [2, 3, 4] 23 == [1, 2, 3]
#guard moveList 0 2 [10, 11, 12, 13] == [11, 12, 10, 13]
#guard moveList 2 0 [11, 12, 10, 13] == [10, 11, 12, 13]
-- np.moveaxis(np.arange(6).reshape(2,3), 0, 1).ravel() = [0 3 1 4 2 5]
#guard (t23.moveaxis 0 1).data == #[0, 3, 1, 4, 2, 5]
#guard (t23.moveaxis 0 1).shape == [3, 2]
-- np.moveaxis(np.arange(24).reshape(2,3,4), 0, 2)[1,2,1] = 18 ; shape (3,4,2)
#guard (t234.moveaxis 0 2).shape == [3, 4, 2]
#guard (t234.moveaxis 0 2).get [1, 2, 1] == 18
#guard (concat 1 t23 t23).data == #[0, 1, 2, 0, 1, 2, 3, 4, 5, 3, 4, 5]
#guard (concat 0 t23 t23).shape == [4, 3]
#guard (sliceAxis 1 1 3 t23).data == #[1, 2, 4, 5]
#guard (pySliceAxis 1 0 (-1) t23).data == #[0, 1, 3, 4]
#guard (pySliceAxis 1 (-1) 3 t23).data == #[2, 5]
#guard (takeAxis 1 [2, 0] t23).data == #[2, 0, 5, 3]
#guard (t23.rows.map (·.data)) == [#[0, 1, 2], #[3, 4, 5]]
#guard stack [3] t23.rows == t23
#guard (t234.reshapeInfer [2] [2]).shape == [2, 6, 2]
#guard normAxis 5 (-2) == 3
#guard pySlice 5 (-2) 5 == (3, 5)
#guard pySlice 5 0 (-2) == (0, 3)
end Tests
