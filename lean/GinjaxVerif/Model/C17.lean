import GinjaxVerif.Model.C15
/-!
# C17 — mini-batching: model of `ginjax/ml/training.py: get_batches` and of
`MultiImage.get_subset`, `MultiImage.reshape_pmap`, `MultiImage.get_L`.

Core Lean only (no Mathlib): this file is compiled into the correspondence driver.  It reuses the
little-numpy and association-list definitions of `Model/C15.lean` (`allSome`, `gather`, `MI`,
`lookup`, `getL`).

Only the leading (sample) axis is touched, so a block is a `List α` of opaque samples.
`jax.random.permutation(key, L)` is modelled as *some* list `π` handed to the model; the theorems
assume only that it is a permutation of `range L`.  `none` = the code raises.
-/
namespace GinjaxVerif.C17
open GinjaxVerif.C15 (allSome gather MI lookup getL)

variable {α κ : Type}

/-- `MultiImage.get_subset(idxs)`: `block[idxs]` for every type with the very same index array.
(jax clamps out-of-range indices; the model refuses them — they never occur when every block has
the extent `L` the permutation was drawn for.) -/
def getSubset (idxs : List Nat) (m : MI κ (List α)) : Option (MI κ (List α)) :=
  allSome (m.map (fun kb => (gather kb.2 idxs).map (fun b => (kb.1, b))))

/-- `block.reshape((a, b) + block.shape[1:])`: `a` rows of `b` consecutive samples -/
def rows (a b : Nat) (l : List α) : List (List α) :=
  (List.range a).map (fun d => (l.drop (d * b)).take b)

def reshape2 (a b : Nat) (l : List α) : Option (List (List α)) :=
  if l.length = a * b then some (rows a b l) else none

/-- `MultiImage.reshape_pmap(devices)` (axis 0); only `len(devices)` is used.  The `assert`
(`get_L() % num_devices == 0`), the `ZeroDivisionError` for an empty device list and a failing
`reshape` are the rejections. -/
def reshapePmap (nd : Nat) (m : MI κ (List α)) : Option (MI κ (List (List α))) :=
  let L := getL m
  if nd = 0 then none else
  if L % nd ≠ 0 then none else
  allSome (m.map (fun kb => (reshape2 nd (L / nd) kb.2).map (fun b => (kb.1, b))))

/-- `batch_indices`: `jnp.arange(L)` without a key, otherwise what `random.permutation` returned -/
def batchIndices (perm : Option (List Nat)) (L : Nat) : List Nat :=
  match perm with
  | none => List.range L
  | some π => π

/-- `get_batches(multi_images, batch_size, rand_key, devices)`: result `[j][i]` = batch `i` of
multi-image `j`.  `perm` is `none` for `rand_key=None`. -/
def getBatches (perm : Option (List Nat)) (B nd : Nat) (mis : List (MI κ (List α))) :
    Option (List (List (MI κ (List (List α))))) :=
  match mis with
  | [] => none                              -- `multi_images[0]` raises
  | m0 :: _ =>
    let L := getL m0
    if B = 0 then none else                 -- `L / batch_size` raises
    let π := batchIndices perm L
    allSome (mis.map (fun mi =>
      allSome ((List.range (L / B)).map (fun i =>
        -- idxs = batch_indices[i * B : (i + 1) * B]
        match getSubset ((π.drop (i * B)).take B) mi with
        | none => none
        | some sub => reshapePmap nd sub))))

/-! ## specification helpers -/

/-- a multi-image whose blocks all have `L` samples, given by its types: key and sample function -/
def mkMI (L : Nat) (sig : List (κ × (Nat → α))) : MI κ (List α) :=
  sig.map (fun e => (e.1, (List.range L).map e.2))

/-- the index slice of batch `i` -/
def batchIdxs (π : List Nat) (B i : Nat) : List Nat := (π.drop (i * B)).take B

end GinjaxVerif.C17
