import GinjaxVerif.Model.Layer
import GinjaxVerif.Model.C08
/-!
# C07 — equivariant networks end to end: `ginjax/models.py` in equivariant mode
(`handle_activation`, `make_conv`, `ConvBlock`, `UNet`, `DilResNet`, `ResNet`) on top of
`ginjax/ml/layers.py` (`ConvContract`, `LayerNorm`, `VectorNeuronNonlinear`, `MaxNormPool`) and
`ginjax/geometric/multi_image.py` (`concat`, `__add__`, `copy`).

Core Lean only (compiled into the correspondence driver).

* `Net`   the syntax of a forward pass: a tree of layer objects.  Every learnable value (convolution
          weights and biases, normalisation scales and biases, vector-neuron mixing weights) is a
          field of a node, an arbitrary function; the filter banks are fields of the convolution
          nodes.
* `eval`  the forward pass on multi-images with values; `none` exactly where the code raises
          (undeclared block type, wrong channel count, `k > 1` in the normalisation, even filter with
          string padding, mismatching operands of `+` / `concat`).
* `mkConvBlock`, `mkResNet`, `mkDilResNet`, `mkUNet`: the constructors' wiring and channel
          arithmetic, every learnable value taken from an arbitrary parameter family `θ`.
* `outDims`, `outShape`, `trace`: the same forward pass at the level of extents / signatures; `trace`
          is the layer plan the correspondence check diffs against the real forward pass.

The nonlinear scalar functions (activation, `sqrt`, `abs`, reciprocal square root, `max(0,·)`) and the
symmetric matrix function standing for `eigh` are the parameter `F : Fns R d` of `eval`.

The linear layer is `Layer.layerV` (C11/C06), the blockwise layers are those of `Model/C08.lean`
(C08); `toBlk` / `ofBlk` convert between the two block types.
-/
namespace GinjaxVerif.C07

open GinjaxVerif GinjaxVerif.C20 GinjaxVerif.Layer

/-! ### multi-images with their flags -/

/-- a `MultiImage`: blocks by `(k, parity)` in dict order, the spatial extents shared by all blocks,
`is_torus` -/
structure MI (R : Type) (d : Nat) where
  blocks : MImg R d
  dims : Fin d → Nat
  torus : Fin d → Bool

/-- a block of declared type `t` as a block of `Model/C08.lean` -/
def toBlk {R : Type} {d : Nat} (t : Ty) (b : Block R d) : Blk R d :=
  { C := b.chans, dims := b.dims, k := t.1, val := b.val }

def ofBlk {R : Type} {d : Nat} (B : Blk R d) : Block R d :=
  { chans := B.C, dims := B.dims, val := B.val }

/-- the nonlinear functions of the forward pass (parameters of the model, never axioms) -/
structure Fns (R : Type) (d : Nat) where
  /-- the scalar activation (`relu`, `gelu`, `tanh`, …) -/
  act : R → R
  sqrtF : R → R
  absF : R → R
  /-- `jax.lax.rsqrt` of `eqx.nn.GroupNorm` -/
  rsqrt : R → R
  /-- `jnp.maximum(0, ·)` applied to the variance -/
  max0 : R → R
  /-- `C ↦ U diag((λ)^{-1/2}) Uᵀ` computed through `jnp.linalg.eigh` (`eps` is added before) -/
  S : RMat R d → RMat R d

/-! ### layer objects -/

/-- `ml.ConvContract(input_keys, target_keys, invariant_filters, use_bias, stride, padding,
lhs_dilation, rhs_dilation)`; stride and dilations are the same on every axis in the models, the
filters of a bank are `M^D` -/
structure ConvSpec (R : Type) (d : Nat) where
  declared : Sig
  target : Sig
  bank : MImg R d
  M : Nat
  weights : Ty → Ty → Nat → Nat → Nat → R
  bias : Ty → Nat → R
  mode : BiasMode
  pad : PadMode
  stride : Nat := 1
  rd : Nat := 1
  ld : Nat := 1

/-- `ml.LayerNorm(input_keys, D, eps)` = `GroupNorm` with one group.  `scale t`, `bias t`: for
`t = (0,0)` weight and bias of `eqx.nn.GroupNorm`; for `(0,1)` the scale (no bias, D4); for `(1,p)` scale
and the factor of the mean vector -/
structure NormSpec (R : Type) where
  declared : Sig
  eps : R
  scale : Ty → Nat → R
  bias : Ty → Nat → R

/-- `ml.VectorNeuronNonlinear(input_keys, D, scalar_activation, eps)` -/
structure VNSpec (R : Type) where
  declared : Sig
  eps : R
  W : Ty → Nat → Nat → R

/-- **the syntax of a forward pass** -/
inductive Net (R : Type) (d : Nat) where
  | identity : Net R d
  | convContract (c : ConvSpec R d) : Net R d
  | layerNorm (n : NormSpec R) : Net R d
  | vnNonlinear (v : VNSpec R) : Net R d
  | maxNormPool (P : Nat) : Net R d
  /-- `b(a(x))` -/
  | seq (a b : Net R d) : Net R d
  /-- `residual_x = x.copy(); …body…; x = x + residual_x` -/
  | residual (body : Net R d) : Net R d
  /-- one U-Net level: keep `x`, `down` (pool), `body`, `up` (up-convolution), `up_x.concat(x)` -/
  | skipConcat (down body up : Net R d) : Net R d

/-! ### evaluation -/

section Eval
variable {R : Type} {d : Nat}

/-- `Fin d → α` compared entry by entry -/
def sameFn {α : Type} [BEq α] (a b : Fin d → α) : Bool := (List.finRange d).all (fun j => a j == b j)

/-- the `Layer.Params` of the call: the dispatched options and the factor of the spatial mean -/
def ConvSpec.toParams (c : ConvSpec R d) (ax : Fin d → AxisOpt) (mu : R) : Params R d :=
  { target := c.target, bank := c.bank, weights := c.weights, bias := c.bias, mode := c.mode,
    ax := ax, mu := mu }

/-- the padding dispatch of the call on an input with extents `dims` and flags `torus` -/
def ConvSpec.dispatch (c : ConvSpec R d) (torus : Fin d → Bool) (dims : Fin d → Nat) :
    Option (Fin d → AxisOpt) :=
  GinjaxVerif.dispatch c.pad torus dims (fun _ => c.M) (fun _ => c.stride) (fun _ => c.rd)
    (fun _ => c.ld)

variable [Zero R] [One R] [Add R] [Mul R] [Sub R] [Div R] [NatCast R]

/-- **`ConvContract.__call__`**: padding dispatch on the input's own extents and flags, then
`Layer.layerV`; `jnp.mean` over the output box is `1/|box| · Σ` -/
def evalConv (c : ConvSpec R d) (x : MI R d) : Option (MI R d) :=
  match c.dispatch x.torus x.dims with
  | none => none
  | some ax =>
    let P := c.toParams ax (1 / ((boxCount (fun j => (ax j).outLen) : Nat) : R))
    if accepts P c.declared x.blocks then
      some { blocks := layerV P x.blocks, dims := fun j => (ax j).outLen, torus := x.torus }
    else none

/-- one block of `GroupNorm.__call__` with a single group -/
def normBlock (F : Fns R d) (n : NormSpec R) (t : Ty) (b : Block R d) : Block R d :=
  if t = (0, 0) then
    ofBlk (groupNormScalar F.rsqrt F.max0 n.eps 1 (n.scale t) (n.bias t) (toBlk t b))
  else if t.1 = 0 then
    ofBlk (groupNormPseudo F.rsqrt F.max0 n.eps 1 (n.scale t) (toBlk t b))
  else
    ofBlk (groupNormVector F.S n.eps 1 (n.scale t) (n.bias t) (toBlk t b))

/-- **`LayerNorm.__call__`**: the constructor raises for a declared `k > 1`; the call looks the
parameters up by key (built for the declared channel count) -/
def evalNorm (F : Fns R d) (n : NormSpec R) (x : MI R d) : Option (MI R d) :=
  if groupNormAccepts n.declared && (sigOf x.blocks).all (fun b => n.declared.contains b) then
    some { x with blocks := x.blocks.map (fun e => (e.1, normBlock F n e.1 e.2)) }
  else none

/-- one block of `VectorNeuronNonlinear.__call__` -/
def vnBlock (F : Fns R d) (v : VNSpec R) (t : Ty) (b : Block R d) : Block R d :=
  if t = (0, 0) then ofBlk (vnScalar F.act (toBlk t b))
  else ofBlk (vnNonlinear F.sqrtF F.absF F.act v.eps (v.W t) (toBlk t b))

/-- **`VectorNeuronNonlinear.__call__`**: scalars go through the activation, every other block needs
its `(in_c, in_c)` mixing matrix -/
def evalVN (F : Fns R d) (v : VNSpec R) (x : MI R d) : Option (MI R d) :=
  if (sigOf x.blocks).all (fun b => b.1 == (0, 0) || v.declared.contains b) then
    some { x with blocks := x.blocks.map (fun e => (e.1, vnBlock F v e.1 e.2)) }
  else none

/-- **`MaxNormPool(P, use_norm=True).__call__`** -/
def evalPool [LT R] [DecidableLT R] (P : Nat) (x : MI R d) : MI R d :=
  { blocks := x.blocks.map (fun e => (e.1, ofBlk (maxPool P (toBlk e.1 e.2))))
    dims := fun j => x.dims j / P
    torus := x.torus }

/-- `image_block + other[(k, parity)]` -/
def sumBlock (a b : Block R d) : Block R d :=
  { chans := a.chans, dims := a.dims, val := fun c y T => a.val c y T + b.val c y T }

/-- the block of `b` paired with entry `e` of `a` exists and has the same shape -/
def addOk (b : MImg R d) (e : Ty × Block R d) : Bool :=
  match lookup b e.1 with
  | some v => v.chans == e.2.chans && sameFn v.dims e.2.dims
  | none => false

/-- `out.append(k, parity, image_block + other[(k, parity)])` -/
def addEntry (b : MImg R d) (e : Ty × Block R d) : Ty × Block R d :=
  (e.1, match lookup b e.1 with
        | some v => sumBlock e.2 v
        | none => e.2)

/-- **`a + b`** (repaired, D7): same flags, same key sets, blocks paired by key, result in the order
of `a`.  The model is restricted to operands whose paired blocks have equal shapes (no broadcasting). -/
def addMI (a b : MI R d) : Option (MI R d) :=
  if sameFn a.torus b.torus && a.blocks.all (addOk b.blocks)
      && (sigOf b.blocks).all (fun s => (keysOf (sigOf a.blocks)).contains s.1) then
    some { a with blocks := a.blocks.map (addEntry b.blocks) }
  else none

/-- `jnp.concatenate((old, new), axis=0)` -/
def catBlock (old new : Block R d) : Block R d :=
  { chans := old.chans + new.chans, dims := old.dims
    val := fun c y T => if c < old.chans then old.val c y T else new.val (c - old.chans) y T }

/-- `MultiImage.append(k, parity, block)`: concatenate along the channel axis onto an existing
block (which keeps its position), or add the new key at the end -/
def appendMI : MImg R d → Ty → Block R d → MImg R d
  | [], t, b => [(t, b)]
  | (k, v) :: r, t, b => if k = t then (k, catBlock v b) :: r else (k, v) :: appendMI r t b

/-- **`a.concat(b)`** on the channel axis: `out = a.copy(); for key, block in b.items(): out.append(…)` -/
def concatMI (a b : MI R d) : Option (MI R d) :=
  if sameFn a.torus b.torus && sameFn a.dims b.dims then
    some { a with blocks := b.blocks.foldl (fun acc e => appendMI acc e.1 e.2) a.blocks }
  else none

variable [LT R] [DecidableLT R]

/-- **the forward pass** -/
def eval (F : Fns R d) : Net R d → MI R d → Option (MI R d)
  | .identity, x => some x
  | .convContract c, x => evalConv c x
  | .layerNorm n, x => evalNorm F n x
  | .vnNonlinear v, x => evalVN F v x
  | .maxNormPool P, x => some (evalPool P x)
  | .seq a b, x => (eval F a x).bind (eval F b)
  | .residual body, x => (eval F body x).bind (fun y => addMI y x)
  | .skipConcat dn body up, x =>
    (((eval F dn x).bind (eval F body)).bind (eval F up)).bind (fun u => concatMI u x)

end Eval

/-! ### the forward pass at the level of extents -/

/-- extents of the output (the flags never change) -/
def outDims {R : Type} {d : Nat} (torus : Fin d → Bool) : Net R d → (Fin d → Nat) → Option (Fin d → Nat)
  | .identity, N => some N
  | .convContract c, N => (c.dispatch torus N).map (fun ax j => (ax j).outLen)
  | .layerNorm _, N => some N
  | .vnNonlinear _, N => some N
  | .maxNormPool P, N => some (fun j => N j / P)
  | .seq a b, N => (outDims torus a N).bind (outDims torus b)
  | .residual body, N => outDims torus body N
  | .skipConcat dn body up, N =>
    ((outDims torus dn N).bind (outDims torus body)).bind (outDims torus up)

/-! ### builders: the constructors of `models.py` in equivariant mode -/

/-- every learnable array of a model, addressed by the position of its layer object in the module
tree (`[0, j]`: j-th embedding / encoder block, …); all values arbitrary -/
structure ParamFam (R : Type) where
  convW : List Nat → Ty → Ty → Nat → Nat → Nat → R
  convB : List Nat → Ty → Nat → R
  normScale : List Nat → Ty → Nat → R
  normBias : List Nat → Ty → Nat → R
  vnW : List Nat → Ty → Nat → Nat → R

/-- the arguments of `ConvBlock(...)` / `make_conv(...)` in equivariant mode -/
structure BlockArgs (R : Type) (d : Nat) where
  inKeys : Sig
  outKeys : Sig
  bias : BiasMode
  /-- `activation_f is not None` -/
  act : Bool
  bank : MImg R d
  M : Nat
  groupNorm : Bool := false
  preact : Bool := false
  pad : PadMode := .none
  rd : Nat := 1
  ld : Nat := 1
  epsNorm : R
  epsVN : R

section Build
variable {R : Type} {d : Nat}

/-- `make_conv(..., equivariant=True)` = `ml.ConvContract(input_keys, target_keys, filters, use_bias,
stride, padding, lhs_dilation, rhs_dilation)` -/
def mkConv (θ : ParamFam R) (id : List Nat) (a : BlockArgs R d) : Net R d :=
  .convContract
    { declared := a.inKeys, target := a.outKeys, bank := a.bank, M := a.M, weights := θ.convW id,
      bias := θ.convB id, mode := a.bias, pad := a.pad, stride := 1, rd := a.rd, ld := a.ld }

/-- `ml.LayerNorm(output_keys, D)` when `use_group_norm` (the layer is absent otherwise) -/
def mkNorm (θ : ParamFam R) (id : List Nat) (a : BlockArgs R d) : Net R d :=
  if a.groupNorm then
    .layerNorm { declared := a.outKeys, eps := a.epsNorm, scale := θ.normScale id, bias := θ.normBias id }
  else .identity

/-- `handle_activation(activation_f, True, output_keys, D, key)`: `VectorNeuronNonlinear`, or
`lambda x: x` when `activation_f is None` -/
def mkNonlin (θ : ParamFam R) (id : List Nat) (a : BlockArgs R d) : Net R d :=
  if a.act then .vnNonlinear { declared := a.outKeys, eps := a.epsVN, W := θ.vnW id } else .identity

/-- **`ConvBlock`**: conv → norm → nonlinearity, or norm → nonlinearity → conv in pre-activation
order -/
def mkConvBlock (θ : ParamFam R) (id : List Nat) (a : BlockArgs R d) : Net R d :=
  if a.preact then .seq (mkNorm θ id a) (.seq (mkNonlin θ id a) (mkConv θ id a))
  else .seq (mkConv θ id a) (.seq (mkNorm θ id a) (mkNonlin θ id a))

/-- `for layer in layers: x = layer(x)` -/
def chain : List (Net R d) → Net R d
  | [] => .identity
  | n :: ns => .seq n (chain ns)

/-- constructor arguments of `UNet` / `ResNet` / `DilResNet` in equivariant mode; `mid` is `mid_keys`
as resolved by the constructor (`signature_union(input_keys, output_keys, depth)`, whose order is that
of a Python set: the harness reads it off the built model) -/
structure NetArgs (R : Type) (d : Nat) where
  inSig : Sig
  outSig : Sig
  mid : Sig
  depth : Nat
  bias : BiasMode
  act : Bool
  groupNorm : Bool
  bank : MImg R d
  M : Nat := 3
  /-- UNet: `upsample_filters` (side 2), `num_downsamples`, `num_conv` -/
  upBank : MImg R d := []
  upM : Nat := 2
  numDown : Nat := 0
  numConv : Nat := 2
  /-- ResNet / DilResNet: `num_blocks`; ResNet: `preactivation_order` -/
  numBlocks : Nat := 0
  preact : Bool := false
  epsNorm : R
  epsVN : R

/-- a `ConvBlock` with the network-wide settings -/
def NetArgs.block (c : NetArgs R d) (inK outK : Sig) (act groupNorm preact : Bool) (rd : Nat := 1) :
    BlockArgs R d :=
  { inKeys := inK, outKeys := outK, bias := c.bias, act := act, bank := c.bank, M := c.M,
    groupNorm := groupNorm, preact := preact, pad := .none, rd := rd, ld := 1,
    epsNorm := c.epsNorm, epsVN := c.epsVN }

/-- encoder of `ResNet` / `DilResNet`: two blocks without group norm -/
def encoder (θ : ParamFam R) (c : NetArgs R d) : List (Net R d) :=
  [mkConvBlock θ [0, 0] (c.block c.inSig c.mid c.act false false),
   mkConvBlock θ [0, 1] (c.block c.mid c.mid c.act false false)]

/-- decoder of `ResNet` / `DilResNet`: the last block has no activation and emits `output_keys` -/
def decoder (θ : ParamFam R) (c : NetArgs R d) : List (Net R d) :=
  [mkConvBlock θ [2, 0] (c.block c.mid c.mid c.act false false),
   mkConvBlock θ [2, 1] (c.block c.mid c.outSig false false false)]

/-- **`ResNet`**: encoder, `num_blocks` residual stages of `num_conv` blocks (group norm and
pre-activation order as configured), decoder -/
def mkResNet (θ : ParamFam R) (c : NetArgs R d) : Net R d :=
  chain (encoder θ c ++
    (List.range c.numBlocks).map (fun b =>
      .residual (chain ((List.range c.numConv).map (fun j =>
        mkConvBlock θ [1, b, j] (c.block c.mid c.mid c.act c.groupNorm c.preact))))) ++
    decoder θ c)

/-- dilation schedule of one `DilResNet` stage -/
def dilations : List Nat := [1, 2, 4, 8, 4, 2, 1]

/-- **`DilResNet`**: encoder, `num_blocks` residual stages of seven blocks with filter dilations
`1,2,4,8,4,2,1`, decoder -/
def mkDilResNet (θ : ParamFam R) (c : NetArgs R d) : Net R d :=
  chain (encoder θ c ++
    (List.range c.numBlocks).map (fun b =>
      .residual (chain (dilations.zipIdx.map (fun (rd, j) =>
        mkConvBlock θ [1, b, j] (c.block c.mid c.mid c.act c.groupNorm false rd))))) ++
    decoder θ c)

/-- `tuple((k_p, c) for k_p, _ in mid_keys)` -/
def midAt (mid : Sig) (ch : Nat) : Sig := mid.map (fun b => (b.1, ch))

/-- `num_conv` blocks `inK → outK, outK → outK, …` of one U-Net level -/
def levelBlocks (θ : ParamFam R) (c : NetArgs R d) (id : List Nat) (inK outK : Sig) : List (Net R d) :=
  (List.range c.numConv).map (fun j =>
    mkConvBlock θ (id ++ [j]) (c.block (if j = 0 then inK else outK) outK c.act c.groupNorm false))

/-- the up-convolution out of level `u + 1`: `ConvContract` with `upsample_filters`, padding
`((1,1),)*D`, stride 1, `lhs_dilation = (2,)*D`, channels `depth·2^(u+1) → depth·2^u` -/
def upConv (θ : ParamFam R) (c : NetArgs R d) (u : Nat) : Net R d :=
  mkConv θ [2, u]
    { inKeys := midAt c.mid (c.depth * 2 ^ (u + 1)), outKeys := midAt c.mid (c.depth * 2 ^ u),
      bias := c.bias, act := false, bank := c.upBank, M := c.upM,
      pad := .explicit (List.replicate d (1, 1)), rd := 1, ld := 2,
      epsNorm := c.epsNorm, epsVN := c.epsVN }

/-- levels `l, l+1, …, l+n-1` of the U-Net (`l ≥ 1`): keep `x`, `MaxNormPool(2)`, the blocks of level
`l` (`depth·2^(l-1) → depth·2^l`), the deeper levels, the up-convolution (`depth·2^l → depth·2^(l-1)`),
`concat` with the kept `x` (channels doubled again), the blocks `depth·2^l → depth·2^(l-1)` -/
def levelNet (θ : ParamFam R) (c : NetArgs R d) : Nat → Nat → Net R d
  | 0, _ => .identity
  | n + 1, l =>
    .seq
      (.skipConcat (.maxNormPool 2)
        (.seq (chain (levelBlocks θ c [1, l] (midAt c.mid (c.depth * 2 ^ (l - 1)))
            (midAt c.mid (c.depth * 2 ^ l))))
          (levelNet θ c n (l + 1)))
        (upConv θ c (l - 1)))
      (chain (levelBlocks θ c [3, l - 1] (midAt c.mid (c.depth * 2 ^ l))
        (midAt c.mid (c.depth * 2 ^ (l - 1)))))

/-- **`UNet`**: embedding (`input_keys → mid_keys → …`), the levels, `decode` (a bare
`ConvContract mid_keys → output_keys`) -/
def mkUNet (θ : ParamFam R) (c : NetArgs R d) : Net R d :=
  .seq (chain (levelBlocks θ c [0] c.inSig c.mid))
    (.seq (levelNet θ c c.numDown 1)
      (mkConv θ [4] (c.block c.mid c.outSig false false false)))

end Build

/-! ### the layer plan (signature level) printed for the structural correspondence -/

/-- signature, extents, flags of a multi-image -/
structure Shape (d : Nat) where
  sig : Sig
  dims : Fin d → Nat
  torus : Fin d → Bool

/-- one layer application / event of a forward pass -/
inductive Event (d : Nat) where
  | conv (inSig outSig : Sig) (dimsIn dimsOut : Fin d → Nat) (pad : PadMode) (stride ld rd M : Nat)
      (bias : BiasMode)
  | norm (sig : Sig) (dims : Fin d → Nat)
  | vn (sig : Sig) (dims : Fin d → Nat)
  | pool (P : Nat) (sig : Sig) (dimsIn dimsOut : Fin d → Nat)
  | add (sig : Sig) (dims : Fin d → Nat)
  | concat (a b out : Sig) (dims : Fin d → Nat)

/-- `bankSig` of a convolution node -/
def ConvSpec.bankSig {R : Type} {d : Nat} (c : ConvSpec R d) : C20.Bank := ⟨c.bank.map Prod.fst, c.M⟩

/-- the forward pass on shapes, with the events in execution order; `none` where `eval` is `none` for
a reason visible at this level -/
def trace {R : Type} {d : Nat} : Net R d → Shape d → Option (List (Event d) × Shape d)
  | .identity, s => some ([], s)
  | .convContract c, s =>
    match c.dispatch s.torus s.dims with
    | none => none
    | some ax =>
      if s.sig.all (blockOk c.bankSig c.declared c.target) then
        let out := convContractOut c.bankSig s.sig c.target
        let od : Fin d → Nat := fun j => (ax j).outLen
        some ([.conv s.sig out s.dims od c.pad c.stride c.ld c.rd c.M c.mode],
          { s with sig := out, dims := od })
      else none
  | .layerNorm n, s =>
    if groupNormAccepts n.declared && s.sig.all (fun b => n.declared.contains b) then
      some ([.norm s.sig s.dims], s)
    else none
  | .vnNonlinear v, s =>
    if s.sig.all (fun b => b.1 == (0, 0) || v.declared.contains b) then some ([.vn s.sig s.dims], s)
    else none
  | .maxNormPool P, s =>
    let od : Fin d → Nat := fun j => s.dims j / P
    some ([.pool P s.sig s.dims od], { s with dims := od })
  | .seq a b, s =>
    match trace a s with
    | none => none
    | some (ea, sa) =>
      match trace b sa with
      | none => none
      | some (eb, sb) => some (ea ++ eb, sb)
  | .residual body, s =>
    match trace body s with
    | none => none
    | some (eb, sb) =>
      if sameFn sb.dims s.dims && sb.sig.all (fun x => s.sig.contains x)
          && s.sig.all (fun x => sb.sig.contains x) then
        some (eb ++ [.add sb.sig sb.dims], sb)
      else none
  | .skipConcat dn body up, s =>
    match trace dn s with
    | none => none
    | some (e1, s1) =>
      match trace body s1 with
      | none => none
      | some (e2, s2) =>
        match trace up s2 with
        | none => none
        | some (e3, s3) =>
          if sameFn s3.dims s.dims then
            let out := C20.concatSig s3.sig s.sig
            some (e1 ++ e2 ++ e3 ++ [.concat s3.sig s.sig out s3.dims], { s3 with sig := out })
          else none

end GinjaxVerif.C07
