/-!
# C09 — training cannot break equivariance: model of `ginjax/ml/training.py: train_step, train`
as seen by an equivariant model (`ginjax/ml/layers.py: ConvContract.invariant_filters`).

Core Lean only (no Mathlib): this file is compiled into the correspondence driver.

A trainable model is split the way the property needs it:

* `plan`   – everything equinox keeps static (tree structure, signatures, convolution options,
             the layer wiring); `eqx.apply_updates` cannot touch it;
* `params` – all learnable array leaves that are differentiated (convolution weights, biases,
             normalisation scales/biases, vector-neuron mixing weights), as one value of an
             arbitrary type `P`;
* `bank`   – the array leaves of every `invariant_filters` MultiImage.  They *are* array leaves
             (so the optimiser sees them) but are used under `jax.lax.stop_gradient`, so their
             gradient is zero.

One optimiser step is modelled by its *shape*, not by autodiff/optax (those are trusted, see
DESIGN.md §4): the parameters become an ARBITRARY new value and every bank leaf is multiplied by
one common scalar `c` (sgd, adam: `c = 1`; decoupled weight decay: `c = 1 - lr·wd`).
-/
namespace GinjaxVerif.C09

/-- a model as training sees it -/
structure Model (Plan P B : Type) where
  plan : Plan
  params : P
  bank : List B

/-- what one call of `train_step` may do: any new parameter value, one factor for the bank -/
structure Update (P S : Type) where
  params : P
  c : S

variable {Plan P B S : Type}

/-- `train_step`: `model = eqx.apply_updates(model, updates)` -/
def trainStep [SMul S B] (m : Model Plan P B) (u : Update P S) : Model Plan P B :=
  { plan := m.plan, params := u.params, bank := m.bank.map (fun b => u.c • b) }

/-- the step loop of `train` (all mini-batches of all epochs, in order) -/
def train [SMul S B] (m : Model Plan P B) (us : List (Update P S)) : Model Plan P B :=
  us.foldl trainStep m

/-- every model the loop ever holds: the initial one and the one after each step -/
def history [SMul S B] : Model Plan P B → List (Update P S) → List (Model Plan P B)
  | m, [] => [m]
  | m, u :: us => m :: history (trainStep m u) us

/-- `train` returns `stop_condition.best_model`: whichever model of the history the stopping
condition kept (`choose` is the condition's choice, an arbitrary function of the history; an
out-of-range answer falls back to the last model). -/
def trainReturn [SMul S B] (choose : List (Model Plan P B) → Nat) (m : Model Plan P B)
    (us : List (Update P S)) : Model Plan P B :=
  (history m us).getD (choose (history m us)) (train m us)

/-- product of the per-step bank factors (last step outermost) -/
def totalFactor [Mul S] [OfNat S 1] : List (Update P S) → S
  | [] => 1
  | u :: us => totalFactor us * u.c

/-! ### Concrete bank leaves for the driver: flat row-major arrays -/

/-- a filter-bank leaf: the row-major entries of one `(num_filters, spatial…, tensor…)` block -/
structure Leaf (R : Type) where
  data : List R
  deriving DecidableEq, Repr

instance {R : Type} [Mul R] : SMul R (Leaf R) := ⟨fun c l => ⟨l.data.map (fun x => c * x)⟩⟩

/-- all entries of a bank, leaf after leaf -/
def entries {R : Type} (b : List (Leaf R)) : List R := b.flatMap (fun l => l.data)

/-- quotient at the first non-zero entry of the first list -/
def firstRatio {R : Type} [Div R] [OfNat R 0] [DecidableEq R] : List R → List R → Option R
  | a :: as, b :: bs => if a = 0 then firstRatio as bs else some (b / a)
  | _, _ => none

/-- decide "`b1` is `b0` rescaled by one common non-zero factor" and return the factor
(`1` when `b0` vanishes identically) -/
def commonFactor {R : Type} [Mul R] [Div R] [OfNat R 0] [OfNat R 1] [DecidableEq R]
    (b0 b1 : List (Leaf R)) : Option R :=
  let c := (firstRatio (entries b0) (entries b1)).getD 1
  if c ≠ 0 ∧ b1 = b0.map (fun l => c • l) then some c else none

/-! ### D4 in miniature: an affine map on a pseudo-scalar

Under a reflection a pseudo-scalar value `x` becomes `-x`.  The legacy normalisation applied
`w·x̂ + b` to the normalised value, the repaired one `w·x̂`. -/

def pseudoAffineLegacy {R : Type} [Mul R] [Add R] (w b x : R) : R := w * x + b
def pseudoScale {R : Type} [Mul R] (w x : R) : R := w * x

end GinjaxVerif.C09
