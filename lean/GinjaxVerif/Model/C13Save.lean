/-!
# C13 — `ml.save` / `ml.load` (equinox leaf serialisation), executable model

Anchors
* `/repo/src/ginjax/ml/training.py` l.20-30 `save` = `eqx.tree_serialise_leaves(f, model)`,
  l.33-45 `load` = `eqx.tree_deserialise_leaves(f, model)` (second argument = template, "like").
* `equinox/_serialisation.py` (0.13.x): `_ordered_tree_map` (flatten, map the leaves in flatten
  order = depth first, left to right, unflatten with the tree definition of the FIRST tree),
  `default_serialise_filter_spec`, `default_deserialise_filter_spec`, `_assert_same`.

What equinox really does (transcribed below):
* save: for every leaf in flatten order: `jax.Array`, `np.ndarray` and Python `bool/int/float`
  (`is_array_like`) are written with `np.save`/`jnp.save` (one `.npy` record = dtype, shape, data;
  a Python scalar becomes a 0-d record of dtype bool / int64 (uint64 from 2^63, object from 2^64 or
  below -2^63) / float64); every other leaf (functions, strings, …) writes NOTHING.  `None` is not
  a leaf at all in jax: it is an internal node without children.  The tree structure (field names,
  dict keys, static fields) is NOT written.
* load, phase 1 (`_ordered_tree_map(__deserialise, like)`): walk the leaves of the TEMPLATE in
  flatten order; a jax-array leaf reads the next record with `jnp.load` (which canonicalises 64-bit
  dtypes to 32 bit when x64 is disabled, the default and what ginjax uses), a numpy leaf with
  `np.load`, a Python scalar `x` with `type(x)(np.load(f).item())` — NO dtype/shape comparison for
  scalars, the value is converted to the template's Python type; every other leaf is kept from the
  template.  Reading past the end raises `EOFError`; records left over in the file are ignored.
* load, phase 2 (`_assert_same`, after ALL leaves were read): array leaves must have the shape and
  dtype of the template leaf.
* the result is unflattened with the TEMPLATE's tree definition.

Numbers: array data are integers — the value for bool/int dtypes, the IEEE bit pattern for float
dtypes (so "bit for bit" is literal).  Python floats are float64 bit patterns.  Complex numbers,
numpy scalar leaves (`np.generic`), `jax.ShapeDtypeStruct` templates and bfloat16 are not modelled
(the driver answers `unmodelled: …`; the harness never builds them).
-/
namespace GinjaxVerif.C13Save

/-- numpy dtypes that can occur in a record -/
inductive DType
  | bool | int8 | int16 | int32 | int64 | uint8 | uint16 | uint32 | uint64
  | float16 | float32 | float64 | object
  deriving DecidableEq, Repr, Inhabited

/-- which array class a leaf is: `jax.Array` or `numpy.ndarray` -/
inductive ArrKind | jax | np
  deriving DecidableEq, Repr, Inhabited

/-- a pytree leaf as jax sees it -/
inductive Leaf
  | arr (kind : ArrKind) (dtype : DType) (shape : List Nat) (data : List Int)
  | pyBool (b : Bool)
  | pyInt (n : Int)
  | pyFloat (bits : Nat)
  /-- any other Python object (activation function, string, …): an identity token -/
  | static (id : String)
  deriving DecidableEq, Repr, Inhabited

/-- a pytree: `None` is `node "None" []`; tags carry the node type with its aux data (field names,
dict keys, static fields) -/
inductive PT
  | leaf (a : Leaf)
  | node (tag : String) (children : List PT)
  deriving Repr, Inhabited

/-- the tree definition (`PyTreeDef`) -/
inductive Structure
  | leaf
  | node (tag : String) (children : List Structure)
  deriving Repr, Inhabited

/-- one `.npy` record of the file -/
structure Chunk where
  dtype : DType
  shape : List Nat
  data : List Int
  deriving DecidableEq, Repr, Inhabited

/-! ## flatten / unflatten -/

mutual
/-- leaves in flatten order (depth first, left to right) -/
def leaves : PT → List Leaf
  | .leaf a => [a]
  | .node _ ch => leavesL ch
def leavesL : List PT → List Leaf
  | [] => []
  | p :: ps => leaves p ++ leavesL ps
end

mutual
def struct : PT → Structure
  | .leaf _ => .leaf
  | .node tag ch => .node tag (structL ch)
def structL : List PT → List Structure
  | [] => []
  | p :: ps => struct p :: structL ps
end

/-- `jax.tree_util.tree_flatten` -/
def flatten (m : PT) : List Leaf × Structure := (leaves m, struct m)

mutual
/-- `treedef.unflatten(leaves)` with the tree definition of `t`: the leaves of `t` are replaced, in
flatten order, by the given ones; returns the unused rest (total: a missing leaf keeps the
template's, which never happens in `deserialise`, see `readLeaves_length`) -/
def fill : PT → List Leaf → PT × List Leaf
  | .leaf a, [] => (.leaf a, [])
  | .leaf _, l :: ls => (.leaf l, ls)
  | .node tag ch, ls => let r := fillL ch ls; (.node tag r.1, r.2)
def fillL : List PT → List Leaf → List PT × List Leaf
  | [], ls => ([], ls)
  | p :: ps, ls =>
    let r := fill p ls
    let r' := fillL ps r.2
    (r.1 :: r'.1, r'.2)
end

/-! ## save -/

/-- dtype numpy gives a Python int (`np.asarray(n)`) -/
def intDtype (n : Int) : DType :=
  if -(2 : Int) ^ 63 ≤ n ∧ n < (2 : Int) ^ 63 then .int64
  else if 0 ≤ n ∧ n < (2 : Int) ^ 64 then .uint64
  else .object

/-- `default_serialise_filter_spec`: the record written for a leaf, `none` = nothing written -/
def Leaf.chunk? : Leaf → Option Chunk
  | .arr _ dt sh d => some ⟨dt, sh, d⟩
  | .pyBool b => some ⟨.bool, [], [if b then 1 else 0]⟩
  | .pyInt n => some ⟨intDtype n, [], [n]⟩
  | .pyFloat bits => some ⟨.float64, [], [(bits : Int)]⟩
  | .static _ => none

/-- `tree_serialise_leaves` (`ml.save`): the records of the file, in flatten order -/
def serialise (m : PT) : List Chunk := (leaves m).filterMap Leaf.chunk?

/-! ## load -/

def wrapS32 (n : Int) : Int :=
  let r := n % (2 : Int) ^ 32
  if r ≥ (2 : Int) ^ 31 then r - (2 : Int) ^ 32 else r

def f64ToF32Bits (b : Int) : Int :=
  ((Float.ofBits (UInt64.ofNat b.toNat)).toFloat32.toBits.toNat : Int)

def f32ToF64Bits (b : Int) : Nat :=
  ((Float32.ofBits (UInt32.ofNat b.toNat)).toFloat.toBits.toNat)

/-- `jnp.load` = `np.load` then `jnp.asarray` with x64 disabled: 64-bit records are narrowed -/
def jnpLoad (c : Chunk) : Chunk :=
  match c.dtype with
  | .int64 => ⟨.int32, c.shape, c.data.map wrapS32⟩
  | .uint64 => ⟨.uint32, c.shape, c.data.map (· % (2 : Int) ^ 32)⟩
  | .float64 => ⟨.float32, c.shape, c.data.map f64ToF32Bits⟩
  | _ => c

/-- what `ndarray.item()` returns, by Python type -/
inductive Item
  | b (v : Bool)
  | i (v : Int)
  | f (bits : Nat)

/-- `np.load(f).item()`: needs exactly one element (any shape of size one) -/
def Chunk.item (c : Chunk) : Except String Item :=
  match c.data with
  | [v] =>
    match c.dtype with
    | .bool => pure (.b (v != 0))
    | .float64 => pure (.f v.toNat)
    | .float32 => pure (.f (f32ToF64Bits v))
    | .float16 => throw "unmodelled: float16 record read into a Python scalar"
    | .object => throw "reject: ValueError: object arrays cannot be loaded"
    | _ => pure (.i v)
  | _ => throw "reject: ValueError: can only convert an array of size 1 to a Python scalar"

/-- exact `int(x)` of a float64 bit pattern; `none` for nan / inf (Python raises) -/
def f64Trunc (bits : Nat) : Option Int :=
  let sign := bits / 2 ^ 63 % 2
  let e := bits / 2 ^ 52 % 2048
  let frac := bits % 2 ^ 52
  if e = 2047 then none
  else
    let mant := if e = 0 then frac else frac + 2 ^ 52
    let ex := if e = 0 then 1 else e
    -- value = mant * 2^(ex - 1075)
    let mag : Nat := if ex ≥ 1075 then mant * 2 ^ (ex - 1075) else mant / 2 ^ (1075 - ex)
    some (if sign = 1 then -(mag : Int) else (mag : Int))

def Item.toBool : Item → Bool
  | .b v => v
  | .i v => v != 0
  | .f bits => bits % 2 ^ 63 != 0

def Item.toInt : Item → Except String Int
  | .b v => pure (if v then 1 else 0)
  | .i v => pure v
  | .f bits =>
    match f64Trunc bits with
    | some n => pure n
    | none => throw "reject: ValueError/OverflowError: cannot convert float nan/inf to integer"

def Item.toFloat : Item → Nat
  | .b v => if v then (Float.ofNat 1).toBits.toNat else 0
  | .i v => (Float.ofInt v).toBits.toNat
  | .f bits => bits

/-- `default_deserialise_filter_spec` on one template leaf: new leaf and the rest of the file -/
def readLeaf (t : Leaf) (cs : List Chunk) : Except String (Leaf × List Chunk) :=
  match t with
  | .static s => pure (.static s, cs)
  | _ =>
    match cs with
    | [] => throw "reject: EOFError: no data left in file"
    | c :: rest =>
      if c.dtype = .object then throw "reject: ValueError: object arrays cannot be loaded"
      else
        match t with
        | .arr .jax _ _ _ => let c' := jnpLoad c; pure (.arr .jax c'.dtype c'.shape c'.data, rest)
        | .arr .np _ _ _ => pure (.arr .np c.dtype c.shape c.data, rest)
        | .pyBool _ => do let it ← c.item; pure (.pyBool it.toBool, rest)
        | .pyInt _ => do let it ← c.item; let n ← it.toInt; pure (.pyInt n, rest)
        | .pyFloat _ => do let it ← c.item; pure (.pyFloat it.toFloat, rest)
        | .static s => pure (.static s, c :: rest)

/-- phase 1: the template's leaves in flatten order, each taking the next record if it is of a
serialised kind -/
def readLeaves : List Leaf → List Chunk → Except String (List Leaf × List Chunk)
  | [], cs => pure ([], cs)
  | t :: ts, cs => do
    let r ← readLeaf t cs
    let r' ← readLeaves ts r.2
    pure (r.1 :: r'.1, r'.2)

/-- `_assert_same` on one (new, template) pair -/
def assertLeaf (new old : Leaf) : Except String Unit :=
  match new, old with
  | .arr k dt sh _, .arr k' dt' sh' _ =>
    if k ≠ k' then throw "reject: RuntimeError: changed type"
    else if sh ≠ sh' then throw "reject: RuntimeError: changed shape"
    else if dt ≠ dt' then throw "reject: RuntimeError: changed dtype"
    else pure ()
  | .pyBool _, .pyBool _ => pure ()
  | .pyInt _, .pyInt _ => pure ()
  | .pyFloat _, .pyFloat _ => pure ()
  | .static _, .static _ => pure ()
  | _, _ => throw "reject: RuntimeError: changed type"

/-- phase 2: `tree_map_with_path(_assert_same, out, like)` -/
def assertSame : List Leaf → List Leaf → Except String Unit
  | [], [] => pure ()
  | n :: ns, o :: os => do assertLeaf n o; assertSame ns os
  | _, _ => throw "reject: tree structure mismatch"

/-- both phases on the flattened template: the new leaves -/
def loadLeaves (ts : List Leaf) (cs : List Chunk) : Except String (List Leaf) := do
  let r ← readLeaves ts cs
  assertSame r.1 ts
  pure r.1

/-- `tree_deserialise_leaves` (`ml.load`): template `t`, file `cs`.  Records left over are ignored,
exactly like the real code. -/
def deserialise (cs : List Chunk) (t : PT) : Except String PT := do
  let new ← loadLeaves (leaves t) cs
  pure (fill t new).1

/-- `ml.load(file, t)` after `ml.save(file, m)` -/
def saveLoad (m t : PT) : Except String PT := deserialise (serialise m) t

/-! ## the hypotheses of the round trip, as decidable predicates -/

/-- a leaf that can exist and be written: jax arrays are never 64 bit (x64 disabled), no object
arrays, Python ints in the range numpy can store -/
def Leaf.wf : Leaf → Bool
  | .arr .jax dt _ _ => dt != .int64 && dt != .uint64 && dt != .float64 && dt != .object
  | .arr .np dt _ _ => dt != .object
  | .pyInt n => intDtype n != .object
  | _ => true

/-- same Python type (array class for arrays) -/
def Leaf.sameKind : Leaf → Leaf → Bool
  | .arr k _ _ _, .arr k' _ _ _ => k == k'
  | .pyBool _, .pyBool _ => true
  | .pyInt _, .pyInt _ => true
  | .pyFloat _, .pyFloat _ => true
  | .static _, .static _ => true
  | _, _ => false

/-- same Python type, and for arrays the same dtype and shape -/
def Leaf.compat : Leaf → Leaf → Bool
  | .arr k dt sh _, .arr k' dt' sh' _ => k == k' && dt == dt' && sh == sh'
  | a, b => a.sameKind b

/-- the leaf is written to the file -/
def Leaf.serialised (a : Leaf) : Bool := a.chunk?.isSome

/-- the leaf of the loaded tree: the saved one if it is serialised, else the template's -/
def Leaf.pick (saved template : Leaf) : Leaf :=
  match saved with
  | .static _ => template
  | _ => saved

/-- non-serialised leaves agree -/
def Leaf.staticEq (saved template : Leaf) : Bool :=
  match saved with
  | .static _ => saved == template
  | _ => true

/-- the tree `load` returns in the compatible case: the template's structure and non-serialised
leaves, the saved model's serialised leaves -/
def merged (m t : PT) : PT := (fill t (List.zipWith Leaf.pick (leaves m) (leaves t))).1

end GinjaxVerif.C13Save
