/-!
# C12 — model of `MultiImage` storage and arithmetic (`ginjax/geometric/multi_image.py`)

Core Lean only (compiled into the correspondence driver).

* `Dict V` is a Python `dict` keyed by `(k, parity)`: an association list in insertion order;
  assigning an existing key keeps its position (`Dict.set`); pytree flatten/unflatten sorts by
  key (`Dict.sortKeys`).
* `Block R` is an array: shape + row-major data.
* `MI R` is a `MultiImage`: `D`, `is_torus`, `data`.
* `add/sub` model the **repaired** code (blocks paired by key, result in `self`'s order, built
  with `append` like the code does); `addLegacy/subLegacy` are the formulas of the unrepaired
  tree (`from_vector(self.to_vector() + other.to_vector(), self)`, defect D7).  `smul`/`div` are
  the code's own `to_vector → * → from_vector(template = self)` path.
-/
namespace GinjaxVerif.C12

/-- tensor type `(k, parity)` -/
abbrev Key := Nat × Nat

/-- Python `dict` with `Key` keys: association list in insertion order. -/
abbrev Dict (V : Type) := List (Key × V)

namespace Dict
variable {V : Type}

def keys (d : Dict V) : List Key := d.map (·.1)
def vals (d : Dict V) : List V := d.map (·.2)

/-- `d[t]` (`none` = `KeyError`) -/
def get? (d : Dict V) (t : Key) : Option V := List.lookup t d

def contains (d : Dict V) (t : Key) : Bool := (keys d).contains t

/-- `d[t] = v`: an existing key keeps its position, a new key goes to the end. -/
def set : Dict V → Key → V → Dict V
  | [], t, v => [(t, v)]
  | (t', v') :: rest, t, v => if t' == t then (t', v) :: rest else (t', v') :: set rest t v

/-- `dict(items)` / `{key: val for key, val in items}` -/
def ofItems (items : List (Key × V)) : Dict V := items.foldl (fun d kv => set d kv.1 kv.2) []

/-- lexicographic order on `(k, parity)`, the order of Python tuples -/
def keyLt (a b : Key) : Bool := a.1 < b.1 || (a.1 == b.1 && a.2 < b.2)

def insertSorted (x : Key × V) : Dict V → Dict V
  | [] => [x]
  | y :: ys => if keyLt y.1 x.1 then y :: insertSorted x ys else x :: y :: ys

/-- the dict that comes back from `tree_unflatten(tree_flatten(d))`: keys sorted -/
def sortKeys (d : Dict V) : Dict V := d.foldr insertSorted []

/-- Python's `a.keys() == b.keys()` (set comparison of two key views) -/
def keysEq {W : Type} (a : Dict V) (b : Dict W) : Bool :=
  (keys a).all (fun t => (keys b).contains t) && (keys b).all (fun t => (keys a).contains t)

/-- the wrong way to compare key views: as lists (`list(a.keys()) == list(b.keys())`) -/
def keysEqAsLists {W : Type} (a : Dict V) (b : Dict W) : Bool := keys a == keys b

end Dict

/-- an array: shape and row-major data (`data.length = shape.prod` for a well-formed block) -/
structure Block (R : Type) where
  shape : List Nat
  data : List R
  deriving Repr, DecidableEq

namespace Block
variable {R : Type}

/-- `img.size` -/
def size (b : Block R) : Nat := b.data.length

def prod (l : List Nat) : Nat := l.foldr (· * ·) 1

def WF (b : Block R) : Prop := b.data.length = prod b.shape

/-- elementwise binary operation of two blocks of the same shape (`x + y`, `x - y`) -/
def zip (f : R → R → R) (x y : Block R) : Block R := ⟨x.shape, List.zipWith f x.data y.data⟩

def map (f : R → R) (x : Block R) : Block R := ⟨x.shape, x.data.map f⟩

/-- row-major concatenation of two flat arrays along an axis: `outer` = product of the extents
before the axis, `ca`/`cb` = product of the extents from the axis on. -/
def concatChunks : Nat → Nat → Nat → List R → List R → List R
  | 0, _, _, _, _ => []
  | outer + 1, ca, cb, xs, ys =>
    xs.take ca ++ ys.take cb ++ concatChunks outer ca cb (xs.drop ca) (ys.drop cb)

/-- `jnp.concatenate((x, y), axis)` -/
def concat (axis : Nat) (x y : Block R) : Block R :=
  let outer := prod (x.shape.take axis)
  let ca := prod (x.shape.drop axis)
  let cb := prod (y.shape.drop axis)
  { shape := x.shape.take axis ++ [x.shape.getD axis 0 + y.shape.getD axis 0] ++ x.shape.drop (axis + 1)
    data := concatChunks outer ca cb x.data y.data }

/-- shapes that `jnp.concatenate` accepts: same rank, equal extents off the axis -/
def concatOk (axis : Nat) (x y : Block R) : Bool :=
  x.shape.length == y.shape.length && decide (axis < x.shape.length) &&
    x.shape.take axis == y.shape.take axis && x.shape.drop (axis + 1) == y.shape.drop (axis + 1)

/-- `jnp.allclose(x, y, rtol, atol)` for equal shapes, with the scalar test as a parameter -/
def allClose (close : R → R → Bool) (x y : Block R) : Bool :=
  x.shape == y.shape && (List.zipWith close x.data y.data).all id

end Block

/-- `MultiImage`: `D`, `is_torus` (one flag per axis), `data`. -/
structure MI (R : Type) where
  D : Nat
  torus : List Bool
  data : Dict (Block R)
  deriving Repr

namespace MI
variable {R : Type}

def keys (a : MI R) : List Key := Dict.keys a.data
def get? (a : MI R) (t : Key) : Option (Block R) := Dict.get? a.data t

/-- the class invariant: every key occurs once (true of every dict) and parities are 0 or 1
(see `build_wf`) -/
def WF (a : MI R) : Prop := (keys a).Nodup ∧ ∀ t ∈ keys a, t.2 < 2

/-- `self.empty()` -/
def empty (a : MI R) : MI R := { a with data := [] }

/-- `MultiImage(data, D, is_torus)`: copies the dict item by item -/
def new (D : Nat) (torus : List Bool) (items : List (Key × Block R)) : MI R :=
  { D := D, torus := torus, data := Dict.ofItems items }

/-- `self.copy()` -/
def copy (a : MI R) : MI R := new a.D a.torus a.data

/-- `self[(k,parity)] = block` -/
def setitem (a : MI R) (t : Key) (b : Block R) : MI R := { a with data := Dict.set a.data t b }

/-- the light shape test of `append`: trailing `k` extents are `D`; `D = 1` only holds scalars -/
def appendShapeOk (a : MI R) (k : Nat) (b : Block R) : Bool :=
  (k == 0 || (decide (k ≤ b.shape.length) && b.shape.drop (b.shape.length - k) == List.replicate k a.D))
    && (a.D != 1 || k == 0)

/-- `get_n_leading()`: from the first block -/
def nLeading (a : MI R) : Nat :=
  match a.data with
  | [] => 0
  | (t, b) :: _ => b.shape.length - (a.D + t.1)

/-- `self.append(k, parity, block, axis)` (**repaired**, D11 = /repo commit ce476a6: the
leading-axis assertion only guards the concatenation onto an existing block); `none` = an assertion / `concatenate` fails -/
def append (a : MI R) (k parity : Nat) (b : Block R) (axis : Nat := 0) : Option (MI R) :=
  let t : Key := (k, parity % 2)
  if !appendShapeOk a k b then none
  else match Dict.get? a.data t with
    | some old =>
      if decide (axis < nLeading a) && Block.concatOk axis old b then
        some (setitem a t (Block.concat axis old b))
      else none
    | none => some (setitem a t b)

/-- D11: `append` before commit ce476a6 asserts `self.data == {} or axis < n_leading` *before* looking at
the key, so a second type can never be appended to a multi-image without leading axes -/
def appendLegacy (a : MI R) (k parity : Nat) (b : Block R) (axis : Nat := 0) : Option (MI R) :=
  if !(a.data.isEmpty || decide (axis < nLeading a)) then none else append a k parity b axis

/-- `append` on the paths the arithmetic uses (fresh key or axis-0 data), total -/
def appendD (d : Dict (Block R)) (t : Key) (b : Block R) : Dict (Block R) :=
  match Dict.get? d t with
  | some old => Dict.set d t (Block.concat 0 old b)
  | none => Dict.set d t b

/-- `self.concat(other, axis)` -/
def concat (a other : MI R) (axis : Nat := 0) : Option (MI R) :=
  if a.D != other.D || a.torus != other.torus then none
  else other.data.foldl (fun acc kv => acc.bind (fun m => append m kv.1.1 kv.1.2 kv.2 axis)) (some (copy a))

/-- `tree_unflatten(tree_flatten(self))`, i.e. what `jit`/`vmap`/`tree_map` hand back -/
def treeRoundtrip (a : MI R) : MI R := new a.D a.torus (Dict.sortKeys a.data)

/-- `self.to_vector()`: concatenation of the raveled blocks in dict order -/
def toVector (a : MI R) : List R := a.data.foldl (fun acc kv => acc ++ kv.2.data) []

/-- the loop of `from_vector` -/
def fromVectorAux : List R → List (Key × Block R) → Dict (Block R) → Dict (Block R)
  | _, [], out => out
  | vec, (t, img) :: rest, out =>
    fromVectorAux (vec.drop img.size) rest (appendD out (t.1, t.2 % 2) ⟨img.shape, vec.take img.size⟩)

/-- `MultiImage.from_vector(vector, template)` -/
def fromVector (vec : List R) (template : MI R) : MI R :=
  { template with data := fromVectorAux vec template.data [] }

/-- `from_vector` of the unrepaired tree: every block goes through `appendLegacy` -/
def fromVectorLegacyAux : List R → List (Key × Block R) → MI R → Option (MI R)
  | _, [], out => some out
  | vec, (t, img) :: rest, out =>
    match appendLegacy out t.1 t.2 ⟨img.shape, vec.take img.size⟩ 0 with
    | none => none
    | some out' => fromVectorLegacyAux (vec.drop img.size) rest out'

def fromVectorLegacy (vec : List R) (template : MI R) : Option (MI R) :=
  fromVectorLegacyAux vec template.data (empty template)

/-- `a * s` on the unrepaired tree -/
def smulLegacy [Mul R] (a : MI R) (s : R) : Option (MI R) :=
  fromVectorLegacy ((toVector a).map (· * s)) a

/-- the three assertions shared by `__add__` and `__sub__` -/
def compatible (a b : MI R) : Bool :=
  a.D == b.D && a.torus == b.torus && Dict.keysEq a.data b.data

/-- the loop of the repaired `__add__`/`__sub__`: `out.append(k, parity, block ∘ other[(k,parity)])` -/
def zipLoop (f : R → R → R) (other : Dict (Block R)) :
    List (Key × Block R) → Dict (Block R) → Option (Dict (Block R))
  | [], out => some out
  | (t, x) :: rest, out =>
    match Dict.get? other t with
    | none => none
    | some y => zipLoop f other rest (appendD out (t.1, t.2 % 2) (Block.zip f x y))

def zipWithKey (f : R → R → R) (a b : MI R) : Option (MI R) :=
  if compatible a b then (zipLoop f b.data a.data []).map (fun d => { a with data := d }) else none

/-- repaired `a + b` (`none` = rejected) -/
def add [Add R] (a b : MI R) : Option (MI R) := zipWithKey (· + ·) a b
/-- repaired `a - b` -/
def sub [Sub R] (a b : MI R) : Option (MI R) := zipWithKey (· - ·) a b

/-- `a * s` -/
def smul [Mul R] (a : MI R) (s : R) : MI R := fromVector ((toVector a).map (· * s)) a
/-- `a / s = a * (1.0 / s)` -/
def div [Mul R] [Div R] [OfNat R 1] (a : MI R) (s : R) : MI R := smul a (1 / s)

/-- D7: the unrepaired `__add__`/`__sub__` pair the two flattened vectors position by position -/
def zipLegacy (f : R → R → R) (a b : MI R) : Option (MI R) :=
  if compatible a b then some (fromVector (List.zipWith f (toVector a) (toVector b)) a) else none

def addLegacy [Add R] (a b : MI R) : Option (MI R) := zipLegacy (· + ·) a b
def subLegacy [Sub R] (a b : MI R) : Option (MI R) := zipLegacy (· - ·) a b

/-- `a == b` with the scalar closeness test (`|x-y| ≤ atol + rtol |y|`) as a parameter -/
def eq (close : R → R → Bool) (a b : MI R) : Bool :=
  a.D == b.D && a.torus == b.torus && Dict.keysEq a.data b.data &&
    (keys a).all (fun t =>
      match get? a t, get? b t with
      | some x, some y => Block.allClose close x y
      | _, _ => false)

/-- blockwise specification of a binary operation: `(a ∘ b)[t] = a[t] ∘ b[t]` -/
def specGet (f : R → R → R) (a b : MI R) (t : Key) : Option (Block R) :=
  match get? a t, get? b t with
  | some x, some y => some (Block.zip f x y)
  | _, _ => none

end MI

/-! ### construction histories -/

/-- one step of the life of a `MultiImage` -/
inductive Step (R : Type) where
  | setitem (t : Key) (b : Block R)
  | append (k parity : Nat) (b : Block R) (axis : Nat)
  | concat (items : List (Key × Block R)) (axis : Nat)
  | copy
  | tree
  | fromVector

/-- run one step; `none` = the real code raises -/
def Step.run {R : Type} (a : MI R) : Step R → Option (MI R)
  | .setitem t b => some (a.setitem t b)
  | .append k p b axis => a.append k p b axis
  | .concat items axis => a.concat (MI.new a.D a.torus items) axis
  | .copy => some a.copy
  | .tree => some a.treeRoundtrip
  | .fromVector => some (MI.fromVector a.toVector a)

/-- a whole history from the constructor on -/
def build {R : Type} (D : Nat) (torus : List Bool) (items : List (Key × Block R))
    (steps : List (Step R)) : Option (MI R) :=
  steps.foldl (fun acc s => acc.bind (fun a => s.run a)) (some (MI.new D torus items))

end GinjaxVerif.C12
