import GinjaxVerif.Model.C20
/-!
# C20 — layerwise propagation of the signature through a model built with an ARBITRARY filter bank

`Model/C20.lean` transcribes the forward passes (`mkResNet`, `mkDilResNet`, `mkUNet`).  This file
holds the *closed forms* that `Properties/C20Banks.lean` proves them equal to, for any set of
filter types in the bank (core Lean only; the driver evaluates them as `c20.reach`).

One layer is `convContractOut bank x target` (`ConvContract.__init__` keeps the weight
`weights[s][t]` iff `(k_s+k_t, (p_s+p_t) % 2)` is in the bank; `individual_convolve` produces `t`
iff some block `s` of the actual input has such a weight; `__call__` re-emits in `target_keys`
order).  A model is a chain of such layers whose targets are `mid_keys` (with the level's channel
count) and finally `output_keys`:

* `ResNet.__call__` / `DilResNet.__call__` (models.py 883-918 / 706-741): encoder (2 layers),
  `num_blocks` residual stages of `num_conv` (resp. 7) layers each followed by `x + residual`
  (`MultiImage.__add__` asserts `self.keys() == other.keys()`: the stage must reproduce the key set
  it started from, otherwise the call raises), decoder (2 layers, the last one onto `output_keys`).
* `UNet.__call__` (models.py 528-568): `num_conv` embedding layers, per level pool + `num_conv`
  layers, per level up-convolution (with `upsample_filters`) + `concat` with the stored skip image
  (`upsample_x.concat(residual)`: the keys of the up-sampled image first, in their order, then the
  keys only the skip image has) + `num_conv` layers, then `decode` onto `output_keys`.

An EMPTY signature is not an error anywhere in the real code: `ConvContract` of an empty MultiImage
is an empty MultiImage (the loops run zero times), so are the norm, the nonlinearity, the pooling,
`empty + empty` and `concat`; the models then *return an empty MultiImage* (no exception), whose
`get_spatial_dims()` is `()`.  `resnetSig` etc. model exactly that (`some []`).
-/
namespace GinjaxVerif.C20

/-- `n` successive layers, each with target list `mid` -/
def midSteps (bank : Bank) (mid : Sig) : Nat → Sig → Sig
  | 0, s => s
  | n + 1, s => midSteps bank mid n (convContractOut bank s mid)

/-- one residual stage of `n` layers: `x + residual` needs the same key set on both sides; both are
in-order parts of `mid_keys`, so this is equality of the signatures.  `none` = the call raises. -/
def stageSig (bank : Bank) (mid : Sig) (n : Nat) (s : Sig) : Option Sig :=
  if midSteps bank mid n s = s then some s else none

/-- `for _ in range(n): s = f(s)` with failure -/
def iterSig (f : Sig → Option Sig) : Nat → Sig → Option Sig
  | 0, s => some s
  | n + 1, s => (f s).bind (iterSig f n)

/-- signature in front of the residual stages: two encoder layers -/
def encoderSig (c : NetCfg) : Sig :=
  convContractOut c.bank (convContractOut c.bank c.inSig c.mid) c.mid

/-- the two decoder layers -/
def decoderSig (c : NetCfg) (s : Sig) : Sig :=
  convContractOut c.bank (convContractOut c.bank s c.mid) c.outSig

/-- output signature of the equivariant `ResNet` for an arbitrary bank (`none`: the call raises in
a residual addition) -/
def resnetSig (c : NetCfg) : Option Sig :=
  (iterSig (stageSig c.bank c.mid c.numConv) c.numBlocks (encoderSig c)).map (decoderSig c)

/-- output signature of the equivariant `DilResNet` (7 dilated layers per stage) -/
def dilresnetSig (c : NetCfg) : Option Sig :=
  (iterSig (stageSig c.bank c.mid dilations.length) c.numBlocks (encoderSig c)).map (decoderSig c)

/-- `num_conv` layers of one UNet level: the first onto `outK` from whatever comes in, the others
`outK → outK` -/
def levelSig (c : NetCfg) (outK : Sig) (s : Sig) : Sig :=
  midSteps c.bank outK c.numConv s

/-- the down loop on signatures: returns the bottom signature and the stored skip signatures
(level 0 first) -/
def downSigs (c : NetCfg) : List Nat → Sig → List Sig → Sig × List Sig
  | [], s, res => (s, res)
  | l :: ls, s, res => downSigs c ls (levelSig c (midAt c.mid (c.depth * 2 ^ l)) s) (res ++ [s])

/-- the up loop on signatures.  The up-convolution (bank `upsample_filters`) emits an in-order part
`up` of `midAt mid (depth·2^u)`, `concat` appends the skip signature `r` to it.  When both carry the
same types (`up = r`) every block gets the `2·depth·2^u` channels the next layer was built for.
Otherwise some block arrives with half the declared channels (the code raises in `convolve`'s
channel assertion as soon as that block feeds a convolution): `none` here means "not covered by the
closed form" — the forward-pass model `mkUNet` still says what happens. -/
def upSigs (c : NetCfg) : List (Nat × Sig) → Sig → Option Sig
  | [], s => some s
  | (u, r) :: rest, s =>
    let up := convContractOut c.upBank s (midAt c.mid (c.depth * 2 ^ u))
    if up = r then
      upSigs c rest (levelSig c (midAt c.mid (c.depth * 2 ^ u)) (concatSig up r))
    else none

/-- output signature of the equivariant `UNet` for arbitrary banks (both `conv_filters` and
`upsample_filters`), when every up-sampled image carries the types of its skip image -/
def unetSig (c : NetCfg) : Option Sig :=
  let e := levelSig c c.mid c.inSig
  let (bottom, res) := downSigs c (List.range' 1 c.numDown) e []
  (upSigs c (List.zip (List.range c.numDown).reverse res.reverse) bottom).map
    (fun s => convContractOut c.bank s c.outSig)

/-- the requested types that are silently absent from an output signature -/
def absentTypes (requested out : Sig) : List Ty :=
  (keysOf requested).filter (fun t => !(keysOf out).contains t)

end GinjaxVerif.C20
