/-!
# C05 — `get_contraction_indices` (functional_geometric_image.py), code-shaped model

"Get all possible unique indices for multicontraction": the function enumerates the lists of
`(initial_k - final_k)/2` index pairs, and uses the two independences stated by C05 (order inside
a pair, order of the pairs) to drop duplicates.  The model follows the Python line by line; rows
are flat `List Nat` as the numpy rows are, a pair inside `sorted_tuples` is a two-element list
`[x, y]` as in the Python (`sorted([x, y])`), and lists are compared lexicographically (Python's
list order and the row order of `np.unique(…, axis=0)`): core `<` on `List Nat`.

Core Lean only (compiled into the driver).
-/
namespace GinjaxVerif.C05

/-- `itertools.combinations(xs, n)`: the length-`n` subsequences, in itertools order (those
containing the first element first). -/
def combinations {α : Type} : Nat → List α → List (List α)
  | 0, _ => [[]]
  | _ + 1, [] => []
  | n + 1, x :: xs => (combinations n xs).map (x :: ·) ++ combinations (n + 1) xs

/-- `len(np.unique(row)) == len(row)`: no index occurs twice -/
def allDistinct : List Nat → Bool
  | [] => true
  | x :: xs => !xs.contains x && allDistinct xs

/-- `zip(row[0::2], row[1::2])` (a trailing odd element is dropped, as `zip` does) -/
def pairsOfRow : List Nat → List (Nat × Nat)
  | x :: y :: rest => (x, y) :: pairsOfRow rest
  | _ => []

/-- one step of `sorted` (insertion before the first element that is not smaller) -/
def insertLex (a : List Nat) : List (List Nat) → List (List Nat)
  | [] => [a]
  | b :: l => if b < a then b :: insertLex a l else a :: b :: l

/-- `sorted(…)` of a list of integer lists (duplicates kept) -/
def sortLex (l : List (List Nat)) : List (List Nat) := l.foldr insertLex []

/-- insertion into a sorted list of distinct rows; an equal row is not inserted again -/
def insertUnique (a : List Nat) : List (List Nat) → List (List Nat)
  | [] => [a]
  | b :: l => if b < a then b :: insertUnique a l else if a = b then b :: l else a :: b :: l

/-- `np.unique(rows, axis=0)`: the distinct rows in lexicographic order -/
def uniqueRows (rows : List (List Nat)) : List (List Nat) := rows.foldr insertUnique []

/-- `sorted(sorted([x, y]) for x, y in zip(row[0::2], row[1::2]))`, reshaped to a flat row -/
def sortedRow (row : List Nat) : List Nat :=
  (sortLex ((pairsOfRow row).map (fun p => if p.1 ≤ p.2 then [p.1, p.2] else [p.2, p.1]))).flatten

/-- `unique_pairs[np.where(np.isin(unique_pairs, b))] = a` for the swappable pairs in turn -/
def replaceSwappable : List (Nat × Nat) → List (List Nat) → List (List Nat)
  | [], rows => rows
  | (a, b) :: sw, rows => replaceSwappable sw (rows.map (fun r => r.map (fun x => if x = b then a else x)))

/-- positions of `row` holding one of the two indices (`np.where(np.isin(row, pair))`) -/
def locsOf (p : Nat × Nat) (row : List Nat) : List Nat :=
  (List.range row.length).filter (fun i => row.getD i 0 = p.1 || row.getD i 0 = p.2)

/-- the restore step on one row: the last location gets `pair[1]`, then the first gets `pair[0]` -/
def restoreRow (p : Nat × Nat) (row : List Nat) : List Nat :=
  match locsOf p row with
  | [] => row
  | l :: ls => (row.set ((l :: ls).getLast (List.cons_ne_nil l ls)) p.2).set l p.1

/-- the restore loop (`for pair in swappable_idxs: for row in unique_sorted_rows: …`, in place) -/
def restoreSwappable : List (Nat × Nat) → List (List Nat) → List (List Nat)
  | [], rows => rows
  | p :: sw, rows => restoreSwappable sw (rows.map (restoreRow p))

/-- `get_contraction_indices(initial_k, final_k, swappable_idxs)`; `none` = the Python raises.
`final_k >= 0` holds by typing (the driver rejects negative arguments).  The branch `rows = []`
(numpy would index a 1-d empty float array with a float mask: `IndexError`) is unreachable when
the asserts hold (`contractionIndices_isSome`). -/
def contractionIndices (initialK finalK : Nat) (swappable : List (Nat × Nat)) :
    Option (List (List (Nat × Nat))) :=
  if (initialK + finalK) % 2 ≠ 0 then none
  else if initialK < finalK then none
  else
    let tuplePairs := combinations ((initialK - finalK) / 2) (combinations 2 (List.range initialK))
    let rows := tuplePairs.map List.flatten
    if rows.isEmpty then none
    else
      let uniquePairs := rows.filter allDistinct
      let replaced := replaceSwappable swappable uniquePairs
      let sortedRows := replaced.map sortedRow
      let uniqueSorted := uniqueRows sortedRows
      let restored := restoreSwappable swappable uniqueSorted
      some (restored.map pairsOfRow)

end GinjaxVerif.C05
