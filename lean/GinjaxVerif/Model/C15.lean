/-!
# C15 — time-series windowing: model of `ginjax/data.py`
(`time_series_idxs`, `times_series_to_multi_images`, `batch_time_series`) and of the
`MultiImage` re-layouts they use (`expand`, `combine_axes`, `append(axis=1)`, `average_pool`).

Core Lean only (no Mathlib): this file is compiled into the correspondence driver.

The operations only touch the LEADING axes (channel·time, window, trajectory).  Everything behind
them (spatial and tensor axes) is one opaque *frame* of type `α`.  A block with one leading axis
is a `List α`, with two a `List (List α)`, ….  A `MultiImage` is an association list from keys
`κ` (the code's `(k, parity)`) to blocks, in `dict` insertion order.  `none` = the code raises.
-/
namespace GinjaxVerif.C15

variable {α β γ κ : Type}

/-! ## little numpy -/

/-- all-or-nothing: a list of results, failing as soon as one element fails -/
def allSome : List (Option β) → Option (List β)
  | [] => some []
  | none :: _ => none
  | some a :: r => (allSome r).map (a :: ·)

/-- rows of length `T` cut from a list (`reshape(-1, T)` on axis 0 when `T` divides) -/
def chunk (T : Nat) (l : List α) : List (List α) :=
  (List.range (l.length / T)).map (fun c => (l.drop (c * T)).take T)

/-- `block.reshape((-1, T) + block.shape[1:])`: numpy raises when `-1` cannot be inferred -/
def expandAxis0 (T : Nat) (l : List α) : Option (List (List α)) :=
  if T = 0 ∨ l.length % T ≠ 0 then none else some (chunk T l)

/-- `a[idxs]` on axis 0 with a 1-d index list.  (jax clamps out-of-range indices instead of
raising; the model refuses them, and `idxs_in_range` shows none is ever produced.) -/
def gather (l : List α) (idxs : List Nat) : Option (List α) := allSome (idxs.map (l[·]?))

/-- `a[idxs]` with a 2-d index array `(n, steps)`: result `(n, steps)` -/
def gather2 (l : List α) (idxs : List (List Nat)) : Option (List (List α)) :=
  allSome (idxs.map (gather l))

/-- `jnp.moveaxis(a, 1, 0)` on the two leading axes of a `(c, n, …)` array, `n` given -/
def moveaxis10 (n : Nat) (ll : List (List β)) : List (List β) :=
  (List.range n).map (fun w => ll.filterMap (·[w]?))

/-- `jnp.arange(lo, hi, step)` for naturals, `step ≥ 1`: `⌈(hi-lo)/step⌉` values -/
def arangeStep (lo hi step : Nat) : List Nat :=
  (List.range ((hi - lo + step - 1) / step)).map (fun i => lo + i * step)

/-- `a[:, None] + b[None, :]` -/
def outerAdd (a b : List Nat) : List (List Nat) := a.map (fun x => b.map (fun y => x + y))

/-! ## `time_series_idxs` -/

/-- `time_series_idxs(past_steps, future_steps, delta_t, total_steps)`; `total_steps` is an
integer because the caller passes `total_steps - skip_initial`.  The three `assert`s and the
`ZeroDivisionError` of `arange(…, step=0)` are the rejections. -/
def timeSeriesIdxs (p f dt : Nat) (T' : Int) : Option (List (List Nat) × List (List Nat)) :=
  let first1 : Int := 0
  let last1 : Int := T' - (f : Int) * dt - ((p : Int) - 1) * dt
  if ¬ first1 < last1 then none else
  if dt = 0 then none else
  let inI := outerAdd (arangeStep first1.toNat last1.toNat 1) (arangeStep 0 (p * dt) dt)
  let first2 : Int := (p : Int) * dt
  let last2 : Int := T' - ((f : Int) - 1) * dt
  if ¬ first2 < last2 then none else
  let outI := outerAdd (arangeStep first2.toNat last2.toNat 1) (arangeStep 0 (f * dt) dt)
  if inI.length ≠ outI.length then none else
  some (inI, outI)

/-! ## multi-images as association lists -/

abbrev MI (κ β : Type) := List (κ × β)

def lookup [DecidableEq κ] (k : κ) : MI κ β → Option β
  | [] => none
  | (k', b) :: r => if k' = k then some b else lookup k r

def mapVals (g : β → γ) (m : MI κ β) : MI κ γ := m.map (fun kb => (kb.1, g kb.2))

/-- `MultiImage.append(k, parity, block, axis)`: concatenate (with `cat`, the concatenation along
`axis`) onto an existing key in place, or insert the new key last. -/
def appendKey [DecidableEq κ] (cat : β → β → β) : MI κ β → κ → β → MI κ β
  | [], k, b => [(k, b)]
  | (k', b') :: r, k, b =>
    if k' = k then (k', cat b' b) :: r else (k', b') :: appendKey cat r k b

/-- `get_L` / `len(next(iter(values())))` -/
def getL : MI κ (List β) → Nat
  | [] => 0
  | (_, b) :: _ => b.length

/-! ## `times_series_to_multi_images` -/

/-- body of the loop for one type and one of the two index arrays (`steps` = `past_steps` or
`future_steps`): `image[:, skip:]`, `image[:, idxs]`, `.reshape((c, -1, steps) + …)`,
`moveaxis(1, 0)`.  `img` is the expanded block `(c, T)`; result `(n, c, steps)`. -/
def windowsBlock (steps s : Nat) (idxs : List (List Nat)) (img : List (List α)) :
    Option (List (List (List α))) :=
  let img' := img.map (List.drop s)
  match allSome (img'.map (fun ch => gather2 ch idxs)) with
  | none => none
  | some g =>
    -- the gather already has shape (c, n, steps); the reshape only has to infer `-1`, which numpy
    -- refuses when the known extent `c * steps` is zero
    if img.length * steps = 0 then none else some (moveaxis10 idxs.length g)

/-- `dynamic_fields.expand(0, total_steps)` -/
def expandMI (T : Nat) (dyn : MI κ (List α)) : Option (MI κ (List (List α))) :=
  allSome (dyn.map (fun kb => (expandAxis0 T kb.2).map (fun e => (kb.1, e))))

/-- the loop over the types of the expanded dynamic fields.  The keys of a dict are distinct and
the target multi-image starts empty, so every `append` takes its insert branch: a map. -/
def windowsMI (steps s : Nat) (idxs : List (List Nat)) (ex : MI κ (List (List α))) :
    Option (MI κ (List (List (List α)))) :=
  allSome (ex.map (fun ke => (windowsBlock steps s idxs ke.2).map (fun r => (ke.1, r))))

/-- `combine_axes((1, 2))`: `(n, c, steps) → (n, c·steps)` -/
def combine12 (m : MI κ (List (List (List α)))) : MI κ (List (List α)) :=
  mapVals (List.map List.flatten) m

/-- the loop `for key, image in constant_fields.items(): x.append(key, full((batch,)+shape, image),
axis=1)`: concatenation along axis 1 is the per-sample list append. -/
def appendConsts [DecidableEq κ] (batch : Nat) (const : MI κ (List α))
    (x : MI κ (List (List α))) : MI κ (List (List α)) :=
  const.foldl (fun m kc => appendKey (List.zipWith (· ++ ·)) m kc.1 (List.replicate batch kc.2)) x

/-- `for _ in range(n): x = g(x)` -/
def iter (g : β → β) : Nat → β → β
  | 0, x => x
  | n + 1, x => iter g n (g x)

/-- `MultiImage.average_pool(2)`: every frame of every type is pooled (`pool` is any function) -/
def poolMI (pool : α → α) (m : MI κ (List (List α))) : MI κ (List (List α)) :=
  mapVals (List.map (List.map pool)) m

/-- `times_series_to_multi_images(dynamic, constant, T, p, f, skip, dt, downsample)` -/
def toWindows [DecidableEq κ] (pool : α → α) (T p f dt s ds : Nat)
    (dyn const : MI κ (List α)) : Option (MI κ (List (List α)) × MI κ (List (List α))) :=
  if dyn.isEmpty then none else
  match timeSeriesIdxs p f dt ((T : Int) - s) with
  | none => none
  | some (inI, outI) =>
    match expandMI T dyn with
    | none => none
    | some ex =>
      match windowsMI p s inI ex, windowsMI f s outI ex with
      | some x3, some y3 =>
        let x := combine12 x3
        let y := combine12 y3
        let x := appendConsts (getL x) const x
        some (iter (poolMI pool) ds x, iter (poolMI pool) ds y)
      | _, _ => none

/-! ## `batch_time_series` -/

/-- the multi-image `vmap` hands to the mapped function for trajectory `b` -/
def sliceTraj (b : Nat) (m : MI κ (List β)) : Option (MI κ β) :=
  allSome (m.map (fun kb => kb.2[b]?.map (fun v => (kb.1, v))))

/-- `vmap` stacks the per-trajectory results leaf by leaf (keys of the first result), then
`combine_axes((0, 1))` merges trajectory and window axes. -/
def stackMerge [DecidableEq κ] (rs : List (MI κ (List γ))) : MI κ (List γ) :=
  match rs with
  | [] => []
  | r :: _ => r.map (fun kb => (kb.1, (rs.filterMap (lookup kb.1)).flatten))

/-- `batch_time_series`: `vmap` over axis 0 of both multi-images (all blocks must have the same
extent there), then merge of the first two axes. -/
def batchTimeSeries [DecidableEq κ] (pool : α → α) (T p f dt s ds : Nat)
    (dyn const : MI κ (List (List α))) :
    Option (MI κ (List (List α)) × MI κ (List (List α))) :=
  let B := getL dyn
  if B = 0 then none else
  if ¬ ((dyn ++ const).all (fun kb => kb.2.length = B)) then none else
  match allSome ((List.range B).map (fun b =>
      match sliceTraj b dyn, sliceTraj b const with
      | some d, some c => toWindows pool T p f dt s ds d c
      | _, _ => none)) with
  | none => none
  | some rs => some (stackMerge (rs.map Prod.fst), stackMerge (rs.map Prod.snd))

/-! ## the specification: the sentence of the property -/

/-- a block `(c·T)` given by its frames: row `ch·T + t` is channel `ch` at time `t` -/
def mkBlock (c T : Nat) (fr : Nat → Nat → α) : List α :=
  (List.range c).flatMap (fun ch => (List.range T).map (fr ch))

/-- number of samples -/
def nWindows (T p f dt s : Nat) : Nat := T - s - (p + f - 1) * dt

/-- sample `w` of a type with `c` channels: per channel, `m` steps starting `a` steps after the
window start: times `s + w + (a + j)·dt`.  Input: `a = 0, m = p`; target: `a = p, m = f`. -/
def specSample (c m a dt s : Nat) (fr : Nat → Nat → α) (w : Nat) : List α :=
  (List.range c).flatMap (fun ch => (List.range m).map (fun j => fr ch (s + w + (a + j) * dt)))

def specBlock (n c m a dt s : Nat) (fr : Nat → Nat → α) : List (List α) :=
  (List.range n).map (specSample c m a dt s fr)

end GinjaxVerif.C15
